(* KrylovProofs.v -- lemmas about the Krylov models (Krylov.v) and their textbook
   references (KrylovRef.v).
   Part 1 (any Scalar record, no laws): iteration bounds, fuel sufficiency, shape of the
     returned residual (recomputed for Richardson/GMRES/FGMRES), junk independence of the
     workspaces, trivial exits.
   Part 2 (commutative ring + decidable equality + linear, length preserving A and P):
     residual invariants (C01-A1) and model = textbook recurrence (C05-A1). *)
From Amgcl Require Import Scalar Vec Kernels KernelsProofs Krylov KrylovRef.
From Coq Require Import ZifyBool.
Local Open Scope S_scope.
Local Notation SS := Datatypes.S.

(* ================================================================== *)
(* Part 1: any Scalar                                                 *)
Section AnyScalar.
Context {S : Scalar}.
Local Notation vec := (vec S).
Local Notation cg_st := (@cg_st S).
Local Notation cg_ws := (@cg_ws S).
Local Notation ri_st := (@ri_st S).
Local Notation ri_ws := (@ri_ws S).
Local Notation bs_st := (@bs_st S).
Local Notation bs_ws := (@bs_ws S).
Local Notation gm_ws := (@gm_ws S).
Local Notation gm_in := (@gm_in S).
Local Notation kprm := (@kprm S).
Local Notation kres := (@kres S).
Local Notation lg_ws := (@lg_ws S).

(* ---------- lists: extensionality through nth_error ---------- *)
Lemma nth_error_ext {X} (l l' : list X) : (forall i, nth_error l i = nth_error l' i) -> l = l'.
Proof.
  revert l'; induction l as [|a l IH]; intros [|b l'] H.
  - reflexivity.
  - specialize (H 0). discriminate.
  - specialize (H 0). discriminate.
  - f_equal. { specialize (H 0). simpl in H. congruence. }
    apply IH. intro i. exact (H (SS i)).
Qed.

Lemma nth_error_vmap2 (f : S -> S -> S) (x y : vec) i :
  nth_error (vmap2 f x y) i =
  match nth_error x i, nth_error y i with Some a, Some b => Some (f a b) | _, _ => None end.
Proof.
  revert y i; induction x as [|a x IH]; intros [|b y] [|i]; simpl; try reflexivity.
  - destruct (nth_error x i); reflexivity.
  - apply IH.
Qed.

Lemma nth_error_vmap3 (f : S -> S -> S -> S) (x y z : vec) i :
  nth_error (vmap3 f x y z) i =
  match nth_error x i, nth_error y i, nth_error z i with
  | Some a, Some b, Some c => Some (f a b c) | _, _, _ => None end.
Proof.
  revert y z i; induction x as [|a x IH]; intros [|b y] [|c z] [|i]; simpl; try reflexivity;
    try (destruct (nth_error x i); reflexivity);
    try (destruct (nth_error x i); [destruct (nth_error y i)|]; reflexivity).
  apply IH.
Qed.

Lemma vmap2_length (f : S -> S -> S) (x y : vec) : length (vmap2 f x y) = Nat.min (length x) (length y).
Proof. revert y; induction x as [|a x IH]; intros [|b y]; simpl; auto. Qed.
Lemma vmap3_length (f : S -> S -> S -> S) (x y z : vec) :
  length (vmap3 f x y z) = Nat.min (length x) (Nat.min (length y) (length z)).
Proof. revert y z; induction x as [|a x IH]; intros [|b y] [|c z]; simpl; auto. Qed.

Lemma zipw_vmap2 (f : S -> S -> S) (x y : vec) : zipw f x y = vmap2 f x y.
Proof. revert y; induction x as [|a x IH]; intros [|b y]; simpl; congruence. Qed.

(* ---------- the sized primitives coincide with the backend kernels on vectors of equal length ---------- *)
Lemma upd2_vmap2 (f : S -> S -> S) (x y : vec) : length x = length y -> Vec.upd2 f x y = vmap2 f x y.
Proof.
  revert y; induction x as [|a x IH]; intros [|b y] H; simpl in *; try discriminate; try reflexivity.
  f_equal. apply IH. congruence.
Qed.
Lemma upd2_map (g : S -> S) (x y : vec) : length x = length y -> Vec.upd2 (fun a _ => g a) x y = map g x.
Proof.
  revert y; induction x as [|a x IH]; intros [|b y] H; simpl in *; try discriminate; try reflexivity.
  f_equal. apply IH. congruence.
Qed.
Lemma upd3_vmap3 (f : S -> S -> S -> S) (x y z : vec) : length x = length z -> length y = length z ->
  Vec.upd3 f x y z = vmap3 f x y z.
Proof.
  revert y z; induction x as [|a x IH]; intros [|b y] [|c z] H1 H2; simpl in *; try discriminate; try reflexivity.
  f_equal. apply IH; congruence.
Qed.
Lemma upd3_vmap2 (g : S -> S -> S) (x y z : vec) : length x = length z -> length y = length z ->
  Vec.upd3 (fun a b _ => g a b) x y z = vmap2 g x y.
Proof.
  revert y z; induction x as [|a x IH]; intros [|b y] [|c z] H1 H2; simpl in *; try discriminate; try reflexivity.
  f_equal. apply IH; congruence.
Qed.

Theorem k_axpby_kernels a (x : vec) b (y : vec) : length x = length y -> k_axpby a x b y = axpby a x b y.
Proof.
  intro H. unfold k_axpby, axpby. destruct (is_zero b).
  - symmetry. apply (upd2_map (fun xi => a * xi)). exact H.
  - symmetry. apply upd2_vmap2. exact H.
Qed.
Theorem k_axpbypcz_kernels a (x : vec) b (y : vec) c (z : vec) : length x = length z -> length y = length z ->
  k_axpbypcz a x b y c z = axpbypcz a x b y c z.
Proof.
  intros H1 H2. unfold k_axpbypcz, axpbypcz. destruct (is_zero c).
  - symmetry. apply (upd3_vmap2 (fun xi yi => a * xi + b * yi)); assumption.
  - symmetry. apply upd3_vmap3; assumption.
Qed.
Theorem k_clear_kernels (x : vec) : k_clear x = vclear x.
Proof. reflexivity. Qed.
Theorem k_copy_kernels (x y : vec) : length y = length x -> x = vcopy x y.
Proof. intro H. symmetry. apply vcopy_spec. exact H. Qed.

(* ---------- prologue ---------- *)
Lemma prologue_cases nrm (prm : kprm) (f : vec) :
  (k_prologue nrm prm f = Trivial (nrm f) /\ sltb (nrm f) eps1 = true /\ p_ns prm = false) \/
  (exists nr, k_prologue nrm prm f = Go nr).
Proof.
  unfold k_prologue. destruct (sltb (nrm f) eps1) eqn:E.
  - destruct (p_ns prm) eqn:N; [right; eexists; reflexivity | left; auto].
  - right; eexists; reflexivity.
Qed.

(* =============================== CG =============================== *)
Lemma cg_loop_it (A P : vec -> vec) eps fuel (st : cg_st) : c_it st <= c_it (cg_loop A P eps fuel st) <= c_it st + fuel.
Proof.
  revert st; induction fuel as [|k IH]; intro st; simpl; [lia|].
  destruct (sltb eps (sabs (c_res st))); [|lia].
  specialize (IH (cg_step A P st)). simpl in IH. lia.
Qed.

Theorem cg_iters_le_maxiter (A P : vec -> vec) prm (f x0 : vec) junk r w :
  cg A P prm f x0 junk = (KOk r, w) -> k_it r <= p_maxiter prm /\ k_oof r = false.
Proof.
  unfold cg. destruct (k_prologue norm_a prm f) as [nr|nr].
  - intro H; inversion H; subst; simpl; split; [lia|reflexivity].
  - unfold cg_init. intro H; inversion H; subst; simpl. split; [|reflexivity].
    match goal with |- c_it (cg_loop ?A ?P ?e ?fu ?st) <= _ => pose proof (cg_loop_it A P e fu st) as B end.
    simpl in B. lia.
Qed.

(* junk independence: two loop states are related when everything the code can read agrees;
   p may differ as long as no iteration has been made (it is overwritten by copy(s, p)) *)
Definition cg_rel (a b : cg_st) : Prop :=
  c_x a = c_x b /\ cg_r (c_ws a) = cg_r (c_ws b) /\ c_rho1 a = c_rho1 b /\ c_res a = c_res b /\
  c_it a = c_it b /\ (c_it a <> 0 -> cg_p (c_ws a) = cg_p (c_ws b)).

Lemma cg_step_rel (A P : vec -> vec) (a b : cg_st) : cg_rel a b -> cg_rel (cg_step A P a) (cg_step A P b) /\
  (c_it a <> 0 -> c_ws (cg_step A P a) = c_ws (cg_step A P b)).
Proof.
  intros (Hx & Hr & Hrho & Hres & Hit & Hp).
  assert (Hpp : (if Nat.eqb (c_it a) 0 then P (cg_r (c_ws a))
                 else k_axpby s1 (P (cg_r (c_ws a))) (ip (cg_r (c_ws a)) (P (cg_r (c_ws a))) / c_rho1 a) (cg_p (c_ws a)))
              = (if Nat.eqb (c_it b) 0 then P (cg_r (c_ws b))
                 else k_axpby s1 (P (cg_r (c_ws b))) (ip (cg_r (c_ws b)) (P (cg_r (c_ws b))) / c_rho1 b) (cg_p (c_ws b)))).
  { rewrite <- Hit, <- Hr, <- Hrho. destruct (Nat.eqb (c_it a) 0) eqn:E; [reflexivity|].
    rewrite Hp; [reflexivity|]. apply Nat.eqb_neq. exact E. }
  unfold cg_step, cg_rel; simpl. rewrite Hpp, <- Hx, <- Hr, <- Hit.
  repeat split; reflexivity.
Qed.

Lemma cg_loop_rel (A P : vec -> vec) eps fuel : forall a b : cg_st, cg_rel a b ->
  cg_rel (cg_loop A P eps fuel a) (cg_loop A P eps fuel b).
Proof.
  induction fuel as [|k IH]; intros a b R; simpl; [exact R|].
  assert (Hres : c_res a = c_res b) by (destruct R as (_ & _ & _ & H & _); exact H).
  rewrite <- Hres. destruct (sltb eps (sabs (c_res a))); [|exact R].
  apply IH. apply cg_step_rel. exact R.
Qed.

Theorem cg_junk_independent (A P : vec -> vec) prm (f x0 : vec) (j1 j2 : cg_ws) :
  fst (cg A P prm f x0 j1) = fst (cg A P prm f x0 j2).
Proof.
  unfold cg. destruct (k_prologue norm_a prm f) as [nr|nr]; [reflexivity|].
  unfold cg_init; simpl.
  match goal with |- KOk (mkRes (c_it (cg_loop ?A ?P ?e ?fu ?sa)) _ _ _) = KOk (mkRes (c_it (cg_loop _ _ _ _ ?sb)) _ _ _) =>
    assert (R : cg_rel sa sb) by (unfold cg_rel; simpl; repeat split; try reflexivity; intro H; exfalso; apply H; reflexivity);
    pose proof (cg_loop_rel A P e fu sa sb R) as (Hx & _ & _ & Hres & Hit & _) end.
  rewrite Hx, Hres, Hit. reflexivity.
Qed.

(* zero right-hand side (norm below the trivial threshold, ns_search off): x = 0, zero iterations *)
Theorem cg_zero_rhs (A P : vec -> vec) prm (f x0 : vec) junk :
  sltb (norm_a f) eps1 = true -> p_ns prm = false ->
  fst (cg A P prm f x0 junk) = KOk (mkRes 0 (norm_a f) (k_clear x0) false).
Proof. intros H N. unfold cg, k_prologue. rewrite H, N. reflexivity. Qed.

(* initial guess already within tolerance: returned unchanged, zero iterations *)
Theorem cg_converged_guess (A P : vec -> vec) prm (f x0 : vec) junk nr :
  k_prologue norm_a prm f = Go nr ->
  sltb (smax (p_tol prm * nr) (p_abstol prm)) (sabs (norm_a (k_residual f (A x0)))) = false ->
  exists res, fst (cg A P prm f x0 junk) = KOk (mkRes 0 res x0 false).
Proof.
  intros Hp Hc. unfold cg. rewrite Hp. unfold cg_init. simpl.
  destruct (p_maxiter prm); simpl; [eexists; reflexivity|].
  rewrite Hc. eexists; reflexivity.
Qed.

(* =========================== Richardson =========================== *)
Lemma ri_loop_it (A P : vec -> vec) d f eps fuel (st : ri_st) : i_it st <= i_it (ri_loop A P d f eps fuel st) <= i_it st + fuel.
Proof.
  revert st; induction fuel as [|k IH]; intro st; simpl; [lia|].
  destruct (sltb eps (sabs (i_res st))); [|lia].
  specialize (IH (ri_step A P d f st)). simpl in IH. lia.
Qed.

Theorem richardson_iters_le_maxiter (A P : vec -> vec) prm (f x0 : vec) junk r w :
  richardson A P prm f x0 junk = (KOk r, w) -> k_it r <= p_maxiter prm /\ k_oof r = false.
Proof.
  unfold richardson. destruct (k_prologue norm_a prm f) as [nr|nr].
  - intro H; inversion H; subst; simpl; split; [lia|reflexivity].
  - intro H; inversion H; subst; simpl. split; [|reflexivity].
    match goal with |- i_it (ri_loop ?A ?P ?d ?f ?e ?fu ?st) <= _ => pose proof (ri_loop_it A P d f e fu st) as B end.
    simpl in B. lia.
Qed.

(* the carried residual is recomputed from x in every pass: invariant without any algebra *)
Definition ri_inv (A : vec -> vec) (f : vec) (st : ri_st) : Prop :=
  ri_r (i_ws st) = k_residual f (A (i_x st)) /\ i_res st = norm_a (ri_r (i_ws st)).
Lemma ri_loop_inv (A P : vec -> vec) d f eps fuel : forall st : ri_st, ri_inv A f st -> ri_inv A f (ri_loop A P d f eps fuel st).
Proof.
  induction fuel as [|k IH]; intros st I; simpl; [exact I|].
  destruct (sltb eps (sabs (i_res st))); [|exact I].
  apply IH. unfold ri_inv, ri_step; simpl. split; reflexivity.
Qed.

Theorem richardson_residual_truthful (A P : vec -> vec) prm (f x0 : vec) junk nr r w :
  k_prologue norm_a prm f = Go nr ->
  richardson A P prm f x0 junk = (KOk r, w) ->
  k_res r = true_res norm_a A P false f (k_x r) / nr.
Proof.
  intros Hp. unfold richardson. rewrite Hp. intro H; inversion H; subst; clear H; simpl.
  match goal with |- i_res (ri_loop ?A ?P ?d ?f ?e ?fu ?st) / _ = _ =>
    assert (I : ri_inv A f st) by (split; reflexivity);
    pose proof (ri_loop_inv A P d f e fu st I) as (I1 & I2) end.
  unfold true_res. rewrite I2, I1. reflexivity.
Qed.

Theorem richardson_junk_independent (A P : vec -> vec) prm (f x0 : vec) (j1 j2 : ri_ws) :
  fst (richardson A P prm f x0 j1) = fst (richardson A P prm f x0 j2).
Proof.
  unfold richardson. destruct (k_prologue norm_a prm f) as [nr|nr]; [reflexivity|].
  assert (L : forall fuel a b, i_x a = i_x b -> ri_r (i_ws a) = ri_r (i_ws b) -> i_res a = i_res b -> i_it a = i_it b ->
     let a' := ri_loop A P (p_damping prm) f (smax (p_tol prm * nr) (p_abstol prm)) fuel a in
     let b' := ri_loop A P (p_damping prm) f (smax (p_tol prm * nr) (p_abstol prm)) fuel b in
     i_x a' = i_x b' /\ i_res a' = i_res b' /\ i_it a' = i_it b').
  { induction fuel as [|k IH]; intros a b Hx Hr Hres Hit; simpl; [auto|].
    rewrite <- Hres. destruct (sltb _ (sabs (i_res a))); [|auto].
    apply IH; unfold ri_step; simpl; rewrite <- ?Hx, <- ?Hr, <- ?Hit; reflexivity. }
  simpl.
  match goal with |- KOk (mkRes (i_it (ri_loop _ _ _ _ _ ?fu ?sa)) _ _ _) = KOk (mkRes (i_it (ri_loop _ _ _ _ _ _ ?sb)) _ _ _) =>
    destruct (L fu sa sb eq_refl eq_refl eq_refl eq_refl) as (Hx & Hres & Hit) end.
  rewrite Hx, Hres, Hit. reflexivity.
Qed.

Theorem richardson_zero_rhs (A P : vec -> vec) prm (f x0 : vec) junk :
  sltb (norm_a f) eps1 = true -> p_ns prm = false ->
  fst (richardson A P prm f x0 junk) = KOk (mkRes 0 (norm_a f) (k_clear x0) false).
Proof. intros H N. unfold richardson, k_prologue. rewrite H, N. reflexivity. Qed.

Theorem richardson_converged_guess (A P : vec -> vec) prm (f x0 : vec) junk nr :
  k_prologue norm_a prm f = Go nr ->
  sltb (smax (p_tol prm * nr) (p_abstol prm)) (sabs (norm_a (k_residual f (A x0)))) = false ->
  exists res, fst (richardson A P prm f x0 junk) = KOk (mkRes 0 res x0 false).
Proof.
  intros Hp Hc. unfold richardson. rewrite Hp. simpl.
  destruct (p_maxiter prm); simpl; [eexists; reflexivity|].
  rewrite Hc. eexists; reflexivity.
Qed.

(* ============================ BiCGStab ============================ *)
Lemma bs_step_it (A P : vec -> vec) left eps (st st' : bs_st) :
  bs_step A P left eps st = Some st' -> b_it st' = SS (b_it st).
Proof.
  unfold bs_step.
  destruct (if b_first st then Some (bs_r (b_ws st)) else
            if is_zero (b_rho1 st) then None else _) as [p|]; [|discriminate].
  destruct (pspmv left A P p) as [v T].
  match goal with |- context [sltb eps ?r] => destruct (sltb eps r) end.
  - match goal with |- context [pspmv left A P ?s] => destruct (pspmv left A P s) as [t T'] end.
    match goal with |- context [is_zero ?o] => destruct (is_zero o) end; [discriminate|].
    intro H; inversion H; reflexivity.
  - intro H; inversion H; reflexivity.
Qed.

Lemma bs_loop_it (A P : vec -> vec) left ca eps fuel : forall st st' : bs_st,
  bs_loop A P left ca eps fuel st = Some st' -> b_it st <= b_it st' <= b_it st + fuel.
Proof.
  induction fuel as [|k IH]; intros st st'; simpl.
  - intro H; inversion H; lia.
  - destruct (sltb eps (b_res st) || (b_first st && ca)); [|intro H; inversion H; lia].
    destruct (bs_step A P left eps st) as [s1'|] eqn:E; [|discriminate].
    intro H. apply IH in H. apply bs_step_it in E. lia.
Qed.

Theorem bicgstab_iters_le_maxiter (A P : vec -> vec) prm (f x0 : vec) junk r w :
  bicgstab A P prm f x0 junk = (KOk r, w) -> k_it r <= p_maxiter prm /\ k_oof r = false.
Proof.
  unfold bicgstab. destruct (k_prologue norm_a prm f) as [nr|nr].
  - intro H; inversion H; subst; simpl; split; [lia|reflexivity].
  - unfold bs_init.
    match goal with |- context [bs_loop ?A ?P ?l ?c ?e ?fu ?st] => destruct (bs_loop A P l c e fu st) as [st'|] eqn:E end;
      [|discriminate].
    intro H; inversion H; subst; simpl. split; [|reflexivity].
    apply bs_loop_it in E. simpl in E. lia.
Qed.

Theorem bicgstab_zero_rhs (A P : vec -> vec) prm (f x0 : vec) junk :
  sltb (norm_a f) eps1 = true -> p_ns prm = false ->
  fst (bicgstab A P prm f x0 junk) = KOk (mkRes 0 (norm_a f) (k_clear x0) false).
Proof. intros H N. unfold bicgstab, k_prologue. rewrite H, N. reflexivity. Qed.

(* initial (preconditioned) residual within tolerance, check_after off: unchanged, zero iterations *)
Theorem bicgstab_converged_guess (A P : vec -> vec) prm (f x0 : vec) junk nr :
  k_prologue norm_a prm f = Go nr -> p_ca prm = false ->
  sltb (smax (nr * p_tol prm) (p_abstol prm))
       (norm_a (if p_left prm then P (k_residual f (A x0)) else k_residual f (A x0))) = false ->
  exists res, fst (bicgstab A P prm f x0 junk) = KOk (mkRes 0 res x0 false).
Proof.
  intros Hp Hca Hc. unfold bicgstab. rewrite Hp. unfold bs_init. rewrite Hca.
  destruct (p_maxiter prm); simpl; [eexists; reflexivity|].
  rewrite Hc. simpl. eexists; reflexivity.
Qed.

(* junk independence needs one fact about the scalar type: is_zero(zero) holds (it selects the
   overwrite branch of axpbypcz(.., zero, out)); true for every IEEE type and for QcS *)
Section BsJunk.
Hypothesis Hz : is_zero (@s0 S) = true.

Lemma k_axpbypcz_zero a (x : vec) b (y z : vec) :
  k_axpbypcz a x b y s0 z = vmap2 (fun xi yi => a * xi + b * yi) x y.
Proof. unfold k_axpbypcz. rewrite Hz. reflexivity. Qed.

Definition bs_rel (a b : bs_st) : Prop :=
  b_x a = b_x b /\ bs_r (b_ws a) = bs_r (b_ws b) /\ bs_rh (b_ws a) = bs_rh (b_ws b) /\
  b_rho1 a = b_rho1 b /\ b_alpha a = b_alpha b /\ b_omega a = b_omega b /\ b_res a = b_res b /\
  b_first a = b_first b /\ b_it a = b_it b /\
  (b_first a = false -> bs_p (b_ws a) = bs_p (b_ws b) /\ bs_v (b_ws a) = bs_v (b_ws b)).

Definition bs_orel (a b : option bs_st) : Prop :=
  match a, b with Some a', Some b' => bs_rel a' b' | None, None => True | _, _ => False end.

Lemma bs_step_rel (A P : vec -> vec) left eps (a b : bs_st) :
  bs_rel a b -> bs_orel (bs_step A P left eps a) (bs_step A P left eps b).
Proof.
  intros (Hx & Hr & Hrh & Hrho & Hal & Hom & Hres & Hfi & Hit & Hpv).
  unfold bs_step.
  rewrite <- Hx, <- Hr, <- Hrh, <- Hrho, <- Hal, <- Hom, <- Hfi, <- Hit.
  assert (Ep : (if b_first a then Some (bs_r (b_ws a)) else
                if is_zero (b_rho1 a) then None else
                Some (k_axpbypcz s1 (bs_r (b_ws a)) (- (ip (bs_r (b_ws a)) (bs_rh (b_ws a)) * b_alpha a / (b_rho1 a * b_omega a)) * b_omega a)
                                 (bs_v (b_ws a)) (ip (bs_r (b_ws a)) (bs_rh (b_ws a)) * b_alpha a / (b_rho1 a * b_omega a)) (bs_p (b_ws a))))
             = (if b_first a then Some (bs_r (b_ws a)) else
                if is_zero (b_rho1 a) then None else
                Some (k_axpbypcz s1 (bs_r (b_ws a)) (- (ip (bs_r (b_ws a)) (bs_rh (b_ws a)) * b_alpha a / (b_rho1 a * b_omega a)) * b_omega a)
                                 (bs_v (b_ws b)) (ip (bs_r (b_ws a)) (bs_rh (b_ws a)) * b_alpha a / (b_rho1 a * b_omega a)) (bs_p (b_ws b))))).
  { destruct (b_first a); [reflexivity|]. destruct (Hpv eq_refl) as (E1 & E2). rewrite E1, E2. reflexivity. }
  rewrite <- Ep. clear Ep.
  match goal with |- bs_orel (match ?o with _ => _ end) _ => destruct o as [p|] end; [|exact I].
  destruct (pspmv left A P p) as [v T]. rewrite !k_axpbypcz_zero.
  match goal with |- context [sltb eps ?r] => destruct (sltb eps r) end.
  - match goal with |- context [pspmv left A P ?s] => destruct (pspmv left A P s) as [t T'] end.
    rewrite !k_axpbypcz_zero.
    match goal with |- context [is_zero ?o] => destruct (is_zero o) end; [exact I|].
    unfold bs_orel, bs_rel; simpl. repeat split; reflexivity.
  - unfold bs_orel, bs_rel; simpl. repeat split; reflexivity.
Qed.

Lemma bs_loop_rel (A P : vec -> vec) left ca eps fuel : forall a b : bs_st, bs_rel a b ->
  bs_orel (bs_loop A P left ca eps fuel a) (bs_loop A P left ca eps fuel b).
Proof.
  induction fuel as [|k IH]; intros a b R; simpl; [exact R|].
  assert (Hres : b_res a = b_res b) by (destruct R as (_ & _ & _ & _ & _ & _ & H & _); exact H).
  assert (Hfi : b_first a = b_first b) by (destruct R as (_ & _ & _ & _ & _ & _ & _ & H & _); exact H).
  rewrite <- Hres, <- Hfi. destruct (sltb eps (b_res a) || (b_first a && ca)); [|exact R].
  pose proof (bs_step_rel A P left eps a b R) as Q.
  destruct (bs_step A P left eps a) as [a'|], (bs_step A P left eps b) as [b'|]; simpl in Q; try contradiction.
  - apply IH. exact Q.
  - exact I.
Qed.

Theorem bicgstab_junk_independent (A P : vec -> vec) prm (f x0 : vec) (j1 j2 : bs_ws) :
  fst (bicgstab A P prm f x0 j1) = fst (bicgstab A P prm f x0 j2).
Proof.
  unfold bicgstab. destruct (k_prologue norm_a prm f) as [nr|nr]; [reflexivity|].
  unfold bs_init.
  match goal with |- fst (match bs_loop ?A ?P ?l ?c ?e ?fu ?sa with _ => _ end) = fst (match bs_loop _ _ _ _ _ _ ?sb with _ => _ end) =>
    assert (R : bs_rel sa sb) by (unfold bs_rel; simpl; repeat split; try reflexivity; discriminate);
    pose proof (bs_loop_rel A P l c e fu sa sb R) as Q;
    destruct (bs_loop A P l c e fu sa) as [a'|], (bs_loop A P l c e fu sb) as [b'|]; simpl in Q; try contradiction end.
  - destruct Q as (Hx & _ & _ & _ & _ & _ & Hres & _ & Hit & _). simpl. rewrite Hx, Hres, Hit. reflexivity.
  - reflexivity.
Qed.
End BsJunk.

(* ======================== GMRES / FGMRES ========================== *)
(* inner loop: at least one pass, iteration counter stays within maxiter, fuel M-1 suffices *)
Lemma gm_inner_spec (body : gm_ws -> nat -> gm_ws * S) maxiter M eps fuel : forall w j it,
  it < maxiter -> M <= SS j + fuel ->
  let r := gm_inner body maxiter M eps fuel w j it in
  it < n_it r <= maxiter /\ n_oof r = false.
Proof.
  induction fuel as [|k IH]; intros w j it Hit HM; simpl.
  - destruct (body w j) as [w' ir].
    destruct (Nat.leb maxiter (SS it) || Nat.leb M (SS j) || negb (sltb eps ir)) eqn:E; simpl.
    + split; [lia | reflexivity].
    + exfalso. apply Bool.orb_false_iff in E as [E _]. apply Bool.orb_false_iff in E as [_ E].
      apply Nat.leb_gt in E. lia.
  - destruct (body w j) as [w' ir].
    destruct (Nat.leb maxiter (SS it) || Nat.leb M (SS j) || negb (sltb eps ir)) eqn:E; simpl.
    + split; [lia | reflexivity].
    + apply Bool.orb_false_iff in E as [E _]. apply Bool.orb_false_iff in E as [E1 E2].
      apply Nat.leb_gt in E1. apply Nat.leb_gt in E2.
      specialize (IH w' (SS j) (SS it) E1 ltac:(lia)). simpl in IH. lia.
Qed.

Lemma gm_cycle_spec (A P : vec -> vec) prm eps norm_r (x : vec) (w : gm_ws) it :
  it < p_maxiter prm ->
  let r := snd (gm_cycle A P prm eps norm_r x w it) in
  it < n_it r <= p_maxiter prm /\ n_oof r = false.
Proof.
  intro Hit. unfold gm_cycle.
  match goal with |- context [gm_inner ?b ?mx ?M ?e ?fu ?w1 0 it] =>
    pose proof (gm_inner_spec b mx M e fu w1 0 it Hit ltac:(lia)) as Q; simpl in Q end.
  destruct (p_left prm); simpl; exact Q.
Qed.
Lemma fg_cycle_spec (A P : vec -> vec) prm eps norm_r (x : vec) (w : gm_ws) it :
  it < p_maxiter prm ->
  let r := snd (fg_cycle A P prm eps norm_r x w it) in
  it < n_it r <= p_maxiter prm /\ n_oof r = false.
Proof.
  intro Hit. unfold fg_cycle.
  match goal with |- context [gm_inner ?b ?mx ?M ?e ?fu ?w1 0 it] =>
    pose proof (gm_inner_spec b mx M e fu w1 0 it Hit ltac:(lia)) as Q; simpl in Q end.
  simpl; exact Q.
Qed.

(* ---------------- GMRES / FGMRES: junk independence ----------------
   cells of H, cs, sn, s, v[], z[] are read only after they were written in the same restart
   cycle; the relation [core j] lists what has been written when the inner loop is at index j *)
Definition Agr (Q : nat -> nat -> Prop) (Ha Hb : nat -> nat -> S) : Prop :=
  forall r c, Q r c -> Ha r c = Hb r c.

Lemma agr_updm Q (Ha Hb : nat -> nat -> S) i j v :
  Agr Q Ha Hb -> Agr (fun r c => Q r c \/ (r = i /\ c = j)) (updm Ha i j v) (updm Hb i j v).
Proof.
  intros H r c [Hq | [-> ->]]; unfold updm.
  - destruct (Nat.eqb r i && Nat.eqb c j); [reflexivity | apply H; exact Hq].
  - rewrite !Nat.eqb_refl. reflexivity.
Qed.
Lemma agr_updm_same Q (Ha Hb : nat -> nat -> S) i j v :
  Agr Q Ha Hb -> Agr Q (updm Ha i j v) (updm Hb i j v).
Proof. intros H r c Hq. apply (agr_updm Q Ha Hb i j v H). left; exact Hq. Qed.
Lemma agr_weaken (Q Q' : nat -> nat -> Prop) (Ha Hb : nat -> nat -> S) :
  (forall r c, Q' r c -> Q r c) -> Agr Q Ha Hb -> Agr Q' Ha Hb.
Proof. intros W H r c Hq. apply H, W, Hq. Qed.

Lemma mgs_agree (va vb : nat -> vec) j ks : forall Q (Ha Hb : nat -> nat -> S) (w : vec),
  Agr Q Ha Hb -> (forall k, In k ks -> va k = vb k) ->
  snd (mgs va j ks Ha w) = snd (mgs vb j ks Hb w) /\
  Agr (fun r c => Q r c \/ (c = j /\ In r ks)) (fst (mgs va j ks Ha w)) (fst (mgs vb j ks Hb w)).
Proof.
  induction ks as [|k tl IH]; intros Q Ha Hb w HA Hv; simpl.
  - split; [reflexivity|]. eapply agr_weaken; [|exact HA]. intros r c [H|[_ []]]; exact H.
  - rewrite <- (Hv k (or_introl eq_refl)).
    destruct (IH (fun r c => Q r c \/ (r = k /\ c = j))
                 (updm Ha k j (ip w (va k))) (updm Hb k j (ip w (va k)))
                 (k_axpby (- ip w (va k)) (va k) s1 w)
                 (agr_updm Q Ha Hb k j _ HA) (fun k' H => Hv k' (or_intror H))) as (E1 & E2).
    split; [exact E1|].
    eapply agr_weaken; [|exact E2]. intros r c [H|[Hc [Hr|Hr]]].
    + left; left; exact H.
    + left; right; split; [symmetry; exact Hr | exact Hc].
    + right; split; assumption.
Qed.

Lemma rot_col_agree (csa sna csb snb : nat -> S) j ks : forall Q (Ha Hb : nat -> nat -> S),
  Agr Q Ha Hb ->
  (forall k, In k ks -> Q k j /\ Q (SS k) j /\ csa k = csb k /\ sna k = snb k) ->
  Agr Q (rot_col csa sna j ks Ha) (rot_col csb snb j ks Hb).
Proof.
  induction ks as [|k tl IH]; intros Q Ha Hb HA Hk; simpl; [exact HA|].
  destruct (Hk k (or_introl eq_refl)) as (Q1 & Q2 & Ec & Es).
  rewrite <- (HA _ _ Q1), <- (HA _ _ Q2), <- Ec, <- Es.
  unfold app_rot. apply IH.
  - apply agr_updm_same, agr_updm_same, HA.
  - intros k' H. apply Hk. right; exact H.
Qed.

Definition core (j : nat) (w1 w2 : gm_ws) : Prop :=
  (forall k, k <= j -> g_v w1 k = g_v w2 k) /\
  (forall k, k < j -> g_cs w1 k = g_cs w2 k /\ g_sn w1 k = g_sn w2 k) /\
  (forall k, g_s w1 k = g_s w2 k) /\
  Agr (fun r c => c < j /\ r <= SS c) (g_H w1) (g_H w2).

Lemma upd_eq {X} (m : nat -> X) i v : upd m i v i = v.
Proof. unfold upd. rewrite Nat.eqb_refl. reflexivity. Qed.
Lemma upd_same {X} (ma mb : nat -> X) i v k : ma k = mb k -> upd ma i v k = upd mb i v k.
Proof. unfold upd. destruct (Nat.eqb k i); auto. Qed.

Lemma arnoldi_tail_core (w1 w2 : gm_ws) j (vnew0 : vec) : core j w1 w2 ->
  core (SS j) (fst (arnoldi_tail w1 j vnew0)) (fst (arnoldi_tail w2 j vnew0)) /\
  snd (arnoldi_tail w1 j vnew0) = snd (arnoldi_tail w2 j vnew0) /\
  g_r (fst (arnoldi_tail w1 j vnew0)) = g_r w1 /\ g_r (fst (arnoldi_tail w2 j vnew0)) = g_r w2 /\
  g_z (fst (arnoldi_tail w1 j vnew0)) = g_z w1 /\ g_z (fst (arnoldi_tail w2 j vnew0)) = g_z w2.
Proof.
  intros (Cv & Cr & Cs & CH). unfold arnoldi_tail.
  pose proof (mgs_agree (g_v w1) (g_v w2) j (seq 0 (SS j)) _ (g_H w1) (g_H w2) vnew0 CH
                (fun k H => Cv k ltac:(apply in_seq in H; lia))) as (Ev & EH).
  destruct (mgs (g_v w1) j (seq 0 (SS j)) (g_H w1) vnew0) as [H1a v1a].
  destruct (mgs (g_v w2) j (seq 0 (SS j)) (g_H w2) vnew0) as [H1b v1b].
  cbn [fst snd] in Ev, EH. subst v1b.
  set (hj1 := norm_b v1a).
  set (Q := fun r c : nat => c < SS j /\ r <= SS c).
  assert (A2 : Agr Q (updm H1a (SS j) j hj1) (updm H1b (SS j) j hj1)).
  { eapply agr_weaken; [|apply agr_updm; exact EH]. unfold Q. intros r c (Hc & Hr).
    destruct (Nat.eq_dec c j) as [->|Nc].
    - destruct (Nat.eq_dec r (SS j)) as [->|Nr]; [right; auto|].
      left; right. split; [reflexivity|]. apply in_seq. lia.
    - left; left. split; lia. }
  assert (A3 : Agr Q (rot_col (g_cs w1) (g_sn w1) j (seq 0 j) (updm H1a (SS j) j hj1))
                     (rot_col (g_cs w2) (g_sn w2) j (seq 0 j) (updm H1b (SS j) j hj1))).
  { apply rot_col_agree; [exact A2|]. intros k Hk. apply in_seq in Hk.
    destruct (Cr k ltac:(lia)) as (E1 & E2). unfold Q. repeat split; try lia; assumption. }
  set (H3a := rot_col (g_cs w1) (g_sn w1) j (seq 0 j) (updm H1a (SS j) j hj1)) in *.
  set (H3b := rot_col (g_cs w2) (g_sn w2) j (seq 0 j) (updm H1b (SS j) j hj1)) in *.
  assert (Qjj : Q j j) by (unfold Q; split; auto with arith).
  assert (Qsj : Q (SS j) j) by (unfold Q; split; auto with arith).
  rewrite <- (A3 j j Qjj), <- (A3 (SS j) j Qsj).
  rewrite <- (Cs j), <- (Cs (SS j)).
  destruct (gen_rot (H3a j j) (H3a (SS j) j)) as [c s]. unfold app_rot.
  cbn [fst snd g_v g_cs g_sn g_s g_H g_r g_z]. unfold core. cbn [fst snd g_v g_cs g_sn g_s g_H g_r g_z].
  repeat split; try reflexivity.
  - intros k Hk. destruct (Nat.eq_dec k (SS j)) as [->|Nk]; [unfold upd; rewrite Nat.eqb_refl; reflexivity|].
    apply upd_same. apply Cv. lia.
  - destruct (Nat.eq_dec k j) as [->|Nk]; [unfold upd; rewrite Nat.eqb_refl; reflexivity|].
    apply upd_same. apply Cr. lia.
  - destruct (Nat.eq_dec k j) as [->|Nk]; [unfold upd; rewrite Nat.eqb_refl; reflexivity|].
    apply upd_same. apply Cr. lia.
  - intro k. apply upd_same, upd_same, Cs.
  - apply agr_updm_same, agr_updm_same. exact A3.
Qed.

Definition agreeG (j : nat) (w1 w2 : gm_ws) : Prop := core j w1 w2 /\ g_r w1 = g_r w2.
Definition agreeF (j : nat) (w1 w2 : gm_ws) : Prop :=
  core j w1 w2 /\ forall k, k < j -> g_z w1 k = g_z w2 k.

Lemma gm_body_agree (A P : vec -> vec) left j (w1 w2 : gm_ws) : agreeG j w1 w2 ->
  agreeG (SS j) (fst (gm_body A P left w1 j)) (fst (gm_body A P left w2 j)) /\
  snd (gm_body A P left w1 j) = snd (gm_body A P left w2 j).
Proof.
  intros (C & _). unfold gm_body.
  assert (Ev : g_v w1 j = g_v w2 j) by (destruct C as (Cv & _); apply Cv; auto).
  rewrite <- Ev. destruct (pspmv left A P (g_v w1 j)) as [vnew0 T].
  match goal with |- agreeG _ (fst (arnoldi_tail ?a j vnew0)) (fst (arnoldi_tail ?b j vnew0)) /\ _ =>
    assert (C' : core j a b) by exact C;
    destruct (arnoldi_tail_core a b j vnew0 C') as (C1 & E & R1 & R2 & _) end.
  split; [|exact E]. split; [exact C1|]. rewrite R1, R2. reflexivity.
Qed.

Lemma fg_body_agree (A P : vec -> vec) j (w1 w2 : gm_ws) : agreeF j w1 w2 ->
  agreeF (SS j) (fst (fg_body A P w1 j)) (fst (fg_body A P w2 j)) /\
  snd (fg_body A P w1 j) = snd (fg_body A P w2 j).
Proof.
  intros (C & Z). unfold fg_body.
  assert (Ev : g_v w1 j = g_v w2 j) by (destruct C as (Cv & _); apply Cv; auto).
  rewrite <- Ev.
  match goal with |- agreeF _ (fst (arnoldi_tail ?a j ?vn)) (fst (arnoldi_tail ?b j ?vn)) /\ _ =>
    assert (C' : core j a b) by exact C;
    destruct (arnoldi_tail_core a b j vn C') as (C1 & E & _ & _ & Z1 & Z2) end.
  split; [|exact E]. split; [exact C1|]. rewrite Z1, Z2. cbn [g_z].
  intros k Hk. destruct (Nat.eq_dec k j) as [->|Nk]; [unfold upd; rewrite Nat.eqb_refl; reflexivity|].
  apply upd_same. apply Z. lia.
Qed.

Lemma gm_inner_agree (R : nat -> gm_ws -> gm_ws -> Prop) (body : gm_ws -> nat -> gm_ws * S) maxiter M eps :
  (forall j w1 w2, R j w1 w2 -> R (SS j) (fst (body w1 j)) (fst (body w2 j)) /\ snd (body w1 j) = snd (body w2 j)) ->
  forall fuel w1 w2 j it, R j w1 w2 ->
  let r1 := gm_inner body maxiter M eps fuel w1 j it in
  let r2 := gm_inner body maxiter M eps fuel w2 j it in
  n_j r1 = n_j r2 /\ n_it r1 = n_it r2 /\ n_oof r1 = n_oof r2 /\ R (n_j r1) (n_ws r1) (n_ws r2).
Proof.
  intro Hb. induction fuel as [|k IH]; intros w1 w2 j it HR; simpl;
    destruct (Hb j w1 w2 HR) as (R' & E);
    destruct (body w1 j) as [w1' i1], (body w2 j) as [w2' i2]; simpl in R', E; subst i2;
    destruct (Nat.leb maxiter (SS it) || Nat.leb M (SS j) || negb (sltb eps i1)); simpl; auto.
Qed.

Lemma fold_sub_agree (Ha Hb : nat -> nat -> S) i si ks : forall sa sb : nat -> S,
  (forall k, sa k = sb k) -> (forall k, In k ks -> Ha k i = Hb k i) ->
  forall m, fold_left (fun acc k => upd acc k (acc k - Ha k i * si)) ks sa m
          = fold_left (fun acc k => upd acc k (acc k - Hb k i * si)) ks sb m.
Proof.
  induction ks as [|k tl IH]; intros sa sb Es EH m; simpl; [apply Es|].
  apply IH; [|intros k' H; apply EH; right; exact H].
  intro k'. rewrite (Es k), (EH k (or_introl eq_refl)). apply upd_same, Es.
Qed.

Lemma backsub_agree (Ha Hb : nat -> nat -> S) j is : Agr (fun r c => c < j /\ r <= SS c) Ha Hb ->
  (forall i, In i is -> i < j) -> forall sa sb : nat -> S, (forall k, sa k = sb k) ->
  forall m, backsub Ha is sa m = backsub Hb is sb m.
Proof.
  intros HA. induction is as [|i tl IH]; intros Hi sa sb Es m; simpl; [apply Es|].
  assert (Li : i < j) by (apply Hi; left; reflexivity).
  apply IH; [intros i' H; apply Hi; right; exact H|].
  rewrite (Es i), (HA i i ltac:(split; [exact Li | auto with arith])).
  apply fold_sub_agree.
  - intro k. apply upd_same, Es.
  - intros k Hk. apply in_seq in Hk. apply HA. split; [exact Li|]. lia.
Qed.

Lemma cv_of_agree (sa sb : nat -> S) (va vb : nat -> vec) j :
  (forall k, sa k = sb k) -> (forall k, k < j -> va k = vb k) -> cv_of sa va j = cv_of sb vb j.
Proof.
  intros Es Ev. unfold cv_of. apply map_ext_in. intros k Hk. apply in_seq in Hk.
  rewrite Es, Ev by lia. reflexivity.
Qed.

Lemma rev_seq_lt j i : In i (rev (seq 0 j)) -> i < j.
Proof. intro H. apply in_rev in H. apply in_seq in H. lia. Qed.

Lemma k_axpby_zero (Hz : is_zero (@s0 S) = true) a (x y : vec) :
  k_axpby a x s0 y = map (fun xi => a * xi) x.
Proof. unfold k_axpby. rewrite Hz. reflexivity. Qed.

Lemma gm_cycle_agree (Hz : is_zero (@s0 S) = true) (A P : vec -> vec) prm eps norm_r (x : vec) (w1 w2 : gm_ws) it :
  g_r w1 = g_r w2 ->
  fst (gm_cycle A P prm eps norm_r x w1 it) = fst (gm_cycle A P prm eps norm_r x w2 it) /\
  n_it (snd (gm_cycle A P prm eps norm_r x w1 it)) = n_it (snd (gm_cycle A P prm eps norm_r x w2 it)) /\
  n_oof (snd (gm_cycle A P prm eps norm_r x w1 it)) = n_oof (snd (gm_cycle A P prm eps norm_r x w2 it)).
Proof.
  intro Er. unfold gm_cycle. rewrite !(k_axpby_zero Hz), <- Er.
  match goal with |- context [gm_inner ?b ?mx ?M ?e ?fu ?wa 0 it] =>
    match goal with |- context [gm_inner b mx M e fu ?wb 0 it] =>
      lazymatch wa with wb => fail | _ => idtac end;
      assert (G0 : agreeG 0 wa wb);
      [| pose proof (gm_inner_agree agreeG b mx M e (gm_body_agree A P (p_left prm)) fu wa wb 0 it G0) as (Ej & Ei & Eo & (C & Er')) ;
         set (ra := gm_inner b mx M e fu wa 0 it) in *; set (rb := gm_inner b mx M e fu wb 0 it) in * ]
    end end.
  { split; [|reflexivity]. unfold core; cbn [g_v g_cs g_sn g_s g_H]. repeat split; try reflexivity; try lia.
    - intros k Hk. assert (k = 0) by lia. subst. reflexivity.
    - intros r c (Hc & _). lia. }
  cbv zeta in *. destruct C as (Cv & _ & Cs & CH).
  rewrite <- Ej.
  assert (Esv : forall m, backsub (g_H (n_ws ra)) (rev (seq 0 (n_j ra))) (g_s (n_ws ra)) m
                        = backsub (g_H (n_ws rb)) (rev (seq 0 (n_j ra))) (g_s (n_ws rb)) m).
  { intro m. apply (backsub_agree _ _ (n_j ra)); [exact CH | apply rev_seq_lt | exact Cs]. }
  assert (Ecv : cv_of (backsub (g_H (n_ws ra)) (rev (seq 0 (n_j ra))) (g_s (n_ws ra))) (g_v (n_ws ra)) (n_j ra)
              = cv_of (backsub (g_H (n_ws rb)) (rev (seq 0 (n_j ra))) (g_s (n_ws rb))) (g_v (n_ws rb)) (n_j ra)).
  { apply cv_of_agree; [exact Esv | intros k Hk; apply Cv; lia]. }
  rewrite Ecv, Er'. destruct (p_left prm); cbn [fst snd n_it n_oof]; auto.
Qed.

Lemma fg_cycle_agree (A P : vec -> vec) prm eps norm_r (x : vec) (w1 w2 : gm_ws) it :
  g_v w1 0 = g_v w2 0 ->
  fst (fg_cycle A P prm eps norm_r x w1 it) = fst (fg_cycle A P prm eps norm_r x w2 it) /\
  n_it (snd (fg_cycle A P prm eps norm_r x w1 it)) = n_it (snd (fg_cycle A P prm eps norm_r x w2 it)) /\
  n_oof (snd (fg_cycle A P prm eps norm_r x w1 it)) = n_oof (snd (fg_cycle A P prm eps norm_r x w2 it)).
Proof.
  intro Ev. unfold fg_cycle. rewrite <- Ev.
  match goal with |- context [gm_inner ?b ?mx ?M ?e ?fu ?wa 0 it] =>
    match goal with |- context [gm_inner b mx M e fu ?wb 0 it] =>
      lazymatch wa with wb => fail | _ => idtac end;
      assert (G0 : agreeF 0 wa wb);
      [| pose proof (gm_inner_agree agreeF b mx M e (fg_body_agree A P) fu wa wb 0 it G0) as (Ej & Ei & Eo & (C & Z)) ;
         set (ra := gm_inner b mx M e fu wa 0 it) in *; set (rb := gm_inner b mx M e fu wb 0 it) in * ]
    end end.
  { split; [|intros k Hk; lia]. unfold core; cbn [g_v g_cs g_sn g_s g_H]. repeat split; try reflexivity; try lia.
    - intros k Hk. assert (k = 0) by lia. subst. reflexivity.
    - intros r c (Hc & _). lia. }
  cbv zeta in *. destruct C as (Cv & _ & Cs & CH).
  rewrite <- Ej.
  assert (Esv : forall m, backsub (g_H (n_ws ra)) (rev (seq 0 (n_j ra))) (g_s (n_ws ra)) m
                        = backsub (g_H (n_ws rb)) (rev (seq 0 (n_j ra))) (g_s (n_ws rb)) m).
  { intro m. apply (backsub_agree _ _ (n_j ra)); [exact CH | apply rev_seq_lt | exact Cs]. }
  assert (Ecv : cv_of (backsub (g_H (n_ws ra)) (rev (seq 0 (n_j ra))) (g_s (n_ws ra))) (g_z (n_ws ra)) (n_j ra)
              = cv_of (backsub (g_H (n_ws rb)) (rev (seq 0 (n_j ra))) (g_s (n_ws rb))) (g_z (n_ws rb)) (n_j ra)).
  { apply cv_of_agree; [exact Esv | exact Z]. }
  rewrite Ecv. cbn [fst snd n_it n_oof]. auto.
Qed.

Opaque gm_cycle fg_cycle.

(* outer loop: iteration bound, fuel maxiter+1 suffices, and the returned number is the norm of the
   residual RECOMPUTED from the returned x (the stopping test sits right after the recomputation) *)
Lemma gm_outer_spec (A P : vec -> vec) prm (f : vec) eps nr fuel : forall x w it oof r w',
  it <= p_maxiter prm -> p_maxiter prm < it + fuel -> oof = false ->
  gm_outer A P prm f eps nr fuel x w it oof = (r, w') ->
  k_it r <= p_maxiter prm /\ k_oof r = false /\
  k_res r = true_res norm_b A P (p_left prm) f (k_x r) / nr.
Proof.
  induction fuel as [|k IH]; intros x w it oof r w' Hit Hfu Hoof; simpl.
  - destruct (sltb _ eps || Nat.leb (p_maxiter prm) it) eqn:E.
    + intro H; inversion H; subst; simpl. repeat split; auto.
      unfold true_res. destruct (p_left prm); reflexivity.
    + exfalso. apply Bool.orb_false_iff in E as [_ E]. apply Nat.leb_gt in E. lia.
  - destruct (sltb _ eps || Nat.leb (p_maxiter prm) it) eqn:E.
    + intro H; inversion H; subst; simpl. repeat split; auto.
      unfold true_res. destruct (p_left prm); reflexivity.
    + apply Bool.orb_false_iff in E as [_ E]. apply Nat.leb_gt in E.
      match goal with |- context [gm_cycle A P prm eps ?nrm x ?w0 it] =>
        pose proof (gm_cycle_spec A P prm eps nrm x w0 it E) as Q;
        destruct (gm_cycle A P prm eps nrm x w0 it) as [x' rr] end.
      simpl in Q. destruct Q as (Q1 & Q2).
      apply IH; [lia | lia | rewrite Hoof, Q2; reflexivity].
Qed.

Lemma fg_outer_spec (A P : vec -> vec) prm (f : vec) eps nr fuel : forall x w it oof r w',
  it <= p_maxiter prm -> p_maxiter prm < it + fuel -> oof = false ->
  fg_outer A P prm f eps nr fuel x w it oof = (r, w') ->
  k_it r <= p_maxiter prm /\ k_oof r = false /\
  k_res r = true_res norm_b A P false f (k_x r) / nr.
Proof.
  induction fuel as [|k IH]; intros x w it oof r w' Hit Hfu Hoof; simpl.
  - destruct (sltb _ eps || Nat.leb (p_maxiter prm) it) eqn:E.
    + intro H; inversion H; subst; simpl. repeat split; auto.
    + exfalso. apply Bool.orb_false_iff in E as [_ E]. apply Nat.leb_gt in E. lia.
  - destruct (sltb _ eps || Nat.leb (p_maxiter prm) it) eqn:E.
    + intro H; inversion H; subst; simpl. repeat split; auto.
    + apply Bool.orb_false_iff in E as [_ E]. apply Nat.leb_gt in E.
      match goal with |- context [fg_cycle A P prm eps ?nrm x ?w0 it] =>
        pose proof (fg_cycle_spec A P prm eps nrm x w0 it E) as Q;
        destruct (fg_cycle A P prm eps nrm x w0 it) as [x' rr] end.
      simpl in Q. destruct Q as (Q1 & Q2).
      apply IH; [lia | lia | rewrite Hoof, Q2; reflexivity].
Qed.

Lemma gm_outer_agree (Hz : is_zero (@s0 S) = true) (A P : vec -> vec) prm (f : vec) eps nr fuel :
  forall x (w1 w2 : gm_ws) it oof,
  fst (gm_outer A P prm f eps nr fuel x w1 it oof) = fst (gm_outer A P prm f eps nr fuel x w2 it oof).
Proof.
  induction fuel as [|k IH]; intros x w1 w2 it oof; simpl.
  - destruct (p_left prm); simpl; destruct (sltb _ eps || Nat.leb (p_maxiter prm) it); reflexivity.
  - destruct (p_left prm) eqn:El; simpl.
    + destruct (sltb _ eps || Nat.leb (p_maxiter prm) it); [reflexivity|].
      match goal with |- context [gm_cycle A P prm eps ?nrm x ?wa it] =>
        match goal with |- context [gm_cycle A P prm eps nrm x ?wb it] =>
          lazymatch wa with wb => fail | _ => idtac end;
          destruct (gm_cycle_agree Hz A P prm eps nrm x wa wb it eq_refl) as (E1 & E2 & E3);
          destruct (gm_cycle A P prm eps nrm x wa it) as [xa ra], (gm_cycle A P prm eps nrm x wb it) as [xb rb] end end.
      simpl in E1, E2, E3. subst xb. rewrite E2, E3. apply IH.
    + destruct (sltb _ eps || Nat.leb (p_maxiter prm) it); [reflexivity|].
      match goal with |- context [gm_cycle A P prm eps ?nrm x ?wa it] =>
        match goal with |- context [gm_cycle A P prm eps nrm x ?wb it] =>
          lazymatch wa with wb => fail | _ => idtac end;
          destruct (gm_cycle_agree Hz A P prm eps nrm x wa wb it eq_refl) as (E1 & E2 & E3);
          destruct (gm_cycle A P prm eps nrm x wa it) as [xa ra], (gm_cycle A P prm eps nrm x wb it) as [xb rb] end end.
      simpl in E1, E2, E3. subst xb. rewrite E2, E3. apply IH.
Qed.

Lemma fg_outer_agree (A P : vec -> vec) prm (f : vec) eps nr fuel :
  forall x (w1 w2 : gm_ws) it oof,
  fst (fg_outer A P prm f eps nr fuel x w1 it oof) = fst (fg_outer A P prm f eps nr fuel x w2 it oof).
Proof.
  induction fuel as [|k IH]; intros x w1 w2 it oof; simpl.
  - rewrite !upd_eq. destruct (sltb _ eps || Nat.leb (p_maxiter prm) it); reflexivity.
  - rewrite !upd_eq.
    destruct (sltb _ eps || Nat.leb (p_maxiter prm) it); [reflexivity|].
    match goal with |- context [fg_cycle A P prm eps ?nrm x ?wa it] =>
      match goal with |- context [fg_cycle A P prm eps nrm x ?wb it] =>
        lazymatch wa with wb => fail | _ => idtac end;
        destruct (fg_cycle_agree A P prm eps nrm x wa wb it ltac:(cbn [g_v]; rewrite !upd_eq; reflexivity)) as (E1 & E2 & E3);
        destruct (fg_cycle A P prm eps nrm x wa it) as [xa ra], (fg_cycle A P prm eps nrm x wb it) as [xb rb] end end.
    simpl in E1, E2, E3. subst xb. rewrite E2, E3. apply IH.
Qed.

Transparent gm_cycle fg_cycle.

Theorem gmres_junk_independent (Hz : is_zero (@s0 S) = true) (A P : vec -> vec) prm (f x0 : vec) (j1 j2 : gm_ws) :
  fst (gmres A P prm f x0 j1) = fst (gmres A P prm f x0 j2).
Proof.
  unfold gmres. destruct (k_prologue norm_b prm f) as [nr|nr]; [reflexivity|].
  pose proof (gm_outer_agree Hz A P prm f (smax (p_tol prm * nr) (p_abstol prm)) nr (SS (p_maxiter prm)) x0 j1 j2 0 false) as E.
  destruct (gm_outer A P prm f _ nr (SS (p_maxiter prm)) x0 j1 0 false) as [r1 w1].
  destruct (gm_outer A P prm f _ nr (SS (p_maxiter prm)) x0 j2 0 false) as [r2 w2].
  simpl in E. subst. reflexivity.
Qed.

Theorem fgmres_junk_independent (A P : vec -> vec) prm (f x0 : vec) (j1 j2 : gm_ws) :
  fst (fgmres A P prm f x0 j1) = fst (fgmres A P prm f x0 j2).
Proof.
  unfold fgmres. destruct (k_prologue norm_b prm f) as [nr|nr]; [reflexivity|].
  pose proof (fg_outer_agree A P prm f (smax (p_tol prm * nr) (p_abstol prm)) nr (SS (p_maxiter prm)) x0 j1 j2 0 false) as E.
  destruct (fg_outer A P prm f _ nr (SS (p_maxiter prm)) x0 j1 0 false) as [r1 w1].
  destruct (fg_outer A P prm f _ nr (SS (p_maxiter prm)) x0 j2 0 false) as [r2 w2].
  simpl in E. subst. reflexivity.
Qed.

Theorem gmres_result_spec (A P : vec -> vec) prm (f x0 : vec) junk nr r w :
  k_prologue norm_b prm f = Go nr ->
  gmres A P prm f x0 junk = (KOk r, w) ->
  k_it r <= p_maxiter prm /\ k_oof r = false /\
  k_res r = true_res norm_b A P (p_left prm) f (k_x r) / nr.
Proof.
  intro Hp. unfold gmres. rewrite Hp.
  destruct (gm_outer A P prm f _ nr (SS (p_maxiter prm)) x0 junk 0 false) as [r' w'] eqn:E.
  intro H; inversion H; subst.
  eapply gm_outer_spec; [| | | exact E]; [lia | lia | reflexivity].
Qed.

Theorem fgmres_result_spec (A P : vec -> vec) prm (f x0 : vec) junk nr r w :
  k_prologue norm_b prm f = Go nr ->
  fgmres A P prm f x0 junk = (KOk r, w) ->
  k_it r <= p_maxiter prm /\ k_oof r = false /\
  k_res r = true_res norm_b A P false f (k_x r) / nr.
Proof.
  intro Hp. unfold fgmres. rewrite Hp.
  destruct (fg_outer A P prm f _ nr (SS (p_maxiter prm)) x0 junk 0 false) as [r' w'] eqn:E.
  intro H; inversion H; subst.
  eapply fg_outer_spec; [| | | exact E]; [lia | lia | reflexivity].
Qed.

Theorem gmres_trivial_bounds (A P : vec -> vec) prm (f x0 : vec) junk r w :
  gmres A P prm f x0 junk = (KOk r, w) -> k_it r <= p_maxiter prm /\ k_oof r = false.
Proof.
  destruct (prologue_cases norm_b prm f) as [(Hp & _) | (nr & Hp)].
  - unfold gmres. rewrite Hp. intro H; inversion H; subst; simpl. split; [lia|reflexivity].
  - intro H. destruct (gmres_result_spec A P prm f x0 junk nr r w Hp H) as (H1 & H2 & _). auto.
Qed.
Theorem fgmres_trivial_bounds (A P : vec -> vec) prm (f x0 : vec) junk r w :
  fgmres A P prm f x0 junk = (KOk r, w) -> k_it r <= p_maxiter prm /\ k_oof r = false.
Proof.
  destruct (prologue_cases norm_b prm f) as [(Hp & _) | (nr & Hp)].
  - unfold fgmres. rewrite Hp. intro H; inversion H; subst; simpl. split; [lia|reflexivity].
  - intro H. destruct (fgmres_result_spec A P prm f x0 junk nr r w Hp H) as (H1 & H2 & _). auto.
Qed.

Theorem gmres_zero_rhs (A P : vec -> vec) prm (f x0 : vec) junk :
  sltb (norm_b f) eps1 = true -> p_ns prm = false ->
  fst (gmres A P prm f x0 junk) = KOk (mkRes 0 (norm_b f) (k_clear x0) false).
Proof. intros H N. unfold gmres, k_prologue. rewrite H, N. reflexivity. Qed.
Theorem fgmres_zero_rhs (A P : vec -> vec) prm (f x0 : vec) junk :
  sltb (norm_b f) eps1 = true -> p_ns prm = false ->
  fst (fgmres A P prm f x0 junk) = KOk (mkRes 0 (norm_b f) (k_clear x0) false).
Proof. intros H N. unfold fgmres, k_prologue. rewrite H, N. reflexivity. Qed.

Theorem gmres_converged_guess (A P : vec -> vec) prm (f x0 : vec) junk nr :
  k_prologue norm_b prm f = Go nr ->
  sltb (true_res norm_b A P (p_left prm) f x0) (smax (p_tol prm * nr) (p_abstol prm)) = true ->
  exists res, fst (gmres A P prm f x0 junk) = KOk (mkRes 0 res x0 false).
Proof.
  intros Hp Hc. unfold gmres. rewrite Hp. simpl. unfold true_res in Hc.
  destruct (p_left prm); simpl; rewrite Hc; simpl; eexists; reflexivity.
Qed.
Theorem fgmres_converged_guess (A P : vec -> vec) prm (f x0 : vec) junk nr :
  k_prologue norm_b prm f = Go nr ->
  sltb (true_res norm_b A P false f x0) (smax (p_tol prm * nr) (p_abstol prm)) = true ->
  exists res, fst (fgmres A P prm f x0 junk) = KOk (mkRes 0 res x0 false).
Proof.
  intros Hp Hc. unfold fgmres. rewrite Hp. simpl. unfold true_res in Hc.
  unfold upd at 1. simpl. rewrite Hc. simpl. eexists; reflexivity.
Qed.

(* ============================ LGMRES ============================== *)
Lemma lg_cycle_spec (A P : vec -> vec) prm eps norm_r (x : vec) (w : lg_ws) it n_outer :
  it < p_maxiter prm ->
  let c := lg_cycle A P prm eps norm_r x w it n_outer in
  it < y_it c <= p_maxiter prm /\ y_oof c = false.
Proof.
  intro Hit. unfold lg_cycle. cbv zeta.
  match goal with |- context [gm_inner ?b ?mx ?M ?e ?fu ?w1 0 it] =>
    pose proof (gm_inner_spec b mx M e fu w1 0 it Hit ltac:(lia)) as Q; simpl in Q;
    set (r := gm_inner b mx M e fu w1 0 it) in * end.
  destruct (p_left prm); [|destruct (Nat.leb _ 0)];
    match goal with |- context [if ?c then _ else _] => destruct c end; simpl; exact Q.
Qed.

Opaque lg_cycle.
Lemma lg_outer_spec (A P : vec -> vec) prm (f : vec) eps nr fuel : forall x (w : lg_ws) it n_outer oof r w',
  it <= p_maxiter prm -> p_maxiter prm < it + fuel -> oof = false ->
  lg_outer A P prm f eps nr fuel x w it n_outer oof = (r, w') ->
  k_it r <= p_maxiter prm /\ k_oof r = false /\
  k_res r = true_res norm_b A P (p_left prm) f (k_x r) / nr.
Proof.
  induction fuel as [|k IH]; intros x w it n_outer oof r w' Hit Hfu Hoof; simpl.
  - destruct (sltb _ eps || Nat.leb (p_maxiter prm) it) eqn:E.
    + intro H; inversion H; subst; simpl. repeat split; auto.
      unfold true_res. destruct (p_left prm); reflexivity.
    + exfalso. apply Bool.orb_false_iff in E as [_ E]. apply Nat.leb_gt in E. lia.
  - destruct (sltb _ eps || Nat.leb (p_maxiter prm) it) eqn:E.
    + intro H; inversion H; subst; simpl. repeat split; auto.
      unfold true_res. destruct (p_left prm); reflexivity.
    + apply Bool.orb_false_iff in E as [_ E]. apply Nat.leb_gt in E.
      match goal with |- context [lg_cycle A P prm eps ?nrm x ?w0 it n_outer] =>
        pose proof (lg_cycle_spec A P prm eps nrm x w0 it n_outer E) as Q;
        set (c := lg_cycle A P prm eps nrm x w0 it n_outer) in * end.
      simpl in Q. destruct Q as (Q1 & Q2).
      apply IH; [lia | lia | rewrite Hoof, Q2; reflexivity].
Qed.
Transparent lg_cycle.

Theorem lgmres_result_spec (A P : vec -> vec) prm (f x0 : vec) st nr r w :
  k_prologue norm_b prm f = Go nr ->
  lgmres A P prm f x0 st = (KOk r, w) ->
  k_it r <= p_maxiter prm /\ k_oof r = false /\
  k_res r = true_res norm_b A P (p_left prm) f (k_x r) / nr.
Proof.
  intro Hp. unfold lgmres. rewrite Hp.
  match goal with |- context [lg_outer A P prm f ?e nr ?fu x0 ?s0' 0 0 false] =>
    destruct (lg_outer A P prm f e nr fu x0 s0' 0 0 false) as [r' w'] eqn:E end.
  intro H; inversion H; subst.
  eapply lg_outer_spec; [| | | exact E]; [lia | lia | reflexivity].
Qed.


(* ---- LGMRES with always_reset: the result is independent of the incoming object state, the ring
        buffer (start index, slot list) and the stored augmentation vectors included ---- *)
Definition wf_cb (K : nat) (c : cbuf) : Prop :=
  length (cb_buf c) <= K /\ (length (cb_buf c) < K -> cb_start c = 0) /\ (0 < K -> cb_start c < K).

Lemma wf_cb_clear K : wf_cb K cb_clear.
Proof. unfold wf_cb, cb_clear; simpl. repeat split; auto with arith. Qed.

Lemma cb_get_in K (c : cbuf) i : wf_cb K c -> i < length (cb_buf c) -> In (cb_get K c i) (cb_buf c).
Proof.
  intros (H1 & H2 & H3) Hi. unfold cb_get. apply nth_In.
  destruct (Nat.lt_ge_cases (length (cb_buf c)) K) as [Hl|Hl].
  - rewrite (H2 Hl). simpl. rewrite Nat.mod_small by lia. exact Hi.
  - assert (length (cb_buf c) = K) by lia. assert (0 < K) by lia.
    pose proof (Nat.mod_upper_bound (cb_start c + i) K ltac:(lia)). lia.
Qed.

Lemma set_nth_nat_length l i v : length (set_nth_nat l i v) = length l.
Proof. revert i; induction l as [|a l IH]; intros [|i]; simpl; auto. Qed.
Lemma set_nth_nat_in l i v s : In s (set_nth_nat l i v) -> s = v \/ In s l.
Proof.
  revert i; induction l as [|a l IH]; intros [|i]; simpl; auto.
  - intros [H|H]; auto.
  - intros [H|H]; auto. destruct (IH i H); auto.
Qed.

Lemma cb_push_wf K (c : cbuf) v : 0 < K -> wf_cb K c -> wf_cb K (cb_push K c v).
Proof.
  intros HK (H1 & H2 & H3). unfold cb_push.
  destruct (Nat.ltb (length (cb_buf c)) K) eqn:E.
  - apply Nat.ltb_lt in E. unfold wf_cb; simpl. rewrite app_length; simpl. repeat split.
    + lia.
    + intros _. apply H2. exact E.
    + intros _. rewrite (H2 E). exact HK.
  - apply Nat.ltb_ge in E. unfold wf_cb; simpl. rewrite set_nth_nat_length. repeat split.
    + exact H1.
    + intro H. lia.
    + intros _. apply Nat.mod_upper_bound. lia.
Qed.

Lemma cb_push_in K (c : cbuf) v s : In s (cb_buf (cb_push K c v)) -> s = v \/ In s (cb_buf c).
Proof.
  unfold cb_push. destruct (Nat.ltb (length (cb_buf c)) K); simpl.
  - intro H. apply in_app_or in H as [H|[H|[]]]; auto.
  - apply set_nth_nat_in.
Qed.

Definition agreeL (j : nat) (w1 w2 : gm_ws) : Prop :=
  core j w1 w2 /\ g_r w1 = g_r w2 /\ forall k, k < j -> g_z w1 k = g_z w2 k.

Lemma lg_body_agree (A P : vec -> vec) left Mt K (da db : nat -> vec) (outer : cbuf) j (w1 w2 : gm_ws) :
  wf_cb K outer -> K <= Mt -> (forall s, In s (cb_buf outer) -> da s = db s) -> j < Mt ->
  agreeL j w1 w2 ->
  agreeL (SS j) (fst (lg_body A P left Mt K da outer w1 j)) (fst (lg_body A P left Mt K db outer w2 j)) /\
  snd (lg_body A P left Mt K da outer w1 j) = snd (lg_body A P left Mt K db outer w2 j).
Proof.
  intros Hwf HK Hd Hj (C & _ & Z). unfold lg_body. cbv zeta.
  assert (Ez : (if Nat.leb (Mt - length (cb_buf outer)) j
                then da (cb_get K outer (j - (Mt - length (cb_buf outer)))) else g_v w1 j)
             = (if Nat.leb (Mt - length (cb_buf outer)) j
                then db (cb_get K outer (j - (Mt - length (cb_buf outer)))) else g_v w2 j)).
  { destruct (Nat.leb (Mt - length (cb_buf outer)) j) eqn:E.
    - apply Nat.leb_le in E. apply Hd, cb_get_in; [exact Hwf|].
      destruct Hwf as (H1 & _). lia.
    - destruct C as (Cv & _). apply Cv. auto. }
  rewrite <- Ez.
  set (z := if Nat.leb (Mt - length (cb_buf outer)) j
            then da (cb_get K outer (j - (Mt - length (cb_buf outer)))) else g_v w1 j).
  destruct (pspmv left A P z) as [vnew0 T].
  match goal with |- agreeL _ (fst (arnoldi_tail ?a j vnew0)) (fst (arnoldi_tail ?b j vnew0)) /\ _ =>
    assert (C' : core j a b) by exact C;
    destruct (arnoldi_tail_core a b j vnew0 C') as (C1 & E & R1 & R2 & Z1 & Z2) end.
  split; [|exact E]. split; [exact C1|]. rewrite R1, R2, Z1, Z2. cbn [g_r g_z]. split; [reflexivity|].
  intros k Hk. destruct (Nat.eq_dec k j) as [->|Nk]; [rewrite !upd_eq; reflexivity|].
  apply upd_same. apply Z. lia.
Qed.

Lemma gm_inner_agree_lt (R : nat -> gm_ws -> gm_ws -> Prop) (b1 b2 : gm_ws -> nat -> gm_ws * S) maxiter M eps :
  (forall j w1 w2, j < M -> R j w1 w2 -> R (SS j) (fst (b1 w1 j)) (fst (b2 w2 j)) /\ snd (b1 w1 j) = snd (b2 w2 j)) ->
  forall fuel w1 w2 j it, j < M -> R j w1 w2 ->
  let r1 := gm_inner b1 maxiter M eps fuel w1 j it in
  let r2 := gm_inner b2 maxiter M eps fuel w2 j it in
  n_j r1 = n_j r2 /\ n_it r1 = n_it r2 /\ n_oof r1 = n_oof r2 /\ R (n_j r1) (n_ws r1) (n_ws r2).
Proof.
  intro Hb. induction fuel as [|k IH]; intros w1 w2 j it Hj HR; simpl;
    destruct (Hb j w1 w2 Hj HR) as (R' & E);
    destruct (b1 w1 j) as [w1' i1], (b2 w2 j) as [w2' i2]; simpl in R', E; subst i2.
  - destruct (Nat.leb maxiter (SS it) || Nat.leb M (SS j) || negb (sltb eps i1)); simpl; auto.
  - destruct (Nat.leb maxiter (SS it) || Nat.leb M (SS j) || negb (sltb eps i1)) eqn:Eb; simpl; auto.
    apply IH; [|exact R'].
    apply Bool.orb_false_iff in Eb as [Eb _]. apply Bool.orb_false_iff in Eb as [_ Eb].
    apply Nat.leb_gt in Eb. exact Eb.
Qed.

Definition LInv (K : nat) (wa wb : lg_ws) : Prop :=
  l_outer wa = l_outer wb /\ wf_cb K (l_outer wa) /\
  forall s, In s (cb_buf (l_outer wa)) -> l_data wa s = l_data wb s.

Lemma lg_cycle_agree (Hz : is_zero (@s0 S) = true) (A P : vec -> vec) prm eps norm_r (x : vec) (wa wb : lg_ws) it no :
  1 <= p_M prm -> LInv (p_K prm) wa wb -> g_r (l_g wa) = g_r (l_g wb) ->
  let ca := lg_cycle A P prm eps norm_r x wa it no in
  let cb := lg_cycle A P prm eps norm_r x wb it no in
  y_x ca = y_x cb /\ y_it ca = y_it cb /\ y_nouter ca = y_nouter cb /\ y_oof ca = y_oof cb /\
  LInv (p_K prm) (y_ws ca) (y_ws cb).
Proof.
  intros HM (Eo & Hwf & Hd) Er. unfold lg_cycle. cbv zeta.
  rewrite !(k_axpby_zero Hz), <- Er, <- Eo.
  set (K := p_K prm) in *. set (Mt := (p_M prm + K)%nat).
  set (outer := l_outer wa) in *.
  assert (Hosz : length (cb_buf outer) <= K) by (destruct Hwf as (H & _); exact H).
  match goal with |- context [gm_inner ?ba ?mx Mt ?e ?fu ?ga 0 it] =>
    match goal with |- context [gm_inner ?bb mx Mt e fu ?gb 0 it] =>
      lazymatch ga with gb => fail | _ => idtac end;
      assert (G0 : agreeL 0 ga gb);
      [| pose proof (gm_inner_agree_lt agreeL ba bb mx Mt e
           (fun j w1 w2 Hj HR => lg_body_agree A P (p_left prm) Mt K (l_data wa) (l_data wb) outer j w1 w2 Hwf ltac:(unfold Mt; lia) Hd Hj HR)
           fu ga gb 0 it ltac:(unfold Mt; lia) G0) as (Ej & Ei & Eoo & (C & Er' & Z));
         set (ra := gm_inner ba mx Mt e fu ga 0 it) in *; set (rb := gm_inner bb mx Mt e fu gb 0 it) in * ]
    end end.
  { split; [|split; [reflexivity | intros k Hk; lia]].
    unfold core; cbn [g_v g_cs g_sn g_s g_H]. repeat split; try reflexivity; try lia.
    - intros k Hk. assert (k = 0) by lia. subst. rewrite !upd_eq. reflexivity.
    - intros r c (Hc & _). lia. }
  destruct C as (Cv & _ & Cs & CH).
  rewrite <- Ej.
  assert (Esv : forall m, backsub (g_H (n_ws ra)) (rev (seq 0 (n_j ra))) (g_s (n_ws ra)) m
                        = backsub (g_H (n_ws rb)) (rev (seq 0 (n_j ra))) (g_s (n_ws rb)) m).
  { intro m. apply (backsub_agree _ _ (n_j ra)); [exact CH | apply rev_seq_lt | exact Cs]. }
  assert (Ecv : cv_of (backsub (g_H (n_ws ra)) (rev (seq 0 (n_j ra))) (g_s (n_ws ra))) (g_z (n_ws ra)) (n_j ra)
              = cv_of (backsub (g_H (n_ws rb)) (rev (seq 0 (n_j ra))) (g_s (n_ws rb))) (g_z (n_ws rb)) (n_j ra)).
  { apply cv_of_agree; [exact Esv | exact Z]. }
  rewrite <- Ecv, <- Er'.
  set (dx := k_lin_comb (cv_of (backsub (g_H (n_ws ra)) (rev (seq 0 (n_j ra))) (g_s (n_ws ra))) (g_z (n_ws ra)) (n_j ra)) s0 (g_r (n_ws ra))).
  assert (Eleb : Nat.leb (Mt - length (cb_buf outer)) 0 = false) by (apply Nat.leb_gt; unfold Mt; lia).
  rewrite Eleb.
  assert (Fin : forall (xa : vec) (ga gb : gm_ws),
    let ca := if Nat.ltb 0 K && negb (is_zero (norm_b dx))
              then mkLgCyc xa (mkLgWs ga (upd (l_data wa) (no mod K) (k_axpby (sinv (norm_b dx)) dx s0 (l_data wa (no mod K)))) (cb_push K outer (no mod K))) (n_it ra) (SS no) (n_oof ra)
              else mkLgCyc xa (mkLgWs ga (l_data wa) outer) (n_it ra) no (n_oof ra) in
    let cb := if Nat.ltb 0 K && negb (is_zero (norm_b dx))
              then mkLgCyc xa (mkLgWs gb (upd (l_data wb) (no mod K) (k_axpby (sinv (norm_b dx)) dx s0 (l_data wb (no mod K)))) (cb_push K outer (no mod K))) (n_it rb) (SS no) (n_oof rb)
              else mkLgCyc xa (mkLgWs gb (l_data wb) outer) (n_it rb) no (n_oof rb) in
    y_x ca = y_x cb /\ y_it ca = y_it cb /\ y_nouter ca = y_nouter cb /\ y_oof ca = y_oof cb /\ LInv K (y_ws ca) (y_ws cb)).
  { intros xa ga gb. rewrite !(k_axpby_zero Hz).
    destruct (Nat.ltb 0 K && negb (is_zero (norm_b dx))) eqn:Est; cbn [y_x y_it y_nouter y_oof y_ws].
    - split; [reflexivity|]. split; [exact Ei|]. split; [reflexivity|]. split; [exact Eoo|].
      unfold LInv; cbn [l_outer l_data]. split; [reflexivity|]. split.
      + apply cb_push_wf; [|exact Hwf]. apply Bool.andb_true_iff in Est as [Est _]. apply Nat.ltb_lt in Est. exact Est.
      + intros s Hs. apply cb_push_in in Hs as [->|Hs]; [rewrite !upd_eq; reflexivity|].
        apply upd_same. apply Hd. exact Hs.
    - split; [reflexivity|]. split; [exact Ei|]. split; [reflexivity|]. split; [exact Eoo|].
      unfold LInv; cbn [l_outer l_data]. split; [reflexivity|]. split; [exact Hwf | exact Hd]. }
  destruct (p_left prm); apply Fin.
Qed.

Opaque lg_cycle.
Lemma lg_outer_agree (Hz : is_zero (@s0 S) = true) (A P : vec -> vec) prm (f : vec) eps nr fuel :
  1 <= p_M prm -> forall x (wa wb : lg_ws) it no oof, LInv (p_K prm) wa wb ->
  fst (lg_outer A P prm f eps nr fuel x wa it no oof) = fst (lg_outer A P prm f eps nr fuel x wb it no oof).
Proof.
  intro HM. induction fuel as [|k IH]; intros x wa wb it no oof HI; simpl.
  - destruct (p_left prm); simpl; destruct (sltb _ eps || Nat.leb (p_maxiter prm) it); reflexivity.
  - destruct (p_left prm) eqn:El; simpl.
    + destruct (sltb _ eps || Nat.leb (p_maxiter prm) it); [reflexivity|].
      match goal with |- context [lg_cycle A P prm eps ?nrm x ?w0a it no] =>
        match goal with |- context [lg_cycle A P prm eps nrm x ?w0b it no] =>
          lazymatch w0a with w0b => fail | _ => idtac end;
          destruct (lg_cycle_agree Hz A P prm eps nrm x w0a w0b it no HM HI eq_refl) as (E1 & E2 & E3 & E4 & E5);
          set (ca := lg_cycle A P prm eps nrm x w0a it no) in *; set (cb := lg_cycle A P prm eps nrm x w0b it no) in * end end.
      rewrite <- E1, <- E2, <- E3, <- E4. apply IH. exact E5.
    + destruct (sltb _ eps || Nat.leb (p_maxiter prm) it); [reflexivity|].
      match goal with |- context [lg_cycle A P prm eps ?nrm x ?w0a it no] =>
        match goal with |- context [lg_cycle A P prm eps nrm x ?w0b it no] =>
          lazymatch w0a with w0b => fail | _ => idtac end;
          destruct (lg_cycle_agree Hz A P prm eps nrm x w0a w0b it no HM HI eq_refl) as (E1 & E2 & E3 & E4 & E5);
          set (ca := lg_cycle A P prm eps nrm x w0a it no) in *; set (cb := lg_cycle A P prm eps nrm x w0b it no) in * end end.
      rewrite <- E1, <- E2, <- E3, <- E4. apply IH. exact E5.
Qed.
Transparent lg_cycle.

Theorem lgmres_reset_state_independent (Hz : is_zero (@s0 S) = true) (A P : vec -> vec) prm (f x0 : vec) (st1 st2 : lg_ws) :
  p_areset prm = true -> 1 <= p_M prm ->
  fst (lgmres A P prm f x0 st1) = fst (lgmres A P prm f x0 st2).
Proof.
  intros Ha HM. unfold lgmres. rewrite Ha.
  destruct (k_prologue norm_b prm f) as [nr|nr]; [reflexivity|].
  match goal with |- fst (let '(_, _) := lg_outer A P prm f ?e nr ?fu x0 ?sa 0 0 false in _) = fst (let '(_, _) := lg_outer _ _ _ _ _ _ _ _ ?sb 0 0 false in _) =>
    assert (HI : LInv (p_K prm) sa sb) by (unfold LInv; cbn [l_outer l_data]; split; [reflexivity | split; [apply wf_cb_clear | intros s Hs; destruct Hs]]);
    pose proof (lg_outer_agree Hz A P prm f e nr fu HM x0 sa sb 0 0 false HI) as E;
    destruct (lg_outer A P prm f e nr fu x0 sa 0 0 false) as [r1 w1], (lg_outer A P prm f e nr fu x0 sb 0 0 false) as [r2 w2] end.
  simpl in E. subst. reflexivity.
Qed.

Theorem lgmres_zero_rhs (A P : vec -> vec) prm (f x0 : vec) st :
  sltb (norm_b f) eps1 = true -> p_ns prm = false ->
  fst (lgmres A P prm f x0 st) = KOk (mkRes 0 (norm_b f) (k_clear x0) false).
Proof. intros H N. unfold lgmres, k_prologue. rewrite H, N. reflexivity. Qed.

End AnyScalar.

(* ================================================================== *)
(* Part 2: commutative ring, decidable equality, linear operators     *)
Section RingLaws.
Context {S : Scalar}.
Local Notation vec := (vec S).
Local Notation cg_st := (@cg_st S).
Local Notation cg_ws := (@cg_ws S).
Local Notation ri_st := (@ri_st S).
Local Notation bs_st := (@bs_st S).
Local Notation bs_ws := (@bs_ws S).
Local Notation kprm := (@kprm S).
Hypothesis Srt : Sring S.
Hypothesis Seqb : seqb_spec S.
Add Ring SRingK : Srt.

Variable n : nat.
Variables A P : vec -> vec.
Hypothesis A_len : forall v, length v = n -> length (A v) = n.
Hypothesis P_len : forall v, length v = n -> length (P v) = n.
(* linearity, stated on x + a y *)
Definition linear_on (n : nat) (F : vec -> vec) : Prop :=
  forall a x y, length x = n -> length y = n ->
    F (vmap2 (fun xi yi => xi + a * yi) x y) = vmap2 (fun u v => u + a * v) (F x) (F y).
Hypothesis A_lin : linear_on n A.

Lemma is_zero_s0 : is_zero (@s0 S) = true.
Proof. unfold is_zero. apply Seqb. reflexivity. Qed.

(* solve a vector identity between vmap2/vmap3/map expressions pointwise by ring *)
Ltac vec_ring :=
  apply nth_error_ext; let i := fresh "i" in intro i;
  repeat (rewrite ?nth_error_vmap2, ?nth_error_vmap3, ?nth_error_map);
  repeat match goal with |- context [nth_error ?v i] => destruct (nth_error v i) end;
  simpl; try reflexivity; try (f_equal; ring).

Lemma map_vmap2_le (g : S -> S) (h : S -> S -> S) (x y : vec) :
  length x <= length y -> (forall a b, g a = h a b) -> map g x = vmap2 h x y.
Proof.
  revert y; induction x as [|a x IH]; intros [|b y] L E; simpl in *; try reflexivity; try lia.
  f_equal; [apply E | apply IH; [lia | exact E]].
Qed.

Lemma k_axpby_spec a (x : vec) b (y : vec) : length x <= length y ->
  k_axpby a x b y = vmap2 (fun xi yi => a * xi + b * yi) x y.
Proof.
  intro L. unfold k_axpby. destruct (is_zero b) eqn:E; [|reflexivity].
  apply (is_zero_true Seqb) in E. subst b.
  apply map_vmap2_le; [exact L | intros; ring].
Qed.

Lemma vmap2_vmap3_le (h : S -> S -> S) (g : S -> S -> S -> S) (x y z : vec) :
  length x <= length z -> (forall a b c, h a b = g a b c) -> vmap2 h x y = vmap3 g x y z.
Proof.
  revert y z; induction x as [|a x IH]; intros [|b y] [|c z] L E; simpl in *; try reflexivity; try lia.
  f_equal; [apply E | apply IH; [lia | exact E]].
Qed.

Lemma k_axpbypcz_spec a (x : vec) b (y : vec) c (z : vec) : length x <= length z ->
  k_axpbypcz a x b y c z = vmap3 (fun xi yi zi => a * xi + b * yi + c * zi) x y z.
Proof.
  intro L. unfold k_axpbypcz. destruct (is_zero c) eqn:E; [|reflexivity].
  apply (is_zero_true Seqb) in E. subst c.
  apply vmap2_vmap3_le; [exact L | intros; ring].
Qed.

Lemma k_axpbypcz_c0 a (x : vec) b (y z : vec) :
  k_axpbypcz a x b y s0 z = vmap2 (fun xi yi => a * xi + b * yi) x y.
Proof. unfold k_axpbypcz. rewrite is_zero_s0. reflexivity. Qed.

Lemma ip_dot (x y : vec) : ip x y = dot x y.
Proof. unfold ip. apply (inner_product_serial_spec Srt). Qed.
Lemma rdot_dot (x y : vec) : rdot x y = dot x y.
Proof.
  revert y; induction x as [|a x IH]; intros [|b y]; simpl; try reflexivity.
Qed.
Lemma norm_a_rnorm (x : vec) : norm_a x = rnorm x.
Proof. unfold norm_a, rnorm. rewrite ip_dot. reflexivity. Qed.
Lemma eps1_rtiny : @eps1 S = rtiny.
Proof. reflexivity. Qed.

(* the residual after x <- x + a y *)
Lemma residual_update (f x y : vec) a : length x = n -> length y = n ->
  k_residual f (A (vmap2 (fun xi yi => xi + a * yi) x y)) =
  vmap2 (fun ri qi => ri - a * qi) (k_residual f (A x)) (A y).
Proof.
  intros Lx Ly. rewrite (A_lin a x y Lx Ly). unfold k_residual. vec_ring.
Qed.

(* ------------------------------ CG ------------------------------ *)
Definition cg_inv (f : vec) (st : cg_st) : Prop :=
  length (c_x st) = n /\ length (cg_r (c_ws st)) = n /\
  (c_it st <> 0 -> length (cg_p (c_ws st)) = n) /\
  cg_r (c_ws st) = k_residual f (A (c_x st)) /\ c_res st = norm_a (cg_r (c_ws st)).

Lemma cg_step_p_len (st : cg_st) f : cg_inv f st -> length (cg_p (c_ws (cg_step A P st))) = n.
Proof.
  intros (Lx & Lr & Lp & _). unfold cg_step; simpl.
  destruct (Nat.eqb (c_it st) 0) eqn:E.
  - apply P_len. exact Lr.
  - apply Nat.eqb_neq in E. rewrite k_axpby_spec by (rewrite P_len, Lp; auto).
    rewrite vmap2_length, P_len, Lp by auto. lia.
Qed.

Lemma cg_step_inv f (st : cg_st) : cg_inv f st -> cg_inv f (cg_step A P st).
Proof.
  intro I. pose proof (cg_step_p_len st f I) as Lp'.
  destruct I as (Lx & Lr & Lp & Hr & Hres).
  unfold cg_step in *; simpl in *.
  set (s := P (cg_r (c_ws st))) in *.
  set (rho1 := ip (cg_r (c_ws st)) s) in *.
  set (p := if Nat.eqb (c_it st) 0 then s else k_axpby s1 s (rho1 / c_rho1 st) (cg_p (c_ws st))) in *.
  set (alpha := rho1 / ip (A p) p).
  assert (Lq : length (A p) = n) by (apply A_len; exact Lp').
  unfold cg_inv; simpl.
  rewrite !k_axpby_spec by lia.
  repeat split.
  - rewrite vmap2_length. lia.
  - rewrite vmap2_length. lia.
  - intros _. exact Lp'.
  - replace (vmap2 (fun xi yi => alpha * xi + s1 * yi) p (c_x st))
      with (vmap2 (fun xi yi => xi + alpha * yi) (c_x st) p) by vec_ring.
    rewrite residual_update by assumption. rewrite <- Hr. vec_ring.
Qed.

Lemma cg_loop_inv f eps fuel : forall st : cg_st, cg_inv f st -> cg_inv f (cg_loop A P eps fuel st).
Proof.
  induction fuel as [|k IH]; intros st I; simpl; [exact I|].
  destruct (sltb eps (sabs (c_res st))); [|exact I].
  apply IH, cg_step_inv, I.
Qed.

Theorem cg_residual_truthful prm (f x0 : vec) junk nr r w :
  length f = n -> length x0 = n ->
  k_prologue norm_a prm f = Go nr ->
  cg A P prm f x0 junk = (KOk r, w) ->
  k_res r = true_res norm_a A P false f (k_x r) / nr /\ cg_r w = k_residual f (A (k_x r)).
Proof.
  intros Lf Lx Hp. unfold cg. rewrite Hp. unfold cg_init. intro H.
  apply pair_equal_spec in H as [H1 H2]. injection H1 as H1. rewrite <- H1, <- H2. clear H1 H2. simpl.
  match goal with |- c_res (cg_loop _ _ ?e ?fu ?st) / _ = _ /\ _ =>
    assert (I : cg_inv f st);
    [| pose proof (cg_loop_inv f e fu st I) as (_ & _ & _ & I1 & I2) ] end.
  { unfold cg_inv; simpl. repeat split; auto.
    - unfold k_residual. rewrite vmap2_length, A_len, Lf by auto. lia.
    - intro H; exfalso; apply H; reflexivity. }
  unfold true_res. rewrite I2, <- I1. split; reflexivity.
Qed.

(* ---- C05-A1: Richardson = k-fold iteration of x <- x + omega P (f - A x) ---- *)
Lemma residual_ref (f x : vec) : k_residual f (A x) = vsub f (A x).
Proof. unfold k_residual, vsub. change (@zipw S) with (@vmap2 S). vec_ring. Qed.

Lemma ri_step_ref d (f : vec) (st : ri_st) :
  length (i_x st) = n -> ri_r (i_ws st) = k_residual f (A (i_x st)) -> length f = n ->
  i_x (ri_step A P d f st) = rich_step A P d f (i_x st) /\ length (i_x (ri_step A P d f st)) = n.
Proof.
  intros Lx Hr Lf. unfold ri_step, rich_step; simpl.
  assert (Lr : length (ri_r (i_ws st)) = n).
  { rewrite Hr. unfold k_residual. rewrite vmap2_length, A_len, Lf by auto. lia. }
  rewrite k_axpby_spec by (rewrite P_len; auto; lia).
  split.
  - rewrite Hr, residual_ref. unfold vadd, vscal. change (@zipw S) with (@vmap2 S). vec_ring.
  - rewrite vmap2_length, P_len by auto. lia.
Qed.

Lemma ri_loop_ref d (f x0 : vec) eps fuel : length f = n -> forall st : ri_st,
  length (i_x st) = n -> ri_r (i_ws st) = k_residual f (A (i_x st)) ->
  i_x st = rich_iter A P d f (i_it st) x0 ->
  let st' := ri_loop A P d f eps fuel st in
  i_x st' = rich_iter A P d f (i_it st') x0.
Proof.
  intro Lf. induction fuel as [|k IH]; intros st Lx Hr Hx; simpl; [exact Hx|].
  destruct (sltb eps (sabs (i_res st))); [|exact Hx].
  destruct (ri_step_ref d f st Lx Hr Lf) as (E & L').
  apply IH; [exact L' | reflexivity |].
  rewrite E. simpl. rewrite <- Hx. reflexivity.
Qed.

Theorem richardson_is_kfold prm (f x0 : vec) junk nr r w :
  length f = n -> length x0 = n ->
  k_prologue norm_a prm f = Go nr ->
  richardson A P prm f x0 junk = (KOk r, w) ->
  k_x r = rich_iter A P (p_damping prm) f (k_it r) x0.
Proof.
  intros Lf Lx Hp. unfold richardson. rewrite Hp. intro H.
  apply pair_equal_spec in H as [H1 H2]. injection H1 as H1. rewrite <- H1. clear H1 H2. simpl.
  apply ri_loop_ref; auto.
Qed.

(* ---- C05-A1: CG model = textbook preconditioned CG ---- *)
Definition out_of_ref (o : option (nat * S * vec)) : kout :=
  match o with Some (k, res, x) => KOk (mkRes k res x false) | None => KExc end.

(* the direction the next pass of the model will use *)
Definition cg_next_p (st : cg_st) : vec :=
  let s := P (cg_r (c_ws st)) in
  if Nat.eqb (c_it st) 0 then s else k_axpby s1 s (ip (cg_r (c_ws st)) s / c_rho1 st) (cg_p (c_ws st)).

Lemma cg_loop_ref (f : vec) eps fuel : forall st : cg_st, cg_inv f st ->
  let st' := cg_loop A P eps fuel st in
  cg_ref_loop A P eps fuel (c_it st) (c_x st) (cg_r (c_ws st)) (cg_next_p st)
              (rdot (cg_r (c_ws st)) (P (cg_r (c_ws st))))
  = (c_it st', c_x st', cg_r (c_ws st')).
Proof.
  induction fuel as [|k IH]; intros st I; simpl; [reflexivity|].
  pose proof I as (Lx & Lr & Lp & Hr & Hres).
  rewrite Hres, norm_a_rnorm.
  destruct (sltb eps (sabs (rnorm (cg_r (c_ws st))))); [|reflexivity].
  pose proof (cg_step_inv f st I) as I'.
  pose proof (cg_step_p_len st f I) as Lp'.
  specialize (IH (cg_step A P st) I'). simpl in IH.
  rewrite <- IH. clear IH.
  (* rewrite the textbook updates into the model's updates *)
  assert (Ep : cg_p (c_ws (cg_step A P st)) = cg_next_p st) by reflexivity.
  assert (Lq : length (A (cg_next_p st)) = n) by (apply A_len; rewrite <- Ep; exact Lp').
  assert (Ex : vadd (c_x st) (vscal (rdot (cg_r (c_ws st)) (P (cg_r (c_ws st))) / rdot (A (cg_next_p st)) (cg_next_p st)) (cg_next_p st))
               = c_x (cg_step A P st)).
  { unfold cg_step; simpl. fold (cg_next_p st). rewrite k_axpby_spec by (rewrite <- Ep; lia).
    unfold vadd, vscal. change (@zipw S) with (@vmap2 S). rewrite ?ip_dot. change (@rdot S) with (@dot S). vec_ring. }
  assert (Er : vsub (cg_r (c_ws st)) (vscal (rdot (cg_r (c_ws st)) (P (cg_r (c_ws st))) / rdot (A (cg_next_p st)) (cg_next_p st)) (A (cg_next_p st)))
               = cg_r (c_ws (cg_step A P st))).
  { unfold cg_step; simpl. fold (cg_next_p st). rewrite k_axpby_spec by lia.
    unfold vsub, vscal. change (@zipw S) with (@vmap2 S). rewrite ?ip_dot. change (@rdot S) with (@dot S). vec_ring. }
  rewrite Ex, Er.
  assert (Enp : vadd (P (cg_r (c_ws (cg_step A P st))))
                     (vscal (rdot (cg_r (c_ws (cg_step A P st))) (P (cg_r (c_ws (cg_step A P st))))
                             / rdot (cg_r (c_ws st)) (P (cg_r (c_ws st)))) (cg_next_p st))
                = cg_next_p (cg_step A P st)).
  { unfold cg_next_p at 2. simpl c_it. cbv iota beta.
    replace (Nat.eqb (SS (c_it st)) 0) with false by reflexivity.
    rewrite Ep.
    assert (L1 : length (P (cg_r (c_ws (cg_step A P st)))) = n).
    { apply P_len. destruct I' as (_ & L & _). exact L. }
    rewrite k_axpby_spec by (rewrite <- Ep; lia).
    unfold vadd, vscal. change (@zipw S) with (@vmap2 S).
    replace (c_rho1 (cg_step A P st)) with (ip (cg_r (c_ws st)) (P (cg_r (c_ws st)))) by reflexivity.
    rewrite ?ip_dot. change (@rdot S) with (@dot S). vec_ring. }
  rewrite Enp. reflexivity.
Qed.

Theorem cg_model_is_ref prm (f x0 : vec) junk :
  length f = n -> length x0 = n ->
  fst (cg A P prm f x0 junk) =
  out_of_ref (cg_ref A P (p_maxiter prm) (p_tol prm) (p_abstol prm) (p_ns prm) f x0).
Proof.
  intros Lf Lx. unfold cg, cg_ref, with_rhs, k_prologue.
  rewrite <- norm_a_rnorm, <- eps1_rtiny.
  assert (G : forall nr, fst (let '(eps, st0) := cg_init A prm nr f x0 junk in
                 let st := cg_loop A P eps (p_maxiter prm) st0 in
                 (KOk (mkRes (c_it st) (c_res st / nr) (c_x st) false), c_ws st))
            = out_of_ref (let eps := smax (p_tol prm * nr) (p_abstol prm) in
                 let r0 := vsub f (A x0) in let z0 := P r0 in
                 let '(k, x, r) := cg_ref_loop A P eps (p_maxiter prm) 0 x0 r0 z0 (rdot r0 z0) in
                 Some (k, rnorm r / nr, x))).
  { intro nr. unfold cg_init. cbv zeta.
    match goal with |- context [cg_loop A P ?e ?fu ?st] =>
      assert (I : cg_inv f st);
      [| pose proof (cg_loop_ref f e fu st I) as R; pose proof (cg_loop_inv f e fu st I) as (_ & _ & _ & _ & I2) ] end.
    { unfold cg_inv; simpl. repeat split; auto.
      - unfold k_residual. rewrite vmap2_length, A_len, Lf by auto. lia.
      - intro H; exfalso; apply H; reflexivity. }
    simpl in R. unfold cg_next_p in R. simpl in R. clear I.
    rewrite residual_ref in *. cbv zeta. rewrite R. simpl.
    rewrite I2, !norm_a_rnorm. reflexivity. }
  destruct (sltb (norm_a f) eps1).
  - destruct (p_ns prm); [apply G | reflexivity].
  - apply G.
Qed.

(* ---- C01-A1: BiCGStab carries the (preconditioned) residual of its iterate, both sides ---- *)
Hypothesis P_lin : linear_on n P.

Definition Gop (left : bool) (y : vec) : vec := if left then P (A y) else A y.
Definition Rm (left : bool) (f x : vec) : vec :=
  if left then P (k_residual f (A x)) else k_residual f (A x).

Lemma k_residual_len (f x : vec) : length f = n -> length x = n -> length (k_residual f (A x)) = n.
Proof. intros Lf Lx. unfold k_residual. rewrite vmap2_length, A_len, Lf by auto. lia. Qed.
Lemma Rm_len left (f x : vec) : length f = n -> length x = n -> length (Rm left f x) = n.
Proof. intros Lf Lx. unfold Rm. destruct left; [apply P_len|]; apply k_residual_len; auto. Qed.
Lemma Gop_len left (y : vec) : length y = n -> length (Gop left y) = n.
Proof. intro L. unfold Gop. destruct left; [apply P_len|]; apply A_len; auto. Qed.

Lemma Rm_update left (f x y : vec) a : length f = n -> length x = n -> length y = n ->
  Rm left f (vmap2 (fun xi yi => xi + a * yi) x y) = vmap2 (fun ri vi => ri - a * vi) (Rm left f x) (Gop left y).
Proof.
  intros Lf Lx Ly. unfold Rm, Gop. rewrite residual_update by assumption. destruct left; [|reflexivity].
  replace (vmap2 (fun ri qi => ri - a * qi) (k_residual f (A x)) (A y))
    with (vmap2 (fun ri qi => ri + (- a) * qi) (k_residual f (A x)) (A y)) by vec_ring.
  rewrite P_lin by (try apply k_residual_len; try apply A_len; auto).
  vec_ring.
Qed.

Lemma pspmv_G left (p : vec) : length p = n ->
  fst (pspmv left A P p) = Gop left (if left then p else snd (pspmv left A P p)) /\
  length (if left then p else snd (pspmv left A P p)) = n.
Proof. intro L. unfold pspmv, Gop. destruct left; simpl; auto. Qed.

Lemma k_axpbypcz_len3 a (x : vec) b (y : vec) c (z : vec) :
  length x = n -> length y = n -> length z = n -> length (k_axpbypcz a x b y c z) = n.
Proof.
  intros. unfold k_axpbypcz. destruct (is_zero c); rewrite ?vmap2_length, ?vmap3_length; lia.
Qed.

Definition bs_inv (left ca : bool) (f : vec) (eps : S) (st : bs_st) : Prop :=
  length (b_x st) = n /\
  b_res st = norm_a (Rm left f (b_x st)) /\
  (sltb eps (b_res st) = true \/ b_first st = true -> bs_r (b_ws st) = Rm left f (b_x st)) /\
  (b_first st = false -> length (bs_p (b_ws st)) = n /\ length (bs_v (b_ws st)) = n).

(* the two half steps, for any direction p of the right length *)
Lemma bs_rest_inv left ca (f : vec) eps (st : bs_st) (p : vec) rho1 rho2 st' :
  length f = n -> length p = n -> length (b_x st) = n -> bs_r (b_ws st) = Rm left f (b_x st) ->
  (let w := b_ws st in
   let '(v, T) := pspmv left A P p in
    let alpha := rho1 / ip (bs_rh w) v in
    let x := if left then k_axpby alpha p s1 (b_x st) else k_axpby alpha T s1 (b_x st) in
    let s := k_axpbypcz s1 (bs_r w) (- alpha) v s0 (bs_s w) in
    let res := norm_a s in
    if sltb eps res then
      let '(t, T') := pspmv left A P s in
      let omega := ip t s / ip t t in
      if is_zero omega then None
      else
        let x' := if left then k_axpby omega s s1 x else k_axpby omega T' s1 x in
        let r := k_axpbypcz s1 s (- omega) t s0 (bs_r w) in
        Some (mkBsSt x' (mkBsWs r p v s t (bs_rh w) T') rho1 rho2 alpha omega (norm_a r) false (SS (b_it st)))
    else
      Some (mkBsSt x (mkBsWs (bs_r w) p v s (bs_t w) (bs_rh w) T) rho1 rho2 alpha (b_omega st) res false (SS (b_it st))))
  = Some st' -> bs_inv left ca f eps st'.
Proof.
  intros Lf Lp Lx Hr. cbv zeta.
  pose proof (pspmv_G left p Lp) as (Ev & Ly).
  destruct (pspmv left A P p) as [v T]. simpl in Ev, Ly.
  set (y := if left then p else T) in *. change (length y = n) in Ly.
  set (alpha := rho1 / ip (bs_rh (b_ws st)) v).
  assert (Lv : length v = n) by (rewrite Ev; apply Gop_len; exact Ly).
  assert (Lr : length (bs_r (b_ws st)) = n) by (rewrite Hr; apply Rm_len; auto).
  assert (Ex : (if left then k_axpby alpha p s1 (b_x st) else k_axpby alpha T s1 (b_x st))
               = vmap2 (fun xi yi => xi + alpha * yi) (b_x st) y).
  { unfold y in *. destruct left; simpl in *; rewrite k_axpby_spec by lia; vec_ring. }
  rewrite Ex. rewrite k_axpbypcz_c0.
  set (x1 := vmap2 (fun xi yi => xi + alpha * yi) (b_x st) y) in *.
  assert (Lx1 : length x1 = n) by (unfold x1; rewrite vmap2_length; lia).
  assert (Es : vmap2 (fun xi yi => s1 * xi + - alpha * yi) (bs_r (b_ws st)) v = Rm left f x1).
  { unfold x1. rewrite Rm_update by assumption. rewrite Hr, Ev. vec_ring. }
  rewrite Es.
  destruct (sltb eps (norm_a (Rm left f x1))) eqn:E1.
  - assert (Ls : length (Rm left f x1) = n) by (apply Rm_len; auto).
    pose proof (pspmv_G left (Rm left f x1) Ls) as (Et & Ly2).
    destruct (pspmv left A P (Rm left f x1)) as [t T']. simpl in Et, Ly2.
    set (y2 := if left then Rm left f x1 else T') in *. change (length y2 = n) in Ly2.
    set (omega := ip t (Rm left f x1) / ip t t).
    destruct (is_zero omega); [discriminate|].
    assert (Lt : length t = n) by (rewrite Et; apply Gop_len; exact Ly2).
    assert (Ex2 : (if left then k_axpby omega (Rm left f x1) s1 x1 else k_axpby omega T' s1 x1)
                  = vmap2 (fun xi yi => xi + omega * yi) x1 y2).
    { unfold y2 in *. destruct left; simpl in *; rewrite k_axpby_spec by lia; vec_ring. }
    rewrite Ex2, k_axpbypcz_c0.
    set (x2 := vmap2 (fun xi yi => xi + omega * yi) x1 y2) in *.
    assert (Er2 : vmap2 (fun xi yi => s1 * xi + - omega * yi) (Rm left f x1) t = Rm left f x2).
    { unfold x2. rewrite Rm_update by assumption. rewrite Et. vec_ring. }
    rewrite Er2. intro H; inversion H; subst st'; clear H. unfold bs_inv; simpl.
    repeat split; auto.
    unfold x2. rewrite vmap2_length. lia.
  - intro H; inversion H; subst st'; clear H. unfold bs_inv; simpl.
    repeat split; auto.
    rewrite E1. intros [H|H]; discriminate.
Qed.

Lemma bs_step_inv left ca (f : vec) eps (st st' : bs_st) : length f = n ->
  bs_inv left ca f eps st -> sltb eps (b_res st) || (b_first st && ca) = true ->
  bs_step A P left eps st = Some st' -> bs_inv left ca f eps st'.
Proof.
  intros Lf (Lx & Hres & Hr & Hpv) Hgo.
  assert (Hgo' : sltb eps (b_res st) = true \/ b_first st = true).
  { apply Bool.orb_true_iff in Hgo as [H|H]; [left; exact H | right; apply Bool.andb_true_iff in H; tauto]. }
  specialize (Hr Hgo').
  assert (Lr : length (bs_r (b_ws st)) = n) by (rewrite Hr; apply Rm_len; auto).
  unfold bs_step. cbv zeta.
  destruct (b_first st) eqn:Fi.
  - apply bs_rest_inv; auto.
  - destruct (is_zero (b_rho1 st)); [discriminate|].
    destruct (Hpv eq_refl) as (Lp & Lv).
    apply bs_rest_inv; auto. apply k_axpbypcz_len3; auto.
Qed.

Lemma bs_loop_inv left ca (f : vec) eps fuel : length f = n -> forall st st' : bs_st,
  bs_inv left ca f eps st -> bs_loop A P left ca eps fuel st = Some st' -> bs_inv left ca f eps st'.
Proof.
  intro Lf. induction fuel as [|k IH]; intros st st' I; simpl.
  - intro H; inversion H; subst; exact I.
  - destruct (sltb eps (b_res st) || (b_first st && ca)) eqn:E; [|intro H; inversion H; subst; exact I].
    destruct (bs_step A P left eps st) as [s1'|] eqn:Es; [|discriminate].
    apply IH. eapply bs_step_inv; eauto.
Qed.

Theorem bicgstab_residual_truthful prm (f x0 : vec) junk nr r w :
  length f = n -> length x0 = n ->
  k_prologue norm_a prm f = Go nr ->
  bicgstab A P prm f x0 junk = (KOk r, w) ->
  k_res r = true_res norm_a A P (p_left prm) f (k_x r) / nr.
Proof.
  intros Lf Lx Hp. unfold bicgstab. rewrite Hp. unfold bs_init.
  match goal with |- context [bs_loop A P ?l ?c ?e ?fu ?st] =>
    assert (I : bs_inv l c f e st);
    [| destruct (bs_loop A P l c e fu st) as [st'|] eqn:E; [|discriminate];
       pose proof (bs_loop_inv l c f e fu Lf st st' I E) as (_ & I2 & _) ] end.
  { unfold bs_inv; simpl. repeat split; auto; discriminate. }
  intro H. apply pair_equal_spec in H as [H1 H2]. injection H1 as H1. rewrite <- H1. simpl.
  rewrite I2. unfold true_res, Rm. destruct (p_left prm); reflexivity.
Qed.

(* ---- C05-A1: BiCGStab model = textbook BiCGStab (van der Vorst), both sides ---- *)
Ltac ref_ring := unfold vadd, vsub, vscal; change (@zipw S) with (@vmap2 S);
                 rewrite ?ip_dot; change (@rdot S) with (@dot S); vec_ring.

Definition Kop (left : bool) (v : vec) : vec := if left then P (A v) else A (P v).
Definition Yop (left : bool) (v : vec) : vec := if left then v else P v.
Lemma Kop_len left v : length v = n -> length (Kop left v) = n.
Proof. intro L. unfold Kop. destruct left; auto. Qed.
Lemma Yop_len left v : length v = n -> length (Yop left v) = n.
Proof. intro L. unfold Yop. destruct left; auto. Qed.

(* the part of bs_step after the direction p has been formed *)
Definition bs_rest (left : bool) (eps : S) (st : bs_st) (p : vec) (rho1 rho2 : S) : option bs_st :=
  let w := b_ws st in
  let '(v, T) := pspmv left A P p in
  let alpha := rho1 / ip (bs_rh w) v in
  let x := if left then k_axpby alpha p s1 (b_x st) else k_axpby alpha T s1 (b_x st) in
  let s := k_axpbypcz s1 (bs_r w) (- alpha) v s0 (bs_s w) in
  let res := norm_a s in
  if sltb eps res then
    let '(t, T') := pspmv left A P s in
    let omega := ip t s / ip t t in
    if is_zero omega then None
    else
      let x' := if left then k_axpby omega s s1 x else k_axpby omega T' s1 x in
      let r := k_axpbypcz s1 s (- omega) t s0 (bs_r w) in
      Some (mkBsSt x' (mkBsWs r p v s t (bs_rh w) T') rho1 rho2 alpha omega (norm_a r) false (SS (b_it st)))
  else
    Some (mkBsSt x (mkBsWs (bs_r w) p v s (bs_t w) (bs_rh w) T) rho1 rho2 alpha (b_omega st) res false (SS (b_it st))).

Lemma pspmv_KY left (p v T : vec) : pspmv left A P p = (v, T) ->
  v = Kop left p /\ (if left then p else T) = Yop left p.
Proof. unfold pspmv, Kop, Yop. destruct left; intro H; inversion H; auto. Qed.

Lemma bs_rest_ref left eps (st : bs_st) (p : vec) rho' rho2 :
  length p = n -> length (b_x st) = n -> length (bs_r (b_ws st)) = n ->
  match bs_ref_body (Kop left) (Yop left) eps (bs_rh (b_ws st)) (b_it st) (b_x st) (bs_r (b_ws st)) p rho' with
  | BsFail => bs_rest left eps st p rho' rho2 = None
  | BsDone k' res' x' => exists st', bs_rest left eps st p rho' rho2 = Some st' /\
        b_it st' = k' /\ b_res st' = res' /\ b_x st' = x' /\ sltb eps res' = false /\ b_first st' = false
  | BsNext x' r' v' al om res' => exists st', bs_rest left eps st p rho' rho2 = Some st' /\
        b_x st' = x' /\ bs_r (b_ws st') = r' /\ bs_v (b_ws st') = v' /\ bs_p (b_ws st') = p /\
        bs_rh (b_ws st') = bs_rh (b_ws st) /\ b_rho1 st' = rho' /\ b_alpha st' = al /\ b_omega st' = om /\
        b_res st' = res' /\ b_it st' = SS (b_it st) /\ b_first st' = false /\
        length x' = n /\ length r' = n /\ length v' = n
  end.
Proof.
  intros Lp Lx Lr. unfold bs_rest, bs_ref_body. cbv zeta.
  destruct (pspmv left A P p) as [v T] eqn:Ep. destruct (pspmv_KY left p v T Ep) as (Ev & Ey).
  assert (Lv : length v = n) by (rewrite Ev; apply Kop_len; exact Lp).
  assert (Ly : length (Yop left p) = n) by (apply Yop_len; exact Lp).
  set (alpha := rho' / ip (bs_rh (b_ws st)) v).
  replace (rho' / rdot (bs_rh (b_ws st)) (Kop left p)) with alpha
    by (unfold alpha; rewrite <- Ev, ip_dot; reflexivity).
  assert (Ex : (if left then k_axpby alpha p s1 (b_x st) else k_axpby alpha T s1 (b_x st))
               = vadd (b_x st) (vscal alpha (Yop left p))).
  { replace (if left then k_axpby alpha p s1 (b_x st) else k_axpby alpha T s1 (b_x st))
      with (k_axpby alpha (if left then p else T) s1 (b_x st)) by (destruct left; reflexivity).
    rewrite Ey, k_axpby_spec by lia. ref_ring. }
  rewrite Ex, k_axpbypcz_c0.
  assert (Es : vmap2 (fun xi yi => s1 * xi + - alpha * yi) (bs_r (b_ws st)) v
               = vsub (bs_r (b_ws st)) (vscal alpha (Kop left p))).
  { rewrite <- Ev. ref_ring. }
  rewrite Es, norm_a_rnorm.
  set (h := vadd (b_x st) (vscal alpha (Yop left p))) in *.
  set (sv := vsub (bs_r (b_ws st)) (vscal alpha (Kop left p))) in *.
  assert (Lh : length h = n).
  { unfold h, vadd, vscal. change (@zipw S) with (@vmap2 S). rewrite vmap2_length, map_length. lia. }
  assert (Ls : length sv = n).
  { unfold sv, vsub, vscal. change (@zipw S) with (@vmap2 S). rewrite vmap2_length, map_length, Kop_len by auto. lia. }
  destruct (sltb eps (rnorm sv)) eqn:E1.
  - destruct (pspmv left A P sv) as [t T'] eqn:Et. destruct (pspmv_KY left sv t T' Et) as (Evt & Eyt).
    assert (Lt : length t = n) by (rewrite Evt; apply Kop_len; exact Ls).
    assert (Ly2 : length (Yop left sv) = n) by (apply Yop_len; exact Ls).
    set (omega := ip t sv / ip t t).
    replace (rdot (Kop left sv) sv / rdot (Kop left sv) (Kop left sv)) with omega
      by (unfold omega; rewrite <- Evt, !ip_dot; reflexivity).
    destruct (is_zero omega); [reflexivity|].
    assert (Ex2 : (if left then k_axpby omega sv s1 h else k_axpby omega T' s1 h)
                  = vadd h (vscal omega (Yop left sv))).
    { replace (if left then k_axpby omega sv s1 h else k_axpby omega T' s1 h)
        with (k_axpby omega (if left then sv else T') s1 h) by (destruct left; reflexivity).
      rewrite Eyt, k_axpby_spec by lia. ref_ring. }
    rewrite Ex2, k_axpbypcz_c0.
    assert (Er2 : vmap2 (fun xi yi => s1 * xi + - omega * yi) sv t = vsub sv (vscal omega (Kop left sv))).
    { rewrite <- Evt. ref_ring. }
    rewrite Er2, norm_a_rnorm.
    eexists. split; [reflexivity|]. cbn [b_x b_ws bs_r bs_v bs_p bs_rh b_rho1 b_alpha b_omega b_res b_it b_first].
    repeat split; auto.
    + unfold vadd, vscal. change (@zipw S) with (@vmap2 S). rewrite vmap2_length, map_length. lia.
    + unfold vsub, vscal. change (@zipw S) with (@vmap2 S). rewrite vmap2_length, map_length, Kop_len by auto. lia.
    + rewrite <- Ev. exact Lv.
  - eexists. split; [reflexivity|]. cbn [b_x b_res b_it b_first]. repeat split; auto.
Qed.

Lemma bs_step_unfold left eps (st : bs_st) :
  bs_step A P left eps st =
  match (if b_first st then Some (bs_r (b_ws st))
         else if is_zero (b_rho1 st) then None
         else let beta := (ip (bs_r (b_ws st)) (bs_rh (b_ws st)) * b_alpha st) / (b_rho1 st * b_omega st) in
              Some (k_axpbypcz s1 (bs_r (b_ws st)) (- beta * b_omega st) (bs_v (b_ws st)) beta (bs_p (b_ws st)))) with
  | None => None
  | Some p => bs_rest left eps st p (ip (bs_r (b_ws st)) (bs_rh (b_ws st))) (b_rho1 st)
  end.
Proof. reflexivity. Qed.

Lemma bs_loop_stop left ca eps fuel (st : bs_st) :
  sltb eps (b_res st) = false -> b_first st = false -> bs_loop A P left ca eps fuel st = Some st.
Proof. intros H1 H2. destruct fuel; simpl; [reflexivity|]. rewrite H1, H2. reflexivity. Qed.

Definition bs_obs (o : option bs_st) : option (nat * S * vec) :=
  match o with Some st => Some (b_it st, b_res st, b_x st) | None => None end.

Lemma bs_loop_ref left ca eps fuel : forall st : bs_st,
  b_first st = false ->
  length (b_x st) = n -> length (bs_r (b_ws st)) = n -> length (bs_p (b_ws st)) = n -> length (bs_v (b_ws st)) = n ->
  bs_obs (bs_loop A P left ca eps fuel st) =
  bs_ref_loop (Kop left) (Yop left) eps (bs_rh (b_ws st)) fuel (b_it st) (b_x st) (bs_r (b_ws st))
              (bs_p (b_ws st)) (bs_v (b_ws st)) (b_rho1 st) (b_alpha st) (b_omega st) (b_res st).
Proof.
  induction fuel as [|k IH]; intros st Fi Lx Lr Lp Lv; simpl; [reflexivity|].
  rewrite Fi. simpl. rewrite Bool.orb_false_r.
  destruct (sltb eps (b_res st)) eqn:Eg; [|reflexivity].
  rewrite bs_step_unfold, Fi.
  destruct (is_zero (b_rho1 st)); [reflexivity|]. cbv zeta.
  set (rho' := ip (bs_r (b_ws st)) (bs_rh (b_ws st))).
  replace (rdot (bs_r (b_ws st)) (bs_rh (b_ws st))) with rho' by (unfold rho'; rewrite ip_dot; reflexivity).
  set (beta := rho' * b_alpha st / (b_rho1 st * b_omega st)).
  assert (Epp : k_axpbypcz s1 (bs_r (b_ws st)) (- beta * b_omega st) (bs_v (b_ws st)) beta (bs_p (b_ws st))
              = vadd (bs_r (b_ws st)) (vscal beta (vsub (bs_p (b_ws st)) (vscal (b_omega st) (bs_v (b_ws st)))))).
  { rewrite k_axpbypcz_spec by lia. ref_ring. }
  rewrite Epp. set (p' := vadd (bs_r (b_ws st)) (vscal beta (vsub (bs_p (b_ws st)) (vscal (b_omega st) (bs_v (b_ws st)))))).
  assert (Lp' : length p' = n).
  { unfold p', vadd, vsub, vscal. change (@zipw S) with (@vmap2 S).
    rewrite vmap2_length, map_length, vmap2_length, map_length. lia. }
  pose proof (bs_rest_ref left eps st p' rho' (b_rho1 st) Lp' Lx Lr) as B.
  destruct (bs_ref_body (Kop left) (Yop left) eps (bs_rh (b_ws st)) (b_it st) (b_x st) (bs_r (b_ws st)) p' rho')
    as [|k' res' x'|x' r' v' al om res'].
  - rewrite B. reflexivity.
  - destruct B as (st' & E & B1 & B2 & B3 & B4 & B5). rewrite E.
    rewrite (bs_loop_stop left ca eps k st') by (try rewrite B2; assumption).
    simpl. rewrite B1, B2, B3. reflexivity.
  - destruct B as (st' & E & B1 & B2 & B3 & B4 & B5 & B6 & B7 & B8 & B9 & B10 & B11 & L1 & L2 & L3). rewrite E.
    rewrite (IH st') by (try rewrite B1; try rewrite B2; try rewrite B3; try rewrite B4; auto).
    rewrite B1, B2, B3, B4, B5, B6, B7, B8, B9, B10. reflexivity.
Qed.

Theorem bicgstab_model_is_ref prm (f x0 : vec) junk :
  length f = n -> length x0 = n ->
  fst (bicgstab A P prm f x0 junk) =
  out_of_ref (bicgstab_ref A P (p_left prm) (p_maxiter prm) (p_tol prm) (p_abstol prm) (p_ns prm) (p_ca prm) f x0).
Proof.
  intros Lf Lx. unfold bicgstab, bicgstab_ref, with_rhs, k_prologue.
  rewrite <- norm_a_rnorm, <- eps1_rtiny.
  change (fun v : vec => if p_left prm then P (A v) else A (P v)) with (Kop (p_left prm)).
  change (fun v : vec => if p_left prm then v else P v) with (Yop (p_left prm)).
  assert (G : forall nr,
    fst (let '(eps, st0) := bs_init A P prm nr f x0 junk in
         match bs_loop A P (p_left prm) (p_ca prm) eps (p_maxiter prm) st0 with
         | None => (KExc, junk)
         | Some st => (KOk (mkRes (b_it st) (b_res st / nr) (b_x st) false), b_ws st)
         end) =
    out_of_ref
      (let eps := smax (nr * p_tol prm) (p_abstol prm) in
       let r0 := if p_left prm then P (vsub f (A x0)) else vsub f (A x0) in
       let res0 := rnorm r0 in
       let fin := fun o : option (nat * S * vec) =>
                    match o with Some (k, res, x) => Some (k, res / nr, x) | None => None end in
       match p_maxiter prm with
       | O => Some (0, res0 / nr, x0)
       | SS fl =>
         if sltb eps res0 || p_ca prm then
           match bs_ref_body (Kop (p_left prm)) (Yop (p_left prm)) eps r0 0 x0 r0 r0 (rdot r0 r0) with
           | BsFail => None
           | BsDone k res x => Some (k, res / nr, x)
           | BsNext x r v alpha omega res =>
             fin (bs_ref_loop (Kop (p_left prm)) (Yop (p_left prm)) eps r0 fl 1 x r r0 v (rdot r0 r0) alpha omega res)
           end
         else Some (0, res0 / nr, x0)
       end)).
  { intro nr. unfold bs_init. cbv zeta. rewrite !residual_ref, norm_a_rnorm.
    set (eps := smax (nr * p_tol prm) (p_abstol prm)).
    set (r0 := if p_left prm then P (vsub f (A x0)) else vsub f (A x0)).
    assert (Lr0 : length r0 = n).
    { unfold r0. rewrite <- residual_ref. destruct (p_left prm); [apply P_len|]; apply k_residual_len; auto. }
    destruct (p_maxiter prm) as [|fl]; [reflexivity|].
    simpl bs_loop. cbn [b_res b_first]. simpl andb.
    destruct (sltb eps (rnorm r0) || p_ca prm); [|reflexivity].
    rewrite bs_step_unfold. cbn [b_first b_ws bs_r bs_rh b_rho1].
    match goal with |- context [bs_rest ?l ?e ?st ?p ?r1 ?r2] =>
      pose proof (bs_rest_ref l e st p r1 r2 Lr0 Lx Lr0) as B; cbn [b_ws bs_rh b_it b_x bs_r] in B;
      set (rest := bs_rest l e st p r1 r2) in * end.
    replace (rdot r0 r0) with (ip r0 r0) by (rewrite ip_dot; reflexivity).
    destruct (bs_ref_body (Kop (p_left prm)) (Yop (p_left prm)) eps r0 0 x0 r0 r0 (ip r0 r0))
      as [|k' res' x'|x' r' v' al om res'].
    - rewrite B. reflexivity.
    - destruct B as (st' & E & B1 & B2 & B3 & B4 & B5). rewrite E.
      rewrite (bs_loop_stop (p_left prm) (p_ca prm) eps fl st') by (try rewrite B2; assumption).
      simpl. rewrite B1, B2, B3. reflexivity.
    - destruct B as (st' & E & B1 & B2 & B3 & B4 & B5 & B6 & B7 & B8 & B9 & B10 & B11 & L1 & L2 & L3). rewrite E.
      pose proof (bs_loop_ref (p_left prm) (p_ca prm) eps fl st' B11
                    ltac:(rewrite B1; exact L1) ltac:(rewrite B2; exact L2) ltac:(rewrite B4; exact Lr0) ltac:(rewrite B3; exact L3)) as R.
      rewrite B1, B2, B3, B4, B5, B6, B7, B8, B9, B10 in R. cbn [bs_rh b_ws b_it] in R.
      rewrite <- R. destruct (bs_loop A P (p_left prm) (p_ca prm) eps fl st'); reflexivity. }
  destruct (sltb (norm_a f) eps1).
  - destruct (p_ns prm); [apply G | reflexivity].
  - apply G.
Qed.

End RingLaws.

(* ================================================================== *)
(* Part 3: the hypotheses of Part 2 are satisfiable -- diagonal operators (the "diag"
   preconditioner of the harness; a diagonal system matrix) are linear and length preserving *)
Section DiagOp.
Context {S : Scalar}.
Local Notation vec := (vec S).
Hypothesis Srt : Sring S.
Add Ring SRingD : Srt.
Definition diag_op (d : vec) (v : vec) : vec := vmap2 smul d v.
Lemma diag_op_len (d : vec) v : length v = length d -> length (diag_op d v) = length d.
Proof. intro H. unfold diag_op. rewrite vmap2_length. lia. Qed.
Lemma diag_op_linear (d : vec) : linear_on (length d) (diag_op d).
Proof.
  intros a x y Lx Ly. unfold diag_op.
  apply nth_error_ext; intro i.
  repeat (rewrite ?nth_error_vmap2).
  destruct (nth_error d i), (nth_error x i), (nth_error y i); simpl; try reflexivity.
  f_equal. ring.
Qed.
End DiagOp.

(* ... and so are the operators the correspondence check actually uses: the closure
   v |-> spmv 1 M v 0 (zeros) over a well-formed square CRS matrix (ocaml/krylov: op_of) *)
Section MatOp.
Context {S : Scalar}.
Local Notation vec := (vec S).
Hypothesis Srt : Sring S.
Hypothesis Seqb : seqb_spec S.
Add Ring SRingM : Srt.

Definition mat_op (M : Crs.crs S) (v : vec) : vec := spmv s1 M v s0 (vzero (Crs.nrows M)).

Lemma mat_op_len (M : Crs.crs S) v : length (mat_op M v) = Crs.nrows M.
Proof. unfold mat_op. apply spmv_length. unfold vzero. apply repeat_length. Qed.

Lemma vget_vmap2 (h : S -> S -> S) (x y : vec) i : i < length x -> i < length y ->
  vget (vmap2 h x y) i = h (vget x i) (vget y i).
Proof.
  unfold vget. revert y i; induction x as [|a x IH]; intros [|b y] [|i] Hx Hy; simpl in *; try lia; try reflexivity.
  apply IH; lia.
Qed.

Lemma mat_op_linear (M : Crs.crs S) : Crs.wf M = true -> Crs.ncols M = Crs.nrows M ->
  linear_on (Crs.nrows M) (mat_op M).
Proof.
  intros Hwf Hsq a x y Lx Ly.
  apply (nth_ext _ _ s0 s0).
  - rewrite vmap2_length, !mat_op_len. lia.
  - rewrite mat_op_len. intros i Hi.
    change (vget (mat_op M (vmap2 (fun xi yi => xi + a * yi) x y)) i
            = vget (vmap2 (fun u v => u + a * v) (mat_op M x) (mat_op M y)) i).
    rewrite vget_vmap2 by (rewrite mat_op_len; exact Hi).
    unfold mat_op. rewrite !(spmv_spec Srt Seqb) by (auto; unfold vzero; apply repeat_length).
    unfold Ax. rewrite Hsq.
    rewrite (sumn_ext (fun j => Crs.mget M i j * vget (vmap2 (fun xi yi => xi + a * yi) x y) j)
                      (fun j => Crs.mget M i j * vget x j + a * (Crs.mget M i j * vget y j))).
    + rewrite (sumn_add Srt), (sumn_scal Srt). ring.
    + intros j Hj. rewrite vget_vmap2 by lia. ring.
Qed.
End MatOp.
