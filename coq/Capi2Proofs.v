(* Capi2Proofs.v -- lemmas about call histories on the C interface (Capi2.v), C20-H. *)
From Coq Require Import String List Bool Arith ZArith Lia.
From Amgcl Require Import Ptree Capi CapiProofs Capi2.
Import ListNotations.

Section CLayer.
  Variable V : Type.
  Variable dv : V.
  Variable X : Type.
  Variable Obj : Type.
  Variable Res : Type.
  Variable new_precond : nat -> matrix V -> option ptree -> Obj.
  Variable new_solver : nat -> matrix V -> option ptree -> Obj.
  Variable precond_apply : Obj -> X -> X -> X * Obj.
  Variable solver_solve : Obj -> X -> X -> (Res * X) * Obj.
  Variable solver_solve_mtx : Obj -> matrix V -> X -> X -> (Res * X) * Obj.

  Local Notation table := (table Obj).
  Local Notation entry := (entry Obj).
  Local Notation rcall := (rcall V X).
  Local Notation cout := (cout X Res).
  Local Notation exec_r := (exec_r V dv X Obj Res new_precond new_solver precond_apply solver_solve solver_solve_mtx).
  Local Notation runR := (runR V dv X Obj Res new_precond new_solver precond_apply solver_solve solver_solve_mtx).
  Local Notation run := (run V dv X Obj Res new_precond new_solver precond_apply solver_solve solver_solve_mtx).
  Local Notation tlookup := (tlookup Obj).
  Local Notation tremove := (tremove Obj).
  Local Notation tset := (tset Obj).

  (* ---------------------------------------------------------------- the table *)
  Lemma tlookup_cons h h' (e : entry) tb :
    tlookup h ((h', e) :: tb) = if Nat.eqb h' h then Some e else tlookup h tb.
  Proof. reflexivity. Qed.

  Lemma tlookup_tremove_same h (tb : table) : tlookup h (tremove h tb) = None.
  Proof.
    induction tb as [|[h' e] tb IH]; [reflexivity|]. simpl.
    destruct (Nat.eqb h' h) eqn:E; simpl; [exact IH | rewrite E; exact IH].
  Qed.

  Lemma tlookup_tremove_other h h' (tb : table) : h <> h' -> tlookup h' (tremove h tb) = tlookup h' tb.
  Proof.
    intros Hne. induction tb as [|[h2 e] tb IH]; [reflexivity|]. simpl.
    destruct (Nat.eqb h2 h) eqn:E; simpl.
    - apply Nat.eqb_eq in E. subst h2. destruct (Nat.eqb h h') eqn:E2; [apply Nat.eqb_eq in E2; contradiction | exact IH].
    - destruct (Nat.eqb h2 h'); [reflexivity | exact IH].
  Qed.

  Lemma tlookup_tset_same h (e : entry) tb : tlookup h (tset h e tb) = Some e.
  Proof. unfold Capi2.tset. rewrite tlookup_cons, Nat.eqb_refl. reflexivity. Qed.

  Lemma tlookup_tset_other h h' (e : entry) tb : h <> h' -> tlookup h' (tset h e tb) = tlookup h' tb.
  Proof.
    intros Hne. unfold Capi2.tset. rewrite tlookup_cons.
    destruct (Nat.eqb h h') eqn:E; [apply Nat.eqb_eq in E; contradiction|]. apply tlookup_tremove_other. exact Hne.
  Qed.

  (* ---------------------------------------------------------------- run = runR on the contents trace *)
  (* the outputs of an address-level history are a function of its contents trace alone: addresses of
     buffers, reuse in place or fresh buffers do not matter *)
  Lemma run_factor hist : forall tb m tr tb' m',
    run tb m hist = Some (tr, tb', m') -> runR tb (map fst tr) = Some (map snd tr, tb').
  Proof.
    induction hist as [|c hist IH]; intros tb m tr tb' m' H; simpl in H.
    - injection H as <- <- <-. reflexivity.
    - destruct (resolve V X m c) as [rc|].
      + destruct (exec_r tb rc) as [[tb1 o]|] eqn:E; [|discriminate].
        destruct (run tb1 (writeback V X Res m c o) hist) as [[[tr1 tb2] m2]|] eqn:R; [|discriminate].
        injection H as <- <- <-. simpl. rewrite E. rewrite (IH _ _ _ _ _ R). reflexivity.
      + exact (IH _ _ _ _ _ H).
  Qed.

  Lemma run_same_trace_same_outputs hist1 hist2 tb m1 m2 tr1 tr2 tb1 tb2 m1' m2' :
    run tb m1 hist1 = Some (tr1, tb1, m1') -> run tb m2 hist2 = Some (tr2, tb2, m2') ->
    map fst tr1 = map fst tr2 -> map snd tr1 = map snd tr2 /\ tb1 = tb2.
  Proof.
    intros H1 H2 Heq. apply run_factor in H1. apply run_factor in H2. rewrite Heq in H1. rewrite H1 in H2.
    injection H2 as -> ->. split; reflexivity.
  Qed.

  Lemma runR_app tr1 : forall tr2 tb outs tb2,
    runR tb (tr1 ++ tr2) = Some (outs, tb2) <->
    exists o1 tb1 o2, runR tb tr1 = Some (o1, tb1) /\ runR tb1 tr2 = Some (o2, tb2) /\ outs = o1 ++ o2.
  Proof.
    induction tr1 as [|c tr1 IH]; intros tr2 tb outs tb2; simpl.
    - split.
      + intros H. exists [], tb, outs. repeat split; assumption.
      + intros (o1 & tb1 & o2 & H1 & H2 & ->). injection H1 as <- <-. exact H2.
    - destruct (exec_r tb c) as [[tb1 o]|].
      + split.
        * intros H. destruct (runR tb1 (tr1 ++ tr2)) as [[os tbx]|] eqn:R; [|discriminate]. injection H as <- <-.
          apply IH in R. destruct R as (o1 & tbm & o2 & R1 & R2 & ->). rewrite R1.
          exists (o :: o1), tbm, o2. repeat split; [exact R2].
        * intros (o1 & tbm & o2 & H1 & H2 & ->).
          destruct (runR tb1 tr1) as [[os tbx]|] eqn:R; [|discriminate]. injection H1 as <- <-.
          assert (R' : runR tb1 (tr1 ++ tr2) = Some (os ++ o2, tb2)).
          { apply IH. exists os, tbx, o2. repeat split; assumption. }
          rewrite R'. reflexivity.
      + split; [discriminate|]. intros (o1 & tbm & o2 & H1 & _). discriminate.
  Qed.

  (* ---------------------------------------------------------------- simulation of two tables *)
  Section Sim.
    Variable rel : nat -> Obj -> Obj -> Prop.      (* how the objects behind handle h are related *)
    Variable dropH : nat -> bool.                  (* the use calls on these handles are dropped *)
    Hypothesis rel_refl : forall h o, rel h o o.
    Hypothesis drop_apply : forall h o o' rhs x, dropH h = true -> rel h o o' -> rel h (snd (precond_apply o rhs x)) o'.
    Hypothesis drop_solve : forall h o o' rhs x, dropH h = true -> rel h o o' -> rel h (snd (solver_solve o rhs x)) o'.
    Hypothesis drop_mtx : forall h o o' A rhs x, dropH h = true -> rel h o o' -> rel h (snd (solver_solve_mtx o A rhs x)) o'.
    Hypothesis keep_apply : forall h o o' rhs x, dropH h = false -> rel h o o' ->
      fst (precond_apply o rhs x) = fst (precond_apply o' rhs x) /\ rel h (snd (precond_apply o rhs x)) (snd (precond_apply o' rhs x)).
    Hypothesis keep_solve : forall h o o' rhs x, dropH h = false -> rel h o o' ->
      fst (solver_solve o rhs x) = fst (solver_solve o' rhs x) /\ rel h (snd (solver_solve o rhs x)) (snd (solver_solve o' rhs x)).
    Hypothesis keep_mtx : forall h o o' A rhs x, dropH h = false -> rel h o o' ->
      fst (solver_solve_mtx o A rhs x) = fst (solver_solve_mtx o' A rhs x) /\ rel h (snd (solver_solve_mtx o A rhs x)) (snd (solver_solve_mtx o' A rhs x)).

    Definition esim (h : nat) (e e' : option entry) : Prop :=
      match e, e' with
      | None, None => True
      | Some (EParams _ t), Some (EParams _ t') => t = t'
      | Some (EPrecond _ n o), Some (EPrecond _ n' o') => n = n' /\ rel h o o'
      | Some (ESolver _ n o), Some (ESolver _ n' o') => n = n' /\ rel h o o'
      | _, _ => False
      end.
    Definition tsim (tb tb' : table) : Prop := forall h, esim h (tlookup h tb) (tlookup h tb').

    Definition dropc (c : rcall) : bool := is_use V X c && dropH (handle_of V X c).

    Lemma tsim_refl tb : tsim tb tb.
    Proof. intros h. unfold esim. destruct (tlookup h tb) as [[t|n o|n o]|]; auto. Qed.

    Lemma tsim_cons h e e' tb tb' : esim h (Some e) (Some e') -> tsim tb tb' -> tsim ((h, e) :: tb) ((h, e') :: tb').
    Proof.
      intros He Ht h0. rewrite !tlookup_cons. destruct (Nat.eqb h h0) eqn:E; [|apply Ht].
      apply Nat.eqb_eq in E. subst h0. exact He.
    Qed.
    Lemma tsim_tremove h tb tb' : tsim tb tb' -> tsim (tremove h tb) (tremove h tb').
    Proof.
      intros Ht h0. destruct (Nat.eq_dec h h0) as [->|Hne].
      - rewrite !tlookup_tremove_same. exact I.
      - rewrite !tlookup_tremove_other by exact Hne. apply Ht.
    Qed.
    Lemma tsim_tset h e e' tb tb' : esim h (Some e) (Some e') -> tsim tb tb' -> tsim (tset h e tb) (tset h e' tb').
    Proof. intros He Ht. unfold Capi2.tset. apply tsim_cons; [exact He | apply tsim_tremove; exact Ht]. Qed.
    (* only the left table moves (a dropped call) *)
    Lemma tsim_tset_left h e tb tb' : esim h (Some e) (tlookup h tb') -> tsim tb tb' -> tsim (tset h e tb) tb'.
    Proof.
      intros He Ht h0. destruct (Nat.eq_dec h h0) as [->|Hne].
      - rewrite tlookup_tset_same. exact He.
      - rewrite tlookup_tset_other by exact Hne. apply Ht.
    Qed.

    Lemma prm_tree_sim tb tb' prm : tsim tb tb' -> prm_tree Obj tb' prm = prm_tree Obj tb prm.
    Proof.
      intros Ht. destruct prm as [p|]; [|reflexivity]. simpl. specialize (Ht p). unfold esim in Ht.
      destruct (tlookup p tb) as [[t|n o|n o]|], (tlookup p tb') as [[t'|n' o'|n' o']|]; try contradiction; try reflexivity.
      subst t'. reflexivity.
    Qed.

    Lemma exec_sim tb tb' c tb1 out :
      tsim tb tb' -> exec_r tb c = Some (tb1, out) ->
      if dropc c then tsim tb1 tb'
      else exists tb1', exec_r tb' c = Some (tb1', out) /\ tsim tb1 tb1'.
    Proof.
      intros Ht H. pose proof (Ht (handle_of V X c)) as Hh.
      destruct c as [h|h name text|h t'|h|f h n ptr col val prm|h rhs x|h|f h n ptr col val prm|f h rhs x|f h ptr col val rhs x|h];
        unfold dropc; simpl in *; unfold esim in Hh.
      - (* RPCreate *)
        destruct (tlookup h tb) as [e|]; [discriminate|]. injection H as <- <-.
        destruct (tlookup h tb') as [e'|]; [destruct e'; contradiction|].
        eexists. split; [reflexivity|]. apply tsim_cons; [reflexivity | exact Ht].
      - destruct (tlookup h tb) as [[t|n o|n o]|]; try discriminate. injection H as <- <-.
        destruct (tlookup h tb') as [[t2|n' o'|n' o']|]; try contradiction. subst t2.
        eexists. split; [reflexivity|]. apply tsim_tset; [reflexivity | exact Ht].
      - destruct (tlookup h tb) as [[t|n o|n o]|]; try discriminate. injection H as <- <-.
        destruct (tlookup h tb') as [[t2|n' o'|n' o']|]; try contradiction.
        eexists. split; [reflexivity|]. apply tsim_tset; [reflexivity | exact Ht].
      - destruct (tlookup h tb) as [[t|n o|n o]|]; try discriminate. injection H as <- <-.
        destruct (tlookup h tb') as [[t2|n' o'|n' o']|]; try contradiction.
        eexists. split; [reflexivity|]. apply tsim_tremove; exact Ht.
      - (* RACreate *)
        rewrite (prm_tree_sim tb tb' prm Ht).
        destruct (prm_tree Obj tb prm) as [pt|]; [|discriminate].
        destruct (tlookup h tb) as [e|]; [discriminate|]. injection H as <- <-.
        destruct (tlookup h tb') as [e'|]; [destruct e'; contradiction|].
        eexists. split; [reflexivity|]. apply tsim_cons; [split; [reflexivity | apply rel_refl] | exact Ht].
      - (* RAApply *)
        destruct (tlookup h tb) as [[t|n o|n o]|] eqn:L; try discriminate. injection H as <- <-.
        destruct (tlookup h tb') as [[t2|n' o'|n' o']|] eqn:L'; try contradiction. destruct Hh as [<- Hr].
        destruct (dropH h) eqn:D.
        + apply tsim_tset_left; [|exact Ht]. rewrite L'. split; [reflexivity | apply drop_apply; assumption].
        + destruct (keep_apply h o o' rhs x D Hr) as [Hf Hs]. eexists. split; [rewrite Hf; reflexivity|].
          apply tsim_tset; [split; [reflexivity | exact Hs] | exact Ht].
      - destruct (tlookup h tb) as [[t|n o|n o]|]; try discriminate. injection H as <- <-.
        destruct (tlookup h tb') as [[t2|n' o'|n' o']|]; try contradiction.
        eexists. split; [reflexivity|]. apply tsim_tremove; exact Ht.
      - (* RSCreate *)
        rewrite (prm_tree_sim tb tb' prm Ht).
        destruct (prm_tree Obj tb prm) as [pt|]; [|discriminate].
        destruct (tlookup h tb) as [e|]; [discriminate|]. injection H as <- <-.
        destruct (tlookup h tb') as [e'|]; [destruct e'; contradiction|].
        eexists. split; [reflexivity|]. apply tsim_cons; [split; [reflexivity | apply rel_refl] | exact Ht].
      - (* RSSolve *)
        destruct (tlookup h tb) as [[t|n o|n o]|] eqn:L; try discriminate. injection H as <- <-.
        destruct (tlookup h tb') as [[t2|n' o'|n' o']|] eqn:L'; try contradiction. destruct Hh as [<- Hr].
        destruct (dropH h) eqn:D.
        + apply tsim_tset_left; [|exact Ht]. rewrite L'. split; [reflexivity | apply drop_solve; assumption].
        + destruct (keep_solve h o o' rhs x D Hr) as [Hf Hs]. eexists. split; [rewrite Hf; reflexivity|].
          apply tsim_tset; [split; [reflexivity | exact Hs] | exact Ht].
      - (* RSSolveMtx *)
        destruct (tlookup h tb) as [[t|n o|n o]|] eqn:L; try discriminate. injection H as <- <-.
        destruct (tlookup h tb') as [[t2|n' o'|n' o']|] eqn:L'; try contradiction. destruct Hh as [<- Hr].
        destruct (dropH h) eqn:D.
        + apply tsim_tset_left; [|exact Ht]. rewrite L'. split; [reflexivity | apply drop_mtx; assumption].
        + destruct (keep_mtx h o o' (build V dv (base_of f) n ptr col val) rhs x D Hr) as [Hf Hs].
          eexists. split; [rewrite Hf; reflexivity|].
          apply tsim_tset; [split; [reflexivity | exact Hs] | exact Ht].
      - destruct (tlookup h tb) as [[t|n o|n o]|]; try discriminate. injection H as <- <-.
        destruct (tlookup h tb') as [[t2|n' o'|n' o']|]; try contradiction.
        eexists. split; [reflexivity|]. apply tsim_tremove; exact Ht.
    Qed.

    Lemma runR_sim tr : forall tb tb' outs tb1,
      tsim tb tb' -> runR tb tr = Some (outs, tb1) ->
      exists tb1', runR tb' (filter (fun c => negb (dropc c)) tr) = Some (outs_of V X Res (fun c => negb (dropc c)) tr outs, tb1')
                   /\ tsim tb1 tb1'.
    Proof.
      induction tr as [|c tr IH]; intros tb tb' outs tb1 Ht H; simpl in H.
      - injection H as <- <-. exists tb'. split; [reflexivity | exact Ht].
      - destruct (exec_r tb c) as [[tbm o]|] eqn:E; [|discriminate].
        destruct (runR tbm tr) as [[os tbx]|] eqn:R; [|discriminate]. injection H as <- <-.
        pose proof (exec_sim tb tb' c tbm o Ht E) as S. unfold outs_of. simpl.
        destruct (dropc c); simpl.
        + destruct (IH tbm tb' os tbx S R) as (tb1' & R' & Ht'). exists tb1'. split; [exact R' | exact Ht'].
        + destruct S as (tbm' & E' & Htm). destruct (IH tbm tbm' os tbx Htm R) as (tb1' & R' & Ht').
          exists tb1'. rewrite E'. unfold outs_of in R'. rewrite R'. split; [reflexivity | exact Ht'].
    Qed.
  End Sim.

  (* ---------------------------------------------------------------- (i-a) locality, unconditional *)
  (* dropping every use call on the handles in P changes no output of any other call: calls on a handle do
     not change what calls on OTHER handles (params, preconditioners, solvers; created before or later,
     also at a reused handle value) return *)
  Lemma calls_are_local (P : nat -> bool) tr tb outs tb1 :
    runR tb tr = Some (outs, tb1) ->
    let keep := fun c => negb (is_use V X c && P (handle_of V X c)) in
    exists tb1', runR tb (filter keep tr) = Some (outs_of V X Res keep tr outs, tb1').
  Proof.
    intros H keep.
    destruct (runR_sim (fun h o o' => if P h then True else o = o') P) with (tr := tr) (tb := tb) (tb' := tb) (outs := outs) (tb1 := tb1)
      as (tb1' & R & _).
    - intros h o. destruct (P h); auto.
    - intros h o o' rhs x D _. rewrite D. exact I.
    - intros h o o' rhs x D _. rewrite D. exact I.
    - intros h o o' A rhs x D _. rewrite D. exact I.
    - intros h o o' rhs x D Hr. rewrite D in *. subst o'. split; reflexivity.
    - intros h o o' rhs x D Hr. rewrite D in *. subst o'. split; reflexivity.
    - intros h o o' A rhs x D Hr. rewrite D in *. subst o'. split; reflexivity.
    - apply tsim_refl. intros h o. destruct (P h); auto.
    - exact H.
    - exists tb1'. exact R.
  Qed.

  (* ---------------------------------------------------------------- (i-b) statelessness, given C15 *)
  Section Reuse.
    (* the C++ object's own reuse property (C15): a call leaves the object equivalent to what it was, and
       equivalent objects answer alike *)
    Variable sim : Obj -> Obj -> Prop.
    Hypothesis sim_refl : forall o, sim o o.
    Hypothesis sim_sym : forall o o', sim o o' -> sim o' o.
    Hypothesis sim_trans : forall o1 o2 o3, sim o1 o2 -> sim o2 o3 -> sim o1 o3.
    Hypothesis apply_reuse : forall o rhs x, sim (snd (precond_apply o rhs x)) o.
    Hypothesis solve_reuse : forall o rhs x, sim (snd (solver_solve o rhs x)) o.
    Hypothesis mtx_reuse : forall o A rhs x, sim (snd (solver_solve_mtx o A rhs x)) o.
    Hypothesis apply_sim : forall o o' rhs x, sim o o' -> fst (precond_apply o rhs x) = fst (precond_apply o' rhs x).
    Hypothesis solve_sim : forall o o' rhs x, sim o o' -> fst (solver_solve o rhs x) = fst (solver_solve o' rhs x).
    Hypothesis mtx_sim : forall o o' A rhs x, sim o o' -> fst (solver_solve_mtx o A rhs x) = fst (solver_solve_mtx o' A rhs x).

    (* the k-th call of a history returns what the same call returns when it is issued right after the
       creations alone (every earlier apply / solve / solve_mtx on any handle removed) *)
    Lemma stateless_fresh tr c tb outs tb1 :
      runR tb (tr ++ [c]) = Some (outs, tb1) ->
      exists outs' tb1',
        runR tb (filter (fun c => negb (is_use V X c)) tr ++ [c]) = Some (outs', tb1') /\ last outs' ONone = last outs ONone.
    Proof.
      intros H. apply runR_app in H. destruct H as (o1 & tbm & o2 & R1 & R2 & ->).
      simpl in R2. destruct (exec_r tbm c) as [[tbe oc]|] eqn:E; [|discriminate]. injection R2 as <- <-.
      (* phase 1: drop all uses *)
      destruct (runR_sim (fun _ => sim) (fun _ => true)) with (tr := tr) (tb := tb) (tb' := tb) (outs := o1) (tb1 := tbm)
        as (tbm' & R1' & Hs); try (intros; discriminate); auto.
      - intros h o o' rhs x _ Hr. eapply sim_trans; [apply apply_reuse | exact Hr].
      - intros h o o' rhs x _ Hr. eapply sim_trans; [apply solve_reuse | exact Hr].
      - intros h o o' A rhs x _ Hr. eapply sim_trans; [apply mtx_reuse | exact Hr].
      - apply tsim_refl. auto.
      - (* phase 2: the call itself, on equivalent tables *)
        pose proof (exec_sim (fun _ => sim) (fun _ => false)) as S.
        specialize (S (fun _ => sim_refl)).
        assert (S' : if dropc (fun _ => false) c then tsim (fun _ => sim) tbe tbm'
                     else exists tb1', exec_r tbm' c = Some (tb1', oc) /\ tsim (fun _ => sim) tbe tb1').
        { apply S with (tb := tbm); try (intros; discriminate); auto.
          - intros h o0 o' rhs x _ Hr. split; [apply apply_sim; exact Hr|].
            eapply sim_trans; [apply apply_reuse|]. eapply sim_trans; [exact Hr|]. apply sim_sym. apply apply_reuse.
          - intros h o0 o' rhs x _ Hr. split; [apply solve_sim; exact Hr|].
            eapply sim_trans; [apply solve_reuse|]. eapply sim_trans; [exact Hr|]. apply sim_sym. apply solve_reuse.
          - intros h o0 o' A rhs x _ Hr. split; [apply mtx_sim; exact Hr|].
            eapply sim_trans; [apply mtx_reuse|]. eapply sim_trans; [exact Hr|]. apply sim_sym. apply mtx_reuse. }
        unfold dropc in S'. rewrite andb_false_r in S'. destruct S' as (tb1' & E' & _).
        assert (Hf : filter (fun c0 => negb (dropc (fun _ => true) c0)) tr = filter (fun c0 => negb (is_use V X c0)) tr).
        { apply filter_ext. intros a. unfold dropc. rewrite andb_true_r. reflexivity. }
        rewrite Hf in R1'.
        eexists. exists tb1'. split.
        + apply runR_app. eexists. exists tbm'. exists [oc]. split; [exact R1'|]. split; [|reflexivity].
          simpl. rewrite E'. reflexivity.
        + rewrite !last_last. reflexivity.
    Qed.
  End Reuse.

  (* ---------------------------------------------------------------- params handles *)
  (* setters, read_json and destroy of a params handle touch no other entry of the table: a solver created
     before keeps its object *)
  Lemma params_ops_touch_nothing_else tb c tb1 out h' :
    exec_r tb c = Some (tb1, out) ->
    (match c with RPSet _ _ _ _ _ | RPJson _ _ _ _ | RPDestroy _ _ _ => True | _ => False end) ->
    handle_of V X c <> h' -> tlookup h' tb1 = tlookup h' tb.
  Proof.
    intros H Hc Hne. destruct c; try contradiction; simpl in *;
      (destruct (tlookup h tb) as [[t0|n o|n o]|]; try discriminate; injection H as <- <-).
    - apply tlookup_tset_other. exact Hne.
    - apply tlookup_tset_other. exact Hne.
    - apply tlookup_tremove_other. exact Hne.
  Qed.

  (* ---------------------------------------------------------------- (ii) Fortran entry points, history-wide *)
  Lemma exec_r_defort tb c : wf_fortran V X Obj tb c -> exec_r tb (defort V X c) = exec_r tb c.
  Proof.
    intros Hwf. destruct c as [h|h name text|h t'|h|f h n ptr col val prm|h rhs x|h|f h n ptr col val prm|f h rhs x|f h ptr col val rhs x|h];
      try reflexivity; destruct f; try reflexivity; simpl in *.
    - destruct Hwf as [nnz Hwf]. pose proof (build_f_is_build_c_shifted V dv n nnz ptr col val Hwf) as B.
      unfold build_f, build_c in B. rewrite B. reflexivity.
    - destruct Hwf as [nnz Hwf]. pose proof (build_f_is_build_c_shifted V dv n nnz ptr col val Hwf) as B.
      unfold build_f, build_c in B. rewrite B. reflexivity.
    - destruct (tlookup h tb) as [[t|n o|n o]|] eqn:L; try reflexivity.
      destruct (Hwf n o eq_refl) as [nnz Hw]. pose proof (build_f_is_build_c_shifted V dv n nnz ptr col val Hw) as B.
      unfold build_f, build_c in B. rewrite B. reflexivity.
  Qed.

  Lemma runR_defort tr : forall tb, wf_trace V dv X Obj Res new_precond new_solver precond_apply solver_solve solver_solve_mtx tb tr ->
    runR tb (map (defort V X) tr) = runR tb tr.
  Proof.
    induction tr as [|c tr IH]; intros tb H; [reflexivity|]. simpl in *. destruct H as [Hc Hr].
    rewrite (exec_r_defort tb c Hc). destruct (exec_r tb c) as [[tb1 o]|]; [|reflexivity].
    rewrite (IH tb1 Hr). reflexivity.
  Qed.

  (* address level: every call of a history returns what the 0-based entry points return on the shifted arrays *)
  Lemma run_defort hist tb m tr tb' m' :
    run tb m hist = Some (tr, tb', m') ->
    wf_trace V dv X Obj Res new_precond new_solver precond_apply solver_solve solver_solve_mtx tb (map fst tr) ->
    runR tb (map (defort V X) (map fst tr)) = Some (map snd tr, tb').
  Proof. intros H Hwf. rewrite (runR_defort _ _ Hwf). exact (run_factor _ _ _ _ _ _ H). Qed.
End CLayer.

(* ---------------------------------------------------------------- (iii) an address-keyed cache is refuted *)
(* instance: the "solver" returns the matrix it was given (the most discriminating observer) *)
Definition obsV := Z.
Definition obsX := list Z.
Definition obs_new (n : nat) (A : matrix obsV) (p : option ptree) : unit := tt.
Definition obs_apply (o : unit) (rhs x : obsX) : obsX * unit := (rhs, o).
Definition obs_solve (o : unit) (rhs x : obsX) : (matrix obsV * obsX) * unit := (([], rhs), o).
Definition obs_solve_mtx (o : unit) (A : matrix obsV) (rhs x : obsX) : (matrix obsV * obsX) * unit := ((A, rhs), o).
Definition obs_mem : mem obsV obsX := {| mi := fun _ => []; mv := fun _ => []; mx := fun _ => [] |}.

(* A1 = [[1 2][. 3]], A2 = [[1 .][2 3]] : 2 x 2, three non-zeros each, 1-based *)
Definition ac_hist (p2 c2 : nat) : list (ccall obsV obsX) :=
  [ WrI _ _ 1 [1; 3; 4]; WrI _ _ 2 [1; 2; 2]; WrV _ _ 3 [1; 2; 3]
  ; SCreate _ _ true 7 2 1 2 3 None
  ; SSolveMtx _ _ true 7 1 2 3 4 5
  ; WrI _ _ p2 [1; 2; 4]; WrI _ _ c2 [1; 1; 2]
  ; SSolveMtx _ _ true 7 p2 c2 3 4 5 ]%Z.

Definition obs_run := run obsV 0%Z obsX unit (matrix obsV) obs_new obs_new obs_apply obs_solve obs_solve_mtx [] obs_mem.
Definition obs_run_ac := run_ac obsV 0%Z obsX unit (matrix obsV) obs_new obs_new obs_apply obs_solve obs_solve_mtx [] [] obs_mem.

Lemma address_keyed_cache_refuted :
  (* reassembled in place (same addresses) vs written to fresh arrays: the same contents trace, hence the
     same outputs in the model of lib/amgcl.cpp ... *)
  option_map (fun r => map fst (fst (fst r))) (obs_run (ac_hist 1 2)) =
  option_map (fun r => map fst (fst (fst r))) (obs_run (ac_hist 11 12))
  /\ option_map (fun r => map snd (fst (fst r))) (obs_run (ac_hist 1 2)) = obs_run_ac (ac_hist 11 12)
  (* ... but different outputs with the cache keyed by addresses, n and nnz *)
  /\ obs_run_ac (ac_hist 1 2) <> obs_run_ac (ac_hist 11 12).
Proof. split; [reflexivity|]. split; [reflexivity|]. vm_compute. discriminate. Qed.
