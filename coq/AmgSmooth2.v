(* AmgSmooth2.v -- C02-B1: energy decrease of the diagonal smoothers x' = x + w * d .* (f - A x)
   (damped Jacobi: d = 1/diag(A);  SPAI-0: w = 1, d_i = a_ii / sum_j a_ij^2) on weakly diagonally
   dominant symmetric matrices with positive diagonal, entries of any sign (AmgSmooth.wdd).
   With e_i = w d_i > 0, p = x' - x = e .* r, r = f - A x:
       J(x') - J(x) = <A p, p> - 2 <r, p>,  <r, p> = sum e_i r_i^2,
       <A p, p> <= sum b_i p_i^2  (b_i = a_ii + sum_{j<>i}|a_ij|)  = sum (b_i e_i) e_i r_i^2,
   so b_i e_i <= 2 gives decrease and b_i e_i < 2 strict decrease on non-zero residuals.
     Jacobi : b_i e_i = w (a_ii + sum|a_ij|)/a_ii <= 2 w            (0 < w <= 1; strict for w < 1;
              for w = 1 strict on irreducibly dominant matrices through <A p,p> < 2 <D p,p>)
     SPAI-0 : b_i e_i = (a_ii + sum|a_ij|) a_ii / sum_j a_ij^2 < 2  (always) *)
From Amgcl Require Import Scalar Vec Crs Kernels KernelsProofs MatOps MatOpsProofs Relax RelaxProofs DenseSolve
  Amg AmgExec AmgProofs AmgProofs2 AmgProofs3 AmgProofs4 AmgProofs6 AmgProofs7 AmgProofs8 AmgProofs10 AmgOrder
  AmgProofs11 AmgSmooth.
Local Open Scope S_scope.

Section DiagSmooth.
Context {S : Scalar}.
Local Notation vec := (vec S).
Local Notation row := (row S).
Local Notation crs := (crs S).
Local Notation sweep := (@sweep S).
Hypothesis Sft : Sfield S.
Hypothesis Seqb : seqb_spec S.
Hypothesis Ord : ordered S.
Let Srt : Sring S := F_R Sft.
Add Ring SRingSm2 : Srt.
Add Field SFieldSm2 : Sft.
Local Notation ip := (@ip S).

Lemma two_pos : olt s0 (@two S).
Proof.
  unfold two. replace (@s0 S) with (@s0 S + s0) by ring.
  apply (olt_ole_add Srt Ord); [apply (one_pos Sft Ord)|apply (olt_ole Ord), (one_pos Sft Ord)].
Qed.

(* ------------------------------------------------------------------ *)
Section Generic.
Variable A : crs.
Variable w : S.
Variable d : vec.
Hypothesis WA : wf A = true.
Let n := nrows A.
Hypothesis SA : sym_mat n A.
Hypothesis Ld : length d = n.

Let sw : sweep := fun rhs x t => jacobi_sweep w d A rhs x t.
Definition ecoef (i : nat) : S := w * vget d i.
Variable b : nat -> S.
Hypothesis He : forall i, i < n -> olt s0 (ecoef i).
Hypothesis Hb : forall p : vec, ole (qA n A p p) (sumn (fun i => b i * (vget p i * vget p i)) n).

Lemma diag_dJ (g x : vec) : length g = n -> length x = n ->
  exists p r : vec, length p = n /\ r = res n A g x /\ length r = n /\
    (forall i, i < n -> vget p i = ecoef i * vget r i) /\
    dJ n A g x (sm n sw g x) = qA n A p p - two * ip n r p.
Proof.
  intros Lg Lx.
  set (r := res n A g x).
  assert (Lr : length r = n) by (apply (res_length n A eq_refl SA); exact Lg).
  set (p := vmul w d r s1 (z n)).
  assert (Lp : length p = n) by (unfold p; rewrite vmul_length; rewrite ?Lz, ?Lr, ?Ld; auto).
  assert (Ep : forall i, i < n -> vget p i = ecoef i * vget r i).
  { intros i Hi. unfold p, ecoef. rewrite (vmul_spec Srt Seqb) by (rewrite ?Lz, ?Lr, ?Ld; auto).
    unfold AmgProofs7.z. rewrite vget_vzero. ring. }
  exists p, r. split; [exact Lp|]. split; [reflexivity|]. split; [exact Lr|]. split; [exact Ep|].
  apply (dJ_update Srt n A WA eq_refl SA g x p (sm n sw g x) Lg Lx Lp).
  intros j Hj. unfold sm, sw, jacobi_sweep. cbn [fst].
  assert (Lres : length (residual g A x (z n)) = n) by (apply residual_length; [exact Lg|apply Lz]).
  rewrite (vmul_spec Srt Seqb) by (rewrite ?Lres, ?Ld, ?Lx; auto).
  rewrite (Ep j Hj). unfold r, res, AmgProofs7.z, ecoef. ring.
Qed.

(* <r, p> = sum e_i r_i^2 >= 0, > 0 for r <> 0 *)
Lemma diag_rp (p r : vec) : (forall i, i < n -> vget p i = ecoef i * vget r i) ->
  ip n r p = sumn (fun i => ecoef i * (vget r i * vget r i)) n /\
  ((exists i, i < n /\ vget r i <> s0) -> exists i, i < n /\ vget p i <> s0).
Proof.
  intro Ep. split.
  - unfold AmgProofs6.ip. apply sumn_ext. intros i Hi. rewrite (Ep i Hi). ring.
  - intros (i & Hi & Hne). exists i. split; [exact Hi|]. rewrite (Ep i Hi). intro E.
    apply Hne. apply (mul_zero_pos Sft Ord (ecoef i)); [apply He, Hi|exact E].
Qed.

(* <A p,p> - 2 <r,p> <= sum (b_i e_i - 2) e_i r_i^2 *)
Lemma diag_bound (p r : vec) : (forall i, i < n -> vget p i = ecoef i * vget r i) ->
  ole (qA n A p p - two * ip n r p)
      (sumn (fun i => (b i * ecoef i - two) * (ecoef i * (vget r i * vget r i))) n).
Proof.
  intro Ep. destruct (diag_rp p r Ep) as [Erp _]. rewrite Erp.
  replace (qA n A p p - two * sumn (fun i => ecoef i * (vget r i * vget r i)) n)
    with (qA n A p p + sopp (two * sumn (fun i => ecoef i * (vget r i * vget r i)) n)) by ring.
  replace (sumn (fun i => (b i * ecoef i - two) * (ecoef i * (vget r i * vget r i))) n)
    with (sumn (fun i => b i * (vget p i * vget p i)) n +
          sopp (two * sumn (fun i => ecoef i * (vget r i * vget r i)) n)).
  - apply (ole_add_r Ord). apply Hb.
  - rewrite <- (sumn_scal Srt).
    replace (sopp (sumn (fun i => two * (ecoef i * (vget r i * vget r i))) n))
      with (sopp s1 * sumn (fun i => two * (ecoef i * (vget r i * vget r i))) n) by ring.
    rewrite <- (sumn_scal Srt), <- (sumn_add Srt). apply sumn_ext. intros i Hi. rewrite (Ep i Hi). ring.
Qed.

Theorem diag_it_dec : (forall i, i < n -> ole (b i * ecoef i) two) -> it_dec n A (sm n sw).
Proof.
  intros Hbe g x Lg Lx. destruct (diag_dJ g x Lg Lx) as (p & r & Lp & Er & Lr & Ep & ->).
  change (ole (qA n A p p - two * ip n r p) s0).
  apply (ole_trans Ord _ _ _ (diag_bound p r Ep)).
  apply (proj2 (ole_opp Srt Ord _)) || idtac.
  replace (sumn (fun i => (b i * ecoef i - two) * (ecoef i * (vget r i * vget r i))) n)
    with (sopp (sumn (fun i => (two - b i * ecoef i) * (ecoef i * (vget r i * vget r i))) n)).
  - apply (proj1 (ole_opp Srt Ord _)). apply (sumn_nonneg Srt Ord). intros i Hi.
    apply (mul_nonneg Srt Ord); [apply (proj1 (ole_0_sub Srt Ord _ _)), Hbe, Hi|].
    apply (mul_nonneg Srt Ord); [apply (olt_ole Ord), He, Hi|apply (sq_nonneg Srt Ord)].
  - replace (sopp (sumn (fun i => (two - b i * ecoef i) * (ecoef i * (vget r i * vget r i))) n))
      with (sopp s1 * sumn (fun i => (two - b i * ecoef i) * (ecoef i * (vget r i * vget r i))) n) by ring.
    rewrite <- (sumn_scal Srt). apply sumn_ext. intros i _. ring.
Qed.

Lemma res_nonzero (g x : vec) : length g = n -> res n A g x <> z n ->
  exists i, i < n /\ vget (res n A g x) i <> s0.
Proof.
  intros Lg Hr. apply (nonzero_entry Seqb); [apply (res_length n A eq_refl SA); exact Lg|exact Hr].
Qed.

Theorem diag_it_sdec : (forall i, i < n -> olt (b i * ecoef i) two) -> it_sdec n A (sm n sw).
Proof.
  intros Hbe g x Lg Lx Hr. destruct (diag_dJ g x Lg Lx) as (p & r & Lp & Er & Lr & Ep & ->).
  destruct (res_nonzero g x Lg Hr) as (k & Hk & Hne). rewrite <- Er in Hne.
  change (olt (qA n A p p - two * ip n r p) s0).
  apply (ole_olt_trans Ord _ _ _ (diag_bound p r Ep)).
  replace (sumn (fun i => (b i * ecoef i - two) * (ecoef i * (vget r i * vget r i))) n)
    with (sopp (sumn (fun i => (two - b i * ecoef i) * (ecoef i * (vget r i * vget r i))) n)).
  - apply (proj1 (olt_opp Srt Ord _)). apply (sumn_pos Srt Ord _ n k Hk).
    + intros i Hi. apply (mul_nonneg Srt Ord); [apply (olt_ole Ord), (proj1 (olt_0_sub Srt Ord _ _)), Hbe, Hi|].
      apply (mul_nonneg Srt Ord); [apply (olt_ole Ord), He, Hi|apply (sq_nonneg Srt Ord)].
    + apply (mul_pos Srt Ord); [apply (proj1 (olt_0_sub Srt Ord _ _)), Hbe, Hk|].
      apply (mul_pos Srt Ord); [apply He, Hk|apply (sq_pos Srt Ord), Hne].
  - replace (sopp (sumn (fun i => (two - b i * ecoef i) * (ecoef i * (vget r i * vget r i))) n))
      with (sopp s1 * sumn (fun i => (two - b i * ecoef i) * (ecoef i * (vget r i * vget r i))) n) by ring.
    rewrite <- (sumn_scal Srt). apply sumn_ext. intros i _. ring.
Qed.

(* strictness from a strict quadratic bound: <A p,p> < sum b_i p_i^2 for p <> 0, b_i e_i <= 2 *)
Theorem diag_it_sdec_q :
  (forall p : vec, (exists i, i < n /\ vget p i <> s0) ->
     olt (qA n A p p) (sumn (fun i => b i * (vget p i * vget p i)) n)) ->
  (forall i, i < n -> ole (b i * ecoef i) two) -> it_sdec n A (sm n sw).
Proof.
  intros Hbs Hbe g x Lg Lx Hr. destruct (diag_dJ g x Lg Lx) as (p & r & Lp & Er & Lr & Ep & ->).
  destruct (res_nonzero g x Lg Hr) as (k & Hk & Hne). rewrite <- Er in Hne.
  destruct (diag_rp p r Ep) as [Erp Hpn]. specialize (Hpn (ex_intro _ k (conj Hk Hne))).
  change (olt (qA n A p p - two * ip n r p) s0).
  apply (olt_ole_trans Ord _ (sumn (fun i => b i * (vget p i * vget p i)) n - two * ip n r p)).
  - replace (qA n A p p - two * ip n r p) with (qA n A p p + sopp (two * ip n r p)) by ring.
    replace (sumn (fun i => b i * (vget p i * vget p i)) n - two * ip n r p)
      with (sumn (fun i => b i * (vget p i * vget p i)) n + sopp (two * ip n r p)) by ring.
    apply (olt_add_r Ord). apply Hbs, Hpn.
  - rewrite Erp.
    replace (sumn (fun i => b i * (vget p i * vget p i)) n -
             two * sumn (fun i => ecoef i * (vget r i * vget r i)) n)
      with (sopp (sumn (fun i => (two - b i * ecoef i) * (ecoef i * (vget r i * vget r i))) n)).
    + apply (proj1 (ole_opp Srt Ord _)). apply (sumn_nonneg Srt Ord). intros i Hi.
      apply (mul_nonneg Srt Ord); [apply (proj1 (ole_0_sub Srt Ord _ _)), Hbe, Hi|].
      apply (mul_nonneg Srt Ord); [apply (olt_ole Ord), He, Hi|apply (sq_nonneg Srt Ord)].
    + rewrite <- (sumn_scal Srt).
      replace (sopp (sumn (fun i => (two - b i * ecoef i) * (ecoef i * (vget r i * vget r i))) n))
        with (sopp s1 * sumn (fun i => (two - b i * ecoef i) * (ecoef i * (vget r i * vget r i))) n) by ring.
      replace (sumn (fun i => b i * (vget p i * vget p i)) n -
               sumn (fun i => two * (ecoef i * (vget r i * vget r i))) n)
        with (sumn (fun i => b i * (vget p i * vget p i)) n +
              sopp s1 * sumn (fun i => two * (ecoef i * (vget r i * vget r i))) n) by ring.
      rewrite <- !(sumn_scal Srt), <- (sumn_add Srt). apply sumn_ext. intros i Hi. rewrite (Ep i Hi). ring.
Qed.

End Generic.

(* ------------------------------------------------------------------ *)
(* the bound of AmgSmooth in the form used above *)
Definition bcoef (A : crs) (i : nat) : S := mget A i i + ACs (nrows A) A i.

Lemma wdd_bound (A : crs) : wdd (nrows A) A -> forall p : vec,
  ole (qA (nrows A) A p p) (sumn (fun i => bcoef A i * (vget p i * vget p i)) (nrows A)).
Proof.
  intros HW p. apply (ole_trans Ord _ _ _ (wdd_upper_W Sft Ord (nrows A) A HW p)).
  unfold AmgProofs11.Dq, Wq, bcoef. rewrite <- (sumn_add Srt).
  match goal with |- ole ?a ?b => replace b with a; [apply (ole_refl Ord)|] end.
  apply sumn_ext. intros i _. ring.
Qed.

Lemma bcoef_le (A : crs) i : wdd (nrows A) A -> i < nrows A ->
  ole (bcoef A i) (mget A i i + mget A i i).
Proof.
  intros HW Hi. unfold bcoef. apply (ole_add Srt Ord); [apply (ole_refl Ord)|]. apply HW, Hi.
Qed.

(* ------------------------------------------------------------------ *)
(* damped Jacobi on wdd matrices *)
Section JacobiW.
Variable A : crs.
Variable w : S.
Variable junk : vec.
Hypothesis WA : wf A = true.
Let n := nrows A.
Hypothesis HW : wdd n A.
Hypothesis Hfd : forall i, i < n -> first_col (nth i (rows A) []) i = Some (mget A i i).
Hypothesis Hw0 : olt s0 w.
Hypothesis Hw1 : ole w s1.

Let dia := jacobi_setup A junk.
Let sw : sweep := fun rhs x t => jacobi_sweep w (jacobi_setup A junk) A rhs x t.

Lemma jw_dia_get i : i < n -> vget dia i = sinv (mget A i i).
Proof.
  intro Hi. unfold dia, jacobi_setup. rewrite (diagonal_spec A true junk i Hi), (Hfd i Hi).
  unfold diag_val. destruct (is_zero (mget A i i)) eqn:Z; [|reflexivity].
  exfalso. apply (is_zero_true Seqb) in Z. destruct HW as (_ & Hp & _).
  apply (pos_ne Ord _ (Hp i Hi)). exact Z.
Qed.

Lemma jw_e_pos i : i < n -> olt s0 (ecoef w dia i).
Proof.
  intro Hi. unfold ecoef. rewrite (jw_dia_get i Hi). apply (mul_pos Srt Ord); [exact Hw0|].
  apply (sinv_pos Sft Ord). apply HW, Hi.
Qed.

Lemma jw_be i : i < n -> ole (bcoef A i * ecoef w dia i) (two * w).
Proof.
  intro Hi. unfold ecoef. rewrite (jw_dia_get i Hi).
  destruct HW as (_ & Hp & _). pose proof (Hp i Hi) as Hpi.
  apply (ole_trans Ord _ ((mget A i i + mget A i i) * (w * sinv (mget A i i)))).
  - apply (ole_mul_nonneg Srt Ord); [|apply bcoef_le; assumption].
    apply (olt_ole Ord), (mul_pos Srt Ord); [exact Hw0|apply (sinv_pos Sft Ord), Hpi].
  - replace ((mget A i i + mget A i i) * (w * sinv (mget A i i))) with (two * w);
      [apply (ole_refl Ord)|]. unfold two. field. apply (pos_ne Ord _ Hpi).
Qed.

Lemma two_w_le : ole (two * w) two.
Proof.
  replace (two * w) with (w * two) by ring. replace (@two S) with (@s1 S * @two S) at 2 by ring.
  apply (ole_mul_pos Ord); [apply two_pos|exact Hw1].
Qed.

Theorem jacobi_w_dec : it_dec n A (sm n sw).
Proof.
  destruct HW as (SA & _).
  apply (diag_it_dec A w dia WA SA (diagonal_length A true junk) (bcoef A) jw_e_pos (wdd_bound A HW)).
  intros i Hi. apply (ole_trans Ord _ _ _ (jw_be i Hi)). exact two_w_le.
Qed.

Theorem jacobi_w_sdec : olt w s1 -> it_sdec n A (sm n sw).
Proof.
  intro Hw. destruct HW as (SA & _).
  apply (diag_it_sdec A w dia WA SA (diagonal_length A true junk) (bcoef A) jw_e_pos (wdd_bound A HW)).
  intros i Hi. apply (ole_olt_trans Ord _ _ _ (jw_be i Hi)).
  replace (two * w) with (w * two) by ring. replace (@two S) with (@s1 S * @two S) at 2 by ring.
  apply (olt_mul_pos Ord); [apply two_pos|exact Hw].
Qed.

(* w = 1 included, on irreducibly dominant matrices *)
Theorem jacobi_w_sdec_idd : idd n A -> it_sdec n A (sm n sw).
Proof.
  intro Hidd. pose proof HW as (SA & _).
  apply (diag_it_sdec_q A w dia WA SA (diagonal_length A true junk)
           (fun i => mget A i i + mget A i i) jw_e_pos).
  - intros p Hp. pose proof (idd_upper_strict Sft Seqb Ord n A HW p Hidd Hp) as H.
    unfold AmgProofs11.Dq in H. rewrite <- (sumn_add Srt) in H.
    match goal with |- olt _ ?b => replace b with
      (sumn (fun i => mget A i i * (vget p i * vget p i) + mget A i i * (vget p i * vget p i)) n); [exact H|] end.
    apply sumn_ext. intros i _. ring.
  - intros i Hi. unfold ecoef. rewrite (jw_dia_get i Hi).
    destruct HW as (_ & Hp & _). pose proof (Hp i Hi) as Hpi.
    replace ((mget A i i + mget A i i) * (w * sinv (mget A i i))) with (two * w);
      [exact two_w_le|]. unfold two. field. apply (pos_ne Ord _ Hpi).
Qed.

End JacobiW.

(* ------------------------------------------------------------------ *)
(* SPAI-0 on wdd matrices whose rows have no duplicate columns *)
Hypothesis Habs2 : forall v : S, sabs v * sabs v = v * v.
(* real value types: math::adjoint is the identity (spai0.hpp accumulates adjoint(a_ii), finding C06-spai0-no-conj) *)
Hypothesis Hadj : forall v : S, sadj v = v.

Lemma rn2_acc (r : row) (a : S) :
  fold_left (fun acc (e : nat * S) => acc + sabs (snd e) * sabs (snd e)) r a = a + row_norm2 r.
Proof.
  unfold row_norm2. revert a; induction r as [|e r IH]; intro a; simpl; [ring|].
  rewrite IH, (IH (s0 + _)). ring.
Qed.

Lemma row_norm2_cons (e : nat * S) (r : row) : row_norm2 (e :: r) = snd e * snd e + row_norm2 r.
Proof. unfold row_norm2 at 1. cbn [fold_left]. rewrite rn2_acc, Habs2. ring. Qed.

(* without duplicate columns the stored squared norm is the dense one *)
Lemma row_norm2_dense (r : row) m : NoDup (map fst r) -> row_wf m r = true ->
  row_norm2 r = sumn (fun j => rget r j * rget r j) m.
Proof.
  induction r as [|e r IH]; intros Hnd Hwf.
  - unfold row_norm2. simpl. rewrite (sumn_ext _ (fun _ => s0)); [symmetry; apply (sumn_zero Srt)|].
    intros j _. rewrite rget_nil. ring.
  - simpl in Hwf. apply andb_prop in Hwf as [He Hr]. cbn [map] in Hnd. inversion Hnd as [|? ? Hnin Hnd']; subst.
    rewrite row_norm2_cons, (IH Hnd' Hr).
    rewrite (sumn_ext (fun j => rget (e :: r) j * rget (e :: r) j)
               (fun j => (if Nat.eqb (fst e) j then snd e * snd e else s0) + rget r j * rget r j)).
    + rewrite (sumn_add Srt), (sumn_delta Srt), He. reflexivity.
    + intros j _. rewrite (rget_cons Srt). destruct (Nat.eqb_spec (fst e) j) as [<-|]; [|ring].
      rewrite (rget_notin Srt r (fst e) Hnin). ring.
Qed.

Definition rows_nodup (A : crs) : Prop := Forall (fun r => NoDup (map fst r)) (rows A).

Section Spai0W.
Variable A : crs.
Hypothesis WA : wf A = true.
Let n := nrows A.
Hypothesis HW : wdd n A.
Hypothesis Hnd : rows_nodup A.

Let M := spai0_setup A.
Let sw : sweep := fun rhs x t => spai0_sweep (spai0_setup A) A rhs x t.
Definition N2 (i : nat) : S := sumn (fun j => mget A i j * mget A i j) n.
Definition S2 (i : nat) : S := sumn (fun j => if Nat.eqb i j then s0 else mget A i j * mget A i j) n.

Lemma sp_norm i : i < n -> row_norm2 (nth i (rows A) []) = N2 i.
Proof.
  intro Hi. destruct HW as ((HcA & _) & _). unfold N2, mget. rewrite <- HcA.
  apply row_norm2_dense.
  - unfold rows_nodup in Hnd. rewrite Forall_forall in Hnd. apply Hnd, nth_In, Hi.
  - apply forallb_nth; [exact WA|exact Hi].
Qed.

Lemma N2_split i : i < n -> N2 i = mget A i i * mget A i i + S2 i.
Proof.
  intro Hi. unfold N2, S2.
  assert (Ed : mget A i i * mget A i i =
               sumn (fun j => if Nat.eqb i j then mget A i i * mget A i i else s0) n).
  { rewrite (sumn_delta Srt). replace (i <? n)%nat with true by (symmetry; apply Nat.ltb_lt; exact Hi).
    reflexivity. }
  rewrite Ed, <- (sumn_add Srt). apply sumn_ext. intros j _.
  destruct (Nat.eqb_spec i j) as [->|]; ring.
Qed.

Lemma S2_nonneg i : ole s0 (S2 i).
Proof.
  unfold S2. apply (sumn_nonneg Srt Ord). intros j _.
  destruct (Nat.eqb i j); [apply (ole_refl Ord)|apply (sq_nonneg Srt Ord)].
Qed.

Lemma N2_pos i : i < n -> olt s0 (N2 i).
Proof.
  intro Hi. rewrite (N2_split i Hi). replace (@s0 S) with (@s0 S + s0) by ring.
  apply (olt_ole_add Srt Ord); [|apply S2_nonneg].
  apply (sq_pos Srt Ord). apply (pos_ne Ord). apply HW, Hi.
Qed.

Lemma sp_M_get i : i < n -> vget M i = sinv (N2 i) * mget A i i.
Proof. intro Hi. unfold M. rewrite (spai0_setup_get_id A i Hadj Hi), (sp_norm i Hi). reflexivity. Qed.

Lemma sp_e_pos i : i < n -> olt s0 (ecoef s1 M i).
Proof.
  intro Hi. unfold ecoef. rewrite (sp_M_get i Hi). replace (s1 * (sinv (N2 i) * mget A i i)) with (sinv (N2 i) * mget A i i) by ring.
  apply (mul_pos Srt Ord); [apply (sinv_pos Sft Ord), N2_pos, Hi|apply HW, Hi].
Qed.

(* the key inequality: (a_ii + sum_{j<>i}|a_ij|) a_ii < 2 sum_j a_ij^2 *)
Lemma sp_key i : i < n -> olt (bcoef A i * mget A i i) (N2 i + N2 i).
Proof.
  intro Hi. destruct HW as (SA & Hp & Hd). pose proof (Hp i Hi) as Hpi. pose proof (Hd i Hi) as Hdi.
  fold n in Hdi. unfold bcoef. fold n. rewrite (N2_split i Hi).
  set (a := mget A i i) in *. set (cs := ACs n A i) in *.
  (* cs * a < a * a + 2 S2 *)
  assert (K : olt (cs * a) (a * a + (S2 i + S2 i))).
  { destruct (ole_cases Ord cs a Hdi) as [L|E].
    - apply (olt_ole_trans Ord _ (a * a)); [apply (olt_mul_pos Ord); assumption|].
      replace (a * a) with (a * a + s0) at 1 by ring. apply (ole_add Srt Ord); [apply (ole_refl Ord)|].
      replace (@s0 S) with (@s0 S + s0) by ring. apply (ole_add Srt Ord); apply S2_nonneg.
    - (* cs = a > 0: some off-diagonal entry is non-zero, so S2 > 0 *)
      rewrite E. replace (a * a) with (a * a + s0) at 1 by ring.
      apply (proj2 (olt_0_sub Srt Ord _ _)).
      replace (a * a + (S2 i + S2 i) - (a * a + s0)) with (S2 i + S2 i) by ring.
      destruct (ole_cases Ord s0 _ (S2_nonneg i)) as [L|Z].
      + replace (@s0 S) with (@s0 S + s0) by ring. apply (olt_ole_add Srt Ord); [exact L|apply (olt_ole Ord), L].
      + exfalso. apply (pos_ne Ord a Hpi). rewrite <- E. unfold cs, ACs.
        rewrite (sumn_ext _ (fun _ => s0)); [apply (sumn_zero Srt)|].
        intros j Hj. unfold acof. destruct (Nat.eqb_spec i j) as [Eij|Nij]; [reflexivity|].
        assert (Ez : (if Nat.eqb i j then s0 else mget A i j * mget A i j) = s0).
        { apply (sumn_zero_each Sft Ord (fun j => if Nat.eqb i j then s0 else mget A i j * mget A i j) n);
            [|symmetry; exact Z|exact Hj].
          intros k _. destruct (Nat.eqb i k); [apply (ole_refl Ord)|apply (sq_nonneg Srt Ord)]. }
        replace (i =? j)%nat with false in Ez by (symmetry; apply Nat.eqb_neq; exact Nij).
        rewrite (sq_zero Sft Seqb Ord _ Ez). unfold oabs. rewrite (o_irrefl S Ord). reflexivity. }
  replace ((a + cs) * a) with (a * a + cs * a) by ring.
  replace (a * a + S2 i + (a * a + S2 i)) with (a * a + (a * a + (S2 i + S2 i))) by ring.
  apply (proj2 (olt_0_sub Srt Ord _ _)).
  replace (a * a + (a * a + (S2 i + S2 i)) - (a * a + cs * a)) with (a * a + (S2 i + S2 i) - cs * a) by ring.
  apply (proj1 (olt_0_sub Srt Ord _ _)). exact K.
Qed.

Lemma sp_be i : i < n -> olt (bcoef A i * ecoef s1 M i) two.
Proof.
  intro Hi. unfold ecoef. rewrite (sp_M_get i Hi).
  pose proof (N2_pos i Hi) as HN. pose proof (sinv_pos Sft Ord _ HN) as HiN.
  replace (bcoef A i * (s1 * (sinv (N2 i) * mget A i i))) with ((bcoef A i * mget A i i) * sinv (N2 i)) by ring.
  replace (@two S) with ((N2 i + N2 i) * sinv (N2 i)).
  - apply (olt_mul_pos Ord); [exact HiN|apply sp_key, Hi].
  - unfold two. field. apply (pos_ne Ord _ HN).
Qed.

Lemma sp_len : length M = n.
Proof. unfold M. apply spai0_setup_length. Qed.

Theorem spai0_w_dec : it_dec n A (sm n sw).
Proof.
  pose proof HW as (SA & _).
  apply (diag_it_dec A s1 M WA SA sp_len (bcoef A) sp_e_pos (wdd_bound A HW)).
  intros i Hi. apply (olt_ole Ord), sp_be, Hi.
Qed.

Theorem spai0_w_sdec : it_sdec n A (sm n sw).
Proof.
  pose proof HW as (SA & _).
  apply (diag_it_sdec A s1 M WA SA sp_len (bcoef A) sp_e_pos (wdd_bound A HW)). exact sp_be.
Qed.

End Spai0W.

End DiagSmooth.
