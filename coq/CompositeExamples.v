(* CompositeExamples.v -- C18: concrete witnesses at the exact rationals.
   (1) adjust_p = 1 with a pressure row that has no structural Kpp diagonal entry: the operator
       handed to the pressure solver is NOT the Schur complement (here it is the zero operator
       while S = -1): refutes "for every adjust_p" for such matrices;
   (2) the hypotheses of C18_schur_model_type1_inverse are satisfiable. *)
From Coq Require Import QArith Qcanon.
From Amgcl Require Import Scalar QcInst Vec Crs Kernels MatOps Adapters Composite.
Local Open Scope S_scope.

(* K = [[1, 1], [1, .]] (the (1,1) entry is structurally absent), pressure = unknown 1 *)
Definition ex_K : crs QcS := mkCrs 2 [[(0%nat, qc 1 1); (1%nat, qc 1 1)]; [(0%nat, qc 1 1)]].
Definition ex_mask : list bool := [false; true].

Lemma schur_adjust1_no_diagonal_refuted :
  let Kuu := sub_block ex_K ex_mask false false in let Kup := sub_block ex_K ex_mask false true in
  let Kpu := sub_block ex_K ex_mask true false in let Kpp := sub_block ex_K ex_mask true true in
  let solveU := (fun v : vec QcS => v) in           (* Kuu = [1] *)
  let L := ld_vec Kpu Kup (kuu_dia false Kuu []) in (* what init() computes *)
  wf ex_K = true /\ has_diag Kpp = false /\
  (forall v, length v = 1%nat -> mv Kuu (solveU v) = v) /\
  schur_true Kpp Kup Kpu solveU [qc 1 1] = [qc (-1) 1] /\
  schur_op 1 Kpp Kup Kpu L solveU [qc 1 1] = [qc 0 1].
Proof.
  cbv zeta. split; [reflexivity|]. split; [reflexivity|]. split.
  - intros [|a [|b v]] H; try discriminate. unfold mv. simpl. f_equal.
    unfold dotrow. simpl. unfold vget. simpl. change (Qcplus (Q2Qc 0) (Qcmult (qc 1 1) a) = a).
    change (qc 1 1) with 1%Qc. change (Q2Qc 0) with 0%Qc. ring.
  - split; vm_compute; f_equal; apply Qc_is_canon; reflexivity.
Qed.

(* K = [[2, 1], [1, 3]], pressure = unknown 1; U v = v / 2, S = 3 - 1/2 = 5/2, S^-1 v = v * (2/5) *)
Definition ex2_K : crs QcS := mkCrs 2 [[(0%nat, qc 2 1); (1%nat, qc 1 1)]; [(0%nat, qc 1 1); (1%nat, qc 3 1)]].
Definition ex2_U (v : vec QcS) : vec QcS := map (fun a => a / qc 2 1) v.
Definition ex2_S (v : vec QcS) : vec QcS := map (fun a => a * qc 2 5) v.

Lemma qc_neq0 n d : (n <> 0)%Z -> qc n d <> Q2Qc 0.
Proof.
  intros Hn H. apply (f_equal (fun q : Qc => Qnum (this q))) in H. simpl in H.
  unfold Qred in H. simpl in H.
  destruct (Z.ggcd n (Zpos d)) as [g [aa bb]] eqn:E. simpl in H.
  pose proof (Z.ggcd_correct_divisors n (Zpos d)) as D. rewrite E in D. destruct D as [D1 _]. subst aa.
  rewrite Z.mul_0_r in D1. contradiction.
Qed.

Lemma schur_type1_hyps_satisfiable :
  let K := ex2_K in let mask := ex_mask in let adjust_p := 0%nat in let L : vec QcS := [] in
  let solveU := ex2_U in let solveS := ex2_S in
  let nu := count_of false mask in let np := count_of true mask in
  let Kuu := sub_block K mask false false in let Kup := sub_block K mask false true in
  let Kpu := sub_block K mask true false in let Kpp := sub_block K mask true true in
  wf K = true /\ nrows K = length mask /\ ncols K = length mask /\
  (adjust_p = 1%nat -> has_diag Kpp = true /\ length L = np) /\
  (forall v, length v = nu -> length (solveU v) = nu) /\
  (forall v, length v = np -> length (solveS v) = np) /\
  (forall v, length v = nu -> mv Kuu (solveU v) = v) /\
  (forall v, length v = nu -> solveU (mv Kuu v) = v) /\
  (forall v, length v = np -> schur_op adjust_p Kpp Kup Kpu L solveU (solveS v) = v).
Proof.
  cbv zeta. repeat (split; [reflexivity|]). split; [discriminate|].
  split; [intros v H; unfold ex2_U; rewrite map_length; exact H|].
  split; [intros v H; unfold ex2_S; rewrite map_length; exact H|].
  assert (N2 : qc 2 1 <> Q2Qc 0) by (apply qc_neq0; discriminate).
  split; [|split]; intros [|a [|b v]] H; try discriminate.
  - unfold mv, ex2_U. simpl. f_equal. unfold dotrow. simpl. unfold vget. simpl.
    set (two := qc 2 1) in *. clearbody two.
    cbv [sadd smul ssub sdiv sinv s0 s1 QcS T] in *. field. exact N2.
  - unfold mv, ex2_U. simpl. f_equal. unfold dotrow. simpl. unfold vget. simpl.
    set (two := qc 2 1) in *. clearbody two.
    cbv [sadd smul ssub sdiv sinv s0 s1 QcS T] in *. field. exact N2.
  - vm_compute sub_block. unfold schur_op, mv, ex2_S, ex2_U, vsub. simpl. f_equal.
    unfold dotrow. simpl. unfold vget. simpl.
    apply Qc_is_canon. cbv [sadd smul ssub sdiv sinv s0 s1 QcS T this Qcplus Qcmult Qcminus Qcdiv Qcinv Qcopp Q2Qc qc].
    repeat setoid_rewrite Qred_correct. field.
Qed.
