(* AmgProofs6.v -- property C02-A3: the V-cycle preconditioner (npre = npost = ncycle = 1,
   pre_cycles = 1) is symmetric with respect to the inner product, <B f, g> = <f, B g>, when
   every A_l is symmetric, R_l = transpose P_l (densely), the coarse solve is symmetric, the
   post-smoother is consistent (x' = x + N (f - A x)) and is the adjoint of the pre-smoother.
   Commutative ring with trivial conjugation. *)
From Amgcl Require Import Scalar Vec Crs Kernels KernelsProofs MatOps MatOpsProofs Relax DenseSolve
  Amg AmgExec AmgProofs AmgProofs2 AmgProofs3 AmgProofs4.
Local Open Scope S_scope.

Section A3.
Context {S : Scalar}.
Local Notation vec := (vec S).
Local Notation crs := (crs S).
Local Notation level := (@level S).
Local Notation scratch := (@scratch S).
Local Notation sweep := (@sweep S).
Hypothesis Srt : Sring S.
Hypothesis Seqb : seqb_spec S.
Hypothesis sadj_id : forall a : S, sadj a = a.
Add Ring SRingA3 : Srt.

Lemma zero_is_zero : is_zero (@s0 S) = true.
Proof. unfold is_zero. apply Seqb. reflexivity. Qed.

(* --- the bilinear form on the first n entries --- *)
Definition ip (n : nat) (x y : vec) : S := sumn (fun i => vget x i * vget y i) n.

Lemma sumn_shift (f : nat -> S) n : sumn f (Datatypes.S n) = f 0%nat + sumn (fun i => f (Datatypes.S i)) n.
Proof. induction n as [|n IH]; [simpl; ring|]. simpl in *. rewrite IH. ring. Qed.

Lemma dot_ip n : forall x y : vec, length x = n -> length y = n -> dot x y = ip n x y.
Proof.
  induction n as [|n IH]; intros [|c x] [|d y] Hx Hy; simpl in *; try discriminate; [reflexivity|].
  unfold ip. rewrite sumn_shift. unfold vget at 1 2. simpl nth. rewrite sadj_id.
  rewrite (IH x y) by congruence. reflexivity.
Qed.

Lemma ip_sym n (x y : vec) : ip n x y = ip n y x.
Proof. unfold ip. apply sumn_ext. intros; ring. Qed.

Lemma ip_ext_l n (x x' y : vec) : (forall i, i < n -> vget x i = vget x' i) -> ip n x y = ip n x' y.
Proof. intro H. unfold ip. apply sumn_ext. intros i Hi. rewrite H by exact Hi. reflexivity. Qed.

Lemma ip_lin_l n a (x : vec) b (w z y : vec) :
  (forall i, i < n -> vget z i = a * vget x i + b * vget w i) ->
  ip n z y = a * ip n x y + b * ip n w y.
Proof.
  intro H. unfold ip. rewrite <- !(sumn_scal Srt), <- (sumn_add Srt). apply sumn_ext.
  intros i Hi. rewrite H by exact Hi. ring.
Qed.

Lemma sumn_mul_r (f : nat -> S) c n : sumn f n * c = sumn (fun i => f i * c) n.
Proof. induction n as [|n IH]; simpl; [ring|]. rewrite <- IH. ring. Qed.

Lemma sumn_swap (F : nat -> nat -> S) n m :
  sumn (fun i => sumn (fun j => F i j) m) n = sumn (fun j => sumn (fun i => F i j) n) m.
Proof.
  induction n as [|n IH]; simpl.
  - symmetry. apply (sumn_zero Srt).
  - rewrite IH, <- (sumn_add Srt). reflexivity.
Qed.

(* sum_i (A x)_i y_i *)
Definition qA (n : nat) (A : crs) (x y : vec) : S := sumn (fun i => Ax A x i * vget y i) n.

Lemma qA_adj (A T : crs) n m (x y : vec) : ncols A = m -> ncols T = n ->
  (forall i j, i < n -> j < m -> mget A i j = mget T j i) -> qA n A x y = qA m T y x.
Proof.
  intros HA HT H. unfold qA, Ax. rewrite HA, HT.
  rewrite (sumn_ext _ (fun i => sumn (fun j => mget A i j * vget x j * vget y i) m))
    by (intros; apply sumn_mul_r).
  rewrite sumn_swap. apply sumn_ext. intros j Hj. rewrite sumn_mul_r.
  apply sumn_ext. intros i Hi. rewrite H by assumption. ring.
Qed.

Lemma ip_Ax n (A : crs) (x v y : vec) : (forall i, i < n -> vget v i = Ax A x i) -> ip n v y = qA n A x y.
Proof. intro H. unfold ip, qA. apply sumn_ext. intros i Hi. rewrite H by exact Hi. reflexivity. Qed.

(* --- hypotheses per level --- *)
Definition sym_mat (n : nat) (A : crs) : Prop :=
  ncols A = n /\ forall i j, i < n -> j < n -> mget A i j = mget A j i.
(* R (n' x n) is the dense transpose of P (n x n') *)
Definition transp (n n' : nat) (R P : crs) : Prop :=
  ncols R = n /\ ncols P = n' /\ forall i j, i < n' -> j < n -> mget R i j = mget P j i.

(* the smoother started from x = 0 *)
Definition opM (sw : sweep) (n : nat) (f : vec) : vec := fst (sw f (vzero n) (vzero n)).

(* x' = x + N (f - A x) *)
Definition sweep_cons (n : nat) (A : crs) (sw : sweep) : Prop :=
  forall f x t, length f = n -> length x = n -> length t = n ->
    fst (sw f x t) = vlin s1 x s1 (opM sw n (residual f A x (vzero n))).
Definition sweep_adj (n : nat) (pre post : sweep) : Prop :=
  forall f g, length f = n -> length g = n -> ip n (opM pre n f) g = ip n f (opM post n g).
Definition solve_sym (n : nat) (sv : vec -> vec -> vec) : Prop :=
  forall f g x y, length f = n -> length g = n -> length x = n -> length y = n ->
    ip n (sv f x) g = ip n f (sv g y).

Fixpoint hier_sym (lvls : list level) : Prop :=
  match lvls with
  | [] => True
  | l :: rest =>
    let n := nrows (lA l) in
    sweep_ok n (lpre l) /\ sweep_ok n (lpost l) /\
    wf (lA l) = true /\ sym_mat n (lA l) /\
    sweep_cons n (lA l) (lpost l) /\ sweep_adj n (lpre l) (lpost l) /\
    match rest with
    | [] => forall sv, lsolve l = Some sv -> solve_ok n sv /\ solve_sym n sv
    | nxt :: _ => wf (lR l) = true /\ wf (lP l) = true /\
                  nrows (lR l) = nrows (lA nxt) /\ nrows (lP l) = n /\
                  transp n (nrows (lA nxt)) (lR l) (lP l)
    end /\ hier_sym rest
  end.

(* pre-smoothers must be consistent as well (needed beyond one sweep / one cycle) *)
Fixpoint hier_symk (lvls : list level) : Prop :=
  match lvls with
  | [] => True
  | l :: rest => sweep_cons (nrows (lA l)) (lA l) (lpre l) /\ hier_symk rest
  end.

Lemma hier_sym_mid (l nxt : level) (rest : list level) :
  sweep_ok (nrows (lA l)) (lpre l) -> sweep_ok (nrows (lA l)) (lpost l) ->
  wf (lA l) = true -> sym_mat (nrows (lA l)) (lA l) ->
  sweep_cons (nrows (lA l)) (lA l) (lpost l) -> sweep_adj (nrows (lA l)) (lpre l) (lpost l) ->
  wf (lR l) = true -> wf (lP l) = true ->
  nrows (lR l) = nrows (lA nxt) -> nrows (lP l) = nrows (lA l) ->
  transp (nrows (lA l)) (nrows (lA nxt)) (lR l) (lP l) ->
  hier_sym (nxt :: rest) -> hier_sym (l :: nxt :: rest).
Proof.
  intros H1 H2 H3 H4 H5 H6 H7 H8 H9 H10 H11 H12.
  change (sweep_ok (nrows (lA l)) (lpre l) /\ sweep_ok (nrows (lA l)) (lpost l) /\
    wf (lA l) = true /\ sym_mat (nrows (lA l)) (lA l) /\
    sweep_cons (nrows (lA l)) (lA l) (lpost l) /\ sweep_adj (nrows (lA l)) (lpre l) (lpost l) /\
    (wf (lR l) = true /\ wf (lP l) = true /\
     nrows (lR l) = nrows (lA nxt) /\ nrows (lP l) = nrows (lA l) /\
     transp (nrows (lA l)) (nrows (lA nxt)) (lR l) (lP l)) /\ hier_sym (nxt :: rest)).
  tauto.
Qed.

Lemma hier_sym_wf lvls : hier_sym lvls -> hier_wf lvls.
Proof.
  induction lvls as [|l rest IH]; intro H; [exact I|].
  cbn [hier_sym] in H. destruct H as (H1 & H2 & _ & _ & _ & _ & Hm & Hr).
  cbn [hier_wf]. split; [exact H1|]. split; [exact H2|]. split; [|apply IH, Hr].
  destruct rest as [|nxt rest']; [intros sv E; apply (Hm sv E)|apply Hm].
Qed.

Lemma vzero_length n : length (@vzero S n) = n.
Proof. apply repeat_length. Qed.

Lemma vclear_vzero (u : vec) : vclear u = vzero (length u).
Proof. induction u as [|c u IH]; [reflexivity|]. unfold vzero in *. simpl. rewrite IH. reflexivity. Qed.

Lemma vget_vzero n i : vget (@vzero S n) i = s0.
Proof.
  unfold vget, vzero. revert i; induction n as [|n IH]; intros [|i]; simpl; auto.
Qed.

(* one post-sweep, seen through the inner product *)
Lemma post_ip n (A : crs) (pre post : sweep) (f g x t : vec) :
  wf A = true -> nrows A = n -> sym_mat n A ->
  sweep_ok n pre -> sweep_ok n post -> sweep_cons n A post -> sweep_adj n pre post ->
  length f = n -> length g = n -> length x = n -> length t = n ->
  ip n (fst (post f x t)) g =
  ip n f (opM pre n g) + ip n x (residual g A (opM pre n g) (vzero n)).
Proof.
  intros WA NA [HcA HsA] Hpre Hpost Hcons Hadj Lf Lg Lx Lt. subst n. set (n := nrows A) in *.
  assert (Lz : length (@vzero S n) = n) by apply vzero_length.
  assert (LMg : length (opM pre n g) = n) by (apply Hpre; assumption).
  assert (Lres : length (residual f A x (vzero n)) = n) by (apply residual_length; assumption).
  rewrite (Hcons f x t Lf Lx Lt).
  rewrite (ip_lin_l n s1 x s1 (opM post n (residual f A x (vzero n))))
    by (intros i Hi; apply vlin_get; [exact Srt|]; rewrite Lx; symmetry; apply Hpost; assumption).
  (* <N r, g> = <r, M g> *)
  rewrite (ip_sym n (opM post n _) g), <- (Hadj g _ Lg Lres), (ip_sym n (opM pre n g)).
  (* <f - A x, M g> = <f, M g> - qA x (M g) *)
  rewrite (ip_lin_l n s1 f (sopp s1) (map (fun r => dotrow r x) (rows A)) (residual f A x (vzero n)) (opM pre n g)).
  2:{ intros i Hi. rewrite (residual_spec Srt) by (auto; congruence).
      rewrite (dotrows_get Srt) by (auto; congruence). ring. }
  rewrite (ip_Ax n A x (map (fun r => dotrow r x) (rows A)))
    by (intros i Hi; apply (dotrows_get Srt); auto; congruence).
  (* <x, g - A M g> = <x, g> - qA (M g) x *)
  rewrite (ip_sym n x (residual g A (opM pre n g) (vzero n))).
  rewrite (ip_lin_l n s1 g (sopp s1) (map (fun r => dotrow r (opM pre n g)) (rows A))
             (residual g A (opM pre n g) (vzero n)) x).
  2:{ intros i Hi. rewrite (residual_spec Srt) by (auto; congruence).
      rewrite (dotrows_get Srt) by (auto; congruence). ring. }
  rewrite (ip_Ax n A (opM pre n g) (map (fun r => dotrow r (opM pre n g)) (rows A)))
    by (intros i Hi; apply (dotrows_get Srt); auto; congruence).
  rewrite (qA_adj A A n n x (opM pre n g) HcA HcA HsA).
  rewrite (ip_sym n g x). ring.
Qed.

(* --- the V-cycle with one pre- and one post-sweep, unfolded --- *)
Local Notation cycle1 := (cycle 1 1 1).

Lemma cycle111_last_none (l : level) (s : scratch) (srest : list scratch) (f x : vec) :
  lsolve l = None ->
  fst (cycle1 [l] (s :: srest) f x) =
  fst (lpost l f (fst (lpre l f x (st s))) (snd (lpre l f x (st s)))).
Proof. intro E. rewrite cycle_last, E. reflexivity. Qed.

Lemma cycle111_mid (l nxt : level) (rest : list level) (s sn : scratch) (srest : list scratch) (f x : vec) :
  fst (cycle1 (l :: nxt :: rest) (s :: sn :: srest) f x) =
  let xt1 := lpre l f x (st s) in
  let t2 := residual f (lA l) (fst xt1) (snd xt1) in
  let f' := spmv s1 (lR l) t2 s0 (sf sn) in
  let u0 := vclear (su sn) in
  let u' := fst (cycle1 (nxt :: rest) (mkScratch f' u0 (st sn) :: srest) f' u0) in
  fst (lpost l f (spmv s1 (lP l) u' s1 (fst xt1)) t2).
Proof.
  rewrite cycle_mid_proj. cbv zeta. cbn [iter fst]. rewrite cyc_body_proj. reflexivity.
Qed.

(* canonical (scratch-free) quantities of a level *)
Definition Mv (l : level) (f : vec) : vec := opM (lpre l) (nrows (lA l)) f.
Definition T2 (l : level) (f : vec) : vec := residual f (lA l) (Mv l f) (vzero (nrows (lA l))).
Definition Fc (l : level) (n' : nat) (f : vec) : vec := spmv s1 (lR l) (T2 l f) s0 (vzero n').
Definition Psi (l : level) (f g : vec) : S :=
  ip (nrows (lA l)) f (Mv l g) + ip (nrows (lA l)) (Mv l f) (T2 l g).

Lemma Psi_sym (l : level) (f g : vec) : wf (lA l) = true -> sym_mat (nrows (lA l)) (lA l) ->
  sweep_ok (nrows (lA l)) (lpre l) -> length f = nrows (lA l) -> length g = nrows (lA l) ->
  Psi l f g = Psi l g f.
Proof.
  intros WA [HcA HsA] Hpre Lf Lg. unfold Psi. set (n := nrows (lA l)) in *.
  assert (Lz : length (@vzero S n) = n) by apply vzero_length.
  assert (LM : forall h, length h = n -> length (Mv l h) = n) by (intros; apply Hpre; assumption).
  assert (E : forall f g : vec, length f = n -> length g = n ->
            ip n (Mv l f) (T2 l g) = ip n (Mv l f) g - qA n (lA l) (Mv l g) (Mv l f)).
  { intros f0 g0 L0 L1. rewrite (ip_sym n (Mv l f0) (T2 l g0)). unfold T2. fold n.
    rewrite (ip_lin_l n s1 g0 (sopp s1) (map (fun r => dotrow r (Mv l g0)) (rows (lA l)))
               (residual g0 (lA l) (Mv l g0) (vzero n)) (Mv l f0)).
    2:{ intros i Hi. rewrite (residual_spec Srt) by auto.
        rewrite (dotrows_get Srt) by auto. ring. }
    rewrite (ip_Ax n (lA l) (Mv l g0) (map (fun r => dotrow r (Mv l g0)) (rows (lA l))))
      by (intros i Hi; apply (dotrows_get Srt); auto).
    rewrite (ip_sym n g0). ring. }
  rewrite (E f g Lf Lg), (E g f Lg Lf).
  rewrite (qA_adj (lA l) (lA l) n n (Mv l g) (Mv l f) HcA HcA HsA).
  rewrite (ip_sym n f (Mv l g)), (ip_sym n g (Mv l f)). ring.
Qed.

Theorem cycle_sym lvls : hier_sym lvls -> forall scr1 scr2 f g,
  scratch_wf lvls scr1 -> scratch_wf lvls scr2 ->
  length f = top_n lvls -> length g = top_n lvls ->
  ip (top_n lvls) (fst (cycle1 lvls scr1 f (vzero (top_n lvls)))) g =
  ip (top_n lvls) f (fst (cycle1 lvls scr2 g (vzero (top_n lvls)))).
Proof.
  induction lvls as [|l rest IH]; intros Hh scr1 scr2 f g H1 H2 Lf Lg; [reflexivity|].
  pose proof (hier_sym_wf _ Hh) as Hwf.
  cbn [hier_sym] in Hh. destruct Hh as (Hpre & Hpost & WA & HsA & Hcons & Hadj & Hmid & Hrest).
  cbn [top_n] in *. set (n := nrows (lA l)) in *.
  assert (Lz : length (@vzero S n) = n) by apply vzero_length.
  destruct scr1 as [|s1' sr1]; [destruct H1|]. destruct scr2 as [|s2' sr2]; [destruct H2|].
  cbn [scratch_wf] in H1, H2. destruct H1 as [(_ & _ & Lt1) Hr1]. destruct H2 as [(_ & _ & Lt2) Hr2].
  (* the pre-sweep from zero does not depend on the work vector *)
  assert (Epre : forall h t, length h = n -> length t = n -> fst (lpre l h (vzero n) t) = Mv l h).
  { intros h t Lh Lt. unfold Mv, opM. fold n.
    destruct (Hpre h (vzero n) (vzero n) Lh Lz Lz) as (_ & _ & Hob). apply Hob, Lt. }
  assert (Lpre : forall h t, length h = n -> length t = n -> length (snd (lpre l h (vzero n) t)) = n)
    by (intros h t Lh Lt; apply Hpre; assumption).
  assert (LM : forall h, length h = n -> length (Mv l h) = n) by (intros; apply Hpre; assumption).
  destruct rest as [|nxt rest'].
  - (* coarsest level *)
    destruct (lsolve l) as [sv|] eqn:El.
    + rewrite !cycle_last, El. cbn [fst]. apply (Hmid sv eq_refl); assumption.
    + assert (G : forall (h k : vec) (s : scratch) sr, length h = n -> length k = n -> length (st s) = n ->
                ip n (fst (cycle1 [l] (s :: sr) h (vzero n))) k = Psi l h k).
      { intros h k s sr Lh Lk Ls. rewrite (cycle111_last_none l s sr h (vzero n) El).
        rewrite (post_ip n (lA l) (lpre l) (lpost l) h k) ; auto.
        - rewrite Epre by assumption. reflexivity.
        - rewrite Epre by assumption. apply LM, Lh. }
      rewrite (G f g s1' sr1 Lf Lg Lt1).
      rewrite (ip_sym n f), (G g f s2' sr2 Lg Lf Lt2).
      apply Psi_sym; assumption.
  - (* level with a coarser one below *)
    destruct Hmid as (WR & WP & NR & NP & (HcR & HcP & Htr)).
    set (n' := nrows (lA nxt)) in *.
    assert (Lz' : length (@vzero S n') = n') by apply vzero_length.
    assert (LFc : forall h, length (Fc l n' h) = n')
      by (intro h; unfold Fc; rewrite spmv_length_any; exact Lz').
    assert (G : forall (h k : vec) (s sn : scratch) sr, length h = n -> length k = n ->
              length (st s) = n -> scratch_wf (nxt :: rest') (sn :: sr) ->
              exists scr', scratch_wf (nxt :: rest') scr' /\
              ip n (fst (cycle1 (l :: nxt :: rest') (s :: sn :: sr) h (vzero n))) k =
              Psi l h k + ip n' (Fc l n' k) (fst (cycle1 (nxt :: rest') scr' (Fc l n' h) (vzero n')))).
    { intros h k s sn sr Lh Lk Ls Hsn. cbn [scratch_wf] in Hsn. destruct Hsn as [(Lsf & Lsu & Lst) Hsr].
      fold n' in Lsf, Lsu, Lst.
      rewrite cycle111_mid. cbv zeta. rewrite (Epre h (st s) Lh Ls).
      assert (Et2 : residual h (lA l) (Mv l h) (snd (lpre l h (vzero n) (st s))) = T2 l h).
      { unfold T2. fold n. apply residual_ignores_res; auto. }
      rewrite Et2.
      assert (Ef' : spmv s1 (lR l) (T2 l h) s0 (sf sn) = Fc l n' h).
      { unfold Fc. apply spmv_beta0_ignores_y; [apply zero_is_zero| |]; congruence. }
      rewrite Ef'. rewrite (vclear_vzero (su sn)), Lsu.
      set (scr' := mkScratch (Fc l n' h) (vzero n') (st sn) :: sr).
      assert (Hscr' : scratch_wf (nxt :: rest') scr').
      { unfold scr'. cbn [scratch_wf]. split; [|exact Hsr]. unfold scr_ok; cbn [sf su st]. fold n'. auto. }
      exists scr'. split; [exact Hscr'|].
      set (u' := fst (cycle1 (nxt :: rest') scr' (Fc l n' h) (vzero n'))).
      assert (Lu' : length u' = n').
      { destruct Hwf as (_ & _ & _ & Hwf').
        apply (cycle_history_indep zero_is_zero 1 1 1 (nxt :: rest') Hwf' scr' scr'); auto. }
      assert (LT2 : forall h0, length h0 = n -> length (T2 l h0) = n)
        by (intros h0 L0; unfold T2; apply residual_length; auto).
      rewrite (post_ip n (lA l) (lpre l) (lpost l) h k); auto.
      2:{ rewrite spmv_length_any. apply LM, Lh. }
      change (residual k (lA l) (opM (lpre l) n k) (vzero n)) with (T2 l k).
      change (opM (lpre l) n k) with (Mv l k).
      unfold Psi. fold n. rewrite <- (Srt.(Radd_assoc)). f_equal.
      (* <x2, T2 k> with x2 = P u' + M h *)
      rewrite (ip_lin_l n s1 (map (fun r => dotrow r u') (rows (lP l))) s1 (Mv l h)).
      2:{ intros i Hi. rewrite (spmv_spec Srt Seqb) by (auto; rewrite ?LM; congruence).
          rewrite (dotrows_get Srt) by (auto; congruence). reflexivity. }
      rewrite (ip_Ax n (lP l) u' (map (fun r => dotrow r u') (rows (lP l))))
        by (intros i Hi; apply (dotrows_get Srt); auto; congruence).
      rewrite (qA_adj (lP l) (lR l) n n' u' (T2 l k) HcP HcR)
        by (intros i j Hi Hj; symmetry; apply Htr; assumption).
      rewrite <- (ip_Ax n' (lR l) (T2 l k) (Fc l n' k) u').
      2:{ intros i Hi. unfold Fc. rewrite (spmv_spec Srt Seqb) by (auto; congruence). ring. }
      ring. }
    destruct (G f g s1' (hd d_scr sr1) (tl sr1) Lf Lg Lt1) as (scrA & HA & EA).
    { rewrite <- (proj1 (scratch_wf_cons nxt rest' sr1 Hr1)). exact Hr1. }
    destruct (G g f s2' (hd d_scr sr2) (tl sr2) Lg Lf Lt2) as (scrB & HB & EB).
    { rewrite <- (proj1 (scratch_wf_cons nxt rest' sr2 Hr2)). exact Hr2. }
    rewrite (proj1 (scratch_wf_cons nxt rest' sr1 Hr1)), EA.
    rewrite (ip_sym n f), (proj1 (scratch_wf_cons nxt rest' sr2 Hr2)), EB.
    rewrite (Psi_sym l f g WA HsA Hpre Lf Lg). f_equal.
    specialize (IH Hrest scrA scrB (Fc l n' f) (Fc l n' g) HA HB (LFc f) (LFc g)).
    cbn [top_n] in IH. fold n' in IH.
    rewrite (ip_sym n' (Fc l n' g)), IH. reflexivity.
Qed.

(* apply with pre_cycles = 1 *)
Theorem apply_sym lvls : hier_sym lvls -> lvls <> [] -> forall scr1 scr2 f g x1 x2,
  scratch_wf lvls scr1 -> scratch_wf lvls scr2 ->
  length f = top_n lvls -> length g = top_n lvls ->
  length x1 = top_n lvls -> length x2 = top_n lvls ->
  dot (fst (apply 1 1 1 1 lvls scr1 f x1)) g = dot f (fst (apply 1 1 1 1 lvls scr2 g x2)).
Proof.
  intros Hh Hne scr1 scr2 f g x1 x2 H1 H2 Lf Lg L1 L2.
  pose proof (hier_sym_wf _ Hh) as Hwf.
  unfold apply. cbn [iter fst snd]. rewrite !vclear_vzero, L1, L2.
  assert (LA : forall scr h, scratch_wf lvls scr -> length h = top_n lvls ->
               length (fst (cycle1 lvls scr h (vzero (top_n lvls)))) = top_n lvls).
  { intros scr h Hs Lh.
    apply (cycle_history_indep zero_is_zero 1 1 1 lvls Hwf scr scr); auto. apply vzero_length. }
  rewrite (dot_ip (top_n lvls)) by (auto using LA).
  rewrite (dot_ip (top_n lvls)) by (auto using LA).
  apply cycle_sym; assumption.
Qed.

(* --- instances: Jacobi and SPAI-0 (diagonal scalings of the residual) are consistent and
   self-adjoint --- *)
Lemma Ax_zero (A : crs) n i : Ax A (vzero n) i = s0.
Proof.
  unfold Ax. rewrite (sumn_ext _ (fun _ => s0)); [apply (sumn_zero Srt)|].
  intros j _. rewrite vget_vzero. ring.
Qed.

Section Diag.
Variables (w : S) (d : vec) (A : crs).
Hypothesis WA : wf A = true.
Hypothesis Ld : length d = nrows A.
Let sw : sweep := fun rhs x t => let t' := residual rhs A x t in (vmul w d t' s1 x, t').

Lemma diag_opM_get (y : vec) i : length y = nrows A -> i < nrows A ->
  vget (opM sw (nrows A) y) i = w * vget d i * vget y i.
Proof.
  intros Ly Hi. unfold opM, sw. cbn [fst].
  assert (Lz : length (@vzero S (nrows A)) = nrows A) by apply vzero_length.
  rewrite (vmul_spec Srt Seqb) by (rewrite ?residual_length; congruence).
  rewrite (residual_spec Srt) by auto. rewrite Ax_zero, vget_vzero. ring.
Qed.

Lemma diag_opM_length (y : vec) : length y = nrows A -> length (opM sw (nrows A) y) = nrows A.
Proof.
  intro Ly. unfold opM, sw. cbn [fst].
  assert (Lz : length (@vzero S (nrows A)) = nrows A) by apply vzero_length.
  rewrite vmul_length; rewrite ?residual_length; congruence.
Qed.

Lemma diag_sweep_cons : sweep_cons (nrows A) A sw.
Proof.
  intros f x t Lf Lx Lt.
  assert (Lz : length (@vzero S (nrows A)) = nrows A) by apply vzero_length.
  assert (Lr : forall t0, length t0 = nrows A -> length (residual f A x t0) = nrows A)
    by (intros; apply residual_length; assumption).
  apply (vlin_intro Srt s1 s1 _ _ _ (nrows A)).
  - exact Lx.
  - apply diag_opM_length, Lr, Lz.
  - unfold sw. cbn [fst]. rewrite vmul_length; rewrite ?Lr; congruence.
  - intros i Hi. rewrite diag_opM_get by (auto using Lr). unfold sw. cbn [fst].
    rewrite (vmul_spec Srt Seqb) by (rewrite ?Lr; congruence).
    rewrite !(residual_spec Srt) by auto. ring.
Qed.

Lemma diag_sweep_adj : sweep_adj (nrows A) sw sw.
Proof.
  intros f g Lf Lg. unfold ip. apply sumn_ext. intros i Hi.
  rewrite !diag_opM_get by assumption. ring.
Qed.
End Diag.

Theorem jacobi_sym_ok w (A : crs) (junk : vec) : wf A = true ->
  let sw := fun rhs x t => jacobi_sweep w (jacobi_setup A junk) A rhs x t in
  sweep_cons (nrows A) A sw /\ sweep_adj (nrows A) sw sw.
Proof.
  intros WA sw. split.
  - apply (diag_sweep_cons w (jacobi_setup A junk) A WA). apply diagonal_length.
  - apply (diag_sweep_adj w (jacobi_setup A junk) A WA). apply diagonal_length.
Qed.

Theorem spai0_sym_ok (A : crs) : wf A = true ->
  let sw := fun rhs x t => spai0_sweep (spai0_setup A) A rhs x t in
  sweep_cons (nrows A) A sw /\ sweep_adj (nrows A) sw sw.
Proof.
  intros WA sw.
  assert (Ld : length (spai0_setup A) = nrows A)
    by (unfold spai0_setup; rewrite map_length; apply indexed_len).
  split.
  - apply (diag_sweep_cons s1 (spai0_setup A) A WA Ld).
  - apply (diag_sweep_adj s1 (spai0_setup A) A WA Ld).
Qed.

(* --- the Galerkin operator of a symmetric matrix with R = transpose P is symmetric --- *)
Lemma galerkin_sym (A P R : crs) n n' : wf A = true -> wf R = true ->
  sym_mat n A -> transp n n' R P ->
  forall i j, i < n' -> j < n' -> mget (galerkin A P R) i j = mget (galerkin A P R) j i.
Proof.
  intros WA WR [HcA HsA] (HcR & HcP & Htr) i j Hi Hj.
  rewrite !(galerkin_dense Srt) by assumption. rewrite HcA, HcR.
  (* lhs = sum_k sum_l R_ik A_kl P_lj ; rhs = sum_k sum_l R_jk A_kl P_li *)
  rewrite (sumn_ext _ (fun k => sumn (fun l => mget R i k * (mget A k l * mget P l j)) n))
    by (intros; symmetry; apply (sumn_scal Srt)).
  rewrite (sumn_ext (fun k => mget R j k * _) (fun k => sumn (fun l => mget R j k * (mget A k l * mget P l i)) n))
    by (intros; symmetry; apply (sumn_scal Srt)).
  rewrite sumn_swap. apply sumn_ext. intros l Hl. apply sumn_ext. intros k Hk.
  rewrite (Htr i k Hi Hk), (Htr j l Hj Hl), (HsA k l Hk Hl). ring_simplify.
  rewrite <- (Htr i k Hi Hk), <- (Htr j l Hj Hl).
  rewrite (Htr i k Hi Hk). rewrite (Htr j l Hj Hl). ring.
Qed.

(* --- hierarchies produced by build + instantiate --- *)
Definition cop_sym (cop : crs -> crs -> crs -> crs) : Prop :=
  forall A P R n n', wf A = true -> wf R = true -> sym_mat n A -> transp n n' R P ->
    sym_mat n' (cop A P R).

Lemma galerkin_cop_sym : cop_sym (@galerkin S).
Proof.
  intros A P R n n' WA WR HA HT. split; [apply HT|].
  apply (galerkin_sym A P R n n'); assumption.
Qed.

Lemma scaled_galerkin_cop_sym s : cop_sym (@scaled_galerkin S s).
Proof.
  intros A P R n n' WA WR HA HT. split; [apply HT|].
  intros i j Hi Hj. unfold scaled_galerkin. rewrite !(mscale_dense Srt).
  rewrite (galerkin_sym A P R n n') by assumption. reflexivity.
Qed.

Lemma sort_rows_sym n (A : crs) : sym_mat n A -> sym_mat n (sort_rows A).
Proof. intros [Hc Hs]. split; [exact Hc|]. intros i j Hi Hj. rewrite !(sort_rows_dense Srt). auto. Qed.

Lemma sort_rows_transp n n' (R P : crs) : transp n n' R P -> transp n n' (sort_rows R) (sort_rows P).
Proof.
  intros (H1 & H2 & H3). split; [exact H1|]. split; [exact H2|].
  intros i j Hi Hj. rewrite !(sort_rows_dense Srt). auto.
Qed.

Section Inst.
Variable mk_relax : crs -> sweep * sweep.
Variable mk_solve : crs -> vec -> vec -> vec.
Hypothesis relax_ok : forall A, sweep_ok (nrows A) (fst (mk_relax A)) /\ sweep_ok (nrows A) (snd (mk_relax A)).
(* side condition on the level matrices under which the smoother is consistent / adjoint *)
Variable good : crs -> Prop.
Hypothesis relax_sym : forall A, wf A = true -> sym_mat (nrows A) A -> good A ->
  sweep_cons (nrows A) A (fst (mk_relax A)) /\
  sweep_cons (nrows A) A (snd (mk_relax A)) /\ sweep_adj (nrows A) (fst (mk_relax A)) (snd (mk_relax A)).
Hypothesis solve_ok_all : forall A, solve_ok (nrows A) (mk_solve A).
Local Notation inst := (instantiate mk_relax mk_solve).
Local Notation ldesc := (@ldesc S).

Lemma id_sweep_cons n (A : crs) : sweep_cons n A (fun (_ x t : vec) => (x, t)).
Proof.
  intros f x t Lf Lx Lt. cbn [fst]. unfold opM. cbn [fst].
  apply (vlin_intro Srt s1 s1 _ _ _ n); auto using vzero_length.
  intros i Hi. rewrite vget_vzero. ring.
Qed.

Lemma id_sweep_adj n : sweep_adj n (fun (_ x t : vec) => (x, t)) (fun (_ x t : vec) => (x, t)).
Proof.
  intros f g Lf Lg. unfold opM, ip. cbn [fst]. apply sumn_ext. intros i Hi.
  rewrite !vget_vzero. ring.
Qed.

Lemma inst_sym_common (l : ldesc) :
  wf (ld_A l) = true -> sym_mat (nrows (ld_A l)) (ld_A l) -> good (ld_A l) ->
  sweep_cons (nrows (ld_A l)) (ld_A l) (lpre (inst l)) /\
  sweep_cons (nrows (ld_A l)) (ld_A l) (lpost (inst l)) /\
  sweep_adj (nrows (ld_A l)) (lpre (inst l)) (lpost (inst l)).
Proof.
  destruct l as [A P R|A|A]; cbn [instantiate lpre lpost ld_A]; try apply relax_sym.
  intros _ _ _. split; [apply id_sweep_cons|]. split; [apply id_sweep_cons|apply id_sweep_adj].
Qed.

(* transfer-operator lists with R = transpose P that fit a fine matrix with n rows *)
Fixpoint ts_sym (n : nat) (ts : list (option (crs * crs))) : Prop :=
  match ts with
  | Some (P, R) :: ts' => wf P = true /\ wf R = true /\ nrows P = n /\
                          transp n (nrows R) R P /\ ts_sym (nrows R) ts'
  | _ => True
  end.

Theorem build_hier_sym ce dc ml cop : coarse_shape cop -> cop_wf cop -> cop_sym cop ->
  forall ts A nlev, wf A = true -> sym_mat (nrows A) A -> ts_sym (nrows A) ts ->
  (forall A', In (LSolve A') (build ce dc ml cop ts A nlev) -> solve_sym (nrows A') (mk_solve A')) ->
  (forall l, In l (build ce dc ml cop ts A nlev) -> good (ld_A l)) ->
  hier_sym (map inst (build ce dc ml cop ts A nlev)) /\ hier_symk (map inst (build ce dc ml cop ts A nlev)).
Proof.
  intros Hshape Hcw Hcs ts. induction ts as [|t ts' IH]; intros A nlev WA SA Hts Hsol Hgood.
  - (* no transfer operators left: a single last level *)
    rewrite build_unfold in *.
    assert (G : forall l, ld_A l = A -> is_mid l = false ->
                (forall A', In (LSolve A') [l] -> solve_sym (nrows A') (mk_solve A')) ->
                (forall l', In l' [l] -> good (ld_A l')) ->
                hier_sym (map inst [l]) /\ hier_symk (map inst [l])).
    { intros l EA Hm Hs Hg. cbn [map hier_sym hier_symk]. rewrite (inst_lA mk_relax mk_solve), EA.
      pose proof (inst_sweeps_ok mk_relax mk_solve relax_ok l) as Hok. rewrite EA in Hok.
      pose proof (inst_sym_common l) as Hsy. rewrite EA in Hsy.
      assert (Hgl : good A) by (rewrite <- EA; apply Hg; left; reflexivity).
      destruct (Hsy WA SA Hgl) as (Hs1 & Hs2 & Hs3). destruct Hok as [Ho1 Ho2].
      split; [|split; [exact Hs1|exact I]].
      split; [exact Ho1|]. split; [exact Ho2|]. split; [exact WA|]. split; [exact SA|].
      split; [exact Hs2|]. split; [exact Hs3|]. split; [|exact I].
      intros sv H. destruct l as [A0 P0 R0|A0|A0]; cbn in H; try discriminate.
      simpl in EA. subst A0. inversion H. split; [apply solve_ok_all|apply Hs; left; reflexivity]. }
    destruct (Nat.leb (nrows A) ce); [destruct dc; apply G; auto|].
    destruct (Nat.leb ml (Datatypes.S nlev)); apply G; auto.
  - rewrite build_unfold in *.
    assert (G : forall l, ld_A l = A -> is_mid l = false ->
                (forall A', In (LSolve A') [l] -> solve_sym (nrows A') (mk_solve A')) ->
                (forall l', In l' [l] -> good (ld_A l')) ->
                hier_sym (map inst [l]) /\ hier_symk (map inst [l])).
    { intros l EA Hm Hs Hg. cbn [map hier_sym hier_symk]. rewrite (inst_lA mk_relax mk_solve), EA.
      pose proof (inst_sweeps_ok mk_relax mk_solve relax_ok l) as Hok. rewrite EA in Hok.
      pose proof (inst_sym_common l) as Hsy. rewrite EA in Hsy.
      assert (Hgl : good A) by (rewrite <- EA; apply Hg; left; reflexivity).
      destruct (Hsy WA SA Hgl) as (Hs1 & Hs2 & Hs3). destruct Hok as [Ho1 Ho2].
      split; [|split; [exact Hs1|exact I]].
      split; [exact Ho1|]. split; [exact Ho2|]. split; [exact WA|]. split; [exact SA|].
      split; [exact Hs2|]. split; [exact Hs3|]. split; [|exact I].
      intros sv H. destruct l as [A0 P0 R0|A0|A0]; cbn in H; try discriminate.
      simpl in EA. subst A0. inversion H. split; [apply solve_ok_all|apply Hs; left; reflexivity]. }
    destruct (Nat.leb (nrows A) ce); [destruct dc; apply G; auto|].
    destruct (Nat.leb ml (Datatypes.S nlev)); [apply G; auto|].
    destruct t as [[P R]|]; [|apply G; auto].
    simpl in Hts. destruct Hts as (WP & WR & NP & HT & Hts').
    set (P' := sort_rows P) in *. set (R' := sort_rows R) in *.
    set (A2 := sort_rows (cop A P' R')) in *.
    assert (WP' : wf P' = true) by apply sort_rows_wf, WP.
    assert (WR' : wf R' = true) by apply sort_rows_wf, WR.
    assert (NR' : nrows R' = nrows R) by apply sort_rows_nrows.
    assert (HT' : transp (nrows A) (nrows R) R' P') by apply sort_rows_transp, HT.
    assert (N2 : nrows A2 = nrows R) by (unfold A2; rewrite sort_rows_nrows, Hshape; exact NR').
    assert (W2 : wf A2 = true) by (apply sort_rows_wf, Hcw, WP').
    assert (S2 : sym_mat (nrows A2) A2).
    { rewrite N2. apply sort_rows_sym. apply (Hcs A P' R' (nrows A) (nrows R)); assumption. }
    specialize (IH A2 (Datatypes.S nlev) W2 S2).
    rewrite N2 in IH. specialize (IH Hts').
    assert (Hsol' : forall A', In (LSolve A') (build ce dc ml cop ts' A2 (Datatypes.S nlev)) ->
                     solve_sym (nrows A') (mk_solve A'))
      by (intros A' HA'; apply Hsol; right; exact HA').
    assert (Hgood' : forall l', In l' (build ce dc ml cop ts' A2 (Datatypes.S nlev)) -> good (ld_A l'))
      by (intros l' Hl'; apply Hgood; right; exact Hl').
    specialize (IH Hsol' Hgood'). destruct IH as [IH1 IH2].
    assert (HgA : good A) by (apply (Hgood (LMid A P' R')); left; reflexivity).
    pose proof (build_head ce dc ml cop ts' A2 (Datatypes.S nlev)) as Hhd.
    destruct (build ce dc ml cop ts' A2 (Datatypes.S nlev)) as [|nxt tl]; [destruct Hhd|].
    simpl in Hhd.
    cbn [map] in *.
    destruct (relax_ok A) as [Ho1 Ho2]. destruct (relax_sym A WA SA HgA) as (Hc0 & Hc1 & Hc2).
    split.
    + apply hier_sym_mid; cbn [instantiate lA lR lP lpre lpost];
        rewrite ?(inst_lA mk_relax mk_solve), ?Hhd, ?N2; try assumption.
      unfold P'. rewrite sort_rows_nrows. exact NP.
    + cbn [hier_symk instantiate lA lpre]. split; [exact Hc0|exact IH2].
Qed.

End Inst.

(* --- closed form for the modelled smoothers --- *)
Definition sym_kind (k : @relax_kind S) : Prop := match k with RGS => False | _ => True end.

Theorem mk_relax_std_sym (k : @relax_kind S) : sym_kind k -> forall A : crs, wf A = true ->
  sweep_cons (nrows A) A (fst (mk_relax_std k A)) /\
  sweep_cons (nrows A) A (snd (mk_relax_std k A)) /\
  sweep_adj (nrows A) (fst (mk_relax_std k A)) (snd (mk_relax_std k A)).
Proof.
  intros Hk A WA. destruct k as [w| |]; cbn [mk_relax_std fst snd]; [| |destruct Hk].
  - destruct (jacobi_sym_ok w A (vzero (nrows A)) WA) as [H1 H2]. auto.
  - destruct (spai0_sym_ok A WA) as [H1 H2]. auto.
Qed.

Lemma build_no_solve ce ml cop ts : forall (A : crs) nlev A',
  ~ In (LSolve A') (build ce false ml cop ts A nlev).
Proof.
  induction ts as [|t ts' IH]; intros A nlev A'; rewrite build_unfold.
  - destruct (Nat.leb (nrows A) ce); [simpl; intros [H|[]]; discriminate|].
    destruct (Nat.leb ml (Datatypes.S nlev)); simpl; intros [H|[]]; discriminate.
  - destruct (Nat.leb (nrows A) ce); [simpl; intros [H|[]]; discriminate|].
    destruct (Nat.leb ml (Datatypes.S nlev)); [simpl; intros [H|[]]; discriminate|].
    destruct t as [[P R]|]; [|simpl; intros [H|[]]; discriminate].
    intros [H|H]; [discriminate|]. apply (IH _ _ _ H).
Qed.

Lemma coarse_op_of_sym (sc : option S) : cop_sym (coarse_op_of sc).
Proof. destruct sc as [s|]; [apply scaled_galerkin_cop_sym|apply galerkin_cop_sym]. Qed.

Theorem std_levels_sym k ce dc ml sc ts (M : crs) : sym_kind k ->
  wf M = true -> sym_mat (nrows M) M -> ts_sym (nrows M) ts ->
  (forall A, In (LSolve A) (amg_init ce dc ml (coarse_op_of sc) ts M) ->
             solve_sym (nrows A) (mk_solve_exact A)) ->
  hier_sym (std_levels k (amg_init ce dc ml (coarse_op_of sc) ts M)) /\
  hier_symk (std_levels k (amg_init ce dc ml (coarse_op_of sc) ts M)).
Proof.
  intros Hk WM SM Hts Hsol. unfold std_levels, amg_init.
  apply (build_hier_sym (mk_relax_std k) mk_solve_exact (mk_relax_std_ok k) (fun _ => True)
           (fun A WA _ _ => mk_relax_std_sym k Hk A WA)
           mk_solve_exact_ok ce dc ml (coarse_op_of sc)
           (coarse_op_of_shape sc)); [| | | | |exact Hsol|auto].
  - destruct sc as [s|]; [apply (scaled_galerkin_cop_wf s)|apply galerkin_cop_wf].
  - apply coarse_op_of_sym.
  - apply sort_rows_wf, WM.
  - rewrite sort_rows_nrows. apply sort_rows_sym, SM.
  - rewrite sort_rows_nrows. exact Hts.
Qed.

Theorem built_apply_sym k ce dc ml sc ts (M : crs) : sym_kind k ->
  wf M = true -> sym_mat (nrows M) M -> ts_sym (nrows M) ts ->
  (forall A, In (LSolve A) (amg_init ce dc ml (coarse_op_of sc) ts M) ->
             solve_sym (nrows A) (mk_solve_exact A)) ->
  let lvls := std_levels k (amg_init ce dc ml (coarse_op_of sc) ts M) in
  forall scr1 scr2 f g x1 x2,
  scratch_wf lvls scr1 -> scratch_wf lvls scr2 ->
  length f = nrows M -> length g = nrows M -> length x1 = nrows M -> length x2 = nrows M ->
  dot (fst (apply 1 1 1 1 lvls scr1 f x1)) g = dot f (fst (apply 1 1 1 1 lvls scr2 g x2)).
Proof.
  intros Hk WM SM Hts Hsol lvls scr1 scr2 f g x1 x2 H1 H2 Lf Lg L1 L2.
  pose proof (proj1 (std_levels_sym k ce dc ml sc ts M Hk WM SM Hts Hsol)) as Hsym.
  destruct (amg_init_chain ce dc ml (coarse_op_of sc) ts M) as [Hc Hh].
  destruct (std_levels_wf k _ _ (coarse_op_of_shape sc) Hc) as (_ & Hne & _).
  assert (En : top_n lvls = nrows M).
  { unfold lvls, std_levels. rewrite (top_n_inst _ _ _ _ Hh). apply sort_rows_nrows. }
  apply (apply_sym lvls Hsym Hne); congruence.
Qed.

(* with direct_coarse = false no assumption on the coarse solver is left *)
Theorem built_apply_sym_smoother_coarse k ce ml sc ts (M : crs) : sym_kind k ->
  wf M = true -> sym_mat (nrows M) M -> ts_sym (nrows M) ts ->
  let lvls := std_levels k (amg_init ce false ml (coarse_op_of sc) ts M) in
  forall scr1 scr2 f g x1 x2,
  scratch_wf lvls scr1 -> scratch_wf lvls scr2 ->
  length f = nrows M -> length g = nrows M -> length x1 = nrows M -> length x2 = nrows M ->
  dot (fst (apply 1 1 1 1 lvls scr1 f x1)) g = dot f (fst (apply 1 1 1 1 lvls scr2 g x2)).
Proof.
  intros Hk WM SM Hts. apply built_apply_sym; try assumption.
  intros A HA. exfalso. unfold amg_init in HA. apply (build_no_solve _ _ _ _ _ _ _ HA).
Qed.

End A3.
