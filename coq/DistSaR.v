(* DistSaR.v -- C11/C12: the restriction of the distributed smoothed aggregation is the transpose of its prolongation.
   C11's transpose theorem (DistProofsT.dist_transpose_assembled_perm) speaks about matrices of the form [split M rp cp];
   the prolongation of the C12 model is a [dist_product], which is not syntactically a split.  Here:
     split_assemble                   : a well-shaped distributed matrix IS the split of its assembly (law-free);
     dist_product_is_split            : every dist_product of two splits is well-shaped, hence a split (law-free);
     dist_transpose_of_product_perm   : assemble (dist_transpose P) is, row by row, a Permutation of transpose (assemble P);
     dist_sa_smooth_restriction / dist_sa_restriction_is_transpose (commutative ring): R = dist_transpose P of
       DistSa.dist_sa_transfer assembles to transpose (assemble P), row-wise permutation and entry by entry (mget);
     dist_sa_restriction_storage_order_differs (Qc): the storage order really differs (owner's block first). *)
From Coq Require Import Permutation ZifyBool.
From Amgcl Require Import Scalar Vec Crs Kernels KernelsProofs MatOps MatOpsProofs Dist DistProofs DistProofsP DistProofsT
  Pmis PmisProofs PmisPartition DistSa DistSaPtent DistSaProofs NcRing DistBlockT QcInst.
Local Open Scope nat_scope.

Section ListAux.
Context {X : Type}.

Lemma sar_chunks_of_concat (Ls : list (list X)) : chunks (map (@length X) Ls) (concat Ls) = Ls.
Proof.
  induction Ls as [|L Ls IH]; simpl; [reflexivity|].
  rewrite firstn_length_app, skipn_length_app. f_equal. exact IH.
Qed.

Lemma sar_length_concat (Ls : list (list X)) : length (concat Ls) = psum (map (@length X) Ls).
Proof. induction Ls as [|L Ls IH]; simpl; [reflexivity|]. rewrite app_length, IH. reflexivity. Qed.

Lemma sar_chunk_length (parts : list nat) (l : list X) r : r < length parts -> psum parts = length l ->
  length (nth r (chunks parts l) []) = psize parts r.
Proof.
  intros Hr Hl. rewrite nth_chunks by exact Hr. rewrite firstn_length, skipn_length.
  pose proof (pbeg_le_psum parts r). unfold psize. lia.
Qed.
End ListAux.

Section SaR.
Context {S : Scalar}.
Local Notation row := (row S).
Local Notation crs := (crs S).

Local Notation shift b := (fun e : nat * S => (fst e + b, snd e)).

(* ---- one row: splitting a strip row gives back its two halves ---- *)
Lemma loc_row_strip b p (l rm : row) :
  (forall e, In e l -> fst e < p) -> (forall e, In e rm -> in_range b p (fst e) = false) ->
  loc_row b p (map (shift b) l ++ rm) = l.
Proof.
  intros Hl Hr. induction l as [|a l IH].
  - simpl. unfold loc_row. rewrite filter_none; [reflexivity|]. intros x Hx. apply Hr. exact Hx.
  - unfold loc_row in *. simpl.
    assert (E : in_range b p (fst a + b) = true).
    { specialize (Hl a (or_introl eq_refl)). unfold in_range. lia. }
    rewrite E. simpl. f_equal.
    + destruct a as [c v]. simpl. f_equal. lia.
    + apply IH. intros e He. apply Hl. right. exact He.
Qed.

Lemma rem_row_strip b p (l rm : row) :
  (forall e, In e l -> fst e < p) -> (forall e, In e rm -> in_range b p (fst e) = false) ->
  rem_row b p (map (shift b) l ++ rm) = rm.
Proof.
  intros Hl Hr. induction l as [|a l IH].
  - simpl. unfold rem_row. apply filter_all. intros x Hx. rewrite (Hr x Hx). reflexivity.
  - unfold rem_row in *. simpl.
    assert (E : in_range b p (fst a + b) = true).
    { specialize (Hl a (or_introl eq_refl)). unfold in_range. lia. }
    rewrite E. simpl. apply IH. intros e He. apply Hl. right. exact He.
Qed.

Lemma split_rows_strip b p (Ll Lr : list row) :
  length Ll = length Lr ->
  (forall rw e, In rw Ll -> In e rw -> fst e < p) ->
  (forall rw e, In rw Lr -> In e rw -> in_range b p (fst e) = false) ->
  map (loc_row b p) (map2 (fun l r => map (shift b) l ++ r) Ll Lr) = Ll /\
  map (rem_row b p) (map2 (fun l r => map (shift b) l ++ r) Ll Lr) = Lr.
Proof.
  revert Lr. induction Ll as [|l Ll IH]; intros [|r Lr] Hlen H1 H2; simpl in *; try lia; [split; reflexivity|].
  destruct (IH Lr) as [E1 E2]; [lia | intros; eapply H1; eauto | intros; eapply H2; eauto |].
  rewrite E1, E2. split; f_equal.
  - apply loc_row_strip; intros; [eapply H1 | eapply H2]; eauto.
  - apply rem_row_strip; intros; [eapply H1 | eapply H2]; eauto.
Qed.

(* ---- the shape of a distributed matrix whose strips have the lengths [rp] ---- *)
Definition dshape (D : dmat S) (rp : list nat) : Prop :=
  let cp := dm_cparts D in
  length rp = length cp /\ length (dm_ranks D) = length cp /\
  forall r, r < length cp -> let M := nth r (dm_ranks D) dflt_rank in
    ncols (rm_loc M) = psize cp r /\ ncols (rm_rem M) = psum cp /\
    length (rows (rm_loc M)) = psize rp r /\ length (rows (rm_rem M)) = psize rp r /\
    (forall rw e, In rw (rows (rm_loc M)) -> In e rw -> fst e < psize cp r) /\
    (forall rw e, In rw (rows (rm_rem M)) -> In e rw -> in_range (pbeg cp r) (psize cp r) (fst e) = false).

Lemma strips_lengths (D : dmat S) (rp : list nat) : dshape D rp -> map (@length row) (strips D) = rp.
Proof.
  intros [H1 [H2 H3]]. unfold strips. rewrite map_map.
  transitivity (map (fun i => nth i rp 0) (seq 0 (length rp))); [|apply map_nth_seq]. rewrite H1.
  apply map_ext_in. intros r Hr. apply in_seq in Hr. destruct Hr as [_ Hr]. simpl in Hr.
  destruct (H3 r Hr) as [_ [_ [L1 [L2 _]]]]. unfold strip_rows.
  rewrite map2_length by (etransitivity; [exact L1 | symmetry; exact L2]). exact L1.
Qed.

Lemma nrows_assemble (D : dmat S) (rp : list nat) : dshape D rp -> nrows (assemble D) = psum rp.
Proof.
  intro H. unfold nrows, assemble. cbn [rows]. rewrite sar_length_concat, (strips_lengths D rp H). reflexivity.
Qed.

Lemma split_assemble_shape (D : dmat S) (rp : list nat) : dshape D rp -> split (assemble D) rp (dm_cparts D) = D.
Proof.
  intro H. pose proof (strips_lengths D rp H) as HL. destruct H as [H1 [H2 H3]].
  destruct D as [cp ranks]. cbn [dm_cparts dm_ranks] in *.
  unfold split. f_equal.
  transitivity (map (fun i => nth i ranks dflt_rank) (seq 0 (length ranks))); [|apply map_nth_seq]. rewrite H2.
  apply map_ext_in. intros r Hr. apply in_seq in Hr. destruct Hr as [_ Hr]. simpl in Hr.
  unfold split_rank. unfold assemble at 2. cbn [rows dm_cparts].
  rewrite <- HL at 1. rewrite sar_chunks_of_concat.
  unfold strips. cbn [dm_cparts dm_ranks]. rewrite (nth_map_seq _ (length cp) r []) by exact Hr.
  destruct (H3 r Hr) as [C1 [C2 [L1 [L2 [E1 E2]]]]].
  destruct (nth r ranks dflt_rank) as [[nl Ll] [nr Lr]]. cbn [rm_loc rm_rem rows ncols] in *.
  unfold split_rows, strip_rows. cbn [rm_loc rm_rem rows ncols].
  destruct (split_rows_strip (pbeg cp r) (psize cp r) Ll Lr) as [G1 G2]; [etransitivity; [exact L1 | symmetry; exact L2] | exact E1 | exact E2 |].
  rewrite G1, G2, C1, C2. reflexivity.
Qed.

(* statement 1 *)
Lemma split_assemble (D : dmat S) (rp : list nat) : let cp := dm_cparts D in
  length rp = length cp -> length (dm_ranks D) = length cp ->
  (forall r, r < length cp -> let M := nth r (dm_ranks D) dflt_rank in
     ncols (rm_loc M) = psize cp r /\ ncols (rm_rem M) = psum cp /\
     length (rows (rm_loc M)) = psize rp r /\ length (rows (rm_rem M)) = psize rp r /\
     (forall rw e, In rw (rows (rm_loc M)) -> In e rw -> fst e < psize cp r) /\
     (forall rw e, In rw (rows (rm_rem M)) -> In e rw -> in_range (pbeg cp r) (psize cp r) (fst e) = false)) ->
  split (assemble D) rp cp = D.
Proof.
  intros cp H1 H2 H3. apply split_assemble_shape. unfold dshape. fold cp. split; [exact H1|]. split; [exact H2|]. exact H3.
Qed.

(* ---- statement 2: the marker accumulation only creates columns that occur among the events ---- *)
Lemma accumulate_cols_acc (evs acc : row) x :
  In x (map fst (fold_left (fun a e => row_add a (fst e) (snd e)) evs acc)) -> In x (map fst acc) \/ In x (map fst evs).
Proof.
  revert acc. induction evs as [|e evs IH]; intros acc H; simpl in *; [left; exact H|].
  destruct (IH _ H) as [H'|H']; [|right; right; exact H'].
  apply In_row_add in H'. destruct H' as [H'|H']; [left; exact H' | right; left; symmetry; exact H'].
Qed.

Lemma accumulate_cols (evs : row) e : In e (accumulate evs) -> exists e', In e' evs /\ fst e' = fst e.
Proof.
  intro H. unfold accumulate in H.
  destruct (accumulate_cols_acc evs [] (fst e) (in_map fst _ _ H)) as [H'|H']; [destruct H'|].
  apply in_map_iff in H'. destruct H' as [e' [E He']]. exists e'. split; assumption.
Qed.

(* ---- statement 3 ---- *)
Lemma dist_product_shape (A B : crs) (rpA cpA cpB : list nat) :
  length rpA = length cpA -> length cpA = length cpB -> psum rpA = nrows A ->
  dshape (dist_product (split A rpA cpA) (split B cpA cpB)) rpA.
Proof.
  intros HlenA HlenB HrowsA. unfold dshape. cbn [dist_product dm_cparts dm_ranks split].
  split; [lia|]. split; [rewrite map_length, seq_length; exact HlenB|].
  intros r Hr. rewrite <- HlenB in Hr.
  rewrite (nth_map_seq _ (length cpA) r dflt_rank) by exact Hr. cbv zeta. cbn [rm_loc rm_rem ncols rows].
  rewrite (nth_map_seq (split_rank A rpA cpA) (length cpA) r dflt_rank) by exact Hr.
  assert (HL : length (strip_rows (pbeg cpA r) (split_rank A rpA cpA r)) = psize rpA r).
  { unfold split_rank, split_rows, strip_rows. cbn [rm_loc rm_rem rows]. rewrite map2_map_map, map_length.
    apply sar_chunk_length; [lia | exact HrowsA]. }
  split; [reflexivity|]. split; [reflexivity|]. rewrite !map_length.
  split; [exact HL|]. split; [exact HL|]. split.
  - intros rw e Hrw He. apply in_map_iff in Hrw. destruct Hrw as [ra [<- _]].
    apply accumulate_cols in He. destruct He as [e' [He' <-]].
    unfold loc_row in He'. apply in_map_iff in He'. destruct He' as [x [<- Hx]].
    apply filter_In in Hx. destruct Hx as [_ Hx]. simpl. unfold in_range in Hx. lia.
  - intros rw e Hrw He. apply in_map_iff in Hrw. destruct Hrw as [ra [<- _]].
    apply accumulate_cols in He. destruct He as [e' [He' <-]].
    unfold rem_row in He'. apply filter_In in He'. destruct He' as [_ Hx].
    apply Bool.negb_true_iff in Hx. exact Hx.
Qed.

Theorem dist_product_is_split (A B : crs) (rpA cpA cpB : list nat) :
  length rpA = length cpA -> length cpA = length cpB -> psum rpA = nrows A ->
  let P := dist_product (split A rpA cpA) (split B cpA cpB) in
  split (assemble P) rpA cpB = P.
Proof.
  intros H1 H2 H3 P.
  exact (split_assemble_shape P rpA (dist_product_shape A B rpA cpA cpB H1 H2 H3)).
Qed.

(* ---- statement 4 ---- *)
Theorem dist_transpose_of_product_perm (A B : crs) (rpA cpA cpB : list nat) :
  length rpA = length cpA -> length cpA = length cpB -> psum rpA = nrows A ->
  let P := dist_product (split A rpA cpA) (split B cpA cpB) in
  let T := assemble (dist_transpose P rpA) in
  ncols T = nrows A /\ nrows (assemble P) = nrows A /\ ncols (assemble P) = psum cpB /\
  forall j, j < psum cpB -> Permutation (nth j (rows T) []) (nth j (rows (transpose (assemble P))) []).
Proof.
  intros H1 H2 H3 P T.
  pose proof (dist_product_shape A B rpA cpA cpB H1 H2 H3) as Hsh. fold P in Hsh.
  pose proof (nrows_assemble P rpA Hsh) as Hn.
  pose proof (split_assemble_shape P rpA Hsh) as Hsp. change (dm_cparts P) with cpB in Hsp.
  assert (Hc : ncols (assemble P) = psum cpB) by reflexivity.
  destruct (dist_transpose_assembled_perm (assemble P) rpA cpB) as [G1 G2]; [lia | lia | reflexivity |].
  rewrite Hsp in G1, G2. fold T in G1, G2.
  split; [lia|]. split; [lia|]. split; [exact Hc|].
  intros j Hj. apply G2. rewrite Hc. exact Hj.
Qed.

(* ---- statement 5 ---- *)
Section Ring.
Hypothesis Srt : Sring S.

Lemma nrows_sa_glob_filtered omega (A : crs) str : nrows (sa_glob_filtered omega A str) = nrows A.
Proof. unfold sa_glob_filtered, nrows, indexed. cbn [rows]. rewrite map_length, combine_length, seq_length. lia. Qed.

Theorem dist_sa_smooth_restriction (junk eps2 omega : S) (A Pt : crs) (parts cparts : list nat) :
  psum parts = nrows A -> ncols A = nrows A -> wf A = true -> length parts = length cparts -> psum parts = nrows Pt ->
  let P := dist_sa_smooth junk eps2 omega (split A parts parts) (split Pt parts cparts) in
  let R := dist_transpose P parts in
  ncols (assemble R) = nrows A /\ nrows (assemble P) = nrows A /\ ncols (assemble P) = psum cparts /\
  (forall j, j < psum cparts -> Permutation (nth j (rows (assemble R)) []) (nth j (rows (transpose (assemble P))) [])) /\
  (forall i j, j < psum cparts -> mget (assemble R) j i = mget (transpose (assemble P)) j i).
Proof.
  intros Hrows Hsq Hwf Hlen HPt.
  unfold dist_sa_smooth.
  rewrite (dist_sa_filtered_split Srt A parts Hrows Hsq Hwf junk eps2 omega).
  set (Af := sa_glob_filtered omega A (strong_entry junk A eps2)).
  set (P := dist_product (split Af parts parts) (split Pt parts cparts)).
  set (R := dist_transpose P parts).
  destruct (dist_transpose_of_product_perm Af Pt parts parts cparts eq_refl Hlen) as [G1 [G2 [G3 G4]]].
  { unfold Af. rewrite nrows_sa_glob_filtered. exact Hrows. }
  fold P in G1, G2, G3, G4. fold R in G1, G4.
  unfold Af in G1, G2. rewrite nrows_sa_glob_filtered in G1, G2.
  split; [exact G1|]. split; [exact G2|]. split; [exact G3|]. split; [exact G4|].
  intros i j Hj. unfold mget. apply (nc_rget_perm (ncring_of_ring S Srt)). apply G4. exact Hj.
Qed.

Theorem dist_sa_restriction_is_transpose (junk eps2 omega : S) (A : crs) (parts : list nat) :
  psum parts = nrows A -> ncols A = nrows A -> wf A = true ->
  (forall i, i < psum parts -> In i (grow (conn junk A eps2) i)) ->
  exists w Pt P R, pmis parts (conn junk A eps2) = Some w /\ dist_sa_transfer junk eps2 omega A parts = Some (Pt, P, R) /\
    ncols (assemble R) = nrows A /\ nrows (assemble P) = nrows A /\ ncols (assemble P) = psum (w_na w) /\
    (forall j, j < psum (w_na w) -> Permutation (nth j (rows (assemble R)) []) (nth j (rows (transpose (assemble P))) [])) /\
    (forall i j, j < psum (w_na w) -> mget (assemble R) j i = mget (transpose (assemble P)) j i).
Proof.
  intros Hrows Hsq Hwf Hdiag.
  destruct (pmis_partition parts (conn junk A eps2) Hdiag) as [w [Hw [Hvalid _]]].
  destruct (pmis_columns_partition parts (conn junk A eps2) Hdiag) as [cols [nas [Hc [_ [Hnas _]]]]].
  unfold pmis_columns in Hc. rewrite Hw in Hc. injection Hc as _ Hn. subst nas.
  pose proof (dist_ptent_is_split S parts w Hnas Hvalid) as HPt.
  exists w, (dist_ptent parts w),
         (dist_sa_smooth junk eps2 omega (split A parts parts) (dist_ptent parts w)),
         (dist_transpose (dist_sa_smooth junk eps2 omega (split A parts parts) (dist_ptent parts w)) parts).
  split; [exact Hw|]. split; [unfold dist_sa_transfer; rewrite Hw; reflexivity|].
  rewrite HPt.
  apply (dist_sa_smooth_restriction junk eps2 omega A _ parts (w_na w) Hrows Hsq Hwf).
  - symmetry; exact Hnas.
  - unfold PmisOracle.ptent_of, nrows. cbn [rows]. rewrite !map_length, seq_length. reflexivity.
Qed.
End Ring.

End SaR.

(* ---- statement 6: the storage order is NOT that of the serial transpose (mpi::transpose puts the block of the rank that
   owns the column first); path 0-1-2-3, diagonal 4, off-diagonals -2, eps_strong = 1/4, omega = 1/2, ranks [2;0;2]:
   one aggregate, owned by rank 2, so row 0 of R lists the columns 2,3 (own block) before 0,1 ---- *)
Definition sar_ex_A : crs QcS :=
  mkCrs 4 [[(0, qc 4 1); (1, qc (-2) 1)]; [(0, qc (-2) 1); (1, qc 4 1); (2, qc (-2) 1)];
           [(1, qc (-2) 1); (2, qc 4 1); (3, qc (-2) 1)]; [(2, qc (-2) 1); (3, qc 4 1)]].

Example dist_sa_restriction_storage_order_differs :
  let parts := [2; 0; 2] in let eps2 := qc 1 16 in let omega := qc 1 2 in let junk := qc 0 1 in
  exists Pt P R,
    dist_sa_transfer junk eps2 omega sar_ex_A parts = Some (Pt, P, R) /\
    nrows (assemble R) = 1 /\
    (forall j, j < 1 -> Permutation (nth j (rows (assemble R)) []) (nth j (rows (transpose (assemble P))) [])) /\
    map (map fst) (rows (assemble R)) = [[2; 3; 0; 1]] /\
    map (map fst) (rows (transpose (assemble P))) = [[0; 1; 2; 3]] /\
    rows (assemble R) <> rows (transpose (assemble P)).
Proof.
  intros parts eps2 omega junk.
  destruct (dist_sa_restriction_is_transpose QcS_ring junk eps2 omega sar_ex_A parts)
    as [w [Pt [P [R [Hw [Ht [_ [_ [_ [Hperm _]]]]]]]]]]; try reflexivity.
  { intros i Hi. apply PmisPartition.memb_In.
    assert (Hi' : i < 4) by exact Hi.
    destruct i as [|[|[|[|i]]]]; [vm_compute; reflexivity .. | lia]. }
  assert (Hna : psum (w_na w) = 1).
  { assert (E : match pmis parts (conn junk sar_ex_A eps2) with Some w' => psum (w_na w') | None => 0 end = 1)
      by (vm_compute; reflexivity).
    rewrite Hw in E. exact E. }
  rewrite Hna in Hperm.
  exists Pt, P, R. split; [exact Ht|].
  assert (E1 : map (map fst) (rows (assemble R)) = [[2; 3; 0; 1]]).
  { assert (E : match dist_sa_transfer junk eps2 omega sar_ex_A parts with
                 | Some (_, _, R') => map (map fst) (rows (assemble R')) | None => [] end = [[2; 3; 0; 1]])
      by (vm_compute; reflexivity).
    rewrite Ht in E. exact E. }
  assert (E2 : map (map fst) (rows (transpose (assemble P))) = [[0; 1; 2; 3]]).
  { assert (E : match dist_sa_transfer junk eps2 omega sar_ex_A parts with
                 | Some (_, P', _) => map (map fst) (rows (transpose (assemble P'))) | None => [] end = [[0; 1; 2; 3]])
      by (vm_compute; reflexivity).
    rewrite Ht in E. exact E. }
  split; [|split; [exact Hperm|]].
  - apply (f_equal (@length _)) in E1. rewrite map_length in E1. exact E1.
  - split; [exact E1|]. split; [exact E2|].
    intro H. rewrite H, E2 in E1. discriminate E1.
Qed.
