(* Properties_C17.v -- C17: matrix adapters preserve the operator; input row order does
   not matter.  Statements only; proofs: AdaptersProofs.v, AdaptersProofs2.v, AdaptersProofs3.v, AdaptersProofs4.v.
   "any S": for every Scalar record (hence floats); "ring": every commutative ring. *)
From Coq Require Import Permutation.
From Amgcl Require Import Scalar QcInst Vec Crs Kernels KernelsProofs MatOps Adapters AdaptersProofs AdaptersProofs2.
From Amgcl Require Import Relax Ilu Amg AdaptersProofs3 AdaptersProofs4 Own.
Local Open Scope S_scope.

(* --- A1: adapters are views (any S) --- *)
(* the generic row-iterator copy constructor reproduces what the adapter exposes *)
Theorem C17_copy_ctor_is_the_view (S : Scalar) (a : adapter S) :
  nrows (to_crs a) = a_rows a /\ ncols (to_crs a) = a_cols a /\
  forall i, i < a_rows a -> nth i (rows (to_crs a)) [] = a_row a i.
Proof. exact (to_crs_spec a). Qed.
Print Assumptions C17_copy_ctor_is_the_view.

(* shared internal CRS *)
Theorem C17_crs_view (S : Scalar) (M : crs S) :
  to_crs (crs_view M) = M /\
  a_rows (crs_view M) = nrows M /\ a_cols (crs_view M) = ncols M /\ a_nnz (crs_view M) = nnz M.
Proof. split; [exact (to_crs_crs_view M)|exact (crs_view_dims M)]. Qed.
Print Assumptions C17_crs_view.

(* tuple of CRS ranges, any index type in which the matrix fits *)
Theorem C17_tuple_view (S : Scalar) (it : itype) (M : crs S) :
  ncols M = nrows M -> fits it M ->
  let a := tuple_adapter it (nrows M) (flat_ptr M) (flat_col M) (flat_val M) in
  a_rows a = nrows M /\ a_cols a = ncols M /\ a_nnz a = nnz M /\ to_crs a = M.
Proof. exact (tuple_view it M). Qed.
Print Assumptions C17_tuple_view.

Theorem C17_zero_copy_view (S : Scalar) (it : itype) (M : crs S) :
  fits it M ->
  let a := zero_copy_adapter it (nrows M) (ncols M) (flat_ptr M) (flat_col M) (flat_val M) in
  a_rows a = nrows M /\ a_cols a = ncols M /\ a_nnz a = nnz M /\ to_crs a = M.
Proof. exact (zero_copy_view it M). Qed.
Print Assumptions C17_zero_copy_view.

Theorem C17_builder_view (S : Scalar) (n est : nat) (f : nat -> row S) :
  let a := builder_adapter n est f in
  a_rows a = n /\ a_cols a = n /\ to_crs a = mkCrs n (map f (seq 0 n)).
Proof. exact (builder_view n est f). Qed.
Print Assumptions C17_builder_view.

(* index-type conversion is the identity on in-range values (two's complement model of
   int / unsigned / long / size_t / ptrdiff_t) *)
Theorem C17_index_conversion_identity (src dst : itype) (n : nat) :
  (0 < it_bits src)%Z -> (0 < it_bits dst)%Z ->
  (Z.of_nat n < 2 ^ (it_bits src - 1))%Z -> (Z.of_nat n < 2 ^ (it_bits dst - 1))%Z ->
  idx_conv src dst n = n.
Proof. exact (idx_conv_id src dst n). Qed.
Print Assumptions C17_index_conversion_identity.

(* --- A3: sort_rows canonicalises (any S) --- *)
Theorem C17_sort_rows_canonical (S : Scalar) (A B : crs S) :
  rows_perm A B -> distinct_cols A -> sort_rows A = sort_rows B.
Proof. exact (sort_rows_canonical A B). Qed.
Print Assumptions C17_sort_rows_canonical.

(* a class that sorts on entry (amg.hpp:199-205) builds the same object from any listing
   order of the entries *)
Theorem C17_sorting_entry_order_independent (S : Scalar) (Y : Type) (build : crs S -> Y) (A B : adapter S) :
  rows_perm (to_crs A) (to_crs B) -> distinct_cols (to_crs A) ->
  sorting_entry build A = sorting_entry build B.
Proof. exact (sorting_entry_order_independent build A B). Qed.
Print Assumptions C17_sorting_entry_order_independent.

(* classes that do not sort (as_preconditioner, cpr, schur_pressure_correction) hand the
   storage order to their components; for the ILU(0) row scan (ilu0.hpp:145-153) the
   property is false: three listings of one tridiagonal row give throw / no elimination /
   the intended elimination.  Replayed on the implementation by tools/props/C17.py
   (known finding C17-unsorted-rows). *)
Theorem C17_unsorted_ilu0_scan_refuted (S : Scalar) :
  exists (r1 r2 r3 : list (nat * nat)),
    Permutation r1 r3 /\ Permutation r2 r3 /\
    forall (v : S),
    let mk := map (fun cv : nat * nat => (fst cv, v)) in
    ilu0_scan 1 (mk r1) = ScanThrow /\
    ilu0_scan 1 (mk r2) = ScanElim [] /\
    ilu0_scan 1 (mk r3) = ScanElim [0%nat].
Proof. exact ilu0_scan_order_dependent_refuted. Qed.
Print Assumptions C17_unsorted_ilu0_scan_refuted.

(* --- A2: reorder and scaled problem (ring) --- *)
Section Ring.
Variable S : Scalar.
Hypothesis Srt : Sring S.
Hypothesis Seqb : seqb_spec S.

(* the constructor's inverse permutation really is the inverse *)
Theorem C17_inv_perm perm junk n :
  Permutation perm (seq 0 n) -> length junk = n ->
  forall k, k < n -> nth (nth k perm 0%nat) (inv_perm perm junk) 0%nat = k.
Proof. exact (inv_perm_spec perm junk n). Qed.

(* dense entries of the reordered view: B_ij = A_{perm i, perm j} *)
Theorem C17_reorder_entries (A : crs S) perm iperm n i j :
  nrows A = n -> ncols A = n -> wf A = true -> Permutation perm (seq 0 n) ->
  (forall k, k < n -> nth (nth k perm 0%nat) iperm 0%nat = k) ->
  i < n -> j < n ->
  mget (to_crs (reorder_adapter (crs_view A) perm iperm)) i j
  = mget A (nth i perm 0%nat) (nth j perm 0%nat).
Proof. exact (reorder_mget Srt A perm iperm n i j). Qed.

(* if (P A P^T) y = P f then x = P^T y solves A x = f *)
Theorem C17_reorder_solves (A : crs S) perm iperm (y f y0 : vec S) n :
  nrows A = n -> ncols A = n -> wf A = true ->
  Permutation perm (seq 0 n) ->
  (forall k, k < n -> nth (nth k perm 0%nat) iperm 0%nat = k) ->
  length y = n -> length y0 = n ->
  (forall i, i < n ->
     Ax (to_crs (reorder_adapter (crs_view A) perm iperm)) y i = vget (perm_forward perm f) i) ->
  forall i, i < n -> Ax A (perm_inverse perm y y0) i = vget f i.
Proof. exact (reorder_solves Srt A perm iperm y f y0 n). Qed.

(* dense entries of the scaled view *)
Theorem C17_scaled_entries (A : crs S) (s : vec S) i j : i < nrows A ->
  mget (to_crs (scaled_adapter (crs_view A) s)) i j = vget s i * mget A i j * vget s j.
Proof. exact (scaled_mget Srt A s i j). Qed.

(* if (S A S) y = S f then x = S y solves A x = f, for every diagonal S with cancellable
   entries (non-zero entries in a field) *)
Theorem C17_scaled_solves (A : crs S) (s y f : vec S) n :
  nrows A = n -> ncols A = n -> length s = n -> length y = n -> length f = n ->
  (forall i a b, i < n -> vget s i * a = vget s i * b -> a = b) ->
  (forall i, i < n -> Ax (to_crs (scaled_adapter (crs_view A) s)) y i = vget (scale_vec s f) i) ->
  forall i, i < n -> Ax A (scale_vec s y) i = vget f i.
Proof. exact (scaled_solves Srt Seqb A s y f n). Qed.
End Ring.

(* in a field: every diagonal scaling without zero entries *)
Theorem C17_scaled_solves_field (S : Scalar) (Sft : Sfield S) (Seqb : seqb_spec S)
  (A : crs S) (s y f : vec S) n :
  nrows A = n -> ncols A = n -> length s = n -> length y = n -> length f = n ->
  (forall i, i < n -> vget s i <> s0) ->
  (forall i, i < n -> Ax (to_crs (scaled_adapter (crs_view A) s)) y i = vget (scale_vec s f) i) ->
  forall i, i < n -> Ax A (scale_vec s y) i = vget f i.
Proof. exact (scaled_solves_field Sft Seqb A s y f n). Qed.

(* closed at the exact rationals *)
Theorem C17_reorder_solves_Qc (A : crs QcS) perm (y f y0 : vec QcS) (ijunk : list nat) n :
  nrows A = n -> ncols A = n -> wf A = true ->
  Permutation perm (seq 0 n) -> length ijunk = n ->
  length y = n -> length y0 = n ->
  (forall i, i < n ->
     Ax (to_crs (reorder_adapter (crs_view A) perm (inv_perm perm ijunk))) y i = vget (perm_forward perm f) i) ->
  forall i, i < n -> Ax A (perm_inverse perm y y0) i = vget f i.
Proof. exact (reorder_solves_inv QcS_ring A perm y f y0 ijunk n). Qed.
Print Assumptions C17_reorder_solves_Qc.

Theorem C17_scaled_solves_Qc (A : crs QcS) (s y f : vec QcS) n :
  nrows A = n -> ncols A = n -> length s = n -> length y = n -> length f = n ->
  (forall i, i < n -> vget s i <> s0) ->
  (forall i, i < n -> Ax (to_crs (scaled_adapter (crs_view A) s)) y i = vget (scale_vec s f) i) ->
  forall i, i < n -> Ax A (scale_vec s y) i = vget f i.
Proof. exact (C17_scaled_solves_field QcS QcS_field QcS_eqb A s y f n). Qed.
Print Assumptions C17_scaled_solves_Qc.

(* non-vacuity: the hypotheses are satisfiable and the views compute (any Scalar) *)
Example C17_nonvacuous_reorder (S : Scalar) :
  let A : crs S := mkCrs 3 [[(0, s1); (1, s0)]; [(1, s1)]; [(0, s0); (2, s1)]]%nat in
  let perm := [2; 0; 1]%nat in
  Permutation perm (seq 0 3) /\ wf A = true /\
  inv_perm perm [7; 7; 7]%nat = [1; 2; 0]%nat /\
  to_crs (reorder_adapter (crs_view A) perm (inv_perm perm [7;7;7]%nat))
  = mkCrs 3 [[(1, s0); (0, s1)]; [(1, s1); (2, s0)]; [(2, s1)]]%nat.
Proof.
  cbv zeta. split; [|repeat split; reflexivity].
  change (Permutation ([2] ++ [0; 1])%nat ([0; 1] ++ [2])%nat). apply Permutation_app_comm.
Qed.

(* ================================================================ round 2 *)

(* --- A3, positive chain: entry points that sort (amg; as_preconditioner since /repo 71caa28;
   cpr and cpr_drs since f6202e0).  C17_unsorted_ilu0_scan_refuted above documents WHY the sort is
   needed; these say that with it the listing order is immaterial. --- *)

(* what a sorting entry point builds from any listing = what a non-sorting entry point builds from the
   sorted matrix *)
Theorem C17_sorting_entry_is_sorted_input (S : Scalar) (Y : Type) (build : crs S -> Y) (A B : adapter S) :
  rows_perm (to_crs A) (to_crs B) -> distinct_cols (to_crs A) ->
  sorting_entry build A = plain_entry build (crs_view (sort_rows (to_crs B))).
Proof. exact (sorting_entry_is_sorted_input build A B). Qed.
Print Assumptions C17_sorting_entry_is_sorted_input.

(* amg: the model's entry point Amg.amg_init (copy, sort_rows, do_init) on the generic copy *)
Theorem C17_amg_entry_order_independent (S : Scalar) ce dc ml (cop : crs S -> crs S -> crs S -> crs S) ts
  (A B : adapter S) :
  rows_perm (to_crs A) (to_crs B) -> distinct_cols (to_crs A) ->
  amg_init ce dc ml cop ts (to_crs A) = amg_init ce dc ml cop ts (to_crs B).
Proof. exact (amg_entry_order_independent ce dc ml cop ts A B). Qed.
Print Assumptions C17_amg_entry_order_independent.

(* relaxation::as_preconditioner: any smoother set-up *)
Theorem C17_asp_entry_order_independent (S : Scalar) (Y : Type) (setup : crs S -> Y) (A B : adapter S) :
  rows_perm (to_crs A) (to_crs B) -> distinct_cols (to_crs A) ->
  asp_entry setup A = asp_entry setup B.
Proof. exact (asp_entry_order_independent setup A B). Qed.
Print Assumptions C17_asp_entry_order_independent.

(* ... in particular the order-sensitive one: as_preconditioner<ilu0> on ANY listing is the ILU(0)
   factorisation (Ilu.ilu0, the model tied by C06) of the sorted matrix *)
Theorem C17_asp_ilu0_order_independent (S : Scalar) (junk : vec S) (A B : adapter S) :
  rows_perm (to_crs A) (to_crs B) -> distinct_cols (to_crs A) ->
  asp_entry (fun M => ilu0 M junk) A = ilu0 (sort_rows (to_crs B)) junk.
Proof. exact (asp_ilu0_order_independent junk A B). Qed.
Print Assumptions C17_asp_ilu0_order_independent.

(* cpr, cpr_drs: whatever first_scalar_pass / init compute from the sorted copy *)
Theorem C17_cpr_entry_order_independent (S : Scalar) (Y : Type) (init : crs S -> Y) (A B : adapter S) :
  rows_perm (to_crs A) (to_crs B) -> distinct_cols (to_crs A) ->
  cpr_entry init A = cpr_entry init B /\ cpr_drs_entry init A = cpr_drs_entry init B.
Proof. exact (cpr_entry_order_independent init A B). Qed.
Print Assumptions C17_cpr_entry_order_independent.

(* classes that forward the user matrix to an inner class (make_solver, deflated_solver,
   runtime::preconditioner, the sub-solvers of schur_pressure_correction) inherit the inner class's
   independence *)
Theorem C17_forwarding_entry_order_independent (S : Scalar) (Y Z : Type) (inner : adapter S -> Y) (wrap : Y -> Z)
  (A B : adapter S) :
  inner A = inner B -> forwarding_entry inner wrap A = forwarding_entry inner wrap B.
Proof. exact (forwarding_entry_order_independent inner wrap A B). Qed.
Print Assumptions C17_forwarding_entry_order_independent.

(* the generator's shuffling is the relation quantified over *)
Theorem C17_shuffled_listing_rows_perm (S : Scalar) (M M' : crs S) :
  ncols M = ncols M' -> Forall2 (fun r r' => Permutation r r') (rows M) (rows M') ->
  rows_perm (to_crs (crs_view M)) (to_crs (crs_view M')).
Proof. exact (shuffled_listing_rows_perm M M'). Qed.
Print Assumptions C17_shuffled_listing_rows_perm.

(* --- A3, negative, HISTORICAL: until /repo a433813 make_block_solver handed the USER listing to
   adapter::block_matrix, whose merge assumes sorted rows: two listings of one matrix give two different
   block matrices (entry a of scalar column 0 lands in block column 1).  [block_solver_entry] is the model of
   that OLD entry point; it was replayed on the implementation by tools/props/C17.py (kinds mbs_*; finding
   C17-make_block_solver-unsorted-rows, status fixed).  The repaired entry point is
   [block_solver_entry_sorted] below (the theorems C17_block_solver_entry_sorted_...); this theorem stays as the record
   of why the sort is needed (the block adapter itself is unchanged and still order sensitive). --- *)
Theorem C17_block_solver_entry_order_dependent_refuted (S : Scalar) (a c d : S) :
  rows_perm (bs_shuffled a c d) (bs_sorted a c d) /\ distinct_cols (bs_shuffled a c d) /\
  block_solver_entry 2 (fun G => G) (crs_view (bs_sorted a c d))
    = mkG 2 [[(0, [[a; s0]; [s0; d]]); (1, [[s0; c]; [s0; s0]])]]%nat /\
  block_solver_entry 2 (fun G => G) (crs_view (bs_shuffled a c d))
    = mkG 2 [[(0, [[s0; s0]; [s0; d]]); (1, [[a; c]; [s0; s0]])]]%nat.
Proof. exact (block_solver_entry_order_dependent_refuted a c d). Qed.
Print Assumptions C17_block_solver_entry_order_dependent_refuted.

(* --- A1, zero copy: the view is a borrow in the ownership model of C10 (Own.v; NewView =
   adapter::zero_copy).  Creating it allocates nothing; no later sequence of operations on any object
   frees the user's arrays or frees anything twice; at the end nothing has leaked. --- *)
Theorem C17_zero_copy_view_is_borrow (ops ops' : list Own.op) (k u : nat) :
  Own.find k (Own.run ops) = None ->
  let w  := Own.run ops in
  let w1 := Own.step w (Own.NewView k u) in
  let w2 := fold_left Own.step ops' w1 in
  Own.find k w1 = Some (Own.mkObj false (Some (Own.Usr u))) /\
  Own.heap w1 = Own.heap w /\ Own.next w1 = Own.next w /\
  Own.ufree w2 = 0 /\ Own.dfree w2 = 0 /\
  Own.leaks (Own.destroy_all w2) = 0 /\ Own.ufree (Own.destroy_all w2) = 0 /\
  Own.heap (Own.step w1 (Own.Destroy k)) = Own.heap w /\ Own.ufree (Own.step w1 (Own.Destroy k)) = 0.
Proof. exact (zero_copy_view_is_borrow ops ops' k u). Qed.
Print Assumptions C17_zero_copy_view_is_borrow.

(* non-vacuity: a run with a view, a deep copy of it, moves and destruction in the "wrong" order *)
Example C17_zero_copy_borrow_nonvacuous :
  let ops' := [Own.CopyCtor 2 1; Own.MoveCtor 3 1; Own.CopyAssign 1 2; Own.Destroy 3; Own.Destroy 1] in
  let w2 := fold_left Own.step ops' (Own.step (Own.run [Own.NewOwn 0]) (Own.NewView 1 7)) in
  Own.find 1 (Own.run [Own.NewOwn 0]) = None /\ Own.ufree w2 = 0 /\ Own.leaks (Own.destroy_all w2) = 0 /\
  Own.leaks w2 = 2.
Proof. vm_compute. repeat split. Qed.

(* ================================================================ round 2b *)

(* --- A3, entry points that accept a user matrix AFTER construction (seeded change C17-2) --- *)

(* amg::rebuild(const Matrix &M) (amg.hpp:238-247: copy, sort_rows, rebuild(shared_ptr)) is the sorting entry
   point composed with the model's rebuild (Amg.rebuild_levels, the non-sorting shared_ptr overload) ... *)
Theorem C17_amg_rebuild_entry_sorts (S : Scalar) (cop : crs S -> crs S -> crs S -> crs S) (ls : list ldesc)
  (A : adapter S) :
  amg_rebuild cop ls (to_crs A) = sorting_entry (rebuild_levels cop ls) A.
Proof. exact (amg_rebuild_entry_sorts cop ls A). Qed.
Print Assumptions C17_amg_rebuild_entry_sorts.

(* ... hence the rebuilt hierarchy does not depend on the order in which the user listed the entries (also
   through make_solver::precond().rebuild and runtime::preconditioner::rebuild, which forward the matrix:
   C17_forwarding_entry_order_independent) *)
Theorem C17_amg_rebuild_entry_order_independent (S : Scalar) (cop : crs S -> crs S -> crs S -> crs S)
  (ls : list ldesc) (A B : adapter S) :
  rows_perm (to_crs A) (to_crs B) -> distinct_cols (to_crs A) ->
  amg_rebuild cop ls (to_crs A) = amg_rebuild cop ls (to_crs B).
Proof. exact (amg_rebuild_entry_order_independent cop ls A B). Qed.
Print Assumptions C17_amg_rebuild_entry_order_independent.

(* it is what the non-sorting overload builds from the SORTED matrix *)
Theorem C17_amg_rebuild_entry_is_sorted_input (S : Scalar) (cop : crs S -> crs S -> crs S -> crs S)
  (ls : list ldesc) (A B : adapter S) :
  rows_perm (to_crs A) (to_crs B) -> distinct_cols (to_crs A) ->
  amg_rebuild cop ls (to_crs A) = rebuild_levels cop ls (sort_rows (to_crs B)).
Proof. exact (amg_rebuild_entry_is_sorted_input cop ls A B). Qed.
Print Assumptions C17_amg_rebuild_entry_is_sorted_input.

(* a rebuild after a rebuild: only the last matrix counts, in any listing *)
Theorem C17_amg_rebuild_chain_order_independent (S : Scalar) (cop : crs S -> crs S -> crs S -> crs S)
  (ls : list ldesc) (A1 A B : adapter S) :
  rows_perm (to_crs A) (to_crs B) -> distinct_cols (to_crs A) ->
  amg_rebuild cop (amg_rebuild cop ls (to_crs A1)) (to_crs A) = amg_rebuild cop ls (to_crs B).
Proof. exact (amg_rebuild_chain_order_independent cop ls A1 A B). Qed.
Print Assumptions C17_amg_rebuild_chain_order_independent.

(* cpr / cpr_drs ::partial_update(K, update_transfer_ops): new global preconditioner and (optionally) new
   transfer operator, both computed from the sorted copy *)
Theorem C17_partial_update_entry_order_independent (S : Scalar) (Y Z : Type) (sprecond : crs S -> Y)
  (transfer : crs S -> Z) (upd : bool) (old : Z) (A B : adapter S) :
  rows_perm (to_crs A) (to_crs B) -> distinct_cols (to_crs A) ->
  partial_update_entry sprecond transfer upd old A = partial_update_entry sprecond transfer upd old B.
Proof. exact (partial_update_entry_order_independent sprecond transfer upd old A B). Qed.
Print Assumptions C17_partial_update_entry_order_independent.

(* negative (the model of seeded change C17-2): the non-sorting overload applied to the user's listing sets
   the smoother of level 0 up on that listing; on the tridiagonal witness the ILU(0) row scan throws for one
   listing and eliminates column 0 for the other, while the sorting entry point gives ONE hierarchy *)
Theorem C17_amg_rebuild_unsorted_listing_refuted (S : Scalar) (cop : crs S -> crs S -> crs S -> crs S) (v : S)
  (l0 : ldesc) :
  let ls := [LLast (rb_sorted v)] in
  rows_perm (rb_shuffled v) (rb_sorted v) /\ distinct_cols (rb_shuffled v) /\
  ilu0_scan 1 (nth 1 (rows (ld_A (hd l0 (rebuild_levels cop ls (rb_shuffled v))))) []) = ScanThrow /\
  ilu0_scan 1 (nth 1 (rows (ld_A (hd l0 (rebuild_levels cop ls (rb_sorted v))))) []) = ScanElim [0%nat] /\
  amg_rebuild cop ls (to_crs (crs_view (rb_shuffled v))) = amg_rebuild cop ls (to_crs (crs_view (rb_sorted v))).
Proof. exact (amg_rebuild_unsorted_listing_refuted cop v l0). Qed.
Print Assumptions C17_amg_rebuild_unsorted_listing_refuted.

(* --- A3, make_block_solver after the repair a433813: sort a copy, THEN the block adapter --- *)
Theorem C17_block_solver_entry_sorted_is_sorting_entry (S : Scalar) (Y : Type) (b : nat)
  (build : gcrs (@Adapters.block S) -> Y) (A : adapter S) :
  block_solver_entry_sorted b build A
  = sorting_entry (fun M => build (to_gcrs (block_adapter b (crs_view M)))) A.
Proof. exact (block_solver_entry_sorted_is_sorting_entry b build A). Qed.
Print Assumptions C17_block_solver_entry_sorted_is_sorting_entry.

Theorem C17_block_solver_entry_sorted_order_independent (S : Scalar) (Y : Type) (b : nat)
  (build : gcrs (@Adapters.block S) -> Y) (A B : adapter S) :
  rows_perm (to_crs A) (to_crs B) -> distinct_cols (to_crs A) ->
  block_solver_entry_sorted b build A = block_solver_entry_sorted b build B.
Proof. exact (block_solver_entry_sorted_order_independent b build A B). Qed.
Print Assumptions C17_block_solver_entry_sorted_order_independent.

(* the witness of C17_block_solver_entry_order_dependent_refuted through the repaired entry point *)
Theorem C17_block_solver_entry_sorted_witness (S : Scalar) (a c d : S) :
  block_solver_entry_sorted 2 (fun G => G) (crs_view (bs_shuffled a c d))
    = mkG 2 [[(0, [[a; s0]; [s0; d]]); (1, [[s0; c]; [s0; s0]])]]%nat /\
  block_solver_entry_sorted 2 (fun G => G) (crs_view (bs_sorted a c d))
    = mkG 2 [[(0, [[a; s0]; [s0; d]]); (1, [[s0; c]; [s0; s0]])]]%nat.
Proof. exact (block_solver_entry_sorted_witness a c d). Qed.
Print Assumptions C17_block_solver_entry_sorted_witness.

(* the repaired entry point establishes the precondition of the block adapter's theorems (C13) by itself:
   sorting rows with distinct columns gives strictly sorted rows, so the block matrix handed to the inner
   solver has, entry for entry, the dense operator of the user's matrix in ANY listing (ring) *)
Theorem C17_sort_rows_strict (S : Scalar) (A : crs S) :
  distinct_cols A -> Forall (fun r => sorted_strict r = true) (rows (sort_rows A)).
Proof. exact (sort_rows_strict A). Qed.
Print Assumptions C17_sort_rows_strict.

Theorem C17_block_solver_entry_sorted_dense (S : Scalar) (Srt : Sring S) (b : nat) (A : adapter S) i j :
  0 < b -> nrows (to_crs A) mod b = 0 -> ncols (to_crs A) mod b = 0 -> distinct_cols (to_crs A) ->
  i < nrows (to_crs A) -> j < ncols (to_crs A) ->
  mget (unblock b (block_solver_entry_sorted b (fun G => G) A)) i j = mget (to_crs A) i j.
Proof. exact (block_solver_entry_sorted_dense Srt b A i j). Qed.
Print Assumptions C17_block_solver_entry_sorted_dense.

Theorem C17_block_solver_entry_sorted_dense_Qc (b : nat) (A : adapter QcS) i j :
  0 < b -> nrows (to_crs A) mod b = 0 -> ncols (to_crs A) mod b = 0 -> distinct_cols (to_crs A) ->
  i < nrows (to_crs A) -> j < ncols (to_crs A) ->
  mget (unblock b (block_solver_entry_sorted b (fun G => G) A)) i j = mget (to_crs A) i j.
Proof. exact (C17_block_solver_entry_sorted_dense QcS QcS_ring b A i j). Qed.
Print Assumptions C17_block_solver_entry_sorted_dense_Qc.
