(* DirectProofs.v -- proofs about the skyline LU model Direct.v (C16 / A1, A2). *)
From Amgcl Require Import Scalar Vec Crs KernelsProofs DirectUtil CuthillMcKee Direct.
Local Open Scope S_scope.
Local Open Scope nat_scope.

(* ------------------------------------------------------------------ *)
(* Part 1: no algebra -- the scratch vector y is written before it is read.      *)
Section AnyScalar.
Context {S : Scalar}.
Local Notation vec := (vec S).

Lemma vget_lset (y : vec) i j v :
  vget (lset y i v) j = if Nat.eqb i j then (if Nat.ltb i (length y) then v else s0) else vget y j.
Proof. unfold vget. apply lset_nth. Qed.

Lemma vget_lset_eq (y : vec) i v : i < length y -> vget (lset y i v) i = v.
Proof. intro H. unfold vget. apply lset_nth_eq. assumption. Qed.

Lemma vget_lset_neq (y : vec) i j v : i <> j -> vget (lset y i v) j = vget y j.
Proof. intro H. unfold vget. apply lset_nth_neq. assumption. Qed.

(* the forward sweep, one row *)
Definition fwd_sum (f : skyline S) (rhs y : vec) (i : nat) : S :=
  let p0 := pget (sk_ptr f) i in
  let p1 := pget (sk_ptr f) (i + 1) in
  for_loop p0 (p1 - p0) (fun k s => (s - vget (sk_L f) k * vget y (i + k - p1))%S)
           (vget rhs (pget (sk_perm f) i)).

Lemma sky_forward_unfold (f : skyline S) rhs y :
  sky_forward f rhs y =
  for_loop 0 (sk_n f) (fun i y => lset y i (vget (sk_D f) i * fwd_sum f rhs y i)%S) y.
Proof. reflexivity. Qed.

Lemma fwd_sum_agree (f : skyline S) rhs (y y' : vec) i :
  profile_wf (sk_n f) (sk_ptr f) -> i < sk_n f ->
  (forall j, j < i -> vget y j = vget y' j) -> fwd_sum f rhs y i = fwd_sum f rhs y' i.
Proof.
  intros [_ Hwf] Hi Hag. unfold fwd_sum.
  destruct (Hwf i Hi) as [Hle Hlen]. replace (i + 1) with (Datatypes.S i) by lia.
  set (p0 := pget (sk_ptr f) i) in *. set (p1 := pget (sk_ptr f) (Datatypes.S i)) in *.
  apply (for_loop_ext p0 (p1 - p0)). intros k s Hk. rewrite Hag; [reflexivity|]. lia.
Qed.

Theorem sky_forward_junk_independent (f : skyline S) rhs (y y' : vec) :
  profile_wf (sk_n f) (sk_ptr f) -> length y = sk_n f -> length y' = sk_n f ->
  sky_forward f rhs y = sky_forward f rhs y'.
Proof.
  intros Hwf Hy Hy'. rewrite !sky_forward_unfold.
  set (body := fun i (y : vec) => lset y i (vget (sk_D f) i * fwd_sum f rhs y i)%S).
  pose (R := fun i (a b : vec) => length a = sk_n f /\ length b = sk_n f /\
                 forall j, j < i -> vget a j = vget b j).
  assert (H : R (0 + sk_n f) (for_loop 0 (sk_n f) body y) (for_loop 0 (sk_n f) body y')).
  { apply (for_loop_rel R).
    - unfold R. repeat split; try assumption. intros j Hj. lia.
    - unfold R. intros i a b Hi (Ha & Hb & Hag). unfold body. rewrite !lset_length.
      repeat split; try assumption. intros j Hj.
      rewrite (fwd_sum_agree f rhs a b i Hwf) by (try lia; assumption).
      destruct (Nat.eq_dec i j) as [->|Hne].
      + rewrite !vget_lset_eq by lia. reflexivity.
      + rewrite !vget_lset_neq by assumption. apply Hag. lia. }
  unfold R in H. simpl in H. destruct H as (Ha & Hb & Hag).
  change (for_loop 0 (sk_n f) body y = for_loop 0 (sk_n f) body y').
  apply (list_ext _ _ s0); [lia|]. intros i Hi. apply Hag. lia.
Qed.

(* the whole call: solution AND the scratch state left behind do not depend on the
   previous content of y (C15 clause for skyline_lu: the object is reusable) *)
Theorem sky_solve_junk_independent (f : skyline S) rhs x (y y' : vec) :
  profile_wf (sk_n f) (sk_ptr f) -> length y = sk_n f -> length y' = sk_n f ->
  sky_solve f rhs x y = sky_solve f rhs x y'.
Proof.
  intros Hwf Hy Hy'. unfold sky_solve.
  rewrite (sky_forward_junk_independent f rhs y y' Hwf Hy Hy'). reflexivity.
Qed.

Lemma sky_forward_length (f : skyline S) rhs (y : vec) : length (sky_forward f rhs y) = length y.
Proof.
  rewrite sky_forward_unfold.
  apply (for_loop_inv (fun _ (s : vec) => length s = length y)); [reflexivity|].
  intros i s _ Hs. rewrite lset_length. assumption.
Qed.

Lemma sky_backward_length (f : skyline S) (y : vec) : length (sky_backward f y) = length y.
Proof.
  unfold sky_backward.
  apply (for_down_inv (fun _ (s : vec) => length s = length y)); [reflexivity|].
  intros j s _ Hs.
  apply (for_loop_inv (fun _ (s' : vec) => length s' = length y)); [assumption|].
  intros k s' _ Hs'. rewrite lset_length. assumption.
Qed.

(* the scratch vector keeps its size: a history of calls never violates the length guard *)
Theorem sky_solve_scratch_length (f : skyline S) rhs x (y : vec) :
  length (snd (sky_solve f rhs x y)) = length y.
Proof. unfold sky_solve. simpl. rewrite sky_backward_length, sky_forward_length. reflexivity. Qed.

End AnyScalar.

(* ------------------------------------------------------------------ *)
(* Part 2: the solve phase is exact (field).                                      *)
Section SolveField.
Context {S : Scalar}.
Local Notation vec := (vec S).
Hypothesis Sft : Sfield S.
Let Srt : Sring S := F_R Sft.
Add Ring SRingDirect : Srt.

(* dense views of the factors in skyline storage *)
Definition plen (ptr : list nat) (i : nat) : nat := pget ptr (Datatypes.S i) - pget ptr i.
Definition Lf (f : skyline S) (i j : nat) : S :=
  if Nat.leb (i - plen (sk_ptr f) i) j && Nat.ltb j i
  then vget (sk_L f) (pget (sk_ptr f) (Datatypes.S i) + j - i) else s0.
Definition Uf (f : skyline S) (i j : nat) : S :=
  if Nat.leb (j - plen (sk_ptr f) j) i && Nat.ltb i j
  then vget (sk_U f) (pget (sk_ptr f) (Datatypes.S j) + i - j) else s0.
(* L' = strict lower part L + diagonal of un-inverted pivots 1/D[i];  U' = unit upper *)
Definition Lfull (f : skyline S) (i j : nat) : S :=
  if Nat.ltb j i then Lf f i j else if Nat.eqb i j then sinv (vget (sk_D f) i) else s0.
Definition Ufull (f : skyline S) (i j : nat) : S :=
  if Nat.ltb i j then Uf f i j else if Nat.eqb i j then s1 else s0.

Lemma sub_loop (g : nat -> S) lo cnt init :
  for_loop lo cnt (fun k s => (s - g k)%S) init = (init - sumn (fun u => g (lo + u)%nat) cnt)%S.
Proof.
  induction cnt as [|cnt IH]; [rewrite for_loop_0; simpl; ring|]. rewrite for_loop_S, IH. simpl. ring.
Qed.

Lemma sumn_shift (g : nat -> S) lo cnt :
  sumn (fun t => if Nat.leb lo t then g t else s0) (lo + cnt) = sumn (fun u => g (lo + u)) cnt.
Proof.
  induction cnt as [|cnt IH].
  - rewrite Nat.add_0_r. simpl. transitivity (sumn (fun _ : nat => @s0 S) lo); [|apply (sumn_zero Srt)].
    apply sumn_ext. intros t Ht. destruct (Nat.leb_spec lo t); [lia|reflexivity].
  - replace (lo + Datatypes.S cnt) with (Datatypes.S (lo + cnt)) by lia. simpl. rewrite IH.
    destruct (Nat.leb_spec lo (lo + cnt)); [reflexivity|lia].
Qed.

Lemma fwd_sum_spec (f : skyline S) rhs (y : vec) i :
  profile_wf (sk_n f) (sk_ptr f) -> i < sk_n f ->
  fwd_sum f rhs y i = (vget rhs (pget (sk_perm f) i) - sumn (fun t => Lf f i t * vget y t) i)%S.
Proof.
  intros [_ Hwf] Hi. destruct (Hwf i Hi) as [Hle Hlen]. unfold fwd_sum.
  replace (i + 1) with (Datatypes.S i) by lia.
  set (p0 := pget (sk_ptr f) i) in *. set (p1 := pget (sk_ptr f) (Datatypes.S i)) in *.
  rewrite (sub_loop (fun k => (vget (sk_L f) k * vget y (i + k - p1))%S)). f_equal.
  transitivity (sumn (fun t => if Nat.leb (i - (p1 - p0)) t then (Lf f i t * vget y t)%S else s0)
                     ((i - (p1 - p0)) + (p1 - p0))).
  - rewrite sumn_shift. apply sumn_ext. intros u Hu. unfold Lf, plen. fold p0 p1.
    destruct (Nat.leb_spec (i - (p1 - p0)) (i - (p1 - p0) + u)); [|lia]. simpl.
    destruct (Nat.ltb_spec (i - (p1 - p0) + u) i); [|lia].
    replace (p1 + (i - (p1 - p0) + u) - i) with (p0 + u) by lia.
    replace (i + (p0 + u) - p1) with (i - (p1 - p0) + u) by lia. reflexivity.
  - replace (i - (p1 - p0) + (p1 - p0)) with i by lia. apply sumn_ext. intros t Ht.
    unfold Lf, plen. fold p0 p1. destruct (Nat.leb (i - (p1 - p0)) t); simpl; [reflexivity|ring].
Qed.

(* forward sweep: y1[i] = D[i] * (b'[i] - sum_{t<i} L(i,t) y1[t]) *)
Lemma sky_forward_spec (f : skyline S) rhs (y : vec) :
  profile_wf (sk_n f) (sk_ptr f) -> length y = sk_n f ->
  forall i, i < sk_n f ->
    vget (sky_forward f rhs y) i =
    (vget (sk_D f) i * (vget rhs (pget (sk_perm f) i)
                        - sumn (fun t => Lf f i t * vget (sky_forward f rhs y) t) i))%S.
Proof.
  intros Hwf Hy. rewrite sky_forward_unfold.
  set (body := fun i (y : vec) => lset y i (vget (sk_D f) i * fwd_sum f rhs y i)%S).
  pose (P := fun k (s : vec) => length s = sk_n f /\ forall i, i < k ->
     vget s i = (vget (sk_D f) i * (vget rhs (pget (sk_perm f) i) - sumn (fun t => Lf f i t * vget s t) i))%S).
  assert (H : P (0 + sk_n f) (for_loop 0 (sk_n f) body y)).
  { apply (for_loop_inv P).
    - split; [assumption|]. intros i Hi. lia.
    - intros k s Hk (Hs & Hprev). unfold body. split; [rewrite lset_length; assumption|].
      intros i Hi.
      assert (Hsum : forall j, j <= k -> sumn (fun t => (Lf f j t * vget (lset s k (vget (sk_D f) k * fwd_sum f rhs s k)%S) t)%S) j
                                 = sumn (fun t => (Lf f j t * vget s t)%S) j).
      { intros j Hj. apply sumn_ext. intros t Ht. rewrite vget_lset_neq by lia. reflexivity. }
      rewrite Hsum by lia.
      destruct (Nat.eq_dec i k) as [->|Hne].
      + rewrite vget_lset_eq by lia. rewrite fwd_sum_spec by (try assumption; lia). reflexivity.
      + rewrite vget_lset_neq by lia. apply Hprev. lia. }
  destruct H as [_ H]. exact H.
Qed.

(* ---- backward sweep ---- *)
Definition bwd_inner (f : skyline S) (j : nat) (y : vec) : vec :=
  let p0 := pget (sk_ptr f) j in
  let p1 := pget (sk_ptr f) (j + 1) in
  for_loop p0 (p1 - p0)
    (fun k y => let i := j + k - p1 in lset y i (vget y i - vget (sk_U f) k * vget y j)%S) y.

Lemma sky_backward_unfold (f : skyline S) y : sky_backward f y = for_down 0 (sk_n f) (bwd_inner f) y.
Proof. reflexivity. Qed.

(* one column: y[i] -= U(i,j) y[j] for every i (U(i,j) = 0 outside the profile) *)
Lemma bwd_inner_spec (f : skyline S) j (y : vec) :
  profile_wf (sk_n f) (sk_ptr f) -> j < sk_n f -> length y = sk_n f ->
  length (bwd_inner f j y) = sk_n f /\
  forall i, vget (bwd_inner f j y) i = (vget y i - Uf f i j * vget y j)%S.
Proof.
  intros [_ Hwf] Hj Hy. destruct (Hwf j Hj) as [Hle Hlen]. unfold bwd_inner.
  replace (j + 1) with (Datatypes.S j) by lia.
  set (p0 := pget (sk_ptr f) j) in *. set (p1 := pget (sk_ptr f) (Datatypes.S j)) in *.
  set (lo := j - (p1 - p0)).
  pose (P := fun k (s : vec) => length s = sk_n f /\ forall i,
     vget s i = if Nat.leb lo i && Nat.ltb i (lo + (k - p0))
                then (vget y i - vget (sk_U f) (p1 + i - j) * vget y j)%S else vget y i).
  assert (H : P (p0 + (p1 - p0)) (for_loop p0 (p1 - p0)
     (fun k y => let i := j + k - p1 in lset y i (vget y i - vget (sk_U f) k * vget y j)%S) y)).
  { apply (for_loop_inv P).
    - split; [assumption|]. intro i. rewrite Nat.sub_diag, Nat.add_0_r.
      destruct (Nat.leb_spec lo i), (Nat.ltb_spec i lo); simpl; try reflexivity; lia.
    - intros k s Hk (Hs & Hv). cbv zeta. split; [rewrite lset_length; assumption|].
      assert (Eik : j + k - p1 = lo + (k - p0)) by (unfold lo; lia).
      rewrite Eik. intro i.
      assert (Hsi : vget s (lo + (k - p0)) = vget y (lo + (k - p0))).
      { rewrite Hv. destruct (Nat.leb_spec lo (lo + (k - p0))), (Nat.ltb_spec (lo + (k - p0)) (lo + (k - p0))); simpl; try reflexivity; lia. }
      assert (Hsj : vget s j = vget y j).
      { rewrite Hv. destruct (Nat.leb_spec lo j), (Nat.ltb_spec j (lo + (k - p0))); simpl; try reflexivity; unfold lo in *; lia. }
      rewrite Hsi, Hsj.
      destruct (Nat.eq_dec (lo + (k - p0)) i) as [<-|Hne].
      + rewrite vget_lset_eq by (unfold lo; lia).
        destruct (Nat.leb_spec lo (lo + (k - p0))), (Nat.ltb_spec (lo + (k - p0)) (lo + (Datatypes.S k - p0))); simpl; try lia.
        replace (p1 + (lo + (k - p0)) - j) with k by (unfold lo; lia). reflexivity.
      + rewrite vget_lset_neq by assumption. rewrite Hv.
        destruct (Nat.leb_spec lo i), (Nat.ltb_spec i (lo + (k - p0))), (Nat.ltb_spec i (lo + (Datatypes.S k - p0)));
          simpl; try reflexivity; lia. }
  destruct H as [HL Hv]. split; [exact HL|]. intro i. rewrite Hv.
  replace (p0 + (p1 - p0) - p0) with (p1 - p0) by lia.
  unfold Uf, plen. fold p0 p1. fold lo. replace (lo + (p1 - p0)) with j by (unfold lo; lia).
  destruct (Nat.leb lo i && Nat.ltb i j); [reflexivity|ring].
Qed.

Lemma sumn_trunc (g : nat -> S) i m : i <= m ->
  sumn (fun j => if Nat.ltb j i then g j else s0) m = sumn g i.
Proof.
  intro H. induction m as [|m IH].
  - replace i with 0 by lia. reflexivity.
  - destruct (Nat.eq_dec i (Datatypes.S m)) as [->|Hne].
    + apply sumn_ext. intros j Hj. destruct (Nat.ltb_spec j (Datatypes.S m)); [reflexivity|lia].
    + simpl. rewrite IH by lia. destruct (Nat.ltb_spec m i); [lia|ring].
Qed.

(* backward sweep: x'[i] = y1[i] - sum_{t>i} U(i,t) x'[t] *)
Lemma sky_backward_spec (f : skyline S) (y1 : vec) :
  profile_wf (sk_n f) (sk_ptr f) -> length y1 = sk_n f ->
  forall i, i < sk_n f ->
    vget (sky_backward f y1) i =
    (vget y1 i - sumn (fun t => if Nat.leb (Datatypes.S i) t
                                then Uf f i t * vget (sky_backward f y1) t else s0) (sk_n f))%S.
Proof.
  intros Hwf Hy. rewrite sky_backward_unfold.
  pose (Q := fun j (s : vec) => length s = sk_n f /\ forall i, i < sk_n f ->
     vget s i = (vget y1 i - sumn (fun t => if Nat.leb (Nat.max j (Datatypes.S i)) t
                                            then Uf f i t * vget s t else s0) (sk_n f))%S).
  assert (H : Q 0 (for_down 0 (sk_n f) (bwd_inner f) y1)).
  { apply (for_down_inv Q).
    - split; [assumption|]. intros i Hi.
      transitivity (vget y1 i - sumn (fun _ : nat => @s0 S) (sk_n f))%S.
      + rewrite (sumn_zero Srt). ring.
      + f_equal. apply sumn_ext. intros t Ht.
        destruct (Nat.leb_spec (Nat.max (0 + sk_n f) (Datatypes.S i)) t); [lia|reflexivity].
    - intros j s Hj (Hs & Hv).
      destruct (bwd_inner_spec f j s Hwf) as [HL Hi']; [lia|assumption|].
      split; [exact HL|]. intros i Hi. rewrite Hi'. rewrite (Hv i Hi).
      (* rewrite the new sum in terms of the old state *)
      transitivity (vget y1 i
        - (sumn (fun t => if Nat.leb (Nat.max (Datatypes.S j) (Datatypes.S i)) t then Uf f i t * vget s t else s0) (sk_n f)
           + sumn (fun t => if Nat.eqb j t then Uf f i j * vget s j else s0) (sk_n f)))%S.
      + rewrite (sumn_delta Srt). destruct (Nat.ltb_spec j (sk_n f)); [ring|lia].
      + f_equal. rewrite <- (sumn_add Srt). apply sumn_ext. intros t Ht.
        rewrite (Hi' t).
        destruct (Nat.eqb_spec j t) as [<-|Hne].
        * destruct (Nat.leb_spec (Nat.max (Datatypes.S j) (Datatypes.S i)) j); [lia|].
          destruct (Nat.leb_spec (Nat.max j (Datatypes.S i)) j).
          -- unfold Uf at 3. destruct (Nat.ltb_spec j j); [lia|].
             rewrite Bool.andb_false_r. ring.
          -- unfold Uf at 1. destruct (Nat.ltb_spec i j); [lia|]. rewrite Bool.andb_false_r. ring.
        * destruct (Nat.leb_spec (Nat.max (Datatypes.S j) (Datatypes.S i)) t),
                   (Nat.leb_spec (Nat.max j (Datatypes.S i)) t); try lia; [|ring].
          unfold Uf at 3. destruct (Nat.ltb_spec t j) as [Hx|Hx]; [lia|].
          destruct (Nat.leb (j - plen (sk_ptr f) j) t); simpl; ring. }
  destruct H as [_ H]. intros i Hi. rewrite (H i Hi). reflexivity.
Qed.

(* ---- scatter: x[perm[i]] = y[i] ---- *)
Lemma sky_scatter_spec (f : skyline S) (y x : vec) :
  NoDup (sk_perm f) -> length (sk_perm f) = sk_n f ->
  (forall i, i < sk_n f -> pget (sk_perm f) i < length x) ->
  forall i, i < sk_n f -> vget (sky_scatter f y x) (pget (sk_perm f) i) = vget y i.
Proof.
  intros Hnd Hlen Hr. unfold sky_scatter.
  pose (P := fun k (s : vec) => length s = length x /\ forall i, i < k -> vget s (pget (sk_perm f) i) = vget y i).
  assert (H : P (0 + sk_n f) (for_loop 0 (sk_n f) (fun i x => lset x (pget (sk_perm f) i) (vget y i)) x)).
  { apply (for_loop_inv P).
    - split; [reflexivity|]. intros i Hi. lia.
    - intros k s Hk (Hs & Hv). split; [rewrite lset_length; assumption|]. intros i Hi.
      destruct (Nat.eq_dec i k) as [->|Hne].
      + apply vget_lset_eq. rewrite Hs. apply Hr. lia.
      + rewrite vget_lset_neq; [apply Hv; lia|].
        unfold pget. intro E. apply Hne. symmetry.
        apply (proj1 (NoDup_nth (sk_perm f) 0) Hnd); [lia|lia|exact E]. }
  destruct H as [_ H]. exact H.
Qed.

(* ---- the solve phase is exact:  L' (U' x') = b'  with x'[t] = x[perm[t]], b'[i] = rhs[perm[i]] ---- *)
Lemma Ufull_row (f : skyline S) (x : nat -> S) j m : j < m ->
  sumn (fun t => Ufull f j t * x t)%S m
  = (x j + sumn (fun t => if Nat.leb (Datatypes.S j) t then Uf f j t * x t else s0) m)%S.
Proof.
  intro Hj.
  transitivity (sumn (fun t => if Nat.eqb j t then x j else s0) m
                + sumn (fun t => if Nat.leb (Datatypes.S j) t then Uf f j t * x t else s0) m)%S.
  - rewrite <- (sumn_add Srt). apply sumn_ext. intros t Ht. unfold Ufull.
    destruct (Nat.ltb_spec j t), (Nat.eqb_spec j t), (Nat.leb_spec (Datatypes.S j) t); subst; try lia; ring.
  - rewrite (sumn_delta Srt). destruct (Nat.ltb_spec j m); [reflexivity|lia].
Qed.

Lemma Lfull_row (f : skyline S) (y : nat -> S) i m : i < m ->
  sumn (fun j => Lfull f i j * y j)%S m
  = (sumn (fun j => Lf f i j * y j) i + sinv (vget (sk_D f) i) * y i)%S.
Proof.
  intro Hi.
  transitivity (sumn (fun j => if Nat.ltb j i then Lf f i j * y j else s0) m
                + sumn (fun j => if Nat.eqb i j then sinv (vget (sk_D f) i) * y i else s0) m)%S.
  - rewrite <- (sumn_add Srt). apply sumn_ext. intros j Hj. unfold Lfull.
    destruct (Nat.ltb_spec j i), (Nat.eqb_spec i j); subst; try lia; ring.
  - rewrite sumn_trunc by lia. rewrite (sumn_delta Srt). destruct (Nat.ltb_spec i m); [reflexivity|lia].
Qed.

Theorem sky_solve_exact (f : skyline S) (rhs x y : vec) :
  profile_wf (sk_n f) (sk_ptr f) -> length y = sk_n f ->
  NoDup (sk_perm f) -> length (sk_perm f) = sk_n f ->
  (forall i, i < sk_n f -> pget (sk_perm f) i < length x) ->
  (forall i, i < sk_n f -> vget (sk_D f) i <> s0) ->
  let xo := fst (sky_solve f rhs x y) in
  forall i, i < sk_n f ->
    sumn (fun j => Lfull f i j *
                   sumn (fun t => Ufull f j t * vget xo (pget (sk_perm f) t)) (sk_n f))%S (sk_n f)
    = vget rhs (pget (sk_perm f) i).
Proof.
  intros Hwf Hy Hnd Hlen Hr HD xo i Hi. unfold xo, sky_solve. simpl.
  set (y1 := sky_forward f rhs y). set (y2 := sky_backward f y1).
  assert (Hy1 : length y1 = sk_n f) by (unfold y1; rewrite sky_forward_length; assumption).
  transitivity (sumn (fun j => Lfull f i j * vget y1 j)%S (sk_n f)).
  - apply sumn_ext. intros j Hj. f_equal.
    transitivity (sumn (fun t => Ufull f j t * vget y2 t)%S (sk_n f)).
    + apply sumn_ext. intros t Ht. rewrite sky_scatter_spec by assumption. reflexivity.
    + rewrite Ufull_row by assumption. unfold y2 at 1. rewrite sky_backward_spec by assumption.
      fold y2. ring.
  - rewrite Lfull_row by assumption. unfold y1 at 2. rewrite sky_forward_spec by assumption. fold y1.
    set (sm := sumn (fun t => (Lf f i t * vget y1 t)%S) i).
    set (d := vget (sk_D f) i).
    assert (Hd : (sinv d * d = s1)%S) by (apply (Finv_l Sft); apply HD; assumption).
    transitivity (sm + (sinv d * d) * (vget rhs (pget (sk_perm f) i) - sm))%S; [ring|].
    rewrite Hd. ring.
Qed.

End SolveField.

(* ------------------------------------------------------------------ *)
(* Part 3: factorisation -- error branch and non-zero pivots.                       *)
Section FactorField.
Context {S : Scalar}.
Local Notation vec := (vec S).
Hypothesis Sft : Sfield S.
Hypothesis Seqb : seqb_spec S.
Let Srt3 : Sring S := F_R Sft.
Add Ring SRingDirect3 : Srt3.

Lemma sky_build_zero_first_pivot (A : crs S) perm :
  is_zero (vget (snd (fill (nrows A) (inverse_perm (nrows A) perm)
                           (profile_ptr (nrows A) (profile_heights (nrows A) (inverse_perm (nrows A) perm) A)) A)) 0) = true ->
  sky_build_perm A perm = SkyZeroPivot.
Proof.
  intro H. unfold sky_build_perm, factorize.
  destruct (fill (nrows A) (inverse_perm (nrows A) perm)
                 (profile_ptr (nrows A) (profile_heights (nrows A) (inverse_perm (nrows A) perm) A)) A)
    as [[L U] D]. simpl in H. rewrite H. reflexivity.
Qed.

Lemma sinv_nonzero (x : S) : x <> s0 -> sinv x <> s0.
Proof.
  intros Hx E. assert (H : (sinv x * x = s1)%S) by (apply (Finv_l Sft); assumption).
  rewrite E in H. apply (F_1_neq_0 Sft). rewrite <- H. ring.
Qed.

Lemma is_zero_false (x : S) : is_zero x = false -> x <> s0.
Proof.
  intros H E. subst. unfold is_zero in H.
  assert (seqb (@s0 S) s0 = true) by (apply Seqb; reflexivity). congruence.
Qed.

Lemma crout_step_pivots ptr k (L U D L' U' D' : vec) :
  crout_step ptr k (L, U, D) = Some (L', U', D') -> k + 1 < length D ->
  length D' = length D /\ vget D' (k + 1) <> s0 /\ forall i, i <> k + 1 -> vget D' i = vget D i.
Proof.
  unfold crout_step. intros H Hk.
  match type of H with context [if is_zero ?s then _ else _] => destruct (is_zero s) eqn:Ez end;
    [discriminate|].
  injection H as <- <- <-. split; [apply lset_length|]. split.
  - rewrite vget_lset_eq by assumption. apply sinv_nonzero. apply is_zero_false. assumption.
  - intros i Hi. apply vget_lset_neq. lia.
Qed.

Theorem factorize_pivots_nonzero n ptr (lud : vec * vec * vec) L U D :
  0 < n -> length (snd lud) = n ->
  factorize n ptr lud = Some (L, U, D) -> forall i, i < n -> vget D i <> s0.
Proof.
  destruct lud as [[L0 U0] D0]. simpl. intros Hn HD H.
  unfold factorize in H. destruct (is_zero (vget D0 0)) eqn:E0; [discriminate|].
  pose (P := fun k (o : option (vec * vec * vec)) =>
     match o with
     | None => True
     | Some (_, _, D) => length D = n /\ forall i, i <= k -> vget D i <> s0
     end).
  assert (HP : P (0 + (n - 1)) (for_loop 0 (n - 1)
     (fun k o => match o with None => None | Some lud => crout_step ptr k lud end)
     (Some (L0, U0, lset D0 0 (sinv (vget D0 0)))))).
  { apply (for_loop_inv P).
    - simpl. split; [rewrite lset_length; assumption|]. intros i Hi. replace i with 0 by lia.
      rewrite vget_lset_eq by lia. apply sinv_nonzero. apply is_zero_false. assumption.
    - intros k o Hk Ho. destruct o as [[[Lk Uk] Dk]|]; [|exact I].
      destruct Ho as [HL Hnz].
      destruct (crout_step ptr k (Lk, Uk, Dk)) as [[[L' U'] D']|] eqn:Ec; [|exact I].
      destruct (crout_step_pivots ptr k Lk Uk Dk L' U' D' Ec) as (HL' & Hk1 & Hrest); [lia|].
      split; [congruence|]. intros i Hi.
      destruct (Nat.eq_dec i (k + 1)) as [->|Hne]; [assumption|].
      rewrite Hrest by assumption. apply Hnz. lia. }
  rewrite H in HP. destruct HP as [_ HP]. intros i Hi. apply HP. lia.
Qed.

End FactorField.

(* ------------------------------------------------------------------ *)
(* Part 4: the constructor produces a well-formed profile (any Scalar), hence the
   hypotheses of the solve theorems hold for every solver object it returns.          *)
Section Profile.
Context {S : Scalar}.
Local Notation vec := (vec S).

Definition heights_ok (n : nat) (h : list nat) : Prop :=
  length h = Datatypes.S n /\ forall i, pget h i <= i.

Lemma pget_lset (p : list nat) i j v :
  pget (lset p i v) j = if Nat.eqb i j then (if Nat.ltb i (length p) then v else 0) else pget p j.
Proof. unfold pget. apply lset_nth. Qed.

Lemma heights_ok_lset n h i v : heights_ok n h -> v <= i -> heights_ok n (lset h i v).
Proof.
  intros [HL Hh] Hv. split; [rewrite lset_length; assumption|]. intro j. rewrite pget_lset.
  destruct (Nat.eqb_spec i j) as [->|]; [|apply Hh]. destruct (Nat.ltb j (length h)); lia.
Qed.

Lemma profile_entry_ok n ip i h (e : nat * S) : heights_ok n h -> heights_ok n (profile_entry ip i h e).
Proof.
  intro H. unfold profile_entry. destruct (negb (is_zero (snd e))); [|assumption].
  destruct (Nat.ltb (pget ip (fst e)) (pget ip i)).
  - destruct (Nat.ltb _ _); [|assumption]. apply heights_ok_lset; [assumption|lia].
  - destruct (Nat.ltb (pget ip i) (pget ip (fst e))); [|assumption].
    destruct (Nat.ltb _ _); [|assumption]. apply heights_ok_lset; [assumption|lia].
Qed.

Lemma profile_heights_ok n ip (A : crs S) : heights_ok n (profile_heights n ip A).
Proof.
  unfold profile_heights.
  apply (for_loop_inv (fun _ h => heights_ok n h)).
  - split; [apply repeat_length|]. intro i. unfold pget.
    destruct (Nat.lt_ge_cases i (Datatypes.S n)).
    + rewrite nth_repeat. lia.
    + rewrite nth_overflow by (rewrite repeat_length; assumption). lia.
  - intros i h _ Hh. generalize (nth i (rows A) []). intro r. revert h Hh.
    induction r as [|e r IH]; intros h Hh; simpl; [assumption|].
    apply IH. apply profile_entry_ok. assumption.
Qed.

Lemma profile_ptr_wf n h : heights_ok n h -> profile_wf n (profile_ptr n h).
Proof.
  intros [HL Hh]. unfold profile_ptr.
  pose (P := fun k (pl : list nat * nat) =>
     length (fst pl) = Datatypes.S n /\
     (forall j, k <= j -> pget (fst pl) j = pget h j) /\
     snd pl = (if Nat.eqb k 1 then 0 else pget h (k - 1)) /\
     (forall j, j + 1 < k -> pget (fst pl) j <= pget (fst pl) (Datatypes.S j) /\
                             pget (fst pl) (Datatypes.S j) - pget (fst pl) j <= j)).
  assert (H : P (1 + n) (for_loop 1 n (fun i (pl : list nat * nat) =>
                       let tmp := pget (fst pl) i in
                       (lset (fst pl) i (pget (fst pl) (i - 1) + snd pl), tmp)) (h, 0))).
  { apply (for_loop_inv P).
    - unfold P. cbn [fst snd]. repeat split; try assumption; try reflexivity; intros; lia.
    - intros k [p l] Hk HP. unfold P in *. cbv zeta. cbn [fst snd] in *.
      destruct HP as (HLp & Htail & Hl & Hwf). repeat split.
      + rewrite lset_length. assumption.
      + intros j Hj. rewrite pget_lset. destruct (Nat.eqb_spec k j); [lia|]. apply Htail. lia.
      + destruct (Nat.eqb_spec (Datatypes.S k) 1); [lia|]. replace (Datatypes.S k - 1) with k by lia.
        apply Htail. lia.
      + destruct (Nat.eq_dec (j + 1) k) as [E|E].
        * rewrite !pget_lset. replace (Datatypes.S j) with k by lia.
          rewrite Nat.eqb_refl. destruct (Nat.eqb_spec k j); [lia|].
          destruct (Nat.ltb_spec k (length p)); [|lia]. replace (k - 1) with j by lia. lia.
        * rewrite !pget_lset. destruct (Nat.eqb_spec k (Datatypes.S j)); [lia|].
          destruct (Nat.eqb_spec k j); [lia|]. apply Hwf. lia.
      + destruct (Nat.eq_dec (j + 1) k) as [E|E].
        * rewrite !pget_lset. replace (Datatypes.S j) with k by lia.
          rewrite Nat.eqb_refl. destruct (Nat.eqb_spec k j); [lia|].
          destruct (Nat.ltb_spec k (length p)); [|lia]. replace (k - 1) with j by lia.
          rewrite Hl. destruct (Nat.eqb_spec k 1).
          -- lia.
          -- replace (k - 1) with j by lia. specialize (Hh j). lia.
        * rewrite !pget_lset. destruct (Nat.eqb_spec k (Datatypes.S j)); [lia|].
          destruct (Nat.eqb_spec k j); [lia|]. apply Hwf. lia. }
  unfold P in H. destruct H as (HLp & _ & _ & Hwf). split; [assumption|].
  intros i Hi. apply Hwf. lia.
Qed.

Lemma fill_D_length n ip ptr (A : crs S) : length (snd (fill n ip ptr A)) = n.
Proof.
  unfold fill.
  apply (for_loop_inv (fun _ (lud : vec * vec * vec) => length (snd lud) = n)).
  - simpl. apply repeat_length.
  - intros i lud _ Hl. generalize (nth i (rows A) []). intro r. revert lud Hl.
    induction r as [|e r IH]; intros lud Hl; simpl; [assumption|]. apply IH.
    destruct lud as [[L U] D]. unfold fill_entry. simpl in *.
    destruct (negb (is_zero (snd e))); [|assumption].
    destruct (Nat.ltb _ _); [assumption|]. destruct (Nat.eqb _ _); simpl; [rewrite lset_length|]; assumption.
Qed.

(* every solver object returned by the constructor has a well-formed profile *)
Theorem sky_build_perm_wf (A : crs S) perm f :
  sky_build_perm A perm = SkyOk f ->
  sk_n f = nrows A /\ sk_perm f = perm /\ profile_wf (sk_n f) (sk_ptr f).
Proof.
  unfold sky_build_perm. intro H.
  destruct (factorize _ _ _) as [[[L U] D]|]; [|discriminate].
  injection H as <-. simpl. split; [reflexivity|]. split; [reflexivity|].
  apply profile_ptr_wf, profile_heights_ok.
Qed.

End Profile.

Section BuildField.
Context {S : Scalar}.
Hypothesis Sft : Sfield S.
Hypothesis Seqb : seqb_spec S.

Theorem sky_build_perm_pivots (A : crs S) perm f : 0 < nrows A ->
  sky_build_perm A perm = SkyOk f -> forall i, i < sk_n f -> vget (sk_D f) i <> s0.
Proof.
  unfold sky_build_perm. intros Hn H.
  destruct (factorize _ _ _) as [[[L U] D]|] eqn:EF; [|discriminate].
  injection H as <-. simpl.
  eapply (factorize_pivots_nonzero Sft Seqb); [exact Hn| |exact EF]. apply fill_D_length.
Qed.
End BuildField.

(* ------------------------------------------------------------------ *)
(* Part 5: end to end -- every solver object built by skyline_lu(A) from a square matrix
   (any pattern) solves exactly with respect to its stored factors, for every history of y. *)
From Coq Require Import Permutation.
From Amgcl Require Import CuthillMcKeeProofs.
Section EndToEnd.
Context {S : Scalar}.
Hypothesis Sft : Sfield S.
Hypothesis Seqb : seqb_spec S.

Theorem sky_build_solve_exact reverse (A : crs S) f (rhs x y : vec S) :
  graph_wf (map (map fst) (rows A)) = true -> 0 < nrows A ->
  sky_build reverse A = SkyOk f -> length y = nrows A -> length x = nrows A ->
  sk_n f = nrows A /\ Permutation (sk_perm f) (seq 0 (nrows A)) /\
  forall i, i < nrows A ->
    sumn (fun j => Lfull f i j *
                   sumn (fun t => Ufull f j t * vget (fst (sky_solve f rhs x y)) (pget (sk_perm f) t))
                        (sk_n f))%S (sk_n f)
    = vget rhs (pget (sk_perm f) i).
Proof.
  intros Hg Hn Hb Hy Hx. unfold sky_build in Hb.
  assert (Hlen : length (map (map fst) (rows A)) = nrows A) by (unfold nrows; apply map_length).
  destruct (cuthill_mckee_permutation reverse _ Hg) as (p & Hcm & Hperm); [rewrite Hlen; lia|].
  rewrite Hcm in Hb. rewrite Hlen in Hperm.
  destruct (sky_build_perm_wf A p f Hb) as (Hnf & Hpf & Hwf).
  split; [assumption|]. split; [rewrite Hpf; assumption|].
  intros i Hi.
  assert (Hpl : length p = nrows A) by (rewrite (Permutation_length Hperm); apply seq_length).
  apply (sky_solve_exact Sft f rhs x y Hwf).
  - rewrite Hnf. assumption.
  - rewrite Hpf. eapply Permutation_NoDup; [apply Permutation_sym; exact Hperm|apply seq_NoDup].
  - rewrite Hpf, Hnf. assumption.
  - rewrite Hpf, Hnf. intros k Hk. rewrite Hx. unfold pget.
    assert (Hin : In (nth k p 0) (seq 0 (nrows A))).
    { eapply Permutation_in; [exact Hperm|]. apply nth_In. lia. }
    apply in_seq in Hin. lia.
  - apply (sky_build_perm_pivots Sft Seqb A p f Hn Hb).
  - rewrite Hnf. assumption.
Qed.
End EndToEnd.

(* ------------------------------------------------------------------ *)
(* Part 6: factorize() on the full profile (dense Crout) for n = 3, by evaluating the loops
   symbolically: the stored factors multiply to the input matrix.  (A2, partial)          *)
Section DenseSmall.
Local Open Scope S_scope.
Context {S : Scalar}.
Hypothesis Sft : Sfield S.
Hypothesis Seqb : seqb_spec S.
Add Field SFieldDense : Sft.
Ltac crunchz H :=
  repeat match type of H with context [if is_zero ?x then _ else _] =>
        let E := fresh "E" in destruct (is_zero x) eqn:E; cbn in H; [discriminate H|apply (is_zero_false Seqb) in E] end.
Definition dense3 (d0 d1 d2 l10 l20 l21 u01 u02 u12 : S) (i j : nat) : S :=
  nth j (nth i [[d0; u01; u02]; [l10; d1; u12]; [l20; l21; d2]] []) s0.
Lemma crout_dense_3 (d0 d1 d2 l10 l20 l21 u01 u02 u12 : S) perm L U D :
  factorize 3 [0; 0; 1; 3]%nat ([l10; l20; l21], [u01; u02; u12], [d0; d1; d2]) = Some (L, U, D) ->
  forall i j, i < 3 -> j < 3 ->
    sumn (fun t => Lfull (mkSky 3 perm [0; 0; 1; 3]%nat L U D) i t * Ufull (mkSky 3 perm [0; 0; 1; 3]%nat L U D) t j) 3
    = dense3 d0 d1 d2 l10 l20 l21 u01 u02 u12 i j.
Proof.
  intros H i j Hi Hj. unfold factorize, crout_step, crout_U_col, crout_L_row, dot_sub in H. cbn in H.
  crunchz H. injection H as <- <- <-.
  (destruct i as [|[|[|i]]]; [| | |lia]); (destruct j as [|[|[|j]]]; [| | |lia]); cbn.
  all: try (field; auto).
  all: assert (P1 : d1 * d0 - l10 * u01 <> s0) by
      (intro Hc; apply E0; transitivity ((d1 * d0 - l10 * u01) * sinv d0); [field; assumption|rewrite Hc; ring]).
  all: assert (P2 : (d2 * d0 - l20 * u02) * (d1 * d0 - l10 * u01) - (l21 * d0 - l20 * u01) * (u12 * d0 - l10 * u02) <> s0) by
      (intro Hc; apply E1;
       transitivity (((d2 * d0 - l20 * u02) * (d1 * d0 - l10 * u01) - (l21 * d0 - l20 * u01) * (u12 * d0 - l10 * u02))
                     * sinv d0 * sinv (d1 * d0 - l10 * u01)); [field; split; assumption|rewrite Hc; ring]).
  all: repeat split; auto; apply (F_1_neq_0 Sft).
Qed.
End DenseSmall.
