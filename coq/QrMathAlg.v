(* QrMathAlg.v -- function-level algebra of elementary (Householder) reflectors
   H = I - tau v v'  over a commutative field: symmetry, involution, orthogonality, products
   H_0 H_1 ... H_(k-1), linearity.  Vectors are functions nat -> S read on indices < m.
   No model code here; used by QrMathRefl.v / QrMathCompute.v.   (C16 / A6) *)
From Amgcl Require Import Scalar Vec KernelsProofs StaticMatProofs DirectUtil.
Local Open Scope S_scope.

Section HouseAlg.
Context {S : Scalar}.
Hypothesis Sft : Sfield S.
Let SrtA : Sring S := F_R Sft.
Add Ring SRingQrAlg : SrtA.

Variable m : nat.

Definition dot (x y : nat -> S) : S := sumn (fun l => x l * y l) m.
(* (I - tau v v') x *)
Definition happ (tau : S) (v x : nat -> S) : nat -> S := fun r => x r - v r * (tau * dot v x).
(* tau = 0 (H = I)  or  tau * v'v = 2 *)
Definition ReflOK (tau : S) (v : nat -> S) : Prop := tau * tau * dot v v = tau + tau.

Lemma dot_ext (x y x' y' : nat -> S) :
  (forall l, (l < m)%nat -> x l = x' l) -> (forall l, (l < m)%nat -> y l = y' l) -> dot x y = dot x' y'.
Proof. intros Hx Hy. unfold dot. apply sumn_ext. intros l Hl. rewrite Hx, Hy by assumption. reflexivity. Qed.

Lemma dot_comm x y : dot x y = dot y x.
Proof. unfold dot. apply sumn_ext. intros; ring. Qed.

Lemma dot_add_r x y z : dot x (fun l => y l + z l) = dot x y + dot x z.
Proof. unfold dot. rewrite <- (sumn_add SrtA). apply sumn_ext. intros; ring. Qed.

Lemma dot_sub_r x y z : dot x (fun l => y l - z l) = dot x y - dot x z.
Proof. unfold dot. rewrite <- (sumn_sub SrtA). apply sumn_ext. intros; ring. Qed.

Lemma dot_scal_r a x y : dot x (fun l => a * y l) = a * dot x y.
Proof. unfold dot. rewrite <- (sumn_scal SrtA). apply sumn_ext. intros; ring. Qed.

Lemma dot_scal_r' a x y : dot x (fun l => y l * a) = dot x y * a.
Proof. unfold dot. rewrite <- (sumn_scal_r SrtA). apply sumn_ext. intros; ring. Qed.

Lemma dot_zero_r x : dot x (fun _ => s0) = s0.
Proof.
  unfold dot. transitivity (sumn (fun _ : nat => @s0 S) m); [|apply (sumn_zero SrtA)].
  apply sumn_ext. intros; ring.
Qed.

Lemma dot_happ_r tau v x y : dot y (happ tau v x) = dot y x - dot y v * (tau * dot v x).
Proof.
  unfold happ. rewrite dot_sub_r. f_equal. rewrite dot_scal_r'. reflexivity.
Qed.

Lemma happ_ext tau v v' x x' :
  (forall l, (l < m)%nat -> v l = v' l) -> (forall l, (l < m)%nat -> x l = x' l) ->
  forall r, (r < m)%nat -> happ tau v x r = happ tau v' x' r.
Proof.
  intros Hv Hx r Hr. unfold happ. rewrite (dot_ext v x v' x' Hv Hx), Hv, Hx by assumption. reflexivity.
Qed.

Lemma happ_invol tau v x : ReflOK tau v -> forall r, happ tau v (happ tau v x) r = x r.
Proof.
  intros HR r. unfold happ at 1. rewrite dot_happ_r. unfold happ. unfold ReflOK in HR.
  set (d := dot v x) in *. set (vv := dot v v) in *.
  transitivity (x r - v r * d * (tau + tau - tau * tau * vv)); [ring|]. rewrite HR. ring.
Qed.

Lemma happ_sym tau v x y : dot (happ tau v x) y = dot x (happ tau v y).
Proof.
  rewrite (dot_comm (happ tau v x) y). rewrite !dot_happ_r.
  rewrite (dot_comm y x), (dot_comm y v), (dot_comm x v). ring.
Qed.

Lemma happ_orth tau v x y : ReflOK tau v -> dot (happ tau v x) (happ tau v y) = dot x y.
Proof.
  intro HR. rewrite happ_sym. apply dot_ext; [reflexivity|]. intros l _. apply happ_invol. assumption.
Qed.

Lemma happ_add tau v x y r : happ tau v (fun l => x l + y l) r = happ tau v x r + happ tau v y r.
Proof. unfold happ. rewrite dot_add_r. ring. Qed.

Lemma happ_scal tau v a x r : happ tau v (fun l => a * x l) r = a * happ tau v x r.
Proof. unfold happ. rewrite dot_scal_r. ring. Qed.

Lemma happ_zero tau v r : happ tau v (fun _ => s0) r = s0.
Proof. unfold happ. rewrite dot_zero_r. ring. Qed.

Lemma happ_tau0 v x r : happ s0 v x r = x r.
Proof. unfold happ. ring. Qed.

(* v'x = 0  =>  H x = x *)
Lemma happ_fix tau v x r : dot v x = s0 -> happ tau v x r = x r.
Proof. intro H. unfold happ. rewrite H. ring. Qed.

(* ---------- products of reflectors ---------- *)
(* hprod k x = H_0 (H_1 (... (H_(k-1) x)));  hprodT k x = H_(k-1) (... (H_0 x)) *)
Fixpoint hprod (taus : nat -> S) (vs : nat -> nat -> S) (k : nat) (x : nat -> S) : nat -> S :=
  match k with
  | O => x
  | Datatypes.S k' => hprod taus vs k' (happ (taus k') (vs k') x)
  end.
Fixpoint hprodT (taus : nat -> S) (vs : nat -> nat -> S) (k : nat) (x : nat -> S) : nat -> S :=
  match k with
  | O => x
  | Datatypes.S k' => happ (taus k') (vs k') (hprodT taus vs k' x)
  end.

Lemma hprod_ext taus vs taus' vs' k :
  (forall j, (j < k)%nat -> taus j = taus' j) ->
  (forall j l, (j < k)%nat -> (l < m)%nat -> vs j l = vs' j l) ->
  forall x x', (forall l, (l < m)%nat -> x l = x' l) ->
  forall r, (r < m)%nat -> hprod taus vs k x r = hprod taus' vs' k x' r.
Proof.
  induction k as [|k IH]; intros Ht Hv x x' Hx r Hr; simpl; [apply Hx; assumption|].
  apply IH; try assumption.
  - intros j Hj. apply Ht. lia.
  - intros j l Hj Hl. apply Hv; [lia|assumption].
  - intros l Hl. rewrite (Ht k) by lia. apply happ_ext; [|assumption|assumption].
    intros l' Hl'. apply Hv; [lia|assumption].
Qed.

Lemma hprodT_ext taus vs taus' vs' k :
  (forall j, (j < k)%nat -> taus j = taus' j) ->
  (forall j l, (j < k)%nat -> (l < m)%nat -> vs j l = vs' j l) ->
  forall x x', (forall l, (l < m)%nat -> x l = x' l) ->
  forall r, (r < m)%nat -> hprodT taus vs k x r = hprodT taus' vs' k x' r.
Proof.
  induction k as [|k IH]; intros Ht Hv x x' Hx r Hr; simpl; [apply Hx; assumption|].
  rewrite (Ht k) by lia. apply happ_ext; [| |assumption].
  - intros l Hl. apply Hv; [lia|assumption].
  - intros l Hl. apply IH; try assumption.
    + intros j Hj. apply Ht. lia.
    + intros j l' Hj Hl'. apply Hv; [lia|assumption].
Qed.

Section Prod.
Variable taus : nat -> S.
Variable vs : nat -> nat -> S.

Lemma hprod_sym k : forall x y, dot (hprod taus vs k x) y = dot x (hprodT taus vs k y).
Proof.
  induction k as [|k IH]; intros x y; simpl; [reflexivity|].
  rewrite IH. apply happ_sym.
Qed.

Lemma hprod_orth k : (forall j, (j < k)%nat -> ReflOK (taus j) (vs j)) ->
  forall x y, dot (hprod taus vs k x) (hprod taus vs k y) = dot x y.
Proof.
  induction k as [|k IH]; intros HR x y; simpl; [reflexivity|].
  rewrite IH by (intros; apply HR; lia). apply happ_orth. apply HR. lia.
Qed.

Lemma hprodT_orth k : (forall j, (j < k)%nat -> ReflOK (taus j) (vs j)) ->
  forall x y, dot (hprodT taus vs k x) (hprodT taus vs k y) = dot x y.
Proof.
  induction k as [|k IH]; intros HR x y; simpl; [reflexivity|].
  rewrite happ_orth by (apply HR; lia). apply IH. intros; apply HR; lia.
Qed.

(* H_0...H_(k-1) H_(k-1)...H_0 = I *)
Lemma hprod_hprodT k : (forall j, (j < k)%nat -> ReflOK (taus j) (vs j)) ->
  forall x r, (r < m)%nat -> hprod taus vs k (hprodT taus vs k x) r = x r.
Proof.
  induction k as [|k IH]; intros HR x r Hr; simpl; [reflexivity|].
  rewrite <- (IH (fun j Hj => HR j (Nat.lt_lt_succ_r _ _ Hj)) x r Hr).
  apply hprod_ext; try reflexivity; [|assumption].
  intros l _. apply happ_invol. apply HR. lia.
Qed.

Lemma hprodT_hprod k : (forall j, (j < k)%nat -> ReflOK (taus j) (vs j)) ->
  forall x r, (r < m)%nat -> hprodT taus vs k (hprod taus vs k x) r = x r.
Proof.
  induction k as [|k IH]; intros HR x r Hr; simpl; [reflexivity|].
  transitivity (happ (taus k) (vs k) (happ (taus k) (vs k) x) r); [|apply happ_invol; apply HR; lia].
  apply happ_ext; [reflexivity| |assumption].
  intros l Hl. apply IH; [|assumption]. intros; apply HR; lia.
Qed.

Lemma hprod_add k : forall x y r, (r < m)%nat ->
  hprod taus vs k (fun l => x l + y l) r = hprod taus vs k x r + hprod taus vs k y r.
Proof.
  induction k as [|k IH]; intros x y r Hr; simpl; [reflexivity|].
  rewrite <- IH by assumption. apply hprod_ext; try reflexivity; [|assumption].
  intros l _. apply happ_add.
Qed.

Lemma hprod_scal k : forall a x r, (r < m)%nat ->
  hprod taus vs k (fun l => a * x l) r = a * hprod taus vs k x r.
Proof.
  induction k as [|k IH]; intros a x r Hr; simpl; [reflexivity|].
  rewrite <- IH by assumption. apply hprod_ext; try reflexivity; [|assumption].
  intros l _. apply happ_scal.
Qed.

Lemma hprod_zero k : forall r, (r < m)%nat -> hprod taus vs k (fun _ => s0) r = s0.
Proof.
  induction k as [|k IH]; intros r Hr; simpl; [reflexivity|].
  transitivity (hprod taus vs k (fun _ => s0) r); [|apply IH; assumption].
  apply hprod_ext; try reflexivity; [|assumption].
  intros l _. apply happ_zero.
Qed.

(* H_0...H_(k-1) (sum_j a_j E_j) = sum_j a_j H_0...H_(k-1) E_j *)
Lemma hprod_sumn k (a : nat -> S) (E : nat -> nat -> S) p : forall r, (r < m)%nat ->
  hprod taus vs k (fun l => sumn (fun j => a j * E j l) p) r = sumn (fun j => a j * hprod taus vs k (E j) r) p.
Proof.
  induction p as [|p IH]; intros r Hr; simpl.
  - apply hprod_zero. assumption.
  - rewrite hprod_add by assumption. rewrite IH by assumption. f_equal. apply hprod_scal. assumption.
Qed.

End Prod.
End HouseAlg.
