(* SchedProofs.v -- proofs about Sched.v / GsSched.v / IluSched.v (C09).
   Parts 1-6 need no algebraic law: they hold for every value type (floats included). *)
From Coq Require Import Permutation ZifyBool.
From Amgcl Require Import Scalar Vec Crs Kernels MatOps Relax Sched GsSched IluSched.

(* ================================================================================ *)
(* 1. cells                                                                          *)
Section Sem.
Variable V : Type.
Variable d : V.
Local Notation state := (list V).
Local Notation step := (step V).
Local Notation rd := (rd V d).
Local Notation respects := (respects V d).

Lemma upd_length (st : state) i v : length (upd st i v) = length st.
Proof. revert i; induction st as [|a st IH]; intros [|i]; simpl; auto. Qed.

Lemma rd_upd_other (st : state) i c v : c <> i -> rd (upd st i v) c = rd st c.
Proof.
  unfold rd. revert i c; induction st as [|a st IH]; intros [|i] [|c] H; simpl; auto; try congruence.
Qed.

Lemma rd_upd_same (st : state) i v : i < length st -> rd (upd st i v) i = v.
Proof.
  unfold rd. revert i; induction st as [|a st IH]; intros [|i] H; simpl in *; try lia; auto.
  apply IH; lia.
Qed.

Lemma upd_comm (st : state) i j a b : i <> j -> upd (upd st i a) j b = upd (upd st j b) i a.
Proof.
  revert i j; induction st as [|x st IH]; intros [|i] [|j] H; simpl; auto; try congruence.
  f_equal. apply IH. congruence.
Qed.

(* ================================================================================ *)
(* 2. independent steps commute                                                      *)
Lemma exec_app (l1 l2 : list step) st : exec (l1 ++ l2) st = exec l2 (exec l1 st).
Proof. unfold exec. apply fold_left_app. Qed.

Lemma indep_sym (a b : step) : indep a b -> indep b a.
Proof. unfold indep. intros (H1 & H2 & H3). repeat split; auto. Qed.

Lemma fn_upd_other (s : step) st w v : respects s -> ~ In w (reads s) -> fn s (upd st w v) = fn s st.
Proof.
  intros Hr Hn. apply Hr. intros c Hc. apply rd_upd_other. intro; subst; auto.
Qed.

Lemma exec1_comm (a b : step) st : respects a -> respects b -> indep a b ->
  exec1 b (exec1 a st) = exec1 a (exec1 b st).
Proof.
  intros Ha Hb (Hw & Hab & Hba). unfold exec1.
  rewrite (fn_upd_other b st (wr a)) by auto.
  rewrite (fn_upd_other a st (wr b)) by auto.
  apply upd_comm. exact Hw.
Qed.

(* a step that is independent of everything in front of it can go first *)
Lemma exec_move_front (a : step) l1 l2 st : respects a ->
  (forall b, In b l1 -> respects b /\ indep a b) ->
  exec (l1 ++ a :: l2) st = exec (a :: l1 ++ l2) st.
Proof.
  intro Ha. revert st. induction l1 as [|b l1 IH]; intros st H; [reflexivity|].
  simpl app. change (exec (b :: l1 ++ a :: l2) st) with (exec (l1 ++ a :: l2) (exec1 b st)).
  rewrite IH by (intros; apply H; right; auto).
  destruct (H b (or_introl eq_refl)) as [Hb Hi].
  change (exec (l1 ++ l2) (exec1 a (exec1 b st)) = exec (l1 ++ l2) (exec1 b (exec1 a st))).
  rewrite (exec1_comm a b) by auto. reflexivity.
Qed.

(* ================================================================================ *)
(* 3. Bernstein's theorem for one level                                              *)
Lemma nth_shrink (ts1 ts2 : list (list step)) s t i a :
  In a (nth i (ts1 ++ t :: ts2) []) -> In a (nth i (ts1 ++ (s :: t) :: ts2) []).
Proof.
  intro H. destruct (Nat.lt_ge_cases i (length ts1)) as [Hl|Hl].
  - rewrite app_nth1 in * by auto. auto.
  - rewrite app_nth2 in * by auto. destruct (i - length ts1) as [|k]; simpl in *; auto.
Qed.

Lemma cross_indep_shrink ts1 ts2 (s : step) t :
  cross_indep (ts1 ++ (s :: t) :: ts2) -> cross_indep (ts1 ++ t :: ts2).
Proof.
  intros H i j a b Hij Ha Hb. apply (H i j); auto using nth_shrink.
Qed.

Lemma Forall_shrink (P : step -> Prop) ts1 ts2 (s : step) t :
  Forall (Forall P) (ts1 ++ (s :: t) :: ts2) -> Forall (Forall P) (ts1 ++ t :: ts2) /\ P s.
Proof.
  intro H. apply Forall_app in H. destruct H as [H1 H2]. inversion H2 as [|x y Hx Hy]; subst.
  inversion Hx; subst. split; auto. apply Forall_app. split; auto.
Qed.

Lemma in_concat_nth (ts : list (list step)) b : In b (concat ts) ->
  exists i, i < length ts /\ In b (nth i ts []).
Proof.
  induction ts as [|t ts IH]; simpl; [tauto|]. intro H. apply in_app_or in H. destruct H as [H|H].
  - exists 0. split; [lia|auto].
  - destruct (IH H) as (i & Hi & Hb). exists (Datatypes.S i). split; [lia|auto].
Qed.

Theorem bernstein ts l : Interleave ts l -> Forall (Forall respects) ts -> cross_indep ts ->
  forall st, exec l st = exec (concat ts) st.
Proof.
  induction 1 as [ts Hnil | ts1 s t ts2 l Hil IH]; intros Hr Hc st.
  - assert (concat ts = []) as ->; [|reflexivity].
    clear Hr Hc. induction Hnil as [|x ts Hx _ IHn]; simpl; [reflexivity|]. subst x. exact IHn.
  - destruct (Forall_shrink _ _ _ _ _ Hr) as [Hr' Hs].
    change (exec (s :: l) st) with (exec l (exec1 s st)).
    rewrite IH by (auto; eapply cross_indep_shrink; eauto).
    rewrite !concat_app. simpl concat.
    change ((s :: t) ++ concat ts2) with (s :: t ++ concat ts2).
    rewrite (exec_move_front s (concat ts1) (t ++ concat ts2) st Hs).
    + reflexivity.
    + intros b Hb. destruct (in_concat_nth _ _ Hb) as (i & Hi & Hbi). split.
      * apply Forall_app in Hr. destruct Hr as [Hr1 _].
        assert (Hf : Forall respects (nth i ts1 [])).
        { rewrite Forall_forall in Hr1. apply Hr1. apply nth_In. exact Hi. }
        rewrite Forall_forall in Hf. auto.
      * apply (Hc (length ts1) i); [lia| |].
        -- rewrite app_nth2 by lia. rewrite Nat.sub_diag. simpl. auto.
        -- rewrite app_nth1 by lia. exact Hbi.
Qed.

(* ... and for a region: levels separated by barriers *)
Theorem bernstein_levels lv l : InterleaveLevels lv l ->
  Forall (fun ts => Forall (Forall respects) ts) lv -> Forall cross_indep lv ->
  forall st, exec l st = exec (seq_of_levels lv) st.
Proof.
  induction 1 as [|ts l rest lr Hil Hrest IH]; intros Hr Hc st; [reflexivity|].
  inversion Hr; subst. inversion Hc; subst.
  unfold seq_of_levels. simpl. rewrite !exec_app.
  rewrite (bernstein ts l) by auto. apply IH; auto.
Qed.

(* ================================================================================ *)
(* 4. the relation is inhabited: the in-order run and every scripted run are
      interleavings (so the theorems above are not vacuous)                          *)
Lemma Interleave_cons_nil ts (l : list step) : Interleave ts l -> Interleave ([] :: ts) l.
Proof.
  induction 1 as [ts H | ts1 s t ts2 l H IH].
  - apply il_nil. constructor; auto.
  - apply (il_step V ([] :: ts1) s t ts2 l). exact IH.
Qed.

Lemma Interleave_concat (ts : list (list step)) : Interleave ts (concat ts).
Proof.
  induction ts as [|t ts IH]; simpl.
  - apply il_nil. constructor.
  - induction t as [|s t IHt]; simpl.
    + apply Interleave_cons_nil. exact IH.
    + apply (il_step V [] s t ts). exact IHt.
Qed.

Lemma take_from_spec (ts : list (list step)) k s ts' : take_from ts k = Some (s, ts') ->
  exists ts1 t ts2, ts = ts1 ++ (s :: t) :: ts2 /\ ts' = ts1 ++ t :: ts2.
Proof.
  revert k ts'. induction ts as [|t ts IH]; intros k ts' H; [destruct k; discriminate|].
  destruct k as [|k].
  - destruct t as [|s0 t]; simpl in H; [discriminate|]. inversion H; subst.
    exists [], t, ts. auto.
  - simpl in H. destruct (take_from ts k) as [[s0 rest']|] eqn:E; [|destruct t; discriminate].
    assert (s0 = s /\ t :: rest' = ts') as [-> <-] by (destruct t; inversion H; auto).
    destruct (IH _ _ E) as (ts1 & t1 & ts2 & -> & ->).
    exists (t :: ts1), t1, ts2. auto.
Qed.

Lemma pick_Interleave choice (ts : list (list step)) : Interleave ts (pick choice ts).
Proof.
  revert ts. induction choice as [|k ch IH]; intro ts; simpl.
  - apply Interleave_concat.
  - destruct (take_from ts k) as [[s ts']|] eqn:E; [|apply IH].
    destruct (take_from_spec _ _ _ _ E) as (ts1 & t & ts2 & -> & ->).
    apply il_step. apply IH.
Qed.

Lemma pick_levels_Interleave choices (lv : list (list (list step))) :
  InterleaveLevels lv (pick_levels choices lv).
Proof.
  revert choices. induction lv as [|ts lv IH]; intro choices; simpl.
  - constructor.
  - constructor; [apply pick_Interleave | apply IH].
Qed.

End Sem.

(* ================================================================================ *)
(* 5. reordering: two orders of the same rows that agree on the relative order of
      every conflicting pair give the same state (trace equivalence)                 *)
Inductive before : list nat -> nat -> nat -> Prop :=
| bf_here a l b : In b l -> before (a :: l) a b
| bf_later c l a b : before l a b -> before (c :: l) a b.

Lemma before_in_l l a b : before l a b -> In a l.
Proof. induction 1; simpl; auto. Qed.
Lemma before_in_r l a b : before l a b -> In b l.
Proof. induction 1; simpl; auto. Qed.

Lemma before_app_l l1 l2 a b : before l1 a b -> before (l1 ++ l2) a b.
Proof.
  induction 1; simpl.
  - apply bf_here. apply in_or_app; auto.
  - apply bf_later; auto.
Qed.
Lemma before_app_r l1 l2 a b : before l2 a b -> before (l1 ++ l2) a b.
Proof. intro H. induction l1; simpl; auto. apply bf_later; auto. Qed.
Lemma before_app_cross l1 l2 a b : In a l1 -> In b l2 -> before (l1 ++ l2) a b.
Proof.
  intros Ha Hb. induction l1 as [|x l1 IH]; [destruct Ha|].
  simpl. destruct Ha as [->|Ha].
  - apply bf_here. apply in_or_app; auto.
  - apply bf_later; auto.
Qed.
Lemma before_app_inv l1 l2 a b : before (l1 ++ l2) a b ->
  before l1 a b \/ before l2 a b \/ (In a l1 /\ In b l2).
Proof.
  induction l1 as [|x l1 IH]; simpl; intro H; [auto|].
  inversion H; subst.
  - match goal with Hb : In b (l1 ++ l2) |- _ => apply in_app_or in Hb; destruct Hb as [Hb|Hb] end.
    + left. apply bf_here; auto.
    + right; right; auto.
  - match goal with Hb : before (l1 ++ l2) a b |- _ => destruct (IH Hb) as [H1|[H1|[H1 H2]]] end.
    + left. apply bf_later; auto.
    + auto.
    + right; right; auto.
Qed.
Lemma before_insert l1 l2 x a b : before (l1 ++ l2) a b -> before (l1 ++ x :: l2) a b.
Proof.
  intro H. destruct (before_app_inv _ _ _ _ H) as [H1|[H1|[H1 H2]]].
  - apply before_app_l; auto.
  - apply before_app_r. apply bf_later; auto.
  - apply before_app_cross; simpl; auto.
Qed.
Lemma before_seq s n a b : before (seq s n) a b -> a < b.
Proof.
  revert s; induction n as [|n IH]; intro s; simpl; intro H; inversion H; subst.
  - match goal with Hb : In b (seq _ _) |- _ => apply in_seq in Hb end. lia.
  - eapply IH; eauto.
Qed.
Lemma before_rev l a b : before (rev l) a b -> before l b a.
Proof.
  induction l as [|x l IH]; simpl; intro H; [inversion H|].
  destruct (before_app_inv _ _ _ _ H) as [H1|[H1|[H1 H2]]].
  - apply bf_later; auto.
  - inversion H1; subst; [match goal with Hb : In _ [] |- _ => destruct Hb end|].
    match goal with Hb : before [] _ _ |- _ => inversion Hb end.
  - destruct H2 as [->|[]]. apply bf_here. apply in_rev; auto.
Qed.

Section Trace.
Variable V : Type.
Variable d : V.
Variable stp : nat -> step V.
Hypothesis Hresp : forall i, respects V d (stp i).

Theorem trace_equiv l : forall l', NoDup l -> Permutation l l' ->
  (forall a b, before l a b -> before l' b a -> indep (stp a) (stp b)) ->
  forall st, exec (map stp l) st = exec (map stp l') st.
Proof.
  induction l as [|a t IH]; intros l' Hnd Hp Hord st.
  - apply Permutation_nil in Hp. subst. reflexivity.
  - assert (Hin : In a l') by (eapply Permutation_in; [exact Hp|simpl; auto]).
    destruct (in_split _ _ Hin) as (l1 & l2 & ->).
    assert (Hp' : Permutation t (l1 ++ l2)) by (eapply Permutation_cons_app_inv; eauto).
    inversion Hnd as [|x y Hna Hnd']; subst.
    rewrite map_app. simpl map.
    rewrite (exec_move_front V d (stp a) (map stp l1) (map stp l2) st (Hresp a)).
    + change (exec (stp a :: map stp l1 ++ map stp l2) st) with (exec (map stp l1 ++ map stp l2) (exec1 (stp a) st)).
      rewrite <- map_app. simpl. change (exec (stp a :: map stp t) st) with (exec (map stp t) (exec1 (stp a) st)).
      apply IH; auto.
      intros x y Hxy Hyx. apply Hord.
      * apply bf_later; auto.
      * apply before_insert; auto.
    + intros b Hb. apply in_map_iff in Hb. destruct Hb as (j & <- & Hj). split; [apply Hresp|].
      apply Hord.
      * apply bf_here. eapply Permutation_in; [apply Permutation_sym; exact Hp'|]. apply in_or_app; auto.
      * apply before_app_cross; simpl; auto.
Qed.

End Trace.

(* ================================================================================ *)
(* 6. a valid row schedule gives the serial result under every interleaving          *)
Lemma existsb_eqb_In i l : existsb (Nat.eqb i) l = true <-> In i l.
Proof.
  rewrite existsb_exists. split.
  - intros (x & Hx & He). apply Nat.eqb_eq in He. subst; auto.
  - intro H. exists i. split; auto. apply Nat.eqb_refl.
Qed.

Lemma before_neq l a b : NoDup l -> before l a b -> a <> b.
Proof.
  intros Hnd H. induction H as [a l b Hb | c l a b H IH].
  - inversion Hnd; subst. intro; subst; auto.
  - inversion Hnd; auto.
Qed.

Lemma NoDup_app_remove_l {X} (l1 l2 : list X) : NoDup (l1 ++ l2) -> NoDup l2.
Proof. induction l1 as [|x l1 IH]; simpl; auto. intro H. inversion H; auto. Qed.
Lemma NoDup_app_remove_r {X} (l1 l2 : list X) : NoDup (l1 ++ l2) -> NoDup l1.
Proof.
  induction l1 as [|x l1 IH]; simpl; intro H; [constructor|]. inversion H; subst.
  constructor; auto. intro Hin. match goal with Hn : ~ In _ _ |- _ => apply Hn end. apply in_or_app; auto.
Qed.

Lemma NoDup_concat_in {X} (L : list (list X)) l : NoDup (concat L) -> In l L -> NoDup l.
Proof.
  induction L as [|x L IH]; simpl; [tauto|]. intros Hnd [->|Hin].
  - eapply NoDup_app_remove_r; eauto.
  - apply IH; auto. eapply NoDup_app_remove_l; eauto.
Qed.

Lemma NoDup_app_disj {X} (l1 l2 : list X) a : NoDup (l1 ++ l2) -> In a l1 -> In a l2 -> False.
Proof.
  induction l1 as [|x l1 IH]; simpl; [tauto|]. intros Hnd [->|H1] H2.
  - inversion Hnd; subst. match goal with Hn : ~ In _ _ |- _ => apply Hn end. apply in_or_app; auto.
  - inversion Hnd; subst. eapply IH; eauto.
Qed.

Lemma NoDup_concat_nth {X} (ts : list (list X)) i j a : NoDup (concat ts) -> i <> j ->
  In a (nth i ts []) -> In a (nth j ts []) -> False.
Proof.
  revert i j. induction ts as [|t ts IH]; intros i j Hnd Hij Hi Hj; [destruct i; destruct Hi|].
  simpl in Hnd. destruct i as [|i], j as [|j]; simpl in *; try lia.
  - eapply NoDup_app_disj; [exact Hnd|exact Hi|].
    destruct (Nat.lt_ge_cases j (length ts)) as [Hl|Hl].
    + apply in_concat. exists (nth j ts []). split; auto. apply nth_In; auto.
    + rewrite nth_overflow in Hj by auto. destruct Hj.
  - eapply NoDup_app_disj; [exact Hnd|exact Hj|].
    destruct (Nat.lt_ge_cases i (length ts)) as [Hl|Hl].
    + apply in_concat. exists (nth i ts []). split; auto. apply nth_In; auto.
    + rewrite nth_overflow in Hi by auto. destruct Hi.
  - apply (IH i j); auto. eapply NoDup_app_remove_l; eauto.
Qed.

(* level numbers *)
Lemma level_in_spec sch a : In a (flat_sched sch) ->
  exists lv, nth_error sch (level_in sch a) = Some lv /\ In a (flat_level lv).
Proof.
  induction sch as [|lv sch IH]; simpl; [tauto|]. unfold flat_sched. simpl. intro H.
  destruct (existsb (Nat.eqb a) (flat_level lv)) eqn:E.
  - exists lv. split; auto. apply existsb_eqb_In; auto.
  - apply in_app_or in H. destruct H as [H|H].
    + apply existsb_eqb_In in H. congruence.
    + simpl. apply IH. exact H.
Qed.

Lemma level_in_before sch a b : NoDup (flat_sched sch) -> before (flat_sched sch) a b ->
  level_in sch a <= level_in sch b.
Proof.
  induction sch as [|lv sch IH]; intros Hnd H; [inversion H|].
  unfold flat_sched in *. simpl in *.
  destruct (existsb (Nat.eqb a) (flat_level lv)) eqn:Ea; [lia|].
  destruct (existsb (Nat.eqb b) (flat_level lv)) eqn:Eb.
  - exfalso. apply existsb_eqb_In in Eb.
    destruct (before_app_inv _ _ _ _ H) as [H1|[H1|[H1 H2]]].
    + apply before_in_l in H1. apply existsb_eqb_In in H1. congruence.
    + apply before_in_r in H1. eapply NoDup_app_disj; eauto.
    + apply existsb_eqb_In in H1. congruence.
  - apply le_n_S. apply IH; [eapply NoDup_app_remove_l; eauto|].
    destruct (before_app_inv _ _ _ _ H) as [H1|[H1|[H1 H2]]]; auto.
    + apply before_in_l in H1. apply existsb_eqb_In in H1. congruence.
    + apply existsb_eqb_In in H1. congruence.
Qed.

Lemma serial_before_asym f a b : serial_before f a b = true -> serial_before f b a = false.
Proof. unfold serial_before. destruct f; intro H; apply Nat.ltb_lt in H; apply Nat.ltb_ge; lia. Qed.

Lemma before_sweep_order f n a b : before (sweep_order f n) a b ->
  serial_before f a b = true /\ a < n /\ b < n.
Proof.
  intro H. assert (Ha := before_in_l _ _ _ H). assert (Hb := before_in_r _ _ _ H).
  unfold sweep_order, serial_before in *. destruct f.
  - apply in_seq in Ha, Hb. apply before_seq in H. split; [apply Nat.ltb_lt|]; lia.
  - apply in_rev in Ha, Hb. apply in_seq in Ha, Hb. apply before_rev, before_seq in H.
    split; [apply Nat.ltb_lt|]; lia.
Qed.

Lemma sweep_order_perm f n : Permutation (sweep_order f n) (seq 0 n).
Proof. destruct f; simpl; [apply Permutation_refl | apply Permutation_sym, Permutation_rev]. Qed.

Section Valid.
Variable V : Type.
Variable d : V.
Variable stp : nat -> step V.
Variable rds : nat -> list nat.
Hypothesis Hresp : forall i, respects V d (stp i).
Hypothesis Hwr : forall i, wr (stp i) = i.
Hypothesis Hreads : forall i c, In c (reads (stp i)) -> c = i \/ In c (rds i).

Lemma seq_of_levels_map (sch : rsched) :
  seq_of_levels (map (map (map stp)) sch) = map stp (flat_sched sch).
Proof.
  unfold seq_of_levels, flat_sched, flat_level. rewrite concat_map. f_equal.
  rewrite !map_map. apply map_ext. intro lv. rewrite concat_map. reflexivity.
Qed.

Lemma valid_cross_indep n f sch lv : sched_valid rds n f sch -> In lv sch ->
  cross_indep (map (map stp) lv).
Proof.
  intros (Hp & Hcf & _) Hlv i j a b Hij Ha Hb.
  assert (Hnd : NoDup (flat_level lv)).
  { apply (NoDup_concat_in (map flat_level sch)).
    - eapply Permutation_NoDup; [apply Permutation_sym; exact Hp|apply seq_NoDup].
    - apply in_map; auto. }
  change (@nil (step V)) with (map stp []) in Ha, Hb. rewrite map_nth in Ha, Hb.
  apply in_map_iff in Ha, Hb. destruct Ha as (x & <- & Hx). destruct Hb as (y & <- & Hy).
  assert (Hxy : x <> y).
  { intro; subst. eapply (NoDup_concat_nth lv i j y); eauto. }
  assert (Hin : forall k z, In z (nth k lv []) -> In z (flat_level lv)).
  { intros k z Hz. destruct (Nat.lt_ge_cases k (length lv)) as [Hl|Hl].
    - apply in_concat. exists (nth k lv []). split; auto. apply nth_In; auto.
    - rewrite nth_overflow in Hz by auto. destruct Hz. }
  unfold indep. rewrite !Hwr. repeat split; auto.
  - intro H. destruct (Hreads _ _ H) as [->|H']; [congruence|].
    apply (Hcf lv y x); eauto.
  - intro H. destruct (Hreads _ _ H) as [->|H']; [congruence|].
    apply (Hcf lv x y); eauto.
Qed.

Theorem sched_valid_sound n f sch : sched_valid rds n f sch ->
  forall l, InterleaveLevels (map (map (map stp)) sch) l ->
  forall st, exec l st = exec (map stp (sweep_order f n)) st.
Proof.
  intros Hv l Hil st.
  rewrite (bernstein_levels V d _ _ Hil).
  - rewrite seq_of_levels_map.
    destruct Hv as (Hp & Hcf & Hdep).
    assert (Hnd : NoDup (flat_sched sch)).
    { eapply Permutation_NoDup; [apply Permutation_sym; exact Hp|apply seq_NoDup]. }
    apply (trace_equiv V d stp Hresp); auto.
    + eapply Permutation_trans; [exact Hp|apply Permutation_sym, sweep_order_perm].
    + intros a b Hab Hba.
      assert (Hne := before_neq _ _ _ Hnd Hab).
      destruct (before_sweep_order _ _ _ _ Hba) as (Hsb & Hbn & Han).
      assert (Hle := level_in_before _ _ _ Hnd Hab).
      unfold indep. rewrite !Hwr. repeat split; auto.
      * intro H. destruct (Hreads _ _ H) as [->|H']; [congruence|].
        (* b reads a, b is earlier in the serial order: a must not be in an earlier or the same level *)
        assert (Hnlt : ~ level_in sch a < level_in sch b).
        { intro Hlt. apply (Hdep b a Hbn H' Hne Han) in Hlt.
          rewrite (serial_before_asym _ _ _ Hsb) in Hlt. discriminate. }
        assert (Heq : level_in sch a = level_in sch b) by lia.
        destruct (level_in_spec sch a (before_in_l _ _ _ Hab)) as (lva & Hlva & Hina).
        destruct (level_in_spec sch b (before_in_r _ _ _ Hab)) as (lvb & Hlvb & Hinb).
        rewrite Heq in Hlva. rewrite Hlva in Hlvb. inversion Hlvb; subst.
        apply (Hcf lvb b a); auto. eapply nth_error_In; eauto.
      * intro H. destruct (Hreads _ _ H) as [->|H']; [congruence|].
        assert (Hlt : level_in sch b < level_in sch a).
        { apply (Hdep a b Han H'); auto. }
        lia.
  - rewrite Forall_forall. intros ts Hts. apply in_map_iff in Hts. destruct Hts as (lv & <- & _).
    rewrite Forall_forall. intros t Ht. apply in_map_iff in Ht. destruct Ht as (r & <- & _).
    rewrite Forall_forall. intros s Hs. apply in_map_iff in Hs. destruct Hs as (i & <- & _). apply Hresp.
  - rewrite Forall_forall. intros ts Hts. apply in_map_iff in Hts. destruct Hts as (lv & <- & Hlv).
    eapply valid_cross_indep; eauto.
Qed.

End Valid.

(* ================================================================================ *)
(* 7. the boolean check implies validity (so a dumped schedule that passes the check
      is covered by sched_valid_sound)                                               *)
Lemma sched_is_perm_sound n sch : sched_is_perm n sch = true -> Permutation (flat_sched sch) (seq 0 n).
Proof.
  unfold sched_is_perm. intro H. apply andb_prop in H. destruct H as [Hl Hc].
  apply Nat.eqb_eq in Hl. apply Permutation_sym. apply NoDup_Permutation_bis.
  - apply seq_NoDup.
  - rewrite seq_length. lia.
  - intros i Hi. rewrite forallb_forall in Hc. specialize (Hc i Hi). apply Nat.eqb_eq in Hc.
    apply (count_occ_In Nat.eq_dec). lia.
Qed.

Lemma level_conflicts_nil reads lv i j : level_conflicts reads lv = [] ->
  In i lv -> In j lv -> i <> j -> ~ In j (reads i).
Proof.
  unfold level_conflicts. intros H Hi Hj Hij Hr.
  assert (Hin : In (i, j) (flat_map (fun i0 => map (fun j0 => (i0, j0))
            (filter (fun j0 => negb (Nat.eqb i0 j0) && existsb (Nat.eqb j0) (reads i0)) lv)) lv)).
  { apply in_flat_map. exists i. split; auto. apply in_map. apply filter_In. split; auto.
    apply andb_true_intro. split.
    - apply negb_true_iff. apply Nat.eqb_neq. auto.
    - apply existsb_eqb_In. auto. }
  rewrite H in Hin. destruct Hin.
Qed.

Theorem sched_ok_valid reads n f sch : sched_ok reads n f sch = true -> sched_valid reads n f sch.
Proof.
  unfold sched_ok. intro H. apply andb_prop in H. destruct H as [H Hd]. apply andb_prop in H.
  destruct H as [Hp Hc]. split; [apply sched_is_perm_sound; auto|]. split.
  - intros lv i j Hlv Hi Hj Hij. unfold level_conflict_free in Hc. rewrite forallb_forall in Hc.
    specialize (Hc lv Hlv). destruct (level_conflicts reads (flat_level lv)) eqn:E; [|discriminate].
    eapply level_conflicts_nil; eauto.
  - intros i c Hi Hc' Hne Hcn. unfold deps_respected in Hd. rewrite forallb_forall in Hd.
    assert (Hi' : In i (seq 0 n)) by (apply in_seq; lia). specialize (Hd i Hi').
    rewrite forallb_forall in Hd. specialize (Hd c Hc').
    apply orb_prop in Hd. destruct Hd as [Hd|Hd].
    + apply orb_prop in Hd. destruct Hd as [Hd|Hd].
      * apply Nat.eqb_eq in Hd. congruence.
      * apply negb_true_iff in Hd. apply Nat.ltb_ge in Hd. lia.
    + apply Bool.eqb_prop in Hd. rewrite Hd. apply Nat.ltb_lt.
Qed.

(* ================================================================================ *)
(* 8. the schedule construction                                                      *)
(* 8a. chunking: the nt slices of a level cover it exactly once, in order            *)
Lemma firstn_slice {X} (l : list X) b e : b <= e -> firstn b l ++ slice l b e = firstn e l.
Proof.
  unfold slice. revert l e. induction b as [|b IH]; intros l e H.
  - simpl. rewrite Nat.sub_0_r. reflexivity.
  - destruct e as [|e]; [lia|]. destruct l as [|x l]; simpl.
    + rewrite firstn_nil. reflexivity.
    + f_equal. apply IH. lia.
Qed.

Lemma concat_slices {X} (l : list X) (b : nat -> nat) k : b 0 = 0 ->
  (forall t, b t <= b (Datatypes.S t)) ->
  concat (map (fun t => slice l (b t) (b (Datatypes.S t))) (seq 0 k)) = firstn (b k) l.
Proof.
  intros H0 Hm. induction k as [|k IH].
  - simpl. rewrite H0. reflexivity.
  - rewrite seq_S, map_app, concat_app, IH. simpl. rewrite app_nil_r. apply firstn_slice. apply Hm.
Qed.

Lemma chunk_size_covers len nt : 1 <= nt -> len <= nt * chunk_size len nt.
Proof.
  intro H. unfold chunk_size.
  pose proof (Nat.div_mod (len + nt - 1) nt ltac:(lia)) as Hd.
  pose proof (Nat.mod_upper_bound (len + nt - 1) nt ltac:(lia)) as Hr.
  lia.
Qed.

Lemma chunk_end_next len nt t : chunk_end len nt t = chunk_beg len nt (Datatypes.S t).
Proof. unfold chunk_end, chunk_beg. simpl. lia. Qed.

Theorem omp_chunks_concat {X} nt (l : list X) : 1 <= nt -> concat (omp_chunks nt l) = l.
Proof.
  intro H. unfold omp_chunks.
  rewrite (map_ext _ (fun t => slice l (chunk_beg (length l) nt t) (chunk_beg (length l) nt (Datatypes.S t))))
    by (intro t; rewrite chunk_end_next; reflexivity).
  rewrite concat_slices.
  - assert (chunk_beg (length l) nt nt = length l) as ->.
    { unfold chunk_beg. pose proof (chunk_size_covers (length l) nt H). lia. }
    apply firstn_all.
  - reflexivity.
  - intro t. unfold chunk_beg. simpl. lia.
Qed.

Lemma omp_chunks_length {X} nt (l : list X) : length (omp_chunks nt l) = nt.
Proof. unfold omp_chunks. rewrite map_length, seq_length. reflexivity. Qed.

(* 8b. counting sort by level: the level lists partition 0..n-1 *)
Lemma filter_lt_S (f : nat -> nat) l m :
  Permutation (filter (fun x => f x <? Datatypes.S m) l)
              (filter (fun x => f x <? m) l ++ filter (fun x => f x =? m) l).
Proof.
  induction l as [|a l IH]; cbn [filter app]; [constructor|].
  destruct (Nat.ltb_spec (f a) (Datatypes.S m)); destruct (Nat.ltb_spec (f a) m);
    destruct (Nat.eqb_spec (f a) m); try lia; cbn [app].
  - constructor. exact IH.
  - apply Permutation_cons_app. exact IH.
  - exact IH.
Qed.

Lemma levels_partition (f : nat -> nat) l m :
  Permutation (concat (map (fun k => filter (fun x => f x =? k) l) (seq 0 m)))
              (filter (fun x => f x <? m) l).
Proof.
  induction m as [|m IH].
  - simpl. induction l; simpl; auto.
  - rewrite seq_S, map_app, concat_app. simpl. rewrite app_nil_r.
    eapply Permutation_trans; [|apply Permutation_sym, filter_lt_S].
    apply Permutation_app_tail. exact IH.
Qed.

Lemma filter_all {X} (p : X -> bool) l : (forall x, In x l -> p x = true) -> filter p l = l.
Proof.
  induction l as [|a l IH]; simpl; intro H; [reflexivity|].
  rewrite (H a) by auto. f_equal. apply IH. intros; apply H; auto.
Qed.

Lemma fold_max_ge l : forall init, init <= fold_left (fun m x => Nat.max m (x + 1)) l init /\
  (forall x, In x l -> x + 1 <= fold_left (fun m x => Nat.max m (x + 1)) l init).
Proof.
  induction l as [|a l IH]; intro init; simpl; [split; [lia|tauto]|].
  destruct (IH (Nat.max init (a + 1))) as [H1 H2]. split; [lia|].
  intros x [->|Hx]; [lia|auto].
Qed.

Lemma nth_lt_nlev level i : i < length level -> nth i level 0 < nlev_of level.
Proof.
  intro H. unfold nlev_of. destruct (fold_max_ge level 0) as [_ H2].
  specialize (H2 (nth i level 0) (nth_In _ _ H)). lia.
Qed.

Lemma flat_schedule_of_levels nt level : 1 <= nt ->
  flat_sched (schedule_of_levels nt level) = concat (level_rows level).
Proof.
  intro H. unfold flat_sched, schedule_of_levels. rewrite map_map. f_equal.
  rewrite <- (map_id (level_rows level)) at 2. apply map_ext. intro r.
  unfold flat_level. apply omp_chunks_concat. exact H.
Qed.

Theorem schedule_of_levels_perm nt level : 1 <= nt ->
  Permutation (flat_sched (schedule_of_levels nt level)) (seq 0 (length level)).
Proof.
  intro H. rewrite flat_schedule_of_levels by exact H. unfold level_rows.
  eapply Permutation_trans; [apply levels_partition|].
  rewrite filter_all; [apply Permutation_refl|].
  intros x Hx. apply in_seq in Hx. apply Nat.ltb_lt. apply nth_lt_nlev. lia.
Qed.

(* 8c. the level a row gets in the schedule is its computed level *)
Lemma level_in_map_seq (g : nat -> list (list nat)) (lvl : nat -> nat) (U : list nat) i :
  (forall k, flat_level (g k) = filter (fun x => lvl x =? k) U) -> In i U ->
  forall m s, s <= lvl i -> lvl i < s + m -> level_in (map g (seq s m)) i = lvl i - s.
Proof.
  intros Hg Hi. induction m as [|m IH]; intros s H1 H2; [lia|].
  simpl. rewrite Hg.
  destruct (existsb (Nat.eqb i) (filter (fun x => lvl x =? s) U)) eqn:E.
  - apply existsb_eqb_In in E. apply filter_In in E. destruct E as [_ E]. apply Nat.eqb_eq in E. lia.
  - assert (lvl i <> s).
    { intro Heq. assert (In i (filter (fun x => lvl x =? s) U)).
      { apply filter_In. split; auto. apply Nat.eqb_eq; auto. }
      apply existsb_eqb_In in H. congruence. }
    rewrite IH by lia. lia.
Qed.

Theorem level_in_schedule nt level i : 1 <= nt -> i < length level ->
  level_in (schedule_of_levels nt level) i = nth i level 0.
Proof.
  intros Hnt Hi. unfold schedule_of_levels, level_rows. rewrite map_map.
  rewrite (level_in_map_seq _ (fun x => nth x level 0) (seq 0 (length level))).
  - lia.
  - intro k. unfold flat_level. apply omp_chunks_concat. exact Hnt.
  - apply in_seq. lia.
  - lia.
  - simpl. apply nth_lt_nlev. exact Hi.
Qed.

Lemma in_schedule_level nt level lv i : 1 <= nt -> In lv (schedule_of_levels nt level) ->
  In i (flat_level lv) -> exists k, i < length level /\ nth i level 0 = k /\
     forall j, In j (flat_level lv) -> j < length level /\ nth j level 0 = k.
Proof.
  intros Hnt Hlv Hi. unfold schedule_of_levels, level_rows in Hlv. rewrite map_map in Hlv.
  apply in_map_iff in Hlv. destruct Hlv as (k & <- & _).
  unfold flat_level in *. rewrite omp_chunks_concat in * by exact Hnt.
  exists k. apply filter_In in Hi. destruct Hi as [Hi1 Hi2]. apply in_seq in Hi1. apply Nat.eqb_eq in Hi2.
  repeat split; try lia.
  - apply filter_In in H. destruct H as [H _]. apply in_seq in H. lia.
  - apply filter_In in H. destruct H as [_ H]. apply Nat.eqb_eq in H. exact H.
Qed.

(* 8d. the level loop: a dependency that is visited earlier gets a smaller level *)
Lemma updn_length l i v : length (updn l i v) = length l.
Proof. revert i; induction l as [|a l IH]; intros [|i]; simpl; auto. Qed.
Lemma nth_updn_same l i v : i < length l -> nth i (updn l i v) 0 = v.
Proof. revert i; induction l as [|a l IH]; intros [|i] H; simpl in *; try lia; auto. apply IH; lia. Qed.
Lemma nth_updn_other l i j v : j <> i -> nth j (updn l i v) 0 = nth j l 0.
Proof. revert i j; induction l as [|a l IH]; intros [|i] [|j] H; simpl; auto; try congruence. Qed.

Definition lvstep (deps : nat -> list nat) (level : list nat) (i : nat) : list nat :=
  updn level i (row_level level i (deps i)).

Lemma lvfold_length deps order : forall level, length (fold_left (lvstep deps) order level) = length level.
Proof.
  induction order as [|i order IH]; intro level; simpl; [reflexivity|].
  rewrite IH. apply updn_length.
Qed.

Lemma lvfold_untouched deps order : forall level j, ~ In j order ->
  nth j (fold_left (lvstep deps) order level) 0 = nth j level 0.
Proof.
  induction order as [|i order IH]; intros level j H; simpl; [reflexivity|].
  rewrite IH by (intro; apply H; right; auto). apply nth_updn_other. intro; subst. apply H; left; auto.
Qed.

Lemma row_level_ge level i cs : nth i level 0 <= row_level level i cs /\
  forall c, In c cs -> nth c level 0 + 1 <= row_level level i cs.
Proof.
  unfold row_level. generalize (nth i level 0) as init. induction cs as [|a cs IH]; intro init; simpl.
  - split; [lia|tauto].
  - destruct (IH (Nat.max init (nth a level 0 + 1))) as [H1 H2]. split; [lia|].
    intros c [->|Hc]; [lia|auto].
Qed.

Lemma before_split_left l1 i l2 c : NoDup (l1 ++ i :: l2) -> before (l1 ++ i :: l2) c i -> In c l1.
Proof.
  intros Hnd H.
  assert (Hi1 : ~ In i l1).
  { intro Hin. eapply NoDup_app_disj; [exact Hnd|exact Hin|simpl; auto]. }
  assert (Hi2 : ~ In i l2).
  { apply NoDup_app_remove_l in Hnd. inversion Hnd; auto. }
  destruct (before_app_inv _ _ _ _ H) as [H1|[H1|[H1 H2]]].
  - apply before_in_r in H1. contradiction.
  - inversion H1; subst; [contradiction|].
    match goal with Hb : before l2 _ _ |- _ => apply before_in_r in Hb end. contradiction.
  - exact H1.
Qed.

Theorem compute_levels_dep deps order n i c : NoDup order -> (forall j, In j order -> j < n) ->
  In c (deps i) -> before order c i ->
  nth c (compute_levels deps order n) 0 < nth i (compute_levels deps order n) 0.
Proof.
  intros Hnd Hlt Hc Hb. unfold compute_levels. fold (lvstep deps).
  assert (Hi : In i order) by (eapply before_in_r; eauto).
  destruct (in_split _ _ Hi) as (l1 & l2 & ->).
  assert (Hc1 : In c l1) by (eapply before_split_left; eauto).
  rewrite fold_left_app. simpl. set (L1 := fold_left (lvstep deps) l1 (repeat 0 n)).
  assert (HL1 : length L1 = n) by (unfold L1; rewrite lvfold_length, repeat_length; reflexivity).
  assert (Hi2 : ~ In i l2).
  { apply NoDup_app_remove_l in Hnd. inversion Hnd; auto. }
  assert (Hci : c <> i).
  { intros ->. eapply NoDup_app_disj; [exact Hnd|exact Hc1|simpl; auto]. }
  assert (Hc2 : ~ In c l2).
  { intro Hin. eapply NoDup_app_disj; [exact Hnd|exact Hc1|simpl; auto]. }
  rewrite !lvfold_untouched by auto.
  unfold lvstep. rewrite nth_updn_other by auto.
  rewrite nth_updn_same by (rewrite HL1; apply Hlt; apply in_or_app; simpl; auto).
  destruct (row_level_ge L1 i (deps i)) as [_ H2]. specialize (H2 c Hc). lia.
Qed.

Lemma compute_levels_length deps order n : length (compute_levels deps order n) = n.
Proof. unfold compute_levels. fold (lvstep deps). rewrite lvfold_length, repeat_length. reflexivity. Qed.

(* serial order facts *)
Lemma before_seq_intro n : forall s a b, s <= a -> a < b -> b < s + n -> before (seq s n) a b.
Proof.
  induction n as [|n IH]; intros s a b H1 H2 H3; [lia|]. simpl.
  destruct (Nat.eq_dec s a) as [->|Hne].
  - apply bf_here. apply in_seq. lia.
  - apply bf_later. apply IH; lia.
Qed.
Lemma before_rev_intro l a b : before l b a -> before (rev l) a b.
Proof. intro H. apply before_rev. rewrite rev_involutive. exact H. Qed.
Lemma sweep_order_before_intro f n a b : serial_before f a b = true -> a < n -> b < n ->
  before (sweep_order f n) a b.
Proof.
  unfold serial_before, sweep_order. destruct f; intros H Ha Hb; apply Nat.ltb_lt in H.
  - apply before_seq_intro; lia.
  - apply before_rev_intro. apply before_seq_intro; lia.
Qed.
Lemma serial_before_total f a b : a <> b -> serial_before f a b = false -> serial_before f b a = true.
Proof. unfold serial_before. destruct f; intros Hne H; apply Nat.ltb_ge in H; apply Nat.ltb_lt; lia. Qed.
Lemma sweep_order_NoDup f n : NoDup (sweep_order f n).
Proof. eapply Permutation_NoDup; [apply Permutation_sym, sweep_order_perm|apply seq_NoDup]. Qed.
Lemma sweep_order_lt f n j : In j (sweep_order f n) -> j < n.
Proof. intro H. eapply Permutation_in in H; [|apply sweep_order_perm]. apply in_seq in H. lia. Qed.

(* 8e. the schedule the constructors build is valid when every dependency the sweep
   has is either a counted one (visited earlier and in deps) or mirrored by one *)
Theorem model_schedule_valid deps reads n f nt : 1 <= nt ->
  (forall i c, i < n -> In c (reads i) -> c <> i -> c < n -> serial_before f c i = true -> In c (deps i)) ->
  (forall i c, i < n -> In c (reads i) -> c <> i -> c < n -> serial_before f c i = false -> In i (deps c)) ->
  sched_valid reads n f (schedule_of_levels nt (compute_levels deps (sweep_order f n) n)).
Proof.
  intros Hnt H1 H2. set (L := compute_levels deps (sweep_order f n) n).
  assert (HL : length L = n) by apply compute_levels_length.
  assert (Hdep : forall i c, i < n -> c < n -> In c (deps i) -> serial_before f c i = true ->
                             nth c L 0 < nth i L 0).
  { intros i c Hi Hc Hin Hsb. apply compute_levels_dep; auto using sweep_order_NoDup.
    - intros j Hj. eapply sweep_order_lt; eauto.
    - apply sweep_order_before_intro; auto. }
  split; [|split].
  - rewrite <- HL. apply schedule_of_levels_perm. exact Hnt.
  - intros lv i j Hlv Hi Hj Hij Hr.
    destruct (in_schedule_level nt L lv i Hnt Hlv Hi) as (k & Hin & Hk & Hall).
    destruct (Hall j Hj) as [Hjn Hjk]. rewrite HL in *.
    destruct (serial_before f j i) eqn:E.
    + specialize (Hdep i j Hin Hjn (H1 i j Hin Hr (not_eq_sym Hij) Hjn E) E). lia.
    + assert (E' := serial_before_total f j i (not_eq_sym Hij) E).
      specialize (Hdep j i Hjn Hin (H2 i j Hin Hr (not_eq_sym Hij) Hjn E) E'). lia.
  - intros i c Hi Hr Hne Hc. rewrite !level_in_schedule by (auto; lia). split.
    + intro E. apply Hdep; auto.
    + intro Hlt. destruct (serial_before f c i) eqn:E; [reflexivity|].
      assert (E' := serial_before_total f c i Hne E).
      specialize (Hdep c i Hc Hi (H2 i c Hi Hr Hne Hc E) E'). lia.
Qed.

(* 8f. the level loop with the anti-dependency push (gauss_seidel after dff00c6) *)
Lemma push_levels_length l cs : forall level, length (push_levels level l cs) = length level.
Proof.
  unfold push_levels. induction cs as [|c cs IH]; intro level; simpl; [reflexivity|].
  rewrite IH. apply updn_length.
Qed.
Lemma push_levels_mono l cs j : forall level, nth j level 0 <= nth j (push_levels level l cs) 0.
Proof.
  unfold push_levels. induction cs as [|c cs IH]; intro level; simpl; [lia|].
  eapply Nat.le_trans; [|apply IH].
  destruct (Nat.eq_dec j c) as [->|Hne].
  - destruct (Nat.lt_ge_cases c (length level)) as [Hl|Hl].
    + rewrite nth_updn_same by exact Hl. lia.
    + rewrite (nth_overflow level) by exact Hl. lia.
  - rewrite nth_updn_other by exact Hne. lia.
Qed.
Lemma push_levels_untouched l cs j : ~ In j cs -> forall level, nth j (push_levels level l cs) 0 = nth j level 0.
Proof.
  unfold push_levels. induction cs as [|c cs IH]; intros Hn level; simpl; [reflexivity|].
  rewrite IH by (intro; apply Hn; right; auto). apply nth_updn_other. intro; subst. apply Hn. left; auto.
Qed.
Lemma push_levels_ge l cs j : In j cs -> forall level, j < length level -> l + 1 <= nth j (push_levels level l cs) 0.
Proof.
  unfold push_levels. induction cs as [|c cs IH]; intros Hin level Hj; [destruct Hin|]. simpl.
  destruct Hin as [->|Hin].
  - eapply Nat.le_trans; [|apply (push_levels_mono l cs j)].
    rewrite nth_updn_same by exact Hj. lia.
  - apply IH; auto. rewrite updn_length. exact Hj.
Qed.

Definition pstep (deps push : nat -> list nat) (level : list nat) (i : nat) : list nat :=
  let l := row_level level i (deps i) in push_levels (updn level i l) l (push i).

Lemma pstep_length deps push level i : length (pstep deps push level i) = length level.
Proof. unfold pstep. rewrite push_levels_length. apply updn_length. Qed.
Lemma pstep_mono deps push level i j : nth j level 0 <= nth j (pstep deps push level i) 0.
Proof.
  unfold pstep. eapply Nat.le_trans; [|apply push_levels_mono].
  destruct (Nat.eq_dec j i) as [->|Hne].
  - destruct (Nat.lt_ge_cases i (length level)) as [Hl|Hl].
    + rewrite nth_updn_same by exact Hl. apply row_level_ge.
    + rewrite (nth_overflow level) by exact Hl. lia.
  - rewrite nth_updn_other by exact Hne. lia.
Qed.
Lemma pfold_length deps push order : forall level, length (fold_left (pstep deps push) order level) = length level.
Proof. induction order as [|i order IH]; intro level; simpl; [reflexivity|]. rewrite IH. apply pstep_length. Qed.
Lemma pfold_mono deps push order j : forall level, nth j level 0 <= nth j (fold_left (pstep deps push) order level) 0.
Proof.
  induction order as [|i order IH]; intro level; simpl; [lia|].
  eapply Nat.le_trans; [apply (pstep_mono deps push level i j)|apply IH].
Qed.
Lemma pfold_untouched deps push order j : ~ In j order -> (forall i, In i order -> ~ In j (push i)) ->
  forall level, nth j (fold_left (pstep deps push) order level) 0 = nth j level 0.
Proof.
  induction order as [|i order IH]; intros Hn Hp level; simpl; [reflexivity|].
  rewrite IH; [|intro; apply Hn; right; auto|intros; apply Hp; right; auto].
  unfold pstep. rewrite push_levels_untouched by (apply Hp; left; auto).
  apply nth_updn_other. intro; subst. apply Hn. left; auto.
Qed.

Lemma before_split_right l1 i l2 c : NoDup (l1 ++ i :: l2) -> before (l1 ++ i :: l2) i c -> In c l2.
Proof.
  intros Hnd H.
  assert (Hi1 : ~ In i l1).
  { intro Hin. eapply NoDup_app_disj; [exact Hnd|exact Hin|simpl; auto]. }
  assert (Hi2 : ~ In i l2).
  { apply NoDup_app_remove_l in Hnd. inversion Hnd; auto. }
  destruct (before_app_inv _ _ _ _ H) as [H1|[H1|[H1 H2]]].
  - apply before_in_l in H1. contradiction.
  - inversion H1; subst; auto.
    match goal with Hb : before l2 _ _ |- _ => apply before_in_l in Hb end. contradiction.
  - contradiction.
Qed.

(* both kinds of dependency are ordered by the final levels *)
Theorem compute_levels_push_spec deps push order n : NoDup order -> (forall j, In j order -> j < n) ->
  (forall i c, In i order -> In c (push i) -> In c order -> before order i c) ->
  let L := compute_levels_push deps push order n in
  (forall i c, In c (deps i) -> before order c i -> nth c L 0 < nth i L 0) /\
  (forall i c, In i order -> In c (push i) -> In c order -> nth i L 0 < nth c L 0).
Proof.
  intros Hnd Hlt Hpush L. unfold L, compute_levels_push. fold (pstep deps push).
  (* the value a row gets when it is processed is its final value *)
  assert (Hfinal : forall l1 i l2, order = l1 ++ i :: l2 ->
            nth i (fold_left (pstep deps push) order (repeat 0 n)) 0
            = row_level (fold_left (pstep deps push) l1 (repeat 0 n)) i (deps i)).
  { intros l1 i l2 E. rewrite E, fold_left_app. simpl.
    set (L1 := fold_left (pstep deps push) l1 (repeat 0 n)).
    assert (HL1 : length L1 = n) by (unfold L1; rewrite pfold_length, repeat_length; reflexivity).
    assert (Hi2 : ~ In i l2).
    { rewrite E in Hnd. apply NoDup_app_remove_l in Hnd. inversion Hnd; auto. }
    assert (Hnp : forall k, In k (i :: l2) -> ~ In i (push k)).
    { intros k Hk Hin. assert (Hko : In k order) by (rewrite E; apply in_or_app; right; exact Hk).
      assert (Hio : In i order) by (rewrite E; apply in_or_app; right; left; reflexivity).
      specialize (Hpush k i Hko Hin Hio). rewrite E in Hpush, Hnd.
      apply before_split_left in Hpush; [|exact Hnd].
      destruct Hk as [<-|Hk].
      - eapply NoDup_app_disj; [exact Hnd|exact Hpush|simpl; auto].
      - eapply NoDup_app_disj; [exact Hnd|exact Hpush|simpl; auto]. }
    rewrite pfold_untouched; [| exact Hi2 | intros k Hk; apply Hnp; right; exact Hk].
    unfold pstep. rewrite push_levels_untouched by (apply Hnp; left; reflexivity).
    apply nth_updn_same. rewrite HL1. apply Hlt. rewrite E. apply in_or_app. right. left. reflexivity. }
  split.
  - intros i c Hc Hb.
    assert (Hi : In i order) by (eapply before_in_r; eauto).
    destruct (in_split _ _ Hi) as (l1 & l2 & E).
    rewrite (Hfinal l1 i l2 E).
    assert (Hc1 : In c l1) by (rewrite E in Hb, Hnd; eapply before_split_left; eauto).
    destruct (in_split _ _ Hc1) as (m1 & m2 & E1).
    assert (E' : order = m1 ++ c :: (m2 ++ i :: l2)) by (rewrite E, E1, <- app_assoc; reflexivity).
    rewrite (Hfinal m1 c _ E').
    set (L1 := fold_left (pstep deps push) l1 (repeat 0 n)).
    destruct (row_level_ge L1 i (deps i)) as [_ H2]. specialize (H2 c Hc).
    assert (Hge : row_level (fold_left (pstep deps push) m1 (repeat 0 n)) c (deps c) <= nth c L1 0).
    { unfold L1. rewrite E1, fold_left_app. simpl.
      set (M1 := fold_left (pstep deps push) m1 (repeat 0 n)).
      assert (HM1 : length M1 = n) by (unfold M1; rewrite pfold_length, repeat_length; reflexivity).
      eapply Nat.le_trans; [|apply pfold_mono].
      unfold pstep at 1. eapply Nat.le_trans; [|apply push_levels_mono].
      rewrite nth_updn_same; [lia|].
      rewrite HM1. apply Hlt. rewrite E'. apply in_or_app. right. left. reflexivity. }
    lia.
  - intros i c Hi Hc Hco.
    destruct (in_split _ _ Hi) as (l1 & l2 & E).
    rewrite (Hfinal l1 i l2 E).
    rewrite E, fold_left_app. simpl.
    set (L1 := fold_left (pstep deps push) l1 (repeat 0 n)).
    assert (HL1 : length L1 = n) by (unfold L1; rewrite pfold_length, repeat_length; reflexivity).
    eapply Nat.lt_le_trans; [|apply pfold_mono].
    unfold pstep. assert (Hcn : c < n) by (apply Hlt; exact Hco).
    pose proof (push_levels_ge (row_level L1 i (deps i)) (push i) c Hc
                  (updn L1 i (row_level L1 i (deps i)))) as Hg.
    rewrite updn_length, HL1 in Hg. specialize (Hg Hcn). lia.
Qed.

Lemma compute_levels_push_length deps push order n : length (compute_levels_push deps push order n) = n.
Proof. unfold compute_levels_push. fold (pstep deps push). rewrite pfold_length, repeat_length. reflexivity. Qed.

(* a level array that orders every read against the serial order gives a valid schedule *)
Theorem levels_valid reads n f nt (L : list nat) : 1 <= nt -> length L = n ->
  (forall i c, i < n -> In c (reads i) -> c <> i -> c < n ->
     (serial_before f c i = true -> nth c L 0 < nth i L 0) /\
     (serial_before f c i = false -> nth i L 0 < nth c L 0)) ->
  sched_valid reads n f (schedule_of_levels nt L).
Proof.
  intros Hnt HL HP. split; [|split].
  - rewrite <- HL. apply schedule_of_levels_perm. exact Hnt.
  - intros lv i j Hlv Hi Hj Hij Hr.
    destruct (in_schedule_level nt L lv i Hnt Hlv Hi) as (k & Hin & Hk & Hall).
    destruct (Hall j Hj) as [Hjn Hjk]. rewrite HL in *.
    destruct (HP i j Hin Hr (not_eq_sym Hij) Hjn) as [P1 P2].
    destruct (serial_before f j i) eqn:E; [specialize (P1 eq_refl)|specialize (P2 eq_refl)]; lia.
  - intros i c Hi Hr Hne Hc. rewrite !level_in_schedule by (auto; lia).
    destruct (HP i c Hi Hr Hne Hc) as [P1 P2]. split.
    + intro E. apply P1. exact E.
    + intro Hlt. destruct (serial_before f c i) eqn:E; [reflexivity|]. specialize (P2 eq_refl). lia.
Qed.

(* ================================================================================ *)
(* 9. gauss_seidel::parallel_sweep and ilu_solve::sptr_solve (any Scalar)            *)
Lemma fold_left_ext_in {X Y} (f g : X -> Y -> X) (l : list Y) : (forall a e, In e l -> f a e = g a e) ->
  forall a, fold_left f l a = fold_left g l a.
Proof.
  induction l as [|e l IH]; intros H a; simpl; [reflexivity|].
  rewrite (H a e) by (left; auto). apply IH. intros; apply H; right; auto.
Qed.

Lemma fold_left_map {X Y Z} (f : X -> Z -> X) (g : Y -> Z) (l : list Y) a :
  fold_left f (map g l) a = fold_left (fun x y => f x (g y)) l a.
Proof. revert a; induction l as [|y l IH]; intro a; simpl; auto. Qed.

Section Instances.
Context {S : Scalar}.
Local Notation vec := (vec S).
Local Notation crs := (crs S).
Local Notation respects := (respects S s0).

Lemma set_nth_upd (x : vec) i v : set_nth x i v = upd x i v.
Proof. revert i; induction x as [|a x IH]; intros [|i]; simpl; auto; f_equal; apply IH. Qed.

(* --- Gauss-Seidel --- *)
Lemma gs_row_val i (r : row S) (rhs x : vec) : gs_row i r rhs x = set_nth x i (gs_val i r rhs x).
Proof.
  unfold gs_row, gs_val.
  destruct (fold_left _ r (s1, vget rhs i)) as [D X]. reflexivity.
Qed.

Lemma gs_step_respects (A : crs) rhs i : respects (gs_step A rhs i).
Proof.
  intros x x' H. simpl. unfold gs_val.
  rewrite (fold_left_ext_in _
    (fun (dx : S * S) e => if Nat.eqb (fst e) i then (snd e, snd dx)
                           else (fst dx, ssub (snd dx) (smul (snd e) (vget x' (fst e)))))); [reflexivity|].
  intros a e He. destruct (Nat.eqb (fst e) i) eqn:E; [reflexivity|].
  assert (Hv : vget x (fst e) = vget x' (fst e)); [|rewrite Hv; reflexivity].
  apply H. simpl. unfold gs_reads, cols_of, row_cols. apply filter_In. split.
  - apply in_map. exact He.
  - rewrite E. reflexivity.
Qed.

Lemma gs_serial_steps_sweep f (A : crs) rhs (x : vec) :
  exec (gs_serial_steps f A rhs) x = gs_sweep A rhs x f.
Proof.
  unfold gs_serial_steps, gs_sweep, exec, sweep_order. rewrite fold_left_map.
  destruct f; apply fold_left_ext_in; intros a e _; unfold exec1; simpl;
    rewrite gs_row_val, set_nth_upd; reflexivity.
Qed.

Lemma gs_deps_serial_before f (A : crs) i c :
  In c (gs_deps f A i) <-> In c (cols_of A i) /\ serial_before f c i = true.
Proof. unfold gs_deps, serial_before. rewrite filter_In. destruct f; tauto. Qed.

Lemma gs_push_serial_before f (A : crs) i c :
  In c (gs_push f A i) <-> In c (cols_of A i) /\ serial_before f i c = true.
Proof. unfold gs_push, serial_before. rewrite filter_In. destruct f; tauto. Qed.

(* the schedule built by the (fixed) constructor is valid for EVERY pattern *)
Theorem gs_schedule_valid f (A : crs) nt : 1 <= nt ->
  sched_valid (gs_reads A) (nrows A) f (gs_schedule f A nt).
Proof.
  intros Hnt. unfold gs_schedule, gs_levels.
  destruct (compute_levels_push_spec (gs_deps f A) (gs_push f A) (sweep_order f (nrows A)) (nrows A)
              (sweep_order_NoDup f (nrows A)) (sweep_order_lt f (nrows A))) as [Hd Hp].
  { intros i c Hi Hc Hco. apply gs_push_serial_before in Hc. destruct Hc as [_ Hc].
    apply sweep_order_before_intro; auto; eapply sweep_order_lt; eauto. }
  assert (Hin : forall j, j < nrows A -> In j (sweep_order f (nrows A))).
  { intros j Hj. eapply Permutation_in; [apply Permutation_sym, sweep_order_perm|]. apply in_seq. lia. }
  apply levels_valid; auto using compute_levels_push_length.
  intros i c Hi Hr Hne Hc. unfold gs_reads in Hr. apply filter_In in Hr. destruct Hr as [Hr _]. split; intro E.
  - apply Hd.
    + apply gs_deps_serial_before. split; auto.
    + apply sweep_order_before_intro; auto.
  - apply Hp; auto. apply gs_push_serial_before. split; auto. apply serial_before_total; auto.
Qed.

Theorem gs_parallel_sweep_serial f (A : crs) nt rhs l (x : vec) :
  1 <= nt ->
  InterleaveLevels (gs_par_levels f A nt rhs) l ->
  exec l x = gs_sweep A rhs x f.
Proof.
  intros Hnt Hil. rewrite <- gs_serial_steps_sweep. unfold gs_serial_steps.
  apply (sched_valid_sound S s0 (gs_step A rhs) (gs_reads A)) with (sch := gs_schedule f A nt).
  - intro i. apply gs_step_respects.
  - reflexivity.
  - intros i c H. right. exact H.
  - apply gs_schedule_valid; auto.
  - exact Hil.
Qed.

(* every row is in exactly one task; rows of a level do not conflict *)
Theorem gs_schedule_perm f (A : crs) nt : 1 <= nt ->
  Permutation (flat_sched (gs_schedule f A nt)) (seq 0 (nrows A)).
Proof. intro H. apply (gs_schedule_valid f A nt H). Qed.

Theorem gs_levels_cross_indep f (A : crs) nt rhs ts : 1 <= nt ->
  In ts (gs_par_levels f A nt rhs) -> cross_indep ts.
Proof.
  intros Hnt Hts. unfold gs_par_levels in Hts. apply in_map_iff in Hts. destruct Hts as (lv & <- & Hlv).
  apply (valid_cross_indep S (gs_step A rhs) (gs_reads A) (fun i => eq_refl) (fun i c H => or_intror H)
           (nrows A) f (gs_schedule f A nt)); auto.
  apply gs_schedule_valid; auto.
Qed.

(* the level numbers order both kinds of dependency *)
Theorem gs_levels_order f (A : crs) i c : i < nrows A -> c < nrows A -> In c (cols_of A i) -> c <> i ->
  (serial_before f c i = true -> nth c (gs_levels f A) 0 < nth i (gs_levels f A) 0) /\
  (serial_before f c i = false -> nth i (gs_levels f A) 0 < nth c (gs_levels f A) 0).
Proof.
  intros Hi Hc Hr Hne. unfold gs_levels.
  destruct (compute_levels_push_spec (gs_deps f A) (gs_push f A) (sweep_order f (nrows A)) (nrows A)
              (sweep_order_NoDup f (nrows A)) (sweep_order_lt f (nrows A))) as [Hd Hp].
  { intros i' c' Hi' Hc' Hco. apply gs_push_serial_before in Hc'. destruct Hc' as [_ Hc'].
    apply sweep_order_before_intro; auto; eapply sweep_order_lt; eauto. }
  assert (Hin : forall j, j < nrows A -> In j (sweep_order f (nrows A))).
  { intros j Hj. eapply Permutation_in; [apply Permutation_sym, sweep_order_perm|]. apply in_seq. lia. }
  split; intro E.
  - apply Hd; [apply gs_deps_serial_before; split; auto|apply sweep_order_before_intro; auto].
  - apply Hp; auto. apply gs_push_serial_before. split; auto. apply serial_before_total; auto.
Qed.

(* HISTORICAL: the old level rule is valid on structurally symmetric patterns only *)
Theorem gs_schedule_old_valid_symmetric f (A : crs) nt : 1 <= nt -> pattern_symmetric A ->
  sched_valid (gs_reads A) (nrows A) f (gs_schedule_old f A nt).
Proof.
  intros Hnt Hsym. unfold gs_schedule_old, gs_levels_old. apply model_schedule_valid; auto.
  - intros i c Hi Hr Hne Hc E. apply gs_deps_serial_before. split; auto.
    unfold gs_reads in Hr. apply filter_In in Hr. tauto.
  - intros i c Hi Hr Hne Hc E. apply gs_deps_serial_before. split.
    + apply Hsym; auto. unfold gs_reads in Hr. apply filter_In in Hr. tauto.
    + apply serial_before_total; auto.
Qed.

(* --- sptr_solve --- *)
Lemma sptr_step_respects lower (A : crs) (D : vec) i : respects (sptr_step lower A D i).
Proof.
  intros x x' H. simpl. unfold sptr_val, sptr_sum.
  assert (Hi : vget x i = vget x' i) by (apply H; simpl; auto).
  rewrite (fold_left_ext_in _ (fun X e => sadd X (smul (snd e) (vget x' (fst e))))).
  - rewrite Hi. reflexivity.
  - intros a e He. assert (Hv : vget x (fst e) = vget x' (fst e)); [|rewrite Hv; reflexivity].
    apply H. simpl. right. unfold cols_of, row_cols. apply in_map. exact He.
Qed.

Theorem sptr_schedule_valid lower (A : crs) nt : 1 <= nt -> strict_tri lower A ->
  sched_valid (cols_of A) (nrows A) lower (sptr_schedule lower A nt).
Proof.
  intros Hnt Hst. unfold sptr_schedule, sptr_levels. apply model_schedule_valid; auto.
  intros i c Hi Hr Hne Hc E. exfalso. unfold serial_before in E.
  destruct lower; simpl in Hst; specialize (Hst i c Hi Hr); apply Nat.ltb_ge in E; lia.
Qed.

Theorem sptr_solve_serial_steps lower (A : crs) (D : vec) nt l (x : vec) :
  1 <= nt -> strict_tri lower A ->
  InterleaveLevels (sptr_par_levels lower A D nt) l ->
  exec l x = exec (sptr_serial_steps lower A D) x.
Proof.
  intros Hnt Hst Hil. unfold sptr_serial_steps.
  apply (sched_valid_sound S s0 (sptr_step lower A D) (cols_of A)) with (sch := sptr_schedule lower A nt).
  - intro i. apply sptr_step_respects.
  - reflexivity.
  - intros i c [H|H]; auto.
  - apply sptr_schedule_valid; auto.
  - exact Hil.
Qed.

Theorem sptr_schedule_perm lower (A : crs) nt : 1 <= nt ->
  Permutation (flat_sched (sptr_schedule lower A nt)) (seq 0 (nrows A)).
Proof.
  intro H. unfold sptr_schedule, sptr_levels.
  rewrite <- (compute_levels_length (cols_of A) (sweep_order lower (nrows A)) (nrows A)) at 3.
  apply schedule_of_levels_perm. exact H.
Qed.

(* rows of one level read only cells written in earlier levels *)
Theorem sptr_levels_increase lower (A : crs) i c : strict_tri lower A -> i < nrows A ->
  In c (cols_of A i) -> nth c (sptr_levels lower A) 0 < nth i (sptr_levels lower A) 0.
Proof.
  intros Hst Hi Hc. unfold sptr_levels. apply compute_levels_dep; auto using sweep_order_NoDup.
  - intros j Hj. eapply sweep_order_lt; eauto.
  - apply sweep_order_before_intro; auto; unfold serial_before;
      destruct lower; simpl in Hst; specialize (Hst i c Hi Hc); try apply Nat.ltb_lt; lia.
Qed.

Theorem sptr_levels_cross_indep lower (A : crs) (D : vec) nt ts : 1 <= nt -> strict_tri lower A ->
  In ts (sptr_par_levels lower A D nt) -> cross_indep ts.
Proof.
  intros Hnt Hst Hts. unfold sptr_par_levels in Hts. apply in_map_iff in Hts. destruct Hts as (lv & <- & Hlv).
  apply (valid_cross_indep S (sptr_step lower A D) (cols_of A) (fun i => eq_refl)
           (fun i c H => match H with or_introl e => or_introl (eq_sym e) | or_intror h => or_intror h end)
           (nrows A) lower (sptr_schedule lower A nt)); auto.
  apply sptr_schedule_valid; auto.
Qed.

End Instances.

(* ================================================================================ *)
(* 10. structurally non-symmetric patterns: the faithful model of the Gauss-Seidel
       schedule violates the property (witnesses at the exact rationals)             *)
From Coq Require Import QArith Qcanon.
From Amgcl Require Import QcInst.
Local Close Scope Qc_scope.
Local Close Scope Q_scope.
Local Open Scope nat_scope.

Definition race_A : crs QcS := mkCrs 2 [[(0, qc 1 1); (1, qc 1 1)]; [(1, qc 1 1)]]%nat.
Definition race_f : vec QcS := [qc 10 1; qc 1 1].
Definition race_x : vec QcS := [qc 0 1; qc 5 1].
Definition qvals (v : vec QcS) : list Q := map (fun q : Qc => this q) v.

Lemma qvals_inj (u v : vec QcS) : qvals u = qvals v -> u = v.
Proof.
  revert v; induction u as [|a u IH]; intros [|b v] H; simpl in H; try discriminate; [reflexivity|].
  inversion H as [[H1 H2]]. f_equal; [|apply IH; exact H2].
  apply Qc_is_canon. rewrite H1. reflexivity.
Qed.
Lemma qvals_neq (u v : vec QcS) : qvals u <> qvals v -> u <> v.
Proof. intros H E. apply H. rewrite E. reflexivity. Qed.

(* HISTORICAL (old level rule, before /repo dff00c6): rows 0 and 1 get the same level
   although row 0 reads x[1], which row 1 writes: thread 0 first gives the serial result
   (5,1), thread 1 first gives (9,1).  With the fixed rule the same input is fine. *)
Theorem gs_schedule_old_race_refuted :
  exists (A : crs QcS) (nt : nat) (rhs x : vec QcS) (l1 l2 : list (step QcS)),
    4 <= nt /\
    InterleaveLevels (gs_par_levels_old true A nt rhs) l1 /\
    InterleaveLevels (gs_par_levels_old true A nt rhs) l2 /\
    exec l1 x <> exec l2 x /\
    exec l1 x = gs_sweep A rhs x true /\
    exec l2 x <> gs_sweep A rhs x true /\
    gs_sched_ok true A (gs_schedule_old true A nt) = false /\
    gs_sched_ok true A (gs_schedule true A nt) = true.
Proof.
  exists race_A, 4, race_f, race_x,
         (pick_levels [[0; 1]]%nat (gs_par_levels_old true race_A 4 race_f)),
         (pick_levels [[1; 0]]%nat (gs_par_levels_old true race_A 4 race_f)).
  split; [lia|]. split; [apply pick_levels_Interleave|]. split; [apply pick_levels_Interleave|].
  split; [|split; [|split; [|split]]].
  - apply qvals_neq. vm_compute. discriminate.
  - apply qvals_inj. vm_compute. reflexivity.
  - apply qvals_neq. vm_compute. discriminate.
  - vm_compute. reflexivity.
  - vm_compute. reflexivity.
Qed.

(* HISTORICAL, second form of the same defect: the row that is read lands in an EARLIER level, so
   the parallel sweep deterministically uses the new value where the serial sweep uses
   the old one.  Rows {0:1} {0:1,1:1,2:1} {2:2}: levels (0,1,0); row 1 reads x[2]. *)
Definition ord_A : crs QcS :=
  mkCrs 3 [[(0, qc 1 1)]; [(0, qc 1 1); (1, qc 1 1); (2, qc 1 1)]; [(2, qc 2 1)]]%nat.
Definition ord_f : vec QcS := [qc 1 1; qc 10 1; qc 4 1].
Definition ord_x : vec QcS := [qc 0 1; qc 0 1; qc 5 1].

Theorem gs_schedule_old_order_refuted :
  exists (A : crs QcS) (nt : nat) (rhs x : vec QcS) (l : list (step QcS)),
    4 <= nt /\
    InterleaveLevels (gs_par_levels_old true A nt rhs) l /\
    level_conflict_free (gs_reads A) (gs_schedule_old true A nt) = true /\
    exec l x <> gs_sweep A rhs x true /\
    first_dep_violation (gs_reads A) (nrows A) true (gs_schedule_old true A nt) = Some (1, 2)%nat /\
    gs_sched_ok true A (gs_schedule true A nt) = true.
Proof.
  exists ord_A, 4, ord_f, ord_x, (pick_levels [] (gs_par_levels_old true ord_A 4 ord_f)).
  split; [lia|]. split; [apply pick_levels_Interleave|]. split; [vm_compute; reflexivity|]. split; [|split].
  - apply qvals_neq. vm_compute. discriminate.
  - vm_compute. reflexivity.
  - vm_compute. reflexivity.
Qed.

(* non-vacuity of the positive theorems: a structurally symmetric matrix and strictly
   triangular factors for which the schedules have several levels and busy threads *)
Definition sym_A : crs QcS :=
  mkCrs 5 [[(0, qc 2 1); (1, qc (-1) 1)]; [(0, qc (-1) 1); (1, qc 2 1); (2, qc (-1) 1)];
           [(1, qc (-1) 1); (2, qc 2 1)]; [(3, qc 3 1); (4, qc 1 2)]; [(3, qc 1 2); (4, qc 3 1)]]%nat.
Definition tri_L : crs QcS :=
  mkCrs 5 [[]; [(0, qc 1 2)]; []; [(0, qc 1 3); (2, qc 1 4)]; [(3, qc 1 5)]]%nat.
Definition tri_U : crs QcS :=
  mkCrs 5 [[(1, qc 1 2); (4, qc 2 1)]; [(2, qc 1 3)]; []; [(4, qc 1 1)]; []]%nat.

Example sym_A_symmetric : pattern_symmetric sym_A.
Proof.
  assert (Hb : pattern_symmetricb sym_A = true) by (vm_compute; reflexivity).
  intros i j Hi Hj Hin. unfold pattern_symmetricb in Hb. rewrite forallb_forall in Hb.
  assert (Hi' : In i (seq 0 (nrows sym_A))) by (apply in_seq; lia).
  specialize (Hb i Hi'). rewrite forallb_forall in Hb. specialize (Hb j Hin).
  apply orb_prop in Hb. destruct Hb as [Hb|Hb].
  - apply negb_true_iff in Hb. apply Nat.ltb_ge in Hb. lia.
  - apply existsb_eqb_In. exact Hb.
Qed.

Lemma strict_trib_sound {S : Scalar} lower (A : crs S) : strict_trib lower A = true -> strict_tri lower A.
Proof.
  unfold strict_trib. intro Hb. rewrite forallb_forall in Hb.
  destruct lower; simpl; intros i c Hi Hc;
    (assert (Hi' : In i (seq 0 (nrows A))) by (apply in_seq; lia));
    specialize (Hb i Hi'); rewrite forallb_forall in Hb; specialize (Hb c Hc).
  - apply Nat.ltb_lt in Hb. exact Hb.
  - apply andb_prop in Hb. destruct Hb as [H1 H2]. apply Nat.ltb_lt in H1, H2. lia.
Qed.

Example tri_L_strict : strict_tri true tri_L.
Proof. apply strict_trib_sound. vm_compute. reflexivity. Qed.
Example tri_U_strict : strict_tri false tri_U.
Proof. apply strict_trib_sound. vm_compute. reflexivity. Qed.

Example schedules_nontrivial :
  gs_schedule true sym_A 2 = [[[0]; [3]]; [[1]; [4]]; [[2]; []]]%nat /\
  gs_schedule false sym_A 4 = [[[2]; [4]; []; []]; [[1]; [3]; []; []]; [[0]; []; []; []]]%nat /\
  sptr_schedule true tri_L 2 = [[[0]; [2]]; [[1]; [3]]; [[4]; []]]%nat /\
  sptr_schedule false tri_U 2 = [[[2]; [4]]; [[1]; [3]]; [[0]; []]]%nat /\
  omp_chunks 4 (seq 0 10) = [[0; 1; 2]; [3; 4; 5]; [6; 7; 8]; [9]]%nat.
Proof. vm_compute. repeat split; reflexivity. Qed.

(* ================================================================================ *)
(* 11. row-parallel loops are maps (any value type, any assignment of iterations to
       threads, any interleaving)                                                    *)
Section ParFor.
Variable V : Type.
Variable d : V.
Variable body : nat -> V -> V.

Lemma pf_step_respects i : respects V d (pf_step d body i).
Proof. intros st st' H. simpl. f_equal. apply (H i). simpl. auto. Qed.

Lemma upd_app_r (l1 l2 : list V) v : upd (l1 ++ l2) (length l1) v = l1 ++ upd l2 0 v.
Proof. induction l1 as [|a l1 IH]; simpl; [reflexivity|]. f_equal. exact IH. Qed.

Lemma skipn_cons_nth (st : list V) k : k < length st -> skipn k st = nth k st d :: skipn (Datatypes.S k) st.
Proof.
  revert k; induction st as [|a st IH]; intros k H; simpl in H; [lia|].
  destruct k as [|k]; [reflexivity|]. simpl. apply IH. lia.
Qed.

Lemma exec_par_for_seq k : forall st, k <= length st ->
  exec (map (pf_step d body) (seq 0 k)) st = map (fun i => body i (nth i st d)) (seq 0 k) ++ skipn k st.
Proof.
  induction k as [|k IH]; intros st H; [reflexivity|].
  rewrite seq_S, !map_app, exec_app, IH by lia. simpl.
  set (M := map (fun i => body i (nth i st d)) (seq 0 k)).
  assert (HM : length M = k) by (unfold M; rewrite map_length, seq_length; reflexivity).
  rewrite (skipn_cons_nth st k) by lia. set (T := skipn (Datatypes.S k) st).
  unfold exec, exec1. cbn [fold_left pf_step wr fn].
  rewrite app_nth2 by lia. rewrite HM, Nat.sub_diag. cbn [nth].
  replace (upd (M ++ nth k st d :: T) k (body k (nth k st d)))
    with (upd (M ++ nth k st d :: T) (length M) (body k (nth k st d))) by (rewrite HM; reflexivity).
  rewrite upd_app_r. cbn [upd map]. rewrite <- app_assoc. reflexivity.
Qed.

Theorem par_for_map n (its : list (list nat)) l st : length st = n ->
  Permutation (concat its) (seq 0 n) ->
  Interleave (par_for_steps d body its) l ->
  exec l st = map (fun i => body i (nth i st d)) (seq 0 n).
Proof.
  intros Hlen Hp Hil.
  assert (Hnd : NoDup (concat its)).
  { eapply Permutation_NoDup; [apply Permutation_sym; exact Hp|apply seq_NoDup]. }
  rewrite (bernstein V d _ _ Hil).
  - unfold par_for_steps. rewrite <- concat_map.
    rewrite (trace_equiv V d (pf_step d body) pf_step_respects (concat its) (seq 0 n) Hnd Hp).
    + rewrite exec_par_for_seq by lia. rewrite <- Hlen, skipn_all, app_nil_r. reflexivity.
    + intros a b Hab _. assert (Hne := before_neq _ _ _ Hnd Hab).
      unfold indep. simpl. repeat split; auto; intros [H|[]]; congruence.
  - unfold par_for_steps. rewrite Forall_forall. intros t Ht. apply in_map_iff in Ht. destruct Ht as (r & <- & _).
    rewrite Forall_forall. intros s Hs. apply in_map_iff in Hs. destruct Hs as (i & <- & _). apply pf_step_respects.
  - intros i j a b Hij Ha Hb. unfold par_for_steps in Ha, Hb.
    change (@nil (step V)) with (map (pf_step d body) []) in Ha, Hb. rewrite map_nth in Ha, Hb.
    apply in_map_iff in Ha, Hb. destruct Ha as (x & <- & Hx). destruct Hb as (y & <- & Hy).
    assert (Hxy : x <> y) by (intro; subst; eapply (NoDup_concat_nth its i j y); eauto).
    unfold indep. simpl. repeat split; auto; intros [H|[]]; congruence.
Qed.

End ParFor.

(* the kernels of the model that have this shape: every in-place vector update of
   Kernels.v is an [upd2]/[upd3] (spmv, residual, axpby, axpbypcz, vmul, copy), every
   row-wise matrix kernel of MatOps.v is a [map] over the rows of A (spgemm_saad,
   msum, mscale, sort_rows, diagonal, SA smoothing) *)
Lemma upd2_as_map {S : Scalar} (f : S -> S -> S) (x y : vec S) : length x = length y ->
  upd2 f x y = map (fun i => f (vget x i) (nth i y s0)) (seq 0 (length y)).
Proof.
  revert y; induction x as [|a x IH]; intros [|b y] H; simpl in *; try lia; [reflexivity|].
  f_equal. rewrite <- seq_shift, map_map. apply IH. lia.
Qed.
Lemma upd3_as_map {S : Scalar} (f : S -> S -> S -> S) (x y z : vec S) :
  length x = length z -> length y = length z ->
  upd3 f x y z = map (fun i => f (vget x i) (vget y i) (nth i z s0)) (seq 0 (length z)).
Proof.
  revert y z; induction x as [|a x IH]; intros [|b y] [|c z] H1 H2; simpl in *; try lia; [reflexivity|].
  f_equal. rewrite <- seq_shift, map_map. apply IH; lia.
Qed.
Lemma map_as_seq {X Y} (F : X -> Y) (dx : X) (l : list X) :
  map F l = map (fun i => F (nth i l dx)) (seq 0 (length l)).
Proof.
  induction l as [|a l IH]; simpl; [reflexivity|]. f_equal. rewrite <- seq_shift, map_map. exact IH.
Qed.

Theorem upd2_parallel {S : Scalar} (f : S -> S -> S) (x y : vec S) its l : length x = length y ->
  Permutation (concat its) (seq 0 (length y)) ->
  Interleave (par_for_steps s0 (fun i yi => f (vget x i) yi) its) l ->
  exec l y = upd2 f x y.
Proof.
  intros Hlen Hp Hil. rewrite upd2_as_map by exact Hlen.
  apply (par_for_map S s0 (fun i yi => f (vget x i) yi) (length y) its l y eq_refl Hp Hil).
Qed.
Theorem upd3_parallel {S : Scalar} (f : S -> S -> S -> S) (x y z : vec S) its l :
  length x = length z -> length y = length z ->
  Permutation (concat its) (seq 0 (length z)) ->
  Interleave (par_for_steps s0 (fun i zi => f (vget x i) (vget y i) zi) its) l ->
  exec l z = upd3 f x y z.
Proof.
  intros H1 H2 Hp Hil. rewrite upd3_as_map by assumption.
  apply (par_for_map S s0 (fun i zi => f (vget x i) (vget y i) zi) (length z) its l z eq_refl Hp Hil).
Qed.
(* row-wise matrix kernels: output row i = F (input row i); the output array may hold
   anything before the loop *)
Theorem map_rows_parallel {X Y} (F : X -> Y) (dx : X) (dy : Y) (inp : list X) (out : list Y) its l :
  length out = length inp ->
  Permutation (concat its) (seq 0 (length inp)) ->
  Interleave (par_for_steps dy (fun i _ => F (nth i inp dx)) its) l ->
  exec l out = map F inp.
Proof.
  intros Hlen Hp Hil. rewrite (map_as_seq F dx inp).
  apply (par_for_map Y dy (fun i _ => F (nth i inp dx)) (length inp) its l out Hlen Hp Hil).
Qed.

(* ================================================================================ *)
(* 12. reductions.  (a) an associative-commutative operation folded over per-thread
       partial results gives the serial fold for every chunking, every order of the
       elements inside the chunks and every order in which the threads enter the
       critical section, provided the start value is idempotent; (b) std::max over a
       strict total order is such an operation (bitwise for floats without NaN and
       without mixed signed zeros); (c) for + the inner product theorem of C07
       (KernelsProofs.inner_product_parallel_spec) covers the ring case.              *)
Section Reduce.
Variable X : Type.
Variable op : X -> X -> X.
Hypothesis op_assoc : forall a b c, op (op a b) c = op a (op b c).
Hypothesis op_comm : forall a b, op a b = op b a.

Lemma fold_left_op_acc l : forall a b, fold_left op l (op a b) = op a (fold_left op l b).
Proof.
  induction l as [|x l IH]; intros a b; simpl; [reflexivity|].
  rewrite op_assoc. apply IH.
Qed.

Lemma reduce_perm e l l' : Permutation l l' -> reduce op e l = reduce op e l'.
Proof.
  unfold reduce. intro H. revert e. induction H as [|x l l' H IH|x y l|l l' l'' H1 IH1 H2 IH2]; intro e; simpl.
  - reflexivity.
  - apply IH.
  - f_equal. rewrite !op_assoc. f_equal. apply op_comm.
  - rewrite IH1. apply IH2.
Qed.

Lemma reduce_chunked_concat e cs : op e e = e -> reduce_chunked op e cs = reduce op e (concat cs).
Proof.
  intro He. unfold reduce_chunked, reduce.
  assert (G : forall a, op a e = a ->
            fold_left op (map (fun c => fold_left op c e) cs) a = fold_left op (concat cs) a).
  { induction cs as [|c cs IH]; intros a Ha; simpl; [reflexivity|].
    rewrite fold_left_app.
    assert (E : op a (fold_left op c e) = fold_left op c a) by (rewrite <- fold_left_op_acc, Ha; reflexivity).
    rewrite E. apply IH. rewrite <- E.
    rewrite op_assoc, (op_comm _ e), <- op_assoc, Ha. reflexivity. }
  apply G. exact He.
Qed.

Theorem reduce_chunked_any_order e cs l : op e e = e -> Permutation (concat cs) l ->
  reduce_chunked op e cs = reduce op e l.
Proof. intros He Hp. rewrite reduce_chunked_concat by exact He. apply reduce_perm. exact Hp. Qed.
End Reduce.

Section MaxReduce.
Variable S : Scalar.
Hypothesis lt_irr : forall a : S, sltb a a = false.
Hypothesis lt_trans : forall a b c : S, sltb a b = true -> sltb b c = true -> sltb a c = true.
Hypothesis lt_tri : forall a b : S, sltb a b = false -> sltb b a = false -> a = b.

Lemma lt_asym (a b : S) : sltb a b = true -> sltb b a = false.
Proof.
  intro H. destruct (sltb b a) eqn:E; [|reflexivity].
  rewrite <- (lt_irr a). symmetry. eapply lt_trans; eauto.
Qed.

Lemma smax_idem (a : S) : smax a a = a.
Proof. unfold smax. rewrite lt_irr. reflexivity. Qed.

Lemma smax_comm (a b : S) : smax a b = smax b a.
Proof.
  unfold smax. destruct (sltb a b) eqn:AB.
  - rewrite (lt_asym _ _ AB). reflexivity.
  - destruct (sltb b a) eqn:BA; [reflexivity|]. symmetry. apply lt_tri; auto.
Qed.

Lemma smax_assoc (a b c : S) : smax (smax a b) c = smax a (smax b c).
Proof.
  unfold smax. destruct (sltb a b) eqn:AB; destruct (sltb b c) eqn:BC; try rewrite AB; try rewrite BC.
  - rewrite (lt_trans _ _ _ AB BC). reflexivity.
  - reflexivity.
  - reflexivity.
  - destruct (sltb a c) eqn:AC; [|reflexivity]. exfalso.
    destruct (sltb b a) eqn:BA.
    + rewrite (lt_trans _ _ _ BA AC) in BC. discriminate.
    + assert (a = b) by (apply lt_tri; auto). subst. congruence.
Qed.

Theorem max_reduction_order_independent (e : S) (cs : list (list S)) (l : list S) :
  Permutation (concat cs) l -> reduce_chunked smax e cs = reduce smax e l.
Proof.
  apply reduce_chunked_any_order; [exact smax_assoc|exact smax_comm|apply smax_idem].
Qed.
End MaxReduce.

(* closed at the exact rationals *)
Lemma qc_ltb_lt (a b : Qc) : qc_ltb a b = true <-> (this a < this b)%Q.
Proof. unfold qc_ltb, Qlt. apply Z.ltb_lt. Qed.
Lemma QcS_lt_irr (a : QcS) : sltb a a = false.
Proof.
  simpl. destruct (qc_ltb a a) eqn:E; [|reflexivity]. apply qc_ltb_lt in E.
  exfalso. eapply Qlt_irrefl; eauto.
Qed.
Lemma QcS_lt_trans (a b c : QcS) : sltb a b = true -> sltb b c = true -> sltb a c = true.
Proof. simpl. rewrite !qc_ltb_lt. apply Qlt_trans. Qed.
Lemma QcS_lt_tri (a b : QcS) : sltb a b = false -> sltb b a = false -> a = b.
Proof.
  simpl. intros H1 H2. apply Qc_is_canon.
  apply Qle_antisym; apply Qnot_lt_le; intro H; apply qc_ltb_lt in H; congruence.
Qed.

(* ================================================================================ *)
(* 13. (ring) the row function of sptr_solve, X = sum; x[i] -= X, applied in serial
       order is serial_solve's entry-by-entry in-place update                         *)
Lemma upd_upd_same {V} (st : list V) i a b : upd (upd st i a) i b = upd st i b.
Proof. revert i; induction st as [|x st IH]; intros [|i]; simpl; auto. f_equal. apply IH. Qed.
Lemma upd_same {V} (d : V) (st : list V) i : upd st i (nth i st d) = st.
Proof. revert i; induction st as [|x st IH]; intros [|i]; simpl; auto. f_equal. apply IH. Qed.
Lemma exec_length {V} (l : list (step V)) : forall st, length (exec l st) = length st.
Proof.
  induction l as [|s l IH]; intro st; [reflexivity|].
  change (exec (s :: l) st) with (exec l (exec1 s st)). rewrite IH. apply upd_length.
Qed.
Lemma fold_left_inv {X Y} (P : X -> Prop) (f g : X -> Y -> X) (l : list Y) :
  (forall a e, In e l -> P a -> f a e = g a e /\ P (f a e)) ->
  forall a, P a -> fold_left f l a = fold_left g l a.
Proof.
  induction l as [|e l IH]; intros H a Pa; simpl; [reflexivity|].
  destruct (H a e (or_introl eq_refl) Pa) as [E Pn]. rewrite <- E. apply IH; auto.
  intros a' e' He' Pa'. apply H; auto. right; auto.
Qed.

Section SptrRing.
Variable S : Scalar.
Hypothesis Srt : Sring S.
Add Ring SptrR : Srt.
Local Open Scope S_scope.
Local Notation vec := (vec S).
Local Notation crs := (crs S).

Lemma vget_upd_same (x : vec) i v : i < length x -> vget (upd x i v) i = v.
Proof. intro H. unfold vget. apply (rd_upd_same S s0). exact H. Qed.
Lemma vget_upd_other (x : vec) i c v : c <> i -> vget (upd x i v) c = vget x c.
Proof. intro H. unfold vget. apply (rd_upd_other S s0). exact H. Qed.

Lemma sub_fold (r : row S) (x : vec) a : forall X,
  fold_left (fun acc e => acc - snd e * vget x (fst e)) r (a - X)
  = a - fold_left (fun X e => X + snd e * vget x (fst e)) r X.
Proof.
  induction r as [|e r IH]; intro X; simpl; [reflexivity|].
  replace (a - X - snd e * vget x (fst e)) with (a - (X + snd e * vget x (fst e))) by ring.
  apply IH.
Qed.

Lemma serial_row_strict i (r : row S) : (forall e, In e r -> fst e <> i) ->
  forall x : vec, i < length x ->
  serial_row i r x = upd x i (fold_left (fun acc e => acc - snd e * vget x (fst e)) r (vget x i)).
Proof.
  unfold serial_row. induction r as [|e r IH]; intros Hne x Hi; simpl.
  - unfold vget. rewrite upd_same. reflexivity.
  - rewrite set_nth_upd. rewrite IH; [|intros; apply Hne; right; auto|rewrite upd_length; exact Hi].
    rewrite upd_upd_same. f_equal.
    rewrite vget_upd_same by exact Hi.
    apply fold_left_ext_in. intros a e' He'. rewrite vget_upd_other by (apply Hne; right; auto). reflexivity.
Qed.

Lemma sptr_row_lower (A : crs) (D : vec) i (x : vec) :
  (forall e, In e (nth i (rows A) []) -> fst e <> i) -> i < length x ->
  exec1 (sptr_step true A D i) x = serial_row i (nth i (rows A) []) x.
Proof.
  intros Hne Hi. rewrite serial_row_strict by auto. unfold exec1. simpl. f_equal.
  unfold sptr_sum. replace (vget x i) with (vget x i - s0) at 2 by ring.
  rewrite sub_fold. reflexivity.
Qed.

Lemma sptr_row_upper (A : crs) (D : vec) i (x : vec) :
  (forall e, In e (nth i (rows A) []) -> fst e <> i) -> i < length x ->
  exec1 (sptr_step false A D i) x =
  (let x' := serial_row i (nth i (rows A) []) x in set_nth x' i (vget D i * vget x' i)).
Proof.
  intros Hne Hi. cbv zeta. rewrite serial_row_strict by auto. rewrite set_nth_upd, upd_upd_same.
  rewrite vget_upd_same by exact Hi.
  unfold exec1. simpl. f_equal. f_equal.
  unfold sptr_sum. replace (vget x i) with (vget x i - s0) at 2 by ring.
  rewrite sub_fold. reflexivity.
Qed.

Lemma strict_row_ne lower (A : crs) i e : strict_tri lower A -> i < nrows A ->
  In e (nth i (rows A) []) -> fst e <> i.
Proof.
  intros Hst Hi He. assert (Hc : In (fst e) (cols_of A i)) by (unfold cols_of, row_cols; apply in_map; auto).
  destruct lower; simpl in Hst; specialize (Hst i (fst e) Hi Hc); lia.
Qed.

Theorem sptr_serial_steps_lower (L : crs) (D x : vec) : strict_tri true L -> length x = nrows L ->
  exec (sptr_serial_steps true L D) x = serial_lower L x.
Proof.
  intros Hst Hlen. unfold sptr_serial_steps, serial_lower, exec, sweep_order. rewrite fold_left_map.
  apply (fold_left_inv (fun v : vec => length v = nrows L)); [|exact Hlen].
  intros a i Hi Pa. apply in_seq in Hi. split.
  - apply sptr_row_lower; [|lia]. intros e He. eapply strict_row_ne; eauto. lia.
  - unfold exec1. rewrite upd_length. exact Pa.
Qed.

Theorem sptr_serial_steps_upper (U : crs) (D x : vec) : strict_tri false U -> length x = nrows U ->
  exec (sptr_serial_steps false U D) x = serial_upper U D x.
Proof.
  intros Hst Hlen. unfold sptr_serial_steps, serial_upper, exec, sweep_order. rewrite fold_left_map.
  apply (fold_left_inv (fun v : vec => length v = nrows U)); [|exact Hlen].
  intros a i Hi Pa. apply in_rev in Hi. apply in_seq in Hi. split.
  - apply sptr_row_upper; [|lia]. intros e He. eapply strict_row_ne; eauto. lia.
  - unfold exec1. rewrite upd_length. exact Pa.
Qed.

(* parallel_solve = serial_solve for every thread count and every interleaving *)
Theorem ilu_parallel_solve_serial (L U : crs) (D x : vec) nt l1 l2 :
  1 <= nt -> strict_tri true L -> strict_tri false U ->
  length x = nrows L -> nrows U = nrows L ->
  InterleaveLevels (sptr_par_levels true L D nt) l1 ->
  InterleaveLevels (sptr_par_levels false U D nt) l2 ->
  exec l2 (exec l1 x) = ilu_serial_solve L U D x.
Proof.
  intros Hnt HL HU Hlen Hn H1 H2. unfold ilu_serial_solve.
  rewrite (sptr_solve_serial_steps false U D nt l2) by auto.
  rewrite (sptr_solve_serial_steps true L D nt l1) by auto.
  rewrite (sptr_serial_steps_lower L D x) by auto.
  apply sptr_serial_steps_upper; auto.
  rewrite <- (sptr_serial_steps_lower L D x) by auto. rewrite exec_length. lia.
Qed.
End SptrRing.
