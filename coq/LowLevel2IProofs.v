(* LowLevel2IProofs.v -- C10-A2, second layer: the array-level constructor of relaxation::ilu0
   (LowLevel2I.v, amgcl/relaxation/ilu0.hpp:92-205) agrees with the list model Ilu.ilu0.
   On a well-formed matrix with ncols <= nrows and a diagonal entry in every row it stays inside
   every array, reads no unwritten cell (L/U ptr/col/val and D are unwritten at the start), never
   dereferences a NULL work pointer, throws exactly when the list model does and leaves exactly the
   flat arrays of the list model's L, U and the vector D (theorems ll_ilu0_gen / ll_ilu0_ok at the end).
   Rows need NOT be sorted and may contain duplicate columns: the work pointer of a column is the
   LAST entry with this column, as in Ilu.v (get_last / upd_last).  has_diag cannot be dropped: for
   a row without an entry c >= i the cell D[i] stays unwritten (the junk input of the list model).
   No algebraic law is used (any Scalar record).

   Structure of the proof:
     rowst            the memory state inside row i as a function of the list-level work row (wrow)
     wp_access        *work[c] / *work[c] = x  against  get_last / wupd
     lincomb_loop, elim_ok     second loop of the row against Ilu.ilu0_elim (incl. both throws)
     scatter_ok       first loop against Ilu.ilu0_scatter; capacity: one tail cell per entry
     compact_loop     the in-place removal of zeros against Ilu.drop_zeros
     reset_fold       "refresh work"
     row_ok, rows_ok  one row / all rows against Ilu.ilu0_row / Ilu.ilu0_rows
     count_ok         the counting pass *)
From Coq Require Import ZArith Lia.
From Amgcl Require Import Scalar Vec Crs Kernels MatOps MatOpsProofs Relax LowLevel LowLevelProofs LowLevelT LowLevelTProofs
                          LowLevel2 LowLevel2Proofs LowLevel2G LowLevel2GProofs Ilu LowLevel2I.
Local Open Scope nat_scope.

(* ------------------------------------------------------------------ cells *)
Lemma mrd_pre {X} (l : list X) (rest : marr X) k d : k < length l -> mrd (filled l ++ rest) k = Done (nth k l d).
Proof.
  intro H. unfold mrd. rewrite nth_error_app1 by (rewrite filled_length; exact H).
  unfold filled. rewrite nth_error_map, (nth_error_nth' l d H). reflexivity.
Qed.
Lemma mrd_pre_map {X Y} (f : X -> Y) (l : list X) (rest : marr Y) k x :
  nth_error l k = Some x -> mrd (filled (map f l) ++ rest) k = Done (f x).
Proof.
  intro H. assert (Hk : k < length l) by (apply nth_error_Some; congruence).
  unfold mrd. rewrite nth_error_app1 by (rewrite filled_length, map_length; exact Hk).
  unfold filled. rewrite !nth_error_map, H. reflexivity.
Qed.
Lemma mrd_mid {X} (P : marr X) (a : list X) x (b : list X) (T : marr X) k :
  k = length P + length a -> mrd (P ++ filled (a ++ x :: b) ++ T) k = Done x.
Proof.
  intros ->. rewrite filled_app. cbn [filled map]. rewrite <- app_assoc. cbn [app]. rewrite app_assoc.
  apply mrd_app_len. rewrite app_length. unfold filled. rewrite map_length. reflexivity.
Qed.
Lemma mwr_mid {X} (P : marr X) (a : list X) x (b : list X) (T : marr X) k y :
  k = length P + length a -> mwr (P ++ filled (a ++ x :: b) ++ T) k y = Done (P ++ filled (a ++ y :: b) ++ T).
Proof.
  intros ->. rewrite !filled_app. cbn [filled map]. rewrite <- !app_assoc. cbn [app]. rewrite !(app_assoc P).
  apply mwr_app_len. rewrite app_length. unfold filled. rewrite map_length. reflexivity.
Qed.
Lemma mwr_tail {X} (P : marr X) (a : list X) x (T : marr X) k y :
  k = length P + length a -> mwr (P ++ filled a ++ x :: T) k y = Done (P ++ filled (a ++ [y]) ++ T).
Proof.
  intros ->. rewrite filled_app. cbn [filled map]. rewrite <- !app_assoc. cbn [app]. rewrite !(app_assoc P).
  apply mwr_app_len. rewrite app_length. unfold filled. rewrite map_length. reflexivity.
Qed.
Lemma mrd_at4 {X} (a b c : marr X) x t k : k = length a + length b + length c -> mrd (a ++ b ++ c ++ Some x :: t) k = Done x.
Proof. intros ->. rewrite !app_assoc. apply mrd_app_len. rewrite !app_length. reflexivity. Qed.
Lemma mwr_at2 {X} (a b : marr X) x t k y : k = length a + length b -> mwr (a ++ b ++ x :: t) k y = Done (a ++ b ++ Some y :: t).
Proof. intros ->. rewrite !app_assoc. apply mwr_app_len. rewrite !app_length. reflexivity. Qed.

Lemma map_none_seq {X} (f : nat -> option X) : (forall c, f c = None) -> forall n a, map f (seq a n) = repeat None n.
Proof. intros H n. induction n as [|n IH]; intro a; simpl; [reflexivity|]. rewrite H, IH. reflexivity. Qed.

(* ------------------------------------------------------------------ row pointers *)
Definition ptrs {X} (Ls : list (list X)) : list nat := 0 :: psum (map (@length X) Ls).
Lemma ptrs_length {X} (Ls : list (list X)) : length (ptrs Ls) = Datatypes.S (length Ls).
Proof. apply flat_ptr_length. Qed.
Lemma ptrs_snoc {X} (Ls : list (list X)) x : ptrs (Ls ++ [x]) = ptrs Ls ++ [length (concat Ls) + length x].
Proof.
  unfold ptrs, psum. rewrite map_app, psum_from_app. cbn [map psum_from app]. rewrite fold_add_lengths. reflexivity.
Qed.
Lemma ptrs_rd {X} (Ls : list (list X)) (T : marr nat) k : k <= length Ls ->
  mrd (filled (ptrs Ls) ++ T) k = Done (length (concat (firstn k Ls))).
Proof.
  intro H. rewrite (mrd_pre _ _ k 0) by (rewrite ptrs_length; lia). f_equal.
  rewrite <- (firstn_skipn k Ls) at 1.
  replace k with (length (firstn k Ls)) at 1 by (rewrite firstn_length; lia).
  apply flat_ptr_nth.
Qed.
Lemma concat_firstn_S1 {X} (Us : list (list X)) c : c < length Us ->
  concat (firstn (c + 1) Us) = concat (firstn c Us) ++ nth c Us [].
Proof.
  intro H. rewrite Nat.add_1_r, (firstn_S_nth Us c []) by exact H. rewrite concat_app. cbn [concat]. rewrite app_nil_r. reflexivity.
Qed.
Lemma nth_error_concat {X} (Us : list (list X)) c j d : c < length Us -> j < length (nth c Us []) ->
  nth_error (concat Us) (length (concat (firstn c Us)) + j) = Some (nth j (nth c Us []) d).
Proof.
  intros Hc Hj. rewrite <- (firstn_skipn c Us) at 1. rewrite concat_app.
  rewrite nth_error_app2 by lia. replace (length (concat (firstn c Us)) + j - length (concat (firstn c Us))) with j by lia.
  assert (E : skipn c Us = nth c Us [] :: skipn (Datatypes.S c) Us).
  { clear Hj. revert c Hc. induction Us as [|u Us IH]; intros c Hc; simpl in Hc; [lia|].
    destruct c as [|c]; [reflexivity|]. cbn [skipn nth]. apply IH. lia. }
  rewrite E. cbn [concat]. rewrite nth_error_app1 by exact Hj. apply nth_error_nth'. exact Hj.
Qed.

(* ------------------------------------------------------------------ last occurrence of a column *)
Fixpoint lastidx (c : nat) (l : list nat) : option nat :=
  match l with
  | [] => None
  | x :: t => match lastidx c t with
              | Some k => Some (Datatypes.S k)
              | None => if Nat.eqb x c then Some 0 else None
              end
  end.
Lemma lastidx_snoc_same c l : lastidx c (l ++ [c]) = Some (length l).
Proof. induction l as [|x l IH]; simpl; [rewrite Nat.eqb_refl; reflexivity|]. rewrite IH. reflexivity. Qed.
Lemma lastidx_snoc_other c c' l : c' <> c -> lastidx c (l ++ [c']) = lastidx c l.
Proof.
  intro H. induction l as [|x l IH]; simpl.
  - destruct (Nat.eqb_spec c' c); [contradiction|reflexivity].
  - rewrite IH. reflexivity.
Qed.
Lemma lastidx_in c l : In c l -> exists k, lastidx c l = Some k.
Proof.
  induction l as [|x l IH]; intro H; [contradiction|]. simpl.
  destruct (lastidx c l) as [k|]; [exists (Datatypes.S k); reflexivity|].
  destruct H as [->|H]; [rewrite Nat.eqb_refl; exists 0; reflexivity|].
  destruct (IH H) as (k & Hk). discriminate.
Qed.
Lemma lastidx_notin c l : ~ In c l -> lastidx c l = None.
Proof.
  induction l as [|x l IH]; intro H; [reflexivity|]. simpl.
  rewrite IH by (intro H1; apply H; right; exact H1).
  destruct (Nat.eqb_spec x c) as [->|_]; [exfalso; apply H; left; reflexivity|reflexivity].
Qed.

Section Last.
Context {S : Scalar}.
Local Notation row := (list (nat * S)).

Lemma last_split (c : nat) (l : row) :
  (lastidx c (map fst l) = None /\ get_last c l = None /\ forall f, upd_last c f l = l) \/
  (exists l1 v l2, l = l1 ++ (c, v) :: l2 /\ lastidx c (map fst l) = Some (length l1) /\
                   get_last c l = Some v /\ forall f, upd_last c f l = l1 ++ (c, f v) :: l2).
Proof.
  assert (G : (lastidx c (map fst l) = None /\ get_last c l = None /\ has_col c l = false /\ forall f, upd_last c f l = l) \/
  (exists l1 v l2, l = l1 ++ (c, v) :: l2 /\ lastidx c (map fst l) = Some (length l1) /\
                   get_last c l = Some v /\ has_col c l = true /\ forall f, upd_last c f l = l1 ++ (c, f v) :: l2)).
  { induction l as [|[c' v'] l IH]; [left; repeat split; reflexivity|].
    change (has_col c ((c', v') :: l)) with (Nat.eqb c' c || has_col c l)%bool.
    cbn [map fst snd lastidx get_last upd_last].
    destruct IH as [(H1 & H2 & H3 & H4)|(l1 & v & l2 & Hl & H1 & H2 & H3 & H4)].
    - rewrite H1, H2, H3. destruct (Nat.eqb_spec c' c) as [->|Hne].
      + right. exists [], v', l. repeat split; reflexivity.
      + left. repeat split; reflexivity.
    - right. exists ((c', v') :: l1), v, l2. rewrite H1, H2, H3, Bool.orb_true_r.
      repeat split; try reflexivity.
      + rewrite Hl at 1. reflexivity.
      + intro f. rewrite H4. reflexivity. }
  destruct G as [(H1 & H2 & _ & H4)|(l1 & v & l2 & Hl & H1 & H2 & _ & H4)]; [left|right]; eauto 10.
Qed.
End Last.
Lemma skipn_add {X} (l : list X) a b : skipn a (skipn b l) = skipn (b + a) l.
Proof.
  revert l; induction b as [|b IH]; intro l; [reflexivity|].
  destruct l as [|x l]; [destruct a; reflexivity|]. cbn [skipn Nat.add]. apply IH.
Qed.

(* ------------------------------------------------------------------ the state inside row i *)
Section Row.
Context {S : Scalar}.
Local Notation row := (list (nat * S)).
Local Notation wrow := (@wrow S).
Variables (n i : nat) (Ls Us : list row) (D : list S).
Hypothesis HD : length D = i.
Hypothesis Hi : i < n.
Local Notation L0 := (length (concat Ls)).
Local Notation U0 := (length (concat Us)).

(* work[c] *)
Definition wptr (w : wrow) (c : nat) : option wp :=
  if Nat.ltb c i then option_map (fun k => WL (L0 + k)) (lastidx c (map fst (wL w)))
  else if Nat.eqb c i then (if whasd w then Some (WD i) else None)
  else option_map (fun k => WU (U0 + k)) (lastidx c (map fst (wU w))).
Definition wkl (w : wrow) : list (option wp) := map (wptr w) (seq 0 n).
Definition wshape (w : wrow) : list nat * bool * list nat := (map fst (wL w), whasd w, map fst (wU w)).

Lemma wshape_hasd w w' : wshape w = wshape w' -> whasd w = whasd w'.
Proof. unfold wshape. intro H. injection H as _ H _. exact H. Qed.
Lemma wshape_L w w' : wshape w = wshape w' -> map fst (wL w) = map fst (wL w').
Proof. unfold wshape. intro H. injection H as H _ _. exact H. Qed.
Lemma wshape_U w w' : wshape w = wshape w' -> map fst (wU w) = map fst (wU w').
Proof. unfold wshape. intro H. injection H as _ _ H. exact H. Qed.
Lemma wptr_shape w w' c : wshape w = wshape w' -> wptr w c = wptr w' c.
Proof. unfold wshape, wptr. intro H. injection H as H1 H2 H3. rewrite H1, H2, H3. reflexivity. Qed.
Lemma wkl_shape w w' : wshape w = wshape w' -> wkl w = wkl w'.
Proof. intro H. unfold wkl. apply map_ext. intro c. apply wptr_shape. exact H. Qed.
Lemma wkl_length w : length (wkl w) = n.
Proof. unfold wkl. rewrite map_length, seq_length. reflexivity. Qed.

Lemma upd_last_fst c f (r : row) : map fst (upd_last c f r) = map fst r.
Proof.
  induction r as [|e r IH]; simpl; [reflexivity|].
  destruct (has_col c r); simpl; [rewrite IH; reflexivity|].
  destruct (Nat.eqb (fst e) c); reflexivity.
Qed.
Lemma wupd_shape w c f : wshape (wupd i w c f) = wshape w.
Proof.
  unfold wupd, wshape. destruct (Nat.ltb c i); cbn [wL whasd wU].
  - rewrite upd_last_fst. reflexivity.
  - destruct (Nat.eqb c i).
    + destruct (whasd w) eqn:E; cbn [wL whasd wU]; rewrite ?E; reflexivity.
    + cbn [wL whasd wU]. rewrite upd_last_fst. reflexivity.
Qed.
Lemma fold_wupd_shape {X} (g : X -> nat) (h : X -> S -> S) (l : list X) w :
  wshape (fold_left (fun w u => wupd i w (g u) (h u)) l w) = wshape w.
Proof. revert w; induction l as [|u l IH]; intro w; [reflexivity|]. cbn [fold_left]. rewrite IH. apply wupd_shape. Qed.

Definition rowst (lp up tlc : marr nat) (tlv : marr S) (tuc : marr nat) (tuv : marr S) (w : wrow) : ist S :=
  mkI lp (filled (map fst (concat Ls)) ++ filled (map fst (wL w)) ++ tlc)
         (filled (map snd (concat Ls)) ++ filled (map snd (wL w)) ++ tlv)
      up (filled (map fst (concat Us)) ++ filled (map fst (wU w)) ++ tuc)
         (filled (map snd (concat Us)) ++ filled (map snd (wU w)) ++ tuv)
      (filled D ++ (if whasd w then Some (wd w) else None) :: fresh (n - i - 1))
      (filled (wkl w)) (L0 + length (wL w)) (U0 + length (wU w)).

Lemma wk_rd w c : c < n -> mrd (filled (wkl w)) c = Done (wptr w c).
Proof.
  intro Hc. rewrite (mrd_filled _ c None) by (rewrite wkl_length; exact Hc).
  unfold wkl. rewrite nth_map_seq by exact Hc. reflexivity.
Qed.

Lemma wupd_none w c f : wptr w c = None -> wupd i w c f = w.
Proof.
  unfold wptr, wupd. destruct (Nat.ltb c i).
  - destruct (last_split c (wL w)) as [(H1 & _ & H3)|(l1 & v & l2 & _ & H1 & _)]; rewrite H1; [|discriminate].
    intros _. rewrite H3. destruct w; reflexivity.
  - destruct (Nat.eqb c i).
    + destruct (whasd w); [discriminate|reflexivity].
    + destruct (last_split c (wU w)) as [(H1 & _ & H3)|(l1 & v & l2 & _ & H1 & _)]; rewrite H1; [|discriminate].
      intros _. rewrite H3. destruct w; reflexivity.
Qed.

Section Fixed.
Variables (lp up tlc : marr nat) (tlv : marr S) (tuc : marr nat) (tuv : marr S).
Local Notation rst := (rowst lp up tlc tlv tuc tuv).

Lemma wp_access w c q : wptr w c = Some q ->
  exists v, wp_rd (Some q) (rst w) = Done v /\ (c < i -> get_last c (wL w) = Some v) /\
            forall f, wp_wr (Some q) (rst w) (f v) = Done (rst (wupd i w c f)).
Proof.
  unfold wptr, wupd. destruct (Nat.ltb_spec c i) as [Hlt|Hge].
  - destruct (last_split c (wL w)) as [(H1 & _)|(l1 & v & l2 & Hw & H1 & H2 & H4)]; rewrite H1; [discriminate|].
    cbn [option_map]. intro Hq. injection Hq as <-. exists v.
    destruct w as [wl d h wu]. cbn [wL wd whasd wU] in *. subst wl.
    split; [|split; [intros _; exact H2|]].
    + cbn [wp_rd rowst ilv wL]. rewrite map_app. cbn [map snd]. apply mrd_mid.
      rewrite filled_length, !map_length. reflexivity.
    + intro f. cbn [wp_wr rowst ilv ilp ilc iup iuc iuv idd iwk ilh iuh wL wU wd whasd].
      rewrite map_app. cbn [map snd].
      rewrite (mwr_mid _ _ _ _ _ (L0 + length l1)) by (rewrite filled_length, !map_length; reflexivity).
      cbn [mbind]. rewrite H4. f_equal. unfold rowst. cbn [wL wd whasd wU].
      rewrite !map_app, !app_length. cbn [map fst snd length].
      f_equal. f_equal. apply wkl_shape. unfold wshape. cbn [wL wd whasd wU]. rewrite !map_app. reflexivity.
  - destruct (Nat.eqb_spec c i) as [->|Hne].
    + destruct w as [wl d h wu]. cbn [wL wd whasd wU] in *. destruct h; [|discriminate].
      intro Hq. injection Hq as <-. exists d. split; [|split; [lia|]].
      * cbn [wp_rd rowst idd whasd wd]. apply mrd_app_len. rewrite filled_length. exact HD.
      * intro f. cbn [wp_wr rowst ilv ilp ilc iup iuc iuv idd iwk ilh iuh wL wU wd whasd].
        rewrite (mwr_app_len _ _ _ _ i) by (rewrite filled_length; exact HD). cbn [mbind]. reflexivity.
    + destruct (last_split c (wU w)) as [(H1 & _)|(l1 & v & l2 & Hw & H1 & H2 & H4)]; rewrite H1; [discriminate|].
      cbn [option_map]. intro Hq. injection Hq as <-. exists v.
      destruct w as [wl d h wu]. cbn [wL wd whasd wU] in *. subst wu.
      split; [|split; [lia|]].
      * cbn [wp_rd rowst iuv wU]. rewrite map_app. cbn [map snd]. apply mrd_mid.
        rewrite filled_length, !map_length. reflexivity.
      * intro f. cbn [wp_wr rowst ilv ilp ilc iup iuc iuv idd iwk ilh iuh wL wU wd whasd].
        rewrite map_app. cbn [map snd].
        rewrite (mwr_mid _ _ _ _ _ (U0 + length l1)) by (rewrite filled_length, !map_length; reflexivity).
        cbn [mbind]. rewrite H4. f_equal. unfold rowst. cbn [wL wd whasd wU].
        rewrite !map_app, !app_length. cbn [map fst snd length].
        f_equal. f_equal. apply wkl_shape. unfold wshape. cbn [wL wd whasd wU]. rewrite !map_app. reflexivity.
Qed.

Lemma rst_ilp w : ilp (rst w) = lp. Proof. reflexivity. Qed.
Lemma rst_iup w : iup (rst w) = up. Proof. reflexivity. Qed.
Lemma rst_ilc w : ilc (rst w) = filled (map fst (concat Ls)) ++ filled (map fst (wL w)) ++ tlc. Proof. reflexivity. Qed.
Lemma rst_ilv w : ilv (rst w) = filled (map snd (concat Ls)) ++ filled (map snd (wL w)) ++ tlv. Proof. reflexivity. Qed.
Lemma rst_iuc w : iuc (rst w) = filled (map fst (concat Us)) ++ filled (map fst (wU w)) ++ tuc. Proof. reflexivity. Qed.
Lemma rst_iuv w : iuv (rst w) = filled (map snd (concat Us)) ++ filled (map snd (wU w)) ++ tuv. Proof. reflexivity. Qed.
Lemma rst_idd w : idd (rst w) = filled D ++ (if whasd w then Some (wd w) else None) :: fresh (n - i - 1). Proof. reflexivity. Qed.
Lemma rst_iwk w : iwk (rst w) = filled (wkl w). Proof. reflexivity. Qed.
Lemma rst_ilh w : ilh (rst w) = L0 + length (wL w). Proof. reflexivity. Qed.
Lemma rst_iuh w : iuh (rst w) = U0 + length (wU w). Proof. reflexivity. Qed.

Hypothesis HUs : length Us = i.
Hypothesis Hup : forall c, c <= i -> mrd up c = Done (length (concat (firstn c Us))).

Lemma lincomb_step_ok tl w (u : nat * S) k : nth_error (concat Us) k = Some u -> fst u < n ->
  lincomb_body tl k (rst w) = Done (rst (wupd i w (fst u) (fun v => v - tl * snd u)%S)).
Proof.
  intros Hk Hu. unfold lincomb_body. rewrite rst_iuc.
  rewrite (mrd_pre_map fst _ _ k u Hk). cbn [mbind].
  rewrite rst_iwk, wk_rd by exact Hu. cbn [mbind].
  destruct (wptr w (fst u)) as [q|] eqn:E.
  - destruct (wp_access w (fst u) q E) as (v & Hr & _ & Hw).
    rewrite Hr. cbn [mbind]. rewrite rst_iuv, (mrd_pre_map snd _ _ k u Hk). cbn [mbind].
    exact (Hw (fun v => v - tl * snd u)%S).
  - rewrite wupd_none by exact E. reflexivity.
Qed.

Lemma lincomb_loop tl : forall (rc : row) k w,
  (forall j, j < length rc -> nth_error (concat Us) (k + j) = Some (nth j rc (0, s0))) ->
  Forall (fun e => fst e < n) rc ->
  mfor k (length rc) (lincomb_body tl) (rst w)
  = Done (rst (fold_left (fun w u => wupd i w (fst u) (fun v => v - tl * snd u)%S) rc w)).
Proof.
  induction rc as [|u rc IH]; intros k w Hk Hn; [reflexivity|].
  cbn [length]. rewrite mfor_step. inversion Hn as [|? ? Hu Hn']; subst.
  rewrite (lincomb_step_ok tl w u k);
    [|specialize (Hk 0 ltac:(simpl; lia)); rewrite Nat.add_0_r in Hk; exact Hk|exact Hu].
  cbn [mbind fold_left]. apply IH; [|exact Hn'].
  intros j Hj. replace (Datatypes.S k + j) with (k + Datatypes.S j) by lia. apply (Hk (Datatypes.S j)). simpl; lia.
Qed.

Hypothesis HUn : Forall (Forall (fun e : nat * S => fst e < n)) Us.

Lemma elim_ok (F : fcrs S) : forall (ents : row) j w,
  whasd w = true ->
  Forall (fun e => fst e < n) ents ->
  (forall e, In e ents -> fst e < i -> In (fst e) (map fst (wL w))) ->
  (forall k, k < length ents -> ird (fcol F) (j + k) = Done (fst (nth k ents (0, s0)))) ->
  elim_loop F i j (length ents) (rst w)
  = match ilu0_elim i Us D ents w with
    | Ilu.Err e => Done (EThrow e)
    | Ilu.Ok w' => Done (EOk (rst w'))
    end.
Proof.
  induction ents as [|e ents IH]; intros j w Hh Hn Hin Hrd; [reflexivity|].
  cbn [length elim_loop ilu0_elim].
  pose proof (Hrd 0 ltac:(simpl; lia)) as H0. rewrite Nat.add_0_r in H0. cbn [nth] in H0. rewrite H0. cbn [mbind].
  inversion Hn as [|? ? He Hn']; subst.
  destruct (Nat.leb_spec i (fst e)) as [Hge|Hlt].
  - destruct (Nat.eqb_spec (fst e) i) as [Heq|Hne]; cbn [negb]; [|reflexivity].
    rewrite rst_idd, Hh. rewrite (mrd_app_len _ _ _ i) by (rewrite filled_length; exact HD). cbn [mbind].
    destruct (is_zero (wd w)); [reflexivity|].
    rewrite (mwr_app_len _ _ _ _ i) by (rewrite filled_length; exact HD). cbn [mbind].
    f_equal. f_equal. destruct w as [wl d h wu]. cbn [wL wd whasd wU] in *. subst h. reflexivity.
  - rewrite rst_iwk, wk_rd by exact He. cbn [mbind].
    destruct (lastidx_in (fst e) _ (Hin e (or_introl eq_refl) Hlt)) as (k0 & Hk0).
    assert (E : wptr w (fst e) = Some (WL (L0 + k0))).
    { unfold wptr. destruct (Nat.ltb_spec (fst e) i); [|lia]. rewrite Hk0. reflexivity. }
    rewrite E. destruct (wp_access w (fst e) _ E) as (v & Hr & Hg & Hw). rewrite Hr. cbn [mbind].
    rewrite rst_idd, (mrd_pre D _ (fst e) s0) by lia. cbn [mbind].
    pose proof (Hw (fun _ => (v * nth (fst e) D s0)%S)) as Hw1. cbv beta in Hw1. rewrite Hw1. cbn [mbind].
    rewrite rst_iup, (Hup (fst e)), (Hup (fst e + 1)) by lia. cbn [mbind].
    rewrite concat_firstn_S1 by lia. rewrite app_length.
    replace (length (concat (firstn (fst e) Us)) + length (nth (fst e) Us []) - length (concat (firstn (fst e) Us)))
      with (length (nth (fst e) Us [])) by lia.
    rewrite lincomb_loop.
    2:{ intros j0 Hj0. apply nth_error_concat; [lia|exact Hj0]. }
    2:{ destruct (nth_in_or_default (fst e) Us []) as [Hi1|Hd1]; [|rewrite Hd1; constructor].
        rewrite Forall_forall in HUn. apply HUn. exact Hi1. }
    cbn [mbind]. unfold wgetL. rewrite (Hg Hlt). unfold vget.
    apply IH.
    + rewrite <- Hh. apply wshape_hasd. rewrite fold_wupd_shape. apply wupd_shape.
    + exact Hn'.
    + intros e' He' Hlt'.
      rewrite (wshape_L _ w); [apply Hin; [right; exact He'|exact Hlt']|].
      rewrite fold_wupd_shape. apply wupd_shape.
    + intros k Hk. replace (Datatypes.S j + k) with (j + Datatypes.S k) by lia. apply (Hrd (Datatypes.S k)). simpl; lia.
Qed.

End Fixed.

(* ---------------- first loop: scatter ---------------- *)
Definition sstep (w : wrow) (e : nat * S) : wrow :=
  if Nat.ltb (fst e) i then mkW (wL w ++ [e]) (wd w) (whasd w) (wU w)
  else if Nat.eqb (fst e) i then mkW (wL w) (snd e) true (wU w)
  else mkW (wL w) (wd w) (whasd w) (wU w ++ [e]).
Lemma scatter_fold r jd : ilu0_scatter i r jd = fold_left sstep r (mkW [] jd false []).
Proof. reflexivity. Qed.

Definition scat_h (e : nat * S) (st : ist S) : mres (ist S) :=
  if Nat.ltb (fst e) i then
    lc <-- mwr (ilc st) (ilh st) (fst e) ;;
    lv <-- mwr (ilv st) (ilh st) (snd e) ;;
    wk <-- mwr (iwk st) (fst e) (Some (WL (ilh st))) ;;
    Done (mkI (ilp st) lc lv (iup st) (iuc st) (iuv st) (idd st) wk (Datatypes.S (ilh st)) (iuh st))
  else if Nat.eqb (fst e) i then
    dd <-- mwr (idd st) i (snd e) ;;
    wk <-- mwr (iwk st) (fst e) (Some (WD i)) ;;
    Done (mkI (ilp st) (ilc st) (ilv st) (iup st) (iuc st) (iuv st) dd wk (ilh st) (iuh st))
  else
    uc <-- mwr (iuc st) (iuh st) (fst e) ;;
    uv <-- mwr (iuv st) (iuh st) (snd e) ;;
    wk <-- mwr (iwk st) (fst e) (Some (WU (iuh st))) ;;
    Done (mkI (ilp st) (ilc st) (ilv st) (iup st) uc uv (idd st) wk (ilh st) (Datatypes.S (iuh st))).
Lemma scatter_body_h (F : fcrs S) j c v st : ird (fcol F) j = Done c -> ird (fval F) j = Done v ->
  scatter_body F i j st = scat_h (c, v) st.
Proof. intros Hc Hv. unfold scatter_body, scat_h. rewrite Hc, Hv. reflexivity. Qed.

Lemma wkl_upd w w' c : c < n -> (forall c', c' <> c -> wptr w' c' = wptr w c') ->
  upd (wkl w) c (wptr w' c) = wkl w'.
Proof.
  intros Hc H. apply nth_ext with (d := None) (d' := None); [rewrite upd_length, !wkl_length; reflexivity|].
  intros k Hk. rewrite upd_length, wkl_length in Hk. rewrite upd_nth by (rewrite wkl_length; exact Hc).
  unfold wkl. rewrite !nth_map_seq by exact Hk.
  destruct (Nat.eqb_spec k c) as [->|Hne]; [reflexivity|]. symmetry. apply H. exact Hne.
Qed.

Definition lcnt (r : row) : nat := length (filter (fun e => Nat.ltb (fst e) i) r).
Definition ucnt (r : row) : nat := length (filter (fun e => Nat.ltb i (fst e)) r).

Lemma scat_step lp up tlc tlv tuc tuv w e : fst e < n ->
  lcnt [e] <= length tlc -> lcnt [e] <= length tlv -> ucnt [e] <= length tuc -> ucnt [e] <= length tuv ->
  scat_h e (rowst lp up tlc tlv tuc tuv w)
  = Done (rowst lp up (skipn (lcnt [e]) tlc) (skipn (lcnt [e]) tlv) (skipn (ucnt [e]) tuc) (skipn (ucnt [e]) tuv) (sstep w e)).
Proof.
  intro He. unfold scat_h, sstep, lcnt, ucnt. cbn [filter].
  destruct (Nat.ltb_spec (fst e) i) as [Hlt|Hge].
  - destruct (Nat.ltb_spec i (fst e)) as [Hlt2|_]; [lia|]. cbn [length skipn]. intros H1 H2 _ _.
    destruct tlc as [|x tlc]; [simpl in H1; lia|]. destruct tlv as [|y tlv]; [simpl in H2; lia|].
    cbn [rowst ilp ilc ilv iup iuc iuv idd iwk ilh iuh].
    rewrite (mwr_tail _ _ _ _ (L0 + length (wL w))) by (rewrite filled_length, !map_length; reflexivity). cbn [mbind].
    rewrite (mwr_tail _ _ _ _ (L0 + length (wL w))) by (rewrite filled_length, !map_length; reflexivity). cbn [mbind].
    rewrite mwr_filled by (rewrite wkl_length; exact He). cbn [mbind]. f_equal.
    unfold rowst. cbn [wL wd whasd wU]. rewrite !map_app, app_length. cbn [map length].
    f_equal; [|lia]. f_equal.
    set (w' := mkW (wL w ++ [e]) (wd w) (whasd w) (wU w)).
    assert (E : Some (WL (L0 + length (wL w))) = wptr w' (fst e)).
    { unfold wptr, w'. cbn [wL]. destruct (Nat.ltb_spec (fst e) i); [|lia].
      rewrite map_app. cbn [map]. rewrite lastidx_snoc_same, map_length. reflexivity. }
    rewrite E. apply wkl_upd; [exact He|]. intros c' Hc'. unfold wptr, w'. cbn [wL whasd wU].
    rewrite map_app. cbn [map]. rewrite lastidx_snoc_other by congruence. reflexivity.
  - destruct (Nat.eqb_spec (fst e) i) as [Heq|Hne].
    + destruct (Nat.ltb_spec i (fst e)) as [Hlt2|_]; [lia|]. cbn [length skipn]. intros _ _ _ _.
      cbn [rowst ilp ilc ilv iup iuc iuv idd iwk ilh iuh].
      rewrite (mwr_app_len _ _ _ _ i) by (rewrite filled_length; exact HD). cbn [mbind].
      rewrite mwr_filled by (rewrite wkl_length; exact He). cbn [mbind]. f_equal.
      unfold rowst. cbn [wL wd whasd wU]. f_equal. f_equal.
      set (w' := mkW (wL w) (snd e) true (wU w)).
      assert (E : Some (WD i) = wptr w' (fst e)).
      { unfold wptr, w'. cbn [whasd]. destruct (Nat.ltb_spec (fst e) i); [lia|].
        destruct (Nat.eqb_spec (fst e) i); [reflexivity|lia]. }
      rewrite E. apply wkl_upd; [exact He|]. intros c' Hc'. unfold wptr, w'. cbn [wL whasd wU].
      destruct (Nat.ltb c' i); [reflexivity|]. destruct (Nat.eqb_spec c' i); [congruence|reflexivity].
    + destruct (Nat.ltb_spec i (fst e)) as [_|Hle]; [|lia]. cbn [length skipn]. intros _ _ H1 H2.
      destruct tuc as [|x tuc]; [simpl in H1; lia|]. destruct tuv as [|y tuv]; [simpl in H2; lia|].
      cbn [rowst ilp ilc ilv iup iuc iuv idd iwk ilh iuh].
      rewrite (mwr_tail _ _ _ _ (U0 + length (wU w))) by (rewrite filled_length, !map_length; reflexivity). cbn [mbind].
      rewrite (mwr_tail _ _ _ _ (U0 + length (wU w))) by (rewrite filled_length, !map_length; reflexivity). cbn [mbind].
      rewrite mwr_filled by (rewrite wkl_length; exact He). cbn [mbind]. f_equal.
      unfold rowst. cbn [wL wd whasd wU]. rewrite !map_app, app_length. cbn [map length].
      f_equal; [|lia]. f_equal.
      set (w' := mkW (wL w) (wd w) (whasd w) (wU w ++ [e])).
      assert (E : Some (WU (U0 + length (wU w))) = wptr w' (fst e)).
      { unfold wptr, w'. cbn [wU]. destruct (Nat.ltb_spec (fst e) i); [lia|].
        destruct (Nat.eqb_spec (fst e) i); [lia|].
        rewrite map_app. cbn [map]. rewrite lastidx_snoc_same, map_length. reflexivity. }
      rewrite E. apply wkl_upd; [exact He|]. intros c' Hc'. unfold wptr, w'. cbn [wL whasd wU].
      rewrite map_app. cbn [map]. rewrite lastidx_snoc_other by congruence. reflexivity.
Qed.

Lemma lcnt_cons e r : lcnt (e :: r) = lcnt [e] + lcnt r.
Proof. unfold lcnt. cbn [filter]. destruct (Nat.ltb (fst e) i); reflexivity. Qed.
Lemma ucnt_cons e r : ucnt (e :: r) = ucnt [e] + ucnt r.
Proof. unfold ucnt. cbn [filter]. destruct (Nat.ltb i (fst e)); reflexivity. Qed.

Lemma scatter_ok lp up : forall (r : row) tlc tlv tuc tuv w,
  Forall (fun e => fst e < n) r ->
  lcnt r <= length tlc -> lcnt r <= length tlv -> ucnt r <= length tuc -> ucnt r <= length tuv ->
  mfoldl scat_h r (rowst lp up tlc tlv tuc tuv w)
  = Done (rowst lp up (skipn (lcnt r) tlc) (skipn (lcnt r) tlv) (skipn (ucnt r) tuc) (skipn (ucnt r) tuv)
                (fold_left sstep r w)).
Proof.
  induction r as [|e r IH]; intros tlc tlv tuc tuv w Hn H1 H2 H3 H4; [reflexivity|].
  inversion Hn as [|? ? He Hn']; subst.
  rewrite lcnt_cons in H1, H2 |- *. rewrite ucnt_cons in H3, H4 |- *.
  cbn [mfoldl fold_left]. rewrite scat_step by (try exact He; lia). cbn [mbind].
  rewrite IH by (try exact Hn'; rewrite skipn_length; lia).
  rewrite !skipn_add. reflexivity.
Qed.
End Row.
Lemma fresh_pos {X} k : 0 < k -> @fresh X k = None :: fresh (k - 1).
Proof. destruct k as [|k]; [lia|]. intros _. cbn [Nat.sub]. rewrite Nat.sub_0_r. reflexivity. Qed.

(* ------------------------------------------------------------------ in-place compaction *)
Section Compact.
Context {S : Scalar}.
Local Notation row := (list (nat * S)).

Definition cbody (j : nat) (s : marr nat * marr S * nat) : mres (marr nat * marr S * nat) :=
  let '(col, val, head) := s in
  v <-- mrd val j ;;
  if negb (is_zero v) then
    cj <-- mrd col j ;;
    col' <-- mwr col head cj ;;
    val' <-- mwr val head v ;;
    Done (col', val', Datatypes.S head)
  else Done s.
Lemma compact_unfold ptr col val i :
  compact ptr col val i = (h0 <-- mrd ptr i ;; e <-- mrd ptr (i + 1) ;; mfor h0 (e - h0) cbody (col, val, h0)).
Proof. reflexivity. Qed.

Lemma compact_loop : forall (todo kept : row) (P : marr nat) (Pv : marr S) (X : marr nat) (Xv : marr S) T Tv,
  length P = length Pv -> length X = length Xv ->
  exists X' Xv',
    mfor (length P + length kept + length X) (length todo) cbody
      (P ++ filled (map fst kept) ++ X ++ filled (map fst todo) ++ T,
       Pv ++ filled (map snd kept) ++ Xv ++ filled (map snd todo) ++ Tv, length P + length kept)
    = Done (P ++ filled (map fst (kept ++ drop_zeros todo)) ++ X' ++ T,
            Pv ++ filled (map snd (kept ++ drop_zeros todo)) ++ Xv' ++ Tv,
            length P + length (kept ++ drop_zeros todo)) /\
    length X' = length Xv' /\ length X' + length (drop_zeros todo) = length X + length todo.
Proof.
  induction todo as [|[c v] todo IH]; intros kept P Pv X Xv T Tv HP HX.
  - exists X, Xv. cbn [drop_zeros filter length map filled app]. rewrite app_nil_r.
    split; [reflexivity|]. split; [exact HX|lia].
  - cbn [length map fst snd]. rewrite mfor_step. unfold cbody at 1.
    change (filled (c :: map fst todo)) with (Some c :: filled (map fst todo)).
    change (filled (v :: map snd todo)) with (Some v :: filled (map snd todo)).
    rewrite <- !app_comm_cons.
    rewrite (mrd_at4 Pv (filled (map snd kept)) Xv v _ (length P + length kept + length X))
      by (rewrite filled_length, map_length; lia).
    cbn [mbind]. unfold drop_zeros. cbn [filter snd]. fold (drop_zeros todo).
    destruct (is_zero v) eqn:Ez; cbn [negb].
    + cbn [mbind].
      destruct (IH kept P Pv (X ++ [Some c]) (Xv ++ [Some v]) T Tv HP) as (X' & Xv' & Hrun & Hl1 & Hl2).
      { rewrite !app_length. cbn [length]. lia. }
      exists X', Xv'. rewrite app_length in Hrun, Hl2. cbn [length] in Hrun, Hl2.
      rewrite <- !app_assoc in Hrun. cbn [app] in Hrun.
      replace (length P + length kept + (length X + 1)) with (Datatypes.S (length P + length kept + length X)) in Hrun by lia.
      split; [exact Hrun|]. split; [exact Hl1|lia].
    + rewrite (mrd_at4 P (filled (map fst kept)) X c _ (length P + length kept + length X))
        by (rewrite filled_length, map_length; lia).
      cbn [mbind].
      destruct X as [|x X1]; destruct Xv as [|y Xv1]; try (cbn [length] in HX; lia).
      * cbn [app length].
        rewrite (mwr_at2 P (filled (map fst kept)) (Some c) _ (length P + length kept) c)
          by (rewrite filled_length, map_length; lia). cbn [mbind].
        rewrite (mwr_at2 Pv (filled (map snd kept)) (Some v) _ (length P + length kept) v)
          by (rewrite filled_length, map_length; lia). cbn [mbind].
        destruct (IH (kept ++ [(c, v)]) P Pv [] [] T Tv HP eq_refl) as (X' & Xv' & Hrun & Hl1 & Hl2).
        exists X', Xv'.
        replace (kept ++ (c, v) :: drop_zeros todo) with ((kept ++ [(c, v)]) ++ drop_zeros todo) by (rewrite <- app_assoc; reflexivity).
        set (K := (kept ++ [(c, v)]) ++ drop_zeros todo) in *.
        rewrite !map_app, !filled_app, app_length in Hrun. cbn [length map fst snd filled app] in Hrun.
        rewrite <- !app_assoc in Hrun. cbn [app] in Hrun.
        replace (length P + (length kept + 1) + 0) with (Datatypes.S (length P + length kept + 0)) in Hrun by lia.
        replace (length P + (length kept + 1)) with (Datatypes.S (length P + length kept)) in Hrun by lia.
        split; [|split; [exact Hl1|cbn [length] in *; lia]].
        exact Hrun.
      * cbn [app length].
        rewrite (mwr_at2 P (filled (map fst kept)) x _ (length P + length kept) c)
          by (rewrite filled_length, map_length; lia). cbn [mbind].
        rewrite (mwr_at2 Pv (filled (map snd kept)) y _ (length P + length kept) v)
          by (rewrite filled_length, map_length; lia). cbn [mbind].
        destruct (IH (kept ++ [(c, v)]) P Pv (X1 ++ [Some c]) (Xv1 ++ [Some v]) T Tv HP) as (X' & Xv' & Hrun & Hl1 & Hl2).
        { rewrite !app_length. cbn [length] in *. lia. }
        exists X', Xv'.
        replace (kept ++ (c, v) :: drop_zeros todo) with ((kept ++ [(c, v)]) ++ drop_zeros todo) by (rewrite <- app_assoc; reflexivity).
        set (K := (kept ++ [(c, v)]) ++ drop_zeros todo) in *.
        rewrite !map_app, !filled_app, !app_length in Hrun. cbn [length map fst snd filled app] in Hrun.
        rewrite <- !app_assoc in Hrun. cbn [app] in Hrun.
        replace (length P + (length kept + 1) + (length X1 + 1)) with (Datatypes.S (length P + length kept + Datatypes.S (length X1))) in Hrun by lia.
        replace (length P + (length kept + 1)) with (Datatypes.S (length P + length kept)) in Hrun by lia.
        split; [|split; [exact Hl1|rewrite app_length in Hl2; cbn [length] in *; lia]].
        exact Hrun.
Qed.
End Compact.

(* ------------------------------------------------------------------ "refresh work" *)
Lemma reset_fold {Y E} (g : E -> nat) (z : Y) (n : nat) : forall (r : list E) (wk : list Y),
  length wk = n -> Forall (fun e => g e < n) r ->
  (forall c, c < n -> ~ In c (map g r) -> nth c wk z = z) ->
  mfoldl (fun e wk => mwr wk (g e) z) r (filled wk) = Done (filled (repeat z n)).
Proof.
  induction r as [|e r IH]; intros wk Hl Hn Hz.
  - cbn [mfoldl]. f_equal. f_equal. apply nth_ext with (d := z) (d' := z); [rewrite repeat_length; exact Hl|].
    intros c Hc. rewrite Hz by (try intros []; lia). symmetry. apply nth_repeat.
  - inversion Hn as [|? ? He Hn']; subst. cbn [mfoldl]. rewrite mwr_filled by exact He. cbn [mbind].
    apply IH; [apply upd_length|exact Hn'|].
    intros c Hc Hnin. rewrite upd_nth by exact He. destruct (Nat.eqb_spec c (g e)) as [->|Hne]; [reflexivity|].
    apply Hz; [exact Hc|]. cbn [map In]. intros [H|H]; [congruence|contradiction].
Qed.

(* ------------------------------------------------------------------ facts about the list model of a row *)
Section RowFacts.
Context {S : Scalar}.
Local Notation row := (list (nat * S)).
Local Notation wrow := (@wrow S).
Variable i : nat.

Lemma sstep_hasd_mono (r : row) : forall w : wrow, whasd w = true -> whasd (fold_left (sstep i) r w) = true.
Proof.
  induction r as [|e r IH]; intros w H; [exact H|]. cbn [fold_left]. apply IH. unfold sstep.
  destruct (Nat.ltb (fst e) i); [exact H|]. destruct (Nat.eqb (fst e) i); [reflexivity|exact H].
Qed.
Lemma scatter_hasd (r : row) : forall w : wrow, In i (map fst r) -> whasd (fold_left (sstep i) r w) = true.
Proof.
  induction r as [|e r IH]; intros w H; [contradiction|]. cbn [fold_left]. cbn [map In] in H.
  destruct H as [H|H]; [|apply IH; exact H].
  apply sstep_hasd_mono. unfold sstep. rewrite H, Nat.ltb_irrefl, Nat.eqb_refl. reflexivity.
Qed.
Lemma sstep_L_mono (r : row) c : forall w : wrow, In c (map fst (wL w)) -> In c (map fst (wL (fold_left (sstep i) r w))).
Proof.
  induction r as [|e r IH]; intros w H; [exact H|]. cbn [fold_left]. apply IH. unfold sstep.
  destruct (Nat.ltb (fst e) i); [|destruct (Nat.eqb (fst e) i); exact H].
  cbn [wL]. rewrite map_app. apply in_or_app. left. exact H.
Qed.
Lemma scatter_L (r : row) : forall (w : wrow) e, In e r -> fst e < i -> In (fst e) (map fst (wL (fold_left (sstep i) r w))).
Proof.
  induction r as [|e0 r IH]; intros w e H Hlt; [contradiction|]. cbn [fold_left].
  destruct H as [->|H]; [|apply IH; assumption].
  apply sstep_L_mono. unfold sstep. destruct (Nat.ltb_spec (fst e) i); [|lia].
  cbn [wL]. rewrite map_app. apply in_or_app. right. left. reflexivity.
Qed.
Lemma sstep_wptr_other (Ls Us : list row) (w : wrow) e c : c <> fst e -> wptr i Ls Us (sstep i w e) c = wptr i Ls Us w c.
Proof.
  intro Hc. unfold sstep, wptr.
  destruct (Nat.ltb (fst e) i); cbn [wL whasd wU].
  - rewrite map_app. cbn [map]. rewrite lastidx_snoc_other by congruence. reflexivity.
  - destruct (Nat.eqb_spec (fst e) i) as [Heq|Hne]; cbn [wL whasd wU].
    + destruct (Nat.ltb c i); [reflexivity|]. destruct (Nat.eqb_spec c i); [congruence|reflexivity].
    + rewrite map_app. cbn [map]. rewrite lastidx_snoc_other by congruence. reflexivity.
Qed.
Lemma scatter_wptr_other (Ls Us : list row) (r : row) c : forall w : wrow, ~ In c (map fst r) ->
  wptr i Ls Us (fold_left (sstep i) r w) c = wptr i Ls Us w c.
Proof.
  induction r as [|e r IH]; intros w H; [reflexivity|]. cbn [fold_left]. cbn [map In] in H.
  rewrite IH by tauto. apply sstep_wptr_other. intro E. apply H. left. symmetry. exact E.
Qed.
Lemma wptr_empty (Ls Us : list row) jd c : wptr i Ls Us (mkW [] jd false []) c = None.
Proof. unfold wptr. cbn [wL wU whasd map lastidx option_map]. destruct (Nat.ltb c i); [reflexivity|]. destruct (Nat.eqb c i); reflexivity. Qed.

Lemma elim_shape (Us : list row) (D : list S) : forall (ents : row) (w w' : wrow),
  ilu0_elim i Us D ents w = Ilu.Ok w' -> wshape w' = wshape w.
Proof.
  induction ents as [|e ents IH]; intros w w' H.
  - cbn in H. injection H as <-. reflexivity.
  - cbn [ilu0_elim] in H. destruct (Nat.leb i (fst e)).
    + destruct (Nat.eqb (fst e) i); [|discriminate]. destruct (is_zero (wd w)); [discriminate|].
      injection H as <-. reflexivity.
    + apply IH in H. rewrite H, (fold_wupd_shape i). apply wupd_shape.
Qed.
End RowFacts.

(* ------------------------------------------------------------------ the state between two rows *)
Section Between.
Context {S : Scalar}.
Local Notation row := (list (nat * S)).
Local Notation wrow := (@wrow S).

Definition between (n : nat) (Ls Us : list row) (D : list S) (tlc : marr nat) (tlv : marr S) (tuc : marr nat) (tuv : marr S) : ist S :=
  mkI (filled (ptrs Ls) ++ fresh (n - length Ls))
      (filled (map fst (concat Ls)) ++ tlc) (filled (map snd (concat Ls)) ++ tlv)
      (filled (ptrs Us) ++ fresh (n - length Us))
      (filled (map fst (concat Us)) ++ tuc) (filled (map snd (concat Us)) ++ tuv)
      (filled D ++ fresh (n - length D)) (filled (repeat None n)) (length (concat Ls)) (length (concat Us)).

Lemma between_rowst n i Ls Us D tlc tlv tuc tuv jd : length Ls = i -> length Us = i -> length D = i -> i < n ->
  between n Ls Us D tlc tlv tuc tuv
  = rowst n i Ls Us D (filled (ptrs Ls) ++ fresh (n - i)) (filled (ptrs Us) ++ fresh (n - i)) tlc tlv tuc tuv (mkW [] jd false []).
Proof.
  intros HL HU HD Hi. unfold between, rowst. cbn [wL wd whasd wU map filled app length].
  rewrite HL, HU, HD, !Nat.add_0_r. f_equal.
  - rewrite (fresh_pos (n - i)) by lia. reflexivity.
  - f_equal. symmetry. unfold wkl. apply map_none_seq. intro c. apply wptr_empty.
Qed.
End Between.
Lemma snoc_ptr {X} (Ls : list (list X)) x n i : length Ls = i -> i < n ->
  filled (ptrs Ls) ++ Some (length (concat Ls) + length x) :: fresh (n - i - 1)
  = filled (ptrs (Ls ++ [x])) ++ fresh (n - length (Ls ++ [x])).
Proof.
  intros H Hi. rewrite ptrs_snoc, filled_app, <- app_assoc, app_length, H. cbn [length filled map app].
  replace (n - (i + 1)) with (n - i - 1) by lia. reflexivity.
Qed.
Lemma snoc_arr {X Y} (f : X -> Y) (Ls : list (list X)) x (T : marr Y) :
  filled (map f (concat Ls)) ++ filled (map f x) ++ T = filled (map f (concat (Ls ++ [x]))) ++ T.
Proof. rewrite concat_app. cbn [concat]. rewrite app_nil_r, map_app, filled_app, <- app_assoc. reflexivity. Qed.
Lemma snoc_dd {X} (D : list X) d n i : length D = i -> i < n ->
  filled D ++ Some d :: fresh (n - i - 1) = filled (D ++ [d]) ++ fresh (n - length (D ++ [d])).
Proof.
  intros H Hi. rewrite filled_app, <- app_assoc, app_length, H. cbn [length filled map app].
  replace (n - (i + 1)) with (n - i - 1) by lia. reflexivity.
Qed.
Lemma snoc_len {X} (Ls : list (list X)) x : length (concat Ls) + length x = length (concat (Ls ++ [x])).
Proof. rewrite concat_app, app_length. cbn [concat]. rewrite app_nil_r. reflexivity. Qed.

Section RowOk.
Context {S : Scalar}.
Local Notation row := (list (nat * S)).

Lemma compact_row (wl : row) (P : marr nat) (Pv : marr S) T Tv : length P = length Pv ->
  exists X' Xv',
    mfor (length P) (length wl) cbody (P ++ filled (map fst wl) ++ T, Pv ++ filled (map snd wl) ++ Tv, length P)
    = Done (P ++ filled (map fst (drop_zeros wl)) ++ X' ++ T, Pv ++ filled (map snd (drop_zeros wl)) ++ Xv' ++ Tv,
            length P + length (drop_zeros wl)) /\
    length X' = length Xv' /\ length X' + length (drop_zeros wl) = length wl.
Proof.
  intro H. destruct (compact_loop wl [] P Pv [] [] T Tv H eq_refl) as (X' & Xv' & Hrun & H1 & H2).
  exists X', Xv'.
  change (filled (map fst (@nil (nat * S)))) with (@nil (option nat)) in Hrun.
  change (filled (map snd (@nil (nat * S)))) with (@nil (option S)) in Hrun.
  cbn [app length] in Hrun, H2. rewrite !Nat.add_0_r in Hrun. split; [exact Hrun|]. split; [exact H1|exact H2].
Qed.

Lemma scatter_U_in i (r : row) : forall (w : @wrow S) c,
  In c (map fst (wU (fold_left (sstep i) r w))) -> In c (map fst (wU w)) \/ In c (map fst r).
Proof.
  induction r as [|e r IH]; intros w c H; [left; exact H|]. cbn [fold_left] in H. apply IH in H.
  destruct H as [H|H]; [|right; right; exact H]. unfold sstep in H.
  destruct (Nat.ltb (fst e) i); [left; exact H|]. destruct (Nat.eqb (fst e) i); [left; exact H|].
  cbn [wU] in H. rewrite map_app in H. apply in_app_or in H as [H|[H|[]]]; [left; exact H|right; left; exact H].
Qed.

Lemma flat_ptr_reads m (done : list row) (r : row) (todo : list row) :
  let F := flat_of (mkCrs m (done ++ r :: todo)) in
  ird (fptr F) (length done) = Done (length (concat done)) /\
  ird (fptr F) (length done + 1) = Done (length (concat done) + length r).
Proof.
  intro F.
  assert (Hlen : length (fptr F) = Datatypes.S (length (done ++ r :: todo))) by apply flat_ptr_length.
  rewrite app_length in Hlen. cbn [length] in Hlen.
  split.
  - rewrite (ird_ok _ (length done) 0) by lia. f_equal. unfold F, flat_of. cbn [fptr rows].
    apply (@flat_ptr_nth (nat * S) done (r :: todo)).
  - rewrite (ird_ok _ (length done + 1) 0) by lia. f_equal. unfold F, flat_of. cbn [fptr rows].
    replace (done ++ r :: todo) with ((done ++ [r]) ++ todo) by (rewrite <- app_assoc; reflexivity).
    replace (length done + 1) with (length (done ++ [r])) by (rewrite app_length; reflexivity).
    etransitivity; [apply (@flat_ptr_nth (nat * S) (done ++ [r]) todo)|].
    rewrite concat_app, app_length. cbn [concat]. rewrite app_nil_r. reflexivity.
Qed.

Lemma row_ok (m n i : nat) (done : list row) (r : row) (todo : list row) (Ls Us : list row) (D : list S)
      tlc tlv tuc tuv jd :
  length done = i -> length Ls = i -> length Us = i -> length D = i -> i < n ->
  Forall (Forall (fun e : nat * S => fst e < n)) Us ->
  Forall (fun e : nat * S => fst e < n) r -> In i (map fst r) ->
  lcnt i r <= length tlc -> lcnt i r <= length tlv -> ucnt i r <= length tuc -> ucnt i r <= length tuv ->
  match ilu0_row (Ls, Us, D) i r jd with
  | Ilu.Err e => ilu0_row_body (flat_of (mkCrs m (done ++ r :: todo))) i (between n Ls Us D tlc tlv tuc tuv) = Done (EThrow e)
  | Ilu.Ok (Ls', Us', D') =>
      exists tlc' tlv' tuc' tuv',
        ilu0_row_body (flat_of (mkCrs m (done ++ r :: todo))) i (between n Ls Us D tlc tlv tuc tuv)
        = Done (EOk (between n Ls' Us' D' tlc' tlv' tuc' tuv')) /\
        length Ls' = Datatypes.S i /\ length Us' = Datatypes.S i /\ length D' = Datatypes.S i /\
        Forall (Forall (fun e : nat * S => fst e < n)) Us' /\
        length tlc <= length tlc' + lcnt i r /\ length tlv <= length tlv' + lcnt i r /\
        length tuc <= length tuc' + ucnt i r /\ length tuv <= length tuv' + ucnt i r
  end.
Proof.
  intros Hdone HL HU HD Hi HUn Hrn Hdiag C1 C2 C3 C4.
  set (F := flat_of (mkCrs m (done ++ r :: todo))).
  remember (ilu0_row_body F i (between n Ls Us D tlc tlv tuc tuv)) as res eqn:Hres.
  unfold ilu0_row. rewrite scatter_fold.
  set (w1 := fold_left (sstep i) r (mkW [] jd false [])) in *.
  assert (Hh1 : whasd w1 = true) by (apply scatter_hasd; exact Hdiag).
  assert (HL1 : forall e, In e r -> fst e < i -> In (fst e) (map fst (wL w1))) by (intros; apply scatter_L; assumption).
  destruct (flat_ptr_reads m done r todo) as [Ep Ee]. fold F in Ep, Ee. rewrite Hdone in Ep, Ee.
  assert (Hrd : forall k, k < length r ->
            ird (fcol F) (length (concat done) + k) = Done (fst (nth k r (0, s0))) /\
            ird (fval F) (length (concat done) + k) = Done (snd (nth k r (0, s0))))
    by (intros k Hk; apply flat_reads; exact Hk).
  unfold ilu0_row_body in Hres. rewrite Ep, Ee in Hres. cbn [mbind] in Hres.
  replace (length (concat done) + length r - length (concat done)) with (length r) in Hres by lia.
  rewrite (mfor_list (0, s0) (scat_h i)) in Hres.
  2:{ intros k s Hk. destruct (Hrd k Hk) as [Hc Hv].
      rewrite (scatter_body_h i F _ _ _ s Hc Hv), <- surjective_pairing. reflexivity. }
  rewrite (between_rowst n i Ls Us D tlc tlv tuc tuv jd HL HU HD Hi) in Hres.
  rewrite (scatter_ok n i Ls Us D HD Hi) in Hres by assumption. fold w1 in Hres. cbn [mbind] in Hres.
  set (tlc1 := skipn (lcnt i r) tlc) in *. set (tlv1 := skipn (lcnt i r) tlv) in *.
  set (tuc1 := skipn (ucnt i r) tuc) in *. set (tuv1 := skipn (ucnt i r) tuv) in *.
  rewrite !rst_ilp, !rst_iup, !rst_ilh, !rst_iuh in Hres.
  rewrite (fresh_pos (n - i)) in Hres by lia.
  rewrite (mwr_app_len _ _ _ _ (i + 1)) in Hres by (rewrite filled_length, ptrs_length; lia). cbn [mbind] in Hres.
  rewrite (mwr_app_len _ _ _ _ (i + 1)) in Hres by (rewrite filled_length, ptrs_length; lia). cbn [mbind] in Hres.
  set (lp1 := filled (ptrs Ls) ++ Some (length (concat Ls) + length (wL w1)) :: fresh (n - i - 1)) in *.
  set (up1 := filled (ptrs Us) ++ Some (length (concat Us) + length (wU w1)) :: fresh (n - i - 1)) in *.
  match type of Hres with context [elim_loop F i _ _ ?st] =>
    change st with (rowst n i Ls Us D lp1 up1 tlc1 tlv1 tuc1 tuv1 w1) in Hres end.
  assert (Hup1 : forall c, c <= i -> mrd up1 c = Done (length (concat (firstn c Us))))
    by (intros c Hc; unfold up1; apply ptrs_rd; lia).
  rewrite (elim_ok n i Ls Us D HD Hi lp1 up1 tlc1 tlv1 tuc1 tuv1 HU Hup1 HUn F r (length (concat done)) w1 Hh1 Hrn HL1) in Hres
    by (intros k Hk; apply Hrd; exact Hk).
  destruct (ilu0_elim i Us D r w1) as [w2|err] eqn:Eel; cbn [mbind] in Hres; [|exact Hres].
  pose proof (elim_shape i Us D r w1 w2 Eel) as Hsh.
  assert (Hh2 : whasd w2 = true) by (rewrite (wshape_hasd _ _ Hsh); exact Hh1).
  assert (HlL : length (wL w2) = length (wL w1))
    by (rewrite <- (map_length fst (wL w2)), (wshape_L _ _ Hsh), map_length; reflexivity).
  assert (HlU : length (wU w2) = length (wU w1))
    by (rewrite <- (map_length fst (wU w2)), (wshape_U _ _ Hsh), map_length; reflexivity).
  (* compaction of L *)
  rewrite !compact_unfold in Hres. rewrite !rst_ilp, !rst_iup, !rst_ilc, !rst_ilv, !rst_iuc, !rst_iuv in Hres.
  assert (Elp0 : mrd lp1 i = Done (length (concat Ls))).
  { unfold lp1. rewrite ptrs_rd by lia. rewrite firstn_all2 by lia. reflexivity. }
  assert (Elp1 : mrd lp1 (i + 1) = Done (length (concat Ls) + length (wL w1))).
  { unfold lp1. apply mrd_app_len. rewrite filled_length, ptrs_length. lia. }
  assert (Eup0 : mrd up1 i = Done (length (concat Us))).
  { unfold up1. rewrite ptrs_rd by lia. rewrite firstn_all2 by lia. reflexivity. }
  assert (Eup1 : mrd up1 (i + 1) = Done (length (concat Us) + length (wU w1))).
  { unfold up1. apply mrd_app_len. rewrite filled_length, ptrs_length. lia. }
  rewrite Elp0, Elp1 in Hres. cbn [mbind] in Hres.
  replace (length (concat Ls) + length (wL w1) - length (concat Ls)) with (length (wL w2)) in Hres by lia.
  destruct (compact_row (wL w2) (filled (map fst (concat Ls))) (filled (map snd (concat Ls))) tlc1 tlv1)
    as (XL & XLv & HrunL & HXL1 & HXL2); [rewrite !filled_length, !map_length; reflexivity|].
  rewrite filled_length, map_length in HrunL.
  match type of Hres with _ = mbind ?X _ =>
    let H := fresh in assert (H : X = _) by exact HrunL; rewrite H in Hres; clear H end. cbn [mbind] in Hres.
  rewrite Eup0, Eup1 in Hres. cbn [mbind] in Hres.
  replace (length (concat Us) + length (wU w1) - length (concat Us)) with (length (wU w2)) in Hres by lia.
  destruct (compact_row (wU w2) (filled (map fst (concat Us))) (filled (map snd (concat Us))) tuc1 tuv1)
    as (XU & XUv & HrunU & HXU1 & HXU2); [rewrite !filled_length, !map_length; reflexivity|].
  rewrite filled_length, map_length in HrunU.
  match type of Hres with _ = mbind ?X _ =>
    let H := fresh in assert (H : X = _) by exact HrunU; rewrite H in Hres; clear H end. cbn [mbind fst snd] in Hres.
  unfold lp1, up1 in Hres.
  rewrite (mwr_app_len _ _ _ _ (i + 1)) in Hres by (rewrite filled_length, ptrs_length; lia). cbn [mbind] in Hres.
  rewrite (mwr_app_len _ _ _ _ (i + 1)) in Hres by (rewrite filled_length, ptrs_length; lia). cbn [mbind] in Hres.
  rewrite (mfor_list (0, s0) (fun (e : nat * S) wk => mwr wk (fst e) None)) in Hres.
  2:{ intros k s Hk. destruct (Hrd k Hk) as [Hc _]. rewrite Hc. reflexivity. }
  rewrite rst_iwk, rst_idd in Hres.
  rewrite (reset_fold fst None n r) in Hres.
  2:{ apply wkl_length. }
  2:{ exact Hrn. }
  2:{ intros c Hc Hnin. unfold wkl. rewrite nth_map_seq by exact Hc.
      rewrite (wptr_shape i Ls Us w2 w1 c Hsh). unfold w1. rewrite scatter_wptr_other by exact Hnin. apply wptr_empty. }
  cbn [mbind] in Hres. rewrite Hh2 in Hres.
  exists (XL ++ tlc1), (XLv ++ tlv1), (XU ++ tuc1), (XUv ++ tuv1).
  split; [|split; [|split; [|split; [|split]]]].
  - rewrite Hres. f_equal. f_equal. unfold between.
    f_equal; first [apply snoc_ptr; assumption | apply snoc_arr | apply snoc_dd; assumption | apply snoc_len].
  - rewrite app_length, Nat.add_1_r. f_equal. exact HL.
  - rewrite app_length, Nat.add_1_r. f_equal. exact HU.
  - rewrite app_length, Nat.add_1_r. f_equal. exact HD.
  - apply Forall_app. split; [exact HUn|]. constructor; [|constructor].
    rewrite Forall_forall. intros e He. unfold drop_zeros in He. apply filter_In in He as [He _].
    apply (in_map fst) in He. rewrite (wshape_U _ _ Hsh) in He. apply scatter_U_in in He as [[]|He].
    apply in_map_iff in He as (e' & <- & He'). rewrite Forall_forall in Hrn. apply Hrn. exact He'.
  - unfold tlc1, tlv1, tuc1, tuv1. rewrite !app_length, !skipn_length. lia.
Qed.
End RowOk.
(* ------------------------------------------------------------------ all rows; the counting pass; the theorem *)
Section Final.
Context {S : Scalar}.
Local Notation row := (list (nat * S)).

Fixpoint lrem (i : nat) (rs : list row) : nat :=
  match rs with [] => 0 | r :: t => lcnt i r + lrem (Datatypes.S i) t end.
Fixpoint urem (i : nat) (rs : list row) : nat :=
  match rs with [] => 0 | r :: t => ucnt i r + urem (Datatypes.S i) t end.

Lemma rows_ok (m n : nat) (junk : vec S) : forall (rs done Ls Us : list row) (D : list S) tlc tlv tuc tuv i,
  length done = i -> length Ls = i -> length Us = i -> length D = i -> i + length rs = n ->
  Forall (Forall (fun e : nat * S => fst e < n)) Us ->
  Forall (Forall (fun e : nat * S => fst e < n)) rs ->
  (forall k, k < length rs -> In (i + k) (map fst (nth k rs []))) ->
  lrem i rs <= length tlc -> lrem i rs <= length tlv -> urem i rs <= length tuc -> urem i rs <= length tuv ->
  match ilu0_rows (Ls, Us, D) i rs junk with
  | Ilu.Err e => ilu0_rows_ll (flat_of (mkCrs m (done ++ rs))) i (length rs) (between n Ls Us D tlc tlv tuc tuv)
                 = Done (EThrow e)
  | Ilu.Ok (Ls', Us', D') =>
      exists tlc' tlv' tuc' tuv',
        ilu0_rows_ll (flat_of (mkCrs m (done ++ rs))) i (length rs) (between n Ls Us D tlc tlv tuc tuv)
        = Done (EOk (between n Ls' Us' D' tlc' tlv' tuc' tuv')) /\
        length Ls' = n /\ length Us' = n /\ length D' = n
  end.
Proof.
  induction rs as [|r rs IH]; intros done Ls Us D tlc tlv tuc tuv i Hdone HL HU HD Hn HUn Hrs Hdiag C1 C2 C3 C4.
  - cbn [ilu0_rows ilu0_rows_ll length]. cbn [length] in Hn. rewrite Nat.add_0_r in Hn. subst n.
    exists tlc, tlv, tuc, tuv. split; [reflexivity|]. split; [exact HL|]. split; [exact HU|exact HD].
  - cbn [length ilu0_rows ilu0_rows_ll]. cbn [length lrem urem] in *.
    inversion Hrs as [|? ? Hr Hrs']; subst.
    pose proof (row_ok m (length done + Datatypes.S (length rs)) (length done) done r rs Ls Us D tlc tlv tuc tuv (vget junk (length done))
                  eq_refl HL HU HD ltac:(lia) HUn Hr) as Hrow.
    pose proof (Hdiag 0 ltac:(lia)) as Hd0. rewrite Nat.add_0_r in Hd0. cbn [nth] in Hd0.
    specialize (Hrow Hd0 ltac:(lia) ltac:(lia) ltac:(lia) ltac:(lia)).
    destruct (ilu0_row (Ls, Us, D) (length done) r (vget junk (length done))) as [[[Ls1 Us1] D1]|err].
    + destruct Hrow as (tlc1 & tlv1 & tuc1 & tuv1 & Hrun & HL1 & HU1 & HD1 & HUn1 & D1' & D2' & D3' & D4').
      rewrite Hrun. cbn [mbind].
      specialize (IH (done ++ [r]) Ls1 Us1 D1 tlc1 tlv1 tuc1 tuv1 (Datatypes.S (length done))).
      rewrite <- app_assoc in IH. cbn [app] in IH. apply IH; try assumption; try lia.
      * rewrite app_length. cbn [length]. lia.
      * intros k Hk. replace (Datatypes.S (length done) + k) with (length done + Datatypes.S k) by lia.
        apply (Hdiag (Datatypes.S k)). lia.
    + rewrite Hrow. reflexivity.
Qed.

(* the counting pass *)
Lemma count_row i : forall (r : row) (acc : nat * nat),
  mfoldl (fun (e : nat * S) (acc : nat * nat) =>
            Done (if Nat.ltb (fst e) i then (Datatypes.S (fst acc), snd acc)
                  else if Nat.ltb i (fst e) then (fst acc, Datatypes.S (snd acc)) else acc)) r acc
  = Done (fst acc + lcnt i r, snd acc + ucnt i r).
Proof.
  induction r as [|e r IH]; intro acc.
  - cbn. rewrite !Nat.add_0_r. destruct acc; reflexivity.
  - cbn [mfoldl mbind]. rewrite IH, lcnt_cons, ucnt_cons. unfold lcnt, ucnt. cbn [filter].
    destruct (Nat.ltb_spec (fst e) i); destruct (Nat.ltb_spec i (fst e)); try lia; cbn [fst snd length]; f_equal; f_equal; lia.
Qed.

Lemma count_ok (A : crs S) : forall (rs done : list row) (acc : nat * nat),
  rows A = done ++ rs ->
  mfor (length done) (length rs) (fun i acc =>
    row_loop (fptr (flat_of A)) i (fun j acc =>
      c <-- ird (fcol (flat_of A)) j ;;
      Done (if Nat.ltb c i then (Datatypes.S (fst acc), snd acc)
            else if Nat.ltb i c then (fst acc, Datatypes.S (snd acc)) else acc)) acc) acc
  = Done (fst acc + lrem (length done) rs, snd acc + urem (length done) rs).
Proof.
  induction rs as [|r rs IH]; intros done acc HA.
  - cbn. rewrite !Nat.add_0_r. destruct acc; reflexivity.
  - cbn [length]. rewrite mfor_step.
    rewrite (row_loop_flat A (length done)
               (fun (e : nat * S) (acc : nat * nat) =>
                  Done (if Nat.ltb (fst e) (length done) then (Datatypes.S (fst acc), snd acc)
                        else if Nat.ltb (length done) (fst e) then (fst acc, Datatypes.S (snd acc)) else acc))).
    2:{ unfold nrows. rewrite HA, app_length. cbn [length]. lia. }
    2:{ intros j s c v Hc _. rewrite Hc. reflexivity. }
    rewrite HA, app_nth2, Nat.sub_diag by lia. cbn [nth].
    rewrite count_row. cbn [mbind].
    replace (Datatypes.S (length done)) with (length (done ++ [r])) by (rewrite app_length; cbn [length]; lia).
    rewrite IH by (rewrite HA, <- app_assoc; reflexivity).
    cbn [fst snd lrem urem]. rewrite app_length. cbn [length]. rewrite Nat.add_1_r. f_equal. f_equal; lia.
Qed.

Lemma first_col_in (r : row) i v : first_col r i = Some v -> In i (map fst r).
Proof.
  induction r as [|[c x] r IH]; simpl; [discriminate|].
  destruct (Nat.eqb_spec c i) as [->|_]; [intros _; left; reflexivity|intro H; right; apply IH; exact H].
Qed.
Lemma firstn_app_exact {X} (a b : list X) k : length a = k -> firstn k (a ++ b) = a.
Proof. intros <-. rewrite firstn_app, Nat.sub_diag, firstn_all. cbn [firstn]. apply app_nil_r. Qed.

Lemma app_fresh_full {X Y} (a : marr X) (l : list Y) n : length l = n -> a ++ fresh (n - length l) = a.
Proof. intros ->. rewrite Nat.sub_diag. apply app_nil_r. Qed.

Definition ilu0_agrees (A : crs S) (junk : vec S) (r : mres (eres S)) : Prop :=
  match Ilu.ilu0 A junk with
  | Ilu.Err e => r = Done (EThrow e)
  | Ilu.Ok (L, U, D) =>
      exists st, r = Done (EOk st) /\
        ilp st = filled (fptr (flat_of L)) /\ ilh st = length (fcol (flat_of L)) /\
        firstn (ilh st) (ilc st) = filled (fcol (flat_of L)) /\
        firstn (ilh st) (ilv st) = filled (fval (flat_of L)) /\
        iup st = filled (fptr (flat_of U)) /\ iuh st = length (fcol (flat_of U)) /\
        firstn (iuh st) (iuc st) = filled (fcol (flat_of U)) /\
        firstn (iuh st) (iuv st) = filled (fval (flat_of U)) /\
        idd st = filled D
  end.

(* rows in any order, duplicates allowed *)
Theorem ll_ilu0_gen (A : crs S) (junk : vec S) :
  wf A = true -> ncols A <= nrows A -> has_diag A = true ->
  ilu0_agrees A junk (ll_ilu0 (flat_of A)).
Proof.
  intros Hwf Hsq Hdiag. destruct A as [m rs]. unfold nrows in Hsq. cbn [ncols rows] in Hsq.
  set (n := length rs) in *.
  assert (Hrows : Forall (Forall (fun e : nat * S => fst e < n)) rs).
  { unfold wf in Hwf. cbn [ncols rows] in Hwf. rewrite forallb_forall in Hwf. rewrite Forall_forall. intros r Hr.
    specialize (Hwf r Hr). apply row_wf_iff in Hwf. rewrite Forall_forall in Hwf |- *. intros e He. specialize (Hwf e He). lia. }
  assert (Hdg : forall k, k < length rs -> In (0 + k) (map fst (nth k rs []))).
  { intros k Hk. unfold has_diag in Hdiag. cbn [rows] in Hdiag.
    rewrite forallb_forall in Hdiag.
    assert (Hlen : k < length (indexed rs)) by (unfold indexed; rewrite combine_length, seq_length; lia).
    pose proof (Hdiag _ (nth_In _ (0, []) Hlen)) as H.
    rewrite nth_indexed in H by exact Hk. cbn [fst snd] in H.
    match type of H with match ?X with _ => _ end = _ => destruct X as [v|] eqn:E; [|discriminate H] end. apply first_col_in in E. exact E. }
  unfold ll_ilu0, ilu0_count. change (fn (flat_of (mkCrs m rs))) with n.
  pose proof (count_ok (mkCrs m rs) rs [] (0, 0) eq_refl) as Hc. cbn [length fst snd Nat.add] in Hc. fold n in Hc.
  match goal with |- ilu0_agrees _ _ (mbind ?X _) =>
    let H := fresh in assert (H : X = _) by exact Hc; rewrite H; clear H end.
  cbn [mbind fst snd]. rewrite Nat.add_1_r.
  change (mwr (fresh (Datatypes.S n)) 0 0) with (Done (Some 0 :: @fresh nat n)). cbn [mbind].
  set (Lnz := lrem 0 rs). set (Unz := urem 0 rs).
  match goal with |- ilu0_agrees _ _ (ilu0_rows_ll _ _ _ ?st) =>
    replace st with (between n [] [] [] (@fresh nat Lnz) (@fresh S Lnz) (@fresh nat Unz) (@fresh S Unz))
      by (unfold between; cbn [length concat map filled app ptrs psum psum_from]; rewrite Nat.sub_0_r; reflexivity) end.
  pose proof (rows_ok m n junk rs [] [] [] [] (@fresh nat Lnz) (@fresh S Lnz) (@fresh nat Unz) (@fresh S Unz) 0
                eq_refl eq_refl eq_refl eq_refl eq_refl (Forall_nil _) Hrows Hdg) as H.
  rewrite !fresh_length in H. specialize (H (le_n _) (le_n _) (le_n _) (le_n _)). cbn [app] in H.
  unfold ilu0_agrees, ilu0. cbn [rows nrows]. fold n.
  match type of H with match ?X with _ => _ end => set (R := X) in * end.
  match goal with |- context [ilu0_rows ?a ?b ?c ?d] => change (ilu0_rows a b c d) with R end.
  destruct R as [[[Ls Us] D]|e]; [|exact H].
  destruct H as (tlc & tlv & tuc & tuv & Hrun & HL & HU & HD).
  exists (between n Ls Us D tlc tlv tuc tuv). split; [exact Hrun|].
  unfold between, flat_of. cbn [ilp ilc ilv iup iuc iuv idd ilh iuh fptr fcol fval rows nrows ncols].
  repeat split.
  - exact (app_fresh_full (filled (ptrs Ls)) Ls n HL).
  - symmetry. apply map_length.
  - apply firstn_app_exact. rewrite filled_length, map_length. reflexivity.
  - apply firstn_app_exact. rewrite filled_length, map_length. reflexivity.
  - exact (app_fresh_full (filled (ptrs Us)) Us n HU).
  - symmetry. apply map_length.
  - apply firstn_app_exact. rewrite filled_length, map_length. reflexivity.
  - apply firstn_app_exact. rewrite filled_length, map_length. reflexivity.
  - exact (app_fresh_full (filled D) D n HD).
Qed.
End Final.

(* the statement for matrices as amgcl hands them to ILU(0): rows sorted by column, no duplicates
   (the hypothesis is not needed: ll_ilu0_gen) *)
Theorem ll_ilu0_ok {S : Scalar} (A : crs S) (junk : vec S) :
  wf A = true -> ncols A = nrows A ->
  Forall (fun r => sorted_strict r = true) (rows A) ->
  has_diag A = true ->
  ilu0_agrees A junk (ll_ilu0 (flat_of A)).
Proof. intros Hwf Hsq _ Hd. apply ll_ilu0_gen; [exact Hwf|rewrite Hsq; apply le_n|exact Hd]. Qed.

(* has_diag cannot be dropped: a row without diagonal leaves D[i] unwritten (the list model returns
   its junk input there), so  idd st = filled D  fails *)
Lemma ll_ilu0_nodiag_uninit {S : Scalar} (junk : vec S) :
  (exists st, ll_ilu0 (flat_of (mkCrs 1 [[]] : crs S)) = Done (EOk st) /\ idd st = [None]) /\
  ilu0 (mkCrs 1 [[]] : crs S) junk = Ilu.Ok (mkCrs 1 [[]], mkCrs 1 [[]], [vget junk 0]).
Proof. split; [eexists; split; reflexivity|reflexivity]. Qed.

(* in particular: no error outcome, whatever the list model returns *)
Theorem ll_ilu0_safe {S : Scalar} (A : crs S) :
  wf A = true -> ncols A <= nrows A -> has_diag A = true ->
  let r := ll_ilu0 (flat_of A) in
  r <> OutOfBounds /\ r <> UninitRead /\ r <> OutOfFuel.
Proof.
  intros HA Hsq HD. cbv zeta. pose proof (ll_ilu0_gen A [] HA Hsq HD) as H. unfold ilu0_agrees in H.
  destruct (ilu0 A []) as [[[L U] D]|e].
  - destruct H as (st & Hr & _). rewrite Hr. repeat split; discriminate.
  - rewrite H. repeat split; discriminate.
Qed.
