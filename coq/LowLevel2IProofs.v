(* LowLevel2IProofs.v -- C10-A2, second layer: the array-level constructor of relaxation::ilu0
   (LowLevel2I.v) agrees with the list model Ilu.ilu0: on a well-formed square matrix with a
   diagonal entry in every row it stays inside every array, reads no unwritten cell (L/U
   ptr/col/val and D are unwritten at the start), never dereferences a NULL work pointer, throws
   exactly when the list model does and leaves exactly the flat arrays of the list model's L, U
   and the vector D.  Rows need NOT be sorted and may contain duplicate columns (the work pointer
   of a column is the LAST entry with this column, as in Ilu.v).
   No algebraic law is used (any Scalar record). *)
From Coq Require Import ZArith Lia.
From Amgcl Require Import Scalar Vec Crs Kernels MatOps MatOpsProofs Relax LowLevel LowLevelProofs LowLevelT LowLevelTProofs
                          LowLevel2 LowLevel2Proofs LowLevel2G LowLevel2GProofs Ilu LowLevel2I.
Local Open Scope nat_scope.

(* ------------------------------------------------------------------ cells *)
Lemma mrd_pre {X} (l : list X) (rest : marr X) k d : k < length l -> mrd (filled l ++ rest) k = Done (nth k l d).
Proof.
  intro H. unfold mrd. rewrite nth_error_app1 by (rewrite filled_length; exact H).
  unfold filled. rewrite nth_error_map, (nth_error_nth' l d H). reflexivity.
Qed.
Lemma mrd_pre_map {X Y} (f : X -> Y) (l : list X) (rest : marr Y) k x :
  nth_error l k = Some x -> mrd (filled (map f l) ++ rest) k = Done (f x).
Proof.
  intro H. assert (Hk : k < length l) by (apply nth_error_Some; congruence).
  unfold mrd. rewrite nth_error_app1 by (rewrite filled_length, map_length; exact Hk).
  unfold filled. rewrite !nth_error_map, H. reflexivity.
Qed.
Lemma mrd_mid {X} (P : marr X) (a : list X) x (b : list X) (T : marr X) k :
  k = length P + length a -> mrd (P ++ filled (a ++ x :: b) ++ T) k = Done x.
Proof.
  intros ->. rewrite filled_app. cbn [filled map]. rewrite <- app_assoc. cbn [app]. rewrite app_assoc.
  apply mrd_app_len. rewrite app_length. unfold filled. rewrite map_length. reflexivity.
Qed.
Lemma mwr_mid {X} (P : marr X) (a : list X) x (b : list X) (T : marr X) k y :
  k = length P + length a -> mwr (P ++ filled (a ++ x :: b) ++ T) k y = Done (P ++ filled (a ++ y :: b) ++ T).
Proof.
  intros ->. rewrite !filled_app. cbn [filled map]. rewrite <- !app_assoc. cbn [app]. rewrite !(app_assoc P).
  apply mwr_app_len. rewrite app_length. unfold filled. rewrite map_length. reflexivity.
Qed.
Lemma mwr_tail {X} (P : marr X) (a : list X) x (T : marr X) k y :
  k = length P + length a -> mwr (P ++ filled a ++ x :: T) k y = Done (P ++ filled (a ++ [y]) ++ T).
Proof.
  intros ->. rewrite filled_app. cbn [filled map]. rewrite <- !app_assoc. cbn [app]. rewrite !(app_assoc P).
  apply mwr_app_len. rewrite app_length. unfold filled. rewrite map_length. reflexivity.
Qed.
Lemma mrd_at4 {X} (a b c : marr X) x t k : k = length a + length b + length c -> mrd (a ++ b ++ c ++ Some x :: t) k = Done x.
Proof. intros ->. rewrite !app_assoc. apply mrd_app_len. rewrite !app_length. reflexivity. Qed.
Lemma mwr_at2 {X} (a b : marr X) x t k y : k = length a + length b -> mwr (a ++ b ++ x :: t) k y = Done (a ++ b ++ Some y :: t).
Proof. intros ->. rewrite !app_assoc. apply mwr_app_len. rewrite !app_length. reflexivity. Qed.

Lemma map_none_seq {X} (f : nat -> option X) : (forall c, f c = None) -> forall n a, map f (seq a n) = repeat None n.
Proof. intros H n. induction n as [|n IH]; intro a; simpl; [reflexivity|]. rewrite H, IH. reflexivity. Qed.

(* ------------------------------------------------------------------ row pointers *)
Definition ptrs {X} (Ls : list (list X)) : list nat := 0 :: psum (map (@length X) Ls).
Lemma ptrs_length {X} (Ls : list (list X)) : length (ptrs Ls) = Datatypes.S (length Ls).
Proof. apply flat_ptr_length. Qed.
Lemma ptrs_snoc {X} (Ls : list (list X)) x : ptrs (Ls ++ [x]) = ptrs Ls ++ [length (concat Ls) + length x].
Proof.
  unfold ptrs, psum. rewrite map_app, psum_from_app. cbn [map psum_from app]. rewrite fold_add_lengths. reflexivity.
Qed.
Lemma ptrs_rd {X} (Ls : list (list X)) (T : marr nat) k : k <= length Ls ->
  mrd (filled (ptrs Ls) ++ T) k = Done (length (concat (firstn k Ls))).
Proof.
  intro H. rewrite (mrd_pre _ _ k 0) by (rewrite ptrs_length; lia). f_equal.
  rewrite <- (firstn_skipn k Ls) at 1.
  replace k with (length (firstn k Ls)) at 1 by (rewrite firstn_length; lia).
  apply flat_ptr_nth.
Qed.
Lemma concat_firstn_S {X} (Us : list (list X)) c : c < length Us ->
  concat (firstn (c + 1) Us) = concat (firstn c Us) ++ nth c Us [].
Proof.
  intro H. rewrite Nat.add_1_r, (firstn_S_nth Us c []) by exact H. rewrite concat_app. cbn [concat]. rewrite app_nil_r. reflexivity.
Qed.
Lemma nth_error_concat {X} (Us : list (list X)) c j d : c < length Us -> j < length (nth c Us []) ->
  nth_error (concat Us) (length (concat (firstn c Us)) + j) = Some (nth j (nth c Us []) d).
Proof.
  intros Hc Hj. rewrite <- (firstn_skipn c Us) at 1. rewrite concat_app.
  rewrite nth_error_app2 by lia. replace (length (concat (firstn c Us)) + j - length (concat (firstn c Us))) with j by lia.
  assert (E : skipn c Us = nth c Us [] :: skipn (Datatypes.S c) Us).
  { clear Hj. revert c Hc. induction Us as [|u Us IH]; intros c Hc; simpl in Hc; [lia|].
    destruct c as [|c]; [reflexivity|]. cbn [skipn nth]. apply IH. lia. }
  rewrite E. cbn [concat]. rewrite nth_error_app1 by exact Hj. apply nth_error_nth'. exact Hj.
Qed.

(* ------------------------------------------------------------------ last occurrence of a column *)
Fixpoint lastidx (c : nat) (l : list nat) : option nat :=
  match l with
  | [] => None
  | x :: t => match lastidx c t with
              | Some k => Some (Datatypes.S k)
              | None => if Nat.eqb x c then Some 0 else None
              end
  end.
Lemma lastidx_snoc_same c l : lastidx c (l ++ [c]) = Some (length l).
Proof. induction l as [|x l IH]; simpl; [rewrite Nat.eqb_refl; reflexivity|]. rewrite IH. reflexivity. Qed.
Lemma lastidx_snoc_other c c' l : c' <> c -> lastidx c (l ++ [c']) = lastidx c l.
Proof.
  intro H. induction l as [|x l IH]; simpl.
  - destruct (Nat.eqb_spec c' c); [contradiction|reflexivity].
  - rewrite IH. reflexivity.
Qed.
Lemma lastidx_in c l : In c l -> exists k, lastidx c l = Some k.
Proof.
  induction l as [|x l IH]; intro H; [contradiction|]. simpl.
  destruct (lastidx c l) as [k|]; [exists (Datatypes.S k); reflexivity|].
  destruct H as [->|H]; [rewrite Nat.eqb_refl; exists 0; reflexivity|].
  destruct (IH H) as (k & Hk). discriminate.
Qed.
Lemma lastidx_notin c l : ~ In c l -> lastidx c l = None.
Proof.
  induction l as [|x l IH]; intro H; [reflexivity|]. simpl.
  rewrite IH by (intro H1; apply H; right; exact H1).
  destruct (Nat.eqb_spec x c) as [->|_]; [exfalso; apply H; left; reflexivity|reflexivity].
Qed.

Section Last.
Context {S : Scalar}.
Local Notation row := (list (nat * S)).

Lemma last_split (c : nat) (l : row) :
  (lastidx c (map fst l) = None /\ get_last c l = None /\ forall f, upd_last c f l = l) \/
  (exists l1 v l2, l = l1 ++ (c, v) :: l2 /\ lastidx c (map fst l) = Some (length l1) /\
                   get_last c l = Some v /\ forall f, upd_last c f l = l1 ++ (c, f v) :: l2).
Proof.
  assert (G : (lastidx c (map fst l) = None /\ get_last c l = None /\ has_col c l = false /\ forall f, upd_last c f l = l) \/
  (exists l1 v l2, l = l1 ++ (c, v) :: l2 /\ lastidx c (map fst l) = Some (length l1) /\
                   get_last c l = Some v /\ has_col c l = true /\ forall f, upd_last c f l = l1 ++ (c, f v) :: l2)).
  { induction l as [|[c' v'] l IH]; [left; repeat split; reflexivity|].
    change (has_col c ((c', v') :: l)) with (Nat.eqb c' c || has_col c l)%bool.
    cbn [map fst snd lastidx get_last upd_last].
    destruct IH as [(H1 & H2 & H3 & H4)|(l1 & v & l2 & Hl & H1 & H2 & H3 & H4)].
    - rewrite H1, H2, H3. destruct (Nat.eqb_spec c' c) as [->|Hne].
      + right. exists [], v', l. repeat split; reflexivity.
      + left. repeat split; reflexivity.
    - right. exists ((c', v') :: l1), v, l2. rewrite H1, H2, H3, Bool.orb_true_r.
      repeat split; try reflexivity.
      + rewrite Hl at 1. reflexivity.
      + intro f. rewrite H4. reflexivity. }
  destruct G as [(H1 & H2 & _ & H4)|(l1 & v & l2 & Hl & H1 & H2 & _ & H4)]; [left|right]; eauto 10.
Qed.
End Last.
