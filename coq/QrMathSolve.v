(* QrMathSolve.v -- QR::solve (Qr.v: qr_solve) in matrix terms.
   Tall systems (rows >= cols): x solves the normal equations A'(A x - b) = 0 when R has no zero
   on its diagonal (full column rank).  Wide systems (rows < cols): A x = b and x is orthogonal
   to the kernel of A (minimum-norm solution) when R (of A') has no zero on its diagonal.
   Hypotheses: see QrMathRefl.v.   (C16 / A6-B) *)
From Amgcl Require Import Scalar Vec KernelsProofs StaticMatProofs DirectUtil DirectProofs Qr QrProofs
     QrMathAlg QrMathRefl QrMathCompute QrMathFactor.
Local Open Scope S_scope.
Local Open Scope nat_scope.

Section SolvePieces.
Context {S : Scalar}.
Local Notation vec := (vec S).
Hypothesis Sft : Sfield S.
Hypothesis Seqb : seqb_spec S.
Hypothesis Hadj : forall x : S, sadj x = x.
Let SrtS : Sring S := F_R Sft.
Add Ring SRingQrS : SrtS.
Add Field SFieldQrS : Sft.

(* m = order of the reflectors; (rs, cs) = strides of the array that stores them *)
Variables m rs cs : nat.
Local Notation vcol := (vcol rs cs).

(* a reflector applied to a vector stored contiguously *)
Lemma apply_vec_spec i (V f : vec) (t : S) : i < m -> length f = m ->
  let f' := apply_reflector (m - i) 1 V (i * (rs + cs)) rs t f i 1 1 in
  length f' = m /\ forall r, r < m -> vget f' r = happ m t (vcol V i) (vget f) r.
Proof.
  intros Hi HL. cbv zeta. set (ii := i * (rs + cs)).
  assert (Ev : forall j, ii + j * rs = (i + j) * rs + i * cs) by (intros; unfold ii; ring).
  pose proof (apply_reflector_spec Sft Seqb Hadj (m - i) 1 V ii rs t f i 1 1) as HA.
  cbv zeta in HA. destruct HA as (HL2 & Hfr2 & Hv2).
  { lia. }
  { intros c j c' j' Hc Hj Hc' Hj' E. lia. }
  { intros c j Hc Hj. lia. }
  split; [congruence|]. intros r Hr.
  assert (Evv : forall j, j < m - i -> vvec V ii rs j = vcol V i (i + j)).
  { intros j Hj. unfold vvec, QrMathCompute.vcol. destruct (Nat.ltb_spec (i + j) i); [lia|].
    destruct (Nat.eqb_spec j 0) as [->|Hj0].
    - rewrite Nat.add_0_r, Nat.eqb_refl. reflexivity.
    - destruct (Nat.eqb_spec (i + j) i); [lia|]. unfold QrMathCompute.mv. rewrite Ev. reflexivity. }
  assert (Edot : dot m (vcol V i) (vget f) = sumn (fun l => (vvec V ii rs l * vget f (i + 0 * 1 + l * 1))%S) (m - i)).
  { unfold dot. replace m with (i + (m - i)) at 1 by lia. rewrite (sumn_app Sft).
    rewrite (sumn_allz Sft) by (intros u Hu; unfold QrMathCompute.vcol; destruct (Nat.ltb_spec u i); [ring|lia]).
    transitivity (sumn (fun u => (vcol V i (i + u) * vget f (i + u))%S) (m - i)); [ring|].
    apply sumn_ext. intros u Hu. rewrite Evv by assumption. f_equal. f_equal. lia. }
  destruct (Nat.lt_ge_cases r i) as [Hri|Hri].
  - rewrite Hfr2 by (intros c j Hc Hj; lia). unfold happ, QrMathCompute.vcol.
    destruct (Nat.ltb_spec r i); [ring|lia].
  - replace r with (i + 0 * 1 + (r - i) * 1) at 1 by lia. rewrite Hv2 by lia.
    unfold happ. rewrite Edot, Evv by lia.
    replace (i + 0 * 1 + (r - i) * 1) with r by lia. replace (i + (r - i)) with r by lia. reflexivity.
Qed.

(* H_(k-1) ... H_0 f, one reflector after the other (tall solve: Q'b) *)
Lemma apply_up_spec (A' tau f : vec) k : k <= m -> length f = m ->
  let f1 := for_loop 0 k (fun i f => apply_reflector (m - i) 1 A' (i * (rs + cs)) rs (sadj (vget tau i)) f i 1 1) f in
  length f1 = m /\ forall r, r < m -> vget f1 r = hprodT m (vget tau) (vcol A') k (vget f) r.
Proof.
  intros Hk HL. cbv zeta.
  pose (P := fun i (g : vec) => length g = m /\ forall r, r < m -> vget g r = hprodT m (vget tau) (vcol A') i (vget f) r).
  match goal with |- length ?X = _ /\ _ => assert (H : P (0 + k) X) end.
  { apply (for_loop_inv P).
    - split; [assumption|]. intros; reflexivity.
    - intros i g Hi (HLg & Hg). rewrite Hadj.
      destruct (apply_vec_spec i A' g (vget tau i) ltac:(lia) HLg) as (HL' & Hv'). cbv zeta in HL', Hv'.
      split; [assumption|]. intros r Hr. rewrite Hv' by assumption. simpl hprodT.
      apply happ_ext; [reflexivity|assumption|assumption]. }
  exact H.
Qed.

(* H_0 (... H_(k-1) x), applied last-to-first (wide solve: Q y) *)
Lemma apply_down_spec (A' tau x : vec) k : k <= m -> length x = m ->
  let x1 := for_down 0 k (fun i x => apply_reflector (m - i) 1 A' (i * (rs + cs)) rs (vget tau i) x i 1 1) x in
  length x1 = m /\ forall r, r < m -> vget x1 r = hprod m (vget tau) (vcol A') k (vget x) r.
Proof.
  intros Hk HL. cbv zeta.
  pose (P := fun i (g : vec) => length g = m /\
     forall r, r < m -> vget g r = hprodR m (vget tau) (vcol A') i (k - i) (vget x) r).
  match goal with |- length ?X = _ /\ _ => assert (H : P 0 X) end.
  { apply (for_down_inv P).
    - split; [assumption|]. intros r Hr. rewrite Nat.sub_diag. reflexivity.
    - intros i g Hi (HLg & Hg).
      destruct (apply_vec_spec i A' g (vget tau i) ltac:(lia) HLg) as (HL' & Hv'). cbv zeta in HL', Hv'.
      split; [assumption|]. intros r Hr. rewrite Hv' by assumption.
      replace (k - i) with (Datatypes.S (k - Datatypes.S i)) by lia. cbn [hprodR].
      apply happ_ext; [reflexivity|assumption|assumption]. }
  destruct H as (H1 & H2). split; [assumption|]. intros r Hr. rewrite H2 by assumption.
  rewrite Nat.sub_0_r. symmetry. apply (hprod_hprodR m). assumption.
Qed.

(* ---------- triangular solves ---------- *)
(* x[j] -= a[j] * x[i]  for j in lo..lo+cnt-1, i outside that range *)
Lemma axpy_loop (a : nat -> S) i lo cnt (x1 : vec) : (i < lo \/ lo + cnt <= i) -> lo + cnt <= length x1 ->
  let x' := for_loop lo cnt (fun j x => lset x j (vget x j - a j * vget x i)%S) x1 in
  length x' = length x1 /\
  forall p, vget x' p = if Nat.leb lo p && Nat.ltb p (lo + cnt) then (vget x1 p - a p * vget x1 i)%S else vget x1 p.
Proof.
  intros Hi Hb. cbv zeta.
  pose (P := fun j (x : vec) => length x = length x1 /\
     forall p, vget x p = if Nat.leb lo p && Nat.ltb p j then (vget x1 p - a p * vget x1 i)%S else vget x1 p).
  match goal with |- length ?X = _ /\ _ => assert (H : P (lo + cnt) X) end.
  { apply (for_loop_inv P).
    - split; [reflexivity|]. intro p. destruct (Nat.leb_spec lo p), (Nat.ltb_spec p lo); try lia; reflexivity.
    - intros j x Hj (HL & Hv). split; [rewrite lset_length; assumption|]. intro p.
      rewrite vget_lset. destruct (Nat.eqb_spec j p) as [<-|Hne].
      + destruct (Nat.ltb_spec j (length x)); [|lia]. rewrite !Hv.
        destruct (Nat.leb_spec lo j); [|lia]. destruct (Nat.ltb_spec j j); [lia|].
        destruct (Nat.ltb_spec j (Datatypes.S j)); [|lia]. cbn [andb].
        destruct (Nat.leb_spec lo i), (Nat.ltb_spec i j); try lia; reflexivity.
      + rewrite Hv. destruct (Nat.leb_spec lo p); [|reflexivity]. cbn [andb].
        destruct (Nat.ltb_spec p j), (Nat.ltb_spec p (Datatypes.S j)); try lia; reflexivity. }
  exact H.
Qed.

Definition psum (P : nat -> bool) (g : nat -> S) (n : nat) : S := sumn (fun c => if P c then g c else s0) n.

Lemma psum_ext (P Q : nat -> bool) (g h : nat -> S) n :
  (forall c, c < n -> P c = Q c) -> (forall c, c < n -> P c = true -> g c = h c) -> psum P g n = psum Q h n.
Proof.
  intros HP Hg. unfold psum. apply sumn_ext. intros c Hc. rewrite <- HP by assumption.
  destruct (P c) eqn:E; [apply Hg; assumption|reflexivity].
Qed.

Lemma psum_split (P Q : nat -> bool) (g : nat -> S) i n : i < n -> Q i = false ->
  (forall c, c < n -> P c = Q c || Nat.eqb i c) -> psum P g n = (psum Q g n + g i)%S.
Proof.
  intros Hi HQ HP. unfold psum.
  transitivity (sumn (fun c => ((if Q c then g c else s0) + (if Nat.eqb i c then g i else s0))%S) n).
  - apply sumn_ext. intros c Hc. rewrite HP by assumption. destruct (Nat.eqb_spec i c) as [<-|Hne].
    + rewrite HQ. cbn [orb]. ring.
    + rewrite Bool.orb_false_r. destruct (Q c); ring.
  - rewrite (sumn_add SrtS), (sumn_delta SrtS). destruct (Nat.ltb_spec i n); [reflexivity|lia].
Qed.

Lemma psum_false (P : nat -> bool) (g : nat -> S) n : (forall c, c < n -> P c = false) -> psum P g n = s0.
Proof. intro H. unfold psum. apply (sumn_allz Sft). intros c Hc. rewrite H by assumption. reflexivity. Qed.

Lemma psum_true (P : nat -> bool) (g : nat -> S) n : (forall c, c < n -> P c = true) -> psum P g n = sumn g n.
Proof. intro H. unfold psum. apply sumn_ext. intros c Hc. rewrite H by assumption. reflexivity. Qed.

Lemma psum_peel_lo (g : nat -> S) i n : i < n ->
  psum (fun c => Nat.leb i c) g n = (psum (fun c => Nat.leb (Datatypes.S i) c) g n + g i)%S.
Proof.
  intro Hi. apply psum_split; [assumption| |].
  - destruct (Nat.leb_spec (Datatypes.S i) i); [lia|reflexivity].
  - intros c Hc. destruct (Nat.leb_spec i c), (Nat.leb_spec (Datatypes.S i) c), (Nat.eqb_spec i c); try lia; reflexivity.
Qed.

Lemma psum_peel_hi (g : nat -> S) i n : i < n ->
  psum (fun c => Nat.ltb c (Datatypes.S i)) g n = (psum (fun c => Nat.ltb c i) g n + g i)%S.
Proof.
  intro Hi. apply psum_split; [assumption| |].
  - apply Nat.ltb_irrefl.
  - intros c Hc. destruct (Nat.ltb_spec c (Datatypes.S i)), (Nat.ltb_spec c i), (Nat.eqb_spec i c); try lia; reflexivity.
Qed.

(* column-oriented back substitution with an upper triangular U (tall solve) *)
Definition back_body (U : nat -> nat -> S) (i : nat) (x : vec) : vec :=
  if is_zero (U i i) then x else
  let x1 := lset x i (sinv (U i i) * vget x i)%S in
  for_loop 0 i (fun j x => lset x j (vget x j - U j i * vget x i)%S) x1.

Lemma back_subst_spec (U : nat -> nat -> S) n (y : vec) : length y = n -> (forall i, i < n -> U i i <> s0) ->
  let x := for_down 0 n (back_body U) y in
  length x = n /\ forall p, p < n -> psum (fun c => Nat.leb p c) (fun c => U p c * vget x c)%S n = vget y p.
Proof.
  intros HL Hd. cbv zeta.
  pose (D := fun i (x : vec) => length x = n /\ forall p, p < n ->
     (if Nat.ltb p i then (vget x p + psum (fun c => Nat.leb i c) (fun c => U p c * vget x c)%S n)%S
      else psum (fun c => Nat.leb p c) (fun c => U p c * vget x c)%S n) = vget y p).
  assert (H : D 0 (for_down 0 n (back_body U) y)).
  { apply (for_down_inv D).
    - split; [assumption|]. intros p Hp. destruct (Nat.ltb_spec p (0 + n)); [|lia].
      rewrite psum_false by (intros c Hc; destruct (Nat.leb_spec (0 + n) c); [lia|reflexivity]). ring.
    - intros i x Hi (HLx & Hx). unfold back_body.
      destruct (is_zero (U i i)) eqn:Ez; [apply (is_zero_iff Seqb) in Ez; exfalso; apply (Hd i); [lia|assumption]|].
      clear Ez. cbv zeta. set (x1 := lset x i (sinv (U i i) * vget x i)%S).
      destruct (axpy_loop (fun j => U j i) i 0 i x1 ltac:(lia)) as (HL2 & Hv2).
      { unfold x1. rewrite lset_length. lia. }
      cbv zeta in HL2, Hv2.
      set (x2 := for_loop 0 i (fun j x0 => lset x0 j (vget x0 j - U j i * vget x0 i)%S) x1) in *.
      assert (Ex1i : vget x1 i = (sinv (U i i) * vget x i)%S) by (unfold x1; apply vget_lset_eq; lia).
      assert (Ex1 : forall p, p <> i -> vget x1 p = vget x p) by (intros p Hp; unfold x1; apply vget_lset_neq; lia).
      assert (E2i : vget x2 i = (sinv (U i i) * vget x i)%S).
      { rewrite Hv2. destruct (Nat.ltb_spec i (0 + i)); [lia|]. rewrite Bool.andb_false_r. assumption. }
      assert (E2lo : forall p, p < i -> vget x2 p = (vget x p - U p i * (sinv (U i i) * vget x i))%S).
      { intros p Hp. rewrite Hv2. destruct (Nat.ltb_spec p (0 + i)); [|lia]. cbn [Nat.leb andb].
        rewrite Ex1 by lia. rewrite Ex1i. reflexivity. }
      assert (E2hi : forall p, i < p -> vget x2 p = vget x p).
      { intros p Hp. rewrite Hv2. destruct (Nat.ltb_spec p (0 + i)); [lia|]. rewrite Bool.andb_false_r. apply Ex1. lia. }
      split; [rewrite HL2; unfold x1; rewrite lset_length; assumption|].
      intros p Hp. rewrite <- (Hx p Hp).
      assert (Hd' : (U i i * (sinv (U i i) * vget x i) = vget x i)%S) by (field; apply Hd; lia).
      destruct (Nat.lt_trichotomy p i) as [Hpi|[->|Hpi]].
      + destruct (Nat.ltb_spec p i); [|lia]. destruct (Nat.ltb_spec p (Datatypes.S i)); [|lia].
        rewrite (psum_peel_lo _ i n) by lia.
        rewrite E2lo by assumption. rewrite E2i.
        rewrite (psum_ext (fun c => Nat.leb (Datatypes.S i) c) (fun c => Nat.leb (Datatypes.S i) c)
                   (fun c => (U p c * vget x2 c)%S) (fun c => (U p c * vget x c)%S) n (fun _ _ => eq_refl)) by
          (intros c Hc Hle; apply Nat.leb_le in Hle; rewrite E2hi by lia; reflexivity).
        ring.
      + destruct (Nat.ltb_spec i i); [lia|]. destruct (Nat.ltb_spec i (Datatypes.S i)); [|lia].
        rewrite (psum_peel_lo _ i n) by lia.
        rewrite E2i, Hd'.
        rewrite (psum_ext (fun c => Nat.leb (Datatypes.S i) c) (fun c => Nat.leb (Datatypes.S i) c)
                   (fun c => (U i c * vget x2 c)%S) (fun c => (U i c * vget x c)%S) n (fun _ _ => eq_refl)) by
          (intros c Hc Hle; apply Nat.leb_le in Hle; rewrite E2hi by lia; reflexivity).
        ring.
      + destruct (Nat.ltb_spec p i); [lia|]. destruct (Nat.ltb_spec p (Datatypes.S i)); [lia|].
        apply psum_ext; [reflexivity|]. intros c Hc Hle. apply Nat.leb_le in Hle. rewrite E2hi by lia. reflexivity. }
  destruct H as (H1 & H2). split; [assumption|]. intros p Hp. specialize (H2 p Hp). cbn in H2. exact H2.
Qed.

(* column-oriented forward substitution with the transpose of an upper triangular U (wide solve) *)
Definition fwd_body (U : nat -> nat -> S) (N : nat) (i : nat) (f : vec) : vec :=
  if is_zero (U i i) then f else
  let f' := lset f i (sinv (U i i) * vget f i)%S in
  for_loop (i + 1) (N - (i + 1)) (fun j f => lset f j (vget f j - U i j * vget f i)%S) f'.

Lemma fwd_subst_spec (U : nat -> nat -> S) N (f0 : vec) : length f0 = N -> (forall i, i < N -> U i i <> s0) ->
  let y := for_loop 0 N (fwd_body U N) f0 in
  length y = N /\
  forall p, p < N -> psum (fun c => Nat.ltb c (Datatypes.S p)) (fun c => U c p * vget y c)%S N = vget f0 p.
Proof.
  intros HL Hd. cbv zeta.
  pose (E := fun i (f : vec) => length f = N /\ forall p, p < N ->
     (if Nat.ltb p i then psum (fun c => Nat.ltb c (Datatypes.S p)) (fun c => U c p * vget f c)%S N
      else (vget f p + psum (fun c => Nat.ltb c i) (fun c => U c p * vget f c)%S N)%S) = vget f0 p).
  assert (H : E (0 + N) (for_loop 0 N (fwd_body U N) f0)).
  { apply (for_loop_inv E).
    - split; [assumption|]. intros p Hp. cbn [Nat.ltb Nat.leb].
      rewrite psum_false by (intros; reflexivity). ring.
    - intros i f Hi (HLf & Hf). unfold fwd_body.
      destruct (is_zero (U i i)) eqn:Ez; [apply (is_zero_iff Seqb) in Ez; exfalso; apply (Hd i); [lia|assumption]|].
      clear Ez. cbv zeta. set (f1 := lset f i (sinv (U i i) * vget f i)%S).
      destruct (axpy_loop (fun j => U i j) i (i + 1) (N - (i + 1)) f1 ltac:(lia)) as (HL2 & Hv2).
      { unfold f1. rewrite lset_length. lia. }
      cbv zeta in HL2, Hv2.
      set (f2 := for_loop (i + 1) (N - (i + 1)) (fun j x0 => lset x0 j (vget x0 j - U i j * vget x0 i)%S) f1) in *.
      assert (Ef1i : vget f1 i = (sinv (U i i) * vget f i)%S) by (unfold f1; apply vget_lset_eq; lia).
      assert (Ef1 : forall p, p <> i -> vget f1 p = vget f p) by (intros p Hp; unfold f1; apply vget_lset_neq; lia).
      assert (E2i : vget f2 i = (sinv (U i i) * vget f i)%S).
      { rewrite Hv2. destruct (Nat.leb_spec (i + 1) i); [lia|]. cbn [andb]. assumption. }
      assert (E2hi : forall p, i < p -> p < N -> vget f2 p = (vget f p - U i p * (sinv (U i i) * vget f i))%S).
      { intros p Hp HpN. rewrite Hv2. destruct (Nat.leb_spec (i + 1) p); [|lia].
        destruct (Nat.ltb_spec p (i + 1 + (N - (i + 1)))); [|lia]. cbn [andb].
        rewrite Ef1 by lia. rewrite Ef1i. reflexivity. }
      assert (E2lo : forall p, p < i -> vget f2 p = vget f p).
      { intros p Hp. rewrite Hv2. destruct (Nat.leb_spec (i + 1) p); [lia|]. cbn [andb]. apply Ef1. lia. }
      split; [rewrite HL2; unfold f1; rewrite lset_length; assumption|].
      intros p Hp. rewrite <- (Hf p Hp).
      assert (Hd' : (U i i * (sinv (U i i) * vget f i) = vget f i)%S) by (field; apply Hd; lia).
      destruct (Nat.lt_trichotomy p i) as [Hpi|[->|Hpi]].
      + destruct (Nat.ltb_spec p i); [|lia]. destruct (Nat.ltb_spec p (Datatypes.S i)); [|lia].
        apply psum_ext; [reflexivity|]. intros c Hc Hlt. apply Nat.ltb_lt in Hlt. rewrite E2lo by lia. reflexivity.
      + destruct (Nat.ltb_spec i i); [lia|]. destruct (Nat.ltb_spec i (Datatypes.S i)); [|lia].
        rewrite (psum_peel_hi _ i N) by lia. rewrite E2i, Hd'.
        rewrite (psum_ext (fun c => Nat.ltb c i) (fun c => Nat.ltb c i)
                   (fun c => (U c i * vget f2 c)%S) (fun c => (U c i * vget f c)%S) N (fun _ _ => eq_refl)) by
          (intros c Hc Hlt; apply Nat.ltb_lt in Hlt; rewrite E2lo by lia; reflexivity).
        ring.
      + destruct (Nat.ltb_spec p i); [lia|]. destruct (Nat.ltb_spec p (Datatypes.S i)); [lia|].
        rewrite (psum_peel_hi _ i N) by lia. rewrite E2i, E2hi by lia.
        rewrite (psum_ext (fun c => Nat.ltb c i) (fun c => Nat.ltb c i)
                   (fun c => (U c p * vget f2 c)%S) (fun c => (U c p * vget f c)%S) N (fun _ _ => eq_refl)) by
          (intros c Hc Hlt; apply Nat.ltb_lt in Hlt; rewrite E2lo by lia; reflexivity).
        ring. }
  destruct H as (H1 & H2). split; [assumption|]. intros p Hp. specialize (H2 p Hp).
  destruct (Nat.ltb_spec p (0 + N)); [exact H2|lia].
Qed.

End SolvePieces.

Section SolveMain.
Context {S : Scalar}.
Local Notation vec := (vec S).
Hypothesis Sft : Sfield S.
Hypothesis Seqb : seqb_spec S.
Hypothesis Hadj : forall x : S, sadj x = x.
Hypothesis Habs : forall x : S, (sabs x * sabs x = x * x)%S.
Hypothesis Hsqrt : forall y : S, sos y -> (ssqrt y * ssqrt y = y)%S.
Hypothesis Hreal : forall y x : S, sos y -> (y + x * x = s0)%S -> y = s0.
Let SrtM : Sring S := F_R Sft.
Add Ring SRingQrSM : SrtM.
Add Field SFieldQrSM : Sft.

Lemma for_down_ext {St} lo cnt (f g : nat -> St -> St) st :
  (forall i s, lo <= i < lo + cnt -> f i s = g i s) -> for_down lo cnt f st = for_down lo cnt g st.
Proof.
  intro H. apply (for_down_rel (fun _ a b => a = b)); [reflexivity|].
  intros i a b Hi ->. apply H. assumption.
Qed.

Lemma vget_firstn (v : vec) k p : p < k -> vget (firstn k v) p = vget v p.
Proof.
  unfold vget. revert v p. induction k as [|k IH]; intros v p Hp; [lia|].
  destruct v as [|a v]; [destruct p; reflexivity|]. destruct p as [|p]; [reflexivity|]. simpl. apply IH. lia.
Qed.

Lemma hprod_sub m taus vs k (x y : nat -> S) r : r < m ->
  hprod m taus vs k (fun l => (x l - y l)%S) r = (hprod m taus vs k x r - hprod m taus vs k y r)%S.
Proof.
  intro Hr.
  rewrite (hprod_ext m taus vs taus vs k (fun _ _ => eq_refl) (fun _ _ _ _ => eq_refl)
             (fun l => (x l - y l)%S) (fun l => (x l + (- (s1)) * y l)%S)) by (try assumption; intros; ring).
  rewrite (hprod_add Sft) by assumption. rewrite (hprod_scal Sft) by assumption. ring.
Qed.

(* ---------- tall systems: the normal equations ---------- *)
Theorem qr_solve_tall m n rs cs (A b : vec) :
  StrideOK m n rs cs -> n <= m -> InB m n rs cs A -> m <= length b ->
  (forall i, i < n -> mv rs cs (fst (qr_compute m n rs cs A)) i i <> s0) ->
  let x := qr_solve m n rs cs A b in
  length x = n /\
  forall c, c < n ->
    sumn (fun r => (mv rs cs A r c * (sumn (fun j => mv rs cs A r j * vget x j) n - vget b r))%S) m = s0.
Proof.
  intros Hst Hnm HBA HLb Hdiag. cbv zeta.
  destruct (qr_compute_spec Sft Seqb Hadj Habs Hsqrt Hreal m n rs cs Hst A HBA) as (_ & _ & HR & HA).
  cbv zeta in HR, HA. rewrite (Nat.min_r m n Hnm) in HR, HA.
  unfold qr_solve. destruct (Nat.leb_spec n m); [|lia].
  destruct (qr_compute m n rs cs A) as [A' tau]. cbn [fst snd] in *.
  set (f := firstn m b).
  assert (HLf : length f = m) by (unfold f; rewrite firstn_length; lia).
  destruct (apply_up_spec Sft Seqb Hadj m rs cs A' tau f n Hnm HLf) as (HL1 & Hf1). cbv zeta in HL1, Hf1.
  set (f1 := for_loop 0 n (fun i f0 => apply_reflector (m - i) 1 A' (i * (rs + cs)) rs (sadj (vget tau i)) f0 i 1 1) f) in *.
  set (x0 := firstn n f1).
  assert (HLx0 : length x0 = n) by (unfold x0; rewrite firstn_length; lia).
  pose (U := fun p c => vget A' (c * cs + p * rs)).
  assert (EU : forall p c, U p c = mv rs cs A' p c) by (intros; unfold U, mv; f_equal; lia).
  (* the back substitution loop *)
  match goal with |- context [for_down 0 n ?body x0] => assert (Eb : for_down 0 n body x0 = for_down 0 n (back_body U) x0) end.
  { apply for_down_ext. intros i x _. unfold back_body, U. cbv zeta.
    replace (i * (rs + cs)) with (i * cs + i * rs) by ring. reflexivity. }
  rewrite Eb. clear Eb.
  destruct (back_subst_spec Sft Seqb U n x0 HLx0) as (HLx & Hx).
  { intros i Hi. rewrite EU. apply Hdiag. assumption. }
  cbv zeta in HLx, Hx.
  set (x := for_down 0 n (back_body U) x0) in *.
  split; [assumption|]. intros c Hc.
  set (taus := vget tau). set (vs := vcol rs cs A').
  set (P := hprod m taus vs n).
  set (z := fun l => sumn (fun j => (vget x j * qr_R rs cs A' l j)%S) n).
  (* A x = P (R x) *)
  assert (EAx : forall r, r < m -> sumn (fun j => (mv rs cs A r j * vget x j)%S) n = P z r).
  { intros r Hr. unfold P, z. rewrite (hprod_sumn Sft) by assumption.
    apply sumn_ext. intros j Hj. rewrite (HA j r Hj Hr). fold taus vs. ring. }
  (* b = P (Q'b) *)
  assert (Eb : forall r, r < m -> vget b r = P (vget f1) r).
  { intros r Hr. transitivity (vget f r); [unfold f; symmetry; apply vget_firstn; assumption|].
    rewrite <- (hprod_hprodT Sft m taus vs n HR (vget f) r Hr).
    apply hprod_ext; try reflexivity; [|assumption]. intros l Hl. symmetry. apply Hf1. assumption. }
  transitivity (dot m (P (fun l => qr_R rs cs A' l c)) (P (fun l => (z l - vget f1 l)%S))).
  - unfold dot. apply sumn_ext. intros r Hr. rewrite (HA c r Hc Hr). fold taus vs P.
    rewrite EAx, Eb by assumption. unfold P. rewrite hprod_sub by assumption. reflexivity.
  - unfold P. rewrite (hprod_orth Sft) by assumption. unfold dot. apply (sumn_allz Sft). intros l Hl.
    destruct (Nat.lt_ge_cases l n) as [Hln|Hln].
    + assert (Ez : z l = vget f1 l).
      { rewrite <- (vget_firstn f1 n l Hln). fold x0. rewrite <- (Hx l Hln). unfold z, psum.
        apply sumn_ext. intros j Hj. unfold qr_R. rewrite EU. unfold mv.
        destruct (Nat.leb_spec l j), (Nat.ltb_spec j l); try lia; ring. }
      rewrite Ez. ring.
    + unfold qr_R. destruct (Nat.ltb_spec c l); [ring|lia].
Qed.

(* ---------- wide systems: A x = b and x orthogonal to ker A ---------- *)
Lemma lower_kernel (U : nat -> nat -> S) N (u : nat -> S) : (forall i, i < N -> U i i <> s0) ->
  (forall r, r < N -> psum (fun l => Nat.ltb l (Datatypes.S r)) (fun l => U l r * u l)%S N = s0) ->
  forall r, r < N -> u r = s0.
Proof.
  intros Hd Hk r. induction r as [r IH] using lt_wf_ind. intro Hr.
  specialize (Hk r Hr). rewrite (psum_peel_hi Sft _ r N Hr) in Hk.
  rewrite (psum_ext (fun l => Nat.ltb l r) (fun l => Nat.ltb l r) (fun l => (U l r * u l)%S) (fun _ => s0) N (fun _ _ => eq_refl)) in Hk.
  2:{ intros l Hl Hlt. apply Nat.ltb_lt in Hlt. rewrite IH by lia. ring. }
  assert (Hz : psum (fun l => Nat.ltb l r) (fun _ : nat => @s0 S) N = s0).
  { unfold psum. apply (sumn_allz Sft). intros l _. destruct (Nat.ltb l r); reflexivity. }
  rewrite Hz in Hk.
  transitivity (sinv (U r r) * (s0 + U r r * u r))%S; [field; apply Hd; assumption|]. rewrite Hk. ring.
Qed.

Lemma vget_app_repeat0 (v : vec) cnt l : vget (v ++ repeat s0 cnt) l = if Nat.ltb l (length v) then vget v l else s0.
Proof.
  unfold vget. destruct (Nat.ltb_spec l (length v)).
  - apply app_nth1. assumption.
  - rewrite app_nth2 by assumption. destruct (Nat.lt_ge_cases (l - length v) cnt).
    + apply nth_repeat.
    + apply nth_overflow. rewrite repeat_length. assumption.
Qed.

Theorem qr_solve_wide m n rs cs (A b : vec) :
  StrideOK n m cs rs -> m < n -> InB n m cs rs A -> m <= length b ->
  (forall i, i < m -> mv cs rs (fst (qr_compute n m cs rs A)) i i <> s0) ->
  let x := qr_solve m n rs cs A b in
  length x = n /\
  (forall r, r < m -> sumn (fun c => (mv rs cs A r c * vget x c)%S) n = vget b r) /\
  (forall z : nat -> S, (forall r, r < m -> sumn (fun c => (mv rs cs A r c * z c)%S) n = s0) ->
     sumn (fun c => (vget x c * z c)%S) n = s0).
Proof.
  intros Hst Hmn HBA HLb Hdiag. cbv zeta.
  destruct (qr_compute_spec Sft Seqb Hadj Habs Hsqrt Hreal n m cs rs Hst A HBA) as (_ & _ & HR & HA).
  cbv zeta in HR, HA. rewrite (Nat.min_r n m (Nat.lt_le_incl _ _ Hmn)) in HR, HA.
  unfold qr_solve. destruct (Nat.leb_spec n m); [lia|].
  (* the adjoint copy is the identity for real scalars *)
  assert (EA1 : map sadj (firstn (n * m) A) ++ skipn (n * m) A = A).
  { rewrite (map_ext sadj (fun x => x) Hadj), map_id. apply firstn_skipn. }
  rewrite EA1.
  destruct (qr_compute n m cs rs A) as [A' tau]. cbn [fst snd] in *.
  set (f := firstn m b).
  assert (HLf : length f = m) by (unfold f; rewrite firstn_length; lia).
  pose (U := fun p c => vget A' (p * cs + c * rs)).
  assert (EU : forall p c, U p c = mv cs rs A' p c) by (intros; reflexivity).
  (* the forward substitution loop *)
  match goal with |- context [for_loop 0 m ?body f] => assert (Ef : for_loop 0 m body f = for_loop 0 m (fwd_body U m) f) end.
  { apply for_loop_ext. intros i g _. unfold fwd_body, U. cbv zeta. rewrite Hadj.
    replace (i * (rs + cs)) with (i * cs + i * rs) by ring.
    destruct (is_zero (vget A' (i * cs + i * rs))); [reflexivity|].
    apply for_loop_ext. intros j g' _. rewrite Hadj. reflexivity. }
  rewrite Ef. clear Ef.
  destruct (fwd_subst_spec Sft Seqb U m f HLf) as (HLy & Hy).
  { intros i Hi. rewrite EU. apply Hdiag. assumption. }
  cbv zeta in HLy, Hy.
  set (y := for_loop 0 m (fwd_body U m) f) in *.
  set (x0 := y ++ repeat s0 (n - m)).
  assert (HLx0 : length x0 = n) by (unfold x0; rewrite app_length, repeat_length; lia).
  assert (Ex0 : forall l, vget x0 l = if Nat.ltb l m then vget y l else s0).
  { intro l. unfold x0. rewrite vget_app_repeat0, HLy. reflexivity. }
  destruct (apply_down_spec Sft Seqb Hadj n cs rs A' tau x0 m (Nat.lt_le_incl _ _ Hmn) HLx0) as (HLx & Hx).
  cbv zeta in HLx, Hx.
  set (x := for_down 0 m (fun i x1 => apply_reflector (n - i) 1 A' (i * (cs + rs)) cs (vget tau i) x1 i 1 1) x0) in *.
  set (taus := vget tau) in *. set (vs := vcol cs rs A') in *.
  set (P := hprod n taus vs m) in *.
  assert (EAr : forall r c, r < m -> c < n -> mv rs cs A r c = P (fun l => qr_R cs rs A' l r) c).
  { intros r c Hr Hc. rewrite <- (HA r c Hr Hc). unfold mv. f_equal. lia. }
  (* R'[:,r] . u  as a partial sum *)
  assert (ERu : forall r (u : nat -> S), r < m -> (forall l, m <= l -> l < n -> qr_R cs rs A' l r = s0 \/ u l = s0) ->
     dot n (fun l => qr_R cs rs A' l r) u = psum (fun l => Nat.ltb l (Datatypes.S r)) (fun l => U l r * u l)%S m).
  { intros r u Hr Hz. unfold dot. rewrite (sumn_cut Sft _ m n (Nat.lt_le_incl _ _ Hmn)).
    - unfold psum. apply sumn_ext. intros l Hl. unfold qr_R. rewrite EU. unfold mv.
      destruct (Nat.ltb_spec r l), (Nat.ltb_spec l (Datatypes.S r)); try lia; ring.
    - intros l Hl1 Hl2. unfold qr_R. destruct (Nat.ltb_spec r l); [ring|lia]. }
  assert (HRz : forall r l, r < m -> m <= l -> qr_R cs rs A' l r = s0).
  { intros r l Hr Hl. unfold qr_R. destruct (Nat.ltb_spec r l); [reflexivity|lia]. }
  split; [assumption|]. split.
  - intros r Hr.
    transitivity (dot n (P (fun l => qr_R cs rs A' l r)) (P (vget x0))).
    { unfold dot. apply sumn_ext. intros c Hc. rewrite EAr, Hx by assumption. reflexivity. }
    unfold P. rewrite (hprod_orth Sft) by assumption.
    rewrite ERu by (try assumption; intros; left; apply HRz; assumption).
    rewrite <- (vget_firstn b m r Hr). fold f. rewrite <- (Hy r Hr).
    apply psum_ext; [reflexivity|]. intros l Hl _. rewrite Ex0. destruct (Nat.ltb_spec l m); [reflexivity|lia].
  - intros z Hz.
    set (u := hprodT n taus vs m z).
    assert (Hu : forall r, r < m -> u r = s0).
    { apply (lower_kernel U m u); [intros i Hi; rewrite EU; apply Hdiag; assumption|].
      intros r Hr. rewrite <- ERu by (try assumption; intros; left; apply HRz; assumption).
      unfold u. rewrite <- (hprod_sym Sft). rewrite <- (Hz r Hr). unfold dot. apply sumn_ext. intros c Hc.
      rewrite EAr by assumption. reflexivity. }
    transitivity (dot n (P (vget x0)) z).
    { unfold dot. apply sumn_ext. intros c Hc. rewrite Hx by assumption. reflexivity. }
    unfold P. rewrite (hprod_sym Sft). fold u. unfold dot. apply (sumn_allz Sft). intros l Hl.
    rewrite Ex0. destruct (Nat.ltb_spec l m); [rewrite Hu by assumption; ring|ring].
Qed.

End SolveMain.
