(* Cheby.v -- Chebyshev polynomial smoother (amgcl/relaxation/chebyshev.hpp:113-206)
   and the Gershgorin branch of backend::spectral_radius (backend/builtin.hpp:780-817,
   power_iters <= 0).  Definitions only; proofs: ChebyProofs.v.

   The power-method branch draws from std::mt19937 and takes square roots; its result
   enters the model as the input [hi0] of [cheby_setup] (DESIGN section 3, "oracles"). *)
From Amgcl Require Import Scalar Vec Crs Kernels MatOps.
Local Open Scope S_scope.

Section Cheby.
Context {S : Scalar}.
Local Notation vec := (vec S).
Local Notation crs := (crs S).

(* spectral_radius<scale>(A, 0), one thread (after /repo fix 519d545: `dia` is a local of the
   row loop body, reset to the identity for EVERY row): emax = max_i s_i,
   s_i = sum_j |a_ij|, times |inverse(dia_i)| when scale; dia_i = LAST entry with col == i of
   row i, identity when the row has no diagonal entry *)
Definition gersh_row (scale : bool) (i : nat) (r : row S) : S :=
  let '(s, dia) := fold_left (fun (sd : S * S) e =>
        (fst sd + sabs (snd e), if scale && Nat.eqb (fst e) i then snd e else snd sd)) r (s0, s1) in
  if scale then s * sabs (sinv dia) else s.
Definition gershgorin (scale : bool) (A : crs) : S :=
  let emax := fold_left (fun (em : S) ir => smax em (gersh_row scale (fst ir) (snd ir)))
                        (indexed (rows A)) s0 in
  let radius := smax s0 emax in
  if sltb radius s0 then (s1 + s1) else radius.

(* constructor: (c, d) from the spectral radius estimate hi0 and the parameters
   lower, higher:  lo = hi0*lower; hi = hi0*higher; d = 0.5*(hi+lo); c = 0.5*(hi-lo) *)
Definition cheby_cd (half hi0 lower higher : S) : S * S :=
  let lo := hi0 * lower in
  let hi := hi0 * higher in
  (half * (hi - lo), half * (hi + lo)).

(* one iteration k of solve(); state (x, p, r, alpha).  M = Some (inverted diagonal) iff scale *)
Definition cheby_coef (two quarter c d : S) (k : nat) (alpha : S) : S * S :=
  match k with
  | O => (sinv d, s0)
  | Datatypes.S O =>
      let a := two * d * sinv (two * d * d - c * c) in (a, a * d - s1)
  | _ => let a := sinv (d - quarter * alpha * c * c) in (a, a * d - s1)
  end.
Definition cheby_step (two quarter c d : S) (M : option vec) (A : crs) (b : vec)
           (st : vec * vec * vec * S) (k : nat) : vec * vec * vec * S :=
  let '(x, p, r, alpha) := st in
  let r1 := residual b A x r in
  let r2 := match M with Some m => vmul s1 m r1 s0 r1 | None => r1 end in
  let '(alpha', beta) := cheby_coef two quarter c d k alpha in
  let p' := axpby alpha' r2 beta p in
  let x' := axpby s1 p' s1 x in
  (x', p', r2, alpha').
Definition cheby_solve (two quarter c d : S) (M : option vec) (degree : nat) (A : crs)
           (b x p r : vec) : vec * vec * vec * S :=
  fold_left (cheby_step two quarter c d M A b) (seq 0 degree) (x, p, r, s0).

(* numeric literals of the C++ (2, 0.25, 0.5) *)
Definition c_two : S := s1 + s1.
Definition c_half : S := sinv c_two.
Definition c_quarter : S := sinv (c_two + c_two).

(* complete object: setup + sweep.  p, r: the (uninitialised) workspaces. *)
Definition cheby_setup (scale : bool) (A : crs) (hi0 lower higher : S) (junk : vec)
  : S * S * option vec :=
  let '(c, d) := cheby_cd c_half hi0 lower higher in
  (c, d, if scale then Some (diagonal A true junk) else None).
Definition cheby_sweep (cdM : S * S * option vec) (degree : nat) (A : crs) (b x p r : vec) : vec :=
  let '(c, d, M) := cdM in
  let '(x', _, _, _) := cheby_solve c_two c_quarter c d M degree A b x p r in x'.
Definition cheby_apply (cdM : S * S * option vec) (degree : nat) (A : crs) (b x p r : vec) : vec :=
  cheby_sweep cdM degree A b (vclear x) p r.

End Cheby.
