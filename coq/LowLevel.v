(* LowLevel.v -- C10-A2: bounds-checked re-statement of kernels over FLAT arrays.
   Every array access of the C++ (ptr[i], col[j], val[j], x[c], y[i]) is a checked read or
   write in an error monad; an index outside the array is ErrOOB.  LowLevelProofs.v shows
   that on well-formed input ErrOOB is never returned and the result is the list-of-rows
   model of Kernels.v.

   spmv / residual : amgcl/backend/detail/matrix_ops.hpp:47-113 (row_begin(A,i) reads
   ptr[i], ptr[i+1]; the row_iterator walks col/val from ptr[i] to ptr[i+1]). *)
From Amgcl Require Import Scalar Vec Crs Kernels.
Local Open Scope S_scope.

Inductive res (X : Type) : Type := Ok (x : X) | ErrOOB.
Arguments Ok {X} x.
Arguments ErrOOB {X}.

Definition bind {X Y} (a : res X) (f : X -> res Y) : res Y :=
  match a with Ok x => f x | ErrOOB => ErrOOB end.
Notation "x <- a ;; b" := (bind a (fun x => b)) (at level 61, a at next level, right associativity).

(* checked array read / write *)
Definition rd {X} (l : list X) (i : nat) : res X :=
  match nth_error l i with Some v => Ok v | None => ErrOOB end.
Fixpoint wr {X} (l : list X) (i : nat) (v : X) : res (list X) :=
  match l, i with
  | [], _ => ErrOOB
  | _ :: t, O => Ok (v :: t)
  | a :: t, Datatypes.S k => t' <- wr t k v ;; Ok (a :: t')
  end.

(* for (i = lo; i < lo + cnt; ++i) st = body(i, st), stopping at the first error *)
Definition for_res {St} (lo cnt : nat) (body : nat -> St -> res St) (st : St) : res St :=
  fold_left (fun acc i => bind acc (body i)) (seq lo cnt) (Ok st).

Section LowLevel.
Context {S : Scalar}.
Local Notation vec := (vec S).

(* struct crs { nrows, ncols, ptr, col, val } *)
Record fcrs := mkF { fn : nat; fm : nat; fptr : list nat; fcol : list nat; fval : list S }.

(* the structural validity the kernels rely on *)
Definition fwf (F : fcrs) : Prop :=
  length (fptr F) = Datatypes.S (fn F) /\
  nth 0 (fptr F) 0%nat = 0%nat /\
  (forall i, i < fn F -> nth i (fptr F) 0%nat <= nth (Datatypes.S i) (fptr F) 0%nat) /\
  nth (fn F) (fptr F) 0%nat = length (fcol F) /\
  length (fval F) = length (fcol F) /\
  (forall c, In c (fcol F) -> c < fm F).

(* the list-of-rows view (Crs.v) of the same arrays *)
Definition slice {X} (l : list X) (p e : nat) : list X := firstn (e - p) (skipn p l).
Definition frow (F : fcrs) (i : nat) : row S :=
  let p := nth i (fptr F) 0%nat in
  let e := nth (Datatypes.S i) (fptr F) 0%nat in
  combine (slice (fcol F) p e) (slice (fval F) p e).
Definition unflat (F : fcrs) : crs S := mkCrs (fm F) (map (frow F) (seq 0 (fn F))).

(* V sum = zero; for (a = row_begin(A, i); a; ++a) sum += a.value() * x[a.col()]; *)
Definition ll_dot (F : fcrs) (x : vec) (i : nat) : res S :=
  p <- rd (fptr F) i ;;
  e <- rd (fptr F) (i + 1) ;;
  for_res p (e - p) (fun j sum =>
    c <- rd (fcol F) j ;;
    v <- rd (fval F) j ;;
    xc <- rd x c ;;
    Ok (sum + v * xc)) s0.

(* spmv_impl::apply: the beta == 0 branch does not read y[i] *)
Definition ll_spmv (alpha : S) (F : fcrs) (x : vec) (beta : S) (y : vec) : res vec :=
  if is_zero beta
  then for_res 0 (fn F) (fun i y =>
         sum <- ll_dot F x i ;;
         wr y i (alpha * sum)) y
  else for_res 0 (fn F) (fun i y =>
         sum <- ll_dot F x i ;;
         yi <- rd y i ;;
         wr y i (alpha * sum + beta * yi)) y.

(* residual_impl::apply: res[i] = rhs[i] - sum *)
Definition ll_residual (f : vec) (F : fcrs) (x : vec) (r : vec) : res vec :=
  for_res 0 (fn F) (fun i r =>
    sum <- ll_dot F x i ;;
    fi <- rd f i ;;
    wr r i (fi - sum)) r.

(* crs(nrows, ncols, ptr_range, col_range, val_range), crs(const crs&), operator=(const crs&)
   (amgcl/backend/builtin.hpp:87-179, 187-220): the arrays come from new T[..] -- explicit
   junk inputs jp, jc, jv -- and are filled row by row:
       ptr[0] = pr[0];
       for (i < n) { ptr[i+1] = pr[i+1]; for (j = pr[i]; j < pr[i+1]; ++j) { col[j] = cr[j]; val[j] = vr[j]; } } *)
Definition ll_crs_copy (n : nat) (pr cr : list nat) (vr : vec) (jp jc : list nat) (jv : vec)
  : res (list nat * (list nat * vec)) :=
  p0 <- rd pr 0 ;;
  ptr0 <- wr jp 0 p0 ;;
  for_res 0 n (fun i st =>
    e <- rd pr (i + 1) ;;
    ptr <- wr (fst st) (i + 1) e ;;
    b <- rd pr i ;;
    cv <- for_res b (e - b) (fun j cv =>
            c <- rd cr j ;;
            col <- wr (fst cv) j c ;;
            v <- rd vr j ;;
            val <- wr (snd cv) j v ;;
            Ok (col, val)) (snd st) ;;
    Ok (ptr, cv)) (ptr0, (jc, jv)).

(* the source ranges are valid CRS arrays (the preconditions the constructor checks, plus
   monotonicity) and the fresh arrays have the sizes of the new[] expressions *)
Definition copy_wf (n : nat) (pr cr : list nat) (vr : vec) (jp jc : list nat) (jv : vec) : Prop :=
  length pr = Datatypes.S n /\
  nth 0 pr 0%nat = 0%nat /\
  (forall i, i < n -> nth i pr 0%nat <= nth (Datatypes.S i) pr 0%nat) /\
  nth n pr 0%nat = length cr /\ length vr = length cr /\
  length jp = Datatypes.S n /\ length jc = length cr /\ length jv = length cr.

End LowLevel.
Arguments fcrs : clear implicits.
