(* LowLevel2A.v -- C10-A2, second layer: coarsening::plain_aggregates
   (amgcl/coarsening/plain_aggregates.hpp:118-205) and tentative_prolongation without null space
   (amgcl/coarsening/tentative_prolongation.hpp:208-224) over flat arrays with uninitialised
   cells (LowLevel2.v).

   Memory of plain_aggregates:
     dia = diagonal(A)            numa_vector<V>(n, false): UNWRITTEN; row i writes dia[i] only if it
                                   stores a diagonal entry (builtin.hpp:762-782)
     strong_connection(nnz)       std::vector<char>: value-initialised (0)
     id(n)                        std::vector<ptrdiff_t>: value-initialised (0), signed, sentinels
                                   undefined = -1, removed = -2
     neib                         std::vector, push_back / range-for only: a list
     cnt(count, 0)                std::vector<ptrdiff_t>
   Indexing with a signed value (cnt[id[i]]) is a read at a signed index.
   max_neib only sizes neib.reserve(): not modelled.  Proofs: LowLevel2AProofs.v. *)
From Coq Require Import ZArith.
From Amgcl Require Import Scalar Vec Crs Kernels MatOps Aggregates LowLevel LowLevelT LowLevel2 LowLevel2G.
Local Open Scope S_scope.

Section Agg.
Context {S : Scalar}.

(* for (a = A.row_begin(i); a; ++a) if (a.col() == i) { dia[i] = a.value(); break; } *)
Fixpoint diag_scan (F : fcrs S) (i j cnt : nat) (dia : marr S) : mres (marr S) :=
  match cnt with
  | O => Done dia
  | Datatypes.S k =>
    c <-- ird (fcol F) j ;;
    if Nat.eqb c i then v <-- ird (fval F) j ;; mwr dia i v
    else diag_scan F i (Datatypes.S j) k dia
  end.
Definition ll_diagonal (F : fcrs S) : mres (marr S) :=
  mfor 0 (fn F) (fun i dia =>
    p <-- ird (fptr F) i ;;
    e <-- ird (fptr F) (i + 1) ;;
    diag_scan F i p (e - p) dia) (fresh (fn F)).

(* 1. strong connections:
     eps_dia_i = eps_squared * dia[i];
     for (j in row i) { c = A.col[j]; v = A.val[j];
                        strong[j] = (c != i) && (eps_dia_i * dia[c] < v * v); }     (&& short-circuits) *)
Definition ll_strong (eps2 : S) (F : fcrs S) (dia : marr S) (st0 : marr bool) : mres (marr bool) :=
  mfor 0 (fn F) (fun i st =>
    di <-- mrd dia i ;;
    let eps_dia_i := eps2 * di in
    row_loop (fptr F) i (fun j st =>
      c <-- ird (fcol F) j ;;
      v <-- ird (fval F) j ;;
      if Nat.eqb c i then mwr st j false
      else dc <-- mrd dia c ;; mwr st j (sltb (eps_dia_i * dc) (v * v))) st) st0.

(* 2a. state = removed; for (; j < e; ++j) if (strong[j]) { state = undefined; break; }  id[i] = state *)
Fixpoint strong_scan (st : marr bool) (j cnt : nat) : mres Z :=
  match cnt with
  | O => Done removed
  | Datatypes.S k => b <-- mrd st j ;; if b then Done undefined else strong_scan st (Datatypes.S j) k
  end.
Definition ll_lonely (F : fcrs S) (st : marr bool) (id0 : marr Z) : mres (marr Z) :=
  mfor 0 (fn F) (fun i id =>
    p <-- ird (fptr F) i ;;
    e <-- ird (fptr F) (i + 1) ;;
    state <-- strong_scan st p (e - p) ;;
    mwr id i state) id0.

(* 2b. the aggregation pass *)
Definition ll_claim (F : fcrs S) (st : marr bool) (cur : Z) (j : nat) (acc : marr Z * list nat)
  : mres (marr Z * list nat) :=
  c <-- ird (fcol F) j ;;
  b <-- mrd st j ;;
  if b then
    ic <-- mrd (fst acc) c ;;
    if negb (Z.eqb ic removed) then id' <-- mwr (fst acc) c cur ;; Done (id', snd acc ++ [c])
    else Done acc
  else Done acc.

Definition ll_mark (F : fcrs S) (st : marr bool) (cur : Z) (j : nat) (id : marr Z) : mres (marr Z) :=
  cc <-- ird (fcol F) j ;;
  b <-- mrd st j ;;
  if b then
    icc <-- mrd id cc ;;
    if Z.eqb icc undefined then mwr id cc cur else Done id
  else Done id.

Definition ll_agg_step (F : fcrs S) (st : marr bool) (i : nat) (s : marr Z * nat) : mres (marr Z * nat) :=
  ii <-- mrd (fst s) i ;;
  if Z.eqb ii undefined then
    let cur := Z.of_nat (snd s) in
    id1 <-- mwr (fst s) i cur ;;
    c <-- row_loop (fptr F) i (ll_claim F st cur) (id1, []) ;;
    id2 <-- mfoldl (fun c id => row_loop (fptr F) c (ll_mark F st cur) id) (snd c) (fst c) ;;
    Done (id2, Datatypes.S (snd s))
  else Done s.

(* 3. renumbering *)
Definition ll_mark_used (n : nat) (id : marr Z) (cnt0 : marr nat) : mres (marr nat) :=
  mfor 0 n (fun i cnt =>
    a <-- mrd id i ;;
    if Z.leb 0 a then mwrz cnt a 1%nat else Done cnt) cnt0.

Definition ll_renumber (n : nat) (id : marr Z) (cnt : marr nat) : mres (marr Z) :=
  mfor 0 n (fun i id =>
    a <-- mrd id i ;;
    if Z.leb 0 a then ca <-- mrdz cnt a ;; mwr id i (Z.of_nat ca - 1)%Z else Done id) id.

Inductive ll_aggr := LAEmpty | LAOk (count : nat) (id : marr Z) (strong : marr bool).

Definition ll_plain_aggregates (eps2 : S) (F : fcrs S) : mres ll_aggr :=
  let n := fn F in
  nnz <-- (if Nat.eqb n 0 then Done 0%nat else ird (fptr F) n) ;;      (* backend::nonzeros(A) *)
  dia <-- ll_diagonal F ;;
  st <-- ll_strong eps2 F dia (filled (repeat false nnz)) ;;
  id0 <-- ll_lonely F st (filled (repeat 0%Z n)) ;;
  p <-- mfor 0 n (ll_agg_step F st) (id0, 0%nat) ;;
  let count := snd p in
  if Nat.eqb count 0 then Done LAEmpty
  else
    cnt1 <-- ll_mark_used n (fst p) (filled (repeat 0%nat count)) ;;
    cnt <-- ll_psum count cnt1 ;;
    back <-- mrd cnt (count - 1) ;;
    if Nat.ltb back count then
      id' <-- ll_renumber n (fst p) cnt ;; Done (LAOk back id' st)
    else Done (LAOk count (fst p) st).

(* ------------------------------------------------------------------ tentative_prolongation, nullspace.cols == 0
     P->set_size(n, naggr); P->ptr[0] = 0;
     for (i < n) P->ptr[i+1] = (aggr[i] >= 0);
     P->set_nonzeros(P->scan_row_sizes());
     for (i < n) if (aggr[i] >= 0) { P->col[P->ptr[i]] = aggr[i]; P->val[P->ptr[i]] = identity; } *)
Definition ll_tentative (n naggr : nat) (aggr : list Z) : mres (mcrs S) :=
  ptr0 <-- mwr (fresh (n + 1)) 0 0%nat ;;
  ptr1 <-- mfor 0 n (fun i ptr =>
             a <-- ird aggr i ;;
             mwr ptr (i + 1) (if Z.leb 0 a then 1%nat else 0%nat)) ptr0 ;;
  ptr <-- ll_psum (n + 1) ptr1 ;;
  nnz <-- mrd ptr n ;;
  cv <-- mfor 0 n (fun i (cv : marr nat * marr S) =>
           a <-- ird aggr i ;;
           if Z.leb 0 a then
             p <-- mrd ptr i ;;
             col' <-- mwr (fst cv) p (Z.to_nat a) ;;
             p' <-- mrd ptr i ;;
             val' <-- mwr (snd cv) p' s1 ;;
             Done (col', val')
           else Done cv) (fresh nnz, fresh nnz) ;;
  Done (mkM n naggr ptr (fst cv) (snd cv)).

End Agg.
