(* DistBlockT.v -- C11 for NON-COMMUTATIVE value types, part 3:
   * the distributed transpose (Dist.dist_transpose) of a matrix cut along EVERY row / column partition has the
     dense entries of the serial transpose: T_ji = adj(a_ij), for an additive adjoint;
   * if the adjoint is an anti-automorphism (adj(a*b) = adj(b)*adj(a): conjugate transpose of a block) the
     distributed transpose of a product equals, entry by entry, the distributed product of the transposes in
     REVERSED order, for every compatible triple of partitions;
   * closed witnesses at static_matrix<Q,2,2>: blocks do not commute, and the product model with the operands
     of the remote section swapped (DistBlockP.dist_product_swapped_remote, the seeded regression C12-4)
     assembles to a matrix that is NOT the serial product. *)
From Coq Require Import Permutation.
From Amgcl Require Import Scalar QcInst Vec Crs Kernels KernelsProofs MatOps MatOpsProofs Dist DistProofs DistProofsT
  NcRing NcKernels BlockMatOpsProofs BlockInst NcRingBlock DistBlockP.
Local Open Scope nat_scope.

Section TransposeNc.
Context {S : Scalar}.
Local Notation row := (row S).
Local Notation crs := (crs S).
Hypothesis Hnc : ncring_theory S.
Local Instance nct : NcRingInst S := ncring_inst Hnc.
Local Open Scope S_scope.

(* the dense semantics of a row does not depend on the storage order: only ADDITION is commuted *)
Lemma nc_rget_perm (r1 r2 : row) j : Permutation r1 r2 -> rget r1 j = rget r2 j.
Proof.
  induction 1 as [|e r1 r2 HP IH|e1 e2 r|r1 r2 r3 HP1 IH1 HP2 IH2].
  - reflexivity.
  - rewrite !(nc_rget_cons Hnc), IH. reflexivity.
  - rewrite !(nc_rget_cons Hnc). ncr.
  - rewrite IH1. exact IH2.
Qed.

Hypothesis sadj_add : forall a b : S, sadj (a + b) = sadj a + sadj b.
Hypothesis sadj_0 : sadj (@s0 S) = s0.

Theorem nc_dist_transpose_dense (A : crs) (rparts cparts : list nat) :
  length rparts = length cparts -> psum rparts = nrows A -> psum cparts = ncols A ->
  let T := assemble (dist_transpose (split A rparts cparts) rparts) in
  ncols T = nrows A /\
  forall i j, j < ncols A -> mget T j i = sadj (mget A i j).
Proof.
  intros H1 H2 H3 T.
  destruct (dist_transpose_assembled_perm A rparts cparts H1 H2 H3) as [Hc Hp].
  subst T. split; [exact Hc|]. intros i j Hj.
  unfold mget at 1. rewrite (nc_rget_perm _ _ i (Hp j Hj)).
  exact (nc_transpose_dense Hnc sadj_add sadj_0 A i j Hj).
Qed.

(* anti-automorphism: transposition reverses the distributed product *)
Hypothesis sadj_mul : forall a b : S, sadj (a * b) = sadj b * sadj a.

Theorem nc_dist_transpose_of_product (A B : crs) (rpA cpA cpB : list nat) i j :
  length rpA = length cpA -> length cpA = length cpB ->
  psum rpA = nrows A -> psum cpA = nrows B -> nrows B = ncols A -> psum cpB = ncols B ->
  wf A = true -> i < nrows A -> j < ncols B ->
  mget (assemble (dist_transpose (split (spgemm_saad A B false) rpA cpB) rpA)) j i
  = mget (assemble (dist_product (split (transpose B) cpB cpA) (split (transpose A) cpA rpA))) j i /\
  mget (assemble (dist_transpose (split (spgemm_saad A B false) rpA cpB) rpA)) j i
  = sumn (fun k => sadj (mget B k j) * sadj (mget A i k)) (ncols A).
Proof.
  intros HlA HlB HrA HrB Hin HcB Hwf Hi Hj.
  assert (EL : mget (assemble (dist_transpose (split (spgemm_saad A B false) rpA cpB) rpA)) j i
               = sumn (fun k => sadj (mget B k j) * sadj (mget A i k)) (ncols A)).
  { destruct (nc_dist_transpose_dense (spgemm_saad A B false) rpA cpB) as [_ HT].
    - congruence.
    - unfold spgemm_saad, nrows. cbn [rows]. rewrite map_length. exact HrA.
    - exact HcB.
    - rewrite (HT i j) by exact Hj.
      rewrite (nc_spgemm_saad_dense Hnc A B false i j Hwf Hi).
      rewrite (nc_sadj_sumn sadj_add sadj_0). apply sumn_ext. intros k _. apply sadj_mul. }
  split; [|exact EL]. rewrite EL.
  rewrite (nc_dist_product_entries Hnc (transpose B) (transpose A) cpB cpA rpA).
  - replace (ncols (transpose B)) with (ncols A) by (rewrite <- Hin; symmetry; apply transpose_shape).
    apply sumn_ext. intros k Hk.
    rewrite (nc_transpose_dense Hnc sadj_add sadj_0 B k j Hj).
    rewrite (nc_transpose_dense Hnc sadj_add sadj_0 A i k Hk). reflexivity.
  - congruence.
  - congruence.
  - rewrite (proj1 (transpose_shape B)). exact HcB.
  - rewrite (proj1 (transpose_shape A)). congruence.
  - apply transpose_wf.
  - rewrite (proj1 (transpose_shape B)). exact Hj.
Qed.

End TransposeNc.

(* ------------------------------------------------------------------ *)
(* closed witnesses at static_matrix<Q,2,2>                             *)
Lemma seqb_false_neq (S : Scalar) (Seqb : seqb_spec S) (x y : S) : seqb x y = false -> x <> y.
Proof. intros H E. apply Seqb in E. congruence. Qed.

Definition dbq (a b c d : Z) : BlockS QcS 2 := blk_of_list QcS 2 [qc a 1; qc b 1; qc c 1; qc d 1].
Definition db_I : BlockS QcS 2 := dbq 1 0 0 1.
Definition db_a : BlockS QcS 2 := dbq 0 1 0 0.     (* E_01 *)
Definition db_c : BlockS QcS 2 := dbq 0 0 1 0.     (* E_10 *)

Lemma blocks_do_not_commute : exists x y : BlockS QcS 2, (x * y)%S <> (y * x)%S.
Proof.
  exists db_a, db_c. apply (seqb_false_neq _ (BlockS_eqb QcS 2 QcS_eqb)). vm_compute. reflexivity.
Qed.

(* 2 ranks, one block row / column each.
       A = [ I  a ]      B = [ I  . ]        (A B)_00 = I*I + a*c
           [ .  I ]          [ c  I ]
   the entry a of A's row 0 lives in column 1 = REMOTE for rank 0; row 1 of B is received from rank 1 *)
Definition dw_A : crs (BlockS QcS 2) := mkCrs 2 [[(0, db_I); (1, db_a)]; [(1, db_I)]].
Definition dw_B : crs (BlockS QcS 2) := mkCrs 2 [[(0, db_I)]; [(0, db_c); (1, db_I)]].
Definition dw_p : list nat := [1; 1].

Theorem swapped_remote_operands_refuted :
  length dw_p = length dw_p /\ psum dw_p = nrows dw_A /\ psum dw_p = nrows dw_B /\ wf dw_A = true /\
  mget (assemble (dist_product_swapped_remote (split dw_A dw_p dw_p) (split dw_B dw_p dw_p))) 0 0
  <> mget (spgemm_saad dw_A dw_B false) 0 0.
Proof.
  split; [reflexivity|]. split; [reflexivity|]. split; [reflexivity|]. split; [reflexivity|].
  apply (seqb_false_neq _ (BlockS_eqb QcS 2 QcS_eqb)). vm_compute. reflexivity.
Qed.

(* sanity of the witness: the model with the operands as in the code agrees there (instance of the theorem) *)
Example unswapped_agrees_on_witness :
  seqb (mget (assemble (dist_product (split dw_A dw_p dw_p) (split dw_B dw_p dw_p))) 0 0)
       (mget (spgemm_saad dw_A dw_B false) 0 0) = true.
Proof. vm_compute. reflexivity. Qed.
