(* Extract_krylovmath.v -- extraction of the C05-B oracle specifications (KrylovMathSpec.v) together
   with the kernels that realise the operators A and P from CRS input.
   Directives: ExtractCommon.v (Basic, NatInt, ZBigInt, Z.ggcd -> zarith gcd). *)
From Amgcl Require Import ExtractCommon.
From Coq Require Import QArith Qcanon.
From Amgcl Require Import Scalar QcInst Vec Crs Kernels KrylovRef KrylovMathSpec.
Separate Extraction
  QcInst.QcS Scalar.is_zero Scalar.smax Scalar.smin
  Vec Crs Kernels KrylovRef KrylovMathSpec.
