(* LowLevel2G.v -- C10-A2, second layer: backend::spgemm_saad (amgcl/detail/spgemm.hpp:61-127)
   over flat arrays with uninitialised cells (LowLevel2.v), one thread.

     C.set_size(A.nrows, B.ncols);              ptr = new ptr_type[nrows + 1]  (NOT cleaned)
     C.ptr[0] = 0;
     marker(B.ncols, -1);
     for (ia < A.nrows) {                       pass 1: count
         C_cols = 0;
         for (ja = A.ptr[ia] .. A.ptr[ia+1]) { ca = A.col[ja];
             for (jb = B.ptr[ca] .. B.ptr[ca+1]) { cb = B.col[jb];
                 if (marker[cb] != ia) { marker[cb] = ia; ++C_cols; } } }
         C.ptr[ia + 1] = C_cols; }
     C.set_nonzeros(C.scan_row_sizes());        partial_sum over ptr[0..nrows]; col = new col_type[nnz];
                                                val = new val_type[nnz]   (NOT initialised)
     marker(B.ncols, -1);
     for (ia < A.nrows) {                       pass 2: fill
         row_beg = C.ptr[ia]; row_end = row_beg;
         for (ja ..) { ca = A.col[ja]; va = A.val[ja];
             for (jb ..) { cb = B.col[jb]; vb = B.val[jb];
                 if (marker[cb] < row_beg) { marker[cb] = row_end; C.col[row_end] = cb;
                                             C.val[row_end] = va * vb; ++row_end; }
                 else C.val[marker[cb]] += va * vb; } }
         if (sort) sort_row(C.col + row_beg, C.val + row_beg, row_end - row_beg); }

   marker holds signed values (-1, row numbers, positions); C.val[marker[cb]] is a read at a
   signed index.  Proofs: LowLevel2GProofs.v. *)
From Coq Require Import ZArith.
From Amgcl Require Import Scalar Vec Crs Kernels MatOps LowLevel LowLevelT LowLevel2.
Local Open Scope S_scope.

(* monadic fold over a list (used by the proofs to replace index loops over a row) *)
Fixpoint mfoldl {X St} (g : X -> St -> mres St) (l : list X) (st : St) : mres St :=
  match l with
  | [] => Done st
  | x :: t => st' <-- g x st ;; mfoldl g t st'
  end.

(* std::partial_sum(a, a + n1, a) *)
Definition ll_psum (n1 : nat) (a : marr nat) : mres (marr nat) :=
  match n1 with
  | O => Done a
  | Datatypes.S k =>
    a0 <-- mrd a 0 ;;
    a1 <-- mwr a 0 a0 ;;
    r <-- mfor 1 k (fun i st =>
            x <-- mrd (snd st) i ;;
            let acc := (fst st + x)%nat in
            a' <-- mwr (snd st) i acc ;;
            Done (acc, a')) (a0, a1) ;;
    Done (snd r)
  end.

Section Spgemm.
Context {S : Scalar}.
Local Notation cvarr := (@cvarr S).

(* a matrix under construction *)
Record mcrs := mkM { mn : nat; mm : nat; mptr : marr nat; mcol : marr nat; mval : marr S }.
Definition minit (F : fcrs S) : mcrs := mkM (fn F) (fm F) (filled (fptr F)) (filled (fcol F)) (filled (fval F)).

(* for (ja = A.ptr[ia], ea = A.ptr[ia+1]; ja < ea; ++ja) *)
Definition row_loop {St} (ptr : list nat) (i : nat) (body : nat -> St -> mres St) (st : St) : mres St :=
  p <-- ird ptr i ;;
  e <-- ird ptr (i + 1) ;;
  mfor p (e - p) body st.

(* pass 1 *)
Definition cnt_inner (B : fcrs S) (ia : nat) (jb : nat) (st : marr Z * nat) : mres (marr Z * nat) :=
  cb <-- ird (fcol B) jb ;;
  mk <-- mrd (fst st) cb ;;
  if Z.eqb mk (Z.of_nat ia) then Done st
  else marker' <-- mwr (fst st) cb (Z.of_nat ia) ;; Done (marker', Datatypes.S (snd st)).

Definition cnt_row (A B : fcrs S) (ia : nat) (marker : marr Z) : mres (marr Z * nat) :=
  row_loop (fptr A) ia (fun ja st =>
    ca <-- ird (fcol A) ja ;;
    row_loop (fptr B) ca (cnt_inner B ia) st) (marker, 0%nat).

Definition pass1 (A B : fcrs S) (st : marr Z * marr nat) : mres (marr Z * marr nat) :=
  mfor 0 (fn A) (fun ia st =>
    r <-- cnt_row A B ia (fst st) ;;
    ptr' <-- mwr (snd st) (ia + 1) (snd r) ;;
    Done (fst r, ptr')) st.

(* pass 2 *)
Definition fstate : Type := marr Z * cvarr * nat.       (* marker, (C.col, C.val), row_end *)

Definition fill_inner (B : fcrs S) (row_beg : nat) (va : S) (jb : nat) (st : fstate) : mres fstate :=
  let '(marker, (col, val), row_end) := st in
  cb <-- ird (fcol B) jb ;;
  vb <-- ird (fval B) jb ;;
  mk <-- mrd marker cb ;;
  if (mk <? Z.of_nat row_beg)%Z then
    marker' <-- mwr marker cb (Z.of_nat row_end) ;;
    col' <-- mwr col row_end cb ;;
    val' <-- mwr val row_end (va * vb) ;;
    Done (marker', (col', val'), Datatypes.S row_end)
  else
    old <-- mrdz val mk ;;
    val' <-- mwrz val mk (old + va * vb) ;;
    Done (marker, (col, val'), row_end).

Definition fill_row (A B : fcrs S) (sort : bool) (cptr : marr nat) (ia : nat) (st : marr Z * cvarr)
  : mres (marr Z * cvarr) :=
  row_beg <-- mrd cptr ia ;;
  r <-- row_loop (fptr A) ia (fun ja st =>
          ca <-- ird (fcol A) ja ;;
          va <-- ird (fval A) ja ;;
          row_loop (fptr B) ca (fill_inner B row_beg va) st) (fst st, snd st, row_beg) ;;
  let '(marker, cv, row_end) := r in
  if sort then cv' <-- ll_sort_row row_beg (row_end - row_beg) cv ;; Done (marker, cv')
  else Done (marker, cv).

Definition ll_spgemm (A B : fcrs S) (sort : bool) : mres mcrs :=
  let n := fn A in
  ptr0 <-- mwr (fresh (n + 1)) 0 0%nat ;;
  p1 <-- pass1 A B (filled (repeat (-1)%Z (fm B)), ptr0) ;;
  cptr <-- ll_psum (n + 1) (snd p1) ;;
  nnz <-- mrd cptr n ;;
  p2 <-- mfor 0 n (fill_row A B sort cptr) (filled (repeat (-1)%Z (fm B)), (fresh nnz, fresh nnz)) ;;
  Done (mkM n (fm B) cptr (fst (snd p2)) (snd (snd p2))).

End Spgemm.
Arguments mcrs : clear implicits.
