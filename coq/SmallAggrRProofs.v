(* SmallAggrRProofs.v -- C10: the R copy loop of tentative_prolongation (SmallAggr.v, Section RCopy).

   r_copy_done : with cols <= d every read of qr.R(ii, jj) is inside the d*cols cells of Bpart and the loop fills the
                 cols*cols cells of Bnew starting at base with r_values.
   r_copy_oob  : with 0 < cols and d < cols the loop runs out of bounds (the read of R(cols-1, cols-1) at the latest),
                 whatever Bnew is.
   r_values_length. *)
From Coq Require Import ZArith Lia List.
From Amgcl Require Import Scalar Vec Crs Kernels MatOps Aggregates LowLevel LowLevelT LowLevel2 LowLevel2Proofs LowLevel2G LowLevel2GProofs SmallAggr.
Import ListNotations.
Local Open Scope nat_scope.
Section RCopyProofs.
Context {S : Scalar}.

(* ---------- generic list facts ---------- *)

Lemma rc_flat_map_length_const {X Y} (F : X -> list Y) (k : nat) (l : list X) :
  (forall x, In x l -> length (F x) = k) -> length (flat_map F l) = length l * k.
Proof.
  induction l as [|x l IH]; intro H; [reflexivity|].
  cbn [flat_map length]. rewrite app_length.
  rewrite (H x (or_introl eq_refl)).
  rewrite IH by (intros y Hy; apply H; right; exact Hy).
  cbn [Nat.mul]. reflexivity.
Qed.

Lemma rc_map_flat_map {X Y Z} (f : Y -> Z) (F : X -> list Y) (l : list X) :
  map f (flat_map F l) = flat_map (fun x => map f (F x)) l.
Proof.
  induction l as [|x l IH]; [reflexivity|].
  cbn [flat_map]. rewrite map_app, IH. reflexivity.
Qed.

(* ---------- generic monad facts ---------- *)

Lemma rc_mbind_done {X Y} (m : mres X) (f : X -> mres Y) (x : X) (y : mres Y) :
  m = Done x -> f x = y -> mbind m f = y.
Proof. intros -> H. exact H. Qed.

(* a loop that stores one computed value per element at consecutive positions *)
Lemma rc_store_loop {X Y} (g : X -> mres Y) (vals : X -> Y) (L : list X) :
  forall (pre mid post : marr Y),
  (forall x, In x L -> g x = Done (vals x)) ->
  length mid = length L ->
  mfoldl (fun x (st : marr Y * nat) =>
            v <-- g x ;; b' <-- mwr (fst st) (snd st) v ;; Done (b', Datatypes.S (snd st)))
         L (pre ++ mid ++ post, length pre)
  = Done (pre ++ map (fun x => Some (vals x)) L ++ post, length pre + length L).
Proof.
  induction L as [|x L IH]; intros pre mid post Hg Hlen.
  - destruct mid as [|m mid]; [|cbn [length] in Hlen; discriminate Hlen].
    cbn [mfoldl map length app]. rewrite Nat.add_0_r. reflexivity.
  - destruct mid as [|m mid]; [cbn [length] in Hlen; discriminate Hlen|].
    cbn [length] in Hlen. injection Hlen as Hlen.
    cbn [mfoldl]. rewrite (Hg x (or_introl eq_refl)). cbn [mbind fst snd].
    change ((m :: mid) ++ post) with (m :: (mid ++ post)).
    rewrite mwr_app. cbn [mbind].
    assert (E1 : pre ++ Some (vals x) :: mid ++ post = (pre ++ [Some (vals x)]) ++ mid ++ post).
    { rewrite <- app_assoc. reflexivity. }
    assert (E2 : Datatypes.S (length pre) = length (pre ++ [Some (vals x)])).
    { rewrite app_length. cbn [length]. rewrite Nat.add_1_r. reflexivity. }
    rewrite E1, E2.
    assert (Hg' : forall y, In y L -> g y = Done (vals y)).
    { intros y Hy. apply Hg. right. exact Hy. }
    pose proof (IH (pre ++ [Some (vals x)]) mid post Hg' Hlen) as E3.
    etransitivity; [exact E3|].
    rewrite <- E2, <- app_assoc. cbn [map length app].
    rewrite Nat.add_succ_r. reflexivity.
Qed.

(* a loop whose steps can only succeed or run out of bounds, one of them always running out of bounds *)
Lemma rc_mfoldl_oob {X St} (body : X -> St -> mres St) (L : list X) (x0 : X) :
  (forall x st, In x L -> (exists s', body x st = Done s') \/ body x st = OutOfBounds) ->
  In x0 L ->
  (forall st, body x0 st = OutOfBounds) ->
  forall st, mfoldl body L st = OutOfBounds.
Proof.
  induction L as [|x L IH]; intros Hstep Hin Hbad st.
  - destruct Hin.
  - cbn [mfoldl]. destruct Hin as [Heq | Hin].
    + subst x. rewrite Hbad. reflexivity.
    + destruct (Hstep x st (or_introl eq_refl)) as [[s' Hd] | Ho].
      * rewrite Hd. cbn [mbind]. apply IH.
        -- intros y s Hy. apply Hstep. right. exact Hy.
        -- exact Hin.
        -- exact Hbad.
      * rewrite Ho. reflexivity.
Qed.

Lemma rc_mwr_cases {X} (a : marr X) : forall (i : nat) (v : X),
  (exists a', mwr a i v = Done a') \/ mwr a i v = OutOfBounds.
Proof.
  induction a as [|c a IH]; intros i v.
  - right. reflexivity.
  - destruct i as [|k].
    + left. cbn [mwr]. eexists. reflexivity.
    + cbn [mwr]. destruct (IH k v) as [[a' Hd] | Ho].
      * left. rewrite Hd. cbn [mbind]. eexists. reflexivity.
      * right. rewrite Ho. reflexivity.
Qed.

(* ---------- the R copy loop ---------- *)

Definition rc_pairs (cols : nat) : list (nat * nat) :=
  flat_map (fun ii => map (fun jj => (ii, jj)) (seq 0 cols)) (seq 0 cols).

Definition rc_val (d : nat) (rl : list S) (ij : nat * nat) : S :=
  if Nat.ltb (snd ij) (fst ij) then s0 else nth (fst ij * 1 + snd ij * d) rl s0.

Lemma rc_pairs_length cols : length (rc_pairs cols) = cols * cols.
Proof.
  unfold rc_pairs.
  rewrite (rc_flat_map_length_const _ cols).
  - rewrite seq_length. reflexivity.
  - intros x _. rewrite map_length, seq_length. reflexivity.
Qed.

Lemma rc_pairs_in cols ii jj : In (ii, jj) (rc_pairs cols) <-> ii < cols /\ jj < cols.
Proof.
  unfold rc_pairs. rewrite in_flat_map. split.
  - intros [x [Hx Hm]]. apply in_map_iff in Hm. destruct Hm as [y [Hy Hys]].
    injection Hy as Hx1 Hy1. subst x y.
    apply in_seq in Hx. apply in_seq in Hys. lia.
  - intros [Hi Hj]. exists ii. split.
    + apply in_seq. lia.
    + apply in_map_iff. exists jj. split; [reflexivity|]. apply in_seq. lia.
Qed.

Lemma rc_pairs_values cols d (rl : list S) : map (rc_val d rl) (rc_pairs cols) = r_values cols d rl.
Proof.
  unfold rc_pairs, r_values. rewrite rc_map_flat_map.
  apply flat_map_ext. intro ii. rewrite map_map. reflexivity.
Qed.

Lemma r_values_length cols d (rl : list S) : length (r_values cols d rl) = cols * cols.
Proof.
  rewrite <- rc_pairs_values, map_length. apply rc_pairs_length.
Qed.

(* the nested loop is one loop over the pairs *)
Lemma rc_loop_flat (cols d : nat) (r : marr S) (st : marr S * nat) :
  mfoldl (fun ii st => mfoldl (fun jj st => r_copy_body r d (ii, jj) st) (seq 0 cols) st) (seq 0 cols) st
  = mfoldl (r_copy_body r d) (rc_pairs cols) st.
Proof.
  unfold rc_pairs. rewrite mfoldl_flat_map.
  apply mfoldl_ext. intros ii s _. rewrite mfoldl_map. reflexivity.
Qed.

Lemma rc_index_in (cols d ii jj : nat) : cols <= d -> jj < cols -> ii <= jj -> ii * 1 + jj * d < d * cols.
Proof.
  intros Hcd Hj Hij. rewrite Nat.mul_1_r.
  assert (H1 : ii + jj * d < d + jj * d) by lia.
  assert (H2 : d + jj * d = Datatypes.S jj * d) by reflexivity.
  assert (H3 : Datatypes.S jj * d <= cols * d) by (apply Nat.mul_le_mono_r; lia).
  rewrite (Nat.mul_comm d cols). lia.
Qed.

Lemma rc_qr_R_done (cols d : nat) (rl : list S) (ij : nat * nat) :
  cols <= d -> length rl = d * cols -> In ij (rc_pairs cols) ->
  qr_R (filled rl) d (fst ij) (snd ij) = Done (rc_val d rl ij).
Proof.
  intros Hcd Hrl Hin. destruct ij as [ii jj]. apply rc_pairs_in in Hin. destruct Hin as [Hi Hj].
  unfold qr_R, rc_val. cbn [fst snd].
  destruct (Nat.ltb jj ii) eqn:E; [reflexivity|].
  apply Nat.ltb_ge in E.
  apply mrd_filled. rewrite Hrl. apply (rc_index_in cols d ii jj Hcd Hj E).
Qed.

Theorem r_copy_done (cols d base : nat) (rl : list S) (pre mid post : marr S) :
  cols <= d -> length rl = d * cols -> length pre = base -> length mid = cols * cols ->
  r_copy_loop cols d (filled rl) base (pre ++ mid ++ post) = Done (pre ++ filled (r_values cols d rl) ++ post).
Proof.
  intros Hcd Hrl Hpre Hmid. subst base.
  unfold r_copy_loop. rewrite rc_loop_flat.
  pose proof (rc_store_loop (fun ij => qr_R (filled rl) d (fst ij) (snd ij)) (rc_val d rl) (rc_pairs cols)
                            pre mid post) as E.
  eapply rc_mbind_done.
  - apply E.
    + intros ij Hin. apply (rc_qr_R_done cols d rl ij Hcd Hrl Hin).
    + rewrite rc_pairs_length. exact Hmid.
  - cbn [fst].
    rewrite <- (map_map (rc_val d rl) Some), rc_pairs_values. reflexivity.
Qed.

Lemma rc_qr_R_cases (d : nat) (rl : list S) (ii jj : nat) :
  (exists v, qr_R (filled rl) d ii jj = Done v) \/ qr_R (filled rl) d ii jj = OutOfBounds.
Proof.
  unfold qr_R. destruct (Nat.ltb jj ii).
  - left. eexists. reflexivity.
  - destruct (lt_dec (ii * 1 + jj * d) (length rl)) as [Hlt | Hge].
    + left. exists (nth (ii * 1 + jj * d) rl s0). apply mrd_filled. exact Hlt.
    + right. apply mrd_oob. rewrite filled_length. lia.
Qed.

Lemma rc_body_cases (d : nat) (rl : list S) (ij : nat * nat) (st : marr S * nat) :
  (exists s', r_copy_body (filled rl) d ij st = Done s') \/ r_copy_body (filled rl) d ij st = OutOfBounds.
Proof.
  unfold r_copy_body.
  destruct (rc_qr_R_cases d rl (fst ij) (snd ij)) as [[v Hv] | Ho].
  - rewrite Hv. cbn [mbind].
    destruct (rc_mwr_cases (fst st) (snd st) v) as [[a' Ha] | Ho].
    + left. rewrite Ha. cbn [mbind]. eexists. reflexivity.
    + right. rewrite Ho. reflexivity.
  - right. rewrite Ho. reflexivity.
Qed.

Lemma rc_index_out (cols d : nat) : 0 < cols -> d < cols -> d * cols <= (cols - 1) * 1 + (cols - 1) * d.
Proof.
  intros Hc Hd. destruct cols as [|c]; [lia|].
  replace (Datatypes.S c - 1) with c by lia.
  rewrite Nat.mul_1_r, Nat.mul_succ_r, (Nat.mul_comm c d). lia.
Qed.

Lemma rc_body_bad (cols d : nat) (rl : list S) (st : marr S * nat) :
  0 < cols -> d < cols -> length rl = d * cols ->
  r_copy_body (filled rl) d (cols - 1, cols - 1) st = OutOfBounds.
Proof.
  intros Hc Hd Hrl. unfold r_copy_body, qr_R. cbn [fst snd].
  rewrite Nat.ltb_irrefl.
  rewrite mrd_oob; [reflexivity|].
  rewrite filled_length, Hrl. apply rc_index_out; assumption.
Qed.

Theorem r_copy_oob (cols d base : nat) (rl : list S) (bnew : marr S) :
  0 < cols -> d < cols -> length rl = d * cols ->
  r_copy_loop cols d (filled rl) base bnew = OutOfBounds.
Proof.
  intros Hc Hd Hrl. unfold r_copy_loop. rewrite rc_loop_flat.
  rewrite (rc_mfoldl_oob (r_copy_body (filled rl) d) (rc_pairs cols) (cols - 1, cols - 1)).
  - reflexivity.
  - intros ij st _. apply rc_body_cases.
  - apply rc_pairs_in. lia.
  - intro st. apply (rc_body_bad cols d rl st Hc Hd Hrl).
Qed.

End RCopyProofs.
