(* Extract_adapters.v -- extraction of the adapter / composite-preconditioner models
   (C17, C13, C18) to OCaml.  Same directives as Extract_kernels.v (trusted base). *)
From Coq Require Import Extraction ExtrOcamlBasic ExtrOcamlNatInt ExtrOcamlZBigInt.
From Coq Require Import QArith Qcanon.
From Amgcl Require Import Scalar QcInst Vec Crs Kernels KernelsProofs MatOps Relax Adapters.
Extraction Blacklist List String Int Nat.
Set Extraction Optimize.
Separate Extraction
  QcInst.QcS Scalar.is_zero Scalar.smax Scalar.smin
  Vec Crs Kernels KernelsProofs.Ax MatOps Relax Adapters.
