(* Extract_adapters.v -- extraction of the adapter / composite-preconditioner models
   (C17, C13, C18) to OCaml.  Directives: ExtractCommon.v (trusted base). *)
From Amgcl Require Import ExtractCommon.
From Coq Require Import QArith Qcanon.
From Amgcl Require Import Scalar QcInst Vec Crs Kernels KernelsProofs MatOps Relax Adapters Composite.
Separate Extraction
  QcInst.QcS Scalar.is_zero Scalar.smax Scalar.smin
  Vec Crs Kernels KernelsProofs.Ax MatOps Relax Adapters Composite.
