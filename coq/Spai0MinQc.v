(* Spai0MinQc.v -- Spai0Min.v closed at the Gaussian rationals ComplexS QcS (std::complex over exact rationals):
   SPAI-0 as coded after the repair of finding C06-spai0-no-conj is the least-squares minimiser; a concrete row
   meets every hypothesis (non-vacuity); HISTORICAL: the formula before the repair (Relax.spai0_row_old) is not. *)
From Coq Require Import QArith Qcanon.
From Amgcl Require Import Scalar QcInst Vec Crs Kernels MatOps Relax RelaxProofs ComplexInst AmgOrder Spai0Min.
Local Close Scope Q_scope. Local Close Scope Qc_scope.
Local Open Scope S_scope.

(* QcS is an ordered field (as ChebyPolyQc.QcS_ordered_cp / AmgOrderQc.QcS_ordered; repeated to keep the closure small) *)
Lemma qc_ltb_lt_sm (a b : Qc) : qc_ltb a b = true <-> (a < b)%Qc.
Proof. unfold qc_ltb, Qclt, Qlt. apply Z.ltb_lt. Qed.
Lemma QcS_ordered_sm : ordered QcS.
Proof.
  constructor.
  - intro x. change (@sltb QcS) with qc_ltb. destruct (qc_ltb x x) eqn:E; [|reflexivity].
    apply qc_ltb_lt_sm in E. exfalso. exact (Qclt_not_eq _ _ E eq_refl).
  - intros x y z H1 H2. apply qc_ltb_lt_sm. apply qc_ltb_lt_sm in H1, H2. exact (Qclt_trans _ _ _ H1 H2).
  - intros x y H1 H2. change (@sltb QcS) with qc_ltb in *. apply Qcle_antisym; apply Qcnot_lt_le; intro L;
      apply qc_ltb_lt_sm in L; congruence.
  - intros x y z H. apply qc_ltb_lt_sm. apply qc_ltb_lt_sm in H. change (sadd x z) with (x + z)%Qc.
    change (sadd y z) with (y + z)%Qc. unfold Qclt in *.
    change (this (x + z)%Qc) with (Qred (this x + this z)). change (this (y + z)%Qc) with (Qred (this y + this z)).
    rewrite !Qred_correct. apply Qplus_lt_le_compat; [exact H|apply Qle_refl].
  - intros x y z Hz H. apply qc_ltb_lt_sm. apply qc_ltb_lt_sm in Hz, H.
    apply Qcmult_lt_compat_r; assumption.
Qed.

Theorem spai0_row_minimises_Qc n i (r : row CQcS) (m : CQcS) :
  i < n -> NoDup (map fst r) -> row_wf n r = true -> sqrt_exact_on QcS r ->
  ole (spai0_res2 QcS n i r (spai0_row i r)) (spai0_res2 QcS n i r m).
Proof. exact (spai0_row_minimises QcS QcS_field QcS_ordered_sm n i r m). Qed.

(* ------------------------------------------------------------------ *)
(* a concrete row with a NON-REAL diagonal: (3+4i, 5+12i), moduli 5 and 13 *)
Definition sp_cq (a b : Z) : T CQcS := (qc a 1, qc b 1).
Definition sp_r0 : row CQcS := [(0, sp_cq 3 4); (1, sp_cq 5 12)].

Lemma sp_r0_guards : 0 < 2 /\ NoDup (map fst sp_r0) /\ row_wf 2 sp_r0 = true /\ sqrt_exact_on QcS sp_r0.
Proof.
  split; [lia|]. split; [|split; [reflexivity|]].
  - cbn. constructor; [intros [E|[]]; discriminate|]. constructor; [intros []|constructor].
  - intros e [<-|[<-|[]]]; apply QcS_eqb; vm_compute; reflexivity.
Qed.

(* the repaired formula returns conj(a_00) / (|a_00|^2 + |a_01|^2) = (3 - 4i)/194 ... *)
Lemma sp_r0_spai0 : spai0_row 0 sp_r0 = ((qc 3 194, qc (-4) 194) : T CQcS).
Proof. apply CQcS_eqb. vm_compute. reflexivity. Qed.
(* ... with squared residual 169/194, which the theorem says is minimal *)
Lemma sp_r0_res2 : spai0_res2 QcS 2 0 sp_r0 (spai0_row 0 sp_r0) = qc 169 194.
Proof. apply QcS_eqb. vm_compute. reflexivity. Qed.
Lemma sp_r0_minimal (m : CQcS) : ole (qc 169 194) (spai0_res2 QcS 2 0 sp_r0 m).
Proof.
  rewrite <- sp_r0_res2. destruct sp_r0_guards as (H1 & H2 & H3 & H4).
  exact (spai0_row_minimises_Qc 2 0 sp_r0 m H1 H2 H3 H4).
Qed.

(* HISTORICAL (finding C06-spai0-no-conj, fixed): before the repair spai0.hpp computed a_ii / sum_j |a_ij|^2
   (Relax.spai0_row_old).  On the row above it returns (3 + 4i)/194 with squared residual 233/194 > 1 > 169/194:
   the old formula is not the minimiser of || e_i - m a_i || -- the clause of C06 that was refuted. *)
Theorem spai0_row_old_not_minimiser :
  exists (n i : nat) (r : row CQcS) (m : CQcS),
    i < n /\ NoDup (map fst r) /\ row_wf n r = true /\ sqrt_exact_on QcS r /\
    olt (spai0_res2 QcS n i r m) (spai0_res2 QcS n i r (spai0_row_old i r)).
Proof.
  exists 2, 0, sp_r0, (spai0_row 0 sp_r0). destruct sp_r0_guards as (H1 & H2 & H3 & H4).
  split; [exact H1|]. split; [exact H2|]. split; [exact H3|]. split; [exact H4|]. vm_compute. reflexivity.
Qed.

Lemma sp_r0_old_res2 : spai0_res2 QcS 2 0 sp_r0 (spai0_row_old 0 sp_r0) = qc 233 194.
Proof. apply QcS_eqb. vm_compute. reflexivity. Qed.

(* real rows are unaffected by the repair: both formulas agree when every stored value is real *)
Lemma spai0_row_old_real_rows_agree (i : nat) (r : row CQcS) :
  (forall e, In e r -> c_im (snd e) = s0) -> spai0_row i r = spai0_row_old i r.
Proof.
  intro Hre. unfold spai0_row, spai0_row_old.
  assert (E : forall (nd : T CQcS * T CQcS),
    fold_left (fun (nd : T CQcS * T CQcS) (e : nat * T CQcS) =>
        let nv := sabs (snd e) in
        (if Nat.eqb (fst e) i then fst nd + sadj (snd e) else fst nd, snd nd + nv * nv)) r nd =
    fold_left (fun (nd : T CQcS * T CQcS) (e : nat * T CQcS) =>
        let nv := sabs (snd e) in
        (if Nat.eqb (fst e) i then fst nd + snd e else fst nd, snd nd + nv * nv)) r nd).
  { induction r as [|e r IH]; intro nd; [reflexivity|]. cbn [fold_left].
    assert (Ee : sadj (snd e) = snd e).
    { destruct e as [c [a b]]. pose proof (Hre _ (or_introl eq_refl)) as Hb. cbn in Hb. subst b.
      apply (cplx_ext QcS); [reflexivity|]. cbn. apply QcS_eqb. reflexivity. }
    rewrite Ee. apply IH. intros e' He'. apply Hre. right. exact He'. }
  rewrite E. reflexivity.
Qed.

(* ------------------------------------------------------------------ *)
(* real value types at the exact rationals: math::norm^2 = v^2, math::adjoint = id *)
Lemma QcS_abs2_sm (v : T QcS) : sabs v * sabs v = v * v.
Proof.
  change (@sabs QcS v) with (qc_abs v). unfold qc_abs. destruct (Z.ltb (Qnum (this v)) 0); [|reflexivity].
  change (Qcmult (Qcopp v) (Qcopp v) = Qcmult v v). ring.
Qed.

Theorem spai0_row_minimises_real_Qc n i (r : row QcS) (m : QcS) :
  i < n -> NoDup (map fst r) -> row_wf n r = true ->
  ole (spai0_rres2 n i r (spai0_row i r)) (spai0_rres2 n i r m).
Proof. exact (spai0_row_minimises_real QcS_field QcS_ordered_sm QcS_abs2_sm (fun _ => eq_refl) n i r m). Qed.
