(* Extract_amgb.v -- extraction for the amgb group (C03: block value types / coarsening wrappers,
   hierarchies built entirely inside the model).  Same directives as Extract_kernels.v. *)
From Amgcl Require Import ExtractCommon.
From Coq Require Import QArith Qcanon.
From Amgcl Require Import Scalar QcInst Vec Crs Kernels MatOps MatOps2 Relax DenseSolve Aggregates Tentative Coarsen
  Amg AmgExec AmgBlock AmgFull.
Separate Extraction
  QcInst.QcS Scalar.is_zero Scalar.smax Scalar.smin
  Vec Crs Kernels MatOps MatOps2 Relax DenseSolve Aggregates Tentative Coarsen Amg AmgExec AmgBlock AmgFull.
