(* AmgBlockCycleSym.v -- C02 for block value types, part A3 (core): symmetry of the V(1,1)-cycle over a
   NON-COMMUTATIVE ring of values with an involutive anti-automorphism (math::adjoint: sadj (a*b) = sadj b * sadj a;
   for static_matrix<T,b,b> the block transpose, BlockMatOpsProofs.v).

   The form is  ipH n x y = sum_{i<n} sadj x_i * y_i  (a ring element; for column-0 blocks its (0,0) cell is the
   inner product of the expanded vectors).  It is additive in both arguments and hermitian, sadj (ipH x y) = ipH y x;
   nothing else is used: no product is ever commuted.  Hypotheses per level ([hier_herm], the block reading of
   AmgProofs6.hier_sym): A_l hermitian (mget A j i = sadj (mget A i j): A_JI = A_IJ^T), R_l the adjoint of P_l, the
   coarse solve self-adjoint, the post-smoother consistent (x' = x + N (f - A x)) and the adjoint of the pre-smoother.
   Then  ipH (B f) g = ipH f (B g)  for B = one V(1,1)-cycle from x = 0 = apply with pre_cycles = 1.
   Port of AmgProofs6.cycle_sym; every [ring] step became an additive rearrangement ([ncr]) plus [ipH_herm]. *)
From Amgcl Require Import Scalar Vec Crs Kernels KernelsProofs MatOps MatOpsProofs Relax DenseSolve
  Amg AmgExec AmgProofs AmgProofs2 AmgProofs3 AmgProofs4 NcRing NcKernels AmgBlockNc AmgBlockCycle AmgBlockCycleProofs
  DirectUtil Inverse StaticMat StaticMatProofs BlockInst BlockKernels NcRingBlock BlockMatOpsProofs.
Local Open Scope S_scope.

Section SymNc.
Context {S : Scalar}.
Local Notation vec := (vec S).
Local Notation crs := (crs S).
Local Notation level := (@level S).
Local Notation scratch := (@scratch S).
Local Notation sweep := (@sweep S).
Hypothesis Hnc : ncring_theory S.
Hypothesis Seqb : seqb_spec S.
Local Instance ncsy : NcRingInst S := ncring_inst Hnc.
Hypothesis adj_add : forall a b : S, sadj (a + b) = sadj a + sadj b.
Hypothesis adj_mul : forall a b : S, sadj (a * b) = sadj b * sadj a.
Hypothesis adj_inv : forall a : S, sadj (sadj a) = a.

Lemma nc_zero_is_zero : is_zero (@s0 S) = true.
Proof. unfold is_zero. apply (proj2 (Seqb s0 s0)). reflexivity. Qed.

Lemma adj_0 : sadj (@s0 S) = s0.
Proof.
  assert (E : sadj (@s0 S) + sadj s0 = sadj s0 + s0).
  { rewrite <- adj_add. replace (@s0 S + s0) with (@s0 S) by ncr. ncr. }
  apply (nc_add_cancel_l Hnc) in E. exact E.
Qed.
Lemma adj_opp (a : S) : sadj (- a) = - sadj a.
Proof.
  assert (E : sadj a + sadj (- a) = sadj a + - sadj a).
  { rewrite <- adj_add. replace (a + - a) with (@s0 S) by ncr. rewrite adj_0. ncr. }
  apply (nc_add_cancel_l Hnc) in E. exact E.
Qed.
Lemma adj_sub (a b : S) : sadj (a - b) = sadj a - sadj b.
Proof. replace (a - b) with (a + - b) by ncr. rewrite adj_add, adj_opp. ncr. Qed.
Lemma adj_sumn (f : nat -> S) n : sadj (sumn f n) = sumn (fun i => sadj (f i)) n.
Proof. induction n as [|n IH]; simpl; [apply adj_0|]. rewrite adj_add, IH. reflexivity. Qed.

(* --- the hermitian form on the first n entries --- *)
Definition ipH (n : nat) (x y : vec) : S := sumn (fun i => sadj (vget x i) * vget y i) n.

Lemma ipH_herm n (x y : vec) : sadj (ipH n x y) = ipH n y x.
Proof. unfold ipH. rewrite adj_sumn. apply sumn_ext. intros i _. rewrite adj_mul, adj_inv. reflexivity. Qed.

Lemma ipH_ext_l n (x x' y : vec) : (forall i, i < n -> vget x i = vget x' i) -> ipH n x y = ipH n x' y.
Proof. intro H. unfold ipH. apply sumn_ext. intros i Hi. rewrite H by exact Hi. reflexivity. Qed.
Lemma ipH_ext_r n (x y y' : vec) : (forall i, i < n -> vget y i = vget y' i) -> ipH n x y = ipH n x y'.
Proof. intro H. unfold ipH. apply sumn_ext. intros i Hi. rewrite H by exact Hi. reflexivity. Qed.

Lemma ipH_add_l n (x w z y : vec) : (forall i, i < n -> vget z i = vget x i + vget w i) ->
  ipH n z y = ipH n x y + ipH n w y.
Proof.
  intro H. unfold ipH. rewrite <- (ncsumn_add Hnc). apply sumn_ext.
  intros i Hi. rewrite H by exact Hi. rewrite adj_add. ncr.
Qed.
Lemma ipH_sub_l n (x w z y : vec) : (forall i, i < n -> vget z i = vget x i - vget w i) ->
  ipH n z y = ipH n x y - ipH n w y.
Proof.
  intro H. unfold ipH. rewrite <- (ncsumn_sub Hnc). apply sumn_ext.
  intros i Hi. rewrite H by exact Hi. rewrite adj_sub. ncr.
Qed.
Lemma ipH_add_r n (x y w z : vec) : (forall i, i < n -> vget z i = vget y i + vget w i) ->
  ipH n x z = ipH n x y + ipH n x w.
Proof.
  intro H. unfold ipH. rewrite <- (ncsumn_add Hnc). apply sumn_ext.
  intros i Hi. rewrite H by exact Hi. ncr.
Qed.
Lemma ipH_sub_r n (x y w z : vec) : (forall i, i < n -> vget z i = vget y i - vget w i) ->
  ipH n x z = ipH n x y - ipH n x w.
Proof.
  intro H. unfold ipH. rewrite <- (ncsumn_sub Hnc). apply sumn_ext.
  intros i Hi. rewrite H by exact Hi. ncr.
Qed.

(* <A x, y> over the first n rows, and <x, T y> over the first m rows *)
Definition qL (n : nat) (A : crs) (x y : vec) : S := sumn (fun i => sadj (Ax A x i) * vget y i) n.
Definition qR (m : nat) (x : vec) (T : crs) (y : vec) : S := sumn (fun j => sadj (vget x j) * Ax T y j) m.

Lemma ipH_Ax_l n (A : crs) (x v y : vec) : (forall i, i < n -> vget v i = Ax A x i) -> ipH n v y = qL n A x y.
Proof. intro H. unfold ipH, qL. apply sumn_ext. intros i Hi. rewrite H by exact Hi. reflexivity. Qed.
Lemma ipH_Ax_r m (T : crs) (y v x : vec) : (forall j, j < m -> vget v j = Ax T y j) -> ipH m x v = qR m x T y.
Proof. intro H. unfold ipH, qR. apply sumn_ext. intros j Hj. rewrite H by exact Hj. reflexivity. Qed.

(* <A x, y> = <x, A^H y> *)
Lemma qL_adj (A T : crs) n m (x y : vec) : ncols A = m -> ncols T = n ->
  (forall i j, i < n -> j < m -> mget T j i = sadj (mget A i j)) -> qL n A x y = qR m x T y.
Proof.
  intros HA HT H. unfold qL, qR, Ax. rewrite HA, HT.
  rewrite (sumn_ext _ (fun i => sumn (fun j => sadj (vget x j) * sadj (mget A i j) * vget y i) m)).
  2:{ intros i Hi. rewrite adj_sumn, <- (ncsumn_scal_r Hnc). apply sumn_ext. intros j Hj.
      rewrite adj_mul. reflexivity. }
  rewrite (ncsumn_swap Hnc). apply sumn_ext. intros j Hj.
  rewrite <- (ncsumn_scal_l Hnc). apply sumn_ext. intros i Hi. rewrite H by assumption. ncr.
Qed.

(* --- hypotheses per level --- *)
Definition herm_mat (n : nat) (A : crs) : Prop :=
  ncols A = n /\ forall i j, i < n -> j < n -> mget A j i = sadj (mget A i j).
(* R (n' x n) is the dense adjoint of P (n x n') *)
Definition transpH (n n' : nat) (R P : crs) : Prop :=
  ncols R = n /\ ncols P = n' /\ forall i j, i < n' -> j < n -> mget R i j = sadj (mget P j i).

Definition opM (sw : sweep) (n : nat) (f : vec) : vec := fst (sw f (vzero n) (vzero n)).
(* entrywise x_i + y_i *)
Definition vadd (x y : vec) : vec := vlin s1 x s1 y.

Definition sweep_consH (n : nat) (A : crs) (sw : sweep) : Prop :=
  forall f x t, length f = n -> length x = n -> length t = n ->
    fst (sw f x t) = vadd x (opM sw n (residual f A x (vzero n))).
Definition sweep_adjH (n : nat) (pre post : sweep) : Prop :=
  forall f g, length f = n -> length g = n -> ipH n (opM pre n f) g = ipH n f (opM post n g).
Definition solve_symH (n : nat) (sv : vec -> vec -> vec) : Prop :=
  forall f g x y, length f = n -> length g = n -> length x = n -> length y = n ->
    ipH n (sv f x) g = ipH n f (sv g y).

Fixpoint hier_herm (lvls : list level) : Prop :=
  match lvls with
  | [] => True
  | l :: rest =>
    let n := nrows (lA l) in
    sweep_ok n (lpre l) /\ sweep_ok n (lpost l) /\
    wf (lA l) = true /\ herm_mat n (lA l) /\
    sweep_consH n (lA l) (lpost l) /\ sweep_adjH n (lpre l) (lpost l) /\
    match rest with
    | [] => forall sv, Amg.lsolve l = Some sv -> solve_ok n sv /\ solve_symH n sv
    | nxt :: _ => wf (lR l) = true /\ wf (lP l) = true /\
                  nrows (lR l) = nrows (lA nxt) /\ nrows (lP l) = n /\
                  transpH n (nrows (lA nxt)) (lR l) (lP l)
    end /\ hier_herm rest
  end.

Lemma hier_herm_wf lvls : hier_herm lvls -> hier_wf lvls.
Proof.
  induction lvls as [|l rest IH]; intro H; [exact I|].
  cbn [hier_herm] in H. destruct H as (H1 & H2 & _ & _ & _ & _ & Hm & Hr).
  cbn [hier_wf]. split; [exact H1|]. split; [exact H2|]. split; [|apply IH, Hr].
  destruct rest as [|nxt rest']; [intros sv E; apply (Hm sv E)|apply Hm].
Qed.

Lemma nc_vzero_length n : length (@vzero S n) = n.
Proof. apply repeat_length. Qed.
Lemma nc_vclear_vzero (u : vec) : vclear u = vzero (length u).
Proof. induction u as [|c u IH]; [reflexivity|]. unfold vzero in *. simpl. rewrite IH. reflexivity. Qed.

Lemma vadd_get (x y : vec) i : length x = length y -> vget (vadd x y) i = vget x i + vget y i.
Proof.
  unfold vget, vadd, vlin. revert y i; induction x as [|c x IH]; intros [|d y] i H; simpl in *; try congruence.
  - destruct i; ncr.
  - destruct i as [|i]; [ncr|]. apply IH. congruence.
Qed.

(* one post-sweep, seen through the form *)
Lemma post_ipH n (A : crs) (pre post : sweep) (f g x t : vec) :
  wf A = true -> nrows A = n -> herm_mat n A ->
  sweep_ok n pre -> sweep_ok n post -> sweep_consH n A post -> sweep_adjH n pre post ->
  length f = n -> length g = n -> length x = n -> length t = n ->
  ipH n (fst (post f x t)) g =
  ipH n f (opM pre n g) + ipH n x (residual g A (opM pre n g) (vzero n)).
Proof.
  intros WA NA [HcA HsA] Hpre Hpost Hcons Hadj Lf Lg Lx Lt. subst n. set (n := nrows A) in *.
  assert (Lz : length (@vzero S n) = n) by apply nc_vzero_length.
  assert (LMg : length (opM pre n g) = n) by (apply Hpre; assumption).
  assert (Lres : length (residual f A x (vzero n)) = n) by (apply residual_length; assumption).
  assert (LN : length (opM post n (residual f A x (vzero n))) = n) by (apply Hpost; assumption).
  rewrite (Hcons f x t Lf Lx Lt).
  rewrite (ipH_add_l n x (opM post n (residual f A x (vzero n))))
    by (intros i Hi; apply vadd_get; congruence).
  (* <N r, g> = <r, M g>: the adjoint relation, conjugated *)
  assert (EN : ipH n (opM post n (residual f A x (vzero n))) g = ipH n (residual f A x (vzero n)) (opM pre n g)).
  { rewrite <- (ipH_herm n g), <- (Hadj g _ Lg Lres), ipH_herm. reflexivity. }
  rewrite EN.
  (* <f - A x, M g> = <f, M g> - <A x, M g> *)
  rewrite (ipH_sub_l n f (map (fun r => dotrow r x) (rows A)) (residual f A x (vzero n)) (opM pre n g)).
  2:{ intros i Hi. rewrite (nc_residual_spec Hnc) by (auto; congruence).
      rewrite (nc_dotrows_get Hnc) by (auto; congruence). reflexivity. }
  rewrite (ipH_Ax_l n A x (map (fun r => dotrow r x) (rows A)))
    by (intros i Hi; apply (nc_dotrows_get Hnc); auto; congruence).
  (* <x, g - A M g> = <x, g> - <x, A M g> *)
  rewrite (ipH_sub_r n x g (map (fun r => dotrow r (opM pre n g)) (rows A))
             (residual g A (opM pre n g) (vzero n))).
  2:{ intros i Hi. rewrite (nc_residual_spec Hnc) by (auto; congruence).
      rewrite (nc_dotrows_get Hnc) by (auto; congruence). reflexivity. }
  rewrite (ipH_Ax_r n A (opM pre n g) (map (fun r => dotrow r (opM pre n g)) (rows A)))
    by (intros j Hj; apply (nc_dotrows_get Hnc); auto; congruence).
  rewrite (qL_adj A A n n x (opM pre n g) HcA HcA) by (intros i j Hi Hj; apply HsA; assumption).
  ncr.
Qed.

(* --- the V-cycle with one pre- and one post-sweep, unfolded --- *)
Local Notation cycle1 := (cycle 1 1 1).

Lemma nc_cycle111_last_none (l : level) (s : scratch) (srest : list scratch) (f x : vec) :
  Amg.lsolve l = None ->
  fst (cycle1 [l] (s :: srest) f x) =
  fst (lpost l f (fst (lpre l f x (st s))) (snd (lpre l f x (st s)))).
Proof. intro E. rewrite cycle_last, E. reflexivity. Qed.

Lemma nc_cycle111_mid (l nxt : level) (rest : list level) (s sn : scratch) (srest : list scratch) (f x : vec) :
  fst (cycle1 (l :: nxt :: rest) (s :: sn :: srest) f x) =
  let xt1 := lpre l f x (st s) in
  let t2 := residual f (lA l) (fst xt1) (snd xt1) in
  let f' := spmv s1 (lR l) t2 s0 (sf sn) in
  let u0 := vclear (su sn) in
  let u' := fst (cycle1 (nxt :: rest) (mkScratch f' u0 (st sn) :: srest) f' u0) in
  fst (lpost l f (spmv s1 (lP l) u' s1 (fst xt1)) t2).
Proof.
  rewrite cycle_mid_proj. cbv zeta. cbn [iter fst]. rewrite cyc_body_proj. reflexivity.
Qed.

(* canonical (scratch-free) quantities of a level *)
Definition Mv (l : level) (f : vec) : vec := opM (lpre l) (nrows (lA l)) f.
Definition T2 (l : level) (f : vec) : vec := residual f (lA l) (Mv l f) (vzero (nrows (lA l))).
Definition Fc (l : level) (n' : nat) (f : vec) : vec := spmv s1 (lR l) (T2 l f) s0 (vzero n').
Definition Psi (l : level) (f g : vec) : S :=
  ipH (nrows (lA l)) f (Mv l g) + ipH (nrows (lA l)) (Mv l f) (T2 l g).

Lemma Psi_herm (l : level) (f g : vec) : wf (lA l) = true -> herm_mat (nrows (lA l)) (lA l) ->
  sweep_ok (nrows (lA l)) (lpre l) -> length f = nrows (lA l) -> length g = nrows (lA l) ->
  Psi l f g = sadj (Psi l g f).
Proof.
  intros WA [HcA HsA] Hpre Lf Lg. unfold Psi. set (n := nrows (lA l)) in *.
  assert (Lz : length (@vzero S n) = n) by apply nc_vzero_length.
  assert (LM : forall h, length h = n -> length (Mv l h) = n) by (intros; apply Hpre; assumption).
  (* <M f, T2 g> = <M f, g> - <M f, A M g> *)
  assert (E : forall f g : vec, length f = n -> length g = n ->
            ipH n (Mv l f) (T2 l g) = ipH n (Mv l f) g - qR n (Mv l f) (lA l) (Mv l g)).
  { intros f0 g0 L0 L1. unfold T2. fold n.
    rewrite (ipH_sub_r n (Mv l f0) g0 (map (fun r => dotrow r (Mv l g0)) (rows (lA l)))
               (residual g0 (lA l) (Mv l g0) (vzero n))).
    2:{ intros i Hi. rewrite (nc_residual_spec Hnc) by auto.
        rewrite (nc_dotrows_get Hnc) by auto. reflexivity. }
    rewrite (ipH_Ax_r n (lA l) (Mv l g0) (map (fun r => dotrow r (Mv l g0)) (rows (lA l))))
      by (intros i Hi; apply (nc_dotrows_get Hnc); auto).
    reflexivity. }
  rewrite (E f g Lf Lg), (E g f Lg Lf).
  rewrite adj_add, adj_sub, !ipH_herm.
  (* sadj <M g, A M f> = <A M f, M g> = <M f, A M g> *)
  assert (EQ : sadj (qR n (Mv l g) (lA l) (Mv l f)) = qR n (Mv l f) (lA l) (Mv l g)).
  { rewrite <- (qL_adj (lA l) (lA l) n n (Mv l f) (Mv l g) HcA HcA) by (intros i j Hi Hj; apply HsA; assumption).
    unfold qR, qL. rewrite adj_sumn. apply sumn_ext. intros i _. rewrite adj_mul, adj_inv. reflexivity. }
  rewrite EQ. ncr.
Qed.

Theorem cycle_herm lvls : hier_herm lvls -> forall scr1 scr2 f g,
  scratch_wf lvls scr1 -> scratch_wf lvls scr2 ->
  length f = top_n lvls -> length g = top_n lvls ->
  ipH (top_n lvls) (fst (cycle1 lvls scr1 f (vzero (top_n lvls)))) g =
  ipH (top_n lvls) f (fst (cycle1 lvls scr2 g (vzero (top_n lvls)))).
Proof.
  induction lvls as [|l rest IH]; intros Hh scr1 scr2 f g H1 H2 Lf Lg; [reflexivity|].
  pose proof (hier_herm_wf _ Hh) as Hwf.
  cbn [hier_herm] in Hh. destruct Hh as (Hpre & Hpost & WA & HsA & Hcons & Hadj & Hmid & Hrest).
  cbn [top_n] in *. set (n := nrows (lA l)) in *.
  assert (Lz : length (@vzero S n) = n) by apply nc_vzero_length.
  destruct scr1 as [|s1' sr1]; [destruct H1|]. destruct scr2 as [|s2' sr2]; [destruct H2|].
  cbn [scratch_wf] in H1, H2. destruct H1 as [(_ & _ & Lt1) Hr1]. destruct H2 as [(_ & _ & Lt2) Hr2].
  assert (Epre : forall h t, length h = n -> length t = n -> fst (lpre l h (vzero n) t) = Mv l h).
  { intros h t Lh Lt. unfold Mv, opM. fold n.
    destruct (Hpre h (vzero n) (vzero n) Lh Lz Lz) as (_ & _ & Hob). apply Hob, Lt. }
  assert (Lpre : forall h t, length h = n -> length t = n -> length (snd (lpre l h (vzero n) t)) = n)
    by (intros h t Lh Lt; apply Hpre; assumption).
  assert (LM : forall h, length h = n -> length (Mv l h) = n) by (intros; apply Hpre; assumption).
  destruct rest as [|nxt rest'].
  - (* coarsest level *)
    destruct (Amg.lsolve l) as [sv|] eqn:El.
    + rewrite !cycle_last, El. cbn [fst]. apply (Hmid sv eq_refl); assumption.
    + assert (G : forall (h k : vec) (s : scratch) sr, length h = n -> length k = n -> length (st s) = n ->
                ipH n (fst (cycle1 [l] (s :: sr) h (vzero n))) k = Psi l h k).
      { intros h k s sr Lh Lk Ls. rewrite (nc_cycle111_last_none l s sr h (vzero n) El).
        rewrite (post_ipH n (lA l) (lpre l) (lpost l) h k) ; auto.
        - rewrite Epre by assumption. reflexivity.
        - rewrite Epre by assumption. apply LM, Lh. }
      rewrite (G f g s1' sr1 Lf Lg Lt1).
      rewrite <- (ipH_herm n _ f), (G g f s2' sr2 Lg Lf Lt2).
      apply Psi_herm; assumption.
  - (* level with a coarser one below *)
    destruct Hmid as (WR & WP & NR & NP & (HcR & HcP & Htr)).
    set (n' := nrows (lA nxt)) in *.
    assert (Lz' : length (@vzero S n') = n') by apply nc_vzero_length.
    assert (LFc : forall h, length (Fc l n' h) = n')
      by (intro h; unfold Fc; rewrite spmv_length_any; exact Lz').
    assert (G : forall (h k : vec) (s sn : scratch) sr, length h = n -> length k = n ->
              length (st s) = n -> scratch_wf (nxt :: rest') (sn :: sr) ->
              exists scr', scratch_wf (nxt :: rest') scr' /\
              ipH n (fst (cycle1 (l :: nxt :: rest') (s :: sn :: sr) h (vzero n))) k =
              Psi l h k + ipH n' (fst (cycle1 (nxt :: rest') scr' (Fc l n' h) (vzero n'))) (Fc l n' k)).
    { intros h k s sn sr Lh Lk Ls Hsn. cbn [scratch_wf] in Hsn. destruct Hsn as [(Lsf & Lsu & Lst) Hsr].
      fold n' in Lsf, Lsu, Lst.
      rewrite nc_cycle111_mid. cbv zeta. rewrite (Epre h (st s) Lh Ls).
      assert (Et2 : residual h (lA l) (Mv l h) (snd (lpre l h (vzero n) (st s))) = T2 l h).
      { unfold T2. fold n. apply residual_ignores_res; auto. }
      rewrite Et2.
      assert (Ef' : spmv s1 (lR l) (T2 l h) s0 (sf sn) = Fc l n' h).
      { unfold Fc. apply spmv_beta0_ignores_y; [apply nc_zero_is_zero| |]; congruence. }
      rewrite Ef'. rewrite (nc_vclear_vzero (su sn)), Lsu.
      set (scr' := mkScratch (Fc l n' h) (vzero n') (st sn) :: sr).
      assert (Hscr' : scratch_wf (nxt :: rest') scr').
      { unfold scr'. cbn [scratch_wf]. split; [|exact Hsr]. unfold scr_ok; cbn [sf su st]. fold n'. auto. }
      exists scr'. split; [exact Hscr'|].
      set (u' := fst (cycle1 (nxt :: rest') scr' (Fc l n' h) (vzero n'))).
      assert (Lu' : length u' = n').
      { destruct Hwf as (_ & _ & _ & Hwf').
        apply (cycle_history_indep nc_zero_is_zero 1 1 1 (nxt :: rest') Hwf' scr' scr'); auto. }
      assert (LT2 : forall h0, length h0 = n -> length (T2 l h0) = n)
        by (intros h0 L0; unfold T2; apply residual_length; auto).
      rewrite (post_ipH n (lA l) (lpre l) (lpost l) h k); auto.
      2:{ rewrite spmv_length_any. apply LM, Lh. }
      change (residual k (lA l) (opM (lpre l) n k) (vzero n)) with (T2 l k).
      change (opM (lpre l) n k) with (Mv l k).
      unfold Psi. fold n. rewrite <- (nc_add_assoc S Hnc). f_equal.
      (* <x2, T2 k> with x2 = P u' + M h *)
      rewrite (ipH_add_l n (map (fun r => dotrow r u') (rows (lP l))) (Mv l h)).
      2:{ intros i Hi. rewrite (nc_spmv_spec Hnc Seqb) by (auto; rewrite ?LM; congruence).
          rewrite (nc_dotrows_get Hnc) by (auto; congruence). ncr. }
      rewrite (ipH_Ax_l n (lP l) u' (map (fun r => dotrow r u') (rows (lP l))))
        by (intros i Hi; apply (nc_dotrows_get Hnc); auto; congruence).
      rewrite (qL_adj (lP l) (lR l) n n' u' (T2 l k) HcP HcR)
        by (intros i j Hi Hj; apply Htr; assumption).
      rewrite <- (ipH_Ax_r n' (lR l) (T2 l k) (Fc l n' k) u').
      2:{ intros i Hi. unfold Fc. rewrite (nc_spmv_spec Hnc Seqb) by (auto; congruence). ncr. }
      ncr. }
    destruct (G f g s1' (hd d_scr sr1) (tl sr1) Lf Lg Lt1) as (scrA & HA & EA).
    { rewrite <- (proj1 (scratch_wf_cons nxt rest' sr1 Hr1)). exact Hr1. }
    destruct (G g f s2' (hd d_scr sr2) (tl sr2) Lg Lf Lt2) as (scrB & HB & EB).
    { rewrite <- (proj1 (scratch_wf_cons nxt rest' sr2 Hr2)). exact Hr2. }
    rewrite (proj1 (scratch_wf_cons nxt rest' sr1 Hr1)), EA.
    rewrite <- (ipH_herm n _ f), (proj1 (scratch_wf_cons nxt rest' sr2 Hr2)), EB.
    rewrite adj_add, ipH_herm.
    rewrite <- (Psi_herm l f g WA HsA Hpre Lf Lg). f_equal.
    specialize (IH Hrest scrA scrB (Fc l n' f) (Fc l n' g) HA HB (LFc f) (LFc g)).
    cbn [top_n] in IH. fold n' in IH. exact IH.
Qed.

(* apply with pre_cycles = 1 *)
Theorem apply_herm lvls : hier_herm lvls -> lvls <> [] -> forall scr1 scr2 f g x1 x2,
  scratch_wf lvls scr1 -> scratch_wf lvls scr2 ->
  length f = top_n lvls -> length g = top_n lvls ->
  length x1 = top_n lvls -> length x2 = top_n lvls ->
  ipH (top_n lvls) (fst (apply 1 1 1 1 lvls scr1 f x1)) g =
  ipH (top_n lvls) f (fst (apply 1 1 1 1 lvls scr2 g x2)).
Proof.
  intros Hh Hne scr1 scr2 f g x1 x2 H1 H2 Lf Lg L1 L2.
  unfold apply. cbn [iter fst snd]. rewrite !nc_vclear_vzero, L1, L2.
  apply cycle_herm; assumption.
Qed.

(* ------------------------------------------------------------------ *)
(* instances: damped Jacobi and SPAI-0 (x += w * d_i * (f - A x)_i) are consistent, and self-adjoint as soon as the
   scaled inverted diagonal entries w * d_i are hermitian *)
Lemma nc_vget_vzero n i : vget (@vzero S n) i = s0.
Proof. unfold vget, vzero. revert i; induction n as [|n IH]; intros [|i]; simpl; auto. Qed.

Lemma nc_Ax_zero (A : crs) n i : Ax A (vzero n) i = s0.
Proof.
  unfold Ax. rewrite (sumn_ext _ (fun _ => s0)); [apply (ncsumn_zero Hnc)|].
  intros j _. rewrite nc_vget_vzero. ncr.
Qed.

Lemma vadd_intro (v1 v2 v3 : vec) n : length v1 = n -> length v2 = n -> length v3 = n ->
  (forall i, i < n -> vget v3 i = vget v1 i + vget v2 i) -> v3 = vadd v1 v2.
Proof.
  intros L1 L2 L3 H. apply vec_ext.
  - unfold vadd. rewrite (vlin_length s1 v1 s1 v2 n L1 L2). exact L3.
  - intros i Hi. rewrite vadd_get by congruence. apply H. congruence.
Qed.

Section Diag.
Variables (w : S) (d : vec) (A : crs).
Hypothesis WA : wf A = true.
Hypothesis Ld : length d = nrows A.
Let sw : sweep := fun rhs x t => let t' := residual rhs A x t in (vmul w d t' s1 x, t').

Lemma diag_opM_getH (y : vec) i : length y = nrows A -> i < nrows A ->
  vget (opM sw (nrows A) y) i = w * vget d i * vget y i.
Proof.
  intros Ly Hi. unfold opM, sw. cbn [fst].
  assert (Lz : length (@vzero S (nrows A)) = nrows A) by apply nc_vzero_length.
  rewrite (nc_vmul_spec Hnc Seqb) by (rewrite ?residual_length; congruence).
  rewrite (nc_residual_spec Hnc) by auto. rewrite nc_Ax_zero, nc_vget_vzero. ncr.
Qed.

Lemma diag_opM_lengthH (y : vec) : length y = nrows A -> length (opM sw (nrows A) y) = nrows A.
Proof.
  intro Ly. unfold opM, sw. cbn [fst].
  assert (Lz : length (@vzero S (nrows A)) = nrows A) by apply nc_vzero_length.
  rewrite vmul_length; rewrite ?residual_length; congruence.
Qed.

Lemma diag_sweep_consH : sweep_consH (nrows A) A sw.
Proof.
  intros f x t Lf Lx Lt.
  assert (Lz : length (@vzero S (nrows A)) = nrows A) by apply nc_vzero_length.
  assert (Lr : forall t0, length t0 = nrows A -> length (residual f A x t0) = nrows A)
    by (intros; apply residual_length; assumption).
  apply (vadd_intro _ _ _ (nrows A)).
  - exact Lx.
  - apply diag_opM_lengthH, Lr, Lz.
  - unfold sw. cbn [fst]. rewrite vmul_length; rewrite ?Lr; congruence.
  - intros i Hi. rewrite diag_opM_getH by (auto using Lr). unfold sw. cbn [fst].
    rewrite (nc_vmul_spec Hnc Seqb) by (rewrite ?Lr; congruence).
    rewrite !(nc_residual_spec Hnc) by auto. ncr.
Qed.

Lemma diag_sweep_adjH : (forall i, i < nrows A -> sadj (w * vget d i) = w * vget d i) ->
  sweep_adjH (nrows A) sw sw.
Proof.
  intros Hd f g Lf Lg. unfold ipH. apply sumn_ext. intros i Hi.
  rewrite !diag_opM_getH by assumption. rewrite adj_mul, (Hd i Hi). ncr.
Qed.
End Diag.

(* which smoothers of mk_relax5 are covered here, and the side condition on a level matrix *)
Definition diag_good (k : @relax5 S) (A : crs) : Prop :=
  match k with
  | R5Std (RJacobi w) => forall i, i < nrows A ->
      sadj (w * vget (jacobi_setup A (vzero (nrows A))) i) = w * vget (jacobi_setup A (vzero (nrows A))) i
  | R5Std RSpai0 => forall i, i < nrows A ->
      sadj (s1 * vget (spai0_setup A) i) = s1 * vget (spai0_setup A) i
  | _ => False
  end.

Theorem mk_relax5_diag_herm (k : @relax5 S) (A : crs) : wf A = true -> diag_good k A ->
  sweep_consH (nrows A) A (snd (mk_relax5 k A)) /\
  sweep_adjH (nrows A) (fst (mk_relax5 k A)) (snd (mk_relax5 k A)).
Proof.
  intros WA Hg. destruct k as [[w| |]|w|degree lower higher scale]; cbn [diag_good] in Hg; try destruct Hg;
    cbn [mk_relax5 mk_relax_std fst snd].
  - split.
    + apply (diag_sweep_consH w (jacobi_setup A (vzero (nrows A))) A WA). apply diagonal_length.
    + apply (diag_sweep_adjH w (jacobi_setup A (vzero (nrows A))) A WA); [apply diagonal_length|exact Hg].
  - assert (Ld : length (spai0_setup A) = nrows A)
      by (unfold spai0_setup; rewrite map_length; apply indexed_len).
    split.
    + apply (diag_sweep_consH s1 (spai0_setup A) A WA Ld).
    + apply (diag_sweep_adjH s1 (spai0_setup A) A WA Ld). exact Hg.
Qed.

Lemma adj_1 : sadj (@s1 S) = s1.
Proof.
  transitivity (sadj (sadj (@s1 S) * s1)).
  - rewrite adj_mul, adj_inv. ncr.
  - replace (sadj (@s1 S) * s1) with (sadj (@s1 S)) by ncr. apply adj_inv.
Qed.

(* the inverse of a hermitian element with a two-sided inverse is hermitian *)
Lemma herm_inverse (dd : S) : sadj dd = dd -> dd * sinv dd = s1 -> sinv dd * dd = s1 ->
  sadj (sinv dd) = sinv dd.
Proof.
  intros Hh Hr Hl. pose proof adj_1 as H1.
  assert (E : sadj (sinv dd) * dd = s1).
  { replace (sadj (sinv dd) * dd) with (sadj (sinv dd) * sadj dd) by (rewrite Hh; reflexivity).
    rewrite <- adj_mul, Hr. exact H1. }
  (* a left inverse equals the two-sided inverse *)
  transitivity (sadj (sinv dd) * (dd * sinv dd)); [rewrite Hr; ncr|].
  rewrite (nc_mul_assoc S Hnc), E. ncr.
Qed.

(* damped Jacobi: the side condition follows from properties of the diagonal entries (blocks) alone: every (first)
   diagonal entry hermitian and, unless zero, invertible on both sides; damping central and hermitian (an embedded real
   base scalar) *)
Theorem jacobi_diag_good (w : S) (A : crs) :
  sadj w = w -> (forall x : S, w * x = x * w) ->
  (forall i dd, i < nrows A -> first_col (nth i (rows A) []) i = Some dd ->
     sadj dd = dd /\ (is_zero dd = false -> dd * sinv dd = s1 /\ sinv dd * dd = s1)) ->
  diag_good (R5Std (RJacobi w)) A.
Proof.
  intros Hw Hc Hd. cbn [diag_good]. intros i Hi. unfold jacobi_setup.
  rewrite diagonal_spec by exact Hi.
  destruct (first_col (nth i (rows A) []) i) as [dd|] eqn:E.
  - destruct (Hd i dd Hi E) as [Hh Hinv]. unfold diag_val. destruct (is_zero dd) eqn:Z.
    + rewrite adj_mul, adj_1, Hw. ncr.
    + destruct (Hinv eq_refl) as [Hr Hl].
      rewrite adj_mul, (herm_inverse dd Hh Hr Hl), Hw. symmetry. apply Hc.
  - rewrite nc_vget_vzero. replace (w * s0) with (@s0 S) by ncr. apply adj_0.
Qed.

(* ------------------------------------------------------------------ *)
(* the Galerkin operator of a hermitian matrix with R = adjoint P is hermitian *)
Lemma galerkin_herm (A P R : crs) n n' : wf A = true -> wf R = true ->
  herm_mat n A -> transpH n n' R P ->
  forall i j, i < n' -> j < n' -> mget (galerkin A P R) j i = sadj (mget (galerkin A P R) i j).
Proof.
  intros WA WR [HcA HsA] (HcR & HcP & Htr) i j Hi Hj.
  rewrite !(nc_galerkin_dense Hnc) by assumption. rewrite HcA, HcR.
  rewrite adj_sumn.
  rewrite (sumn_ext (fun k => mget R j k * _) (fun k => sumn (fun l => mget R j k * (mget A k l * mget P l i)) n))
    by (intros; symmetry; apply (ncsumn_scal_l Hnc)).
  rewrite (ncsumn_swap Hnc).
  apply sumn_ext. intros a Ha.
  rewrite adj_mul, adj_sumn, <- (ncsumn_scal_r Hnc).
  apply sumn_ext. intros c Hc.
  rewrite adj_mul.
  rewrite (Htr j c Hj Hc), (HsA a c Ha Hc), (Htr i a Hi Ha), adj_inv. ncr.
Qed.

Definition cop_herm (cop : crs -> crs -> crs -> crs) : Prop :=
  forall A P R n n', wf A = true -> wf R = true -> herm_mat n A -> transpH n n' R P ->
    herm_mat n' (cop A P R).

Lemma galerkin_cop_herm : cop_herm (@galerkin S).
Proof.
  intros A P R n n' WA WR HA HT. split; [rewrite galerkin_ncols; apply HT|].
  apply (galerkin_herm A P R n n'); assumption.
Qed.

(* re-scaled Galerkin operator: the factor must be central and hermitian (an embedded real base scalar) *)
Lemma scaled_galerkin_cop_herm s : sadj s = s -> (forall x : S, s * x = x * s) -> cop_herm (@scaled_galerkin S s).
Proof.
  intros Hs Hc A P R n n' WA WR HA HT. split.
  - unfold scaled_galerkin, mscale. cbn [ncols]. rewrite galerkin_ncols. apply HT.
  - intros i j Hi Hj. unfold scaled_galerkin. rewrite !(nc_mscale_dense Hnc).
    rewrite (galerkin_herm A P R n n' WA WR HA HT i j Hi Hj), adj_mul, Hs. symmetry. apply Hc.
Qed.

Lemma sort_rows_herm n (A : crs) : herm_mat n A -> herm_mat n (sort_rows A).
Proof. intros [Hc Hs]. split; [exact Hc|]. intros i j Hi Hj. rewrite !(nc_sort_rows_dense Hnc). auto. Qed.

Lemma sort_rows_transpH n n' (R P : crs) : transpH n n' R P -> transpH n n' (sort_rows R) (sort_rows P).
Proof.
  intros (H1 & H2 & H3). split; [exact H1|]. split; [exact H2|].
  intros i j Hi Hj. rewrite !(nc_sort_rows_dense Hnc). auto.
Qed.

Section Inst.
Variable mk_relax : crs -> sweep * sweep.
Variable mk_solve : crs -> vec -> vec -> vec.
Hypothesis relax_ok : forall A, sweep_ok (nrows A) (fst (mk_relax A)) /\ sweep_ok (nrows A) (snd (mk_relax A)).
(* side condition on the level matrices under which the smoother is consistent / adjoint *)
Variable good : crs -> Prop.
Hypothesis relax_herm : forall A, wf A = true -> herm_mat (nrows A) A -> good A ->
  sweep_consH (nrows A) A (snd (mk_relax A)) /\ sweep_adjH (nrows A) (fst (mk_relax A)) (snd (mk_relax A)).
Hypothesis solve_ok_all : forall A, solve_ok (nrows A) (mk_solve A).
Local Notation inst := (instantiate mk_relax mk_solve).
Local Notation ldesc := (@ldesc S).

Lemma id_sweep_consH n (A : crs) : sweep_consH n A (fun (_ x t : vec) => (x, t)).
Proof.
  intros f x t Lf Lx Lt. cbn [fst]. unfold opM. cbn [fst].
  apply (vadd_intro _ _ _ n); auto using nc_vzero_length.
  intros i Hi. rewrite nc_vget_vzero. ncr.
Qed.

Lemma id_sweep_adjH n : sweep_adjH n (fun (_ x t : vec) => (x, t)) (fun (_ x t : vec) => (x, t)).
Proof.
  intros f g Lf Lg. unfold opM, ipH. cbn [fst]. apply sumn_ext. intros i Hi.
  rewrite !nc_vget_vzero, adj_0. ncr.
Qed.

Lemma inst_herm_common (l : ldesc) :
  wf (ld_A l) = true -> herm_mat (nrows (ld_A l)) (ld_A l) -> good (ld_A l) ->
  sweep_consH (nrows (ld_A l)) (ld_A l) (lpost (inst l)) /\
  sweep_adjH (nrows (ld_A l)) (lpre (inst l)) (lpost (inst l)).
Proof.
  destruct l as [A P R|A|A]; cbn [instantiate lpre lpost ld_A]; try apply relax_herm.
  intros _ _ _. split; [apply id_sweep_consH|apply id_sweep_adjH].
Qed.

Lemma hier_herm_mid (l nxt : level) (rest : list level) :
  sweep_ok (nrows (lA l)) (lpre l) -> sweep_ok (nrows (lA l)) (lpost l) ->
  wf (lA l) = true -> herm_mat (nrows (lA l)) (lA l) ->
  sweep_consH (nrows (lA l)) (lA l) (lpost l) -> sweep_adjH (nrows (lA l)) (lpre l) (lpost l) ->
  wf (lR l) = true -> wf (lP l) = true ->
  nrows (lR l) = nrows (lA nxt) -> nrows (lP l) = nrows (lA l) ->
  transpH (nrows (lA l)) (nrows (lA nxt)) (lR l) (lP l) ->
  hier_herm (nxt :: rest) -> hier_herm (l :: nxt :: rest).
Proof.
  intros H1 H2 H3 H4 H5 H6 H7 H8 H9 H10 H11 H12.
  change (sweep_ok (nrows (lA l)) (lpre l) /\ sweep_ok (nrows (lA l)) (lpost l) /\
    wf (lA l) = true /\ herm_mat (nrows (lA l)) (lA l) /\
    sweep_consH (nrows (lA l)) (lA l) (lpost l) /\ sweep_adjH (nrows (lA l)) (lpre l) (lpost l) /\
    (wf (lR l) = true /\ wf (lP l) = true /\
     nrows (lR l) = nrows (lA nxt) /\ nrows (lP l) = nrows (lA l) /\
     transpH (nrows (lA l)) (nrows (lA nxt)) (lR l) (lP l)) /\ hier_herm (nxt :: rest)).
  tauto.
Qed.

(* transfer-operator lists with R = adjoint P that fit a fine matrix with n rows *)
Fixpoint ts_herm (n : nat) (ts : list (option (crs * crs))) : Prop :=
  match ts with
  | Some (P, R) :: ts' => wf P = true /\ wf R = true /\ nrows P = n /\
                          transpH n (nrows R) R P /\ ts_herm (nrows R) ts'
  | _ => True
  end.

Theorem build_hier_herm ce dc ml cop : coarse_shape cop -> cop_wf cop -> cop_herm cop ->
  forall ts A nlev, wf A = true -> herm_mat (nrows A) A -> ts_herm (nrows A) ts ->
  (forall A', In (LSolve A') (build ce dc ml cop ts A nlev) -> solve_symH (nrows A') (mk_solve A')) ->
  (forall l, In l (build ce dc ml cop ts A nlev) -> good (ld_A l)) ->
  hier_herm (map inst (build ce dc ml cop ts A nlev)).
Proof.
  intros Hshape Hcw Hcs ts. induction ts as [|t ts' IH]; intros A nlev WA SA Hts Hsol Hgood.
  - rewrite build_unfold in *.
    assert (G : forall l, ld_A l = A -> is_mid l = false ->
                (forall A', In (LSolve A') [l] -> solve_symH (nrows A') (mk_solve A')) ->
                (forall l', In l' [l] -> good (ld_A l')) ->
                hier_herm (map inst [l])).
    { intros l EA Hm Hs Hg. cbn [map hier_herm]. rewrite (inst_lA mk_relax mk_solve), EA.
      pose proof (inst_sweeps_ok mk_relax mk_solve relax_ok l) as Hok. rewrite EA in Hok.
      pose proof (inst_herm_common l) as Hsy. rewrite EA in Hsy.
      assert (Hgl : good A) by (rewrite <- EA; apply Hg; left; reflexivity).
      destruct (Hsy WA SA Hgl) as (Hs2 & Hs3). destruct Hok as [Ho1 Ho2].
      split; [exact Ho1|]. split; [exact Ho2|]. split; [exact WA|]. split; [exact SA|].
      split; [exact Hs2|]. split; [exact Hs3|]. split; [|exact I].
      intros sv H. destruct l as [A0 P0 R0|A0|A0]; cbn in H; try discriminate.
      simpl in EA. subst A0. inversion H. split; [apply solve_ok_all|apply Hs; left; reflexivity]. }
    destruct (Nat.leb (nrows A) ce); [destruct dc; apply G; auto|].
    destruct (Nat.leb ml (Datatypes.S nlev)); apply G; auto.
  - rewrite build_unfold in *.
    assert (G : forall l, ld_A l = A -> is_mid l = false ->
                (forall A', In (LSolve A') [l] -> solve_symH (nrows A') (mk_solve A')) ->
                (forall l', In l' [l] -> good (ld_A l')) ->
                hier_herm (map inst [l])).
    { intros l EA Hm Hs Hg. cbn [map hier_herm]. rewrite (inst_lA mk_relax mk_solve), EA.
      pose proof (inst_sweeps_ok mk_relax mk_solve relax_ok l) as Hok. rewrite EA in Hok.
      pose proof (inst_herm_common l) as Hsy. rewrite EA in Hsy.
      assert (Hgl : good A) by (rewrite <- EA; apply Hg; left; reflexivity).
      destruct (Hsy WA SA Hgl) as (Hs2 & Hs3). destruct Hok as [Ho1 Ho2].
      split; [exact Ho1|]. split; [exact Ho2|]. split; [exact WA|]. split; [exact SA|].
      split; [exact Hs2|]. split; [exact Hs3|]. split; [|exact I].
      intros sv H. destruct l as [A0 P0 R0|A0|A0]; cbn in H; try discriminate.
      simpl in EA. subst A0. inversion H. split; [apply solve_ok_all|apply Hs; left; reflexivity]. }
    destruct (Nat.leb (nrows A) ce); [destruct dc; apply G; auto|].
    destruct (Nat.leb ml (Datatypes.S nlev)); [apply G; auto|].
    destruct t as [[P R]|]; [|apply G; auto].
    simpl in Hts. destruct Hts as (WP & WR & NP & HT & Hts').
    set (P' := sort_rows P) in *. set (R' := sort_rows R) in *.
    set (A2 := sort_rows (cop A P' R')) in *.
    assert (WP' : wf P' = true) by apply sort_rows_wf, WP.
    assert (WR' : wf R' = true) by apply sort_rows_wf, WR.
    assert (NR' : nrows R' = nrows R) by apply sort_rows_nrows.
    assert (HT' : transpH (nrows A) (nrows R) R' P') by apply sort_rows_transpH, HT.
    assert (N2 : nrows A2 = nrows R) by (unfold A2; rewrite sort_rows_nrows, Hshape; exact NR').
    assert (W2 : wf A2 = true) by (apply sort_rows_wf, Hcw, WP').
    assert (S2 : herm_mat (nrows A2) A2).
    { rewrite N2. apply sort_rows_herm. apply (Hcs A P' R' (nrows A) (nrows R)); assumption. }
    specialize (IH A2 (Datatypes.S nlev) W2 S2).
    rewrite N2 in IH. specialize (IH Hts').
    assert (Hsol' : forall A', In (LSolve A') (build ce dc ml cop ts' A2 (Datatypes.S nlev)) ->
                     solve_symH (nrows A') (mk_solve A'))
      by (intros A' HA'; apply Hsol; right; exact HA').
    assert (Hgood' : forall l', In l' (build ce dc ml cop ts' A2 (Datatypes.S nlev)) -> good (ld_A l'))
      by (intros l' Hl'; apply Hgood; right; exact Hl').
    specialize (IH Hsol' Hgood').
    assert (HgA : good A) by (apply (Hgood (LMid A P' R')); left; reflexivity).
    pose proof (build_head ce dc ml cop ts' A2 (Datatypes.S nlev)) as Hhd.
    destruct (build ce dc ml cop ts' A2 (Datatypes.S nlev)) as [|nxt tl]; [destruct Hhd|].
    simpl in Hhd.
    cbn [map] in *.
    destruct (relax_ok A) as [Ho1 Ho2]. destruct (relax_herm A WA SA HgA) as (Hc1 & Hc2).
    apply hier_herm_mid; cbn [instantiate lA lR lP lpre lpost];
      rewrite ?(inst_lA mk_relax mk_solve), ?Hhd, ?N2; try assumption.
    unfold P'. rewrite sort_rows_nrows. exact NP.
Qed.

End Inst.

(* boolean forms of the hypotheses (for closed instances: decided by computation) *)
Definition herm_matb (n : nat) (A : crs) : bool :=
  Nat.eqb (ncols A) n &&
  forallb (fun i => forallb (fun j => seqb (mget A j i) (sadj (mget A i j))) (seq 0 n)) (seq 0 n).
Lemma herm_matb_ok n A : herm_matb n A = true -> herm_mat n A.
Proof.
  unfold herm_matb. intro H. apply andb_prop in H as [H1 H2]. apply Nat.eqb_eq in H1. split; [exact H1|].
  intros i j Hi Hj. rewrite forallb_forall in H2.
  assert (Hi' : In i (seq 0 n)) by (apply in_seq; lia). specialize (H2 i Hi').
  rewrite forallb_forall in H2.
  assert (Hj' : In j (seq 0 n)) by (apply in_seq; lia). specialize (H2 j Hj').
  apply Seqb. exact H2.
Qed.
Definition transpHb (n n' : nat) (R P : crs) : bool :=
  Nat.eqb (ncols R) n && Nat.eqb (ncols P) n' &&
  forallb (fun i => forallb (fun j => seqb (mget R i j) (sadj (mget P j i))) (seq 0 n)) (seq 0 n').
Lemma transpHb_ok n n' R P : transpHb n n' R P = true -> transpH n n' R P.
Proof.
  unfold transpHb. intro H. apply andb_prop in H as [H H3]. apply andb_prop in H as [H1 H2].
  apply Nat.eqb_eq in H1. apply Nat.eqb_eq in H2. split; [exact H1|]. split; [exact H2|].
  intros i j Hi Hj. rewrite forallb_forall in H3.
  assert (Hi' : In i (seq 0 n')) by (apply in_seq; lia). specialize (H3 i Hi').
  rewrite forallb_forall in H3.
  assert (Hj' : In j (seq 0 n)) by (apply in_seq; lia). specialize (H3 j Hj').
  apply Seqb. exact H3.
Qed.
Fixpoint ts_hermb (n : nat) (ts : list (option (crs * crs))) : bool :=
  match ts with
  | Some (P, R) :: ts' => wf P && wf R && Nat.eqb (nrows P) n && transpHb n (nrows R) R P && ts_hermb (nrows R) ts'
  | _ => true
  end.
Lemma ts_hermb_ok ts : forall n, ts_hermb n ts = true -> ts_herm n ts.
Proof.
  induction ts as [|[[P R]|] ts' IH]; intros n H; simpl in *; auto.
  apply andb_prop in H as [H H5]. apply andb_prop in H as [H H4]. apply andb_prop in H as [H H3].
  apply andb_prop in H as [H1 H2]. apply Nat.eqb_eq in H3.
  split; [exact H1|]. split; [exact H2|]. split; [exact H3|]. split; [apply transpHb_ok, H4|apply IH, H5].
Qed.
Definition diag_goodb (k : @relax5 S) (A : crs) : bool :=
  match k with
  | R5Std (RJacobi w) => forallb (fun i =>
      seqb (sadj (w * vget (jacobi_setup A (vzero (nrows A))) i)) (w * vget (jacobi_setup A (vzero (nrows A))) i))
      (seq 0 (nrows A))
  | R5Std RSpai0 => forallb (fun i =>
      seqb (sadj (s1 * vget (spai0_setup A) i)) (s1 * vget (spai0_setup A) i)) (seq 0 (nrows A))
  | _ => false
  end.
Lemma diag_goodb_ok k A : diag_goodb k A = true -> diag_good k A.
Proof.
  destruct k as [[w| |]|w|degree lower higher scale]; cbn [diag_goodb diag_good]; try discriminate;
    intros H i Hi; rewrite forallb_forall in H;
    (assert (Hi' : In i (seq 0 (nrows A))) by (apply in_seq; lia)); apply Seqb, (H i Hi').
Qed.
Lemma levels_goodb_ok k (ls : list (@ldesc S)) :
  forallb (fun l => diag_goodb k (ld_A l)) ls = true -> forall l, In l ls -> diag_good k (ld_A l).
Proof. intros H l Hl. rewrite forallb_forall in H. apply diag_goodb_ok, (H l Hl). Qed.

(* re-scaling factors that keep the coarse operator hermitian *)
Definition scale_herm (sc : option S) : Prop :=
  match sc with Some s => sadj s = s /\ forall x : S, s * x = x * s | None => True end.

Lemma coarse_op_of_herm (sc : option S) : scale_herm sc -> cop_herm (coarse_op_of sc).
Proof.
  destruct sc as [s|]; intro H; [destruct H; apply scaled_galerkin_cop_herm; assumption|apply galerkin_cop_herm].
Qed.

(* hierarchies built by amg_init with damped Jacobi or SPAI-0 on every smoothing level *)
Theorem built_apply_herm (mk_solve : crs -> vec -> vec -> vec) (Hsok : forall A, solve_ok (nrows A) (mk_solve A))
  (k : @relax5 S) ce dc ml sc ts (M : crs) : scale_herm sc ->
  wf M = true -> herm_mat (nrows M) M -> ts_herm (nrows M) ts ->
  (forall A, In (LSolve A) (amg_init ce dc ml (coarse_op_of sc) ts M) -> solve_symH (nrows A) (mk_solve A)) ->
  (forall l, In l (amg_init ce dc ml (coarse_op_of sc) ts M) -> diag_good k (ld_A l)) ->
  let lvls := map (instantiate (mk_relax5 k) mk_solve) (amg_init ce dc ml (coarse_op_of sc) ts M) in
  forall scr1 scr2 f g x1 x2,
  scratch_wf lvls scr1 -> scratch_wf lvls scr2 ->
  length f = nrows M -> length g = nrows M -> length x1 = nrows M -> length x2 = nrows M ->
  ipH (nrows M) (fst (apply 1 1 1 1 lvls scr1 f x1)) g = ipH (nrows M) f (fst (apply 1 1 1 1 lvls scr2 g x2)).
Proof.
  intros Hsc WM SM Hts Hsol Hgood lvls scr1 scr2 f g x1 x2 H1 H2 Lf Lg L1 L2.
  assert (Hh : hier_herm lvls).
  { unfold lvls, amg_init.
    apply (build_hier_herm (mk_relax5 k) mk_solve (mk_relax5_ok k) (diag_good k)
             (fun A WA _ Hg => mk_relax5_diag_herm k A WA Hg) Hsok ce dc ml (coarse_op_of sc)
             (coarse_op_of_shape sc)); [| | | | |exact Hsol|exact Hgood].
    - destruct sc as [s|]; [apply (scaled_galerkin_cop_wf s)|apply galerkin_cop_wf].
    - apply coarse_op_of_herm, Hsc.
    - apply sort_rows_wf, WM.
    - rewrite sort_rows_nrows. apply sort_rows_herm, SM.
    - rewrite sort_rows_nrows. exact Hts. }
  destruct (amg_init_chain ce dc ml (coarse_op_of sc) ts M) as [Hc Hhd].
  assert (Hne : lvls <> []) by (apply (chain_nonempty _ _ (coarse_op_of sc) _ Hc)).
  assert (En : top_n lvls = nrows M).
  { unfold lvls. rewrite (top_n_inst _ _ _ _ Hhd). apply sort_rows_nrows. }
  rewrite <- En. apply (apply_herm lvls Hh Hne); congruence.
Qed.

End SymNc.

(* with direct_coarse = false there is no direct solver in the hierarchy *)
Lemma nc_build_no_solve {S : Scalar} ce ml cop ts : forall (A : crs S) nlev A',
  ~ In (LSolve A') (build ce false ml cop ts A nlev).
Proof.
  induction ts as [|t ts' IH]; intros A nlev A'; rewrite build_unfold.
  - destruct (Nat.leb (nrows A) ce); [simpl; intros [H|[]]; discriminate|].
    destruct (Nat.leb ml (Datatypes.S nlev)); simpl; intros [H|[]]; discriminate.
  - destruct (Nat.leb (nrows A) ce); [simpl; intros [H|[]]; discriminate|].
    destruct (Nat.leb ml (Datatypes.S nlev)); [simpl; intros [H|[]]; discriminate|].
    destruct t as [[P R]|]; [|simpl; intros [H|[]]; discriminate].
    intros [H|H]; [discriminate|]. apply (IH _ _ _ H).
Qed.

(* ================================================================== *)
(* block values: static_matrix<T,b,b> over a commutative ring T with an additive, multiplicative, involutive
   adjoint (identity for real T); math::adjoint of a block is its (conjugate) transpose *)
Section BlockSym.
Variable S0 : Scalar.
Variable b : nat.
Hypothesis Srt : Sring S0.
Hypothesis Seqb0 : seqb_spec S0.
Hypothesis Hb : 0 < b.
Hypothesis sadj_add0 : forall x y : S0, sadj (x + y) = sadj x + sadj y.
Hypothesis sadj_mul0 : forall x y : S0, sadj (x * y) = sadj x * sadj y.
Hypothesis sadj_invol0 : forall x : S0, sadj (sadj x) = x.
Add Ring SRingBSym : Srt.
Local Notation B := (BlockS S0 b).
Let HncB : ncring_theory B := BlockS_ncring S0 b Srt.
Let SeqbB : seqb_spec B := BlockS_eqb S0 b Seqb0.
Let addB := BlockS_adj_add S0 b sadj_add0.
Let mulB := BlockS_adj_mul S0 b Srt sadj_add0 sadj_mul0.
Let invB := BlockS_adj_invol S0 b sadj_invol0.

(* cell (r,s) of the block-valued form: for column-0 blocks (r = s = 0) the inner product of the expanded vectors *)
Theorem ipH_block_cell (x y : vec B) n r s : r < b -> s < b ->
  blk_get (ipH (S := B) n x y) r s =
  sumn (fun i => sumn (fun k => sadj (blk_get (vget (S := B) x i) k r) * blk_get (vget (S := B) y i) k s) b) n.
Proof.
  intros Hr Hs. unfold ipH. rewrite (blk_get_sumn S0 b) by assumption.
  apply sumn_ext. intros i _. cbn [smul BlockS]. rewrite (blk_get_mul S0 b) by assumption.
  apply sumn_ext. intros k Hk. rewrite (BlockS_adj_get S0 b) by assumption. reflexivity.
Qed.

(* V(1,1)-cycle preconditioner of a block-valued hierarchy built by amg_init: hermitian block matrix
   (A_JI = A_IJ^T), R_l = adjoint P_l, Galerkin or (central, hermitian factor) re-scaled Galerkin coarse operators,
   damped Jacobi or SPAI-0 with hermitian scaled inverted diagonal blocks on every level (diag_good),
   self-adjoint coarse solve: <B f, g> = <f, B g> as blocks *)
Theorem block_apply_herm (k : @relax5 B) ce dc ml (sc : option B) ts (M : crs B) :
  scale_herm sc -> wf M = true -> herm_mat (nrows M) M -> ts_herm (nrows M) ts ->
  (forall A, In (LSolve A) (amg_init ce dc ml (coarse_op_of sc) ts M) ->
             solve_symH (nrows A) (mk_solve_block S0 b A)) ->
  (forall l, In l (amg_init ce dc ml (coarse_op_of sc) ts M) -> diag_good k (ld_A l)) ->
  let lvls := block_levels S0 b k (amg_init ce dc ml (coarse_op_of sc) ts M) in
  forall scr1 scr2 f g x1 x2,
  scratch_wf lvls scr1 -> scratch_wf lvls scr2 ->
  length f = nrows M -> length g = nrows M -> length x1 = nrows M -> length x2 = nrows M ->
  ipH (S := B) (nrows M) (fst (apply 1 1 1 1 lvls scr1 f x1)) g =
  ipH (S := B) (nrows M) f (fst (apply 1 1 1 1 lvls scr2 g x2)).
Proof.
  exact (built_apply_herm (S := B) HncB SeqbB addB mulB invB (mk_solve_block S0 b) (mk_solve_block_ok S0 b Hb)
           k ce dc ml sc ts M).
Qed.

(* smoother on the coarsest level (direct_coarse = false): no assumption on a coarse solver is left *)
Theorem block_apply_herm_smoother_coarse (k : @relax5 B) ce ml (sc : option B) ts (M : crs B) :
  scale_herm sc -> wf M = true -> herm_mat (nrows M) M -> ts_herm (nrows M) ts ->
  (forall l, In l (amg_init ce false ml (coarse_op_of sc) ts M) -> diag_good k (ld_A l)) ->
  let lvls := block_levels S0 b k (amg_init ce false ml (coarse_op_of sc) ts M) in
  forall scr1 scr2 f g x1 x2,
  scratch_wf lvls scr1 -> scratch_wf lvls scr2 ->
  length f = nrows M -> length g = nrows M -> length x1 = nrows M -> length x2 = nrows M ->
  ipH (S := B) (nrows M) (fst (apply 1 1 1 1 lvls scr1 f x1)) g =
  ipH (S := B) (nrows M) f (fst (apply 1 1 1 1 lvls scr2 g x2)).
Proof.
  intros Hsc WM SM Hts Hgood. apply block_apply_herm; try assumption.
  intros A HA. exfalso. unfold amg_init in HA. apply (nc_build_no_solve _ _ _ _ _ _ _ HA).
Qed.

(* an embedded base scalar with trivial conjugation is an admissible re-scaling factor *)
Lemma scale_herm_embed (c : S0) : sadj c = c -> sadj (@s0 S0) = s0 -> scale_herm (S := B) (Some (blk_embed S0 b c)).
Proof.
  intros Hc H0. split.
  - apply (blk_ext_get S0 b). intros i j Hi Hj. rewrite (BlockS_adj_get S0 b) by assumption.
    rewrite !(blk_get_embed S0 b) by assumption. rewrite (Nat.eqb_sym j i).
    destruct (Nat.eqb i j); assumption.
  - intro x. apply (blk_embed_central S0 b Srt).
Qed.

End BlockSym.
