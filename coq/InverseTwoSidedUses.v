(* InverseTwoSidedUses.v -- downstream closed block theorems restated WITHOUT the hypothesis "math::inverse also
   succeeds on its own result" (sinv (sinv D) <> 0), which InverseTwoSided.v makes redundant.  Nothing here is new
   mathematics: each theorem is the existing one with the left-inverse law discharged by
   InverseTwoSided.BlockS_inv_left (any field) instead of NcRingBlockInv.BlockS_inv_two_sided.
   Not imported by Properties_C16.v (keeps that closure lean); the owners of Properties_C12.v / Properties_C06.v can
   point their statements here. *)
From Amgcl Require Import Scalar QcInst Vec Crs Kernels KernelsProofs MatOps MatOpsProofs Aggregates Coarsen CoarsenProofs
  Dist DistProofs DistSa DistSaPtent DistSaProofs DistSaNcConn NcRing NcKernels
  BlockInst NcRingBlock NcRingBlockInv DistSaNc InverseTwoSided.
Local Open Scope S_scope.

(* C12 (DistSaNc.nc_dist_sa_smooth_every_partition_BlockQc / Properties_C12.C12_nc_dist_sa_smooth_every_partition_BlockQc):
   only "math::inverse passes its assertion on the filtered diagonal D_i" remains *)
Theorem nc_dist_sa_smooth_every_partition_BlockQc_one_inverse (b : nat) (junk eps2 omega : BlockS QcS b)
  (A Pt : crs (BlockS QcS b)) (parts cparts : list nat) :
  psum parts = nrows A -> ncols A = nrows A -> wf A = true ->
  length parts = length cparts -> psum parts = nrows Pt ->
  forall i j, (i < nrows A)%nat ->
    diag_count i (nth i (rows A) []) = 1%nat ->
    sinv (sa_D A (conn_flags _ junk A eps2) i) <> s0 ->
    mget (assemble (dist_sa_smooth junk eps2 omega (split A parts parts) (split Pt parts cparts))) i j
    = sa_formula omega A (conn_flags _ junk A eps2) Pt i j.
Proof.
  intros H1 H2 H3 H4 H5 i j Hi Hd Hv1.
  apply (nc_dist_sa_smooth_every_partition (BlockS QcS b) (BlockS_ncring QcS b QcS_ring)); try assumption.
  exact (BlockS_inv_left QcS b QcS_field QcS_eqb nc_QcS_sinv0 _ Hv1).
Qed.
Print Assumptions nc_dist_sa_smooth_every_partition_BlockQc_one_inverse.

(* ------------------------------------------------------------------------------------------------------------ *)
(* C06, block ILU(0): every stored pivot D_k of a successful ilu0 is [sinv p_k] of the eliminated diagonal block
   (any Scalar record, no algebra) ... *)
From Amgcl Require Import Relax Ilu IluProofs BlockRelaxProofsIlu BlockIlu0Exact BlockIluClosed BlockRelaxExamples InversePivotQc.
Local Open Scope nat_scope.

Section Ilu0Pivots.
Context {S : Scalar}.

Lemma ilu0_elim_wd_sinv i (Us : list (row S)) (D : vec S) (ents : row S) : forall w w',
  ilu0_elim i Us D ents w = Ok w' -> has_col i ents = true -> exists p : S, wd w' = sinv p.
Proof.
  induction ents as [|e tl IH]; intros w w' H Hc; [discriminate Hc|].
  cbn [ilu0_elim] in H. cbv zeta in H.
  destruct (Nat.leb i (fst e)) eqn:El.
  - destruct (Nat.eqb (fst e) i) eqn:Ee; [|discriminate H].
    destruct (is_zero (wd w)); [discriminate H|]. inversion H. exists (wd w). reflexivity.
  - apply (IH _ _ H). unfold has_col in *. cbn [existsb] in Hc.
    apply Nat.leb_gt in El. replace (Nat.eqb (fst e) i) with false in Hc by (symmetry; apply Nat.eqb_neq; lia).
    exact Hc.
Qed.

Lemma ilu0_rows_D_sinv (junk : vec S) : forall (rs : list (row S)) i Ls Us D Ls' Us' D',
  ilu0_rows (Ls, Us, D) i rs junk = Ok (Ls', Us', D') -> length D = i ->
  (forall k, k < length rs -> has_col (i + k) (nth k rs []) = true) ->
  forall k, i <= k < i + length rs -> exists p : S, vget D' k = sinv p.
Proof.
  induction rs as [|r tl IH]; intros i Ls Us D Ls' Us' D' H LD Hc k Hk; [cbn [length] in Hk; lia|].
  cbn [ilu0_rows] in H. unfold ilu0_row in H.
  destruct (ilu0_elim i Us D r (ilu0_scatter i r (vget junk i))) as [w|] eqn:El; [|discriminate].
  destruct (Nat.eq_dec k i) as [->|Hne].
  - destruct (nx0_rows_prefix junk _ _ _ _ _ _ _ _ H) as [sfx E]. rewrite E. unfold vget.
    rewrite app_nth1 by (rewrite app_length; cbn [length]; lia). rewrite <- LD, nth_middle.
    apply (ilu0_elim_wd_sinv _ _ _ _ _ _ El). specialize (Hc 0 ltac:(cbn [length]; lia)).
    rewrite Nat.add_0_r in Hc. exact Hc.
  - apply (IH (Datatypes.S i) _ _ _ _ _ _ H).
    + rewrite app_length. cbn [length]. lia.
    + intros k' Hk'. specialize (Hc (Datatypes.S k') ltac:(cbn [length]; lia)).
      replace (Datatypes.S i + k') with (i + Datatypes.S k') by lia. exact Hc.
    + cbn [length] in Hk. lia.
Qed.

Theorem ilu0_D_sinv (A : crs S) (junk : vec S) L U D : has_diag A = true -> ilu0 A junk = Ok (L, U, D) ->
  forall k, k < nrows A -> exists p : S, vget D k = sinv p.
Proof.
  intros Hd H k Hk. unfold ilu0 in H.
  destruct (ilu0_rows ([], [], []) 0 (rows A) junk) as [[[Ls Us] D']|] eqn:E; [|discriminate].
  inversion H; subst L U D. clear H.
  apply (ilu0_rows_D_sinv junk (rows A) 0 [] [] [] Ls Us D' E eq_refl).
  - intros k' Hk'. apply nx0_has_diag_has_col; assumption.
  - unfold nrows in Hk. lia.
Qed.

End Ilu0Pivots.

(* ... hence at b x b blocks of exact rationals "D_k <> 0" (math::inverse passed its assertion on every pivot block:
   the only run-time condition of the C++) already implies "sinv D_k <> 0": the closed block theorems of
   BlockRelaxExamples.v / Properties_C06.v with the hypothesis  forall k, D_k <> 0  alone *)
Section ClosedBlocksOneInverse.
Variable b : nat.
Local Notation B := (BlockS QcS b).

Lemma blk_ilu0_pivots_invertible (A : crs B) (junk : vec B) (L U : crs B) (D : vec B) :
  has_diag A = true -> ilu0 A junk = Ok (L, U, D) ->
  (forall k, k < nrows A -> vget D k <> s0) ->
  forall k, k < nrows A -> vget D k <> s0 /\ sinv (vget D k) <> s0.
Proof.
  intros Hd H HD k Hk. split; [exact (HD k Hk)|].
  destruct (ilu0_D_sinv A junk L U D Hd H k Hk) as (p & Ep). pose proof (HD k Hk) as Hnz. rewrite Ep in Hnz |- *.
  exact (proj1 (BlockS_inv_involutive QcS b QcS_field QcS_eqb nc_QcS_sinv0 QcS_lt_irrefl QcS_lt_trans
                  QcS_abs_0 QcS_abs_pos p Hnz)).
Qed.

Theorem nc_ilu0_exact_on_pattern_blocks_one_inverse (A : crs B) (junk : vec B) (L U : crs B) (D : vec B) :
  wf A = true -> ncols A = nrows A ->
  (forall i, i < nrows A -> sorted_strict (nth i (rows A) []) = true) ->
  has_diag A = true ->
  ilu0 A junk = Ok (L, U, D) ->
  (forall k, k < nrows A -> vget D k <> s0) ->
  forall i j, i < nrows A -> has_col j (nth i (rows A) []) = true ->
    lu_entry L U D i j = mget A i j.
Proof.
  intros Hwf Hsq Hs Hd H HD.
  exact (nc_ilu0_exact_on_pattern_blocks b A junk L U D Hwf Hsq Hs Hd H (blk_ilu0_pivots_invertible A junk L U D Hd H HD)).
Qed.

Theorem nc_ilu0_closed_exact_solve_blocks_one_inverse (A : crs B) (junk : vec B) (L U : crs B) (D b0 x0 : vec B) :
  wf A = true -> ncols A = nrows A ->
  (forall i, i < nrows A -> sorted_strict (nth i (rows A) []) = true) ->
  has_diag A = true -> pat_closed A ->
  ilu0 A junk = Ok (L, U, D) ->
  (forall k, k < nrows A -> vget D k <> s0) ->
  length b0 = nrows A -> length x0 = nrows A ->
  forall i, i < nrows A -> Ax A (ilu_apply L U D b0 x0) i = vget b0 i.
Proof.
  intros Hwf Hsq Hs Hd Hcl H HD.
  exact (nc_ilu0_closed_exact_solve_blocks b A junk L U D b0 x0 Hwf Hsq Hs Hd Hcl H
           (blk_ilu0_pivots_invertible A junk L U D Hd H HD)).
Qed.

Theorem nc_ilu0_tridiagonal_exact_solve_blocks_one_inverse (A : crs B) (junk : vec B) (L U : crs B) (D b0 x0 : vec B) :
  wf A = true -> ncols A = nrows A ->
  (forall i, i < nrows A -> sorted_strict (nth i (rows A) []) = true) ->
  has_diag A = true -> tridiagonal A ->
  ilu0 A junk = Ok (L, U, D) ->
  (forall k, k < nrows A -> vget D k <> s0) ->
  length b0 = nrows A -> length x0 = nrows A ->
  forall i, i < nrows A -> Ax A (ilu_apply L U D b0 x0) i = vget b0 i.
Proof.
  intros Hwf Hsq Hs Hd Ht H HD.
  exact (nc_ilu0_tridiagonal_exact_solve_blocks b A junk L U D b0 x0 Hwf Hsq Hs Hd Ht H
           (blk_ilu0_pivots_invertible A junk L U D Hd H HD)).
Qed.

End ClosedBlocksOneInverse.
Print Assumptions nc_ilu0_exact_on_pattern_blocks_one_inverse.
Print Assumptions nc_ilu0_closed_exact_solve_blocks_one_inverse.
Print Assumptions nc_ilu0_tridiagonal_exact_solve_blocks_one_inverse.
