(* IlutProofs.v -- structural theorems about the dual-threshold ILUT(p,tau) factorisation
   (model: Ilu.v, "ILUT(p, tau)" part; C++: amgcl/relaxation/ilut.hpp).

   Everything here is STRUCTURAL: no algebraic law is used, all statements hold for
   every [Scalar] record (IEEE floats with NaN included).

   Contents
     0.  list tools: sort_row / asort are permutations, sort_row output is sorted,
         topk returns at most k entries, all of them taken from its input.
     1.  the sparse work vector (tfind / tupd / ilut_step): columns are never removed,
         never duplicated.
     2.  one row (ilut_row): closed form [it_ilut_row_eq], triangularity, the
         (p * len) budgets, "the diagonal is always kept", sortedness.
     3.  the whole factorisation (ilut): row-by-row characterisation
         [ilut_rowwise] and the lifted theorems
           T1 ilut_structure, T2 ilut_budget, T3 ilut_diag_kept / ilut_diag_value,
           T4 ilut_sorted, plus the column range ilut_cols_bound / ilut_strict_upper
           (under wf A).  Nothing is left unproved. *)
From Coq Require Import ZifyBool Permutation.
From Coq Require Import QArith_base.
From Amgcl Require Import Scalar Vec Crs MatOps Ilu IluProofs.
Local Close Scope Q_scope.
Local Open Scope nat_scope.

(* ================================================================== *)
(* 0. generic list facts                                              *)
Lemma it_fold_ins_perm {X} (ins : X -> list X -> list X) :
  (forall e l, Permutation (ins e l) (e :: l)) ->
  forall l acc, Permutation (fold_left (fun acc e => ins e acc) l acc) (l ++ acc).
Proof.
  intros H l; induction l as [|a l IH]; intro acc; simpl; [apply Permutation_refl|].
  eapply perm_trans; [apply IH|].
  eapply perm_trans; [apply Permutation_app_head, H|].
  apply Permutation_sym, Permutation_middle.
Qed.

Lemma it_in_firstn {X} (l : list X) k x : In x (firstn k l) -> In x l.
Proof.
  revert k; induction l as [|a l IH]; intros [|k] H; simpl in *; try contradiction.
  destruct H as [H|H]; [left; exact H|right; eapply IH; exact H].
Qed.

Lemma it_nodup_firstn {X} (l : list X) k : NoDup l -> NoDup (firstn k l).
Proof.
  revert k; induction l as [|a l IH]; intros [|k] H; simpl; try constructor.
  - inversion H; subst. intro Hin. apply H2. eapply it_in_firstn. exact Hin.
  - inversion H; subst. apply IH; assumption.
Qed.

Lemma it_nodup_map_filter {X Y} (g : X -> Y) (f : X -> bool) (l : list X) :
  NoDup (map g l) -> NoDup (map g (filter f l)).
Proof.
  induction l as [|a l IH]; simpl; intro H; [constructor|].
  inversion H; subst. destruct (f a); simpl; [|apply IH; assumption].
  constructor; [|apply IH; assumption].
  intro Hin. apply H2. apply in_map_iff in Hin as (x & Hx & Hin).
  apply filter_In in Hin as [Hin _]. apply in_map_iff. exists x. split; assumption.
Qed.

Lemma it_firstn_len {X} (l : list X) n : length l = n -> firstn n l = l.
Proof. intros <-. apply firstn_all. Qed.

(* a list that extends [l] by exactly one element at position [n = length l] *)
Lemma it_firstn_snoc {X} (l l' : list X) (x d : X) n :
  length l = n -> firstn (Datatypes.S n) l' = l ++ [x] ->
  firstn n l' = l /\ nth n l' d = x.
Proof.
  intros Hn H. rewrite <- (firstn_skipn (Datatypes.S n) l'), H. subst n.
  rewrite <- app_assoc. split.
  - rewrite firstn_app, firstn_all, Nat.sub_diag. simpl. apply app_nil_r.
  - rewrite app_nth2 by lia. rewrite Nat.sub_diag. reflexivity.
Qed.

(* ================================================================== *)
Section AnyScalar.
Context {S : Scalar}.
Local Notation vec := (vec S).
Local Notation row := (row S).
Local Notation crs := (crs S).

(* ---------------- sort_row (detail::sort_row) ---------------- *)
Lemma it_ins_right_perm (e : nat * S) (r : row) : Permutation (ins_right e r) (e :: r).
Proof.
  induction r as [|e' tl IH]; simpl; [apply Permutation_refl|].
  destruct (Nat.leb (fst e') (fst e)).
  - eapply perm_trans; [apply perm_skip, IH|apply perm_swap].
  - apply Permutation_refl.
Qed.

Lemma it_sort_row_perm (r : row) : Permutation (sort_row r) r.
Proof.
  pose proof (it_fold_ins_perm ins_right it_ins_right_perm r []) as H.
  rewrite app_nil_r in H. exact H.
Qed.

Lemma it_sort_row_in (r : row) e : In e (sort_row r) <-> In e r.
Proof.
  split; apply Permutation_in; [|apply Permutation_sym]; apply it_sort_row_perm.
Qed.

Lemma it_sort_row_length (r : row) : length (sort_row r) = length r.
Proof. apply Permutation_length, it_sort_row_perm. Qed.

(* sortedness: head-bound characterisations of the boolean predicates of Crs.v *)
Lemma it_sorted_weak_cons (e : nat * S) (r : row) :
  sorted_weak (e :: r) = true <->
  (forall x, In x r -> fst e <= fst x) /\ sorted_weak r = true.
Proof.
  revert e; induction r as [|e2 tl IH]; intro e.
  - simpl. split; [intros _; split; [intros x []|reflexivity]|reflexivity].
  - change (sorted_weak (e :: e2 :: tl)) with (Nat.leb (fst e) (fst e2) && sorted_weak (e2 :: tl)).
    rewrite andb_true_iff, Nat.leb_le. split.
    + intros [Hle Hs]. split; [|exact Hs].
      apply IH in Hs as [Hb _]. intros x [<-|Hx]; [exact Hle|].
      specialize (Hb x Hx). lia.
    + intros [Hb Hs]. split; [apply Hb; left; reflexivity|exact Hs].
Qed.

Lemma it_sorted_strict_cons (e : nat * S) (r : row) :
  sorted_strict (e :: r) = true <->
  (forall x, In x r -> fst e < fst x) /\ sorted_strict r = true.
Proof.
  revert e; induction r as [|e2 tl IH]; intro e.
  - simpl. split; [intros _; split; [intros x []|reflexivity]|reflexivity].
  - change (sorted_strict (e :: e2 :: tl)) with (Nat.ltb (fst e) (fst e2) && sorted_strict (e2 :: tl)).
    rewrite andb_true_iff, Nat.ltb_lt. split.
    + intros [Hle Hs]. split; [|exact Hs].
      apply IH in Hs as [Hb _]. intros x [<-|Hx]; [exact Hle|].
      specialize (Hb x Hx). lia.
    + intros [Hb Hs]. split; [apply Hb; left; reflexivity|exact Hs].
Qed.

Lemma it_ins_right_sorted (e : nat * S) (r : row) :
  sorted_weak r = true -> sorted_weak (ins_right e r) = true.
Proof.
  induction r as [|e' tl IH]; intro Hs; [reflexivity|].
  simpl. destruct (Nat.leb_spec (fst e') (fst e)) as [Hle|Hgt].
  - apply it_sorted_weak_cons in Hs as [Hb Hs]. apply it_sorted_weak_cons. split.
    + intros x Hx. apply (Permutation_in _ (it_ins_right_perm e tl)) in Hx.
      destruct Hx as [<-|Hx]; [exact Hle|apply Hb; exact Hx].
    + apply IH; exact Hs.
  - apply it_sorted_weak_cons. split; [|exact Hs].
    apply it_sorted_weak_cons in Hs as [Hb _].
    intros x [<-|Hx]; [lia|]. specialize (Hb x Hx). lia.
Qed.

Lemma it_sort_row_sorted_weak (r : row) : sorted_weak (sort_row r) = true.
Proof.
  unfold sort_row. apply fold_left_inv; [reflexivity|].
  intros a b _ Ha. apply it_ins_right_sorted; exact Ha.
Qed.

Lemma it_sorted_weak_nodup_strict (r : row) :
  sorted_weak r = true -> NoDup (map fst r) -> sorted_strict r = true.
Proof.
  induction r as [|e tl IH]; intros Hs Hnd; [reflexivity|].
  apply it_sorted_weak_cons in Hs as [Hb Hs]. simpl in Hnd. inversion Hnd; subst.
  apply it_sorted_strict_cons. split; [|apply IH; assumption].
  intros x Hx. specialize (Hb x Hx).
  assert (fst e <> fst x) by (intro Heq; apply H1; rewrite Heq; apply in_map; exact Hx).
  lia.
Qed.

Lemma it_sort_row_sorted_strict (r : row) :
  NoDup (map fst r) -> sorted_strict (sort_row r) = true.
Proof.
  intro H. apply it_sorted_weak_nodup_strict; [apply it_sort_row_sorted_weak|].
  eapply Permutation_NoDup; [|exact H].
  apply Permutation_map, Permutation_sym, it_sort_row_perm.
Qed.

(* ---------------- asort / topk (nth_element by |value|) ---------------- *)
Lemma it_ains_perm (e : nat * S) (l : row) : Permutation (ains e l) (e :: l).
Proof.
  induction l as [|e' tl IH]; simpl; [apply Permutation_refl|].
  destruct (sltb (sabs (snd e')) (sabs (snd e))).
  - apply Permutation_refl.
  - eapply perm_trans; [apply perm_skip, IH|apply perm_swap].
Qed.

Lemma it_asort_perm (l : row) : Permutation (asort l) l.
Proof.
  pose proof (it_fold_ins_perm ains it_ains_perm l []) as H.
  rewrite app_nil_r in H. exact H.
Qed.

Lemma it_topk_in k (l : row) e : In e (fst (topk k l)) -> In e l.
Proof.
  unfold topk. destruct (Nat.leb (length l) k); simpl; [trivial|].
  intro H. apply it_in_firstn in H. eapply Permutation_in; [apply it_asort_perm|exact H].
Qed.

Lemma it_topk_length_eq k (l : row) : length (fst (topk k l)) = Nat.min (length l) k.
Proof.
  unfold topk. destruct (Nat.leb_spec (length l) k) as [Hle|Hgt]; simpl; [lia|].
  rewrite firstn_length, (Permutation_length (it_asort_perm l)). lia.
Qed.

Lemma it_topk_length k (l : row) : length (fst (topk k l)) <= k.
Proof. rewrite it_topk_length_eq. lia. Qed.

Lemma it_topk_nodup k (l : row) : NoDup (map fst l) -> NoDup (map fst (fst (topk k l))).
Proof.
  intro H. unfold topk. destruct (Nat.leb (length l) k); simpl; [exact H|].
  rewrite <- firstn_map. apply it_nodup_firstn.
  eapply Permutation_NoDup; [|exact H].
  apply Permutation_map, Permutation_sym, it_asort_perm.
Qed.

(* no cut, no tie *)
Lemma it_topk_all k (l : row) : length l <= k -> topk k l = (l, false).
Proof. intro H. unfold topk. destruct (Nat.leb_spec (length l) k); [reflexivity|lia]. Qed.

(* ================================================================== *)
(* 1. the sparse work vector                                          *)
Lemma it_tfind_none (w : row) c : tfind w c = None <-> ~ In c (map fst w).
Proof.
  induction w as [|e tl IH]; simpl; [tauto|].
  destruct (Nat.eqb_spec (fst e) c) as [He|He].
  - split; [discriminate|]. intro H. exfalso. apply H. left; exact He.
  - rewrite IH. tauto.
Qed.

Lemma it_tfind_some (w : row) c : In c (map fst w) -> exists v, tfind w c = Some v.
Proof.
  intro H. destruct (tfind w c) as [v|] eqn:E; [exists v; reflexivity|].
  apply it_tfind_none in E. contradiction.
Qed.

Lemma it_tfind_in (w : row) c v : tfind w c = Some v -> In (c, v) w.
Proof.
  induction w as [|e tl IH]; simpl; [discriminate|].
  destruct (Nat.eqb_spec (fst e) c) as [He|He].
  - intro H. inversion H; subst. left. destruct e; reflexivity.
  - intro H. right. apply IH; exact H.
Qed.

(* a filter that keeps every entry of column c does not change the lookup of c *)
Lemma it_tfind_filter (f : nat * S -> bool) (w : row) c :
  (forall e, fst e = c -> f e = true) -> tfind (filter f w) c = tfind w c.
Proof.
  intro Hf. induction w as [|e tl IH]; simpl; [reflexivity|].
  destruct (Nat.eqb_spec (fst e) c) as [He|He].
  - rewrite (Hf e He). simpl. rewrite (proj2 (Nat.eqb_eq _ _) He). reflexivity.
  - destruct (f e); simpl; [|exact IH].
    rewrite (proj2 (Nat.eqb_neq _ _) He). exact IH.
Qed.

Lemma it_tupd_cols (w : row) c f c' :
  In c' (map fst (tupd w c f)) <-> c' = c \/ In c' (map fst w).
Proof.
  induction w as [|e tl IH]; simpl.
  - split; intros [H|H]; auto.
  - destruct (Nat.eqb_spec (fst e) c) as [He|He]; simpl.
    + split.
      * intros [H|H]; [left; auto|right; right; exact H].
      * intros [H|[H|H]]; [left; auto|left; congruence|right; exact H].
    + rewrite IH. tauto.
Qed.

Lemma it_tupd_nodup (w : row) c f : NoDup (map fst w) -> NoDup (map fst (tupd w c f)).
Proof.
  induction w as [|e tl IH]; simpl; intro H.
  - constructor; [intros []|constructor].
  - inversion H; subst. destruct (Nat.eqb_spec (fst e) c) as [He|He]; simpl.
    + rewrite <- He. constructor; assumption.
    + constructor; [|apply IH; assumption].
      intro Hin. apply it_tupd_cols in Hin as [Hin|Hin]; [congruence|contradiction].
Qed.

(* invariant bundle of the work vector: columns of [w] survive, no duplicates *)
Definition it_ext (w w' : row) : Prop :=
  (forall c, In c (map fst w) -> In c (map fst w')) /\
  (NoDup (map fst w) -> NoDup (map fst w')).

Lemma it_ext_refl w : it_ext w w.
Proof. split; auto. Qed.

Lemma it_ext_trans w1 w2 w3 : it_ext w1 w2 -> it_ext w2 w3 -> it_ext w1 w3.
Proof. intros [A1 B1] [A2 B2]. split; auto. Qed.

Lemma it_ext_tupd w c f : it_ext w (tupd w c f).
Proof.
  split; [intros c' H; apply it_tupd_cols; right; exact H|apply it_tupd_nodup].
Qed.

Lemma it_ext_fold {X} (g : row -> X -> row) (l : list X) (w : row) :
  (forall w x, it_ext w (g w x)) -> it_ext w (fold_left g l w).
Proof.
  intro Hg. apply (fold_left_inv g (fun w' => it_ext w w')); [apply it_ext_refl|].
  intros a b _ Ha. eapply it_ext_trans; [exact Ha|apply Hg].
Qed.

Lemma it_ext_step tol Us (D : vec) (w : row) c : it_ext w (ilut_step tol Us D w c).
Proof.
  unfold ilut_step. destruct (tfind w c) as [v|]; [|apply it_ext_refl].
  cbv zeta. destruct (sltb tol _).
  - eapply it_ext_trans; [apply it_ext_tupd|].
    apply it_ext_fold. intros w' x. apply it_ext_tupd.
  - apply it_ext_tupd.
Qed.

(* T3 helper as stated in the task: ilut_step never removes a column *)
Lemma it_ilut_step_keeps tol Us (D : vec) (w : row) c c' :
  tfind w c <> None -> tfind (ilut_step tol Us D w c') c <> None.
Proof.
  intros H E. apply it_tfind_none in E. apply E.
  apply (proj1 (it_ext_step tol Us D w c')).
  destruct (tfind w c) eqn:E'; [|congruence].
  apply it_tfind_in in E'. apply (in_map fst) in E'. exact E'.
Qed.

(* ================================================================== *)
(* 2. one row                                                         *)
(* the sub-expressions of ilut_row, named *)
Definition it_w0 (r : row) : row :=
  fold_left (fun w e => tupd w (fst e) (fun _ => snd e)) r [].
Definition it_lenL (i : nat) (r : row) : nat := length (filter (fun e => Nat.ltb (fst e) i) r).
Definition it_lenU (i : nat) (r : row) : nat := length (filter (fun e => Nat.ltb i (fst e)) r).
Definition it_tol (tau : S) (i : nat) (r : row) : S :=
  smul (fold_left (fun t e => sadd t (sabs (snd e))) r s0)
       (sdiv tau (of_nat (it_lenL i r + it_lenU i r))).
Definition it_w1 (tau : S) (Us : list row) (D : vec) (i : nat) (r : row) : row :=
  fold_left (ilut_step (it_tol tau i r) Us D) (seq 0 i) (it_w0 r).
Definition it_keep (tau : S) (Us : list row) (D : vec) (i : nat) (r : row) : row :=
  filter (fun e => Nat.eqb (fst e) i || sltb (it_tol tau i r) (sabs (snd e))) (it_w1 tau Us D i r).
Definition it_Lc tau Us D i r : row := filter (fun e => Nat.ltb (fst e) i) (it_keep tau Us D i r).
Definition it_Uc tau Us D i r : row := filter (fun e => Nat.ltb i (fst e)) (it_keep tau Us D i r).
(* places left for the strict upper part: the diagonal, when kept, takes one *)
Definition it_up (p : Q) tau Us D i r : nat :=
  match tfind (it_keep tau Us D i r) i with
  | Some _ => Nat.pred (trunc_len (it_lenU i r) p)
  | None => trunc_len (it_lenU i r) p
  end.

Lemma it_ilut_row_eq p tau Us D i r jd :
  ilut_row p tau Us D i r jd =
  (sort_row (fst (topk (trunc_len (it_lenL i r) p) (it_Lc tau Us D i r))),
   sort_row (fst (topk (it_up p tau Us D i r) (it_Uc tau Us D i r))),
   match tfind (it_keep tau Us D i r) i with Some v => sinv v | None => jd end,
   orb (snd (topk (trunc_len (it_lenL i r) p) (it_Lc tau Us D i r)))
       (snd (topk (it_up p tau Us D i r) (it_Uc tau Us D i r)))).
Proof.
  unfold ilut_row, it_up, it_Lc, it_Uc, it_keep, it_w1, it_tol, it_lenL, it_lenU, it_w0.
  cbv zeta.
  destruct (topk _ (filter (fun e => Nat.ltb (fst e) i) _)) as [Lsel tieL].
  destruct (tfind _ i) as [v|]; destruct (topk _ _) as [Usel tieU]; reflexivity.
Qed.

(* --- columns of the work vector --- *)
Lemma it_w0_cols (r : row) c : In c (map fst r) -> In c (map fst (it_w0 r)).
Proof.
  unfold it_w0. generalize (@nil (nat * S)) as w.
  induction r as [|e tl IH]; simpl; intros w H; [contradiction|].
  destruct H as [H|H].
  - apply (proj1 (it_ext_fold (fun w e => tupd w (fst e) (fun _ => snd e)) tl _
                    (fun w x => it_ext_tupd w _ _))).
    apply it_tupd_cols. left. symmetry; exact H.
  - apply IH; exact H.
Qed.

Lemma it_w0_nodup (r : row) : NoDup (map fst (it_w0 r)).
Proof.
  unfold it_w0.
  apply (proj2 (it_ext_fold (fun w e => tupd w (fst e) (fun _ => snd e)) r []
                  (fun w x => it_ext_tupd w _ _))).
  constructor.
Qed.

Lemma it_w1_ext tau Us D i r : it_ext (it_w0 r) (it_w1 tau Us D i r).
Proof. unfold it_w1. apply it_ext_fold. intros w x. apply it_ext_step. Qed.

Lemma it_w1_nodup tau Us D i r : NoDup (map fst (it_w1 tau Us D i r)).
Proof. apply (proj2 (it_w1_ext tau Us D i r)), it_w0_nodup. Qed.

Lemma it_keep_nodup tau Us D i r : NoDup (map fst (it_keep tau Us D i r)).
Proof. unfold it_keep. apply it_nodup_map_filter, it_w1_nodup. Qed.

(* the diagonal lookup is not affected by the threshold filter *)
Lemma it_keep_diag tau Us D i r :
  tfind (it_keep tau Us D i r) i = tfind (it_w1 tau Us D i r) i.
Proof.
  unfold it_keep. apply it_tfind_filter. intros e He.
  rewrite (proj2 (Nat.eqb_eq _ _) He). reflexivity.
Qed.

Lemma it_w1_has_diag tau Us D i r :
  In i (map fst r) -> exists v, tfind (it_w1 tau Us D i r) i = Some v.
Proof.
  intro H. apply it_tfind_some. apply (proj1 (it_w1_ext tau Us D i r)), it_w0_cols, H.
Qed.

(* --- T1 (row level): triangularity, and where the entries come from --- *)
Theorem ilut_row_lower p (tau : S) Us D i r jd lr ur d t :
  ilut_row p tau Us D i r jd = (lr, ur, d, t) ->
  forall c v, In (c, v) lr ->
    c < i /\ In (c, v) (it_w1 tau Us D i r) /\ sltb (it_tol tau i r) (sabs v) = true.
Proof.
  rewrite it_ilut_row_eq. intro H. inversion H; subst; clear H. intros c v Hin.
  apply it_sort_row_in, it_topk_in in Hin. unfold it_Lc, it_keep in Hin.
  apply filter_In in Hin as [Hin Hlt]. apply filter_In in Hin as [Hin Hk].
  simpl in Hlt, Hk. apply Nat.ltb_lt in Hlt.
  split; [exact Hlt|]. split; [exact Hin|].
  destruct (Nat.eqb_spec c i); [lia|]. exact Hk.
Qed.

Theorem ilut_row_upper p (tau : S) Us D i r jd lr ur d t :
  ilut_row p tau Us D i r jd = (lr, ur, d, t) ->
  forall c v, In (c, v) ur ->
    i < c /\ In (c, v) (it_w1 tau Us D i r) /\ sltb (it_tol tau i r) (sabs v) = true.
Proof.
  rewrite it_ilut_row_eq. intro H. inversion H; subst; clear H. intros c v Hin.
  apply it_sort_row_in, it_topk_in in Hin. unfold it_Uc, it_keep in Hin.
  apply filter_In in Hin as [Hin Hlt]. apply filter_In in Hin as [Hin Hk].
  simpl in Hlt, Hk. apply Nat.ltb_lt in Hlt.
  split; [exact Hlt|]. split; [exact Hin|].
  destruct (Nat.eqb_spec c i); [lia|]. exact Hk.
Qed.

(* --- T2 (row level): the fill budgets --- *)
Theorem ilut_row_budget p (tau : S) Us D i r jd lr ur d t :
  ilut_row p tau Us D i r jd = (lr, ur, d, t) ->
  length lr <= trunc_len (length (filter (fun e => Nat.ltb (fst e) i) r)) p /\
  length ur <= trunc_len (length (filter (fun e => Nat.ltb i (fst e)) r)) p.
Proof.
  rewrite it_ilut_row_eq. intro H. inversion H; subst; clear H.
  rewrite !it_sort_row_length. split; [apply it_topk_length|].
  eapply Nat.le_trans; [apply it_topk_length|].
  unfold it_up. destruct (tfind _ i); [apply Nat.le_pred_l|apply Nat.le_refl].
Qed.

(* exact sizes: min(candidates, budget) *)
Theorem ilut_row_sizes p (tau : S) Us D i r jd lr ur d t :
  ilut_row p tau Us D i r jd = (lr, ur, d, t) ->
  length lr = Nat.min (length (it_Lc tau Us D i r)) (trunc_len (it_lenL i r) p) /\
  length ur = Nat.min (length (it_Uc tau Us D i r)) (it_up p tau Us D i r).
Proof.
  rewrite it_ilut_row_eq. intro H. inversion H; subst; clear H.
  rewrite !it_sort_row_length, !it_topk_length_eq. split; reflexivity.
Qed.

(* diagonal kept (hypothesis spelled on the model's own lookup): one place less *)
Theorem ilut_row_budget_diag_tfind p (tau : S) Us D i r jd lr ur d t v :
  ilut_row p tau Us D i r jd = (lr, ur, d, t) ->
  tfind (it_keep tau Us D i r) i = Some v ->
  length ur <= Nat.pred (trunc_len (length (filter (fun e => Nat.ltb i (fst e)) r)) p).
Proof.
  rewrite it_ilut_row_eq. intros H Hv. inversion H; subst; clear H.
  rewrite it_sort_row_length. eapply Nat.le_trans; [apply it_topk_length|].
  unfold it_up. rewrite Hv. apply Nat.le_refl.
Qed.

(* --- T3 (row level): the diagonal is always kept --- *)
(* d is read from the eliminated work row, whatever the threshold says *)
Theorem ilut_row_diag_value p (tau : S) Us D i r jd lr ur d t :
  ilut_row p tau Us D i r jd = (lr, ur, d, t) ->
  d = match tfind (it_w1 tau Us D i r) i with Some v => sinv v | None => jd end.
Proof.
  rewrite it_ilut_row_eq. intro H. inversion H; subst; clear H.
  rewrite it_keep_diag. reflexivity.
Qed.

Theorem ilut_row_diag_kept p (tau : S) Us D i r jd lr ur d t :
  ilut_row p tau Us D i r jd = (lr, ur, d, t) ->
  In i (map fst r) ->
  exists v, tfind (it_w1 tau Us D i r) i = Some v /\
            tfind (it_keep tau Us D i r) i = Some v /\ d = sinv v.
Proof.
  intros H Hd. destruct (it_w1_has_diag tau Us D i r Hd) as [v Hv].
  exists v. split; [exact Hv|]. split; [rewrite it_keep_diag; exact Hv|].
  rewrite (ilut_row_diag_value _ _ _ _ _ _ _ _ _ _ _ H), Hv. reflexivity.
Qed.

(* the precise form asked for: w1 = work row after the elimination fold *)
Corollary ilut_row_diag_kept_tfind p (tau : S) Us D i r jd lr ur d t v :
  ilut_row p tau Us D i r jd = (lr, ur, d, t) ->
  tfind (it_w1 tau Us D i r) i = Some v -> d = sinv v.
Proof.
  intros H Hv. rewrite (ilut_row_diag_value _ _ _ _ _ _ _ _ _ _ _ H), Hv. reflexivity.
Qed.

(* a row of A without a diagonal entry and no fill-in on it reads the junk cell *)
Corollary ilut_row_diag_junk p (tau : S) Us D i r jd lr ur d t :
  ilut_row p tau Us D i r jd = (lr, ur, d, t) ->
  tfind (it_w1 tau Us D i r) i = None -> d = jd.
Proof.
  intros H Hv. rewrite (ilut_row_diag_value _ _ _ _ _ _ _ _ _ _ _ H), Hv. reflexivity.
Qed.

(* T2, diagonal-present case, hypothesis on the input row *)
Theorem ilut_row_budget_diag p (tau : S) Us D i r jd lr ur d t :
  ilut_row p tau Us D i r jd = (lr, ur, d, t) ->
  In i (map fst r) ->
  length ur <= Nat.pred (trunc_len (length (filter (fun e => Nat.ltb i (fst e)) r)) p).
Proof.
  intros H Hd. destruct (ilut_row_diag_kept _ _ _ _ _ _ _ _ _ _ _ H Hd) as (v & _ & Hk & _).
  eapply ilut_row_budget_diag_tfind; eassumption.
Qed.

Lemma it_has_diag_b (r : row) i :
  existsb (fun e => Nat.eqb (fst e) i) r = true <-> In i (map fst r).
Proof.
  rewrite existsb_exists, in_map_iff. split.
  - intros (x & Hx & He). exists x. apply Nat.eqb_eq in He. auto.
  - intros (x & He & Hx). exists x. split; [exact Hx|apply Nat.eqb_eq; exact He].
Qed.

(* --- T4 (row level): sorted rows --- *)
Theorem ilut_row_sorted p (tau : S) Us D i r jd lr ur d t :
  ilut_row p tau Us D i r jd = (lr, ur, d, t) ->
  sorted_strict lr = true /\ sorted_strict ur = true.
Proof.
  rewrite it_ilut_row_eq. intro H. inversion H; subst; clear H.
  split; apply it_sort_row_sorted_strict, it_topk_nodup;
    [unfold it_Lc|unfold it_Uc]; apply it_nodup_map_filter, it_keep_nodup.
Qed.

(* no truncation -> no tie flag *)
Theorem ilut_row_no_cut_no_tie p (tau : S) Us D i r jd lr ur d t :
  ilut_row p tau Us D i r jd = (lr, ur, d, t) ->
  length (it_Lc tau Us D i r) <= trunc_len (it_lenL i r) p ->
  length (it_Uc tau Us D i r) <= it_up p tau Us D i r ->
  t = false /\ lr = sort_row (it_Lc tau Us D i r) /\ ur = sort_row (it_Uc tau Us D i r).
Proof.
  rewrite it_ilut_row_eq. intros H HL HU. inversion H; subst; clear H.
  rewrite (it_topk_all _ _ HL), (it_topk_all _ _ HU). simpl. auto.
Qed.

(* ================================================================== *)
(* 3. the whole factorisation                                         *)
Definition it_fstep (p : Q) (tau : S) (junk : vec)
  (st : list row * list row * vec * bool) (ir : nat * row) : list row * list row * vec * bool :=
  let '(Ls, Us, D, tie) := st in
  let '(lr, ur, d, t) := ilut_row p tau Us D (fst ir) (snd ir) (vget junk (fst ir)) in
  (Ls ++ [lr], Us ++ [ur], D ++ [d], orb tie t).

Lemma it_fold_rows p tau junk (rs : list row) :
  forall a Ls Us D tie Ls' Us' D' tie',
  length Ls = a -> length Us = a -> length D = a ->
  fold_left (it_fstep p tau junk) (combine (seq a (length rs)) rs) (Ls, Us, D, tie)
    = (Ls', Us', D', tie') ->
  length Ls' = a + length rs /\ length Us' = a + length rs /\ length D' = a + length rs /\
  firstn a Ls' = Ls /\ firstn a Us' = Us /\ firstn a D' = D /\
  (forall k, k < length rs -> exists t,
     ilut_row p tau (firstn (a + k) Us') (firstn (a + k) D') (a + k) (nth k rs [])
              (vget junk (a + k))
     = (nth (a + k) Ls' [], nth (a + k) Us' [], vget D' (a + k), t)).
Proof.
  induction rs as [|r rs IH]; intros a Ls Us D tie Ls' Us' D' tie' HL HU HD H.
  - simpl in H. injection H as <- <- <- <-. simpl length. rewrite Nat.add_0_r.
    split; [exact HL|]. split; [exact HU|]. split; [exact HD|].
    split; [apply it_firstn_len; exact HL|]. split; [apply it_firstn_len; exact HU|].
    split; [apply it_firstn_len; exact HD|]. intros k Hk. lia.
  - simpl in H.
    destruct (ilut_row p tau Us D a r (vget junk a)) as [[[lr ur] d] t] eqn:E.
    apply IH in H; [|rewrite app_length; simpl; lia ..].
    destruct H as (H1 & H2 & H3 & H4 & H5 & H6 & H7).
    destruct (it_firstn_snoc Ls Ls' lr [] a HL H4) as [F1 N1].
    destruct (it_firstn_snoc Us Us' ur [] a HU H5) as [F2 N2].
    destruct (it_firstn_snoc D D' d s0 a HD H6) as [F3 N3].
    simpl length. repeat split; try lia; try assumption.
    intros [|k] Hk.
    + exists t. rewrite Nat.add_0_r, F2, F3. unfold vget at 2. rewrite N1, N2, N3. exact E.
    + replace (a + Datatypes.S k) with (Datatypes.S a + k) by lia.
      simpl nth. apply H7. simpl in Hk. lia.
Qed.

(* Row-by-row characterisation: row i of the factors is ilut_row applied to row i of A
   and the first i rows of U / first i pivots. *)
Theorem ilut_rowwise p (tau : S) (A : crs) (junk : vec) (L U : crs) (D : vec) tie :
  ilut p tau A junk = (L, U, D, tie) ->
  nrows L = nrows A /\ nrows U = nrows A /\ length D = nrows A /\
  ncols L = nrows A /\ ncols U = nrows A /\
  forall i, i < nrows A -> exists t,
    ilut_row p tau (firstn i (rows U)) (firstn i D) i (nth i (rows A) []) (vget junk i)
    = (nth i (rows L) [], nth i (rows U) [], vget D i, t).
Proof.
  unfold ilut. fold (it_fstep p tau junk). unfold indexed.
  destruct (fold_left _ _ _) as [[[Ls Us] D'] tie'] eqn:E.
  intro H. inversion H; subst; clear H.
  apply it_fold_rows in E; [|reflexivity ..].
  destruct E as (H1 & H2 & H3 & _ & _ & _ & H7).
  unfold nrows in *. simpl in *.
  split; [exact H1|]. split; [exact H2|]. split; [exact H3|].
  split; [reflexivity|]. split; [reflexivity|]. exact H7.
Qed.

(* T1 *)
Theorem ilut_structure p (tau : S) (A : crs) (junk : vec) (L U : crs) (D : vec) tie :
  ilut p tau A junk = (L, U, D, tie) ->
  nrows L = nrows A /\ nrows U = nrows A /\ length D = nrows A /\
  ncols L = nrows A /\ ncols U = nrows A /\
  (forall i c v, In (c, v) (nth i (rows L) []) -> c < i) /\
  (forall i c v, In (c, v) (nth i (rows U) []) -> i < c).
Proof.
  intro H. apply ilut_rowwise in H as (H1 & H2 & H3 & H4 & H5 & H6).
  repeat split; try assumption.
  - intros i c v Hin. destruct (Nat.lt_ge_cases i (nrows A)) as [Hi|Hi].
    + destruct (H6 i Hi) as [t E]. eapply ilut_row_lower in E; [apply E|exact Hin].
    + rewrite nth_overflow in Hin by (unfold nrows in *; lia). destruct Hin.
  - intros i c v Hin. destruct (Nat.lt_ge_cases i (nrows A)) as [Hi|Hi].
    + destruct (H6 i Hi) as [t E]. eapply ilut_row_upper in E; [apply E|exact Hin].
    + rewrite nth_overflow in Hin by (unfold nrows in *; lia). destruct Hin.
Qed.

Corollary ilut_strict_lower p (tau : S) (A : crs) junk (L U : crs) (D : vec) tie :
  ilut p tau A junk = (L, U, D, tie) -> strict_lower L.
Proof. intro H. apply ilut_structure in H. unfold strict_lower. apply H. Qed.

(* T2 *)
Theorem ilut_budget p (tau : S) (A : crs) (junk : vec) (L U : crs) (D : vec) tie :
  ilut p tau A junk = (L, U, D, tie) ->
  forall i, i < nrows A ->
    length (nth i (rows L) [])
      <= trunc_len (length (filter (fun e => Nat.ltb (fst e) i) (nth i (rows A) []))) p /\
    length (nth i (rows U) [])
      <= trunc_len (length (filter (fun e => Nat.ltb i (fst e)) (nth i (rows A) []))) p /\
    (In i (map fst (nth i (rows A) [])) ->
     length (nth i (rows U) [])
       <= Nat.pred (trunc_len (length (filter (fun e => Nat.ltb i (fst e)) (nth i (rows A) []))) p)).
Proof.
  intros H i Hi. apply ilut_rowwise in H as (_ & _ & _ & _ & _ & H6).
  destruct (H6 i Hi) as [t E].
  pose proof (ilut_row_budget _ _ _ _ _ _ _ _ _ _ _ E) as [B1 B2].
  split; [exact B1|]. split; [exact B2|].
  intro Hd. eapply ilut_row_budget_diag; eassumption.
Qed.

(* T3 *)
Theorem ilut_diag_kept p (tau : S) (A : crs) (junk : vec) (L U : crs) (D : vec) tie :
  ilut p tau A junk = (L, U, D, tie) ->
  forall i, i < nrows A -> In i (map fst (nth i (rows A) [])) ->
  exists v,
    tfind (it_w1 tau (firstn i (rows U)) (firstn i D) i (nth i (rows A) [])) i = Some v /\
    vget D i = sinv v.
Proof.
  intros H i Hi Hd. apply ilut_rowwise in H as (_ & _ & _ & _ & _ & H6).
  destruct (H6 i Hi) as [t E].
  destruct (ilut_row_diag_kept _ _ _ _ _ _ _ _ _ _ _ E Hd) as (v & Hv & _ & Hdv).
  exists v. split; assumption.
Qed.

(* same with the boolean test on the input row *)
Corollary ilut_diag_kept_b p (tau : S) (A : crs) (junk : vec) (L U : crs) (D : vec) tie :
  ilut p tau A junk = (L, U, D, tie) ->
  forall i, i < nrows A ->
  existsb (fun e => Nat.eqb (fst e) i) (nth i (rows A) []) = true ->
  exists v, vget D i = sinv v.
Proof.
  intros H i Hi Hd. apply it_has_diag_b in Hd.
  destruct (ilut_diag_kept _ _ _ _ _ _ _ _ H i Hi Hd) as (v & _ & Hv). exists v; exact Hv.
Qed.

(* the junk cell can only be read for rows whose eliminated work row has no column i *)
Theorem ilut_diag_value p (tau : S) (A : crs) (junk : vec) (L U : crs) (D : vec) tie :
  ilut p tau A junk = (L, U, D, tie) ->
  forall i, i < nrows A ->
  vget D i =
  match tfind (it_w1 tau (firstn i (rows U)) (firstn i D) i (nth i (rows A) [])) i with
  | Some v => sinv v
  | None => vget junk i
  end.
Proof.
  intros H i Hi. apply ilut_rowwise in H as (_ & _ & _ & _ & _ & H6).
  destruct (H6 i Hi) as [t E]. apply (ilut_row_diag_value _ _ _ _ _ _ _ _ _ _ _ E).
Qed.

(* T4 *)
Theorem ilut_sorted p (tau : S) (A : crs) (junk : vec) (L U : crs) (D : vec) tie :
  ilut p tau A junk = (L, U, D, tie) ->
  forall i, sorted_strict (nth i (rows L) []) = true /\ sorted_strict (nth i (rows U) []) = true.
Proof.
  intros H i. apply ilut_rowwise in H as (H1 & H2 & _ & _ & _ & H6).
  destruct (Nat.lt_ge_cases i (nrows A)) as [Hi|Hi].
  - destruct (H6 i Hi) as [t E]. apply (ilut_row_sorted _ _ _ _ _ _ _ _ _ _ _ E).
  - rewrite !nth_overflow by (unfold nrows in *; lia). split; reflexivity.
Qed.

(* ---------------- column range of the factors ---------------- *)
(* every column index stays below m (needed for x[col] in the triangular solves) *)
Definition it_bnd (m : nat) (w : row) : Prop := forall x, In x (map fst w) -> x < m.

Lemma it_bnd_tupd m (w : row) c f : c < m -> it_bnd m w -> it_bnd m (tupd w c f).
Proof.
  intros Hc Hw x Hx. apply it_tupd_cols in Hx as [->|Hx]; [exact Hc|apply Hw; exact Hx].
Qed.

Lemma it_bnd_step m tol Us (D : vec) (w : row) c :
  it_bnd m w -> it_bnd m (nth c Us []) -> it_bnd m (ilut_step tol Us D w c).
Proof.
  intros Hw Hu. unfold ilut_step. destruct (tfind w c) as [v|] eqn:E; [|exact Hw].
  cbv zeta.
  assert (Hc : c < m).
  { apply Hw. apply it_tfind_in in E. apply (in_map fst) in E. exact E. }
  destruct (sltb tol _); [|apply it_bnd_tupd; assumption].
  apply fold_left_inv; [apply it_bnd_tupd; assumption|].
  intros a b Hb Ha. apply it_bnd_tupd; [|exact Ha].
  apply Hu. apply in_map. exact Hb.
Qed.

Lemma it_w1_bnd m tau Us D i (r : row) :
  it_bnd m r -> (forall c, it_bnd m (nth c Us [])) -> it_bnd m (it_w1 tau Us D i r).
Proof.
  intros Hr HUs. unfold it_w1. apply fold_left_inv.
  - unfold it_w0. apply fold_left_inv; [intros x []|].
    intros a b Hb Ha. apply it_bnd_tupd; [|exact Ha]. apply Hr. apply in_map. exact Hb.
  - intros a b _ Ha. apply it_bnd_step; [exact Ha|apply HUs].
Qed.

Theorem ilut_row_cols_bound m p (tau : S) Us D i r jd lr ur d t :
  ilut_row p tau Us D i r jd = (lr, ur, d, t) ->
  it_bnd m r -> (forall c, it_bnd m (nth c Us [])) ->
  it_bnd m lr /\ it_bnd m ur.
Proof.
  intros H Hr HUs. pose proof (it_w1_bnd m tau Us D i r Hr HUs) as Hw.
  split; intros x Hx; apply in_map_iff in Hx as ([c v] & <- & Hin).
  - apply (ilut_row_lower _ _ _ _ _ _ _ _ _ _ _ H) in Hin as (_ & Hin & _).
    apply Hw. apply (in_map fst) in Hin. exact Hin.
  - apply (ilut_row_upper _ _ _ _ _ _ _ _ _ _ _ H) in Hin as (_ & Hin & _).
    apply Hw. apply (in_map fst) in Hin. exact Hin.
Qed.

Lemma it_nth_firstn_in {X} (l : list (list X)) i c u :
  In u (nth c (firstn i l) []) -> c < i /\ In u (nth c l []).
Proof.
  revert i c; induction l as [|a l IH]; intros [|i] [|c] H; simpl in *; try contradiction.
  - split; [lia|exact H].
  - apply IH in H as [H1 H2]. split; [lia|exact H2].
Qed.

Theorem ilut_cols_bound p (tau : S) (A : crs) (junk : vec) (L U : crs) (D : vec) tie :
  ilut p tau A junk = (L, U, D, tie) -> wf A = true ->
  forall i, it_bnd (ncols A) (nth i (rows U) []).
Proof.
  intros H Hwf. apply ilut_rowwise in H as (_ & H2 & _ & _ & _ & H6).
  assert (HA : forall i, it_bnd (ncols A) (nth i (rows A) [])).
  { intros i x Hx. apply in_map_iff in Hx as (e & <- & He).
    destruct (Nat.lt_ge_cases i (nrows A)) as [Hi|Hi].
    - unfold wf in Hwf. rewrite forallb_forall in Hwf.
      specialize (Hwf _ (nth_In _ [] Hi)). unfold row_wf in Hwf.
      rewrite forallb_forall in Hwf. apply Hwf in He. apply Nat.ltb_lt. exact He.
    - rewrite nth_overflow in He by exact Hi. destruct He. }
  assert (HP : forall n j, j < n -> it_bnd (ncols A) (nth j (rows U) [])).
  { induction n as [|n IH]; intros j Hj; [lia|].
    destruct (Nat.eq_dec j n) as [->|Hne]; [|apply IH; lia].
    destruct (Nat.lt_ge_cases n (nrows A)) as [Hn|Hn].
    - destruct (H6 n Hn) as [t E].
      eapply (ilut_row_cols_bound (ncols A)) in E; [apply E|apply HA|].
      intros c x Hx. apply in_map_iff in Hx as (u & <- & Hu).
      apply it_nth_firstn_in in Hu as [Hc Hu]. apply (IH c Hc). apply in_map. exact Hu.
    - rewrite nth_overflow by (unfold nrows in *; lia). intros x []. }
  intro i. apply (HP (Datatypes.S i)). lia.
Qed.

(* U in the sense of IluProofs.strict_upper: i < col < ncols A *)
Corollary ilut_strict_upper p (tau : S) (A : crs) junk (L U : crs) (D : vec) tie :
  ilut p tau A junk = (L, U, D, tie) -> wf A = true -> strict_upper (ncols A) U.
Proof.
  intros H Hwf i c v Hin. split.
  - apply ilut_structure in H as (_ & _ & _ & _ & _ & _ & HU). eapply HU; exact Hin.
  - apply (ilut_cols_bound _ _ _ _ _ _ _ _ H Hwf i). apply (in_map fst) in Hin. exact Hin.
Qed.

End AnyScalar.
