(* AmgBlockNc.v -- the dense Galerkin theorems of C03 for NON-COMMUTATIVE value types
   (amgcl::static_matrix<T,b,b> blocks: Scalar instance BlockInst.BlockS, ring laws NcRingBlock.v).

   The statement of C03_galerkin_dense,
       mget (galerkin A P R) i j = sum_k  R_ik * (sum_l  A_kl * P_lj),
   keeps every product in the operand order of the code (spgemm_saad multiplies the entry of the
   LEFT matrix by the entry of the right one), so it holds verbatim without commutativity; only
   the proofs of MatOpsProofs.v (which use the commutative [ring] tactic) have to be redone with
   the non-commutative normaliser.  Scaling: scale(A, s) multiplies every value by s from the
   RIGHT (A.val[j] *= s), also kept. *)
From Coq Require Import Sorting.Sorted.
From Amgcl Require Import Scalar Vec Crs Kernels KernelsProofs NcRing NcKernels MatOps MatOpsProofs Amg AmgExec AmgProofs.
Local Open Scope S_scope.

Section NcGalerkin.
Context {S : Scalar}.
Local Notation vec := (vec S).
Local Notation row := (row S).
Local Notation crs := (crs S).
Hypothesis Hnc : ncring_theory S.
Local Instance ncg : NcRingInst S := ncring_inst Hnc.

Lemma nc_rget_single c (v : S) j : rget [(c, v)] j = if Nat.eqb c j then v else s0.
Proof. rewrite (nc_rget_cons Hnc), nc_rget_nil. simpl. destruct (Nat.eqb c j); ncr. Qed.

Lemma nc_rget_row_add (r : row) c v j :
  rget (row_add r c v) j = rget r j + (if Nat.eqb c j then v else s0).
Proof.
  induction r as [|[c' v'] r IH]; simpl.
  - rewrite nc_rget_single, nc_rget_nil. ncr.
  - destruct (Nat.eqb_spec c' c) as [->|Hne].
    + rewrite !(nc_rget_cons Hnc). simpl. destruct (Nat.eqb c j); ncr.
    + rewrite !(nc_rget_cons Hnc), IH. ncr.
Qed.

Lemma nc_rget_fold_row_add (a : S) (rb acc : row) j :
  rget (fold_left (fun acc eb => row_add acc (fst eb) (a * snd eb)) rb acc) j
  = rget acc j + a * rget rb j.
Proof.
  revert acc; induction rb as [|e rb IH]; intro acc; simpl.
  - rewrite nc_rget_nil. ncr.
  - rewrite IH, nc_rget_row_add, (nc_rget_cons Hnc). destruct (Nat.eqb (fst e) j); ncr.
Qed.

Lemma nc_rget_spgemm_fold (B : crs) (ra acc : row) j :
  rget (fold_left (fun acc ea =>
          fold_left (fun acc eb => row_add acc (fst eb) (snd ea * snd eb))
                    (nth (fst ea) (rows B) []) acc) ra acc) j
  = rget acc j + row_lin ra B j.
Proof.
  revert acc; induction ra as [|e ra IH]; intro acc; simpl.
  - ncr.
  - rewrite IH, nc_rget_fold_row_add. ncr.
Qed.

Lemma nc_rget_spgemm_row (ra : row) (B : crs) j : rget (spgemm_row ra B) j = row_lin ra B j.
Proof. unfold spgemm_row. rewrite nc_rget_spgemm_fold, nc_rget_nil. ncr. Qed.

Lemma nc_sumn_delta_mul (c : nat) (v : S) (f : nat -> S) n :
  sumn (fun k => (if Nat.eqb c k then v else s0) * f k) n = if Nat.ltb c n then v * f c else s0.
Proof.
  induction n as [|n IH]; simpl; [reflexivity|]. rewrite IH.
  destruct (Nat.eqb_spec c n) as [->|Hne].
  - rewrite Nat.ltb_irrefl.
    replace (n <? Datatypes.S n)%nat with true by (symmetry; apply Nat.ltb_lt; lia). ncr.
  - destruct (Nat.ltb_spec c n); destruct (Nat.ltb_spec c (Datatypes.S n)); try lia; ncr.
Qed.

Lemma nc_row_lin_dense (ra : row) (B : crs) j m : row_wf m ra = true ->
  row_lin ra B j = sumn (fun k => rget ra k * mget B k j) m.
Proof.
  induction ra as [|e ra IH]; intro Hwf.
  - simpl. rewrite (sumn_ext _ (fun _ => s0)).
    + symmetry; apply (ncsumn_zero Hnc).
    + intros; rewrite nc_rget_nil; ncr.
  - simpl in Hwf. apply andb_prop in Hwf as [He Hr]. simpl. rewrite IH by exact Hr.
    rewrite (sumn_ext (fun k => rget (e :: ra) k * mget B k j)
               (fun k => (if Nat.eqb (fst e) k then snd e else s0) * mget B k j + rget ra k * mget B k j)).
    + rewrite (ncsumn_add Hnc), nc_sumn_delta_mul, He. reflexivity.
    + intros k _. rewrite (nc_rget_cons Hnc). ncr.
Qed.

Lemma nc_rget_ins_right (e : nat * S) (r : row) j : rget (ins_right e r) j = rget (e :: r) j.
Proof.
  induction r as [|a r IH]; simpl; [reflexivity|].
  destruct (Nat.leb (fst a) (fst e)); [|reflexivity].
  rewrite (nc_rget_cons Hnc), IH, !(nc_rget_cons Hnc). ncr.
Qed.

Lemma nc_rget_sort_fold (r acc : row) j :
  rget (fold_left (fun acc e => ins_right e acc) r acc) j = rget acc j + rget r j.
Proof.
  revert acc; induction r as [|e r IH]; intro acc; simpl.
  - rewrite nc_rget_nil. ncr.
  - rewrite IH, nc_rget_ins_right, !(nc_rget_cons Hnc). ncr.
Qed.

Lemma nc_rget_sort_row (r : row) j : rget (sort_row r) j = rget r j.
Proof. unfold sort_row. rewrite nc_rget_sort_fold, nc_rget_nil. ncr. Qed.

Lemma nc_mget_out_of_range (A : crs) i j : nrows A <= i -> mget A i j = s0.
Proof. intro H. unfold mget. rewrite nth_overflow by exact H. reflexivity. Qed.

(* spgemm_saad, dense, operand order kept: (A B)_ij = sum_k A_ik * B_kj *)
Theorem nc_spgemm_saad_dense (A B : crs) (sort : bool) i j : wf A = true ->
  mget (spgemm_saad A B sort) i j = sumn (fun k => mget A i k * mget B k j) (ncols A).
Proof.
  intros Hwf. destruct (Nat.lt_ge_cases i (nrows A)) as [Hi|Hi].
  - unfold mget at 1, spgemm_saad. simpl rows.
    rewrite (nth_map_nil (fun ra => if sort then sort_row (spgemm_row ra B) else spgemm_row ra B))
      by (destruct sort; reflexivity).
    cbv beta.
    transitivity (row_lin (nth i (rows A) []) B j).
    + destruct sort; [rewrite nc_rget_sort_row|]; apply nc_rget_spgemm_row.
    + apply nc_row_lin_dense. apply forallb_nth; assumption.
  - rewrite nc_mget_out_of_range
      by (destruct (spgemm_saad_shape A B sort) as [-> _]; exact Hi).
    rewrite (sumn_ext _ (fun _ => s0)).
    + symmetry. apply (ncsumn_zero Hnc).
    + intros k _. rewrite (nc_mget_out_of_range A) by exact Hi. ncr.
Qed.

Lemma nc_rget_map_scale (r : row) (s : S) j :
  rget (map (fun e => (fst e, snd e * s)) r) j = rget r j * s.
Proof.
  induction r as [|e r IH]; simpl.
  - rewrite nc_rget_nil. ncr.
  - rewrite !(nc_rget_cons Hnc), IH. simpl. destruct (Nat.eqb (fst e) j); ncr.
Qed.

Theorem nc_mscale_dense (A : crs) (s : S) i j : mget (mscale A s) i j = mget A i j * s.
Proof.
  unfold mget, mscale. simpl rows.
  rewrite (nth_map_nil (map (fun e => (fst e, snd e * s)))) by reflexivity.
  apply nc_rget_map_scale.
Qed.

Theorem nc_sort_rows_dense (A : crs) i j : mget (sort_rows A) i j = mget A i j.
Proof.
  unfold mget, sort_rows. simpl rows.
  rewrite (nth_map_nil (@sort_row S)) by reflexivity. apply nc_rget_sort_row.
Qed.

(* C03 T5 without commutativity *)
Theorem nc_galerkin_dense (A P R : crs) i j : wf A = true -> wf R = true ->
  mget (galerkin A P R) i j =
  sumn (fun k => mget R i k * sumn (fun l => mget A k l * mget P l j) (ncols A)) (ncols R).
Proof.
  intros HA HR. unfold galerkin. rewrite nc_spgemm_saad_dense by exact HR.
  apply sumn_ext. intros k _. rewrite nc_spgemm_saad_dense by exact HA. reflexivity.
Qed.

Theorem nc_scaled_galerkin_dense s (A P R : crs) i j : wf A = true -> wf R = true ->
  mget (scaled_galerkin s A P R) i j =
  sumn (fun k => mget R i k * sumn (fun l => mget A k l * mget P l j) (ncols A)) (ncols R) * s.
Proof.
  intros HA HR. unfold scaled_galerkin. rewrite nc_mscale_dense, nc_galerkin_dense by assumption.
  reflexivity.
Qed.

Theorem nc_chain_galerkin_dense (ls : list (@ldesc S)) : chain (@galerkin S) ls ->
  forall n A P R next i j,
  nth_error ls n = Some (LMid A P R) -> nth_error ls (Datatypes.S n) = Some next ->
  wf A = true -> wf R = true ->
  mget (ld_A next) i j =
  sumn (fun k => mget R i k * sumn (fun l => mget A k l * mget P l j) (ncols A)) (ncols R).
Proof.
  intros Hc n A P R next i j H1 H2 HA HR.
  rewrite (chain_adjacent _ ls Hc n A P R next H1 H2), nc_sort_rows_dense.
  apply nc_galerkin_dense; assumption.
Qed.

Theorem nc_chain_scaled_galerkin_dense s (ls : list (@ldesc S)) : chain (@scaled_galerkin S s) ls ->
  forall n A P R next i j,
  nth_error ls n = Some (LMid A P R) -> nth_error ls (Datatypes.S n) = Some next ->
  wf A = true -> wf R = true ->
  mget (ld_A next) i j =
  sumn (fun k => mget R i k * sumn (fun l => mget A k l * mget P l j) (ncols A)) (ncols R) * s.
Proof.
  intros Hc n A P R next i j H1 H2 HA HR.
  rewrite (chain_adjacent _ ls Hc n A P R next H1 H2), nc_sort_rows_dense.
  apply nc_scaled_galerkin_dense; assumption.
Qed.

(* --- transpose, dense, without commutativity (adjoint additive) --- *)
Section NcTranspose.
Hypothesis sadj_add : forall a b : S, sadj (a + b) = sadj a + sadj b.
Hypothesis sadj_0 : sadj (@s0 S) = s0.

Lemma nc_rget_tr_piece (i' : nat) (r : row) j i :
  rget (map (fun e => (i', sadj (snd e))) (filter (fun e => Nat.eqb (fst e) j) r)) i
  = if Nat.eqb i' i then sadj (rget r j) else s0.
Proof.
  induction r as [|e r IH]; simpl.
  - rewrite nc_rget_nil. destruct (Nat.eqb i' i); [symmetry; exact sadj_0|reflexivity].
  - rewrite (nc_rget_cons Hnc e r). destruct (Nat.eqb (fst e) j); simpl.
    + rewrite (nc_rget_cons Hnc), IH. simpl. destruct (Nat.eqb i' i).
      * rewrite sadj_add. reflexivity.
      * ncr.
    + rewrite IH. destruct (Nat.eqb i' i); [|reflexivity].
      f_equal. ncr.
Qed.

Lemma nc_rget_tr_rows (l : list row) (k : nat) j i :
  rget (flat_map (fun ir : nat * row => map (fun e => (fst ir, sadj (snd e)))
                                  (filter (fun e => Nat.eqb (fst e) j) (snd ir)))
                 (combine (seq k (length l)) l)) i
  = if andb (Nat.leb k i) (Nat.ltb i (k + length l)) then sadj (rget (nth (i - k) l []) j) else s0.
Proof.
  revert k; induction l as [|r l IH]; intro k; simpl.
  - rewrite nc_rget_nil. destruct (Nat.leb_spec k i); simpl; [|reflexivity].
    destruct (Nat.ltb_spec i (k + 0)%nat); [lia|reflexivity].
  - rewrite (nc_rget_app Hnc), nc_rget_tr_piece, IH. simpl fst.
    replace (k + Datatypes.S (length l))%nat with (Datatypes.S k + length l)%nat by lia.
    destruct (Nat.eqb_spec k i) as [->|Hne].
    + replace (i - i)%nat with 0%nat by lia.
      replace (Datatypes.S i <=? i) with false by (symmetry; apply Nat.leb_gt; lia).
      replace (i <=? i) with true by (symmetry; apply Nat.leb_le; lia).
      replace (i <? Datatypes.S i + length l) with true by (symmetry; apply Nat.ltb_lt; lia).
      cbn [andb nth]. ncr.
    + destruct (Nat.leb_spec (Datatypes.S k) i).
      * replace (k <=? i) with true by (symmetry; apply Nat.leb_le; lia).
        replace (i - k)%nat with (Datatypes.S (i - Datatypes.S k)) by lia.
        cbn [andb nth]. destruct (i <? Datatypes.S k + length l); ncr.
      * replace (k <=? i) with false by (symmetry; apply Nat.leb_gt; lia). cbn [andb]. ncr.
Qed.

Theorem nc_transpose_dense (A : crs) i j :
  j < ncols A ->
  mget (transpose A) j i = sadj (mget A i j).
Proof.
  intros Hj. unfold mget at 1, transpose. simpl rows.
  rewrite nth_map_seq by exact Hj. unfold indexed.
  rewrite nc_rget_tr_rows. cbn [Nat.leb andb].
  destruct (Nat.ltb_spec i (0 + length (rows A))%nat).
  - rewrite Nat.sub_0_r. reflexivity.
  - unfold mget. rewrite nth_overflow by lia. rewrite nc_rget_nil. symmetry; exact sadj_0.
Qed.
End NcTranspose.

End NcGalerkin.

(* ------------------------------------------------------------------ *)
(* Block value types: the closed instance and the EXPANDED view.
   [xget A i j] is the scalar cell (i, j) of a block-valued matrix (block (i/b, j/b), cell
   (i mod b, j mod b)) -- what the tie prints.  Theorem [xget_galerkin]: in the expanded view the
   block Galerkin product satisfies the SCALAR statement of C03 (with expanded sizes), i.e. the
   expansion commutes with R*A*P; scaling by an embedded base scalar scales every cell. *)
From Amgcl Require Import DirectUtil Inverse StaticMat StaticMatProofs BlockInst NcRingBlock.

Section BlockExpand.
Variable S0 : Scalar.
Variable b : nat.
Hypothesis Srt : Sring S0.
Hypothesis Hb : 0 < b.
Add Ring SRingExp : Srt.
Local Notation B := (BlockS S0 b).
Local Notation bcrs := (crs B).

Definition xget (A : bcrs) (i j : nat) : S0 :=
  blk_get (mget A (i / b)%nat (j / b)%nat) (i mod b)%nat (j mod b)%nat.

(* the C03 dense theorems at the block value type (operand order = code order) *)
Theorem block_galerkin_dense (A P R : bcrs) i j : wf A = true -> wf R = true ->
  mget (galerkin A P R) i j =
  sumn (fun k => mget R i k * sumn (fun l => mget A k l * mget P l j) (ncols A)) (ncols R).
Proof. exact (nc_galerkin_dense (BlockS_ncring S0 b Srt) A P R i j). Qed.

Theorem block_scaled_galerkin_dense (c : S0) (A P R : bcrs) i j : wf A = true -> wf R = true ->
  mget (scaled_galerkin (blk_embed S0 b c : B) A P R) i j =
  sumn (fun k => mget R i k * sumn (fun l => mget A k l * mget P l j) (ncols A)) (ncols R) * (blk_embed S0 b c : B).
Proof. exact (nc_scaled_galerkin_dense (BlockS_ncring S0 b Srt) (blk_embed S0 b c : B) A P R i j). Qed.

(* cells of a sum of blocks *)
Lemma blk_get_sumn (f : nat -> B) n r s : r < b -> s < b ->
  blk_get (sumn f n) r s = sumn (fun k => blk_get (f k) r s) n.
Proof.
  intros Hr Hs. induction n as [|n IH]; simpl.
  - apply blk_get_zero; assumption.
  - change (blk_get (blk_add S0 b (sumn f n) (f n)) r s = sumn (fun k => blk_get (f k) r s) n + blk_get (f n) r s).
    rewrite blk_get_add by assumption. rewrite IH. reflexivity.
Qed.

(* a sum over [0, n*b) read block-wise *)
Lemma sumn_plus (f : nat -> S0) a c : sumn f (a + c)%nat = sumn f a + sumn (fun r => f (a + r)%nat) c.
Proof.
  induction c as [|c IH]; simpl.
  - rewrite Nat.add_0_r. ring.
  - replace (a + Datatypes.S c)%nat with (Datatypes.S (a + c)) by lia. simpl. rewrite IH. ring.
Qed.
Lemma sumn_flat (f : nat -> S0) n :
  sumn (fun K => sumn (fun r => f (K * b + r)%nat) b) n = sumn f (n * b)%nat.
Proof.
  induction n as [|n IH]; simpl; [reflexivity|].
  rewrite IH. replace (b + n * b)%nat with (n * b + b)%nat by lia. rewrite sumn_plus. reflexivity.
Qed.

Lemma block_index K t : t < b -> ((K * b + t) / b = K /\ (K * b + t) mod b = t)%nat.
Proof.
  intro Ht. split.
  - rewrite Nat.div_add_l by lia. rewrite (Nat.div_small t b) by lia. lia.
  - rewrite (Nat.add_comm (K * b)%nat), Nat.mod_add by lia. apply Nat.mod_small. exact Ht.
Qed.

Lemma xget_at (A : bcrs) I K r t : r < b -> t < b ->
  xget A (I * b + r)%nat (K * b + t)%nat = blk_get (mget A I K) r t.
Proof.
  intros Hr Ht. unfold xget.
  destruct (block_index I r Hr) as [-> ->]. destruct (block_index K t Ht) as [-> ->]. reflexivity.
Qed.

(* cells of a block product of matrices *)
Lemma xget_product (X Y : nat -> nat -> B) (m : nat) I J r s : r < b -> s < b ->
  blk_get (sumn (fun K => (X I K : B) * Y K J) m) r s =
  sumn (fun k => blk_get (X I (k / b)%nat) r (k mod b) * blk_get (Y (k / b)%nat J) (k mod b) s) (m * b)%nat.
Proof.
  intros Hr Hs. rewrite blk_get_sumn by assumption.
  rewrite <- (sumn_flat (fun k => blk_get (X I (k / b)%nat) r (k mod b) * blk_get (Y (k / b)%nat J) (k mod b) s)).
  apply sumn_ext. intros K _.
  change (blk_get (blk_mul S0 b (X I K) (Y K J)) r s =
          sumn (fun t => blk_get (X I ((K * b + t) / b)%nat) r ((K * b + t) mod b)%nat *
                         blk_get (Y ((K * b + t) / b)%nat J) ((K * b + t) mod b)%nat s) b).
  rewrite blk_get_mul by assumption. apply sumn_ext. intros t Ht.
  destruct (block_index K t Ht) as [-> ->]. reflexivity.
Qed.

(* the expansion commutes with the Galerkin product *)
Theorem xget_galerkin (A P R : bcrs) i j : wf A = true -> wf R = true ->
  xget (galerkin A P R) i j =
  sumn (fun k => xget R i k * sumn (fun l => xget A k l * xget P l j) (ncols A * b)%nat) (ncols R * b)%nat.
Proof.
  intros HA HR.
  assert (Hr : (i mod b < b)%nat) by (apply Nat.mod_upper_bound; lia).
  assert (Hs : (j mod b < b)%nat) by (apply Nat.mod_upper_bound; lia).
  unfold xget at 1. rewrite block_galerkin_dense by assumption.
  rewrite (xget_product (fun I K => mget R I K)
             (fun K J => sumn (fun l => (mget A K l : B) * mget P l J) (ncols A))) by assumption.
  apply sumn_ext. intros k _.
  assert (Ht : (k mod b < b)%nat) by (apply Nat.mod_upper_bound; lia).
  f_equal.
  rewrite (xget_product (fun K L => mget A K L) (fun L J => mget P L J)) by assumption.
  apply sumn_ext. intros l _. reflexivity.
Qed.

(* scale(A, s) with a base scalar s: every cell is multiplied by s *)
Theorem xget_mscale (A : bcrs) (c : S0) i j :
  xget (mscale A (blk_embed S0 b c : B)) i j = xget A i j * c.
Proof.
  unfold xget. rewrite (nc_mscale_dense (BlockS_ncring S0 b Srt)).
  apply (blk_embed_mul_r S0 b Srt); apply Nat.mod_upper_bound; lia.
Qed.

Theorem xget_scaled_galerkin (c : S0) (A P R : bcrs) i j : wf A = true -> wf R = true ->
  xget (scaled_galerkin (blk_embed S0 b c : B) A P R) i j =
  sumn (fun k => xget R i k * sumn (fun l => xget A k l * xget P l j) (ncols A * b)%nat) (ncols R * b)%nat * c.
Proof.
  intros HA HR. unfold scaled_galerkin. rewrite xget_mscale, xget_galerkin by assumption. reflexivity.
Qed.

Theorem xget_sort_rows (A : bcrs) i j : xget (sort_rows A) i j = xget A i j.
Proof. unfold xget. rewrite (nc_sort_rows_dense (BlockS_ncring S0 b Srt)). reflexivity. Qed.

(* transpose() of a block-valued matrix (math::adjoint of every block) is, in the expanded view,
   the transpose with the cell-wise adjoint: "R = adjoint P" for blocks is "R = adjoint P" for the
   expansions *)
Section BlockAdjoint.
Hypothesis sadj_add0 : forall x y : S0, sadj (x + y) = sadj x + sadj y.
Hypothesis sadj_00 : sadj (@s0 S0) = s0.

Lemma blk_get_adj (x : blk S0 b) r s : r < b -> s < b ->
  blk_get (blk_adj S0 b x) s r = sadj (blk_get x r s).
Proof.
  intros Hr Hs. unfold blk_get, blk_adj; simpl. unfold sm_adjoint.
  rewrite sm_of_fun_get by assumption. reflexivity.
Qed.
Lemma blk_adj_add (x y : B) : sadj (x + y) = sadj x + sadj y.
Proof.
  apply (blk_ext_get S0 b). intros i j Hi Hj.
  change (blk_get (blk_adj S0 b (blk_add S0 b x y)) i j =
          blk_get (blk_add S0 b (blk_adj S0 b x) (blk_adj S0 b y)) i j).
  rewrite blk_get_adj, !blk_get_add, !blk_get_adj by assumption. apply sadj_add0.
Qed.
Lemma blk_adj_0 : sadj (@s0 B) = s0.
Proof.
  apply (blk_ext_get S0 b). intros i j Hi Hj.
  change (blk_get (blk_adj S0 b (blk_zero S0 b)) i j = blk_get (blk_zero S0 b) i j).
  rewrite blk_get_adj, !blk_get_zero by assumption. exact sadj_00.
Qed.

Theorem xget_transpose (A : bcrs) i j : (j < ncols A * b)%nat ->
  xget (transpose A) j i = sadj (xget A i j).
Proof.
  intro Hj. unfold xget.
  assert (Hr : (i mod b < b)%nat) by (apply Nat.mod_upper_bound; lia).
  assert (Hs : (j mod b < b)%nat) by (apply Nat.mod_upper_bound; lia).
  rewrite (nc_transpose_dense (BlockS_ncring S0 b Srt) blk_adj_add blk_adj_0)
    by (apply Nat.div_lt_upper_bound; lia).
  change (blk_get (blk_adj S0 b (mget A (i / b) (j / b))) (j mod b) (i mod b) =
          sadj (blk_get (mget A (i / b) (j / b)) (i mod b) (j mod b))).
  apply blk_get_adj; assumption.
Qed.
End BlockAdjoint.

End BlockExpand.
