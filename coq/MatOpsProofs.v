(* MatOpsProofs.v -- proofs about the sparse matrix kernels of MatOps.v (property C08):
   dense characterisations (commutative ring), well-formedness / no duplicate columns /
   sortedness (any Scalar). *)
From Coq Require Import Sorting.Sorted Sorting.Permutation.
From Amgcl Require Import Scalar Vec Crs Kernels KernelsProofs MatOps.
Local Open Scope S_scope.

(* entries of row [ra] times the rows of B they select, at column j:
   sum over the stored entries (c, v) of ra of  v * B[c][j] *)
Definition row_lin {S : Scalar} (ra : row S) (B : crs S) (j : nat) : S :=
  fold_right (fun e acc => snd e * rget (nth (fst e) (rows B) []) j + acc) s0 ra.

(* ------------------------------------------------------------------ *)
Section RingLaws.
Context {S : Scalar}.
Local Notation vec := (vec S).
Local Notation row := (row S).
Local Notation crs := (crs S).
Hypothesis Srt : Sring S.
Add Ring SRing2 : Srt.

Lemma rget_app (r1 r2 : row) j : rget (r1 ++ r2) j = rget r1 j + rget r2 j.
Proof.
  induction r1 as [|e r1 IH]; simpl.
  - rewrite rget_nil. ring.
  - rewrite !(rget_cons Srt), IH. ring.
Qed.

Lemma rget_single c (v : S) j : rget [(c, v)] j = if Nat.eqb c j then v else s0.
Proof. rewrite (rget_cons Srt), rget_nil. simpl. destruct (Nat.eqb c j); ring. Qed.

(* the marker logic adds v to the dense entry (row, c) and changes nothing else *)
Lemma rget_row_add (r : row) c v j :
  rget (row_add r c v) j = rget r j + (if Nat.eqb c j then v else s0).
Proof.
  induction r as [|[c' v'] r IH]; simpl.
  - rewrite rget_single, rget_nil. ring.
  - destruct (Nat.eqb_spec c' c) as [->|Hne].
    + rewrite !(rget_cons Srt). simpl. destruct (Nat.eqb c j); ring.
    + rewrite !(rget_cons Srt), IH. ring.
Qed.

(* inner loop of saad / both loops of sum *)
Lemma rget_fold_row_add (a : S) (rb acc : row) j :
  rget (fold_left (fun acc eb => row_add acc (fst eb) (a * snd eb)) rb acc) j
  = rget acc j + a * rget rb j.
Proof.
  revert acc; induction rb as [|e rb IH]; intro acc; simpl.
  - rewrite rget_nil. ring.
  - rewrite IH, rget_row_add, (rget_cons Srt). destruct (Nat.eqb (fst e) j); ring.
Qed.

Lemma rget_spgemm_fold (B : crs) (ra acc : row) j :
  rget (fold_left (fun acc ea =>
          fold_left (fun acc eb => row_add acc (fst eb) (snd ea * snd eb))
                    (nth (fst ea) (rows B) []) acc) ra acc) j
  = rget acc j + row_lin ra B j.
Proof.
  revert acc; induction ra as [|e ra IH]; intro acc; simpl.
  - ring.
  - rewrite IH, rget_fold_row_add. ring.
Qed.

Lemma rget_spgemm_row (ra : row) (B : crs) j : rget (spgemm_row ra B) j = row_lin ra B j.
Proof. unfold spgemm_row. rewrite rget_spgemm_fold, rget_nil. ring. Qed.

Lemma sumn_delta_mul (c : nat) (v : S) (f : nat -> S) n :
  sumn (fun k => (if Nat.eqb c k then v else s0) * f k) n = if Nat.ltb c n then v * f c else s0.
Proof.
  induction n as [|n IH]; simpl; [reflexivity|]. rewrite IH.
  destruct (Nat.eqb_spec c n) as [->|Hne].
  - rewrite Nat.ltb_irrefl.
    replace (n <? Datatypes.S n)%nat with true by (symmetry; apply Nat.ltb_lt; lia). ring.
  - destruct (Nat.ltb_spec c n); destruct (Nat.ltb_spec c (Datatypes.S n)); try lia; ring.
Qed.

(* row_lin is the dense row-times-matrix product *)
Lemma row_lin_dense (ra : row) (B : crs) j m : row_wf m ra = true ->
  row_lin ra B j = sumn (fun k => rget ra k * mget B k j) m.
Proof.
  induction ra as [|e ra IH]; intro Hwf.
  - simpl. rewrite (sumn_ext _ (fun _ => s0)).
    + symmetry; apply (sumn_zero Srt).
    + intros; rewrite rget_nil; ring.
  - simpl in Hwf. apply andb_prop in Hwf as [He Hr]. simpl. rewrite IH by exact Hr.
    rewrite (sumn_ext (fun k => rget (e :: ra) k * mget B k j)
               (fun k => (if Nat.eqb (fst e) k then snd e else s0) * mget B k j + rget ra k * mget B k j)).
    + rewrite (sumn_add Srt), sumn_delta_mul, He. reflexivity.
    + intros k _. rewrite (rget_cons Srt). ring.
Qed.

(* --- sort_row preserves the dense row --- *)
Lemma rget_ins_right (e : nat * S) (r : row) j : rget (ins_right e r) j = rget (e :: r) j.
Proof.
  induction r as [|a r IH]; simpl; [reflexivity|].
  destruct (Nat.leb (fst a) (fst e)); [|reflexivity].
  rewrite (rget_cons Srt), IH, !(rget_cons Srt). ring.
Qed.

Lemma rget_sort_fold (r acc : row) j :
  rget (fold_left (fun acc e => ins_right e acc) r acc) j = rget acc j + rget r j.
Proof.
  revert acc; induction r as [|e r IH]; intro acc; simpl.
  - rewrite rget_nil. ring.
  - rewrite IH, rget_ins_right, !(rget_cons Srt). ring.
Qed.

Lemma rget_sort_row (r : row) j : rget (sort_row r) j = rget r j.
Proof. unfold sort_row. rewrite rget_sort_fold, rget_nil. ring. Qed.

(* --- spgemm_saad: dense characterisation, unsorted rows and duplicates allowed --- *)
Lemma nth_map_nil {X} (f : list X -> row) (l : list (list X)) i :
  f [] = [] -> nth i (map f l) [] = f (nth i l []).
Proof. intro H. rewrite <- H at 1. apply map_nth. Qed.

Theorem spgemm_saad_dense (A B : crs) (sort : bool) i j :
  wf A = true -> i < nrows A ->
  mget (spgemm_saad A B sort) i j = sumn (fun k => mget A i k * mget B k j) (ncols A).
Proof.
  intros Hwf Hi. unfold mget at 1, spgemm_saad. simpl rows.
  rewrite (nth_map_nil (fun ra => if sort then sort_row (spgemm_row ra B) else spgemm_row ra B))
    by (destruct sort; reflexivity).
  cbv beta.
  assert (E : rget (if sort then sort_row (spgemm_row (nth i (rows A) []) B)
                    else spgemm_row (nth i (rows A) []) B) j = row_lin (nth i (rows A) []) B j).
  { destruct sort; [rewrite rget_sort_row|]; apply rget_spgemm_row. }
  transitivity (row_lin (nth i (rows A) []) B j); [exact E|]. apply row_lin_dense. apply forallb_nth; assumption.
Qed.

(* --- sum --- *)
Lemma rget_sum_row alpha (ra : row) beta (rb : row) j :
  rget (sum_row alpha ra beta rb) j = alpha * rget ra j + beta * rget rb j.
Proof. unfold sum_row. rewrite !rget_fold_row_add, rget_nil. ring. Qed.

Lemma nth_map2 {X Y} (f : X -> Y -> row) (l1 : list X) (l2 : list Y) i d1 d2 :
  i < length l1 -> length l1 = length l2 ->
  nth i (map2 f l1 l2) [] = f (nth i l1 d1) (nth i l2 d2).
Proof.
  revert l2 i; induction l1 as [|a l1 IH]; intros [|b l2] i Hi Hl; simpl in *; try lia.
  destruct i as [|i]; [reflexivity|]. apply IH; lia.
Qed.

Theorem msum_dense alpha (A : crs) beta (B : crs) (sort : bool) i j :
  nrows A = nrows B -> i < nrows A ->
  mget (msum alpha A beta B sort) i j = alpha * mget A i j + beta * mget B i j.
Proof.
  intros Hn Hi. unfold mget, msum. simpl rows.
  rewrite (nth_map2 _ (rows A) (rows B) i [] []) by assumption.
  destruct sort; [rewrite rget_sort_row|]; apply rget_sum_row.
Qed.

(* --- scale --- *)
Lemma rget_map_scale (r : row) (s : S) j :
  rget (map (fun e => (fst e, snd e * s)) r) j = rget r j * s.
Proof.
  induction r as [|e r IH]; simpl.
  - rewrite rget_nil. ring.
  - rewrite !(rget_cons Srt), IH. simpl. destruct (Nat.eqb (fst e) j); ring.
Qed.

Theorem mscale_dense (A : crs) (s : S) i j : mget (mscale A s) i j = mget A i j * s.
Proof.
  unfold mget, mscale. simpl rows.
  rewrite (nth_map_nil (map (fun e => (fst e, snd e * s)))) by reflexivity.
  apply rget_map_scale.
Qed.

(* --- sort_rows --- *)
Theorem sort_rows_dense (A : crs) i j : mget (sort_rows A) i j = mget A i j.
Proof.
  unfold mget, sort_rows. simpl rows.
  rewrite (nth_map_nil sort_row) by reflexivity. apply rget_sort_row.
Qed.

Lemma nth_map_seq {X} (f : nat -> X) m j d : j < m -> nth j (map f (seq 0 m)) d = f j.
Proof.
  intros H. rewrite (nth_indep _ d (f 0%nat)) by (rewrite map_length, seq_length; lia).
  rewrite map_nth, seq_nth by lia. reflexivity.
Qed.

(* --- transpose (needs: adjoint is additive) --- *)
Section Transpose.
Hypothesis sadj_add : forall a b : S, sadj (a + b) = sadj a + sadj b.
Hypothesis sadj_0 : sadj (@s0 S) = s0.

(* the entries of column j of one row, re-labelled with the row index i' *)
Lemma rget_tr_piece (i' : nat) (r : row) j i :
  rget (map (fun e => (i', sadj (snd e))) (filter (fun e => Nat.eqb (fst e) j) r)) i
  = if Nat.eqb i' i then sadj (rget r j) else s0.
Proof.
  induction r as [|e r IH]; simpl.
  - rewrite rget_nil. destruct (Nat.eqb i' i); [symmetry; exact sadj_0|reflexivity].
  - rewrite (rget_cons Srt e r). destruct (Nat.eqb (fst e) j); simpl.
    + rewrite (rget_cons Srt), IH. simpl. destruct (Nat.eqb i' i).
      * rewrite sadj_add. reflexivity.
      * ring.
    + rewrite IH. destruct (Nat.eqb i' i); [|reflexivity].
      f_equal. ring.
Qed.

Lemma rget_tr_rows (l : list row) (k : nat) j i :
  rget (flat_map (fun ir : nat * row => map (fun e => (fst ir, sadj (snd e)))
                                  (filter (fun e => Nat.eqb (fst e) j) (snd ir)))
                 (combine (seq k (length l)) l)) i
  = if andb (Nat.leb k i) (Nat.ltb i (k + length l)) then sadj (rget (nth (i - k) l []) j) else s0.
Proof.
  revert k; induction l as [|r l IH]; intro k; simpl.
  - rewrite rget_nil. destruct (Nat.leb_spec k i); simpl; [|reflexivity].
    destruct (Nat.ltb_spec i (k + 0)%nat); [lia|reflexivity].
  - rewrite rget_app, rget_tr_piece, IH. simpl fst.
    replace (k + Datatypes.S (length l))%nat with (Datatypes.S k + length l)%nat by lia.
    destruct (Nat.eqb_spec k i) as [->|Hne].
    + replace (i - i)%nat with 0%nat by lia.
      replace (Datatypes.S i <=? i) with false by (symmetry; apply Nat.leb_gt; lia).
      replace (i <=? i) with true by (symmetry; apply Nat.leb_le; lia).
      replace (i <? Datatypes.S i + length l) with true by (symmetry; apply Nat.ltb_lt; lia).
      cbn [andb nth]. ring.
    + destruct (Nat.leb_spec (Datatypes.S k) i).
      * replace (k <=? i) with true by (symmetry; apply Nat.leb_le; lia).
        replace (i - k)%nat with (Datatypes.S (i - Datatypes.S k)) by lia.
        cbn [andb nth]. destruct (i <? Datatypes.S k + length l); ring.
      * replace (k <=? i) with false by (symmetry; apply Nat.leb_gt; lia). cbn [andb]. ring.
Qed.

Theorem transpose_dense (A : crs) i j :
  j < ncols A ->
  mget (transpose A) j i = sadj (mget A i j).
Proof.
  intros Hj. unfold mget at 1, transpose. simpl rows.
  rewrite nth_map_seq by exact Hj. unfold indexed.
  rewrite rget_tr_rows. cbn [Nat.leb andb].
  destruct (Nat.ltb_spec i (0 + length (rows A))%nat).
  - rewrite Nat.sub_0_r. reflexivity.
  - unfold mget. rewrite nth_overflow by lia. rewrite rget_nil. symmetry; exact sadj_0.
Qed.
End Transpose.

(* --- diagonal: link between the first stored diagonal entry and the dense entry --- *)
Lemma first_col_none_dense (r : row) i : first_col r i = None -> rget r i = s0.
Proof.
  induction r as [|[c v] r IH]; simpl; intro H; [apply rget_nil|].
  rewrite (rget_cons Srt). simpl. destruct (Nat.eqb c i); [discriminate|].
  rewrite IH by exact H. ring.
Qed.

Lemma rget_notin (r : row) i : ~ In i (map fst r) -> rget r i = s0.
Proof.
  induction r as [|[c v] r IH]; simpl; intro H; [apply rget_nil|].
  rewrite (rget_cons Srt). simpl. destruct (Nat.eqb_spec c i) as [->|Hne].
  - exfalso; apply H; left; reflexivity.
  - rewrite IH by (intro; apply H; right; assumption). ring.
Qed.

(* with distinct columns the first diagonal entry IS the dense diagonal entry *)
Lemma first_col_some_dense (r : row) i d :
  NoDup (map fst r) -> first_col r i = Some d -> rget r i = d.
Proof.
  induction r as [|[c v] r IH]; simpl; intros Hnd H; [discriminate|].
  inversion Hnd as [|? ? Hnotin Hnd']; subst.
  rewrite (rget_cons Srt). simpl. destruct (Nat.eqb_spec c i) as [->|Hne].
  - injection H as ->. rewrite rget_notin by exact Hnotin. ring.
  - rewrite (IH Hnd' H). ring.
Qed.

(* in general (duplicate diagonal entries) only this holds: the FIRST one is returned,
   the dense entry is the first one plus the remaining ones *)
Lemma first_col_some_split (r : row) i d :
  first_col r i = Some d ->
  exists r1 r2, r = r1 ++ (i, d) :: r2 /\ ~ In i (map fst r1) /\ rget r i = d + rget r2 i.
Proof.
  induction r as [|[c v] r IH]; simpl; intro H; [discriminate|].
  destruct (Nat.eqb_spec c i) as [->|Hne].
  - injection H as ->. exists [], r. split; [reflexivity|]. split; [intros []|].
    rewrite (rget_cons Srt). simpl. rewrite Nat.eqb_refl. reflexivity.
  - destruct (IH H) as (r1 & r2 & -> & Hn & E). exists ((c, v) :: r1), r2.
    split; [reflexivity|]. split.
    + simpl. intros [Hc|Hin]; [exact (Hne Hc)|exact (Hn Hin)].
    + rewrite (rget_cons Srt). simpl. destruct (Nat.eqb_spec c i); [contradiction|].
      rewrite E. ring.
Qed.


End RingLaws.

(* ------------------------------------------------------------------ *)
(* Structure: statements that need no algebraic law (every Scalar).    *)
Section AnyScalar.
Context {S : Scalar}.
Local Notation vec := (vec S).
Local Notation row := (row S).
Local Notation crs := (crs S).

Lemma row_wf_iff m (r : row) : row_wf m r = true <-> Forall (fun e => fst e < m) r.
Proof.
  unfold row_wf. rewrite forallb_forall, Forall_forall.
  split; intros H e He; specialize (H e He); [apply Nat.ltb_lt|apply Nat.ltb_lt]; exact H.
Qed.

Lemma row_wf_nth m (l : list row) c : forallb (row_wf m) l = true -> row_wf m (nth c l []) = true.
Proof.
  intro H. destruct (Nat.lt_ge_cases c (length l)) as [Hc|Hc].
  - apply forallb_nth; assumption.
  - rewrite nth_overflow by exact Hc. reflexivity.
Qed.

(* --- row_add --- *)
Lemma row_wf_row_add m (r : row) c v :
  row_wf m r = true -> c < m -> row_wf m (row_add r c v) = true.
Proof.
  induction r as [|[c' v'] r IH]; simpl; intros H Hc.
  - rewrite andb_true_r. apply Nat.ltb_lt; exact Hc.
  - apply andb_prop in H as [H1 H2]. destruct (Nat.eqb c' c); simpl; rewrite H1; simpl.
    + exact H2.
    + apply IH; assumption.
Qed.

Lemma In_row_add (r : row) c v x :
  In x (map fst (row_add r c v)) <-> In x (map fst r) \/ x = c.
Proof.
  induction r as [|[c' v'] r IH]; simpl.
  - intuition.
  - destruct (Nat.eqb_spec c' c) as [->|Hne]; simpl.
    + intuition.
    + rewrite IH. intuition.
Qed.

Lemma NoDup_row_add (r : row) c v : NoDup (map fst r) -> NoDup (map fst (row_add r c v)).
Proof.
  induction r as [|[c' v'] r IH]; simpl; intro H.
  - constructor; [intros []|constructor].
  - destruct (Nat.eqb_spec c' c) as [->|Hne]; simpl; [exact H|].
    inversion H as [|? ? Hn Hd]; subst. constructor.
    + rewrite In_row_add. intros [Hin|Heq]; [exact (Hn Hin)|exact (Hne Heq)].
    + apply IH; exact Hd.
Qed.

Lemma fold_row_add_NoDup {X} (g : X -> nat) (h : X -> S) (l : list X) (acc : row) :
  NoDup (map fst acc) ->
  NoDup (map fst (fold_left (fun acc e => row_add acc (g e) (h e)) l acc)).
Proof.
  revert acc; induction l as [|e l IH]; intros acc H; simpl; [exact H|].
  apply IH. apply NoDup_row_add; exact H.
Qed.

Lemma fold_row_add_wf {X} (g : X -> nat) (h : X -> S) m (l : list X) (acc : row) :
  row_wf m acc = true -> Forall (fun e => g e < m) l ->
  row_wf m (fold_left (fun acc e => row_add acc (g e) (h e)) l acc) = true.
Proof.
  revert acc; induction l as [|e l IH]; intros acc H Hl; simpl; [exact H|].
  inversion Hl; subst. apply IH; [|assumption]. apply row_wf_row_add; assumption.
Qed.

(* --- sort_row: a permutation, sorted, stable --- *)
Definition lec (x y : nat * S) : Prop := fst x <= fst y.

Lemma ins_right_perm (e : nat * S) (r : row) : Permutation (ins_right e r) (e :: r).
Proof.
  induction r as [|a r IH]; simpl; [apply Permutation_refl|].
  destruct (Nat.leb (fst a) (fst e)); [|apply Permutation_refl].
  eapply Permutation_trans; [apply perm_skip; exact IH|apply perm_swap].
Qed.

Lemma sort_fold_perm (r acc : row) :
  Permutation (fold_left (fun acc e => ins_right e acc) r acc) (acc ++ r).
Proof.
  revert acc; induction r as [|e r IH]; intro acc; simpl.
  - rewrite app_nil_r. apply Permutation_refl.
  - eapply Permutation_trans; [apply IH|].
    eapply Permutation_trans; [apply Permutation_app_tail; apply ins_right_perm|].
    simpl. apply Permutation_middle.
Qed.

Theorem sort_row_perm (r : row) : Permutation (sort_row r) r.
Proof. unfold sort_row. apply (sort_fold_perm r []). Qed.

Lemma ins_right_SS (e : nat * S) (r : row) :
  StronglySorted lec r -> StronglySorted lec (ins_right e r).
Proof.
  induction r as [|a r IH]; simpl; intro H.
  - constructor; [constructor|constructor].
  - inversion H as [|? ? Hss Hall]; subst.
    destruct (Nat.leb_spec (fst a) (fst e)) as [Hle|Hgt].
    + constructor; [apply IH; exact Hss|].
      rewrite Forall_forall in *. intros x Hx.
      apply (Permutation_in _ (ins_right_perm e r)) in Hx. destruct Hx as [<-|Hx].
      * exact Hle.
      * apply Hall; exact Hx.
    + constructor; [exact H|]. constructor; [unfold lec; lia|].
      rewrite Forall_forall in *. intros x Hx. specialize (Hall x Hx). unfold lec in *. lia.
Qed.

Lemma sort_fold_SS (r acc : row) :
  StronglySorted lec acc -> StronglySorted lec (fold_left (fun acc e => ins_right e acc) r acc).
Proof.
  revert acc; induction r as [|e r IH]; intros acc H; simpl; [exact H|].
  apply IH. apply ins_right_SS; exact H.
Qed.

Theorem sort_row_SS (r : row) : StronglySorted lec (sort_row r).
Proof. unfold sort_row. apply sort_fold_SS. constructor. Qed.

Lemma SS_sorted_weak (r : row) : StronglySorted lec r -> sorted_weak r = true.
Proof.
  induction r as [|e1 r IH]; intro H; [reflexivity|].
  inversion H as [|? ? Hss Hall]; subst. destruct r as [|e2 tl]; [reflexivity|].
  change (sorted_weak (e1 :: e2 :: tl)) with (Nat.leb (fst e1) (fst e2) && sorted_weak (e2 :: tl)).
  rewrite (IH Hss), andb_true_r.
  inversion Hall; subst. apply Nat.leb_le. assumption.
Qed.

Lemma SS_nodup_sorted_strict (r : row) :
  StronglySorted lec r -> NoDup (map fst r) -> sorted_strict r = true.
Proof.
  induction r as [|e1 r IH]; intros H Hnd; [reflexivity|].
  inversion H as [|? ? Hss Hall]; subst. simpl in Hnd. inversion Hnd as [|? ? Hn Hd]; subst.
  destruct r as [|e2 tl]; [reflexivity|].
  change (sorted_strict (e1 :: e2 :: tl)) with (Nat.ltb (fst e1) (fst e2) && sorted_strict (e2 :: tl)).
  rewrite (IH Hss Hd), andb_true_r.
  inversion Hall as [|? ? Hle _]; subst. apply Nat.ltb_lt. unfold lec in Hle.
  assert (fst e1 <> fst e2) by (intro E; apply Hn; simpl; left; symmetry; exact E). lia.
Qed.

Theorem sort_row_sorted (r : row) : sorted_weak (sort_row r) = true.
Proof. apply SS_sorted_weak, sort_row_SS. Qed.

Lemma filter_above_nil c (l : row) :
  Forall (fun x => c < fst x) l -> filter (fun x => Nat.eqb (fst x) c) l = [].
Proof.
  induction 1 as [|x l Hx _ IH]; simpl; [reflexivity|].
  destruct (Nat.eqb_spec (fst x) c); [lia|exact IH].
Qed.

Lemma ins_right_filter c (e : nat * S) (r : row) : StronglySorted lec r ->
  filter (fun x => Nat.eqb (fst x) c) (ins_right e r)
  = filter (fun x => Nat.eqb (fst x) c) r ++ (if Nat.eqb (fst e) c then [e] else []).
Proof.
  induction r as [|a r IH]; intro H.
  - simpl. destruct (Nat.eqb (fst e) c); reflexivity.
  - inversion H as [|? ? Hss Hall]; subst. simpl.
    destruct (Nat.leb_spec (fst a) (fst e)) as [Hle|Hgt].
    + simpl. rewrite (IH Hss). destruct (Nat.eqb (fst a) c); reflexivity.
    + destruct (Nat.eqb_spec (fst e) c) as [Hc|Hc].
      * assert (Z : filter (fun x => Nat.eqb (fst x) c) (a :: r) = []).
        { apply filter_above_nil. constructor; [lia|].
          rewrite Forall_forall in *. intros x Hx. specialize (Hall x Hx). unfold lec in Hall. lia. }
        cbn [filter]. destruct (Nat.eqb_spec (fst e) c); [|contradiction].
        cbn [filter] in Z. rewrite Z. reflexivity.
      * cbn [filter]. destruct (Nat.eqb_spec (fst e) c); [contradiction|].
        rewrite app_nil_r. reflexivity.
Qed.

Lemma sort_fold_filter c (r acc : row) : StronglySorted lec acc ->
  filter (fun x => Nat.eqb (fst x) c) (fold_left (fun acc e => ins_right e acc) r acc)
  = filter (fun x => Nat.eqb (fst x) c) acc ++ filter (fun x => Nat.eqb (fst x) c) r.
Proof.
  revert acc; induction r as [|e r IH]; intros acc H; simpl.
  - rewrite app_nil_r. reflexivity.
  - rewrite IH by (apply ins_right_SS; exact H). rewrite ins_right_filter by exact H.
    rewrite <- app_assoc. destruct (Nat.eqb (fst e) c); reflexivity.
Qed.

(* stability: entries with the same column keep their relative order *)
Theorem sort_row_stable (r : row) c :
  filter (fun x => Nat.eqb (fst x) c) (sort_row r) = filter (fun x => Nat.eqb (fst x) c) r.
Proof. unfold sort_row. rewrite sort_fold_filter by constructor. reflexivity. Qed.

Lemma row_wf_perm m (r r' : row) : Permutation r r' -> row_wf m r' = true -> row_wf m r = true.
Proof.
  intros P. rewrite !row_wf_iff, !Forall_forall. intros H e He. apply H.
  apply (Permutation_in _ P). exact He.
Qed.

Lemma sort_row_wf m (r : row) : row_wf m r = true -> row_wf m (sort_row r) = true.
Proof. apply row_wf_perm, sort_row_perm. Qed.

Lemma sort_row_nodup (r : row) : NoDup (map fst r) -> NoDup (map fst (sort_row r)).
Proof.
  intro H. eapply Permutation_NoDup; [|exact H].
  apply Permutation_map, Permutation_sym, sort_row_perm.
Qed.

Lemma sort_row_length (r : row) : length (sort_row r) = length r.
Proof. apply Permutation_length, sort_row_perm. Qed.

(* --- rows of a product --- *)
Lemma spgemm_row_nodup (ra : row) (B : crs) : NoDup (map fst (spgemm_row ra B)).
Proof.
  unfold spgemm_row.
  assert (G : forall acc, NoDup (map fst acc) ->
     NoDup (map fst (fold_left (fun acc ea =>
        fold_left (fun acc eb => row_add acc (fst eb) (snd ea * snd eb)%S)
                  (nth (fst ea) (rows B) []) acc) ra acc))).
  { induction ra as [|e ra IH]; intros acc H; simpl; [exact H|].
    apply IH. apply (fold_row_add_NoDup fst (fun eb => (snd e * snd eb)%S)). exact H. }
  apply G. constructor.
Qed.

Lemma spgemm_row_wf (ra : row) (B : crs) : wf B = true -> row_wf (ncols B) (spgemm_row ra B) = true.
Proof.
  intro HB. unfold spgemm_row.
  assert (G : forall acc, row_wf (ncols B) acc = true ->
     row_wf (ncols B) (fold_left (fun acc ea =>
        fold_left (fun acc eb => row_add acc (fst eb) (snd ea * snd eb)%S)
                  (nth (fst ea) (rows B) []) acc) ra acc) = true).
  { induction ra as [|e ra IH]; intros acc H; simpl; [exact H|].
    apply IH. apply (fold_row_add_wf fst (fun eb => (snd e * snd eb)%S)); [exact H|].
    apply row_wf_iff. apply row_wf_nth. exact HB. }
  apply G. reflexivity.
Qed.

Definition out_row (sort : bool) (r : row) : row := if sort then sort_row r else r.

Lemma out_row_wf m sort (r : row) : row_wf m r = true -> row_wf m (out_row sort r) = true.
Proof. destruct sort; simpl; [apply sort_row_wf|auto]. Qed.
Lemma out_row_nodup sort (r : row) : NoDup (map fst r) -> NoDup (map fst (out_row sort r)).
Proof. destruct sort; simpl; [apply sort_row_nodup|auto]. Qed.
Lemma out_row_sorted (r : row) : NoDup (map fst r) -> sorted_strict (out_row true r) = true.
Proof. intro H. simpl. apply SS_nodup_sorted_strict; [apply sort_row_SS|apply sort_row_nodup; exact H]. Qed.

Theorem spgemm_saad_wf (A B : crs) sort : wf B = true -> wf (spgemm_saad A B sort) = true.
Proof.
  intro HB. unfold wf, spgemm_saad. simpl. apply forallb_forall. intros r Hr.
  apply in_map_iff in Hr as (ra & <- & _). apply (out_row_wf _ sort). apply spgemm_row_wf; exact HB.
Qed.

Theorem spgemm_saad_shape (A B : crs) sort :
  nrows (spgemm_saad A B sort) = nrows A /\ ncols (spgemm_saad A B sort) = ncols B.
Proof. unfold nrows, spgemm_saad; simpl. rewrite map_length. auto. Qed.

Theorem spgemm_saad_nodup (A B : crs) sort :
  Forall (fun r => NoDup (map fst r)) (rows (spgemm_saad A B sort)).
Proof.
  apply Forall_forall. intros r Hr. unfold spgemm_saad in Hr; simpl in Hr.
  apply in_map_iff in Hr as (ra & <- & _). apply (out_row_nodup sort), spgemm_row_nodup.
Qed.

Theorem spgemm_saad_sorted (A B : crs) :
  Forall (fun r => sorted_strict r = true) (rows (spgemm_saad A B true)).
Proof.
  apply Forall_forall. intros r Hr. unfold spgemm_saad in Hr; simpl in Hr.
  apply in_map_iff in Hr as (ra & <- & _). apply (out_row_sorted (spgemm_row ra B)), spgemm_row_nodup.
Qed.

(* --- rows of a sum --- *)
Lemma sum_row_nodup alpha (ra : row) beta (rb : row) : NoDup (map fst (sum_row alpha ra beta rb)).
Proof.
  unfold sum_row.
  apply (fold_row_add_NoDup fst (fun e => (beta * snd e)%S)).
  apply (fold_row_add_NoDup fst (fun e => (alpha * snd e)%S)). constructor.
Qed.

Lemma sum_row_wf m alpha (ra : row) beta (rb : row) :
  row_wf m ra = true -> row_wf m rb = true -> row_wf m (sum_row alpha ra beta rb) = true.
Proof.
  intros Ha Hb. unfold sum_row.
  apply (fold_row_add_wf fst (fun e => (beta * snd e)%S)); [|apply row_wf_iff; exact Hb].
  apply (fold_row_add_wf fst (fun e => (alpha * snd e)%S)); [reflexivity|apply row_wf_iff; exact Ha].
Qed.

Lemma in_map2 {X Y Z} (f : X -> Y -> Z) l1 l2 z :
  In z (map2 f l1 l2) -> exists a b, In a l1 /\ In b l2 /\ z = f a b.
Proof.
  revert l2; induction l1 as [|a l1 IH]; intros [|b l2] H; simpl in H; try contradiction.
  destruct H as [<-|H].
  - exists a, b. simpl. auto.
  - destruct (IH _ H) as (a' & b' & ? & ? & ?). exists a', b'. simpl. auto.
Qed.

Lemma map2_length {X Y Z} (f : X -> Y -> Z) l1 l2 :
  length l1 = length l2 -> length (map2 f l1 l2) = length l1.
Proof.
  revert l2; induction l1 as [|a l1 IH]; intros [|b l2] H; simpl in *; try congruence.
  f_equal. apply IH. congruence.
Qed.

Theorem msum_wf alpha (A : crs) beta (B : crs) sort :
  wf A = true -> wf B = true -> ncols B = ncols A -> wf (msum alpha A beta B sort) = true.
Proof.
  intros HA HB Hc. unfold wf, msum. simpl. apply forallb_forall. intros r Hr.
  apply in_map2 in Hr as (ra & rb & Ha & Hb & ->).
  apply (out_row_wf _ sort). apply sum_row_wf.
  - unfold wf in HA. rewrite forallb_forall in HA. apply HA; exact Ha.
  - unfold wf in HB. rewrite forallb_forall in HB. rewrite <- Hc. apply HB; exact Hb.
Qed.

Theorem msum_shape alpha (A : crs) beta (B : crs) sort : nrows A = nrows B ->
  nrows (msum alpha A beta B sort) = nrows A /\ ncols (msum alpha A beta B sort) = ncols A.
Proof. intro H. unfold nrows, msum in *; simpl. rewrite map2_length by exact H. auto. Qed.

Theorem msum_nodup alpha (A : crs) beta (B : crs) sort :
  Forall (fun r => NoDup (map fst r)) (rows (msum alpha A beta B sort)).
Proof.
  apply Forall_forall. intros r Hr. unfold msum in Hr; simpl in Hr.
  apply in_map2 in Hr as (ra & rb & _ & _ & ->). apply (out_row_nodup sort), sum_row_nodup.
Qed.

Theorem msum_sorted alpha (A : crs) beta (B : crs) :
  Forall (fun r => sorted_strict r = true) (rows (msum alpha A beta B true)).
Proof.
  apply Forall_forall. intros r Hr. unfold msum in Hr; simpl in Hr.
  apply in_map2 in Hr as (ra & rb & _ & _ & ->).
  apply (out_row_sorted (sum_row alpha ra beta rb)), sum_row_nodup.
Qed.

(* --- scale, sort_rows --- *)
Theorem mscale_wf (A : crs) s : wf A = true -> wf (mscale A s) = true.
Proof.
  intro HA. unfold wf, mscale in *. simpl. rewrite forallb_forall in *. intros r Hr.
  apply in_map_iff in Hr as (r0 & <- & Hr0). specialize (HA r0 Hr0).
  apply row_wf_iff. apply row_wf_iff in HA. rewrite Forall_forall in *. intros e He.
  apply in_map_iff in He as (e0 & <- & He0). simpl. apply HA; exact He0.
Qed.

Theorem mscale_pattern (A : crs) s :
  map (map fst) (rows (mscale A s)) = map (map fst) (rows A) /\ ncols (mscale A s) = ncols A.
Proof.
  split; [|reflexivity]. unfold mscale; simpl. rewrite map_map. apply map_ext. intro r.
  rewrite map_map. apply map_ext. reflexivity.
Qed.

Theorem sort_rows_wf (A : crs) : wf A = true -> wf (sort_rows A) = true.
Proof.
  intro HA. unfold wf, sort_rows in *. simpl. rewrite forallb_forall in *. intros r Hr.
  apply in_map_iff in Hr as (r0 & <- & Hr0). apply sort_row_wf. apply HA; exact Hr0.
Qed.

Theorem sort_rows_sorted (A : crs) : Forall (fun r => sorted_weak r = true) (rows (sort_rows A)).
Proof.
  apply Forall_forall. intros r Hr. unfold sort_rows in Hr; simpl in Hr.
  apply in_map_iff in Hr as (r0 & <- & _). apply sort_row_sorted.
Qed.

Theorem sort_rows_shape (A : crs) : nrows (sort_rows A) = nrows A /\ ncols (sort_rows A) = ncols A.
Proof. unfold nrows, sort_rows; simpl. rewrite map_length. auto. Qed.

(* --- transpose: well-formed for every input --- *)
Lemma in_indexed {X} (l : list X) k x : In (k, x) (indexed l) -> k < length l.
Proof.
  unfold indexed. intro H. apply in_combine_l in H. apply in_seq in H. lia.
Qed.

Theorem transpose_wf (A : crs) : wf (transpose A) = true.
Proof.
  unfold wf, transpose. simpl. apply forallb_forall. intros r Hr.
  apply in_map_iff in Hr as (j & <- & _). apply row_wf_iff. apply Forall_forall. intros e He.
  apply in_flat_map in He as ([i ri] & Hir & He). apply in_map_iff in He as (e0 & <- & _).
  simpl. apply in_indexed in Hir. exact Hir.
Qed.

Theorem transpose_shape (A : crs) : nrows (transpose A) = ncols A /\ ncols (transpose A) = nrows A.
Proof. unfold nrows, transpose; simpl. rewrite map_length, seq_length. auto. Qed.

(* rows of the transpose list the row indices in increasing order *)
Lemma tr_row_sorted (l : list row) k j :
  StronglySorted lec
    (flat_map (fun ir : nat * row => map (fun e => (fst ir, sadj (snd e)))
                                  (filter (fun e => Nat.eqb (fst e) j) (snd ir)))
              (combine (seq k (length l)) l))
  /\ Forall (fun e => k <= fst e)
    (flat_map (fun ir : nat * row => map (fun e => (fst ir, sadj (snd e)))
                                  (filter (fun e => Nat.eqb (fst e) j) (snd ir)))
              (combine (seq k (length l)) l)).
Proof.
  revert k; induction l as [|r l IH]; intro k; simpl.
  - split; constructor.
  - destruct (IH (Datatypes.S k)) as [IH1 IH2]. set (tl := flat_map _ _) in *.
    assert (G : forall (p : row), StronglySorted lec (map (fun e => (k, sadj (snd e))) p ++ tl)
                        /\ Forall (fun e => k <= fst e) (map (fun e => (k, sadj (snd e))) p ++ tl)).
    { induction p as [|e p [IHp1 IHp2]]; simpl.
      - split; [exact IH1|]. eapply Forall_impl; [|exact IH2]. simpl. intros; lia.
      - split; [|constructor; [simpl; lia|exact IHp2]].
        constructor; [exact IHp1|]. eapply Forall_impl; [|exact IHp2]. intros a Ha. unfold lec. simpl. exact Ha. }
    apply G.
Qed.

Theorem transpose_sorted (A : crs) : Forall (fun r => sorted_weak r = true) (rows (transpose A)).
Proof.
  apply Forall_forall. intros r Hr. unfold transpose in Hr; simpl in Hr.
  apply in_map_iff in Hr as (j & <- & _). apply SS_sorted_weak. apply (tr_row_sorted (rows A) 0 j).
Qed.

(* --- diagonal --- *)
Lemma nth_indexed {X} (l : list X) i (d : X) : i < length l -> nth i (indexed l) (0, d) = (i, nth i l d).
Proof.
  intro H. unfold indexed. rewrite combine_nth by (rewrite seq_length; reflexivity).
  rewrite seq_nth by exact H. reflexivity.
Qed.

Theorem diagonal_length (A : crs) invert (junk : vec) : length (diagonal A invert junk) = nrows A.
Proof. unfold diagonal, indexed, nrows. rewrite map_length, combine_length, seq_length. lia. Qed.

(* entry i = the FIRST stored entry (i, d) of row i (inverted: identity for d = 0);
   rows without such an entry keep the previous content of the output cell *)
Theorem diagonal_spec (A : crs) invert (junk : vec) i : i < nrows A ->
  vget (diagonal A invert junk) i =
  match first_col (nth i (rows A) []) i with
  | Some d => diag_val invert d
  | None => vget junk i
  end.
Proof.
  intro Hi. unfold vget, diagonal.
  set (g := fun ir : nat * row => match first_col (snd ir) (fst ir) with
                                  | Some d => diag_val invert d | None => nth (fst ir) junk s0 end).
  rewrite (nth_indep _ s0 (g (0, []))).
  - rewrite (map_nth g). rewrite nth_indexed by exact Hi. reflexivity.
  - rewrite map_length. unfold indexed. rewrite combine_length, seq_length. unfold nrows in Hi. lia.
Qed.

(* with a diagonal entry in every row the uninitialised output memory is irrelevant *)
Theorem diagonal_junk_independent (A : crs) invert (junk1 junk2 : vec) :
  has_diag A = true -> diagonal A invert junk1 = diagonal A invert junk2.
Proof.
  intro H. unfold diagonal. apply map_ext_in. intros ir Hir.
  unfold has_diag in H. rewrite forallb_forall in H. specialize (H ir Hir).
  destruct (first_col (snd ir) (fst ir)); [reflexivity|discriminate].
Qed.

End AnyScalar.
