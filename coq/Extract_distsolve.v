(* Extract_distsolve.v -- extraction of the C12 specification oracles, the rank-lifted solver
   model (DistSolve.v, which builds on Krylov.v), the PMIS model (Pmis.v) and the model of the distributed
   smoothed aggregation (DistSa.v) to OCaml.  Directives: ExtractCommon.v.
   StaticMat / BlockInst: the static_matrix<T,b,b> Scalar instance; DistSa.v is run at BlockInst.BlockS QcS b by
   ocaml/distsolve/ops_distsa.ml (block value types).
   DistRelax: the smoothers under MPI (runtime wrapper) rank by rank, with the serial smoother models it is built from
   (Relax, Cheby, Ilu, Spai1 + DenseSolve for the exact least-squares solve); ocaml/distsolve/ops_distrelax.ml. *)
From Amgcl Require Import ExtractCommon.
From Coq Require Import QArith Qcanon.
From Amgcl Require Import Scalar QcInst Vec Crs Kernels MatOps Dist Krylov DistSolve PmisSpec Pmis DistSa Inverse StaticMat BlockInst.
From Amgcl Require Import Relax Cheby Ilu DenseSolve Spai1 DistRelax.
Separate Extraction
  QcInst.QcS Scalar.is_zero Scalar.smax Scalar.smin
  Vec Crs Kernels MatOps Dist DistSolve PmisSpec Pmis DistSa StaticMat BlockInst
  Relax Cheby Ilu DenseSolve Spai1 DistRelax.
