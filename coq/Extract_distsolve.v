(* Extract_distsolve.v -- extraction of the C12 specification oracles and the rank-lifted solver
   model (DistSolve.v, which builds on Krylov.v) to OCaml.  Directives: ExtractCommon.v. *)
From Amgcl Require Import ExtractCommon.
From Coq Require Import QArith Qcanon.
From Amgcl Require Import Scalar QcInst Vec Crs Kernels MatOps Dist Krylov DistSolve PmisSpec Pmis.
Separate Extraction
  QcInst.QcS Scalar.is_zero Scalar.smax Scalar.smin
  Vec Crs Kernels MatOps Dist DistSolve PmisSpec Pmis.
