(* Extract_distsolve.v -- extraction of the C12 specification oracles, the rank-lifted solver
   model (DistSolve.v, which builds on Krylov.v), the PMIS model (Pmis.v) and the model of the distributed
   smoothed aggregation (DistSa.v) to OCaml.  Directives: ExtractCommon.v.
   StaticMat / BlockInst: the static_matrix<T,b,b> Scalar instance; DistSa.v is run at BlockInst.BlockS QcS b by
   ocaml/distsolve/ops_distsa.ml (block value types). *)
From Amgcl Require Import ExtractCommon.
From Coq Require Import QArith Qcanon.
From Amgcl Require Import Scalar QcInst Vec Crs Kernels MatOps Dist Krylov DistSolve PmisSpec Pmis DistSa Inverse StaticMat BlockInst.
Separate Extraction
  QcInst.QcS Scalar.is_zero Scalar.smax Scalar.smin
  Vec Crs Kernels MatOps Dist DistSolve PmisSpec Pmis DistSa StaticMat BlockInst.
