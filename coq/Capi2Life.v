(* Capi2Life.v -- the call histories of Capi2.v refine the bare handle protocol of Capi.v (C20-A2):
   a history has defined behaviour iff its erasure is a disciplined create/use/destroy script. *)
From Coq Require Import String List Bool Arith ZArith Lia.
From Amgcl Require Import Ptree Capi CapiProofs Capi2 Capi2Proofs.
Import ListNotations.

Section CLayer.
  Variable V : Type.
  Variable dv : V.
  Variable X : Type.
  Variable Obj : Type.
  Variable Res : Type.
  Variable new_precond : nat -> matrix V -> option ptree -> Obj.
  Variable new_solver : nat -> matrix V -> option ptree -> Obj.
  Variable precond_apply : Obj -> X -> X -> X * Obj.
  Variable solver_solve : Obj -> X -> X -> (Res * X) * Obj.
  Variable solver_solve_mtx : Obj -> matrix V -> X -> X -> (Res * X) * Obj.

  Local Notation table := (table Obj).
  Local Notation exec_r := (exec_r V dv X Obj Res new_precond new_solver precond_apply solver_solve solver_solve_mtx).
  Local Notation runR := (runR V dv X Obj Res new_precond new_solver precond_apply solver_solve solver_solve_mtx).
  Local Notation tlookup := (tlookup Obj).

  (* the live set of Capi.v abstracts the table: same handles, same kinds *)
  Definition abs (s : live) (tb : table) : Prop :=
    forall h, lookup_h h s = option_map (kind_of Obj) (tlookup h tb).

  Lemma abs_nil : abs [] [].
  Proof. intros h. reflexivity. Qed.

  Lemma abs_cons s tb h e : abs s tb -> abs ((h, kind_of Obj e) :: s) ((h, e) :: tb).
  Proof. intros H h0. simpl. destruct (Nat.eqb h h0); [reflexivity | apply H]. Qed.

  Lemma abs_tset s tb h e e' : abs s tb -> tlookup h tb = Some e -> kind_of Obj e' = kind_of Obj e -> abs s (tset Obj h e' tb).
  Proof.
    intros H L K h0. destruct (Nat.eq_dec h h0) as [<-|Hne].
    - rewrite tlookup_tset_same. rewrite (H h), L. simpl. rewrite K. reflexivity.
    - rewrite tlookup_tset_other by exact Hne. apply H.
  Qed.

  Lemma abs_remove s tb h : abs s tb -> abs (remove_h h s) (tremove Obj h tb).
  Proof.
    intros H h0. destruct (Nat.eq_dec h h0) as [<-|Hne].
    - rewrite lookup_remove_same, tlookup_tremove_same. reflexivity.
    - rewrite lookup_remove_other by exact Hne. rewrite tlookup_tremove_other by exact Hne. apply H.
  Qed.

  Lemma crun_app a : forall s b, crun s (a ++ b) = match crun s a with Some s1 => crun s1 b | None => None end.
  Proof.
    induction a as [|o a IH]; intros s b; simpl; [reflexivity|].
    destruct (cstep s o) as [s1|]; [apply IH | reflexivity].
  Qed.

  Lemma exec_r_protocol tb c s : abs s tb ->
    match exec_r tb c with
    | Some (tb1, _) => exists s1, crun s (erase V X c) = Some s1 /\ abs s1 tb1
    | None => crun s (erase V X c) = None
    end.
  Proof.
    intros A.
    destruct c as [h|h name text|h t'|h|f h n ptr col val prm|h rhs x|h|f h n ptr col val prm|f h rhs x|f h ptr col val rhs x|h]; simpl.
    - rewrite (A h). destruct (tlookup h tb) as [e|]; simpl; [reflexivity|].
      eexists. split; [reflexivity|]. exact (abs_cons s tb h (EParams Obj empty_ptree) A).
    - rewrite (A h). destruct (tlookup h tb) as [[t|n o|n o]|] eqn:L; simpl; try reflexivity.
      eexists. split; [reflexivity|]. eapply abs_tset; [exact A | exact L | reflexivity].
    - rewrite (A h). destruct (tlookup h tb) as [[t|n o|n o]|] eqn:L; simpl; try reflexivity.
      eexists. split; [reflexivity|]. eapply abs_tset; [exact A | exact L | reflexivity].
    - rewrite (A h). destruct (tlookup h tb) as [[t|n o|n o]|] eqn:L; simpl; try reflexivity.
      eexists. split; [reflexivity|]. apply abs_remove. exact A.
    - destruct prm as [p|]; simpl.
      + rewrite (A p). destruct (tlookup p tb) as [[t|n0 o|n0 o]|]; simpl; try reflexivity.
        rewrite (A h). destruct (tlookup h tb) as [e|]; simpl; [reflexivity|].
        eexists. split; [reflexivity|]. exact (abs_cons s tb h (EPrecond Obj n _) A).
      + rewrite (A h). destruct (tlookup h tb) as [e|]; simpl; [reflexivity|].
        eexists. split; [reflexivity|]. exact (abs_cons s tb h (EPrecond Obj n _) A).
    - rewrite (A h). destruct (tlookup h tb) as [[t|n o|n o]|] eqn:L; simpl; try reflexivity.
      eexists. split; [reflexivity|]. eapply abs_tset; [exact A | exact L | reflexivity].
    - rewrite (A h). destruct (tlookup h tb) as [[t|n o|n o]|] eqn:L; simpl; try reflexivity.
      eexists. split; [reflexivity|]. apply abs_remove. exact A.
    - destruct prm as [p|]; simpl.
      + rewrite (A p). destruct (tlookup p tb) as [[t|n0 o|n0 o]|]; simpl; try reflexivity.
        rewrite (A h). destruct (tlookup h tb) as [e|]; simpl; [reflexivity|].
        eexists. split; [reflexivity|]. exact (abs_cons s tb h (ESolver Obj n _) A).
      + rewrite (A h). destruct (tlookup h tb) as [e|]; simpl; [reflexivity|].
        eexists. split; [reflexivity|]. exact (abs_cons s tb h (ESolver Obj n _) A).
    - rewrite (A h). destruct (tlookup h tb) as [[t|n o|n o]|] eqn:L; simpl; try reflexivity.
      eexists. split; [reflexivity|]. eapply abs_tset; [exact A | exact L | reflexivity].
    - rewrite (A h). destruct (tlookup h tb) as [[t|n o|n o]|] eqn:L; simpl; try reflexivity.
      eexists. split; [reflexivity|]. eapply abs_tset; [exact A | exact L | reflexivity].
    - rewrite (A h). destruct (tlookup h tb) as [[t|n o|n o]|] eqn:L; simpl; try reflexivity.
      eexists. split; [reflexivity|]. apply abs_remove. exact A.
  Qed.

  Lemma runR_protocol tr : forall tb s, abs s tb ->
    match runR tb tr with
    | Some (_, tb1) => exists s1, crun s (flat_map (erase V X) tr) = Some s1 /\ abs s1 tb1
    | None => crun s (flat_map (erase V X) tr) = None
    end.
  Proof.
    induction tr as [|c tr IH]; intros tb s A; simpl.
    - exists s. split; [reflexivity | exact A].
    - rewrite crun_app. pose proof (exec_r_protocol tb c s A) as E.
      destruct (exec_r tb c) as [[tb1 o]|].
      + destruct E as (s1 & -> & A1). specialize (IH tb1 s1 A1).
        destruct (runR tb1 tr) as [[os tb2]|]; exact IH.
      + rewrite E. reflexivity.
  Qed.

  (* a history has defined behaviour (no dangling / wrongly typed handle) iff its erasure is disciplined *)
  Lemma history_defined_iff_disciplined tr :
    runR [] tr <> None <-> disciplined [] (flat_map (erase V X) tr) = true.
  Proof.
    pose proof (runR_protocol tr [] [] abs_nil) as P. rewrite disciplined_runs.
    destruct (runR [] tr) as [[os tb1]|].
    - destruct P as (s1 & R & _). split; [intros _; exists s1; exact R | intros _; discriminate].
    - rewrite P. split; [intros H; contradiction H; reflexivity | intros [s' H]; discriminate].
  Qed.
End CLayer.
