(* TentativeQrPolicies.v -- transfer_operators() of aggregation, smoothed_aggregation and smoothed_aggr_emin WITH a
   near-null space (nullspace.cols > 0), as coded: Aggregates aggr(A, prm.aggr, prm.nullspace.cols) -- i.e.
   min_aggregate = nullspace.cols -- then tentative_prolongation with the per-aggregate QR (TentativeQr.v), then the
   policy's own smoothing of P_tent (Coarsen.v: sa_smooth / emin_interpolation / emin_restriction, which are
   generic in P_tent).  Second component: the coarse near-null space left in prm.nullspace.B.
   Definitions only (extracted); theorems: TentativeQrGuard.v, EminProofs2.v. *)
From Amgcl Require Import Scalar Vec Crs Kernels MatOps MatOps2 Aggregates Tentative Coarsen DirectUtil Qr TentativeQr.
Local Open Scope S_scope.

Section Policies.
Context {S : Scalar}.
Local Notation vec := (vec S).
Local Notation mat := (mat (S:=S)).

(* remove_small_aggregates can delete EVERY aggregate (count = 0 although plain_aggregates passed its own
   `if (!count) throw error::empty_level()` test): finding C03-empty-coarse-level-direct-solver-crash.  The
   repair `if (!m) throw error::empty_level();` at the end of remove_small_aggregates turns exactly the results
   with count = 0 into empty_level (count = 0 can only come from remove_small_aggregates: min_aggregate > 1).
   [fx] = the tree under test contains the repaired line. *)
Definition pointwise_aggregates_fx (fx : bool) (eps2 : S) (bs mina : nat) (A : crs S) (junk : vec) : aggregates :=
  match pointwise_aggregates eps2 bs mina A junk with
  | AggOk 0 id st => if fx then AggEmpty else AggOk 0 id st
  | r => r
  end.

Definition with_tentative_ns (fx : bool) (eps2 : S) (bs cols : nat) (A : crs S) (junk : vec) (B : mat) (q0 : vec)
           (k : flags -> crs S -> crs S * crs S) : transfer S * list mat :=
  match pointwise_aggregates_fx fx eps2 bs cols A junk with
  | AggEmpty => (TrEmpty, [])
  | AggPrecond => (TrPrecond, [])
  | AggOk count id st =>
    let PB := tentative_prolongation_qr bs cols count id B q0 in
    let pr := k st (fst PB) in (TrOk (fst pr) (snd pr), snd PB)
  end.

Definition aggregation_transfer_ns (fx : bool) (eps2 : S) (bs cols : nat) (A : crs S) (junk : vec) (B : mat) (q0 : vec) :=
  with_tentative_ns fx eps2 bs cols A junk B q0 (fun _ Pt => (Pt, transpose Pt)).

Definition sa_transfer_ns (fx : bool) (eps2 omega : S) (bs cols : nat) (A : crs S) (junk : vec) (B : mat) (q0 : vec) :=
  with_tentative_ns fx eps2 bs cols A junk B q0 (fun st Pt => let P := sa_smooth omega A st Pt in (P, transpose P)).

Definition emin_transfer_ns (fx : bool) (nt : nat) (eps2 : S) (bs cols : nat) (A : crs S) (junk : vec) (B : mat) (q0 : vec) :=
  with_tentative_ns fx eps2 bs cols A junk B q0 (fun st Pt =>
    let fd := emin_filter A st in
    let po := emin_interpolation nt (fst fd) (snd fd) Pt in
    (fst po, emin_restriction nt (fst fd) (snd fd) Pt (snd po))).

End Policies.
