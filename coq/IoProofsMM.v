(* IoProofsMM.v -- proofs about the MatrixMarket reader/writer model (MMFormat.v):
   L0  print/parse of integers;  A1 write/read round trip;  A2 row-range read = slice;
   A3  symmetric expansion;  A4 error behaviour;  A5 safety of the checked reader and
   refutation witnesses for the current one. *)
From Coq Require Import List ZArith Lia Bool String Ascii Decimal DecimalString DecimalZ DecimalPos DecimalN ZifyBool.
From Coq Require Import Permutation Sorted.
From Amgcl Require Import MMFormat.
Import ListNotations.
Local Open Scope string_scope.
Local Open Scope list_scope.
Local Open Scope Z_scope.

(* ================================================================== L0: integers *)

Lemma span_digits_string_of_uint : forall d,
  span_digits (NilEmpty.string_of_uint d) = (d, EmptyString).
Proof.
  induction d; simpl; try reflexivity; rewrite IHd; reflexivity.
Qed.

Definition sign_split (t : string) : bool * string :=
  match t with
  | String "-"%char b => (true, b)
  | String "+"%char b => (false, b)
  | _ => (false, t)
  end.

Lemma sign_split_digits : forall d, d <> Nil ->
  sign_split (NilEmpty.string_of_uint d) = (false, NilEmpty.string_of_uint d).
Proof.
  intros d Hd. destruct d; reflexivity.
Qed.

Lemma read_int_unfold : forall signed t rest,
  read_int signed (t :: rest) =
  let '(neg, body) := sign_split t in
  let '(u, r) := span_digits body in
  match u with
  | Nil => None
  | _ =>
      let v := Z.of_uint u in
      let ts' := match r with EmptyString => rest | _ => r :: rest end in
      if signed then
        let x := if neg then - v else v in
        if (- two63 <=? x) && (x <? two63) then Some (x, ts') else None
      else
        if v <? two64 then Some (if neg then (two64 - v) mod two64 else v, ts') else None
  end.
Proof. reflexivity. Qed.

Lemma of_uint_to_uint : forall p, Z.of_uint (Pos.to_uint p) = Z.pos p.
Proof.
  intros p. unfold Z.of_uint. rewrite DecimalPos.Unsigned.of_to. reflexivity.
Qed.

Lemma nz_string_of_uint_nonnil : forall d, d <> Nil ->
  NilZero.string_of_uint d = NilEmpty.string_of_uint d.
Proof. intros d Hd. destruct d; try reflexivity. congruence. Qed.

Lemma read_int_digits : forall signed d rest, d <> Nil ->
  read_int signed (NilEmpty.string_of_uint d :: rest) =
  let v := Z.of_uint d in
  if signed then (if (- two63 <=? v) && (v <? two63) then Some (v, rest) else None)
  else (if v <? two64 then Some (v, rest) else None).
Proof.
  intros signed d rest Hd. rewrite read_int_unfold.
  rewrite sign_split_digits by assumption.
  rewrite span_digits_string_of_uint.
  destruct d; try congruence; reflexivity.
Qed.

Lemma read_int_neg_digits : forall d rest, d <> Nil ->
  read_int true (String "-"%char (NilEmpty.string_of_uint d) :: rest) =
  let v := Z.of_uint d in
  if (- two63 <=? - v) && (- v <? two63) then Some (- v, rest) else None.
Proof.
  intros d rest Hd. rewrite read_int_unfold.
  change (sign_split (String "-" (NilEmpty.string_of_uint d))) with (true, NilEmpty.string_of_uint d).
  cbv iota beta.
  rewrite span_digits_string_of_uint.
  destruct d; try congruence; reflexivity.
Qed.

Lemma print_Z_pos : forall p, print_Z (Z.pos p) = NilEmpty.string_of_uint (Pos.to_uint p).
Proof.
  intros p. unfold print_Z. simpl.
  apply nz_string_of_uint_nonnil. apply Unsigned.to_uint_nonnil.
Qed.

Lemma print_Z_neg : forall p,
  print_Z (Z.neg p) = String "-"%char (NilEmpty.string_of_uint (Pos.to_uint p)).
Proof.
  intros p. unfold print_Z. simpl. f_equal.
  apply nz_string_of_uint_nonnil. apply Unsigned.to_uint_nonnil.
Qed.

Theorem read_int_print_signed : forall z rest,
  - two63 <= z < two63 -> read_int true (print_Z z :: rest) = Some (z, rest).
Proof.
  intros z rest Hz. destruct z as [|p|p].
  - reflexivity.
  - rewrite print_Z_pos. rewrite read_int_digits by apply Unsigned.to_uint_nonnil.
    cbv zeta. rewrite of_uint_to_uint.
    destruct ((- two63 <=? Z.pos p) && (Z.pos p <? two63)) eqn:E; [reflexivity|].
    exfalso. unfold two63 in *. lia.
  - rewrite print_Z_neg. rewrite read_int_neg_digits by apply Unsigned.to_uint_nonnil.
    cbv zeta. rewrite of_uint_to_uint.
    change (- Z.pos p) with (Z.neg p).
    destruct ((- two63 <=? Z.neg p) && (Z.neg p <? two63)) eqn:E; [reflexivity|].
    exfalso. unfold two63 in *. lia.
Qed.

Theorem read_int_print_unsigned : forall z rest,
  0 <= z < two64 -> read_int false (print_Z z :: rest) = Some (z, rest).
Proof.
  intros z rest Hz. destruct z as [|p|p].
  - reflexivity.
  - rewrite print_Z_pos. rewrite read_int_digits by apply Unsigned.to_uint_nonnil.
    cbv zeta. rewrite of_uint_to_uint.
    destruct (Z.pos p <? two64) eqn:E; [reflexivity|].
    exfalso. unfold two64 in *. lia.
  - exfalso. lia.
Qed.

(* range of a successfully read signed integer *)
Lemma read_int_signed_range : forall ts x r,
  read_int true ts = Some (x, r) -> - two63 <= x < two63.
Proof.
  intros ts x r H. destruct ts as [|t rest]; [discriminate|].
  rewrite read_int_unfold in H.
  destruct (sign_split t) as [neg body].
  destruct (span_digits body) as [u s].
  destruct u; try discriminate;
    match type of H with context[Z.of_uint ?d] => remember (Z.of_uint d) as v eqn:Ev; clear Ev end;
    cbv zeta in H;
    match type of H with
    | (if ?c then _ else _) = _ => destruct c eqn:E; [|discriminate]
    end; inversion H; subst; clear H; unfold two63 in *; lia.
Qed.

(* ================================================================== sort_row *)
Section SortRow.
Variable V : Type.
Notation row := (list (Z * V)).

Lemma ins_left_perm : forall (x : Z * V) racc, Permutation (ins_left x racc) (x :: racc).
Proof.
  intros x racc. induction racc as [|y ys IH]; simpl.
  - apply Permutation_refl.
  - destruct (fst y >? fst x).
    + eapply Permutation_trans; [apply perm_skip; exact IH|]. apply perm_swap.
    + apply Permutation_refl.
Qed.

Lemma fold_ins_perm : forall (r acc : row),
  Permutation (fold_left (fun racc x => ins_left x racc) r acc) (r ++ acc).
Proof.
  induction r as [|x r IH]; intros acc; simpl.
  - apply Permutation_refl.
  - eapply Permutation_trans; [apply IH|].
    eapply Permutation_trans; [apply Permutation_app_head; apply ins_left_perm|].
    apply Permutation_sym. apply Permutation_middle.
Qed.

Lemma sort_row_perm : forall r : row, Permutation r (sort_row r).
Proof.
  intros r. unfold sort_row. apply Permutation_sym.
  eapply Permutation_trans; [apply Permutation_sym; apply Permutation_rev|].
  eapply Permutation_trans; [apply fold_ins_perm|]. rewrite app_nil_r. apply Permutation_refl.
Qed.

Definition desc (a b : Z * V) : Prop := fst b <= fst a.
Definition asc (a b : Z * V) : Prop := fst a <= fst b.

Lemma ins_left_sorted : forall (x : Z * V) racc,
  StronglySorted desc racc -> StronglySorted desc (ins_left x racc).
Proof.
  intros x racc H. induction H as [|y ys Hs IH Hall]; simpl.
  - constructor; constructor.
  - destruct (fst y >? fst x) eqn:E.
    + constructor; [exact IH|].
      rewrite Forall_forall. intros z Hz.
      apply (Permutation_in _ (ins_left_perm x ys)) in Hz. destruct Hz as [Hz|Hz].
      * subst z. unfold desc. lia.
      * rewrite Forall_forall in Hall. apply Hall. exact Hz.
    + constructor; [constructor; assumption|].
      constructor.
      * unfold desc. lia.
      * rewrite Forall_forall in *. intros z Hz. specialize (Hall z Hz). unfold desc in *. lia.
Qed.

Lemma fold_ins_sorted : forall (r acc : row),
  StronglySorted desc acc -> StronglySorted desc (fold_left (fun racc x => ins_left x racc) r acc).
Proof.
  induction r as [|x r IH]; intros acc H; simpl; [exact H|].
  apply IH. apply ins_left_sorted. exact H.
Qed.

Lemma StronglySorted_snoc : forall (R : Z * V -> Z * V -> Prop) l a,
  StronglySorted R l -> Forall (fun x => R x a) l -> StronglySorted R (l ++ [a]).
Proof.
  intros R l a H. induction H as [|y ys Hs IH Hall]; intros Ha; simpl.
  - constructor; constructor.
  - inversion Ha; subst. constructor; [apply IH; assumption|].
    apply Forall_app. split; [assumption|]. constructor; [assumption|constructor].
Qed.

Lemma desc_rev_asc : forall l : row, StronglySorted desc l -> StronglySorted asc (List.rev l).
Proof.
  intros l H. induction H as [|y ys Hs IH Hall]; simpl; [constructor|].
  apply StronglySorted_snoc; [exact IH|].
  rewrite Forall_forall in *. intros z Hz. apply in_rev in Hz. exact (Hall z Hz).
Qed.

Theorem sort_row_perm_sorted : forall r : row,
  Permutation r (sort_row r) /\ StronglySorted (fun a b => fst a <= fst b) (sort_row r).
Proof.
  intros r. split; [apply sort_row_perm|].
  unfold sort_row. apply (desc_rev_asc _). apply fold_ins_sorted. constructor.
Qed.

Lemma sort_row_forallb : forall (P : Z * V -> bool) (r : row),
  forallb P (sort_row r) = forallb P r.
Proof.
  intros P r. apply eq_true_iff_eq. rewrite !forallb_forall. split; intros H x Hx; apply H.
  - eapply Permutation_in; [apply sort_row_perm|exact Hx].
  - eapply Permutation_in; [apply Permutation_sym; apply sort_row_perm|exact Hx].
Qed.

Lemma sort_row_nil : sort_row (@nil (Z * V)) = [].
Proof. reflexivity. Qed.
End SortRow.

(* ================================================================== list helpers *)
Lemma firstn_repeat : forall (A : Type) (x : A) n k, firstn k (repeat x n) = repeat x (Nat.min k n).
Proof.
  intros A x n. induction n as [|n IH]; intros k; destruct k; simpl; try reflexivity.
  rewrite IH. reflexivity.
Qed.
Lemma skipn_repeat : forall (A : Type) (x : A) n k, skipn k (repeat x n) = repeat x (n - k).
Proof.
  intros A x n. induction n as [|n IH]; intros k; destruct k; simpl; try reflexivity.
  apply IH.
Qed.

Lemma result_bind_ok : forall A B (a : A) (f : A -> result B), bind (Ok a) f = f a.
Proof. reflexivity. Qed.

(* ================================================================== main section *)
Section MMProofs.
Variable V : Type.
Variable vwidth : Z.
Variable vprint : V -> list string.
Variable vread : list string -> option (V * list string).

Notation row := (list (Z * V)).

(* map with the (Z) row number *)
Fixpoint zmapi (f : Z -> row -> row) (r : Z) (st : list row) : list row :=
  match st with [] => [] | b :: st' => f r b :: zmapi f (r + 1) st' end.

Lemma zmapi_length : forall f st r, List.length (zmapi f r st) = List.length st.
Proof. intros f st. induction st as [|b st IH]; intros r; simpl; [reflexivity|]. rewrite IH. reflexivity. Qed.

Lemma zmapi_ext : forall f g st r,
  (forall q b, r <= q < r + Z.of_nat (List.length st) -> f q b = g q b) ->
  zmapi f r st = zmapi g r st.
Proof.
  intros f g st. induction st as [|b st IH]; intros r H; simpl; [reflexivity|].
  f_equal.
  - apply H. simpl List.length. lia.
  - apply IH. intros q b' Hq. apply H. simpl List.length. lia.
Qed.

Lemma zmapi_id : forall f st r,
  (forall q b, r <= q < r + Z.of_nat (List.length st) -> f q b = b) ->
  zmapi f r st = st.
Proof.
  intros f st. induction st as [|b st IH]; intros r H; simpl; [reflexivity|].
  f_equal.
  - apply H. simpl List.length. lia.
  - apply IH. intros q b' Hq. apply H. simpl List.length. lia.
Qed.

Lemma zmapi_zmapi : forall f g st r,
  zmapi f r (zmapi g r st) = zmapi (fun q b => f q (g q b)) r st.
Proof.
  intros f g st. induction st as [|b st IH]; intros r; simpl; [reflexivity|]. rewrite IH. reflexivity.
Qed.

Lemma zmapi_skipn : forall f k st r,
  skipn k (zmapi f r st) = zmapi f (r + Z.of_nat k) (skipn k st).
Proof.
  intros f k. induction k as [|k IH]; intros st r.
  - simpl. replace (r + 0) with r by lia. reflexivity.
  - destruct st as [|b st]; [reflexivity|]. simpl skipn. rewrite IH.
    replace (r + 1 + Z.of_nat k) with (r + Z.of_nat (S k)) by lia. reflexivity.
Qed.

Lemma zmapi_firstn : forall f k st r,
  firstn k (zmapi f r st) = zmapi f r (firstn k st).
Proof.
  intros f k. induction k as [|k IH]; intros st r; [reflexivity|].
  destruct st as [|b st]; [reflexivity|]. simpl. rewrite IH. reflexivity.
Qed.

Lemma zmapi_slice : forall f r0 r1 st, 0 <= r0 ->
  slice_list r0 r1 (zmapi f 0 st) = zmapi f r0 (slice_list r0 r1 st).
Proof.
  intros f r0 r1 st H. unfold slice_list. rewrite zmapi_skipn, zmapi_firstn.
  replace (0 + Z.of_nat (Z.to_nat r0)) with r0 by lia. reflexivity.
Qed.

Lemma zmapi_repeat_nil : forall f k r,
  zmapi f r (repeat [] k) = map (fun q => f (r + Z.of_nat q) []) (seq 0 k).
Proof.
  intros f k. induction k as [|k IH]; intros r; [reflexivity|].
  simpl. f_equal.
  - f_equal. lia.
  - rewrite IH. rewrite <- seq_shift. rewrite map_map. apply map_ext.
    intros q. f_equal. lia.
Qed.

(* ------------------------------------------------------------------ buckets *)
Definition put (i : Z) (e : Z * V) (q : Z) (b : row) : row := b ++ (if i =? q then [e] else []).

Lemma bucket_add_nat_spec : forall st k e r, (k < List.length st)%nat ->
  bucket_add_nat V st k e = Some (zmapi (put (r + Z.of_nat k) e) r st).
Proof.
  intros st. induction st as [|b st IH]; intros k e r Hk; simpl in Hk; [lia|].
  destruct k as [|k].
  - simpl. f_equal. f_equal.
    + unfold put. replace (r + 0 =? r) with true by lia. reflexivity.
    + symmetry. apply zmapi_id. intros q b' Hq. unfold put.
      replace (r + 0 =? q) with false by lia. apply app_nil_r.
  - simpl. rewrite (IH k e (r + 1)) by lia. f_equal. f_equal.
    + unfold put. replace (r + Z.pos (Pos.of_succ_nat k) =? r) with false by lia.
      symmetry. apply app_nil_r.
    + replace (r + 1 + Z.of_nat k) with (r + Z.pos (Pos.of_succ_nat k)) by lia. reflexivity.
Qed.

Lemma cond_bucket_add : forall r0 r1 i e st,
  List.length st = Z.to_nat (r1 - r0) ->
  (if (r0 <=? i) && (i <? r1) then bucket_add V st (i - r0) e else Ok st)
  = Ok (zmapi (put i e) r0 st).
Proof.
  intros r0 r1 i e st Hlen.
  destruct ((r0 <=? i) && (i <? r1)) eqn:E.
  - unfold bucket_add. replace (i - r0 <? 0) with false by lia.
    rewrite (bucket_add_nat_spec st (Z.to_nat (i - r0)) e r0) by lia.
    simpl. replace (r0 + Z.of_nat (Z.to_nat (i - r0))) with i by lia. reflexivity.
  - f_equal. symmetry. apply zmapi_id. intros q b Hq. unfold put.
    replace (i =? q) with false by lia. apply app_nil_r.
Qed.

Lemma cond_bucket_add2 : forall (c : bool) r0 r1 j e st,
  List.length st = Z.to_nat (r1 - r0) ->
  (if c && (r0 <=? j) && (j <? r1) then bucket_add V st (j - r0) e else Ok st)
  = Ok (zmapi (fun q b => b ++ (if c && (j =? q) then [e] else [])) r0 st).
Proof.
  intros c r0 r1 j e st Hlen. destruct c.
  - change (true && (r0 <=? j) && (j <? r1)) with ((r0 <=? j) && (j <? r1)).
    rewrite (cond_bucket_add r0 r1 j e st Hlen). reflexivity.
  - simpl. f_equal. symmetry. apply zmapi_id. intros q b _. apply app_nil_r.
Qed.

(* contribution of one parsed entry (i,j,v) to row q *)
Definition contrib (symm : bool) (i j : Z) (v : V) (q : Z) : row :=
  (if i =? q then [(j, v)] else []) ++ (if symm && negb (i =? j) && (j =? q) then [(i, v)] else []).
Definition add_entry (symm : bool) (i j : Z) (v : V) (r0 : Z) (st : list row) : list row :=
  zmapi (fun q b => b ++ contrib symm i j v q) r0 st.

Lemma add_entry_length : forall symm i j v r0 st,
  List.length (add_entry symm i j v r0 st) = List.length st.
Proof. intros. apply zmapi_length. Qed.

(* ------------------------------------------------------------------ one loop iteration *)
Definition parse_entry (fl : mm_flags) (n m : Z) (l : line) : result (Z * Z * V) :=
  '(i1, t1) <- of_opt (read_int true (l_toks l)) EFormat ;;
  '(j1, t2) <- of_opt (read_int true t1) EFormat ;;
  '(v, _) <- of_opt (vread t2) EFormat ;;
  _ <- guard (negb (chk_index fl) ||
              ((0 <=? i1 - 1) && (i1 - 1 <? n) && (0 <=? j1 - 1) && (j1 - 1 <? m))) EFormat ;;
  Ok (i1 - 1, j1 - 1, v).

Lemma read_entries_done : forall fl symm n m r0 r1 ls k st, k <= 0 ->
  read_entries V vread fl symm n m r0 r1 ls k st = Ok (st, ls).
Proof.
  intros. destruct ls; simpl; replace (k <=? 0) with true by lia; reflexivity.
Qed.

Lemma read_entries_eof : forall fl symm n m r0 r1 k st, 0 < k ->
  read_entries V vread fl symm n m r0 r1 [] k st = Error EFormat.
Proof. intros. simpl. replace (k <=? 0) with false by lia. reflexivity. Qed.

Lemma read_entries_cons : forall fl symm n m r0 r1 l ls k st,
  List.length st = Z.to_nat (r1 - r0) -> 0 < k ->
  read_entries V vread fl symm n m r0 r1 (l :: ls) k st =
  bind (parse_entry fl n m l) (fun '(i, j, v) =>
    read_entries V vread fl symm n m r0 r1 ls (k - 1) (add_entry symm i j v r0 st)).
Proof.
  intros fl symm n m r0 r1 l ls k st Hlen Hk.
  simpl read_entries. replace (k <=? 0) with false by lia.
  unfold parse_entry.
  destruct (read_int true (l_toks l)) as [[i1 t1]|]; [|reflexivity].
  cbn [of_opt bind].
  destruct (read_int true t1) as [[j1 t2]|]; [|reflexivity].
  cbn [of_opt bind].
  destruct (vread t2) as [[v t3]|]; [|reflexivity].
  cbn [of_opt bind].
  destruct (negb (chk_index fl) ||
            ((0 <=? i1 - 1) && (i1 - 1 <? n) && (0 <=? j1 - 1) && (j1 - 1 <? m))); [|reflexivity].
  cbn [guard bind].
  rewrite (cond_bucket_add r0 r1 (i1 - 1) (j1 - 1, v) st Hlen).
  cbn [bind].
  rewrite (cond_bucket_add2 (symm && negb (i1 - 1 =? j1 - 1)) r0 r1 (j1 - 1) (i1 - 1, v)).
  2:{ rewrite zmapi_length. exact Hlen. }
  cbn [bind].
  f_equal. unfold add_entry. rewrite zmapi_zmapi. apply zmapi_ext.
  intros q b _. unfold put, contrib. rewrite <- app_assoc. reflexivity.
Qed.

Lemma parse_entry_err : forall fl n m l e, parse_entry fl n m l = Error e -> e = EFormat.
Proof.
  intros fl n m l e. unfold parse_entry.
  destruct (read_int true (l_toks l)) as [[i1 t1]|]; cbn [of_opt bind]; [|congruence].
  destruct (read_int true t1) as [[j1 t2]|]; cbn [of_opt bind]; [|congruence].
  destruct (vread t2) as [[v t3]|]; cbn [of_opt bind]; [|congruence].
  destruct (negb (chk_index fl) || _); cbn [guard bind]; congruence.
Qed.

(* under the length invariant the loop never indexes out of bounds: its only error is
   a format error; it preserves the number of buckets *)
Lemma read_entries_err : forall fl symm n m r0 r1 ls k st e,
  List.length st = Z.to_nat (r1 - r0) ->
  read_entries V vread fl symm n m r0 r1 ls k st = Error e -> e = EFormat.
Proof.
  intros fl symm n m r0 r1 ls. induction ls as [|l ls IH]; intros k st e Hlen H.
  - destruct (Z_le_gt_dec k 0).
    + rewrite read_entries_done in H by lia. discriminate.
    + rewrite read_entries_eof in H by lia. congruence.
  - destruct (Z_le_gt_dec k 0).
    + rewrite read_entries_done in H by lia. discriminate.
    + rewrite read_entries_cons in H by (assumption || lia).
      destruct (parse_entry fl n m l) as [[[i j] v]|e'] eqn:P; cbn [bind] in H.
      * eapply IH; [|exact H]. rewrite add_entry_length. exact Hlen.
      * inversion H; subst. eapply parse_entry_err; exact P.
Qed.

Lemma read_entries_length : forall fl symm n m r0 r1 ls k st st' rest,
  List.length st = Z.to_nat (r1 - r0) ->
  read_entries V vread fl symm n m r0 r1 ls k st = Ok (st', rest) ->
  List.length st' = List.length st.
Proof.
  intros fl symm n m r0 r1 ls. induction ls as [|l ls IH]; intros k st st' rest Hlen H.
  - destruct (Z_le_gt_dec k 0).
    + rewrite read_entries_done in H by lia. inversion H; reflexivity.
    + rewrite read_entries_eof in H by lia. discriminate.
  - destruct (Z_le_gt_dec k 0).
    + rewrite read_entries_done in H by lia. inversion H; reflexivity.
    + rewrite read_entries_cons in H by (assumption || lia).
      destruct (parse_entry fl n m l) as [[[i j] v]|e'] eqn:P; cbn [bind] in H; [|discriminate].
      apply IH in H; [|rewrite add_entry_length; exact Hlen].
      rewrite H. apply add_entry_length.
Qed.

(* ------------------------------------------------------------------ mm_read_sparse = pre ; loop ; post *)
Definition sparse_pre (fl : mm_flags) (vk : kind) (h : header) (row_beg row_end : Z)
  : result (Z * Z * Z * Z * Z) :=
  _ <- guard (h_sparse h) EFormat ;;
  _ <- guard (Bool.eqb (kind_complex vk) (kind_complex (h_kind h))) EKind ;;
  _ <- guard (Bool.eqb (kind_integer vk) (kind_integer (h_kind h))) EKind ;;
  '(n, t1) <- of_opt (read_int true (h_size h)) EFormat ;;
  '(m, t2) <- of_opt (read_int true t1) EFormat ;;
  '(nz, _) <- of_opt (read_int false t2) EFormat ;;
  let r0 := if row_beg <? 0 then 0 else row_beg in
  let r1 := if row_end <? 0 then n else row_end in
  _ <- guard ((0 <=? r0) && (r1 <=? n)) ERange ;;
  _ <- guard (negb (chk_range fl) || (r0 <=? r1)) ERange ;;
  _ <- guard (negb (chk_index fl) || negb (h_symmetric h) || (n =? m)) EFormat ;;
  let nnz' := s64 (if h_symmetric h then 2 * nz else nz) in
  _ <- guard (negb (negb ((r0 =? 0) && (r1 =? n))) ||
              (negb (n =? 0) && (0 <=? Z.quot (nnz' * 6 * (r1 - r0)) (5 * n)))) EAlloc ;;
  let cap_arg := if negb ((r0 =? 0) && (r1 =? n)) && (nnz' <? 0)
                 then Z.quot (nnz' * 6 * (r1 - r0)) (5 * n) else nnz' in
  _ <- guard (alloc_ok cap_arg 8 && alloc_ok cap_arg vwidth) EAlloc ;;
  _ <- guard (alloc_ok (r1 - r0 + 1) 8) EAlloc ;;
  Ok (n, m, nz, r0, r1).

Definition sparse_post (fl : mm_flags) (h : header) (n m nz r0 r1 : Z) : result (crs V) :=
  '(st, rest) <- read_entries V vread fl (h_symmetric h) n m r0 r1 (h_body h) nz
                   (repeat [] (Z.to_nat (r1 - r0))) ;;
  _ <- guard (negb (chk_trailing fl) || forallb blank rest) EFormat ;;
  _ <- guard (0 <=? r1 - r0) EOOB ;;
  Ok (mkCrs (r1 - r0) (u64 m) (map (@sort_row V) st)).

Lemma mm_read_sparse_split : forall fl vk h rb re,
  mm_read_sparse V vwidth vread fl vk h rb re =
  bind (sparse_pre fl vk h rb re) (fun '(n, m, nz, r0, r1) => sparse_post fl h n m nz r0 r1).
Proof.
  intros fl vk h rb re. unfold mm_read_sparse, sparse_pre.
  destruct (h_sparse h); cbn [guard bind]; [|reflexivity].
  destruct (Bool.eqb (kind_complex vk) (kind_complex (h_kind h))); cbn [guard bind]; [|reflexivity].
  destruct (Bool.eqb (kind_integer vk) (kind_integer (h_kind h))); cbn [guard bind]; [|reflexivity].
  destruct (read_int true (h_size h)) as [[n t1]|]; cbn [of_opt bind]; [|reflexivity].
  destruct (read_int true t1) as [[m t2]|]; cbn [of_opt bind]; [|reflexivity].
  destruct (read_int false t2) as [[nz t3]|]; cbn [of_opt bind]; [|reflexivity].
  cbv zeta.
  destruct ((0 <=? (if rb <? 0 then 0 else rb)) && ((if re <? 0 then n else re) <=? n));
    cbn [guard bind]; [|reflexivity].
  destruct (negb (chk_range fl) || ((if rb <? 0 then 0 else rb) <=? (if re <? 0 then n else re)));
    cbn [guard bind]; [|reflexivity].
  destruct (negb (chk_index fl) || negb (h_symmetric h) || (n =? m)); cbn [guard bind]; [|reflexivity].
  destruct (negb (negb (((if rb <? 0 then 0 else rb) =? 0) && ((if re <? 0 then n else re) =? n))) ||
            (negb (n =? 0) && (0 <=? Z.quot (s64 (if h_symmetric h then 2 * nz else nz) * 6 *
                                        ((if re <? 0 then n else re) - (if rb <? 0 then 0 else rb))) (5 * n)))); cbn [guard bind]; [|reflexivity].
  match goal with |- context [guard (alloc_ok ?c 8 && alloc_ok ?c vwidth) EAlloc] =>
    destruct (alloc_ok c 8 && alloc_ok c vwidth) end; cbn [guard bind]; [|reflexivity].
  destruct (alloc_ok ((if re <? 0 then n else re) - (if rb <? 0 then 0 else rb) + 1) 8);
    cbn [guard bind]; [|reflexivity].
  reflexivity.
Qed.

Definition pre_facts (fl : mm_flags) (vk : kind) (h : header) (rb re n m nz r0 r1 : Z) : Prop :=
  h_sparse h = true /\
  Bool.eqb (kind_complex vk) (kind_complex (h_kind h)) = true /\
  Bool.eqb (kind_integer vk) (kind_integer (h_kind h)) = true /\
  (exists t1 t2 t3, read_int true (h_size h) = Some (n, t1) /\ read_int true t1 = Some (m, t2) /\
                    read_int false t2 = Some (nz, t3)) /\
  r0 = (if rb <? 0 then 0 else rb) /\ r1 = (if re <? 0 then n else re) /\
  (0 <=? r0) && (r1 <=? n) = true /\
  negb (chk_range fl) || (r0 <=? r1) = true /\
  negb (chk_index fl) || negb (h_symmetric h) || (n =? m) = true /\
  alloc_ok (if negb ((r0 =? 0) && (r1 =? n)) && (s64 (if h_symmetric h then 2 * nz else nz) <? 0)
     then Z.quot (s64 (if h_symmetric h then 2 * nz else nz) * 6 * (r1 - r0)) (5 * n)
     else s64 (if h_symmetric h then 2 * nz else nz)) 8 &&
    alloc_ok (if negb ((r0 =? 0) && (r1 =? n)) && (s64 (if h_symmetric h then 2 * nz else nz) <? 0)
     then Z.quot (s64 (if h_symmetric h then 2 * nz else nz) * 6 * (r1 - r0)) (5 * n)
     else s64 (if h_symmetric h then 2 * nz else nz)) vwidth = true /\
  alloc_ok (r1 - r0 + 1) 8 = true /\
  negb (negb ((r0 =? 0) && (r1 =? n))) ||
    (negb (n =? 0) && (0 <=? Z.quot (s64 (if h_symmetric h then 2 * nz else nz) * 6 * (r1 - r0)) (5 * n))) = true.

Lemma sparse_pre_ok_iff : forall fl vk h rb re n m nz r0 r1,
  sparse_pre fl vk h rb re = Ok (n, m, nz, r0, r1) <-> pre_facts fl vk h rb re n m nz r0 r1.
Proof.
  intros fl vk h rb re n m nz r0 r1. unfold sparse_pre, pre_facts. split.
  - destruct (h_sparse h); cbn [guard bind]; [|discriminate].
    destruct (Bool.eqb (kind_complex vk) (kind_complex (h_kind h))); cbn [guard bind]; [|discriminate].
    destruct (Bool.eqb (kind_integer vk) (kind_integer (h_kind h))); cbn [guard bind]; [|discriminate].
    destruct (read_int true (h_size h)) as [[n' t1]|] eqn:R1; cbn [of_opt bind]; [|discriminate].
    destruct (read_int true t1) as [[m' t2]|] eqn:R2; cbn [of_opt bind]; [|discriminate].
    destruct (read_int false t2) as [[nz' t3]|] eqn:R3; cbn [of_opt bind]; [|discriminate].
    cbv zeta.
    destruct ((0 <=? (if rb <? 0 then 0 else rb)) && ((if re <? 0 then n' else re) <=? n')) eqn:E1;
      cbn [guard bind]; [|discriminate].
    destruct (negb (chk_range fl) || ((if rb <? 0 then 0 else rb) <=? (if re <? 0 then n' else re))) eqn:E2;
      cbn [guard bind]; [|discriminate].
    destruct (negb (chk_index fl) || negb (h_symmetric h) || (n' =? m')) eqn:E3; cbn [guard bind]; [|discriminate].
    destruct (negb (negb (((if rb <? 0 then 0 else rb) =? 0) && ((if re <? 0 then n' else re) =? n'))) ||
            (negb (n' =? 0) && (0 <=? Z.quot (s64 (if h_symmetric h then 2 * nz' else nz') * 6 *
                                        ((if re <? 0 then n' else re) - (if rb <? 0 then 0 else rb))) (5 * n')))) eqn:E6; cbn [guard bind]; [|discriminate].
    match goal with |- context [guard (alloc_ok ?c 8 && alloc_ok ?c vwidth) EAlloc] =>
      destruct (alloc_ok c 8 && alloc_ok c vwidth) eqn:E4 end; cbn [guard bind]; [|discriminate].
    destruct (alloc_ok ((if re <? 0 then n' else re) - (if rb <? 0 then 0 else rb) + 1) 8) eqn:E5;
      cbn [guard bind]; [|discriminate].
    intros H. inversion H; subst; clear H.
    repeat split; try assumption; try reflexivity.
    exists t1, t2, t3. repeat split; assumption.
  - intros (H1 & H2 & H3 & (t1 & t2 & t3 & R1 & R2 & R3) & Hr0 & Hr1 & E1 & E2 & E3 & E4 & E5 & E6).
    rewrite H1, H2, H3. cbn [guard bind]. rewrite R1. cbn [of_opt bind]. rewrite R2. cbn [of_opt bind].
    rewrite R3. cbn [of_opt bind]. cbv zeta. rewrite <- Hr0, <- Hr1.
    rewrite E1, E2, E3, E6, E4, E5. reflexivity.
Qed.

Lemma sparse_pre_err : forall fl vk h rb re e, sparse_pre fl vk h rb re = Error e -> e <> EOOB.
Proof.
  intros fl vk h rb re e. unfold sparse_pre.
  destruct (h_sparse h); cbn [guard bind]; [|congruence].
  destruct (Bool.eqb (kind_complex vk) (kind_complex (h_kind h))); cbn [guard bind]; [|congruence].
  destruct (Bool.eqb (kind_integer vk) (kind_integer (h_kind h))); cbn [guard bind]; [|congruence].
  destruct (read_int true (h_size h)) as [[n' t1]|]; cbn [of_opt bind]; [|congruence].
  destruct (read_int true t1) as [[m' t2]|]; cbn [of_opt bind]; [|congruence].
  destruct (read_int false t2) as [[nz' t3]|]; cbn [of_opt bind]; [|congruence].
  cbv zeta.
  destruct ((0 <=? (if rb <? 0 then 0 else rb)) && ((if re <? 0 then n' else re) <=? n'));
    cbn [guard bind]; [|congruence].
  destruct (negb (chk_range fl) || ((if rb <? 0 then 0 else rb) <=? (if re <? 0 then n' else re)));
    cbn [guard bind]; [|congruence].
  destruct (negb (chk_index fl) || negb (h_symmetric h) || (n' =? m')); cbn [guard bind]; [|congruence].
  destruct (negb (negb (((if rb <? 0 then 0 else rb) =? 0) && ((if re <? 0 then n' else re) =? n'))) ||
            (negb (n' =? 0) && (0 <=? Z.quot (s64 (if h_symmetric h then 2 * nz' else nz') * 6 *
                                        ((if re <? 0 then n' else re) - (if rb <? 0 then 0 else rb))) (5 * n')))); cbn [guard bind]; [|congruence].
  match goal with |- context [guard (alloc_ok ?c 8 && alloc_ok ?c vwidth) EAlloc] =>
    destruct (alloc_ok c 8 && alloc_ok c vwidth) end; cbn [guard bind]; [|congruence].
  destruct (alloc_ok ((if re <? 0 then n' else re) - (if rb <? 0 then 0 else rb) + 1) 8);
    cbn [guard bind]; congruence.
Qed.

Lemma mm_open_err : forall f e, mm_open f = Error e -> e = EFormat.
Proof.
  intros f e. unfold mm_open. destruct f as [|b rest]; [congruence|].
  destruct (l_toks b) as [|banner [|mtx [|coord [|dtype [|storage tl]]]]]; try congruence.
  destruct (String.eqb banner "%%MatrixMarket"); cbn [guard bind]; [|congruence].
  destruct (String.eqb mtx "matrix"); cbn [guard bind]; [|congruence].
  destruct (String.eqb storage "general"); cbn [bind];
    [|destruct (String.eqb storage "symmetric"); cbn [bind]; [|congruence]].
  all: (destruct (String.eqb coord "coordinate"); cbn [bind];
    [|destruct (String.eqb coord "array"); cbn [bind]; [|congruence]]).
  all: (destruct (String.eqb dtype "real"); cbn [bind];
    [|destruct (String.eqb dtype "complex"); cbn [bind];
      [|destruct (String.eqb dtype "integer"); cbn [bind]; [|congruence]]]).
  all: (destruct (skip_comments rest) as [[sz body]|]; cbn [of_opt bind]; [|congruence]).
  all: (destruct (read_int false (l_toks sz)) as [[nr t1]|]; cbn [of_opt bind]; [|congruence]).
  all: (destruct (read_int false t1) as [[nc t2]|]; cbn [of_opt bind]; congruence).
Qed.

(* ------------------------------------------------------------------ A5: no out-of-bounds *)
Lemma sparse_post_oob : forall fl h n m nz r0 r1,
  sparse_post fl h n m nz r0 r1 = Error EOOB -> r1 < r0.
Proof.
  intros fl h n m nz r0 r1. unfold sparse_post.
  destruct (read_entries V vread fl (h_symmetric h) n m r0 r1 (h_body h) nz
              (repeat [] (Z.to_nat (r1 - r0)))) as [[st rest]|e] eqn:R; cbn [bind].
  - destruct (negb (chk_trailing fl) || forallb blank rest); cbn [guard bind]; [|congruence].
    destruct (0 <=? r1 - r0) eqn:E; cbn [guard bind]; [congruence|]. intros _. lia.
  - apply read_entries_err in R; [|apply repeat_length]. congruence.
Qed.

(* the ONLY way to reach the out-of-bounds access: an inverted (clamped) row range *)
Theorem mm_read_sparse_oob_inverted_range : forall fl vk h rb re,
  mm_read_sparse V vwidth vread fl vk h rb re = Error EOOB ->
  exists n t1, read_int true (h_size h) = Some (n, t1) /\
               (if re <? 0 then n else re) < (if rb <? 0 then 0 else rb).
Proof.
  intros fl vk h rb re H. rewrite mm_read_sparse_split in H.
  destruct (sparse_pre fl vk h rb re) as [[[[[n m] nz] r0] r1]|e] eqn:P; cbn [bind] in H.
  - apply sparse_post_oob in H. apply sparse_pre_ok_iff in P.
    destruct P as (_ & _ & _ & (t1 & t2 & t3 & R1 & _) & Hr0 & Hr1 & _).
    exists n, t1. split; [exact R1|]. subst r0 r1. exact H.
  - inversion H; subst. exfalso. eapply sparse_pre_err; [exact P|reflexivity].
Qed.

Theorem mm_read_oob_inverted_range : forall fl vk f rb re,
  mm_read V vwidth vread fl vk f rb re = Error EOOB ->
  exists h n t1, mm_open f = Ok h /\ read_int true (h_size h) = Some (n, t1) /\
                 (if re <? 0 then n else re) < (if rb <? 0 then 0 else rb).
Proof.
  intros fl vk f rb re H. unfold mm_read in H.
  destruct (mm_open f) as [h|e] eqn:O; cbn [bind] in H.
  - apply mm_read_sparse_oob_inverted_range in H. destruct H as (n & t1 & R & Hlt).
    exists h, n, t1. auto.
  - inversion H; subst. apply mm_open_err in O. discriminate.
Qed.

(* a proper requested range never crashes, for every flag setting *)
Theorem mm_read_no_oob_proper_range : forall fl vk f rb re,
  0 <= rb -> rb <= re -> mm_read V vwidth vread fl vk f rb re <> Error EOOB.
Proof.
  intros fl vk f rb re H0 H1 H. apply mm_read_oob_inverted_range in H.
  destruct H as (h & n & t1 & _ & _ & Hlt).
  replace (re <? 0) with false in Hlt by lia. replace (rb <? 0) with false in Hlt by lia. lia.
Qed.

(* default range: the current reader can only crash when the size line says nrows = -1
   (smaller values fail in ptr.resize: EAlloc) *)
Theorem mm_read_current_no_oob_default_range : forall fl vk f rb re,
  rb < 0 -> re < 0 ->
  mm_read V vwidth vread fl vk f rb re = Error EOOB ->
  exists h t1, mm_open f = Ok h /\ read_int true (h_size h) = Some (-1, t1).
Proof.
  intros fl vk f rb re Hb He H. unfold mm_read in H.
  destruct (mm_open f) as [h|e] eqn:O; cbn [bind] in H.
  2:{ inversion H; subst. apply mm_open_err in O. discriminate. }
  rewrite mm_read_sparse_split in H.
  destruct (sparse_pre fl vk h rb re) as [[[[[n m] nz] r0] r1]|e] eqn:P; cbn [bind] in H.
  2:{ inversion H; subst. exfalso. eapply sparse_pre_err; [exact P|reflexivity]. }
  apply sparse_post_oob in H. apply sparse_pre_ok_iff in P.
  destruct P as (_ & _ & _ & (t1 & t2 & t3 & R1 & _) & Hr0 & Hr1 & _ & _ & _ & _ & Ha & _).
  replace (rb <? 0) with true in Hr0 by lia. replace (re <? 0) with true in Hr1 by lia.
  subst r0 r1. unfold alloc_ok in Ha.
  assert (n = -1) by lia. subst n. exists h, t1. auto.
Qed.

Corollary mm_read_no_oob_default_range_nonneg : forall fl vk f h n t1,
  mm_open f = Ok h -> read_int true (h_size h) = Some (n, t1) -> 0 <= n ->
  mm_read V vwidth vread fl vk f (-1) (-1) <> Error EOOB.
Proof.
  intros fl vk f h n t1 O R Hn H.
  apply mm_read_current_no_oob_default_range in H; try lia.
  destruct H as (h' & t1' & O' & R'). rewrite O in O'. inversion O'; subst h'.
  rewrite R in R'. inversion R'; subst. lia.
Qed.

(* ------------------------------------------------------------------ A5: checked reader is safe *)
Definition cols_ok (m : Z) (st : list row) : Prop :=
  Forall (Forall (fun e : Z * V => 0 <= fst e < m)) st.

Lemma zmapi_Forall : forall (P : row -> Prop) f st r,
  (forall q b, P b -> P (f q b)) -> Forall P st -> Forall P (zmapi f r st).
Proof.
  intros P f st. induction st as [|b st IH]; intros r Hf H; simpl; [constructor|].
  inversion H; subst. constructor; [apply Hf; assumption|apply IH; assumption].
Qed.

Lemma parse_entry_checked : forall fl n m l i j v,
  chk_index fl = true -> parse_entry fl n m l = Ok (i, j, v) -> 0 <= i < n /\ 0 <= j < m.
Proof.
  intros fl n m l i j v Hc. unfold parse_entry. rewrite Hc.
  destruct (read_int true (l_toks l)) as [[i1 t1]|]; cbn [of_opt bind]; [|discriminate].
  destruct (read_int true t1) as [[j1 t2]|]; cbn [of_opt bind]; [|discriminate].
  destruct (vread t2) as [[v' t3]|]; cbn [of_opt bind]; [|discriminate].
  destruct (negb true || ((0 <=? i1 - 1) && (i1 - 1 <? n) && (0 <=? j1 - 1) && (j1 - 1 <? m))) eqn:E;
    cbn [guard bind]; [|discriminate].
  intros H. inversion H; subst; clear H. simpl in E. lia.
Qed.

Lemma add_entry_cols : forall symm i j v r0 m st,
  0 <= j < m -> (symm = true -> 0 <= i < m) ->
  cols_ok m st -> cols_ok m (add_entry symm i j v r0 st).
Proof.
  intros symm i j v r0 m st Hj Hi H. unfold add_entry, cols_ok. apply zmapi_Forall; [|exact H].
  intros q b Hb. apply Forall_app. split; [exact Hb|]. unfold contrib. apply Forall_app. split.
  - destruct (i =? q); constructor; [simpl; lia|constructor].
  - destruct symm; simpl; [|constructor].
    destruct (negb (i =? j) && (j =? q)); constructor; [simpl; apply Hi; reflexivity|constructor].
Qed.

Lemma read_entries_cols : forall fl symm n m r0 r1 ls k st st' rest,
  chk_index fl = true -> (symm = true -> n = m) ->
  List.length st = Z.to_nat (r1 - r0) -> cols_ok m st ->
  read_entries V vread fl symm n m r0 r1 ls k st = Ok (st', rest) -> cols_ok m st'.
Proof.
  intros fl symm n m r0 r1 ls. induction ls as [|l ls IH]; intros k st st' rest Hc Hs Hlen Hok H.
  - destruct (Z_le_gt_dec k 0).
    + rewrite read_entries_done in H by lia. inversion H; subst; exact Hok.
    + rewrite read_entries_eof in H by lia. discriminate.
  - destruct (Z_le_gt_dec k 0).
    + rewrite read_entries_done in H by lia. inversion H; subst; exact Hok.
    + rewrite read_entries_cons in H by (assumption || lia).
      destruct (parse_entry fl n m l) as [[[i j] v]|e'] eqn:P; cbn [bind] in H; [|discriminate].
      apply parse_entry_checked in P; [|exact Hc].
      eapply IH; [exact Hc|exact Hs| |  |exact H].
      * rewrite add_entry_length. exact Hlen.
      * apply add_entry_cols; [lia| |exact Hok]. intros Hsy. specialize (Hs Hsy). lia.
Qed.

Lemma repeat_nil_cols : forall m k, cols_ok m (repeat [] k).
Proof. intros m k. unfold cols_ok. induction k; simpl; constructor; [constructor|assumption]. Qed.

Lemma sparse_post_wf : forall fl h n m nz r0 r1 A,
  chk_index fl = true -> (h_symmetric h = true -> n = m) -> m < two63 ->
  sparse_post fl h n m nz r0 r1 = Ok A -> wf A = true.
Proof.
  intros fl h n m nz r0 r1 A Hc Hs Hm. unfold sparse_post.
  destruct (read_entries V vread fl (h_symmetric h) n m r0 r1 (h_body h) nz
              (repeat [] (Z.to_nat (r1 - r0)))) as [[st rest]|e] eqn:R; cbn [bind]; [|discriminate].
  destruct (negb (chk_trailing fl) || forallb blank rest); cbn [guard bind]; [|discriminate].
  destruct (0 <=? r1 - r0) eqn:E; cbn [guard bind]; [|discriminate].
  intros H. inversion H; subst; clear H.
  assert (Hlen : List.length st = Z.to_nat (r1 - r0)).
  { erewrite read_entries_length; [apply repeat_length| |exact R]. apply repeat_length. }
  assert (Hok : cols_ok m st).
  { eapply read_entries_cols; [exact Hc|exact Hs| | |exact R].
    - apply repeat_length.
    - apply repeat_nil_cols. }
  unfold wf. cbn [rows nrows ncols]. apply andb_true_iff. split.
  - rewrite map_length, Hlen. lia.
  - apply forallb_forall. intros b Hb. apply in_map_iff in Hb. destruct Hb as (b0 & Hb0 & Hin).
    subst b. unfold row_wf. rewrite sort_row_forallb. apply forallb_forall. intros x Hx.
    unfold cols_ok in Hok. rewrite Forall_forall in Hok. specialize (Hok b0 Hin).
    rewrite Forall_forall in Hok. specialize (Hok x Hx).
    unfold u64. rewrite Z.mod_small by (unfold two63, two64 in *; lia). lia.
Qed.

(* every flag setting that checks indices and the range order is safe *)
Theorem mm_read_sparse_flags_safe : forall fl vk h rb re,
  chk_index fl = true -> chk_range fl = true ->
  match mm_read_sparse V vwidth vread fl vk h rb re with
  | Ok A => wf A = true
  | Error e => e <> EOOB
  end.
Proof.
  intros fl vk h rb re Hc Hr.
  destruct (mm_read_sparse V vwidth vread fl vk h rb re) as [A|e] eqn:H.
  - rewrite mm_read_sparse_split in H.
    destruct (sparse_pre fl vk h rb re) as [[[[[n m] nz] r0] r1]|e] eqn:P; cbn [bind] in H; [|discriminate].
    apply sparse_pre_ok_iff in P.
    destruct P as (_ & _ & _ & (t1 & t2 & t3 & R1 & R2 & _) & _ & _ & _ & _ & E3 & _).
    eapply sparse_post_wf; [exact Hc| | |exact H].
    + intros Hs. rewrite Hc, Hs in E3. simpl in E3. lia.
    + apply read_int_signed_range in R2. lia.
  - intros ->. rewrite mm_read_sparse_split in H.
    destruct (sparse_pre fl vk h rb re) as [[[[[n m] nz] r0] r1]|e] eqn:P; cbn [bind] in H.
    + apply sparse_post_oob in H. apply sparse_pre_ok_iff in P.
      destruct P as (_ & _ & _ & _ & _ & _ & _ & E2 & _).
      rewrite Hr in E2. simpl in E2. lia.
    + inversion H; subst. eapply sparse_pre_err; [exact P|reflexivity].
Qed.

Theorem mm_read_flags_safe : forall fl vk f rb re,
  chk_index fl = true -> chk_range fl = true ->
  match mm_read V vwidth vread fl vk f rb re with
  | Ok A => wf A = true
  | Error e => e <> EOOB
  end.
Proof.
  intros fl vk f rb re Hc Hr. unfold mm_read.
  destruct (mm_open f) as [h|e] eqn:O; cbn [bind].
  - apply mm_read_sparse_flags_safe; assumption.
  - apply mm_open_err in O. subst e. discriminate.
Qed.

Theorem mm_read_checked_safe : forall vk f r0 r1,
  match mm_read V vwidth vread mm_checked vk f r0 r1 with
  | Ok A => wf A = true
  | Error e => e <> EOOB
  end.
Proof. intros. apply mm_read_flags_safe; reflexivity. Qed.

(* ------------------------------------------------------------------ A2: range read = slice *)
Lemma slice_list_length : forall (A : Type) r0 r1 (l : list A),
  0 <= r0 -> r0 <= r1 -> r1 <= Z.of_nat (List.length l) ->
  List.length (slice_list r0 r1 l) = Z.to_nat (r1 - r0).
Proof.
  intros A r0 r1 l H0 H1 H2. unfold slice_list. rewrite firstn_length, skipn_length. lia.
Qed.

Lemma slice_list_repeat : forall (A : Type) (x : A) r0 r1 n,
  0 <= r0 -> r0 <= r1 -> r1 <= n ->
  slice_list r0 r1 (repeat x (Z.to_nat n)) = repeat x (Z.to_nat (r1 - r0)).
Proof.
  intros A x r0 r1 n H0 H1 H2. unfold slice_list. rewrite skipn_repeat, firstn_repeat.
  f_equal. lia.
Qed.

Lemma slice_list_map : forall (A B : Type) (f : A -> B) r0 r1 l,
  slice_list r0 r1 (map f l) = map f (slice_list r0 r1 l).
Proof. intros. unfold slice_list. rewrite skipn_map, firstn_map. reflexivity. Qed.

Lemma add_entry_slice : forall symm i j v r0 r1 st, 0 <= r0 ->
  slice_list r0 r1 (add_entry symm i j v 0 st) = add_entry symm i j v r0 (slice_list r0 r1 st).
Proof. intros. unfold add_entry. apply zmapi_slice. assumption. Qed.

Lemma read_entries_slice : forall fl symm n m r0 r1 ls k stF stF' rest,
  0 <= r0 -> r0 <= r1 -> r1 <= n ->
  List.length stF = Z.to_nat (n - 0) ->
  read_entries V vread fl symm n m 0 n ls k stF = Ok (stF', rest) ->
  read_entries V vread fl symm n m r0 r1 ls k (slice_list r0 r1 stF)
  = Ok (slice_list r0 r1 stF', rest).
Proof.
  intros fl symm n m r0 r1 ls. induction ls as [|l ls IH]; intros k stF stF' rest H0 H1 H2 Hlen H.
  - destruct (Z_le_gt_dec k 0).
    + rewrite read_entries_done in H by lia. inversion H; subst. apply read_entries_done. lia.
    + rewrite read_entries_eof in H by lia. discriminate.
  - destruct (Z_le_gt_dec k 0).
    + rewrite read_entries_done in H by lia. inversion H; subst. apply read_entries_done. lia.
    + rewrite read_entries_cons in H by (assumption || lia).
      rewrite read_entries_cons; [| |lia].
      2:{ apply slice_list_length; lia. }
      destruct (parse_entry fl n m l) as [[[i j] v]|e'] eqn:P; cbn [bind] in *; [|discriminate].
      rewrite <- add_entry_slice by lia.
      apply IH; try assumption. rewrite add_entry_length. exact Hlen.
Qed.

Theorem mm_read_sparse_range_is_slice : forall fl vk h r0 r1 A,
  mm_read_sparse V vwidth vread fl vk h (-1) (-1) = Ok A ->
  0 <= r0 -> r0 <= r1 -> r1 <= nrows A ->
  mm_read_sparse V vwidth vread fl vk h r0 r1 = Ok (slice r0 r1 A).
Proof.
  intros fl vk h r0 r1 A H H0 H1 H2.
  rewrite mm_read_sparse_split in H. rewrite mm_read_sparse_split.
  destruct (sparse_pre fl vk h (-1) (-1)) as [[[[[n m] nz] q0] q1]|e] eqn:P; cbn [bind] in H; [|discriminate].
  apply sparse_pre_ok_iff in P.
  destruct P as (F1 & F2 & F3 & (t1 & t2 & t3 & R1 & R2 & R3) & Hq0 & Hq1 & E1 & E2 & E3 & E4 & E5 & _).
  change (-1 <? 0) with true in Hq0, Hq1. cbv iota in Hq0, Hq1. subst q0 q1.
  rewrite !Z.eqb_refl in E4. cbn [andb negb] in E4.
  assert (Hnn : 0 <= s64 (if h_symmetric h then 2 * nz else nz)).
  { apply andb_true_iff in E4. destruct E4 as [E4 _]. clear - E4. unfold alloc_ok in E4. lia. }
  unfold sparse_post in H.
  destruct (read_entries V vread fl (h_symmetric h) n m 0 n (h_body h) nz
              (repeat [] (Z.to_nat (n - 0)))) as [[st rest]|e] eqn:R; cbn [bind] in H; [|discriminate].
  destruct (negb (chk_trailing fl) || forallb blank rest) eqn:T; cbn [guard bind] in H; [|discriminate].
  destruct (0 <=? n - 0) eqn:E; cbn [guard bind] in H; [|discriminate].
  inversion H; subst A; clear H. cbn [nrows] in H2. rewrite Z.sub_0_r in H2.
  assert (P' : sparse_pre fl vk h r0 r1 = Ok (n, m, nz, r0, r1)).
  { apply sparse_pre_ok_iff. unfold pre_facts.
    rewrite (proj2 (Z.ltb_ge r0 0) H0). rewrite (proj2 (Z.ltb_ge r1 0) (Z.le_trans _ _ _ H0 H1)).
    repeat split; try assumption; try reflexivity.
    - exists t1, t2, t3. auto.
    - clear - H0 H1 H2. lia.
    - clear - H1. destruct (chk_range fl); simpl; lia.
    - replace (s64 (if h_symmetric h then 2 * nz else nz) <? 0) with false by (clear - Hnn; lia).
      rewrite andb_false_r. exact E4.
    - clear - E5 H0 H1 H2. unfold alloc_ok in *. lia.
    - destruct ((r0 =? 0) && (r1 =? n)) eqn:Efull; [reflexivity|].
      assert (Hpos : 0 < n) by (clear - Efull H0 H1 H2; lia).
      cbn [negb orb]. apply andb_true_iff. split; [clear - Hpos; lia|].
      apply Z.leb_le. apply Z.quot_pos; [|clear - Hpos; lia].
      apply Z.mul_nonneg_nonneg; [|clear - H1; lia]. clear - Hnn. lia. }
  rewrite P'. cbn [bind]. unfold sparse_post.
  assert (Hlen : List.length (repeat (@nil (Z * V)) (Z.to_nat (n - 0))) = Z.to_nat (n - 0))
    by apply repeat_length.
  pose proof (read_entries_slice fl (h_symmetric h) n m r0 r1 (h_body h) nz _ _ _
                H0 H1 H2 Hlen R) as RS.
  rewrite Z.sub_0_r in RS.
  rewrite slice_list_repeat in RS by assumption.
  rewrite RS. cbn [bind]. rewrite T. cbn [guard bind].
  replace (0 <=? r1 - r0) with true by (clear - H1; lia). cbn [guard bind].
  unfold slice. cbn [nrows ncols rows]. rewrite slice_list_map. reflexivity.
Qed.

Theorem mm_read_range_is_slice : forall fl vk f r0 r1 A,
  mm_read V vwidth vread fl vk f (-1) (-1) = Ok A ->
  0 <= r0 -> r0 <= r1 -> r1 <= nrows A ->
  mm_read V vwidth vread fl vk f r0 r1 = Ok (slice r0 r1 A).
Proof.
  intros fl vk f r0 r1 A H H0 H1 H2. unfold mm_read in *.
  destruct (mm_open f) as [h|e]; cbn [bind] in *; [|discriminate].
  apply mm_read_sparse_range_is_slice; assumption.
Qed.

(* ------------------------------------------------------------------ files generated from an entry list *)
Definition entry_line (e : Z * Z * V) : line :=
  let '(i, j, v) := e in mkLine false ([print_Z (i + 1); print_Z (j + 1)] ++ vprint v).
Definition gen_lines (L : list (Z * Z * V)) : list line := map entry_line L.

(* independent specification of the coordinate -> row-list conversion *)
Definition expand_row (symm : bool) (r : Z) (L : list (Z * Z * V)) : row :=
  flat_map (fun '(i, j, v) =>
              (if i =? r then [(j, v)] else []) ++
              (if symm && negb (i =? j) && (j =? r) then [(i, v)] else [])) L.

Definition good_entries (n m : Z) (L : list (Z * Z * V)) : Prop :=
  Forall (fun '(i, j, _) => 0 <= i < n /\ 0 <= j < m) L.

Definition banner_gen (symm : bool) (k : kind) : line :=
  mkLine true ["%%MatrixMarket"; "matrix"; "coordinate"; kind_word k;
               if symm then "symmetric" else "general"].

Lemma expand_row_cons : forall symm r i j v L,
  expand_row symm r ((i, j, v) :: L) = contrib symm i j v r ++ expand_row symm r L.
Proof. reflexivity. Qed.

Lemma s64_small : forall x, 0 <= x < two63 -> s64 x = x.
Proof.
  intros x H. unfold s64. rewrite Z.mod_small by (unfold two63, two64 in *; lia).
  replace (x <? two63) with true by lia. reflexivity.
Qed.

Lemma mm_open_gen : forall symm k n m nz body,
  0 <= n < two64 -> 0 <= m < two64 ->
  mm_open (banner_gen symm k :: mkLine false [print_Z n; print_Z m; print_Z nz] :: body)
  = Ok (mkHeader true symm k [print_Z n; print_Z m; print_Z nz] body n m).
Proof.
  intros symm k n m nz body Hn Hm. unfold mm_open, banner_gen. cbn [l_toks].
  change (String.eqb "%%MatrixMarket" "%%MatrixMarket") with true.
  change (String.eqb "matrix" "matrix") with true.
  change (String.eqb "coordinate" "coordinate") with true.
  cbn [guard bind skip_comments l_comment of_opt l_toks].
  rewrite (read_int_print_unsigned n) by exact Hn. cbn [of_opt bind].
  rewrite (read_int_print_unsigned m) by exact Hm. cbn [of_opt bind].
  destruct symm; destruct k; reflexivity.
Qed.

Section RoundTrip.
Hypothesis vread_vprint : forall v rest, vread (vprint v ++ rest) = Some (v, rest).

Lemma parse_entry_gen : forall fl n m i j v,
  0 <= i < n -> 0 <= j < m -> n < two63 -> m < two63 ->
  parse_entry fl n m (entry_line (i, j, v)) = Ok (i, j, v).
Proof.
  intros fl n m i j v Hi Hj Hn Hm. unfold parse_entry, entry_line. cbn [l_toks].
  change ([print_Z (i + 1); print_Z (j + 1)] ++ vprint v) with (print_Z (i + 1) :: print_Z (j + 1) :: vprint v).
  rewrite read_int_print_signed by (unfold two63 in *; lia). cbn [of_opt bind].
  rewrite read_int_print_signed by (unfold two63 in *; lia). cbn [of_opt bind].
  rewrite <- (app_nil_r (vprint v)). rewrite vread_vprint. cbn [of_opt bind].
  replace (i + 1 - 1) with i by lia. replace (j + 1 - 1) with j by lia.
  replace ((0 <=? i) && (i <? n) && (0 <=? j) && (j <? m)) with true by lia.
  rewrite orb_true_r. reflexivity.
Qed.

(* ONE general lemma: the loop over generated lines computes expand_row bucket-wise *)
Lemma read_entries_gen : forall fl symm n m r0 r1 L st rest,
  n < two63 -> m < two63 -> good_entries n m L ->
  List.length st = Z.to_nat (r1 - r0) ->
  read_entries V vread fl symm n m r0 r1 (gen_lines L ++ rest) (Z.of_nat (List.length L)) st
  = Ok (zmapi (fun q b => b ++ expand_row symm q L) r0 st, rest).
Proof.
  intros fl symm n m r0 r1 L. induction L as [|[[i j] v] L IH]; intros st rest Hn Hm Hg Hlen.
  - simpl. rewrite read_entries_done by lia. f_equal. f_equal. symmetry.
    apply zmapi_id. intros q b _. apply app_nil_r.
  - inversion Hg as [|x l Hx Hg']; subst. destruct Hx as [Hi Hj].
    cbn [gen_lines map Datatypes.app]. cbn [List.length]. rewrite Nat2Z.inj_succ.
    rewrite read_entries_cons by (assumption || lia).
    rewrite parse_entry_gen by assumption. cbn [bind].
    replace (Z.succ (Z.of_nat (List.length L)) - 1) with (Z.of_nat (List.length L)) by lia.
    fold (gen_lines L). rewrite IH; try assumption.
    2:{ rewrite add_entry_length. exact Hlen. }
    f_equal. f_equal. unfold add_entry. rewrite zmapi_zmapi. apply zmapi_ext.
    intros q b _. rewrite expand_row_cons. rewrite <- app_assoc. reflexivity.
Qed.

Theorem mm_read_generated : forall fl symm k n m L,
  0 <= n < two63 -> 0 <= m < two63 -> (symm = true -> n = m) -> good_entries n m L ->
  alloc_ok (if symm then 2 * Z.of_nat (List.length L) else Z.of_nat (List.length L)) 8 = true ->
  alloc_ok (if symm then 2 * Z.of_nat (List.length L) else Z.of_nat (List.length L)) vwidth = true ->
  alloc_ok (n + 1) 8 = true ->
  mm_read V vwidth vread fl k
    (banner_gen symm k :: mkLine false [print_Z n; print_Z m; print_Z (Z.of_nat (List.length L))]
       :: gen_lines L) (-1) (-1)
  = Ok (mkCrs n m (map (fun r => sort_row (expand_row symm (Z.of_nat r) L)) (seq 0 (Z.to_nat n)))).
Proof.
  intros fl symm k n m L Hn Hm Hs Hg A1 A2 A3.
  set (nz := Z.of_nat (List.length L)) in *.
  assert (Hnz : 0 <= nz < two63 /\ 0 <= (if symm then 2 * nz else nz) < two63).
  { clear - A1. unfold alloc_ok, alloc_cap, two63 in *. subst nz. destruct symm; lia. }
  unfold mm_read. rewrite mm_open_gen by (clear - Hn Hm; unfold two63, two64 in *; lia).
  cbn [bind]. rewrite mm_read_sparse_split.
  assert (P : sparse_pre fl k (mkHeader true symm k [print_Z n; print_Z m; print_Z nz] (gen_lines L) n m)
                (-1) (-1) = Ok (n, m, nz, 0, n)).
  { apply sparse_pre_ok_iff. unfold pre_facts. cbn [h_sparse h_kind h_size h_symmetric].
    change (-1 <? 0) with true. cbv iota. rewrite s64_small by apply Hnz.
    repeat split; try reflexivity.
    - apply Bool.eqb_reflx.
    - apply Bool.eqb_reflx.
    - exists [print_Z m; print_Z nz], [print_Z nz], []. repeat split.
      + apply read_int_print_signed. clear - Hn. unfold two63 in *. lia.
      + apply read_int_print_signed. clear - Hm. unfold two63 in *. lia.
      + apply read_int_print_unsigned. clear - Hnz. unfold two63, two64 in *. lia.
    - clear - Hn. lia.
    - clear - Hn. destruct (chk_range fl); simpl; lia.
    - clear - Hs. destruct (chk_index fl); [|reflexivity]. destruct symm; [|reflexivity].
      simpl. specialize (Hs eq_refl). lia.
    - rewrite !Z.eqb_refl. cbn [andb negb]. rewrite A1, A2. reflexivity.
    - rewrite Z.sub_0_r. exact A3.
    - rewrite !Z.eqb_refl. reflexivity. }
  rewrite P. cbn [bind]. unfold sparse_post. cbn [h_symmetric h_body].
  rewrite <- (app_nil_r (gen_lines L)).
  rewrite read_entries_gen; try assumption; try (clear - Hn Hm; lia).
  2:{ apply repeat_length. }
  cbn [bind forallb]. rewrite orb_true_r. cbn [guard bind].
  replace (0 <=? n - 0) with true by (clear - Hn; lia). cbn [guard bind].
  rewrite Z.sub_0_r. unfold u64. rewrite Z.mod_small by (clear - Hm; unfold two63, two64 in *; lia).
  f_equal. f_equal. rewrite zmapi_repeat_nil. rewrite map_map. apply map_ext.
  intros q. reflexivity.
Qed.

(* ------------------------------------------------------------------ A3: symmetric storage *)
Theorem mm_read_symmetric_expands : forall fl k n L,
  0 <= n < two63 -> good_entries n n L ->
  alloc_ok (2 * Z.of_nat (List.length L)) 8 = true ->
  alloc_ok (2 * Z.of_nat (List.length L)) vwidth = true ->
  alloc_ok (n + 1) 8 = true ->
  mm_read V vwidth vread fl k
    (mkLine true ["%%MatrixMarket"; "matrix"; "coordinate"; kind_word k; "symmetric"]
       :: mkLine false [print_Z n; print_Z n; print_Z (Z.of_nat (List.length L))]
       :: gen_lines L) (-1) (-1)
  = Ok (mkCrs n n (map (fun r => sort_row (expand_row true (Z.of_nat r) L)) (seq 0 (Z.to_nat n)))).
Proof.
  intros fl k n L Hn Hg A1 A2 A3.
  apply (mm_read_generated fl true k n n L); auto.
Qed.

(* ------------------------------------------------------------------ A1: write/read round trip *)
Fixpoint entries_of (i : Z) (rs : list row) : list (Z * Z * V) :=
  match rs with
  | [] => []
  | r :: rs' => map (fun e => (i, fst e, snd e)) r ++ entries_of (i + 1) rs'
  end.

Lemma write_rows_gen : forall rs i, write_rows V vprint i rs = gen_lines (entries_of i rs).
Proof.
  induction rs as [|r rs IH]; intros i; [reflexivity|].
  simpl. unfold gen_lines. rewrite map_app, map_map. rewrite IH. reflexivity.
Qed.

Lemma entries_of_length : forall rs i, List.length (entries_of i rs) = List.length (List.concat rs).
Proof.
  induction rs as [|r rs IH]; intros i; [reflexivity|].
  simpl. rewrite !app_length, map_length, IH. reflexivity.
Qed.

Lemma expand_row_app : forall symm q L1 L2,
  expand_row symm q (L1 ++ L2) = expand_row symm q L1 ++ expand_row symm q L2.
Proof. intros. unfold expand_row. apply flat_map_app. Qed.

Lemma expand_own_row : forall s (r : row), expand_row false s (map (fun e => (s, fst e, snd e)) r) = r.
Proof.
  intros s r. induction r as [|[c v] r IH]; [reflexivity|].
  cbn [map fst snd]. rewrite expand_row_cons, IH. unfold contrib.
  rewrite Z.eqb_refl. reflexivity.
Qed.

Lemma expand_other_row : forall s q (r : row), q <> s ->
  expand_row false q (map (fun e => (s, fst e, snd e)) r) = [].
Proof.
  intros s q r Hq. induction r as [|[c v] r IH]; [reflexivity|].
  cbn [map fst snd]. rewrite expand_row_cons, IH. unfold contrib.
  replace (s =? q) with false by lia. reflexivity.
Qed.

Lemma expand_later_rows : forall rs s q, q < s -> expand_row false q (entries_of s rs) = [].
Proof.
  induction rs as [|r rs IH]; intros s q Hq; [reflexivity|].
  cbn [entries_of]. rewrite expand_row_app, expand_other_row by lia. rewrite IH by lia. reflexivity.
Qed.

Lemma expand_entries_of : forall rs s,
  map (fun r => expand_row false (s + Z.of_nat r) (entries_of s rs)) (seq 0 (List.length rs)) = rs.
Proof.
  induction rs as [|r rs IH]; intros s; [reflexivity|].
  cbn [List.length seq map entries_of]. f_equal.
  - rewrite expand_row_app. replace (s + Z.of_nat 0) with s by lia.
    rewrite expand_own_row, expand_later_rows by lia. apply app_nil_r.
  - rewrite <- seq_shift, map_map. rewrite <- (IH (s + 1)) at 2. apply map_ext.
    intros q. rewrite expand_row_app, expand_other_row by lia.
    replace (s + Z.of_nat (S q)) with (s + 1 + Z.of_nat q) by lia. reflexivity.
Qed.

Lemma good_entries_of : forall rs s n m,
  0 <= s -> s + Z.of_nat (List.length rs) <= n ->
  forallb (row_wf m) rs = true -> good_entries n m (entries_of s rs).
Proof.
  induction rs as [|r rs IH]; intros s n m Hs Hn Hw; [constructor|].
  cbn [entries_of]. cbn [forallb] in Hw. apply andb_true_iff in Hw. destruct Hw as [Hr Hw].
  cbn [List.length] in Hn. unfold good_entries. apply Forall_app. split.
  - apply Forall_forall. intros [[i j] v] Hin. apply in_map_iff in Hin.
    destruct Hin as ([c v'] & He & Hin). inversion He; subst; clear He.
    unfold row_wf in Hr. rewrite forallb_forall in Hr. specialize (Hr _ Hin). cbn [fst] in *. lia.
  - apply IH; [lia|lia|exact Hw].
Qed.

Theorem mm_read_write_roundtrip : forall fl k (A : crs V),
  wf A = true -> nrows A = Z.of_nat (List.length (rows A)) -> 0 <= ncols A < two63 ->
  alloc_ok (nnz A) 8 = true -> alloc_ok (nnz A) vwidth = true -> alloc_ok (nrows A + 1) 8 = true ->
  mm_read V vwidth vread fl k (mm_write_sparse V vprint k A) (-1) (-1) = Ok (sort_rows A).
Proof.
  intros fl k A Hwf Hnr Hnc A1 A2 A3.
  unfold wf in Hwf. apply andb_true_iff in Hwf. destruct Hwf as [_ Hcols].
  unfold mm_write_sparse. rewrite write_rows_gen.
  assert (Hnnz : nnz A = Z.of_nat (List.length (entries_of 0 (rows A)))).
  { unfold nnz. rewrite entries_of_length. reflexivity. }
  rewrite Hnnz in *. rewrite <- Hnr.
  change (banner_line true k) with (banner_gen false k).
  assert (Hn : 0 <= nrows A < two63).
  { clear - A3 Hnr. unfold alloc_ok, alloc_cap, two63 in *. lia. }
  rewrite (mm_read_generated fl false k (nrows A) (ncols A)); try assumption.
  - unfold sort_rows. f_equal. f_equal.
    rewrite Hnr, Nat2Z.id. rewrite <- (expand_entries_of (rows A) 0) at 2.
    rewrite map_map. apply map_ext. intros q. reflexivity.
  - discriminate.
  - apply good_entries_of; [lia|lia|exact Hcols].
Qed.

Corollary mm_read_write_range_roundtrip : forall fl k (A : crs V) r0 r1,
  wf A = true -> nrows A = Z.of_nat (List.length (rows A)) -> 0 <= ncols A < two63 ->
  alloc_ok (nnz A) 8 = true -> alloc_ok (nnz A) vwidth = true -> alloc_ok (nrows A + 1) 8 = true ->
  0 <= r0 -> r0 <= r1 -> r1 <= nrows A ->
  mm_read V vwidth vread fl k (mm_write_sparse V vprint k A) r0 r1 = Ok (slice r0 r1 (sort_rows A)).
Proof.
  intros. apply mm_read_range_is_slice; try assumption.
  apply mm_read_write_roundtrip; assumption.
Qed.

End RoundTrip.

(* a diagonal entry is kept once, an off-diagonal one is mirrored *)
Theorem mm_symmetric_diag_once : forall i j v,
  expand_row true i [(i, i, v)] = [(i, v)] /\
  (i <> j -> expand_row true i [(i, j, v)] = [(j, v)] /\ expand_row true j [(i, j, v)] = [(i, v)]) /\
  (forall r, r <> i -> r <> j -> expand_row true r [(i, j, v)] = []) /\
  expand_row false i [(i, j, v)] = [(j, v)] /\ (i <> j -> expand_row false j [(i, j, v)] = []).
Proof.
  intros i j v. unfold expand_row. cbn [flat_map]. repeat split.
  - rewrite !Z.eqb_refl. reflexivity.
  - rewrite Z.eqb_refl. replace (i =? j) with false by lia. replace (j =? i) with false by lia. reflexivity.
  - rewrite Z.eqb_refl. replace (i =? j) with false by lia. reflexivity.
  - intros r Hi Hj. replace (i =? r) with false by lia. replace (j =? r) with false by lia.
    rewrite andb_false_r. reflexivity.
  - rewrite Z.eqb_refl. reflexivity.
  - intros Hij. replace (i =? j) with false by lia. reflexivity.
Qed.

(* ------------------------------------------------------------------ A4: error behaviour *)
Lemma read_entries_short : forall fl symm n m r0 r1 ls k st,
  List.length st = Z.to_nat (r1 - r0) -> Z.of_nat (List.length ls) < k ->
  read_entries V vread fl symm n m r0 r1 ls k st = Error EFormat.
Proof.
  intros fl symm n m r0 r1 ls. induction ls as [|l ls IH]; intros k st Hlen Hk.
  - apply read_entries_eof. simpl in Hk. lia.
  - cbn [List.length] in Hk. rewrite read_entries_cons by (assumption || lia).
    destruct (parse_entry fl n m l) as [[[i j] v]|e] eqn:P; cbn [bind].
    + apply IH; [rewrite add_entry_length; exact Hlen|lia].
    + apply parse_entry_err in P. subst e. reflexivity.
Qed.

(* fewer data lines than announced: always an exception, never Ok, never a crash;
   for every flag setting and every requested range *)
Theorem mm_truncated_is_error : forall fl vk h rb re n m nz t1 t2 t3,
  read_int true (h_size h) = Some (n, t1) -> read_int true t1 = Some (m, t2) ->
  read_int false t2 = Some (nz, t3) ->
  Z.of_nat (List.length (h_body h)) < nz ->
  exists e, mm_read_sparse V vwidth vread fl vk h rb re = Error e /\ e <> EOOB.
Proof.
  intros fl vk h rb re n m nz t1 t2 t3 R1 R2 R3 Hshort.
  rewrite mm_read_sparse_split.
  destruct (sparse_pre fl vk h rb re) as [[[[[n' m'] nz'] r0] r1]|e] eqn:P; cbn [bind].
  - apply sparse_pre_ok_iff in P.
    destruct P as (_ & _ & _ & (u1 & u2 & u3 & Q1 & Q2 & Q3) & _).
    rewrite R1 in Q1. inversion Q1; subst n' u1. rewrite R2 in Q2. inversion Q2; subst m' u2.
    rewrite R3 in Q3. inversion Q3; subst nz' u3.
    unfold sparse_post. rewrite read_entries_short; [|apply repeat_length|exact Hshort].
    cbn [bind]. exists EFormat. split; [reflexivity|discriminate].
  - exists e. split; [reflexivity|]. eapply sparse_pre_err. exact P.
Qed.

Corollary mm_truncated_is_exception : forall fl vk h rb re n m nz t1 t2 t3,
  read_int true (h_size h) = Some (n, t1) -> read_int true t1 = Some (m, t2) ->
  read_int false t2 = Some (nz, t3) ->
  Z.of_nat (List.length (h_body h)) < nz ->
  is_exception (mm_read_sparse V vwidth vread fl vk h rb re) = true.
Proof.
  intros fl vk h rb re n m nz t1 t2 t3 R1 R2 R3 Hs.
  destruct (mm_truncated_is_error fl vk h rb re n m nz t1 t2 t3 R1 R2 R3 Hs) as (e & He & Hne).
  rewrite He. destruct e; try reflexivity. congruence.
Qed.

Lemma write_rows_length : forall rs i,
  List.length (write_rows V vprint i rs) = List.length (List.concat rs).
Proof.
  intros rs i. rewrite write_rows_gen. unfold gen_lines. rewrite map_length. apply entries_of_length.
Qed.

(* a written file cut (at a line boundary) anywhere before its end is rejected *)
Theorem mm_write_truncated_is_error : forall fl k (A : crs V) j rb re,
  nrows A = Z.of_nat (List.length (rows A)) -> 0 <= ncols A < two63 ->
  alloc_ok (nnz A) 8 = true -> alloc_ok (nrows A + 1) 8 = true ->
  (j < List.length (mm_write_sparse V vprint k A))%nat ->
  is_exception (mm_read V vwidth vread fl k (firstn j (mm_write_sparse V vprint k A)) rb re) = true.
Proof.
  intros fl k A j rb re Hnr Hnc A1 A3 Hj.
  unfold mm_write_sparse in *. cbn [List.length] in Hj. rewrite write_rows_length in Hj.
  destruct j as [|[|j]].
  - reflexivity.
  - destruct k; reflexivity.
  - cbn [firstn]. unfold mm_read.
    change (banner_line true k) with (banner_gen false k).
    assert (Hn : 0 <= Z.of_nat (List.length (rows A)) < two63).
    { clear - A3 Hnr. unfold alloc_ok, alloc_cap, two63 in *. lia. }
    assert (Hz : 0 <= nnz A < two63).
    { clear - A1. unfold alloc_ok, alloc_cap, two63 in *. lia. }
    rewrite mm_open_gen by (clear - Hn Hnc; unfold two63, two64 in *; lia).
    cbn [bind].
    eapply (mm_truncated_is_exception fl k _ rb re).
    + cbn [h_size]. apply read_int_print_signed. clear - Hn. unfold two63 in *. lia.
    + apply read_int_print_signed. clear - Hnc. unfold two63 in *. lia.
    + apply read_int_print_unsigned. clear - Hz. unfold two63, two64 in *. lia.
    + cbn [h_body]. rewrite firstn_length, write_rows_length. unfold nnz. clear - Hj. lia.
Qed.

(* banner *)
Lemma mm_open_ok_banner : forall b rest h banner mtx coord dtype storage tl,
  mm_open (b :: rest) = Ok h -> l_toks b = banner :: mtx :: coord :: dtype :: storage :: tl ->
  banner = "%%MatrixMarket" /\ mtx = "matrix" /\
  (storage = "general" \/ storage = "symmetric") /\
  (coord = "coordinate" \/ coord = "array") /\
  (dtype = "real" \/ dtype = "complex" \/ dtype = "integer").
Proof.
  intros b rest h banner mtx coord dtype storage tl H T. unfold mm_open in H. rewrite T in H.
  destruct (String.eqb banner "%%MatrixMarket") eqn:E1; cbn [guard bind] in H; [|discriminate].
  destruct (String.eqb mtx "matrix") eqn:E2; cbn [guard bind] in H; [|discriminate].
  apply String.eqb_eq in E1. apply String.eqb_eq in E2.
  split; [exact E1|]. split; [exact E2|].
  assert (S : storage = "general" \/ storage = "symmetric").
  { destruct (String.eqb storage "general") eqn:E3; [left; apply String.eqb_eq; exact E3|].
    destruct (String.eqb storage "symmetric") eqn:E4; [right; apply String.eqb_eq; exact E4|].
    cbn [bind] in H. discriminate. }
  split; [exact S|].
  assert (C : coord = "coordinate" \/ coord = "array").
  { destruct (String.eqb coord "coordinate") eqn:E5; [left; apply String.eqb_eq; exact E5|].
    destruct (String.eqb coord "array") eqn:E6; [right; apply String.eqb_eq; exact E6|].
    destruct (String.eqb storage "general"); [cbn [bind] in H; discriminate|].
    destruct (String.eqb storage "symmetric"); cbn [bind] in H; discriminate. }
  split; [exact C|].
  destruct (String.eqb dtype "real") eqn:E7; [left; apply String.eqb_eq; exact E7|].
  destruct (String.eqb dtype "complex") eqn:E8; [right; left; apply String.eqb_eq; exact E8|].
  destruct (String.eqb dtype "integer") eqn:E9; [right; right; apply String.eqb_eq; exact E9|].
  exfalso.
  destruct (String.eqb storage "general"); [|destruct (String.eqb storage "symmetric")];
    cbn [bind] in H; try discriminate;
    (destruct (String.eqb coord "coordinate"); [|destruct (String.eqb coord "array")];
     cbn [bind] in H; discriminate).
Qed.

Theorem mm_bad_banner_is_error : forall b rest banner mtx coord dtype storage tl,
  l_toks b = banner :: mtx :: coord :: dtype :: storage :: tl ->
  banner <> "%%MatrixMarket" \/ mtx <> "matrix" \/
  (storage <> "general" /\ storage <> "symmetric") \/
  (coord <> "coordinate" /\ coord <> "array") \/
  (dtype <> "real" /\ dtype <> "complex" /\ dtype <> "integer") ->
  mm_open (b :: rest) = Error EFormat.
Proof.
  intros b rest banner mtx coord dtype storage tl T Hbad.
  destruct (mm_open (b :: rest)) as [h|e] eqn:O.
  - exfalso. destruct (mm_open_ok_banner _ _ _ _ _ _ _ _ _ O T) as (B1 & B2 & B3 & B4 & B5).
    destruct Hbad as [Hb|[Hb|[[Hb1 Hb2]|[[Hb1 Hb2]|[Hb1 [Hb2 Hb3]]]]]].
    + contradiction.
    + contradiction.
    + destruct B3; contradiction.
    + destruct B4; contradiction.
    + destruct B5 as [|[|]]; contradiction.
  - apply mm_open_err in O. subst e. reflexivity.
Qed.

Theorem mm_empty_file_is_error : mm_open [] = Error EFormat.
Proof. reflexivity. Qed.

Theorem mm_short_banner_is_error : forall b rest,
  (List.length (l_toks b) < 5)%nat -> mm_open (b :: rest) = Error EFormat.
Proof.
  intros b rest H. unfold mm_open.
  destruct (l_toks b) as [|t1 [|t2 [|t3 [|t4 [|t5 tl]]]]]; try reflexivity.
  simpl in H. lia.
Qed.

Theorem mm_banner_only_is_error : forall b rest,
  skip_comments rest = None -> mm_open (b :: rest) = Error EFormat.
Proof.
  intros b rest H. destruct (mm_open (b :: rest)) as [h|e] eqn:O.
  - exfalso. unfold mm_open in O.
    destruct (l_toks b) as [|banner [|mtx [|coord [|dtype [|storage tl]]]]]; try discriminate.
    destruct (String.eqb banner "%%MatrixMarket"); cbn [guard bind] in O; [|discriminate].
    destruct (String.eqb mtx "matrix"); cbn [guard bind] in O; [|discriminate].
    rewrite H in O.
    destruct (String.eqb storage "general"); [|destruct (String.eqb storage "symmetric")];
      cbn [bind] in O; try discriminate;
      (destruct (String.eqb coord "coordinate"); [|destruct (String.eqb coord "array")];
       cbn [bind] in O; try discriminate;
       (destruct (String.eqb dtype "real"); [|destruct (String.eqb dtype "complex");
          [|destruct (String.eqb dtype "integer")]]; cbn [bind of_opt] in O; discriminate)).
  - apply mm_open_err in O. subst e. reflexivity.
Qed.

Theorem mm_wrong_kind_is_error : forall fl vk h rb re,
  h_sparse h = true ->
  kind_complex vk <> kind_complex (h_kind h) \/ kind_integer vk <> kind_integer (h_kind h) ->
  mm_read_sparse V vwidth vread fl vk h rb re = Error EKind.
Proof.
  intros fl vk h rb re Hs Hk. unfold mm_read_sparse. rewrite Hs. cbn [guard bind].
  destruct (Bool.eqb (kind_complex vk) (kind_complex (h_kind h))) eqn:E1; cbn [guard bind]; [|reflexivity].
  destruct (Bool.eqb (kind_integer vk) (kind_integer (h_kind h))) eqn:E2; cbn [guard bind]; [|reflexivity].
  apply Bool.eqb_prop in E1. apply Bool.eqb_prop in E2. destruct Hk; contradiction.
Qed.

Theorem mm_not_sparse_is_error : forall fl vk h rb re,
  h_sparse h = false -> mm_read_sparse V vwidth vread fl vk h rb re = Error EFormat.
Proof. intros fl vk h rb re Hs. unfold mm_read_sparse. rewrite Hs. reflexivity. Qed.

(* checked reader: an out-of-range index in the line being processed *)
Theorem mm_checked_index_out_of_range_is_error : forall fl symm n m r0 r1 l ls k st i1 t1 j1 t2 v t3,
  chk_index fl = true -> 0 < k ->
  read_int true (l_toks l) = Some (i1, t1) -> read_int true t1 = Some (j1, t2) ->
  vread t2 = Some (v, t3) ->
  ~ (0 <= i1 - 1 < n /\ 0 <= j1 - 1 < m) ->
  read_entries V vread fl symm n m r0 r1 (l :: ls) k st = Error EFormat.
Proof.
  intros fl symm n m r0 r1 l ls k st i1 t1 j1 t2 v t3 Hc Hk R1 R2 R3 Hbad.
  simpl read_entries. replace (k <=? 0) with false by lia.
  rewrite R1. cbn [of_opt bind]. rewrite R2. cbn [of_opt bind]. rewrite R3. cbn [of_opt bind].
  rewrite Hc.
  replace (negb true || ((0 <=? i1 - 1) && (i1 - 1 <? n) && (0 <=? j1 - 1) && (j1 - 1 <? m)))
    with false by (clear - Hbad; simpl; lia).
  reflexivity.
Qed.

(* the loop over a prefix, then the rest *)
Lemma read_entries_app : forall fl symm n m r0 r1 pre ls k st,
  List.length st = Z.to_nat (r1 - r0) -> Z.of_nat (List.length pre) <= k ->
  read_entries V vread fl symm n m r0 r1 (pre ++ ls) k st =
  bind (read_entries V vread fl symm n m r0 r1 pre (Z.of_nat (List.length pre)) st)
       (fun '(st', _) => read_entries V vread fl symm n m r0 r1 ls (k - Z.of_nat (List.length pre)) st').
Proof.
  intros fl symm n m r0 r1 pre. induction pre as [|l pre IH]; intros ls k st Hlen Hk.
  - cbn [Datatypes.app List.length]. rewrite (read_entries_done _ _ _ _ _ _ [] (Z.of_nat 0)) by lia.
    cbn [bind]. f_equal. lia.
  - cbn [Datatypes.app List.length] in *. rewrite Nat2Z.inj_succ in *.
    rewrite read_entries_cons by (assumption || lia).
    rewrite (read_entries_cons _ _ _ _ _ _ l pre) by (assumption || lia).
    destruct (parse_entry fl n m l) as [[[i j] v]|e]; cbn [bind]; [|reflexivity].
    rewrite IH by (rewrite ?add_entry_length; assumption || lia).
    replace (Z.succ (Z.of_nat (List.length pre)) - 1) with (Z.of_nat (List.length pre)) by lia.
    replace (k - 1 - Z.of_nat (List.length pre)) with (k - Z.succ (Z.of_nat (List.length pre))) by lia.
    reflexivity.
Qed.

(* ... at any position of the body, provided the lines before it were accepted *)
Theorem mm_checked_index_out_of_range_is_error_at :
  forall fl symm n m r0 r1 pre l ls k st st' rest' i1 t1 j1 t2 v t3,
  chk_index fl = true -> List.length st = Z.to_nat (r1 - r0) ->
  Z.of_nat (List.length pre) < k ->
  read_entries V vread fl symm n m r0 r1 pre (Z.of_nat (List.length pre)) st = Ok (st', rest') ->
  read_int true (l_toks l) = Some (i1, t1) -> read_int true t1 = Some (j1, t2) ->
  vread t2 = Some (v, t3) ->
  ~ (0 <= i1 - 1 < n /\ 0 <= j1 - 1 < m) ->
  read_entries V vread fl symm n m r0 r1 (pre ++ l :: ls) k st = Error EFormat.
Proof.
  intros fl symm n m r0 r1 pre l ls k st st' rest' i1 t1 j1 t2 v t3 Hc Hlen Hk Hpre R1 R2 R3 Hbad.
  rewrite read_entries_app by (assumption || lia). rewrite Hpre. cbn [bind].
  eapply mm_checked_index_out_of_range_is_error; eauto. lia.
Qed.

(* checked reader: data after the last announced entry *)
Theorem mm_checked_trailing_is_error : forall fl vk h rb re n m nz r0 r1 st rest,
  chk_trailing fl = true ->
  sparse_pre fl vk h rb re = Ok (n, m, nz, r0, r1) ->
  read_entries V vread fl (h_symmetric h) n m r0 r1 (h_body h) nz (repeat [] (Z.to_nat (r1 - r0)))
    = Ok (st, rest) ->
  forallb blank rest = false ->
  mm_read_sparse V vwidth vread fl vk h rb re = Error EFormat.
Proof.
  intros fl vk h rb re n m nz r0 r1 st rest Hc P R Hb.
  rewrite mm_read_sparse_split, P. cbn [bind]. unfold sparse_post. rewrite R. cbn [bind].
  rewrite Hc, Hb. reflexivity.
Qed.

Theorem mm_checked_ok_no_trailing : forall fl vk h rb re A,
  chk_trailing fl = true ->
  mm_read_sparse V vwidth vread fl vk h rb re = Ok A ->
  exists n m nz r0 r1 st rest,
    sparse_pre fl vk h rb re = Ok (n, m, nz, r0, r1) /\
    read_entries V vread fl (h_symmetric h) n m r0 r1 (h_body h) nz (repeat [] (Z.to_nat (r1 - r0)))
      = Ok (st, rest) /\ forallb blank rest = true.
Proof.
  intros fl vk h rb re A Hc H. rewrite mm_read_sparse_split in H.
  destruct (sparse_pre fl vk h rb re) as [[[[[n m] nz] r0] r1]|e] eqn:P; cbn [bind] in H; [|discriminate].
  unfold sparse_post in H.
  destruct (read_entries V vread fl (h_symmetric h) n m r0 r1 (h_body h) nz
              (repeat [] (Z.to_nat (r1 - r0)))) as [[st rest]|e] eqn:R; cbn [bind] in H; [|discriminate].
  rewrite Hc in H. destruct (forallb blank rest) eqn:B; [|discriminate].
  exists n, m, nz, r0, r1, st, rest. auto.
Qed.

(* ------------------------------------------------------------------ dense reader: safety *)
Definition dense_ok (chunk m : Z) (es : list (Z * Z * V)) : Prop :=
  Forall (fun '(i, j, _) => 0 <= i < chunk /\ 0 <= j < m) es.

Lemma read_dense_lines_ok : forall n m r0 r1 ls q acc es rest,
  0 < n -> 0 <= q -> dense_ok (r1 - r0) m acc ->
  read_dense_lines V vread n r0 r1 ls q (n * m) acc = Ok (es, rest) ->
  dense_ok (r1 - r0) m es.
Proof.
  intros n m r0 r1 ls. induction ls as [|l ls IH]; intros q acc es rest Hn Hq Hacc H.
  - simpl in H. destruct (n * m <=? q); [|discriminate]. inversion H; subst. exact Hacc.
  - simpl in H. destruct (n * m <=? q) eqn:E; [inversion H; subst; exact Hacc|].
    destruct ((r0 <=? q mod n) && (q mod n <? r1)) eqn:G.
    + destruct (vread (l_toks l)) as [[v t]|]; cbn [of_opt bind] in H; [|discriminate].
      eapply IH; [exact Hn| |  |exact H]; [lia|].
      unfold dense_ok. apply Forall_app. split; [exact Hacc|].
      constructor; [|constructor]. split.
      * clear - G. lia.
      * split; [apply Z.div_pos; lia|]. apply Z.div_lt_upper_bound; [lia|]. clear - E. lia.
    + eapply IH; [exact Hn| |exact Hacc|exact H]. lia.
Qed.

Lemma read_dense_lines_err : forall n r0 r1 ls q total acc e,
  read_dense_lines V vread n r0 r1 ls q total acc = Error e -> e = EFormat.
Proof.
  intros n r0 r1 ls. induction ls as [|l ls IH]; intros q total acc e H.
  - simpl in H. destruct (total <=? q); congruence.
  - simpl in H. destruct (total <=? q); [discriminate|].
    destruct ((r0 <=? q mod n) && (q mod n <? r1)).
    + destruct (vread (l_toks l)) as [[v t]|]; cbn [of_opt bind] in H; [|congruence].
      eapply IH; exact H.
    + eapply IH; exact H.
Qed.

Lemma dense_set_some : forall (l : list (option V)) idx v, (idx < List.length l)%nat ->
  exists l', dense_set V l idx v = Some l' /\ List.length l' = List.length l.
Proof.
  induction l as [|x l IH]; intros idx v H; simpl in H; [lia|].
  destruct idx as [|idx]; simpl.
  - eexists. split; reflexivity.
  - destruct (IH idx v) as (l' & E & Hl); [lia|]. rewrite E. eexists. split; [reflexivity|].
    simpl. rewrite Hl. reflexivity.
Qed.

Lemma dense_fill_ok : forall chunk m es acc,
  dense_ok chunk m es -> List.length acc = Z.to_nat (chunk * m) ->
  exists v, dense_fill V m es acc = Ok v /\ List.length v = List.length acc.
Proof.
  intros chunk m es. induction es as [|[[i j] x] es IH]; intros acc Hok Hlen.
  - exists acc. split; reflexivity.
  - inversion Hok as [|y l Hy Hok']; subst. destruct Hy as [Hi Hj].
    assert (Hidx : 0 <= i * m + j < chunk * m).
    { assert (i * m <= (chunk - 1) * m) by (apply Z.mul_le_mono_nonneg_r; lia).
      assert (0 <= i * m) by (apply Z.mul_nonneg_nonneg; lia). lia. }
    cbn [dense_fill]. replace (i * m + j <? 0) with false by lia.
    destruct (dense_set_some acc (Z.to_nat (i * m + j)) x) as (acc' & E & Hl); [lia|].
    rewrite E. cbn [of_opt bind].
    destruct (IH acc' Hok') as (v & Ev & Hv); [lia|].
    exists v. split; [exact Ev|]. lia.
Qed.

Lemma mm_read_dense_core : forall fl vk h rb re,
  match mm_read_dense V vwidth vread fl vk h rb re with
  | Error e => e <> EOOB
  | Ok d => exists m t1, (exists n t0, read_int true (h_size h) = Some (n, t0) /\ read_int true t0 = Some (m, t1)) /\
              d_cols V d = u64 m /\ List.length (d_val V d) = Z.to_nat (d_rows V d * m) /\
              (chk_range fl = true -> 0 <= d_rows V d) /\ 0 <= d_rows V d * m
  end.
Proof.
  intros fl vk h rb re. unfold mm_read_dense.
  destruct (negb (h_sparse h)); cbn [guard bind]; [|discriminate].
  destruct (Bool.eqb (kind_complex vk) (kind_complex (h_kind h))); cbn [guard bind]; [|discriminate].
  destruct (Bool.eqb (kind_integer vk) (kind_integer (h_kind h))); cbn [guard bind]; [|discriminate].
  destruct (read_int true (h_size h)) as [[n t1]|] eqn:R1; cbn [of_opt bind]; [|discriminate].
  destruct (read_int true t1) as [[m t2]|] eqn:R2; cbn [of_opt bind]; [|discriminate].
  cbv zeta.
  set (r0 := if rb <? 0 then 0 else rb). set (r1 := if re <? 0 then n else re).
  destruct ((0 <=? r0) && (r1 <=? n)); cbn [guard bind]; [|discriminate].
  destruct (negb (chk_range fl) || (r0 <=? r1)) eqn:E2; cbn [guard bind]; [|discriminate].
  destruct (alloc_ok ((r1 - r0) * m) vwidth) eqn:E3; cbn [guard bind]; [|discriminate].
  assert (Hes : forall es rest,
    (if (0 <? m) && (0 <? n) then read_dense_lines V vread n r0 r1 (h_body h) 0 (n * m) []
     else Ok ([], h_body h)) = Ok (es, rest) -> dense_ok (r1 - r0) m es).
  { intros es rest H. destruct ((0 <? m) && (0 <? n)) eqn:C.
    - eapply read_dense_lines_ok; [| | |exact H]; [clear - C; lia|lia|constructor].
    - inversion H; subst. constructor. }
  destruct (if (0 <? m) && (0 <? n) then read_dense_lines V vread n r0 r1 (h_body h) 0 (n * m) []
            else Ok ([], h_body h)) as [[es rest]|e] eqn:RD; cbn [bind].
  - specialize (Hes es rest eq_refl).
    destruct (negb (chk_trailing fl) || forallb blank rest); cbn [guard bind]; [|discriminate].
    destruct (dense_fill_ok (r1 - r0) m es (repeat None (Z.to_nat ((r1 - r0) * m))) Hes) as (v & Ev & Hv).
    { apply repeat_length. }
    rewrite Ev. cbn [bind]. exists m, t2. cbn [d_cols d_rows d_val].
    split; [exists n, t1; auto|]. split; [reflexivity|]. split.
    + rewrite Hv. apply repeat_length.
    + split.
      * intros Hr. rewrite Hr in E2. clear - E2. simpl in E2. lia.
      * clear - E3. unfold alloc_ok in E3. lia.
  - destruct ((0 <? m) && (0 <? n)); [|discriminate].
    apply read_dense_lines_err in RD. subst e. discriminate.
Qed.

(* the dense reader never indexes out of bounds, whatever the flags *)
Theorem mm_readd_no_oob : forall fl vk f rb re,
  mm_readd V vwidth vread fl vk f rb re <> Error EOOB.
Proof.
  intros fl vk f rb re H. unfold mm_readd in H.
  destruct (mm_open f) as [h|e] eqn:O; cbn [bind] in H.
  - pose proof (mm_read_dense_core fl vk h rb re) as C. rewrite H in C. congruence.
  - inversion H; subst. apply mm_open_err in O. discriminate.
Qed.

Theorem mm_readd_checked_safe : forall vk f r0 r1,
  match mm_readd V vwidth vread mm_checked vk f r0 r1 with
  | Ok d => List.length (d_val V d) = Z.to_nat (d_rows V d * d_cols V d)
  | Error e => e <> EOOB
  end.
Proof.
  intros vk f r0 r1. destruct (mm_readd V vwidth vread mm_checked vk f r0 r1) as [d|e] eqn:H.
  - unfold mm_readd in H. destruct (mm_open f) as [h|e] eqn:O; cbn [bind] in H; [|discriminate].
    pose proof (mm_read_dense_core mm_checked vk h r0 r1) as C. rewrite H in C.
    destruct C as (m & t1 & (n & t0 & _ & R2) & Hc & Hl & Hr & Hnn).
    specialize (Hr eq_refl). apply read_int_signed_range in R2.
    rewrite Hl, Hc. destruct (Z_lt_ge_dec m 0) as [Hm|Hm].
    + assert (d_rows V d = 0) by (clear - Hm Hr Hnn; nia). rewrite H0. reflexivity.
    + unfold u64. rewrite Z.mod_small by (clear - Hm R2; unfold two63, two64 in *; lia). reflexivity.
  - intros ->. eapply mm_readd_no_oob. exact H.
Qed.

(* ------------------------------------------------------------------ dense write/read (partial) *)
Lemma mm_open_gen_dense : forall k n m body,
  0 <= n < two64 -> 0 <= m < two64 ->
  mm_open (banner_line false k :: mkLine false [print_Z n; print_Z m] :: body)
  = Ok (mkHeader false false k [print_Z n; print_Z m] body n m).
Proof.
  intros k n m body Hn Hm. unfold mm_open, banner_line. cbn [l_toks].
  change (String.eqb "%%MatrixMarket" "%%MatrixMarket") with true.
  change (String.eqb "matrix" "matrix") with true.
  change (String.eqb "general" "general") with true.
  change (String.eqb "array" "coordinate") with false.
  change (String.eqb "array" "array") with true.
  cbn [guard bind skip_comments l_comment of_opt l_toks].
  rewrite (read_int_print_unsigned n) by exact Hn. cbn [of_opt bind].
  rewrite (read_int_print_unsigned m) by exact Hm. cbn [of_opt bind].
  destruct k; reflexivity.
Qed.

Lemma flat_map_length_const : forall (A B : Type) (f : A -> list B) k l,
  (forall x, List.length (f x) = k) -> List.length (flat_map f l) = (List.length l * k)%nat.
Proof.
  intros A B f k l H. induction l as [|x l IH]; [reflexivity|].
  simpl. rewrite app_length, H, IH. reflexivity.
Qed.

Definition value_line (l : line) : Prop := exists v, l = mkLine false (vprint v).

Lemma write_body_ok : forall (data : list V) idxs,
  (forall idx, In idx idxs -> 0 <= idx < Z.of_nat (List.length data)) ->
  exists body,
    fold_right (fun idx acc => a <- acc ;; v <- of_opt (dense_get V data idx) EOOB ;;
                               Ok (mkLine false (vprint v) :: a)) (Ok []) idxs = Ok body /\
    List.length body = List.length idxs /\ Forall value_line body.
Proof.
  intros data idxs. induction idxs as [|idx idxs IH]; intros H.
  - exists []. repeat split. constructor.
  - destruct IH as (body & E & Hl & Hv); [intros; apply H; right; assumption|].
    cbn [fold_right]. rewrite E. cbn [bind].
    specialize (H idx (or_introl eq_refl)).
    unfold dense_get. replace (idx <? 0) with false by lia.
    destruct (nth_error data (Z.to_nat idx)) as [v|] eqn:N.
    + cbn [of_opt bind]. eexists. split; [reflexivity|]. split; [simpl; rewrite Hl; reflexivity|].
      constructor; [exists v; reflexivity|exact Hv].
    + exfalso. apply nth_error_None in N. lia.
Qed.

Section RoundTripDense.
Hypothesis vread_vprint : forall v rest, vread (vprint v ++ rest) = Some (v, rest).

Lemma read_dense_lines_total : forall n r0 r1 ls q total acc,
  Forall value_line ls -> Z.of_nat (List.length ls) = total - q ->
  exists es, read_dense_lines V vread n r0 r1 ls q total acc = Ok (es, []).
Proof.
  intros n r0 r1 ls. induction ls as [|l ls IH]; intros q total acc Hv Hlen.
  - simpl in *. replace (total <=? q) with true by lia. eexists; reflexivity.
  - cbn [List.length] in Hlen. simpl. replace (total <=? q) with false by lia.
    inversion Hv as [|x y Hl Hv']; subst. destruct Hl as (v & ->). cbn [l_toks].
    destruct ((r0 <=? q mod n) && (q mod n <? r1)).
    + rewrite <- (app_nil_r (vprint v)), vread_vprint. cbn [of_opt bind]. apply IH; [exact Hv'|lia].
    + apply IH; [exact Hv'|lia].
Qed.

(* shape-only version (used for the empty-matrix case of the full theorem
   [mm_readd_write_roundtrip] below) *)
Theorem mm_readd_write_roundtrip_partial : forall fl k nr nc (data : list V),
  0 <= nr < two63 -> 0 <= nc < two63 -> List.length data = Z.to_nat (nr * nc) ->
  alloc_ok (nr * nc) vwidth = true ->
  exists f cells, mm_write_dense V vprint k nr nc data = Ok f /\
                  mm_readd V vwidth vread fl k f (-1) (-1) = Ok (mkDense V nr nc cells) /\
                  List.length cells = Z.to_nat (nr * nc).
Proof.
  intros fl k nr nc data Hnr Hnc Hlen Ha.
  unfold mm_write_dense.
  set (idxs := flat_map (fun j => map (fun i => Z.of_nat i * nc + Z.of_nat j) (seq 0 (Z.to_nat nr)))
                        (seq 0 (Z.to_nat nc))).
  destruct (write_body_ok data idxs) as (body & E & Hbl & Hbv).
  { intros idx Hin. unfold idxs in Hin. apply in_flat_map in Hin. destruct Hin as (j & Hj & Hin).
    apply in_map_iff in Hin. destruct Hin as (i & <- & Hi). apply in_seq in Hj. apply in_seq in Hi.
    rewrite Hlen. rewrite Z2Nat.id by (apply Z.mul_nonneg_nonneg; lia).
    assert (Z.of_nat i * nc <= (nr - 1) * nc) by (apply Z.mul_le_mono_nonneg_r; lia).
    assert (0 <= Z.of_nat i * nc) by (apply Z.mul_nonneg_nonneg; lia). lia. }
  assert (Hbody : Z.of_nat (List.length body) = nr * nc).
  { rewrite Hbl. unfold idxs.
    rewrite (flat_map_length_const _ _ _ (Z.to_nat nr)) by (intros; rewrite map_length, seq_length; reflexivity).
    rewrite seq_length. lia. }
  rewrite E. cbn [bind].
  exists (banner_line false k :: mkLine false [print_Z nr; print_Z nc] :: body).
  assert (G : forall P : list (option V) -> Prop,
            (exists cells, P cells) ->
            exists cells, Ok (banner_line false k :: mkLine false [print_Z nr; print_Z nc] :: body)
                          = Ok (banner_line false k :: mkLine false [print_Z nr; print_Z nc] :: body) /\ P cells).
  { intros P (c & Hc). exists c. split; [reflexivity|exact Hc]. }
  apply (G (fun cells => mm_readd V vwidth vread fl k
              (banner_line false k :: mkLine false [print_Z nr; print_Z nc] :: body) (-1) (-1)
              = Ok (mkDense V nr nc cells) /\ List.length cells = Z.to_nat (nr * nc))). clear G.
  unfold mm_readd. rewrite mm_open_gen_dense by (clear - Hnr Hnc; unfold two63, two64 in *; lia).
  cbn [bind]. unfold mm_read_dense. cbn [h_sparse h_kind h_size h_body negb guard bind].
  rewrite !Bool.eqb_reflx. cbn [guard bind].
  rewrite read_int_print_signed by (clear - Hnr; unfold two63 in *; lia). cbn [of_opt bind].
  rewrite read_int_print_signed by (clear - Hnc; unfold two63 in *; lia). cbn [of_opt bind].
  cbv zeta. change (-1 <? 0) with true. cbv iota.
  replace ((0 <=? 0) && (nr <=? nr)) with true by (clear; lia). cbn [guard bind].
  replace (negb (chk_range fl) || (0 <=? nr)) with true
    by (clear - Hnr; destruct (chk_range fl); simpl; lia). cbn [guard bind].
  rewrite Z.sub_0_r. rewrite Ha. cbn [guard bind].
  assert (Hes : exists es, (if (0 <? nc) && (0 <? nr)
                 then read_dense_lines V vread nr 0 nr body 0 (nr * nc) []
                 else Ok ([], body)) = Ok (es, []) /\ dense_ok (nr - 0) nc es).
  { destruct ((0 <? nc) && (0 <? nr)) eqn:C.
    - destruct (read_dense_lines_total nr 0 nr body 0 (nr * nc) [] Hbv) as (es & Ees); [lia|].
      exists es. split; [exact Ees|].
      eapply read_dense_lines_ok; [| | |exact Ees]; [clear - C; lia|lia|constructor].
    - assert (body = []) as ->.
      { destruct body; [reflexivity|]. exfalso. cbn [List.length] in Hbody. clear - C Hbody Hnr Hnc. nia. }
      exists []. split; [reflexivity|constructor]. }
  destruct Hes as (es & Ees & Hok). rewrite Ees. cbn [bind forallb]. rewrite orb_true_r. cbn [guard bind].
  rewrite Z.sub_0_r in Hok.
  destruct (dense_fill_ok nr nc es (repeat None (Z.to_nat (nr * nc))) Hok) as (v & Ev & Hv).
  { apply repeat_length. }
  rewrite Ev. cbn [bind]. exists v. split.
  - unfold u64. rewrite Z.mod_small by (clear - Hnc; unfold two63, two64 in *; lia). reflexivity.
  - rewrite Hv. apply repeat_length.
Qed.
End RoundTripDense.

(* ------------------------------------------------------------------ dense write/read (full) *)
Lemma nth_error_ext : forall (A : Type) (l1 l2 : list A),
  (forall p, nth_error l1 p = nth_error l2 p) -> l1 = l2.
Proof.
  intros A l1. induction l1 as [|a l1 IH]; intros l2 H.
  - destruct l2 as [|b l2]; [reflexivity|]. specialize (H 0%nat). discriminate.
  - destruct l2 as [|b l2]; [specialize (H 0%nat); discriminate|].
    pose proof (H 0%nat) as H0. simpl in H0. inversion H0; subst. f_equal.
    apply IH. intros p. exact (H (S p)).
Qed.

Lemma dense_set_nth : forall (l l' : list (option V)) idx v,
  dense_set V l idx v = Some l' ->
  forall p, nth_error l' p = if Nat.eqb idx p then Some (Some v) else nth_error l p.
Proof.
  induction l as [|x l IH]; intros l' idx v H p; [destruct idx; discriminate|].
  destruct idx as [|idx]; simpl in H.
  - inversion H; subst. destruct p; reflexivity.
  - destruct (dense_set V l idx v) as [s|] eqn:E; [|discriminate]. inversion H; subst.
    destruct p; [reflexivity|]. simpl. apply (IH s idx v E p).
Qed.

(* cells written by dense_fill: the LAST entry hitting a cell wins; with entries that are
   consistent with [g] it does not matter which *)
Lemma dense_fill_spec : forall (g : nat -> V) m es acc v,
  dense_fill V m es acc = Ok v ->
  Forall (fun '(i, j, x) => x = g (Z.to_nat (i * m + j))) es ->
  forall p, nth_error v p =
            if existsb (fun '(i, j, _) => Nat.eqb (Z.to_nat (i * m + j)) p) es
            then Some (Some (g p)) else nth_error acc p.
Proof.
  intros g m es. induction es as [|[[i j] x] es IH]; intros acc v H Hg p.
  - simpl in H. inversion H; subst. reflexivity.
  - cbn [dense_fill] in H. destruct (i * m + j <? 0); [discriminate|].
    destruct (dense_set V acc (Z.to_nat (i * m + j)) x) as [acc'|] eqn:E; cbn [of_opt bind] in H; [|discriminate].
    inversion Hg as [|y l Hx Hg']; subst.
    rewrite (IH acc' v H Hg' p). cbn [existsb].
    destruct (existsb (fun '(i0, j0, _) => Nat.eqb (Z.to_nat (i0 * m + j0)) p) es).
    + rewrite orb_true_r. reflexivity.
    + rewrite orb_false_r. rewrite (dense_set_nth _ _ _ _ E p).
      destruct (Nat.eqb (Z.to_nat (i * m + j)) p) eqn:Q; [|reflexivity].
      apply Nat.eqb_eq in Q. subst p. reflexivity.
Qed.

Section RoundTripDenseFull.
Hypothesis vread_vprint : forall v rest, vread (vprint v ++ rest) = Some (v, rest).

(* lines q, q+1, ... of the body carry g at the transposed index *)
Definition tidx (n m t : Z) : nat := Z.to_nat ((t mod n) * m + t / n).
Definition dline (g : nat -> V) (n m t : Z) : line := mkLine false (vprint (g (tidx n m t))).
Definition dent (g : nat -> V) (n m t : Z) : Z * Z * V := (t mod n, t / n, g (tidx n m t)).

Lemma read_dense_lines_gen : forall (g : nat -> V) n m cnt q acc,
  0 < n -> 0 <= q -> q + Z.of_nat cnt = n * m ->
  read_dense_lines V vread n 0 n
    (map (fun c => dline g n m (q + Z.of_nat c)) (seq 0 cnt)) q (n * m) acc
  = Ok (acc ++ map (fun c => dent g n m (q + Z.of_nat c)) (seq 0 cnt), []).
Proof.
  intros g n m cnt. induction cnt as [|cnt IH]; intros q acc Hn Hq Hc.
  - simpl. replace (n * m <=? q) with true by lia. rewrite app_nil_r. reflexivity.
  - cbn [seq map]. rewrite <- seq_shift, !map_map.
    rewrite (map_ext (fun c => dline g n m (q + Z.of_nat (S c))) (fun c => dline g n m (q + 1 + Z.of_nat c))).
    2:{ intros c. f_equal. lia. }
    rewrite (map_ext (fun c => dent g n m (q + Z.of_nat (S c))) (fun c => dent g n m (q + 1 + Z.of_nat c))).
    2:{ intros c. f_equal. lia. }
    replace (q + Z.of_nat 0) with q by lia.
    simpl read_dense_lines. replace (n * m <=? q) with false by lia.
    assert (Hmod : 0 <= q mod n < n) by (apply Z.mod_pos_bound; lia).
    replace ((0 <=? q mod n) && (q mod n <? n)) with true by lia.
    rewrite <- (app_nil_r (vprint _)), vread_vprint. cbn [of_opt bind].
    rewrite Z.sub_0_r.
    rewrite (IH (q + 1)) by lia. rewrite <- app_assoc. reflexivity.
Qed.
End RoundTripDenseFull.

Lemma map_seq_shift : forall (B : Type) (h : nat -> B) k s,
  map h (seq s k) = map (fun i => h (s + i)%nat) (seq 0 k).
Proof.
  intros B h k. induction k as [|k IH]; intros s; [reflexivity|].
  cbn [seq map]. f_equal; [f_equal; lia|].
  rewrite (IH (S s)). rewrite <- seq_shift, map_map. apply map_ext. intros i. f_equal. lia.
Qed.

Lemma flat_map_seq_grid : forall (B : Type) (F : nat -> nat -> B) a b,
  flat_map (fun j => map (F j) (seq 0 a)) (seq 0 b)
  = map (fun c => F (c / a)%nat (c mod a)%nat) (seq 0 (b * a)).
Proof.
  intros B F a b. induction b as [|b IH]; [reflexivity|].
  rewrite seq_S, flat_map_app, IH. cbn [flat_map]. rewrite app_nil_r.
  replace (S b * a)%nat with (b * a + a)%nat by lia. rewrite seq_app, map_app. f_equal.
  cbn [Nat.add]. rewrite (map_seq_shift _ _ a (b * a)). apply map_ext_in.
  intros i Hi. apply in_seq in Hi.
  assert (Hd : ((b * a + i) / a = b)%nat) by (symmetry; apply (Nat.div_unique _ _ _ i); lia).
  assert (Hm : ((b * a + i) mod a = i)%nat) by (symmetry; apply (Nat.mod_unique _ _ b i); lia).
  rewrite Hd, Hm. reflexivity.
Qed.

Lemma write_body_eq : forall (data : list V) (d : V) idxs,
  (forall idx, In idx idxs -> 0 <= idx < Z.of_nat (List.length data)) ->
  fold_right (fun idx acc => a <- acc ;; v <- of_opt (dense_get V data idx) EOOB ;;
                             Ok (mkLine false (vprint v) :: a)) (Ok []) idxs
  = Ok (map (fun idx => mkLine false (vprint (nth (Z.to_nat idx) data d))) idxs).
Proof.
  intros data d idxs. induction idxs as [|idx idxs IH]; intros H; [reflexivity|].
  cbn [fold_right map]. rewrite IH by (intros; apply H; right; assumption). cbn [bind].
  specialize (H idx (or_introl eq_refl)).
  unfold dense_get. replace (idx <? 0) with false by lia.
  rewrite (nth_error_nth' data d) by lia. reflexivity.
Qed.

Section RoundTripDenseFull2.
Hypothesis vread_vprint : forall v rest, vread (vprint v ++ rest) = Some (v, rest).

Theorem mm_readd_write_roundtrip : forall fl k nr nc (data : list V),
  0 <= nr < two63 -> 0 <= nc < two63 -> List.length data = Z.to_nat (nr * nc) ->
  alloc_ok (nr * nc) vwidth = true ->
  exists f, mm_write_dense V vprint k nr nc data = Ok f /\
            mm_readd V vwidth vread fl k f (-1) (-1) = Ok (mkDense V nr nc (map Some data)).
Proof.
  intros fl k nr nc data Hnr Hnc Hlen Ha.
  assert (Hprod : 0 <= nr * nc) by (apply Z.mul_nonneg_nonneg; lia).
  destruct data as [|d0 data0].
  { (* empty matrix *)
    assert (Hz : nr * nc = 0) by (simpl in Hlen; lia).
    destruct (mm_readd_write_roundtrip_partial vread_vprint fl k nr nc [] Hnr Hnc Hlen Ha)
      as (f & cells & W & R & L).
    exists f. split; [exact W|]. rewrite R. rewrite Hz in L. destruct cells; [reflexivity|discriminate]. }
  assert (Hne : (0 < List.length (d0 :: data0))%nat) by (simpl; lia).
  remember (d0 :: data0) as data eqn:Hdata. clear Hdata data0.
  set (g := fun p : nat => nth p data d0).
  set (cnt := (Z.to_nat nc * Z.to_nat nr)%nat).
  assert (Hcnt : Z.of_nat cnt = nr * nc) by (unfold cnt; lia).
  assert (Hpos : 0 < nr /\ 0 < nc).
  { assert (0 < nr * nc) by lia. clear - H Hnr Hnc. nia. }
  (* the index list of the writer, position by position *)
  assert (Hidx : flat_map (fun j => map (fun i => Z.of_nat i * nc + Z.of_nat j) (seq 0 (Z.to_nat nr)))
                          (seq 0 (Z.to_nat nc))
                 = map (fun c => Z.of_nat (tidx nr nc (Z.of_nat c))) (seq 0 cnt)).
  { rewrite (flat_map_seq_grid Z (fun j i => Z.of_nat i * nc + Z.of_nat j)). fold cnt.
    apply map_ext_in. intros c Hc. apply in_seq in Hc. unfold tidx.
    rewrite Nat2Z.inj_mod, Nat2Z.inj_div. rewrite (Z2Nat.id nr) by lia.
    assert (0 <= Z.of_nat c mod nr < nr) by (apply Z.mod_pos_bound; lia).
    assert (0 <= Z.of_nat c / nr) by (apply Z.div_pos; lia).
    rewrite Z2Nat.id; [reflexivity|]. apply Z.add_nonneg_nonneg; [apply Z.mul_nonneg_nonneg; lia|lia]. }
  assert (Htidx : forall c, (c < cnt)%nat -> (tidx nr nc (Z.of_nat c) < cnt)%nat).
  { intros c Hc. unfold tidx.
    assert (0 <= Z.of_nat c mod nr < nr) by (apply Z.mod_pos_bound; lia).
    assert (0 <= Z.of_nat c / nr) by (apply Z.div_pos; lia).
    assert (Z.of_nat c / nr < nc) by (apply Z.div_lt_upper_bound; lia).
    assert (Z.of_nat c mod nr * nc <= (nr - 1) * nc) by (apply Z.mul_le_mono_nonneg_r; lia).
    assert (0 <= Z.of_nat c mod nr * nc) by (apply Z.mul_nonneg_nonneg; lia). lia. }
  unfold mm_write_dense. rewrite Hidx.
  rewrite (write_body_eq data d0).
  2:{ intros idx Hin. apply in_map_iff in Hin. destruct Hin as (c & <- & Hc). apply in_seq in Hc.
      specialize (Htidx c ltac:(lia)). lia. }
  cbn [bind]. eexists. split; [reflexivity|].
  rewrite map_map.
  rewrite (map_ext _ (fun c => dline g nr nc (0 + Z.of_nat c))).
  2:{ intros c. unfold dline, g. rewrite Nat2Z.id. reflexivity. }
  unfold mm_readd. rewrite mm_open_gen_dense by (clear - Hnr Hnc; unfold two63, two64 in *; lia).
  cbn [bind]. unfold mm_read_dense. cbn [h_sparse h_kind h_size h_body negb guard bind].
  rewrite !Bool.eqb_reflx. cbn [guard bind].
  rewrite read_int_print_signed by (clear - Hnr; unfold two63 in *; lia). cbn [of_opt bind].
  rewrite read_int_print_signed by (clear - Hnc; unfold two63 in *; lia). cbn [of_opt bind].
  cbv zeta. change (-1 <? 0) with true. cbv iota.
  replace ((0 <=? 0) && (nr <=? nr)) with true by (clear; lia). cbn [guard bind].
  replace (negb (chk_range fl) || (0 <=? nr)) with true
    by (clear - Hnr; destruct (chk_range fl); simpl; lia). cbn [guard bind].
  rewrite Z.sub_0_r. rewrite Ha. cbn [guard bind].
  replace ((0 <? nc) && (0 <? nr)) with true by (clear - Hpos; lia).
  rewrite (read_dense_lines_gen vread_vprint g nr nc cnt 0 []) by lia.
  cbn [bind forallb Datatypes.app]. rewrite orb_true_r. cbn [guard bind].
  set (es := map (fun c => dent g nr nc (0 + Z.of_nat c)) (seq 0 cnt)).
  assert (Hok : dense_ok nr nc es).
  { unfold dense_ok, es. apply Forall_forall. intros [[i j] x] Hin. apply in_map_iff in Hin.
    destruct Hin as (c & He & Hc). apply in_seq in Hc. unfold dent in He. inversion He; subst; clear He.
    cbn [Z.add]. split; [apply Z.mod_pos_bound; lia|].
    split; [apply Z.div_pos; lia|apply Z.div_lt_upper_bound; lia]. }
  destruct (dense_fill_ok nr nc es (repeat None (Z.to_nat (nr * nc))) Hok) as (v & Ev & Hv).
  { apply repeat_length. }
  rewrite Ev. cbn [bind]. f_equal.
  unfold u64. rewrite Z.mod_small by (clear - Hnc; unfold two63, two64 in *; lia). f_equal.
  rewrite repeat_length in Hv.
  assert (Hcons : Forall (fun '(i, j, x) => x = g (Z.to_nat (i * nc + j))) es).
  { unfold es. apply Forall_forall. intros [[i j] x] Hin. apply in_map_iff in Hin.
    destruct Hin as (c & He & _). unfold dent in He. inversion He; subst. reflexivity. }
  pose proof (dense_fill_spec g nc es _ v Ev Hcons) as Hspec.
  apply nth_error_ext. intros p. rewrite Hspec.
  destruct (Nat.lt_ge_cases p cnt) as [Hp|Hp].
  - (* cell p is written: by line q = (p mod nc) * nr + p / nc *)
    assert (Hhit : existsb (fun '(i, j, _) => Nat.eqb (Z.to_nat (i * nc + j)) p) es = true).
    { apply existsb_exists.
      set (P := Z.of_nat p).
      assert (0 <= P mod nc < nc) by (apply Z.mod_pos_bound; lia).
      assert (0 <= P / nc) by (apply Z.div_pos; lia).
      assert (P / nc < nr) by (apply Z.div_lt_upper_bound; unfold P; lia).
      set (q := P mod nc * nr + P / nc).
      assert (Hq0 : 0 <= q) by (unfold q; apply Z.add_nonneg_nonneg; [apply Z.mul_nonneg_nonneg; lia|lia]).
      assert (Hq1 : q < nr * nc).
      { assert (P mod nc * nr <= (nc - 1) * nr) by (apply Z.mul_le_mono_nonneg_r; lia). unfold q. lia. }
      exists (dent g nr nc (0 + Z.of_nat (Z.to_nat q))). split.
      - unfold es. apply in_map_iff. exists (Z.to_nat q). split; [reflexivity|apply in_seq; lia].
      - unfold dent. rewrite Z2Nat.id by lia. cbn [Z.add]. apply Nat.eqb_eq.
        assert (Hqm : q mod nr = P / nc).
        { unfold q. rewrite Z.add_comm, Z_mod_plus_full. apply Z.mod_small. lia. }
        assert (Hqd : q / nr = P mod nc).
        { unfold q. rewrite Z.div_add_l by lia. rewrite (Z.div_small (P / nc) nr) by lia. lia. }
        rewrite Hqm, Hqd. rewrite (Z.mul_comm (P / nc) nc). rewrite <- Z.div_mod by lia.
        unfold P. apply Nat2Z.id. }
    rewrite Hhit. rewrite nth_error_map. rewrite (nth_error_nth' data d0) by lia. reflexivity.
  - (* outside: both lists have length cnt *)
    assert (N1 : nth_error v p = None) by (apply nth_error_None; lia).
    rewrite <- Hspec, N1. symmetry. apply nth_error_None. rewrite map_length. lia.
Qed.
End RoundTripDenseFull2.

End MMProofs.

(* ================================================================== A5: refutation witnesses *)
Definition vread_tok (ts : list string) : option (string * list string) :=
  match ts with t :: r => Some (t, r) | [] => None end.

Definition mm_banner_real_general : line :=
  mkLine true ["%%MatrixMarket"; "matrix"; "coordinate"; "real"; "general"].

(* the "2 2 2.0" entry with its column digit corrupted to 9: accepted, invalid matrix *)
Definition mm_damaged_col : list line :=
  [ mm_banner_real_general; mkLine false ["3"; "3"; "3"];
    mkLine false ["1"; "1"; "1.0"]; mkLine false ["2"; "9"; "2.0"]; mkLine false ["3"; "3"; "3.0"] ].

Theorem mm_read_safe_refuted : exists (f : list line) A,
  mm_read string 8 (fun ts => match ts with t :: r => Some (t, r) | [] => None end)
          mm_current KReal f (-1) (-1) = Ok A /\ wf A = false.
Proof.
  exists mm_damaged_col. eexists. split; vm_compute; reflexivity.
Qed.

(* row index 9 > nrows: the entry silently disappears *)
Definition mm_damaged_row : list line :=
  [ mm_banner_real_general; mkLine false ["3"; "3"; "3"];
    mkLine false ["1"; "1"; "1.0"]; mkLine false ["9"; "2"; "2.0"]; mkLine false ["3"; "3"; "3.0"] ].

Theorem mm_read_row_dropped_refuted :
  mm_read string 8 vread_tok mm_current KReal mm_damaged_row (-1) (-1)
  = Ok (mkCrs 3 3 [[(0, "1.0")]; []; [(2, "3.0")]]).
Proof. vm_compute. reflexivity. Qed.

(* and the checked reader rejects both damaged files *)
Theorem mm_read_checked_rejects_damaged :
  mm_read string 8 vread_tok mm_checked KReal mm_damaged_col (-1) (-1) = Error EFormat /\
  mm_read string 8 vread_tok mm_checked KReal mm_damaged_row (-1) (-1) = Error EFormat.
Proof. split; vm_compute; reflexivity. Qed.

(* inverted range: nrows = 3, row_beg = 4 -> chunk = -1 (the scaled reserve hint
   1 * 1.2 * (-1) / 3 truncates to 0, so reserve passes), ptr.resize(0), ptr.back() of an
   empty vector.  (With nrows = 1, row_beg = 2 the hint is -1 and reserve throws: EAlloc.) *)
Theorem mm_read_range_oob_refuted : exists f,
  mm_read string 8 vread_tok mm_current KReal f 4 (-1) = Error EOOB.
Proof.
  exists [ mm_banner_real_general; mkLine false ["3"; "3"; "1"]; mkLine false ["1"; "1"; "1.0"] ].
  vm_compute. reflexivity.
Qed.
Theorem mm_read_range_inverted_small_is_alloc_error :
  mm_read string 8 vread_tok mm_current KReal
    [ mm_banner_real_general; mkLine false ["1"; "1"; "1"]; mkLine false ["1"; "1"; "1.0"] ] 2 (-1)
  = Error EAlloc.
Proof. vm_compute. reflexivity. Qed.

(* default range, size line "-1 1 0": ptr.resize(0), then ptr.back() *)
Theorem mm_read_negative_n_oob_refuted : exists f,
  mm_read string 8 vread_tok mm_current KReal f (-1) (-1) = Error EOOB.
Proof.
  exists [ mm_banner_real_general; mkLine false ["-1"; "1"; "0"] ].
  vm_compute. reflexivity.
Qed.

(* dense reader as it is: size line "-3 -2" is accepted; 6 cells are allocated, none is
   written, the reported shape is (size_t)-3 x (size_t)-2 *)
Theorem mm_readd_safe_refuted : exists (f : list line) d,
  mm_readd string 8 vread_tok mm_current KReal f (-1) (-1) = Ok d /\
  List.length (d_val string d) <> Z.to_nat (d_rows string d * d_cols string d) /\
  d_val string d = repeat None 6.
Proof.
  exists [ mkLine true ["%%MatrixMarket"; "matrix"; "array"; "real"; "general"]; mkLine false ["-3"; "-2"] ].
  eexists. split; [vm_compute; reflexivity|]. split; [vm_compute; discriminate|reflexivity].
Qed.

(* trailing data: accepted by the current reader, rejected by the checked one *)
Definition mm_trailing : list line :=
  [ mm_banner_real_general; mkLine false ["1"; "1"; "1"];
    mkLine false ["1"; "1"; "1.0"]; mkLine false ["1"; "1"; "5.0"] ].
Theorem mm_trailing_example :
  mm_read string 8 vread_tok mm_current KReal mm_trailing (-1) (-1) = Ok (mkCrs 1 1 [[(0, "1.0")]]) /\
  mm_read string 8 vread_tok mm_checked KReal mm_trailing (-1) (-1) = Error EFormat.
Proof. split; vm_compute; reflexivity. Qed.
