(* Properties_C02.v -- the AMG cycle is a fixed linear, symmetric operator.
   Statements only; proofs in AmgProofs2.v (lock-step lemma), AmgProofs3.v (A1), AmgProofs4.v /
   AmgProofs5.v (A2), AmgProofs6.v - AmgProofs9.v (A3), AmgProofs10.v - AmgProofs12.v (B1).  Model: Amg.v cycle/apply (amgcl/amg.hpp:289-297, 515-553),
   smoothers Relax.v, exact coarse solve DenseSolve.v. *)
From Coq Require Import QArith Qcanon.
From Amgcl Require Import Scalar QcInst Vec Crs Kernels KernelsProofs MatOps Relax DenseSolve Amg AmgExec
  AmgProofs AmgProofs2 AmgProofs3 AmgProofs4 AmgProofs5 AmgProofs6 AmgProofs7 AmgProofs8 AmgProofs9 AmgProofs10 AmgOrder AmgProofs11 AmgProofs12 AmgOrderQc AmgExamples.
Local Close Scope Qc_scope.
Local Close Scope Q_scope.
Local Open Scope S_scope.

(* ================================================================== *)
(* A1  history independence: any Scalar whose zero is recognised by is_zero (so also floats
   with NaN payloads in the scratch vectors).
   hier_wf  : every sweep keeps lengths and its x-output does not depend on the incoming
              content of the work vector t; the coarse solver keeps lengths; rows(R_l) = n_{l+1}.
   scratch_wf : one (f,u,t) record per level with vectors of the level size. *)
Theorem C02_cycle_history_independent {S : Scalar} (Z : is_zero (@s0 S) = true) npre npost ncycle
  (lvls : list (@level S)) :
  hier_wf lvls -> forall scr1 scr2 rhs x,
  scratch_wf lvls scr1 -> scratch_wf lvls scr2 ->
  length rhs = top_n lvls -> length x = top_n lvls ->
  fst (cycle npre npost ncycle lvls scr1 rhs x) = fst (cycle npre npost ncycle lvls scr2 rhs x) /\
  length (fst (cycle npre npost ncycle lvls scr1 rhs x)) = top_n lvls /\
  scratch_wf lvls (snd (cycle npre npost ncycle lvls scr1 rhs x)).
Proof. exact (cycle_history_indep Z npre npost ncycle lvls). Qed.
Print Assumptions C02_cycle_history_independent.

(* apply: neither the scratch left by earlier applications nor the incoming content of x matters
   (for every pre_cycles, including 0 = copy) *)
Theorem C02_apply_history_independent {S : Scalar} (Z : is_zero (@s0 S) = true) npre npost ncycle pre_cycles
  (lvls : list (@level S)) :
  hier_wf lvls -> lvls <> [] -> forall scr1 scr2 rhs x1 x2,
  scratch_wf lvls scr1 -> scratch_wf lvls scr2 ->
  length rhs = top_n lvls -> length x1 = top_n lvls -> length x2 = top_n lvls ->
  fst (apply npre npost ncycle pre_cycles lvls scr1 rhs x1) =
  fst (apply npre npost ncycle pre_cycles lvls scr2 rhs x2) /\
  length (fst (apply npre npost ncycle pre_cycles lvls scr1 rhs x1)) = top_n lvls /\
  scratch_wf lvls (snd (apply npre npost ncycle pre_cycles lvls scr1 rhs x1)).
Proof. exact (apply_history_indep Z npre npost ncycle pre_cycles lvls). Qed.
Print Assumptions C02_apply_history_independent.

(* after ANY finite history of earlier applications the result is that of a fresh hierarchy *)
Theorem C02_apply_after_any_history {S : Scalar} (Z : is_zero (@s0 S) = true) npre npost ncycle pre_cycles
  (lvls : list (@level S)) :
  hier_wf lvls -> lvls <> [] -> forall hist scr scr0 rhs x x0,
  Forall (fun fx => length (fst fx) = top_n lvls /\ length (snd fx) = top_n lvls) hist ->
  scratch_wf lvls scr -> scratch_wf lvls scr0 ->
  length rhs = top_n lvls -> length x = top_n lvls -> length x0 = top_n lvls ->
  fst (apply npre npost ncycle pre_cycles lvls
         (run_history npre npost ncycle pre_cycles lvls scr hist) rhs x) =
  fst (apply npre npost ncycle pre_cycles lvls scr0 rhs x0).
Proof. exact (apply_after_any_history Z npre npost ncycle pre_cycles lvls). Qed.
Print Assumptions C02_apply_after_any_history.

(* the side conditions hold for the modelled smoothers, the exact coarse solve, and every
   hierarchy that satisfies the Galerkin chain (C03) *)
Theorem C02_std_smoothers_ok {S : Scalar} (k : @relax_kind S) (A : crs S) :
  sweep_ok (nrows A) (fst (mk_relax_std k A)) /\ sweep_ok (nrows A) (snd (mk_relax_std k A)).
Proof. exact (mk_relax_std_ok k A). Qed.
Print Assumptions C02_std_smoothers_ok.

Theorem C02_exact_solve_ok {S : Scalar} (A : crs S) : solve_ok (nrows A) (mk_solve_exact A).
Proof. exact (mk_solve_exact_ok A). Qed.
Print Assumptions C02_exact_solve_ok.

Theorem C02_built_hierarchy_wf {S : Scalar} (k : @relax_kind S) cop (ls : list (@ldesc S)) :
  coarse_shape cop -> chain cop ls ->
  hier_wf (std_levels k ls) /\ std_levels k ls <> [] /\
  scratch_wf (std_levels k ls) (map fresh_scratch ls).
Proof. exact (std_levels_wf k cop ls). Qed.
Print Assumptions C02_built_hierarchy_wf.

Theorem C02_apply_history_independent_built {S : Scalar} (Z : is_zero (@s0 S) = true)
  ce dc ml sc ts (M : crs S) k npre npost ncycle pre_cycles :
  let lvls := std_levels k (amg_init ce dc ml (coarse_op_of sc) ts M) in
  forall scr1 scr2 rhs x1 x2,
  scratch_wf lvls scr1 -> scratch_wf lvls scr2 ->
  length rhs = nrows M -> length x1 = nrows M -> length x2 = nrows M ->
  fst (apply npre npost ncycle pre_cycles lvls scr1 rhs x1) =
  fst (apply npre npost ncycle pre_cycles lvls scr2 rhs x2).
Proof. exact (built_apply_history_indep Z ce dc ml sc ts M k npre npost ncycle pre_cycles). Qed.
Print Assumptions C02_apply_history_independent_built.

(* ================================================================== *)
(* A2  linearity (commutative ring).  vlin a x b y = a*x + b*y pointwise.
   hier_lin : hier_wf + every sweep jointly linear in (rhs, x) + coarse solve linear in rhs and
   independent of x + A_l, R_l, P_l with column indices in range, rows(P_l) = n_l. *)
Theorem C02_cycle_linear {S : Scalar} (Srt : Sring S) (Seqb : seqb_spec S) npre npost ncycle
  (lvls : list (@level S)) :
  hier_lin lvls -> forall a b scr1 scr2 scr3 f g x y,
  scratch_wf lvls scr1 -> scratch_wf lvls scr2 -> scratch_wf lvls scr3 ->
  length f = top_n lvls -> length g = top_n lvls -> length x = top_n lvls -> length y = top_n lvls ->
  fst (cycle npre npost ncycle lvls scr3 (vlin a f b g) (vlin a x b y)) =
  vlin a (fst (cycle npre npost ncycle lvls scr1 f x)) b (fst (cycle npre npost ncycle lvls scr2 g y)).
Proof. exact (cycle_linear Srt Seqb npre npost ncycle lvls). Qed.
Print Assumptions C02_cycle_linear.

Theorem C02_apply_linear {S : Scalar} (Srt : Sring S) (Seqb : seqb_spec S) npre npost ncycle pre_cycles
  (lvls : list (@level S)) :
  hier_lin lvls -> lvls <> [] ->
  forall a b scr1 scr2 scr3 f g x1 x2 x3,
  scratch_wf lvls scr1 -> scratch_wf lvls scr2 -> scratch_wf lvls scr3 ->
  length f = top_n lvls -> length g = top_n lvls ->
  length x1 = top_n lvls -> length x2 = top_n lvls -> length x3 = top_n lvls ->
  fst (apply npre npost ncycle pre_cycles lvls scr3 (vlin a f b g) x3) =
  vlin a (fst (apply npre npost ncycle pre_cycles lvls scr1 f x1)) b
         (fst (apply npre npost ncycle pre_cycles lvls scr2 g x2)).
Proof. exact (apply_linear Srt Seqb npre npost ncycle pre_cycles lvls). Qed.
Print Assumptions C02_apply_linear.

(* Jacobi, SPAI-0 and the serial Gauss-Seidel sweeps (forward and backward) are jointly linear *)
Theorem C02_std_smoothers_linear {S : Scalar} (Srt : Sring S) (Seqb : seqb_spec S)
  (k : @relax_kind S) (A : crs S) : wf A = true ->
  sweep_lin (nrows A) (fst (mk_relax_std k A)) /\ sweep_lin (nrows A) (snd (mk_relax_std k A)).
Proof. exact (mk_relax_std_lin Srt Seqb k A). Qed.
Print Assumptions C02_std_smoothers_linear.

(* the exact coarse solve is linear in rhs and ignores x, whenever it does not break down *)
Theorem C02_exact_solve_linear {S : Scalar} (Srt : Sring S) (A : crs S) :
  ncols A = nrows A -> solvable A = true -> solve_lin (nrows A) (mk_solve_exact A).
Proof. exact (mk_solve_exact_lin Srt A). Qed.
Print Assumptions C02_exact_solve_linear.

Theorem C02_built_hierarchy_linear {S : Scalar} (Srt : Sring S) (Seqb : seqb_spec S)
  k ce dc ml sc ts (M : crs S) :
  wf M = true -> ts_wf (nrows M) ts ->
  (forall A, In (LSolve A) (amg_init ce dc ml (coarse_op_of sc) ts M) ->
             ncols A = nrows A /\ solvable A = true) ->
  hier_lin (std_levels k (amg_init ce dc ml (coarse_op_of sc) ts M)).
Proof. exact (std_levels_lin Srt Seqb k ce dc ml sc ts M). Qed.
Print Assumptions C02_built_hierarchy_linear.

Theorem C02_apply_linear_built {S : Scalar} (Srt : Sring S) (Seqb : seqb_spec S)
  k ce dc ml sc ts (M : crs S) npre npost ncycle pre_cycles :
  wf M = true -> ts_wf (nrows M) ts ->
  (forall A, In (LSolve A) (amg_init ce dc ml (coarse_op_of sc) ts M) ->
             ncols A = nrows A /\ solvable A = true) ->
  let lvls := std_levels k (amg_init ce dc ml (coarse_op_of sc) ts M) in
  forall a b scr1 scr2 scr3 f g x1 x2 x3,
  scratch_wf lvls scr1 -> scratch_wf lvls scr2 -> scratch_wf lvls scr3 ->
  length f = nrows M -> length g = nrows M ->
  length x1 = nrows M -> length x2 = nrows M -> length x3 = nrows M ->
  fst (apply npre npost ncycle pre_cycles lvls scr3 (vlin a f b g) x3) =
  vlin a (fst (apply npre npost ncycle pre_cycles lvls scr1 f x1)) b
         (fst (apply npre npost ncycle pre_cycles lvls scr2 g x2)).
Proof. exact (built_apply_linear Srt Seqb k ce dc ml sc ts M npre npost ncycle pre_cycles). Qed.
Print Assumptions C02_apply_linear_built.

(* ================================================================== *)
(* A3  symmetry of the V(1,1)-cycle, any number of levels (commutative ring, trivial conjugation).
   hier_sym : every A_l symmetric, R_l the dense transpose of P_l, coarse solve symmetric,
   post-smoother consistent (x' = x + N (f - A x)) and adjoint to the pre-smoother.
   ip n x y = sum_{i<n} x_i y_i. *)
Theorem C02_cycle_symmetric {S : Scalar} (Srt : Sring S) (Seqb : seqb_spec S) (lvls : list (@level S)) :
  hier_sym lvls -> forall scr1 scr2 f g,
  scratch_wf lvls scr1 -> scratch_wf lvls scr2 ->
  length f = top_n lvls -> length g = top_n lvls ->
  ip (top_n lvls) (fst (cycle 1 1 1 lvls scr1 f (vzero (top_n lvls)))) g =
  ip (top_n lvls) f (fst (cycle 1 1 1 lvls scr2 g (vzero (top_n lvls)))).
Proof. exact (cycle_sym Srt Seqb lvls). Qed.
Print Assumptions C02_cycle_symmetric.

Theorem C02_apply_symmetric {S : Scalar} (Srt : Sring S) (Seqb : seqb_spec S)
  (Hadj : forall a : S, sadj a = a) (lvls : list (@level S)) :
  hier_sym lvls -> lvls <> [] -> forall scr1 scr2 f g x1 x2,
  scratch_wf lvls scr1 -> scratch_wf lvls scr2 ->
  length f = top_n lvls -> length g = top_n lvls ->
  length x1 = top_n lvls -> length x2 = top_n lvls ->
  dot (fst (apply 1 1 1 1 lvls scr1 f x1)) g = dot f (fst (apply 1 1 1 1 lvls scr2 g x2)).
Proof. exact (apply_sym Srt Seqb Hadj lvls). Qed.
Print Assumptions C02_apply_symmetric.

(* damped Jacobi and SPAI-0 are consistent and self-adjoint *)
Theorem C02_jacobi_spai0_symmetric_smoothers {S : Scalar} (Srt : Sring S) (Seqb : seqb_spec S)
  (k : @relax_kind S) : sym_kind k -> forall A : crs S, wf A = true ->
  sweep_cons (nrows A) A (fst (mk_relax_std k A)) /\
  sweep_cons (nrows A) A (snd (mk_relax_std k A)) /\
  sweep_adj (nrows A) (fst (mk_relax_std k A)) (snd (mk_relax_std k A)).
Proof. exact (mk_relax_std_sym Srt Seqb k). Qed.
Print Assumptions C02_jacobi_spai0_symmetric_smoothers.

(* the Galerkin operator of a symmetric matrix with R = P^T is symmetric *)
Theorem C02_galerkin_symmetric {S : Scalar} (Srt : Sring S) (A P R : crs S) n n' :
  wf A = true -> wf R = true -> sym_mat n A -> transp n n' R P ->
  forall i j, i < n' -> j < n' -> mget (galerkin A P R) i j = mget (galerkin A P R) j i.
Proof. exact (galerkin_sym Srt A P R n n'). Qed.
Print Assumptions C02_galerkin_symmetric.

Theorem C02_apply_symmetric_built {S : Scalar} (Srt : Sring S) (Seqb : seqb_spec S)
  (Hadj : forall a : S, sadj a = a) k ce dc ml sc ts (M : crs S) :
  sym_kind k -> wf M = true -> sym_mat (nrows M) M -> ts_sym (nrows M) ts ->
  (forall A, In (LSolve A) (amg_init ce dc ml (coarse_op_of sc) ts M) ->
             solve_sym (nrows A) (mk_solve_exact A)) ->
  let lvls := std_levels k (amg_init ce dc ml (coarse_op_of sc) ts M) in
  forall scr1 scr2 f g x1 x2,
  scratch_wf lvls scr1 -> scratch_wf lvls scr2 ->
  length f = nrows M -> length g = nrows M -> length x1 = nrows M -> length x2 = nrows M ->
  dot (fst (apply 1 1 1 1 lvls scr1 f x1)) g = dot f (fst (apply 1 1 1 1 lvls scr2 g x2)).
Proof. exact (built_apply_sym Srt Seqb Hadj k ce dc ml sc ts M). Qed.
Print Assumptions C02_apply_symmetric_built.

(* with direct_coarse = false nothing is assumed about a coarse solver *)
Theorem C02_apply_symmetric_built_smoother_coarse {S : Scalar} (Srt : Sring S) (Seqb : seqb_spec S)
  (Hadj : forall a : S, sadj a = a) k ce ml sc ts (M : crs S) :
  sym_kind k -> wf M = true -> sym_mat (nrows M) M -> ts_sym (nrows M) ts ->
  let lvls := std_levels k (amg_init ce false ml (coarse_op_of sc) ts M) in
  forall scr1 scr2 f g x1 x2,
  scratch_wf lvls scr1 -> scratch_wf lvls scr2 ->
  length f = nrows M -> length g = nrows M -> length x1 = nrows M -> length x2 = nrows M ->
  dot (fst (apply 1 1 1 1 lvls scr1 f x1)) g = dot f (fst (apply 1 1 1 1 lvls scr2 g x2)).
Proof. exact (built_apply_sym_smoother_coarse Srt Seqb Hadj k ce ml sc ts M). Qed.
Print Assumptions C02_apply_symmetric_built_smoother_coarse.

(* A3 in full: npre = npost = k (any k), any ncycle (V- and W-cycles), any pre_cycles >= 1
   (pre_cycles = pc + 1; for pc > 0 the hierarchy must not be a single level handled by the
   direct solver: nosolve_top).  hier_symk: the pre-smoothers are consistent as well. *)
Theorem C02_apply_symmetric_full {S : Scalar} (Srt : Sring S) (Seqb : seqb_spec S)
  (Hadj : forall a : S, sadj a = a) k nc pc (lvls : list (@level S)) :
  hier_sym lvls -> hier_symk lvls -> lvls <> [] -> (pc = 0 \/ nosolve_top lvls) ->
  forall scr1 scr2 f g x1 x2,
  scratch_wf lvls scr1 -> scratch_wf lvls scr2 ->
  length f = top_n lvls -> length g = top_n lvls ->
  length x1 = top_n lvls -> length x2 = top_n lvls ->
  dot (fst (apply k k nc (Datatypes.S pc) lvls scr1 f x1)) g =
  dot f (fst (apply k k nc (Datatypes.S pc) lvls scr2 g x2)).
Proof. exact (apply_sym_full Srt Seqb Hadj k nc pc lvls). Qed.
Print Assumptions C02_apply_symmetric_full.

Theorem C02_apply_symmetric_full_built {S : Scalar} (Srt : Sring S) (Seqb : seqb_spec S)
  (Hadj : forall a : S, sadj a = a) kd ce dc ml sc ts (M : crs S) k nc pc :
  sym_kind kd -> wf M = true -> sym_mat (nrows M) M -> ts_sym (nrows M) ts ->
  (forall A, In (LSolve A) (amg_init ce dc ml (coarse_op_of sc) ts M) ->
             solve_sym (nrows A) (mk_solve_exact A)) ->
  let lvls := std_levels kd (amg_init ce dc ml (coarse_op_of sc) ts M) in
  (pc = 0 \/ nosolve_top lvls) ->
  forall scr1 scr2 f g x1 x2,
  scratch_wf lvls scr1 -> scratch_wf lvls scr2 ->
  length f = nrows M -> length g = nrows M -> length x1 = nrows M -> length x2 = nrows M ->
  dot (fst (apply k k nc (Datatypes.S pc) lvls scr1 f x1)) g =
  dot f (fst (apply k k nc (Datatypes.S pc) lvls scr2 g x2)).
Proof. exact (built_apply_sym_full Srt Seqb Hadj kd ce dc ml sc ts M k nc pc). Qed.
Print Assumptions C02_apply_symmetric_full_built.

(* Gauss-Seidel (field): for a symmetric matrix whose rows carry one invertible diagonal entry
   (gs_diag_ok: the last stored diagonal entry is non-zero and equals the dense diagonal) the
   forward and the backward sweep are consistent and adjoint to each other: forward as pre-,
   backward as post-smoother gives a symmetric preconditioner. *)
Theorem C02_gs_symmetric_smoothers {S : Scalar} (Sft : Sfield S) (A : crs S) :
  wf A = true -> sym_mat (nrows A) A -> gs_diag_ok A ->
  sweep_cons (nrows A) A (fst (mk_relax_std RGS A)) /\
  sweep_cons (nrows A) A (snd (mk_relax_std RGS A)) /\
  sweep_adj (nrows A) (fst (mk_relax_std RGS A)) (snd (mk_relax_std RGS A)).
Proof. exact (gs_sym_ok Sft A). Qed.
Print Assumptions C02_gs_symmetric_smoothers.

Theorem C02_gs_diag_ok_nodup {S : Scalar} (Sft : Sfield S) (A : crs S) :
  Forall (fun r => NoDup (map fst r)) (rows A) ->
  (forall i, i < nrows A -> In i (map fst (nth i (rows A) [])) /\ mget A i i <> s0) ->
  gs_diag_ok A.
Proof. exact (gs_diag_ok_nodup Sft A). Qed.
Print Assumptions C02_gs_diag_ok_nodup.

Theorem C02_apply_symmetric_full_built_gs {S : Scalar} (Sft : Sfield S) (Seqb : seqb_spec S)
  (Hadj : forall a : S, sadj a = a) ce dc ml sc ts (M : crs S) k nc pc :
  wf M = true -> sym_mat (nrows M) M -> ts_sym (nrows M) ts ->
  (forall A, In (LSolve A) (amg_init ce dc ml (coarse_op_of sc) ts M) ->
             solve_sym (nrows A) (mk_solve_exact A)) ->
  (forall l, In l (amg_init ce dc ml (coarse_op_of sc) ts M) -> gs_diag_ok (ld_A l)) ->
  let lvls := std_levels RGS (amg_init ce dc ml (coarse_op_of sc) ts M) in
  (pc = 0 \/ nosolve_top lvls) ->
  forall scr1 scr2 f g x1 x2,
  scratch_wf lvls scr1 -> scratch_wf lvls scr2 ->
  length f = nrows M -> length g = nrows M -> length x1 = nrows M -> length x2 = nrows M ->
  dot (fst (apply k k nc (Datatypes.S pc) lvls scr1 f x1)) g =
  dot f (fst (apply k k nc (Datatypes.S pc) lvls scr2 g x2)).
Proof. exact (built_apply_sym_full_gs Sft Seqb Hadj ce dc ml sc ts M k nc pc). Qed.
Print Assumptions C02_apply_symmetric_full_built_gs.

(* the exact coarse solve (Gauss-Jordan with search for a non-zero pivot) is correct over a
   field, hence a symmetric operator for symmetric matrices *)
Theorem C02_exact_solve_correct {S : Scalar} (Sft : Sfield S) (Seqb : seqb_spec S) (A : crs S) f y :
  ncols A = nrows A -> length f = nrows A -> dense_solve A f = Some y ->
  forall i, i < nrows A -> Ax A y i = vget f i.
Proof. exact (dense_solve_correct Sft Seqb A f y). Qed.
Print Assumptions C02_exact_solve_correct.

Theorem C02_exact_solve_symmetric {S : Scalar} (Sft : Sfield S) (Seqb : seqb_spec S) (A : crs S) :
  ncols A = nrows A -> solvable A = true -> sym_mat (nrows A) A ->
  solve_sym (nrows A) (mk_solve_exact A).
Proof. exact (mk_solve_exact_sym Sft Seqb A). Qed.
Print Assumptions C02_exact_solve_symmetric.

(* A3 for the complete executable model: hierarchy from amg_init, Jacobi / SPAI-0 resp.
   Gauss-Seidel, exact coarse solve; npre = npost = k, any ncycle, pre_cycles = pc + 1 *)
Theorem C02_apply_symmetric_exact_built {S : Scalar} (Sft : Sfield S) (Seqb : seqb_spec S)
  (Hadj : forall a : S, sadj a = a) kd ce dc ml sc ts (M : crs S) k nc pc :
  sym_kind kd -> wf M = true -> sym_mat (nrows M) M -> ts_sym (nrows M) ts ->
  (forall A, In (LSolve A) (amg_init ce dc ml (coarse_op_of sc) ts M) ->
             solvable A = true /\ sym_mat (nrows A) A) ->
  let lvls := std_levels kd (amg_init ce dc ml (coarse_op_of sc) ts M) in
  (pc = 0 \/ nosolve_top lvls) ->
  forall scr1 scr2 f g x1 x2,
  scratch_wf lvls scr1 -> scratch_wf lvls scr2 ->
  length f = nrows M -> length g = nrows M -> length x1 = nrows M -> length x2 = nrows M ->
  dot (fst (apply k k nc (Datatypes.S pc) lvls scr1 f x1)) g =
  dot f (fst (apply k k nc (Datatypes.S pc) lvls scr2 g x2)).
Proof. exact (built_apply_sym_exact Sft Seqb Hadj kd ce dc ml sc ts M k nc pc). Qed.
Print Assumptions C02_apply_symmetric_exact_built.

Theorem C02_apply_symmetric_exact_built_gs {S : Scalar} (Sft : Sfield S) (Seqb : seqb_spec S)
  (Hadj : forall a : S, sadj a = a) ce dc ml sc ts (M : crs S) k nc pc :
  wf M = true -> sym_mat (nrows M) M -> ts_sym (nrows M) ts ->
  (forall A, In (LSolve A) (amg_init ce dc ml (coarse_op_of sc) ts M) ->
             solvable A = true /\ sym_mat (nrows A) A) ->
  (forall l, In l (amg_init ce dc ml (coarse_op_of sc) ts M) -> gs_diag_ok (ld_A l)) ->
  let lvls := std_levels RGS (amg_init ce dc ml (coarse_op_of sc) ts M) in
  (pc = 0 \/ nosolve_top lvls) ->
  forall scr1 scr2 f g x1 x2,
  scratch_wf lvls scr1 -> scratch_wf lvls scr2 ->
  length f = nrows M -> length g = nrows M -> length x1 = nrows M -> length x2 = nrows M ->
  dot (fst (apply k k nc (Datatypes.S pc) lvls scr1 f x1)) g =
  dot f (fst (apply k k nc (Datatypes.S pc) lvls scr2 g x2)).
Proof. exact (built_apply_sym_exact_gs Sft Seqb Hadj ce dc ml sc ts M k nc pc). Qed.
Print Assumptions C02_apply_symmetric_exact_built_gs.

(* The non-symmetry for npre <> npost is exhibited on the concrete hierarchy below
   (C02_example_asymmetric_when_npre_ne_npost).

*)

(* ================================================================== *)
(* B1  contraction in quadratic-form form (ordered ring; the order enters through
   le0 x := (0 < x) = false and lt0 x := (x < 0) = true with the four closure facts below).
   J_g(x) = <A x, x> - 2 <g, x>;  for A u = g:  J_g(x') - J_g(x) = <A(x'-u),x'-u> - <A(x-u),x-u>
   (C02_energy_is_error_energy), so "J decreases" is "the energy norm of the error decreases".
   hier_dec: smoothers decrease J on their level, A_l symmetric, R_l = P_l^T (dense), the next
   matrix is the Galerkin form, the coarsest solve decreases J.  The cycle as a function of
   (rhs, x) is Cyc k nc lvls (= fst (cycle k k nc lvls scr rhs x) for every well-formed scr). *)
Theorem C02_cycle_energy_decrease {S : Scalar} (Srt : Sring S) (Seqb : seqb_spec S)
  (O1 : le0 (@s0 S)) (O2 : forall a b : S, le0 a -> le0 b -> le0 (a + b))
  k nc (lvls : list (@level S)) :
  hier_dec lvls -> lvls <> [] -> it_dec (top_n lvls) (top_A lvls) (Cyc k nc lvls).
Proof. exact (Cyc_dec Srt Seqb O1 O2 k nc lvls). Qed.
Print Assumptions C02_cycle_energy_decrease.

(* strictly, whenever the residual g - A x is non-zero (npre = npost = k+1, ncycle = nc+1) *)
Theorem C02_cycle_energy_strict_decrease {S : Scalar} (Srt : Sring S) (Seqb : seqb_spec S)
  (O1 : le0 (@s0 S)) (O2 : forall a b : S, le0 a -> le0 b -> le0 (a + b))
  (O3 : forall a b : S, lt0 a -> le0 b -> lt0 (a + b))
  k nc (lvls : list (@level S)) :
  hier_dec lvls -> top_strict lvls ->
  it_sdec (top_n lvls) (top_A lvls) (Cyc (Datatypes.S k) (Datatypes.S nc) lvls).
Proof. exact (Cyc_sdec Srt Seqb O1 O2 O3 k nc lvls). Qed.
Print Assumptions C02_cycle_energy_strict_decrease.

Theorem C02_cycle_function {S : Scalar} (Seqb : seqb_spec S) k nc (lvls : list (@level S)) :
  hier_wf lvls -> forall scr f x, scratch_wf lvls scr ->
  length f = top_n lvls -> length x = top_n lvls ->
  fst (cycle k k nc lvls scr f x) = Cyc k nc lvls f x.
Proof. exact (Cyc_any Seqb k nc lvls). Qed.
Print Assumptions C02_cycle_function.

(* the preconditioner B g = apply(g): <A B g, B g> <= 2 <g, B g>, strictly for g <> 0
   (with A positive semi-definite this gives <B g, g> > 0: B is positive definite) *)
Theorem C02_apply_energy {S : Scalar} (Srt : Sring S) (Seqb : seqb_spec S)
  (O1 : le0 (@s0 S)) (O2 : forall a b : S, le0 a -> le0 b -> le0 (a + b))
  k nc pc (lvls : list (@level S)) :
  hier_dec lvls -> lvls <> [] ->
  forall scr g x, scratch_wf lvls scr -> length g = top_n lvls -> length x = top_n lvls ->
  let B := fst (apply k k nc (Datatypes.S pc) lvls scr g x) in
  le0 (qA (top_n lvls) (top_A lvls) B B - two * ip (top_n lvls) g B).
Proof. exact (apply_energy Srt Seqb O1 O2 k nc pc lvls). Qed.
Print Assumptions C02_apply_energy.

Theorem C02_apply_energy_strict {S : Scalar} (Srt : Sring S) (Seqb : seqb_spec S)
  (O1 : le0 (@s0 S)) (O2 : forall a b : S, le0 a -> le0 b -> le0 (a + b))
  (O3 : forall a b : S, lt0 a -> le0 b -> lt0 (a + b))
  k nc pc (lvls : list (@level S)) :
  hier_dec lvls -> top_strict lvls ->
  wf (top_A lvls) = true -> sym_mat (top_n lvls) (top_A lvls) ->
  forall scr g x, scratch_wf lvls scr -> length g = top_n lvls -> length x = top_n lvls ->
  g <> vzero (top_n lvls) ->
  let B := fst (apply (Datatypes.S k) (Datatypes.S k) (Datatypes.S nc) (Datatypes.S pc) lvls scr g x) in
  lt0 (qA (top_n lvls) (top_A lvls) B B - two * ip (top_n lvls) g B).
Proof. exact (apply_energy_strict Srt Seqb O1 O2 O3 k nc pc lvls). Qed.
Print Assumptions C02_apply_energy_strict.

Theorem C02_energy_is_error_energy {S : Scalar} (Srt : Sring S) n (A : crs S) (g x x' u : vec S) :
  wf A = true -> nrows A = n -> sym_mat n A ->
  length g = n -> length x = n -> length x' = n -> length u = n ->
  (forall i, i < n -> Ax A u i = vget g i) ->
  dJ n A g x x' =
  qA n A (vlin s1 x' (sopp s1) u) (vlin s1 x' (sopp s1) u) -
  qA n A (vlin s1 x (sopp s1) u) (vlin s1 x (sopp s1) u).
Proof. exact (dJ_error Srt n A g x x' u). Qed.
Print Assumptions C02_energy_is_error_energy.

(* the model's coarse operator satisfies the Galerkin condition of hier_dec ... *)
Theorem C02_galerkin_energy {S : Scalar} (Srt : Sring S) (A P R : crs S) n n' :
  wf A = true -> wf P = true -> wf R = true -> nrows P = n -> transp n n' R P ->
  forall u : vec S, qA n A (mv P u) (mv P u) = qA n' (sort_rows (galerkin A P R)) u u.
Proof. exact (galerkin_energy Srt A P R n n'). Qed.
Print Assumptions C02_galerkin_energy.

(* ... and the exact coarse solve satisfies the solver condition for positive semi-definite A *)
Theorem C02_exact_solve_energy {S : Scalar} (Sft : Sfield S) (Seqb : seqb_spec S)
  (O1 : le0 (@s0 S)) (A : crs S) :
  ncols A = nrows A -> wf A = true -> sym_mat (nrows A) A -> psd (nrows A) A ->
  it_dec (nrows A) A (mk_solve_exact A).
Proof. exact (exact_solve_dec Sft Seqb O1 A). Qed.
Print Assumptions C02_exact_solve_energy.

(* --- the smoother hypotheses from matrix properties (ordered field; `ordered S` is the
   ordered-ring interface of AmgOrder.v through the record's operator<).
   mmat n A: symmetric, off-diagonal entries <= 0, positive diagonal, weakly diagonally dominant
   (sum_{j<>i} -a_ij <= a_ii): the M-matrices of the property text. *)
Theorem C02_mmatrix_quadratic_bounds {S : Scalar} (Sft : Sfield S) (Ord : ordered S) n (A : crs S) :
  mmat n A -> forall x : vec S,
  ole s0 (qA n A x x) /\ ole (qA n A x x) (Dq n A x + Dq n A x).
Proof. exact (fun HM x => conj (mmat_psd Sft Ord n A HM x) (mmat_upper Sft Ord n A HM x)). Qed.
Print Assumptions C02_mmatrix_quadratic_bounds.

(* damped Jacobi, 0 < w <= 1, decreases the energy; strictly (non-zero residual) for w < 1 *)
Theorem C02_jacobi_energy {S : Scalar} (Sft : Sfield S) (Seqb : seqb_spec S) (Ord : ordered S)
  (A : crs S) (w : S) (junk : vec S) :
  wf A = true -> mmat (nrows A) A -> fdiag_ok A -> olt s0 w -> ole w s1 ->
  let sw := fun rhs x t => jacobi_sweep w (jacobi_setup A junk) A rhs x t in
  it_dec (nrows A) A (sm (nrows A) sw) /\ (olt w s1 -> it_sdec (nrows A) A (sm (nrows A) sw)).
Proof.
  exact (fun WA HM Hf H0 H1 =>
    conj (jacobi_it_dec Sft Seqb Ord A w junk WA HM Hf H0 H1)
         (jacobi_it_sdec Sft Seqb Ord A w junk WA HM Hf H0)).
Qed.
Print Assumptions C02_jacobi_energy.

(* Gauss-Seidel: each row relaxation is a coordinate-descent step; both sweeps decrease the
   energy, strictly on non-zero residuals *)
Theorem C02_gs_energy {S : Scalar} (Sft : Sfield S) (Seqb : seqb_spec S) (Ord : ordered S)
  (A : crs S) fwd :
  wf A = true -> sym_mat (nrows A) A -> gs_diag_ok A -> (forall i, i < nrows A -> olt s0 (mget A i i)) ->
  it_dec (nrows A) A (sm (nrows A) (gs_sw A fwd)) /\ it_sdec (nrows A) A (sm (nrows A) (gs_sw A fwd)).
Proof.
  exact (fun WA SA DA HP => conj (gs_it_dec Sft Seqb Ord A WA SA DA HP fwd)
                                 (gs_it_sdec Sft Seqb Ord A WA SA DA HP fwd)).
Qed.
Print Assumptions C02_gs_energy.

(* every Galerkin chain of M-matrices with Jacobi (0 < w <= 1) or Gauss-Seidel and the exact
   coarse solve satisfies hier_dec *)
Theorem C02_built_hierarchy_energy {S : Scalar} (Sft : Sfield S) (Seqb : seqb_spec S) (Ord : ordered S)
  k (ls : list (@ldesc S)) :
  kind_ok k -> chain (@galerkin S) ls -> descs_spd ls -> hier_dec (std_levels k ls).
Proof. exact (chain_hier_dec Sft Seqb Ord k ls). Qed.
Print Assumptions C02_built_hierarchy_energy.

(* B1 closed: contraction (strict energy decrease) and positivity of the preconditioner *)
Theorem C02_built_contracts {S : Scalar} (Sft : Sfield S) (Seqb : seqb_spec S) (Ord : ordered S)
  kd ce dc ml ts (M : crs S) k nc pc :
  kind_ok kd -> kind_strict kd ->
  let ls := amg_init ce dc ml (@galerkin S) ts M in
  descs_spd ls -> top_smoothed ls ->
  let lvls := std_levels kd ls in
  forall scr g x, scratch_wf lvls scr -> length g = nrows M -> length x = nrows M ->
  g <> vzero (nrows M) ->
  let B := fst (apply (Datatypes.S k) (Datatypes.S k) (Datatypes.S nc) (Datatypes.S pc) lvls scr g x) in
  lt0 (qA (nrows M) (sort_rows M) B B - two * ip (nrows M) g B) /\ olt s0 (ip (nrows M) g B).
Proof. exact (built_contracts Sft Seqb Ord kd ce dc ml ts M k nc pc). Qed.
Print Assumptions C02_built_contracts.

(* FULL STATEMENT (unproved), rest of B1 (see also "B1, second part" at the end of this file, where SPAI-0,
   matrices with entries of any sign, irreducible dominance and the eigenvalue form are proved):
   (a) ILU(0) / ILU(k) / ILUP / Chebyshev smoothers: the energy conditions stay hypotheses of hier_dec
       (it_dec / it_sdec of the sweep); for damped Jacobi the derived range is 0 < w <= 1 under
       <A x,x> <= 2 <D x,x>; coarse levels of smoothed aggregation / Ruge-Stuben need not be
       diagonally dominant, there the level condition has to be checked (descs_okb) or Gauss-Seidel
       used (C02_gs_contracts_spd needs no condition on coarse levels);
   (b) the third clause of Inv, <A B g, B g> <= <B g, g> (only < 2 <B g, g> is proved -- it is what
       positivity and contraction need), and "spectral radius of I - B A < 1": proved is the strict
       decrease of the energy norm of every error with non-zero residual and lambda^2 < 1 for every
       eigenvalue lambda of I - B A that lies in the (ordered) field; what remains is the spectral
       theorem (I - B A is A-self-adjoint, so over the reals it has an A-orthogonal eigenbasis and its
       spectral radius is max |lambda|), which needs real-closedness and is not formalised;
   (c) for the re-scaled Galerkin operator of plain aggregation the Galerkin condition of
       hier_dec does not hold (A_c = s R A P with s <> 1); the CONTRACTION part of B1 is stated for
       coarse_op = galerkin.  Positive definiteness of the V-cycle preconditioner is proved for every
       coarse operator ("B1, third part" at the end of this file); for W-cycles / pre_cycles = 2 with a
       re-scaled operator it stays open (it is equivalent to B_1 A B_1 < 2 B_1, i.e. to contraction).
   B2 scaling: proved below (C02_built_apply_scaling) for damped Jacobi, SPAI-0, Gauss-Seidel and the
   exact coarse solve.
   and, as a separate statement about the sweep (Chebyshev is not a kind of mk_relax_std), for the
   Chebyshev smoother with the Gershgorin bound (C02_chebyshev_scales, c > 0).
   FULL STATEMENT (unproved), rest of B2: the same for the ILU(0) smoother
   (ilu_sweep (ilu0 (c*A)) f x = ilu_sweep (ilu0 A) (f/c) x, the factors being L, c*U, D/c)
   -- covered by the scaling oracle on the implementation (tools/props/C02.py) only; the cycle
   theorem C02_cycle_scaling applies to ANY smoother satisfying sweep_sim, so only that sweep
   statement is missing; and the binary64 statement (every operation of set-up and cycle is
   homogeneous in A, so multiplying by 2^k only shifts exponents) -- tested bitwise, not proved. *)

(* ================================================================== *)
(* closed instances at the exact rationals *)
Theorem C02_apply_history_independent_Qc ce dc ml sc ts (M : crs QcS) k npre npost ncycle pre_cycles :
  let lvls := std_levels k (amg_init ce dc ml (coarse_op_of sc) ts M) in
  forall scr1 scr2 rhs x1 x2,
  scratch_wf lvls scr1 -> scratch_wf lvls scr2 ->
  length rhs = nrows M -> length x1 = nrows M -> length x2 = nrows M ->
  fst (apply npre npost ncycle pre_cycles lvls scr1 rhs x1) =
  fst (apply npre npost ncycle pre_cycles lvls scr2 rhs x2).
Proof. exact (built_apply_history_indep (S := QcS) eq_refl ce dc ml sc ts M k npre npost ncycle pre_cycles). Qed.
Print Assumptions C02_apply_history_independent_Qc.

Theorem C02_apply_linear_Qc k ce dc ml sc ts (M : crs QcS) npre npost ncycle pre_cycles :
  wf M = true -> ts_wf (nrows M) ts ->
  (forall A, In (LSolve A) (amg_init ce dc ml (coarse_op_of sc) ts M) ->
             ncols A = nrows A /\ solvable A = true) ->
  let lvls := std_levels k (amg_init ce dc ml (coarse_op_of sc) ts M) in
  forall a b scr1 scr2 scr3 f g x1 x2 x3,
  scratch_wf lvls scr1 -> scratch_wf lvls scr2 -> scratch_wf lvls scr3 ->
  length f = nrows M -> length g = nrows M ->
  length x1 = nrows M -> length x2 = nrows M -> length x3 = nrows M ->
  fst (apply npre npost ncycle pre_cycles lvls scr3 (vlin a f b g) x3) =
  vlin a (fst (apply npre npost ncycle pre_cycles lvls scr1 f x1)) b
         (fst (apply npre npost ncycle pre_cycles lvls scr2 g x2)).
Proof. exact (built_apply_linear QcS_ring QcS_eqb k ce dc ml sc ts M npre npost ncycle pre_cycles). Qed.
Print Assumptions C02_apply_linear_Qc.

Theorem C02_apply_symmetric_Qc k ce ml sc ts (M : crs QcS) :
  sym_kind k -> wf M = true -> sym_mat (nrows M) M -> ts_sym (nrows M) ts ->
  let lvls := std_levels k (amg_init ce false ml (coarse_op_of sc) ts M) in
  forall scr1 scr2 f g x1 x2,
  scratch_wf lvls scr1 -> scratch_wf lvls scr2 ->
  length f = nrows M -> length g = nrows M -> length x1 = nrows M -> length x2 = nrows M ->
  dot (fst (apply 1 1 1 1 lvls scr1 f x1)) g = dot f (fst (apply 1 1 1 1 lvls scr2 g x2)).
Proof. exact (built_apply_sym_smoother_coarse QcS_ring QcS_eqb (fun a => eq_refl) k ce ml sc ts M). Qed.
Print Assumptions C02_apply_symmetric_Qc.

Theorem C02_apply_symmetric_gs_Qc ce ml sc ts (M : crs QcS) k nc pc :
  wf M = true -> sym_mat (nrows M) M -> ts_sym (nrows M) ts ->
  (forall l, In l (amg_init ce false ml (coarse_op_of sc) ts M) -> gs_diag_ok (ld_A l)) ->
  let lvls := std_levels RGS (amg_init ce false ml (coarse_op_of sc) ts M) in
  forall scr1 scr2 f g x1 x2,
  scratch_wf lvls scr1 -> scratch_wf lvls scr2 ->
  length f = nrows M -> length g = nrows M -> length x1 = nrows M -> length x2 = nrows M ->
  dot (fst (apply k k nc (Datatypes.S pc) lvls scr1 f x1)) g =
  dot f (fst (apply k k nc (Datatypes.S pc) lvls scr2 g x2)).
Proof.
  exact (fun WM SM Hts Hg =>
    built_apply_sym_full_gs QcS_field QcS_eqb (fun a => eq_refl) ce false ml sc ts M k nc pc WM SM Hts
      (fun A HA => False_ind _ (build_no_solve _ _ _ _ _ _ _ HA)) Hg
      (or_intror (nosolve_top_nosolve ce ml (coarse_op_of sc) ts M RGS))).
Qed.
Print Assumptions C02_apply_symmetric_gs_Qc.

Theorem C02_apply_symmetric_exact_Qc kd ce dc ml sc ts (M : crs QcS) k nc pc :
  sym_kind kd -> wf M = true -> sym_mat (nrows M) M -> ts_sym (nrows M) ts ->
  (forall A, In (LSolve A) (amg_init ce dc ml (coarse_op_of sc) ts M) ->
             solvable A = true /\ sym_mat (nrows A) A) ->
  let lvls := std_levels kd (amg_init ce dc ml (coarse_op_of sc) ts M) in
  (pc = 0 \/ nosolve_top lvls) ->
  forall scr1 scr2 f g x1 x2,
  scratch_wf lvls scr1 -> scratch_wf lvls scr2 ->
  length f = nrows M -> length g = nrows M -> length x1 = nrows M -> length x2 = nrows M ->
  dot (fst (apply k k nc (Datatypes.S pc) lvls scr1 f x1)) g =
  dot f (fst (apply k k nc (Datatypes.S pc) lvls scr2 g x2)).
Proof. exact (built_apply_sym_exact QcS_field QcS_eqb (fun a => eq_refl) kd ce dc ml sc ts M k nc pc). Qed.
Print Assumptions C02_apply_symmetric_exact_Qc.

Theorem C02_apply_energy_strict_Qc k nc pc (lvls : list (@level QcS)) :
  hier_dec lvls -> top_strict lvls ->
  wf (top_A lvls) = true -> sym_mat (top_n lvls) (top_A lvls) ->
  forall scr g x, scratch_wf lvls scr -> length g = top_n lvls -> length x = top_n lvls ->
  g <> vzero (top_n lvls) ->
  let B := fst (apply (Datatypes.S k) (Datatypes.S k) (Datatypes.S nc) (Datatypes.S pc) lvls scr g x) in
  lt0 (qA (top_n lvls) (top_A lvls) B B - two * ip (top_n lvls) g B).
Proof.
  exact (apply_energy_strict QcS_ring QcS_eqb QcS_le0_0 QcS_le0_add QcS_lt0_add k nc pc lvls).
Qed.
Print Assumptions C02_apply_energy_strict_Qc.

(* end to end on a concrete family member: 1-D Poisson (n = 4), two pairwise aggregations,
   damped Jacobi w = 1/2, direct solve on the 1 x 1 level, every V(k,k) / W(k,k) cycle with
   k >= 1 and every pre_cycles >= 1: the preconditioner is linear, symmetric, positive, and one
   application strictly decreases the energy -- no hypothesis left but the vector lengths *)
Definition exJacH : @relax_kind QcS := RJacobi (qc 1 2).
Theorem C02_apply_contracts_Qc k nc pc :
  let lvls := std_levels exJacH exH in
  forall scr scr2 scr3 (g h x x2 x3 : vec QcS) (a b : T QcS),
  scratch_wf lvls scr -> scratch_wf lvls scr2 -> scratch_wf lvls scr3 ->
  length g = 4 -> length h = 4 -> length x = 4 -> length x2 = 4 -> length x3 = 4 ->
  let Bop := fun s f y => fst (apply (Datatypes.S k) (Datatypes.S k) (Datatypes.S nc) (Datatypes.S pc) lvls s f y) in
  Bop scr3 (vlin a g b h) x3 = vlin a (Bop scr g x) b (Bop scr2 h x2) /\
  dot (Bop scr g x) h = dot g (Bop scr2 h x2) /\
  (g <> vzero 4 ->
   lt0 (qA 4 (sort_rows exM) (Bop scr g x) (Bop scr g x) - two * ip 4 g (Bop scr g x)) /\
   olt s0 (ip 4 g (Bop scr g x))).
Proof.
  intros lvls scr scr2 scr3 g h x x2 x3 a b H1 H2 H3 Lg Lh Lx Lx2 Lx3 Bop.
  split; [|split].
  - apply (built_apply_linear QcS_ring QcS_eqb exJacH 1 true 10 None exTs exM); try assumption.
    + vm_compute. reflexivity.
    + apply ts_wfb_ok. vm_compute. reflexivity.
    + apply solve_check_ok. vm_compute. reflexivity.
  - apply (built_apply_sym_exact QcS_field QcS_eqb (fun a0 => eq_refl) exJacH 1 true 10 None exTs exM
             (Datatypes.S k) (Datatypes.S nc) pc); try assumption.
    + exact I.
    + vm_compute. reflexivity.
    + apply (sym_matb_ok QcS_eqb). vm_compute. reflexivity.
    + apply (ts_symb_ok QcS_eqb). vm_compute. reflexivity.
    + apply (solve_sym_check_ok QcS_eqb). vm_compute. reflexivity.
    + right. exact I.
  - intro Hg.
    apply (built_contracts QcS_field QcS_eqb QcS_ordered exJacH 1 true 10 exTs exM k nc pc); try assumption.
    + split; vm_compute; reflexivity.
    + vm_compute. reflexivity.
    + apply (descs_spdb_ok QcS_eqb). vm_compute. reflexivity.
    + vm_compute. exact I.
Qed.
Print Assumptions C02_apply_contracts_Qc.

(* ================================================================== *)
(* non-vacuity: the hypothesis sets hold on a concrete 3-level hierarchy over Qc
   (AmgExampleData.v: 1D Laplacian n = 4, two pairwise aggregations, damped Jacobi 2/3,
   exH: direct solve on the 1x1 level; exH': smoother on the 1x1 level) *)
Example C02_example_A1_hypotheses :
  hier_wf exLvls /\ exLvls <> [] /\ scratch_wf exLvls exScr0 /\ scratch_wf exLvls exDirty.
Proof.
  destruct (std_levels_wf exJac (@galerkin QcS) exH galerkin_shape
              (proj1 (amg_init_chain 1 true 10 (@galerkin QcS) exTs exM))) as (H1 & H2 & H3).
  split; [exact H1|]. split; [exact H2|]. split; [exact H3|].
  apply std_scratch_check. vm_compute. reflexivity.
Qed.

Example C02_example_A1_concrete :
  let z := [exq 0; exq 0; exq 0; exq 0] in
  vec_eqb (fst (apply 1 1 1 1 exLvls exScr0 exF z)) (fst (apply 1 1 1 1 exLvls exDirty exF exG)) = true /\
  vec_eqb (fst (apply 1 1 1 1 exLvls exScr0 exF z)) [qc 86 27; qc 145 27; qc 170 27; qc 139 27] = true.
Proof. vm_compute. auto. Qed.

Example C02_example_A2_hypotheses : hier_lin exLvls.
Proof.
  apply (std_levels_lin QcS_ring QcS_eqb exJac 1 true 10 None exTs exM).
  - vm_compute. reflexivity.
  - apply ts_wfb_ok. vm_compute. reflexivity.
  - apply solve_check_ok. vm_compute. reflexivity.
Qed.

Example C02_example_A3_hypotheses : hier_sym exLvls' /\ hier_symk exLvls' /\ nosolve_top exLvls'.
Proof.
  destruct (std_levels_sym QcS_ring QcS_eqb exJac 1 false 10 None exTs exM I) as [H1 H2].
  - vm_compute. reflexivity.
  - apply (sym_matb_ok QcS_eqb). vm_compute. reflexivity.
  - apply (ts_symb_ok QcS_eqb). vm_compute. reflexivity.
  - intros A HA. exfalso. apply (build_no_solve _ _ _ _ _ _ _ HA).
  - split; [exact H1|]. split; [exact H2|exact I].
Qed.

Example C02_example_A3_gs_hypotheses : hier_sym exLvlsGS /\ hier_symk exLvlsGS.
Proof.
  apply (std_levels_sym_gs QcS_field 1 false 10 None exTs exM).
  - vm_compute. reflexivity.
  - apply (sym_matb_ok QcS_eqb). vm_compute. reflexivity.
  - apply (ts_symb_ok QcS_eqb). vm_compute. reflexivity.
  - intros A HA. exfalso. apply (build_no_solve _ _ _ _ _ _ _ HA).
  - apply (gs_levels_check QcS_eqb). vm_compute. reflexivity.
Qed.

(* the hierarchy that ends in the direct solver: all side conditions of
   C02_apply_symmetric_exact_built(_gs) hold *)
Example C02_example_A3_exact_hypotheses :
  wf exM = true /\ sym_mat (nrows exM) exM /\ ts_sym (nrows exM) exTs /\
  (forall A, In (LSolve A) exH -> solvable A = true /\ sym_mat (nrows A) A) /\
  (forall l, In l exH -> gs_diag_ok (ld_A l)) /\ nosolve_top exLvls /\ nosolve_top exLvlsGSd.
Proof.
  split; [vm_compute; reflexivity|].
  split; [apply (sym_matb_ok QcS_eqb); vm_compute; reflexivity|].
  split; [apply (ts_symb_ok QcS_eqb); vm_compute; reflexivity|].
  split; [apply (solve_sym_check_ok QcS_eqb); vm_compute; reflexivity|].
  split; [apply (gs_levels_check QcS_eqb); vm_compute; reflexivity|].
  split; exact I.
Qed.

(* the structural part of hier_dec (symmetry, R = P^T, Galerkin condition, lengths) holds on the
   matrices produced by the model; the smoothers of this witness are the identity sweeps, for
   which the energy condition is trivial (the conditions for Jacobi / Gauss-Seidel are listed
   as unproved above) *)
Example C02_example_B1_structural_hypotheses :
  let idsw : @sweep QcS := fun _ x t => (x, t) in
  let A := sort_rows exM in let P := sort_rows exP1 in let R := sort_rows exR1 in
  let Ac := sort_rows (galerkin A P R) in
  hier_dec [mkLevel A P R idsw idsw None; mkLevel Ac empty_crs empty_crs idsw idsw None].
Proof.
  intros idsw A P R Ac.
  assert (Hid : forall n (M : crs QcS), it_dec n M (sm n idsw))
    by (intros n M; apply (id_dec QcS_ring QcS_le0_0 n M)).
  assert (Hok : forall n, sweep_ok n idsw) by (intro n; apply id_sweep_ok).
  cbn [hier_dec lA lR lP lpre lpost lsolve].
  split; [apply Hok|]. split; [apply Hok|]. split; [vm_compute; reflexivity|].
  split; [apply (sym_matb_ok QcS_eqb); vm_compute; reflexivity|].
  split; [apply Hid|]. split; [apply Hid|]. split.
  - split; [vm_compute; reflexivity|]. split; [vm_compute; reflexivity|].
    split; [vm_compute; reflexivity|]. split; [vm_compute; reflexivity|]. split.
    + apply (transpb_ok QcS_eqb). vm_compute. reflexivity.
    + intros u _. apply (galerkin_energy QcS_ring A P R).
      * vm_compute. reflexivity.
      * vm_compute. reflexivity.
      * vm_compute. reflexivity.
      * vm_compute. reflexivity.
      * apply (transpb_ok QcS_eqb). vm_compute. reflexivity.
  - split; [apply Hok|]. split; [apply Hok|]. split; [vm_compute; reflexivity|].
    split; [apply (sym_matb_ok QcS_eqb); vm_compute; reflexivity|].
    split; [apply Hid|]. split; [apply Hid|]. split; [intros sv E; discriminate|exact I].
Qed.

(* B1 on the concrete hierarchy (V(1,1) and W(2,2), Jacobi 2/3, direct coarse solve): the energy
   functional at B g is negative, <A B g, B g> < 2 <g, B g>, and <B g, g> > 0 *)
Example C02_example_B1_concrete :
  let z := [exq 0; exq 0; exq 0; exq 0] in
  let A := sort_rows exM in
  let Jat := fun (B : vec QcS) => ssub (qA 4 A B B) (smul two (ip 4 exF B)) in
  sltb (Jat (fst (apply 1 1 1 1 exLvls exScr0 exF z))) s0 = true /\
  sltb (Jat (fst (apply 2 2 2 1 exLvls exScr0 exF z))) (Jat (fst (apply 1 1 1 1 exLvls exScr0 exF z))) = true /\
  sltb s0 (ip 4 (fst (apply 1 1 1 1 exLvls exScr0 exF z)) exF) = true.
Proof. vm_compute. auto. Qed.

(* symmetry needs the symmetric schedule: with npre = 1, npost = 0 (and with npre = 2, npost = 1)
   the same hierarchy gives <B f, g> <> <f, B g> *)
Example C02_example_asymmetric_when_npre_ne_npost :
  let z := [exq 0; exq 0; exq 0; exq 0] in
  let B := fun npre npost f => fst (apply npre npost 1 1 exLvls exScr0 f z) in
  seqb (dot (B 1 1 exF) exG) (dot exF (B 1 1 exG)) = true /\
  seqb (dot (B 2 2 exF) exG) (dot exF (B 2 2 exG)) = true /\
  seqb (dot (fst (apply 2 2 2 2 exLvlsGS exScr0 exF z)) exG)
       (dot exF (fst (apply 2 2 2 2 exLvlsGS exScr0 exG z))) = true /\
  seqb (dot (B 1 0 exF) exG) (dot exF (B 1 0 exG)) = false /\
  seqb (dot (B 2 1 exF) exG) (dot exF (B 2 1 exG)) = false.
Proof. vm_compute. auto. Qed.

(* ================================================================== *)
(* B2  scaling (AmgScale.v - AmgScale4.v).  mscale A c multiplies every stored value of A by c
   ("A.val[j] *= c"); vsc a f = a * f; dsc c scales the matrix of a level descriptor and keeps its
   transfer operators.  Commutative ring for the set-up and the cycle (c * ci = 1), field for the
   smoothers and the exact solve (ci = 1/c). *)
From Amgcl Require Import AmgScale AmgScale2 AmgScale3 AmgScale4.

(* set-up: the hierarchy of c*M built with the transfer operators of M has the level matrices
   c*A_l -- as CRS structures, not only as dense matrices -- the same P_l, R_l and the same level
   structure (sizes decide coarse_enough / max_levels / direct_coarse) *)
Theorem C02_galerkin_scales {S : Scalar} (Srt : Sring S) (c s : S) (A P R : crs S) :
  galerkin (mscale A c) P R = mscale (galerkin A P R) c /\
  scaled_galerkin s (mscale A c) P R = mscale (scaled_galerkin s A P R) c /\
  sort_rows (mscale A c) = mscale (sort_rows A) c.
Proof.
  exact (conj (galerkin_mscale Srt c A P R)
              (conj (scaled_galerkin_mscale Srt c s A P R) (sort_rows_mscale c A))).
Qed.
Print Assumptions C02_galerkin_scales.

Theorem C02_setup_commutes_with_scaling {S : Scalar} (Srt : Sring S) (c : S) ce dc ml sc ts (M : crs S) :
  amg_init ce dc ml (coarse_op_of sc) ts (mscale M c) =
  map (dsc c) (amg_init ce dc ml (coarse_op_of sc) ts M).
Proof. exact (amg_init_mscale c ce dc ml (coarse_op_of sc) (coarse_op_of_scales Srt c sc) ts M). Qed.
Print Assumptions C02_setup_commutes_with_scaling.

Theorem C02_rebuild_commutes_with_scaling {S : Scalar} (Srt : Sring S) (c : S) sc
  (ls : list (@ldesc S)) (M : crs S) :
  amg_rebuild (coarse_op_of sc) (map (dsc c) ls) (mscale M c) =
  map (dsc c) (amg_rebuild (coarse_op_of sc) ls M).
Proof. exact (amg_rebuild_mscale c (coarse_op_of sc) (coarse_op_of_scales Srt c sc) ls M). Qed.
Print Assumptions C02_rebuild_commutes_with_scaling.

(* cycle and apply of two hierarchies in lock step.  hier_sim c ci lvls' lvls: level matrices
   A'_l = c*A_l, same P_l, R_l, and smoothers / coarse solver of lvls' on (f, x) = those of lvls on
   (f/c, x).  Any npre, npost, ncycle; pre_cycles = pc + 1. *)
Theorem C02_cycle_scaling {S : Scalar} (Srt : Sring S) (Seqb : seqb_spec S) (c ci : S) (Hci : c * ci = s1)
  npre npost ncycle (lvls' lvls : list (@level S)) :
  hier_sim c ci lvls' lvls -> hier_wf lvls' -> hier_wf lvls ->
  forall scr' scr f x, scratch_wf lvls' scr' -> scratch_wf lvls scr ->
  length f = top_n lvls -> length x = top_n lvls ->
  fst (cycle npre npost ncycle lvls' scr' f x) = fst (cycle npre npost ncycle lvls scr (vsc ci f) x).
Proof. exact (cycle_sim Srt Seqb c ci Hci npre npost ncycle lvls' lvls). Qed.
Print Assumptions C02_cycle_scaling.

Theorem C02_apply_scaling {S : Scalar} (Srt : Sring S) (Seqb : seqb_spec S) (c ci : S) (Hci : c * ci = s1)
  npre npost ncycle pc (lvls' lvls : list (@level S)) :
  hier_sim c ci lvls' lvls -> hier_wf lvls' -> hier_lin lvls -> lvls <> [] ->
  forall scr' scr f x x', scratch_wf lvls' scr' -> scratch_wf lvls scr ->
  length f = top_n lvls -> length x = top_n lvls -> length x' = top_n lvls ->
  fst (apply npre npost ncycle (Datatypes.S pc) lvls' scr' f x') =
  vsc ci (fst (apply npre npost ncycle (Datatypes.S pc) lvls scr f x)).
Proof. exact (apply_scaled Srt Seqb c ci Hci npre npost ncycle pc lvls' lvls). Qed.
Print Assumptions C02_apply_scaling.

(* the modelled smoothers (damped Jacobi, SPAI-0, Gauss-Seidel forward and backward) and the exact
   coarse solve of c*A are those of A on f/c.  kind_scalable: every row has a non-zero (first,
   resp. last) diagonal entry (Jacobi, Gauss-Seidel), no row has squared norm zero (SPAI-0). *)
Theorem C02_std_smoothers_scale {S : Scalar} (Sft : Sfield S) (Seqb : seqb_spec S) (c : S) (Hc : c <> s0)
  (Habs2 : forall v : S, sabs v * sabs v = v * v) (Hadj : forall v : S, sadj v = v) (k : @relax_kind S) (A : crs S) :
  wf A = true -> kind_scalable k A ->
  sweep_sim (sinv c) (nrows A) (fst (mk_relax_std k (mscale A c))) (fst (mk_relax_std k A)) /\
  sweep_sim (sinv c) (nrows A) (snd (mk_relax_std k (mscale A c))) (snd (mk_relax_std k A)).
Proof. exact (mk_relax_std_sim Sft Seqb c Hc Habs2 Hadj k A). Qed.
Print Assumptions C02_std_smoothers_scale.

Theorem C02_exact_solve_scales {S : Scalar} (Sft : Sfield S) (Seqb : seqb_spec S) (c : S) (Hc : c <> s0)
  (A : crs S) (f : vec S) :
  dense_solve (mscale A c) f = dense_solve A (vsc (sinv c) f) /\ solvable (mscale A c) = solvable A.
Proof. exact (conj (dense_solve_mscale Sft Seqb c Hc A f) (solvable_mscale Sft Seqb c Hc A)). Qed.
Print Assumptions C02_exact_solve_scales.

(* closed form for the executable model: hierarchy of c*M vs hierarchy of M (same transfer
   operators ts, same parameters), any cycle shape, pre_cycles >= 1:
       B(c M) f = (1/c) * B(M) f *)
Theorem C02_built_apply_scaling {S : Scalar} (Sft : Sfield S) (Seqb : seqb_spec S) (c : S) (Hc : c <> s0)
  (Habs2 : forall v : S, sabs v * sabs v = v * v) (Hadj : forall v : S, sadj v = v)
  k ce dc ml sc ts (M : crs S) npre npost ncycle pc :
  let ls := amg_init ce dc ml (coarse_op_of sc) ts M in
  let ls' := amg_init ce dc ml (coarse_op_of sc) ts (mscale M c) in
  wf M = true -> ts_wf (nrows M) ts ->
  (forall A, In (LSolve A) ls -> ncols A = nrows A /\ solvable A = true) ->
  descs_scalable k ls ->
  forall scr' scr f x x', scratch_wf (std_levels k ls') scr' -> scratch_wf (std_levels k ls) scr ->
  length f = nrows M -> length x = nrows M -> length x' = nrows M ->
  fst (apply npre npost ncycle (Datatypes.S pc) (std_levels k ls') scr' f x') =
  vsc (sinv c) (fst (apply npre npost ncycle (Datatypes.S pc) (std_levels k ls) scr f x)).
Proof. exact (built_apply_scaled Sft Seqb c Hc Habs2 Hadj k ce dc ml sc ts M npre npost ncycle pc). Qed.
Print Assumptions C02_built_apply_scaling.

Theorem C02_built_apply_scaling_Qc (c : T QcS) (Hc : c <> s0)
  k ce dc ml sc ts (M : crs QcS) npre npost ncycle pc :
  let ls := amg_init ce dc ml (coarse_op_of sc) ts M in
  let ls' := amg_init ce dc ml (coarse_op_of sc) ts (mscale M c) in
  wf M = true -> ts_wf (nrows M) ts ->
  (forall A, In (LSolve A) ls -> ncols A = nrows A /\ solvable A = true) ->
  descs_scalable k ls ->
  forall scr' scr f x x', scratch_wf (std_levels k ls') scr' -> scratch_wf (std_levels k ls) scr ->
  length f = nrows M -> length x = nrows M -> length x' = nrows M ->
  fst (apply npre npost ncycle (Datatypes.S pc) (std_levels k ls') scr' f x') =
  vsc (sinv c) (fst (apply npre npost ncycle (Datatypes.S pc) (std_levels k ls) scr f x)).
Proof. exact (built_apply_scaled QcS_field QcS_eqb c Hc QcS_abs2 QcS_sadj_id k ce dc ml sc ts M npre npost ncycle pc). Qed.
Print Assumptions C02_built_apply_scaling_Qc.

(* non-vacuity: the side conditions hold on the concrete 3-level hierarchies (Jacobi, SPAI-0,
   Gauss-Seidel; direct solver resp. smoother on the last level; Galerkin and re-scaled Galerkin) *)
Example C02_example_scaling_hypotheses :
  descs_scalable exJac exH /\ descs_scalable (@RSpai0 QcS) exH /\ descs_scalable (@RGS QcS) exH' /\
  descs_scalable exJac (amg_init 1 true 10 (coarse_op_of (Some (qc 2 3))) exTs exM) /\
  wf exM = true /\ ts_wf (nrows exM) exTs /\
  (forall A, In (LSolve A) exH -> ncols A = nrows A /\ solvable A = true).
Proof.
  split; [apply (descs_scalableb_ok QcS_eqb); vm_compute; reflexivity|].
  split; [apply (descs_scalableb_ok QcS_eqb); vm_compute; reflexivity|].
  split; [apply (descs_scalableb_ok QcS_eqb); vm_compute; reflexivity|].
  split; [apply (descs_scalableb_ok QcS_eqb); vm_compute; reflexivity|].
  split; [vm_compute; reflexivity|].
  split; [apply ts_wfb_ok; vm_compute; reflexivity|].
  apply solve_check_ok. vm_compute. reflexivity.
Qed.

(* concrete: 8 * M, V(1,1) and W(2,1) with pre_cycles = 2, Jacobi and Gauss-Seidel: B(8 M) f = B(M) f / 8;
   and the re-scaled Galerkin operator (plain aggregation, over-interpolation) scales as well *)
Example C02_example_scaling_concrete :
  let z := [exq 0; exq 0; exq 0; exq 0] in
  let c := exq 8 in
  let B := fun kd sc npre npost nc pc (M : crs QcS) =>
    let ls := amg_init 1 true 10 (coarse_op_of sc) exTs M in
    fst (apply npre npost nc pc (std_levels kd ls) (map (@fresh_scratch QcS) ls) exF z) in
  vec_eqb (B exJac None 1 1 1 1 (mscale exM c)) (vsc (sinv c) (B exJac None 1 1 1 1 exM)) = true /\
  vec_eqb (B (@RGS QcS) None 2 1 2 2 (mscale exM c)) (vsc (sinv c) (B (@RGS QcS) None 2 1 2 2 exM)) = true /\
  vec_eqb (B (@RSpai0 QcS) (Some (qc 2 3)) 1 2 1 1 (mscale exM c))
          (vsc (sinv c) (B (@RSpai0 QcS) (Some (qc 2 3)) 1 2 1 1 exM)) = true.
Proof. vm_compute. auto. Qed.

(* the diagonal condition is needed: for a row whose diagonal entry is zero damped Jacobi uses the
   identity (is_zero branch of diagonal(A, invert = true)), and the identity does not scale:
   here B(2 M) f = B(M) f, not B(M) f / 2 *)
Example C02_scaling_needs_diagonal :
  let M : crs QcS := mkCrs 2 [[(0, exq 0); (1, exq 1)]; [(0, exq 1); (1, exq 0)]]%nat in
  let f : vec QcS := [exq 1; exq 3] in let z := [exq 0; exq 0] in
  let B := fun (M : crs QcS) =>
    let ls := amg_init 5 false 10 (@galerkin QcS) [] M in
    fst (apply 1 0 1 1 (std_levels exJac ls) (map (@fresh_scratch QcS) ls) f z) in
  jacobi_scalableb M = false /\
  vec_eqb (B (mscale M (exq 2))) (B M) = true /\
  vec_eqb (B (mscale M (exq 2))) (vsc (sinv (exq 2)) (B M)) = false.
Proof. vm_compute. auto. Qed.

(* pre_cycles = 0 makes apply the identity (copy), which does not scale either *)
Example C02_scaling_needs_a_cycle :
  let z := [exq 0; exq 0; exq 0; exq 0] in
  let B := fun (M : crs QcS) =>
    let ls := amg_init 1 true 10 (@galerkin QcS) exTs M in
    fst (apply 1 1 1 0 (std_levels exJac ls) (map (@fresh_scratch QcS) ls) exF z) in
  vec_eqb (B (mscale exM (exq 2))) exF = true /\ vec_eqb (B exM) exF = true.
Proof. vm_compute. auto. Qed.

(* ================================================================== *)
(* B1, second part (AmgSmooth.v - AmgSmooth5.v): the smoother hypotheses for matrices with entries of
   ANY sign, SPAI-0, irreducible dominance, Gauss-Seidel on arbitrary SPD matrices, eigenvalues.
     wdd n A : symmetric, positive diagonal, sum_{j<>i} |a_ij| <= a_ii  (|.| through operator<);
     idd n A : every index is linked through non-zero entries to a strictly dominant row;
     Dq = <D x,x>, Wq = <W x,x> with W = diag(sum_{j<>i}|a_ij|). *)
From Amgcl Require Import AmgSmooth AmgSmooth2 AmgSmooth3 AmgSmooth4 AmgSmooth5.

Theorem C02_wdd_quadratic_bounds {S : Scalar} (Sft : Sfield S) (Ord : ordered S) n (A : crs S) :
  wdd n A -> forall x : vec S,
  ole s0 (qA n A x x) /\ ole (qA n A x x) (Dq n A x + Wq n A x) /\ ole (qA n A x x) (Dq n A x + Dq n A x).
Proof.
  exact (fun HW x => conj (wdd_psd Sft Ord n A HW x)
                          (conj (wdd_upper_W Sft Ord n A HW x) (wdd_upper Sft Ord n A HW x))).
Qed.
Print Assumptions C02_wdd_quadratic_bounds.

(* irreducibly diagonally dominant => positive definite, and <A x,x> < 2 <D x,x> *)
Theorem C02_idd_positive_definite {S : Scalar} (Sft : Sfield S) (Seqb : seqb_spec S) (Ord : ordered S)
  n (A : crs S) : wdd n A -> idd n A -> forall x : vec S, (exists i, i < n /\ vget x i <> s0) ->
  olt s0 (qA n A x x) /\ olt (qA n A x x) (Dq n A x + Dq n A x).
Proof.
  exact (fun HW HI x Hx => conj (idd_pd Sft Seqb Ord n A HW x HI Hx)
                                (idd_upper_strict Sft Seqb Ord n A HW x HI Hx)).
Qed.
Print Assumptions C02_idd_positive_definite.

Theorem C02_mmatrix_is_wdd {S : Scalar} (Sft : Sfield S) (Ord : ordered S) n (A : crs S) :
  mmat n A -> wdd n A.
Proof. exact (mmat_wdd Sft Ord n A). Qed.
Print Assumptions C02_mmatrix_is_wdd.

(* damped Jacobi, 0 < w <= 1 (amgcl's default 0.72 included): the energy decreases; strictly on
   non-zero residuals for w < 1, and also for w = 1 on irreducibly dominant matrices *)
Theorem C02_jacobi_energy_wdd {S : Scalar} (Sft : Sfield S) (Seqb : seqb_spec S) (Ord : ordered S)
  (A : crs S) (w : S) (junk : vec S) :
  wf A = true -> wdd (nrows A) A -> fdiag_ok A -> olt s0 w -> ole w s1 ->
  let sw := fun rhs x t => jacobi_sweep w (jacobi_setup A junk) A rhs x t in
  it_dec (nrows A) A (sm (nrows A) sw) /\
  (olt w s1 \/ idd (nrows A) A -> it_sdec (nrows A) A (sm (nrows A) sw)).
Proof.
  exact (fun WA HW Hf H0 H1 =>
    conj (jacobi_w_dec Sft Seqb Ord A w junk WA HW Hf H0 H1)
         (fun Hs => match Hs with
                    | or_introl Hlt => jacobi_w_sdec Sft Seqb Ord A w junk WA HW Hf H0 Hlt
                    | or_intror Hid => jacobi_w_sdec_idd Sft Seqb Ord A w junk WA HW Hf H0 H1 Hid
                    end)).
Qed.
Print Assumptions C02_jacobi_energy_wdd.

(* SPAI-0 (no parameter): strict decrease on every weakly dominant matrix without duplicate columns *)
Theorem C02_spai0_energy {S : Scalar} (Sft : Sfield S) (Seqb : seqb_spec S) (Ord : ordered S)
  (Habs2 : forall v : S, sabs v * sabs v = v * v) (Hadj : forall v : S, sadj v = v) (A : crs S) :
  wf A = true -> wdd (nrows A) A -> rows_nodup A ->
  let sw := fun rhs x t => spai0_sweep (spai0_setup A) A rhs x t in
  it_dec (nrows A) A (sm (nrows A) sw) /\ it_sdec (nrows A) A (sm (nrows A) sw).
Proof.
  exact (fun WA HW Hn => conj (spai0_w_dec Sft Seqb Ord Habs2 Hadj A WA HW Hn)
                              (spai0_w_sdec Sft Seqb Ord Habs2 Hadj A WA HW Hn)).
Qed.
Print Assumptions C02_spai0_energy.

(* the eigenvalue form of the contraction: if an iteration strictly decreases the energy, every
   eigenvalue lambda (in the field) of its error propagation e -> Phi(0, e) has lambda^2 < 1 *)
Theorem C02_error_operator_eigenvalues {S : Scalar} (Sft : Sfield S) (Ord : ordered S)
  n (A : crs S) (Phi : vec S -> vec S -> vec S) :
  wf A = true -> nrows A = n -> sym_mat n A -> it_sdec n A Phi ->
  forall (e : vec S) (lam : S), length e = n -> res n A (z n) e <> z n -> olt s0 (qA n A e e) ->
  (forall i, i < n -> vget (Phi (z n) e) i = lam * vget e i) -> olt (lam * lam) s1.
Proof. exact (sdec_eigen Sft Ord n A Phi). Qed.
Print Assumptions C02_error_operator_eigenvalues.

(* hierarchies: descs_ok kd ls = every level satisfies the condition of its smoother kind
   (Jacobi: wdd, first diagonal entry = dense diagonal, 0 < w <= 1; SPAI-0: wdd, no duplicate columns;
   Gauss-Seidel: one positive diagonal entry per row, A positive semi-definite), R = P^T *)
Theorem C02_built_hierarchy_energy_wdd {S : Scalar} (Sft : Sfield S) (Seqb : seqb_spec S) (Ord : ordered S)
  (Habs2 : forall v : S, sabs v * sabs v = v * v) (Hadj : forall v : S, sadj v = v) k (ls : list (@ldesc S)) :
  chain (@galerkin S) ls -> descs_ok k ls -> hier_dec (std_levels k ls).
Proof. exact (chain_hier_dec2 Sft Seqb Ord Habs2 Hadj k ls). Qed.
Print Assumptions C02_built_hierarchy_energy_wdd.

(* B1 closed, second form: (1) <A Bg,Bg> < 2 <g,Bg> and <Bg,g> > 0 for g <> 0; (2) one cycle strictly
   decreases the energy whenever the residual is non-zero; (3) eigenvalues of I - BA in (-1, 1) *)
Theorem C02_built_contracts_wdd {S : Scalar} (Sft : Sfield S) (Seqb : seqb_spec S) (Ord : ordered S)
  (Habs2 : forall v : S, sabs v * sabs v = v * v) (Hadj : forall v : S, sadj v = v) kd ce dc ml ts (M : crs S) k nc pc :
  let ls := amg_init ce dc ml (@galerkin S) ts M in
  descs_ok kd ls -> top_strict_desc kd ls -> top_smoothed ls ->
  let lvls := std_levels kd ls in
  (forall scr g x, scratch_wf lvls scr -> length g = nrows M -> length x = nrows M ->
   g <> vzero (nrows M) ->
   let B := fst (apply (Datatypes.S k) (Datatypes.S k) (Datatypes.S nc) (Datatypes.S pc) lvls scr g x) in
   lt0 (qA (nrows M) (sort_rows M) B B - two * ip (nrows M) g B) /\ olt s0 (ip (nrows M) g B)) /\
  it_sdec (nrows M) (sort_rows M) (Cyc (Datatypes.S k) (Datatypes.S nc) lvls) /\
  (forall (e : vec S) (lam : S), length e = nrows M ->
     res (nrows M) (sort_rows M) (z (nrows M)) e <> z (nrows M) ->
     olt s0 (qA (nrows M) (sort_rows M) e e) ->
     (forall i, i < nrows M ->
        vget (Cyc (Datatypes.S k) (Datatypes.S nc) lvls (z (nrows M)) e) i = lam * vget e i) ->
     olt (lam * lam) s1).
Proof. exact (built_contracts2 Sft Seqb Ord Habs2 Hadj kd ce dc ml ts M k nc pc). Qed.
Print Assumptions C02_built_contracts_wdd.

(* Gauss-Seidel multigrid on ANY symmetric positive definite matrix: hypotheses on the inputs only
   (M symmetric, <M x,x> > 0 for x <> 0, no duplicate columns; R = P^T, P injective) *)
Theorem C02_gs_contracts_spd {S : Scalar} (Sft : Sfield S) (Seqb : seqb_spec S) (Ord : ordered S)
  (Habs2 : forall v : S, sabs v * sabs v = v * v) (Hadj : forall v : S, sadj v = v) ce dc ml ts (M : crs S) k nc pc :
  wf M = true -> sym_mat (nrows M) M -> pd M -> rows_nodup M -> ts_spd (nrows M) ts ->
  let ls := amg_init ce dc ml (@galerkin S) ts M in
  top_smoothed ls ->
  let lvls := std_levels (@RGS S) ls in
  (forall scr g x, scratch_wf lvls scr -> length g = nrows M -> length x = nrows M ->
   g <> vzero (nrows M) ->
   let B := fst (apply (Datatypes.S k) (Datatypes.S k) (Datatypes.S nc) (Datatypes.S pc) lvls scr g x) in
   lt0 (qA (nrows M) (sort_rows M) B B - two * ip (nrows M) g B) /\ olt s0 (ip (nrows M) g B)) /\
  it_sdec (nrows M) (sort_rows M) (Cyc (Datatypes.S k) (Datatypes.S nc) lvls) /\
  (forall (e : vec S) (lam : S), length e = nrows M ->
     res (nrows M) (sort_rows M) (z (nrows M)) e <> z (nrows M) ->
     olt s0 (qA (nrows M) (sort_rows M) e e) ->
     (forall i, i < nrows M ->
        vget (Cyc (Datatypes.S k) (Datatypes.S nc) lvls (z (nrows M)) e) i = lam * vget e i) ->
     olt (lam * lam) s1).
Proof. exact (built_contracts_gs_spd Sft Seqb Ord Habs2 Hadj ce dc ml ts M k nc pc). Qed.
Print Assumptions C02_gs_contracts_spd.

(* closed at the exact rationals on the concrete 3-level hierarchy (1-D Poisson n = 4, two pairwise
   aggregations, direct solve on the 1 x 1 level), for amgcl's DEFAULT smoother parameters:
   damped Jacobi w = 0.72 = 18/25, SPAI-0, Gauss-Seidel; and undamped Jacobi (w = 1), strict through the
   irreducible dominance of the matrix.  Every V(k,k)/W(k,k) cycle, k >= 1, pre_cycles >= 1. *)
Definition exJacDefault : @relax_kind QcS := RJacobi (qc 18 25).
Definition exJacOne : @relax_kind QcS := RJacobi (qc 1 1).
Theorem C02_apply_contracts_default_Qc (kd : @relax_kind QcS) k nc pc :
  kd = exJacDefault \/ kd = exJacOne \/ kd = @RSpai0 QcS \/ kd = @RGS QcS ->
  let lvls := std_levels kd exH in
  forall scr (g x : vec QcS), scratch_wf lvls scr -> length g = 4 -> length x = 4 -> g <> vzero 4 ->
  let B := fst (apply (Datatypes.S k) (Datatypes.S k) (Datatypes.S nc) (Datatypes.S pc) lvls scr g x) in
  lt0 (qA 4 (sort_rows exM) B B - two * ip 4 g B) /\ olt s0 (ip 4 g B).
Proof.
  intros Hk lvls scr g x Hs Lg Lx Hg.
  assert (Hd : descs_ok kd exH).
  { apply (descs_okb_ok QcS_field QcS_eqb QcS_ordered QcS_abs2 QcS_sadj_id).
    destruct Hk as [->|[->|[->| ->]]]; vm_compute; reflexivity. }
  assert (Ht : top_strict_desc kd exH).
  { destruct Hk as [->|[->|[->| ->]]]; cbn.
    - left. vm_compute. reflexivity.
    - right. apply (iddb_ok QcS_eqb). vm_compute. reflexivity.
    - exact I.
    - exact I. }
  destruct (built_contracts2 QcS_field QcS_eqb QcS_ordered QcS_abs2 QcS_sadj_id kd 1 true 10 exTs exM k nc pc Hd Ht I)
    as (H & _).
  apply H; assumption.
Qed.
Print Assumptions C02_apply_contracts_default_Qc.

(* non-vacuity: exM is weakly and irreducibly dominant, positive definite in the sense of pd is implied;
   a matrix with POSITIVE off-diagonal entries (not an M-matrix) is covered as well *)
Example C02_example_wdd_hypotheses :
  wdd 4 (sort_rows exM) /\ idd 4 (sort_rows exM) /\ rows_nodup (sort_rows exM) /\
  (let Mp : crs QcS := mkCrs 3 [[(0, exq 3); (1, exq 1); (2, exq (-2))]; [(0, exq 1); (1, exq 2)];
                                 [(0, exq (-2)); (2, exq 5)]]%nat in
   wdd 3 Mp /\ idd 3 Mp /\ mmatb 3 Mp = false).
Proof.
  split; [apply (wddb_ok QcS_eqb); vm_compute; reflexivity|].
  split; [apply (iddb_ok QcS_eqb); vm_compute; reflexivity|].
  split; [apply rows_nodupb_ok; vm_compute; reflexivity|].
  split; [apply (wddb_ok QcS_eqb); vm_compute; reflexivity|].
  split; [apply (iddb_ok QcS_eqb); vm_compute; reflexivity|vm_compute; reflexivity].
Qed.

(* ================================================================== *)
(* B1, third part (AmgSmooth6.v): positive definiteness of the V-cycle for ANY coarse operator, in
   particular the re-scaled Galerkin operator of plain aggregation (over-interpolation, amgcl's default
   for coarsening::aggregation), where the energy argument does not apply.  ncycle = 1, pre_cycles = 1,
   npre = npost = k:   <B g, g> = - J_g(pre^k(g, 0)) + <B_c w, w>,   w = R (g - A pre^k(g, 0)).
   hier_pre_dec: every pre-smoother does not increase the energy of ITS OWN level matrix, coarse
   solver non-negative; no relation between the level matrices is assumed. *)
From Amgcl Require Import AmgSmooth6.

Theorem C02_vcycle_positive_definite {S : Scalar} (Sft : Sfield S) (Seqb : seqb_spec S) (Ord : ordered S)
  k (lvls : list (@level S)) :
  hier_sym lvls -> hier_symk lvls -> hier_pre_dec lvls ->
  (forall g, length g = top_n lvls -> ole s0 (ip (top_n lvls) (Bop k lvls g) g)) /\
  ((match lvls with
    | l :: _ => it_sdec (nrows (lA l)) (lA l) (itpow k (sm (nrows (lA l)) (lpre l))) /\
                (lsolve l = None \/ exists nxt rest, lvls = l :: nxt :: rest)
    | [] => False end) ->
   forall g, length g = top_n lvls -> g <> vzero (top_n lvls) ->
   olt s0 (ip (top_n lvls) (Bop k lvls g) g)).
Proof.
  exact (fun Hs Hk Hp => conj (Vcycle_psd Sft Seqb Ord k lvls Hs Hk Hp)
                              (Vcycle_pd Sft Seqb Ord k lvls Hs Hk Hp)).
Qed.
Print Assumptions C02_vcycle_positive_definite.

Theorem C02_built_vcycle_positive_definite {S : Scalar} (Sft : Sfield S) (Seqb : seqb_spec S) (Ord : ordered S)
  (Habs2 : forall v : S, sabs v * sabs v = v * v) (Hadj : forall v : S, sadj v = v) kd ce dc ml sc ts (M : crs S) k :
  let ls := amg_init ce dc ml (coarse_op_of sc) ts M in
  wf M = true -> sym_mat (nrows M) M -> ts_sym (nrows M) ts ->
  (forall A, In (LSolve A) ls -> solvable A = true) ->
  descs_ok kd ls -> top_strict_desc kd ls -> top_smoothed ls ->
  let lvls := std_levels kd ls in
  forall scr g x, scratch_wf lvls scr -> length g = nrows M -> length x = nrows M ->
  g <> vzero (nrows M) ->
  olt s0 (ip (nrows M) g (fst (apply (Datatypes.S k) (Datatypes.S k) 1 1 lvls scr g x))).
Proof. exact (built_Vcycle_pd Sft Seqb Ord Habs2 Hadj kd ce dc ml sc ts M k). Qed.
Print Assumptions C02_built_vcycle_positive_definite.

(* closed at Qc: the re-scaled Galerkin operator with s = 2/3 (over_interp = 1.5, amgcl's default for
   plain aggregation), default damped Jacobi 0.72, SPAI-0 or Gauss-Seidel, V(k,k), k >= 1 *)
Definition exHs := amg_init 1 true 10 (coarse_op_of (Some (qc 2 3))) exTs exM.
Theorem C02_vcycle_positive_definite_rescaled_Qc (kd : @relax_kind QcS) k :
  kd = exJacDefault \/ kd = @RSpai0 QcS \/ kd = @RGS QcS ->
  let lvls := std_levels kd exHs in
  forall scr (g x : vec QcS), scratch_wf lvls scr -> length g = 4 -> length x = 4 -> g <> vzero 4 ->
  olt s0 (ip 4 g (fst (apply (Datatypes.S k) (Datatypes.S k) 1 1 lvls scr g x))).
Proof.
  intros Hk lvls scr g x Hs Lg Lx Hg.
  apply (built_Vcycle_pd QcS_field QcS_eqb QcS_ordered QcS_abs2 QcS_sadj_id kd 1 true 10 (Some (qc 2 3)) exTs exM k);
    try assumption.
  - vm_compute. reflexivity.
  - apply (sym_matb_ok QcS_eqb). vm_compute. reflexivity.
  - apply (ts_symb_ok QcS_eqb). vm_compute. reflexivity.
  - intros A HA. apply (solve_check_ok (amg_init 1 true 10 (coarse_op_of (Some (qc 2 3))) exTs exM)); [|exact HA].
    vm_compute. reflexivity.
  - apply (descs_okb_ok QcS_field QcS_eqb QcS_ordered QcS_abs2 QcS_sadj_id).
    destruct Hk as [->|[->| ->]]; vm_compute; reflexivity.
  - destruct Hk as [->|[->| ->]]; cbn; [left; vm_compute; reflexivity|exact I|exact I].
  - exact I.
Qed.
Print Assumptions C02_vcycle_positive_definite_rescaled_Qc.

(* ================================================================== *)
(* B2, second part (AmgScale5.v, AmgScale6.v): the Chebyshev smoother in its default configuration
   (Gershgorin bound, no diagonal scaling; model Cheby.v) scales as well, for c > 0:
   the bound of c*A is c times the bound of A, alpha_k becomes alpha_k / c, beta_k is unchanged, and
   the sweep of (c*A, b) is the sweep of (A, b/c) for every degree and every content of the
   workspaces.  Hypotheses on the scalars: |v c| = |v| c and 1/0 = 0 (both hold for the exact
   rationals and for vq::Q; with 1/0 = 0 no side condition on the recurrence is needed). *)
From Amgcl Require Import Cheby AmgScale5 AmgScale6.

Theorem C02_chebyshev_scales {S : Scalar} (Sft : Sfield S) (Seqb : seqb_spec S) (Ord : ordered S)
  (c : S) (Hc : olt s0 c) (Habs : forall v : S, sabs (v * c) = sabs v * c) (Hinv0 : sinv (@s0 S) = s0)
  (A : crs S) (lower higher : S) (junk junk' : vec S) degree (b x p p' r r' : vec S) :
  wf A = true -> length b = nrows A -> length x = nrows A ->
  length p = nrows A -> length p' = nrows A -> length r = nrows A -> length r' = nrows A ->
  gershgorin false (mscale A c) = gershgorin false A * c /\
  cheby_sweep (cheby_setup false (mscale A c) (gershgorin false (mscale A c)) lower higher junk')
              degree (mscale A c) b x p' r' =
  cheby_sweep (cheby_setup false A (gershgorin false A) lower higher junk) degree A (vsc (sinv c) b) x p r.
Proof.
  exact (fun WA Lb Lx Lp Lp' Lr Lr' =>
    conj (gershgorin_mscale Sft Ord c Hc Habs A)
         (cheby_sweep_mscale Sft Seqb Ord c Hc Habs Hinv0 A lower higher junk junk' degree b x p p' r r'
            WA Lb Lx Lp Lp' Lr Lr')).
Qed.
Print Assumptions C02_chebyshev_scales.

Theorem C02_chebyshev_scales_Qc (c : T QcS) (Hc : olt s0 c)
  (A : crs QcS) (lower higher : T QcS) (junk junk' : vec QcS) degree (b x p p' r r' : vec QcS) :
  wf A = true -> length b = nrows A -> length x = nrows A ->
  length p = nrows A -> length p' = nrows A -> length r = nrows A -> length r' = nrows A ->
  cheby_sweep (cheby_setup false (mscale A c) (gershgorin false (mscale A c)) lower higher junk')
              degree (mscale A c) b x p' r' =
  cheby_sweep (cheby_setup false A (gershgorin false A) lower higher junk) degree A (vsc (sinv c) b) x p r.
Proof.
  exact (cheby_sweep_mscale QcS_field QcS_eqb QcS_ordered c Hc (QcS_abs_mul c Hc) QcS_inv0
           A lower higher junk junk' degree b x p p' r r').
Qed.
Print Assumptions C02_chebyshev_scales_Qc.

(* ================================================================== *)
(* BLOCK VALUE TYPES (the property quantifies over "block sizes"): value_type = static_matrix<T,b,b>.
   Model: the SAME Amg.cycle / Amg.apply / Amg.amg_init, which are polymorphic in the Scalar record, at the instance
   BlockInst.BlockS S0 b (products do NOT commute; vector entries static_matrix<T,b,1> are column-0 blocks), with the
   five smoothers the amg drivers instantiate (AmgBlockCycle.mk_relax5: damped_jacobi, spai0, gauss_seidel from
   Relax.v, ilu0 from Ilu.v, chebyshev from Cheby.v) and the block coarse solve as a specification
   (AmgBlockCycle.mk_solve_block: exact solve of the matrix expanded to scalars).  Proofs: AmgBlockCycleProofs.v
   (A1, no algebraic law), AmgBlockCycleLin.v (A2, non-commutative ring laws only; tactic ncr), AmgBlockCycleSym.v
   (A3 core, ring with an involutive anti-automorphism).
   Tie: tools/props/c02_block.py, harness/amgc_driver.hh, ocaml/amgc/ops_amgc.ml. *)
From Amgcl Require Import Ilu NcRing DirectUtil Inverse StaticMat BlockInst BlockKernels NcRingBlock
  AmgBlockCycle AmgBlockCycleProofs AmgBlockCycleLin AmgBlockCycleExample.

(* ---- A1 for block values: history independence ---- *)
(* static_matrix<T,b,b> recognises its zero as soon as operator== of T is reflexive (NaN-free T) *)
Theorem C02_block_zero_recognised (S0 : Scalar) (b : nat) :
  (forall x : S0, seqb x x = true) -> is_zero (@s0 (BlockS S0 b)) = true.
Proof. exact (block_zero_is_zero S0 b). Qed.
Print Assumptions C02_block_zero_recognised.

(* C02_apply_history_independent / C02_cycle_history_independent hold for ANY Scalar whose zero is recognised: here
   they are, instantiated at the block value type (any smoothers with sweep_ok, any coarse solver with solve_ok) *)
Theorem C02_apply_history_independent_blocks (S0 : Scalar) (b : nat) (R : forall x : S0, seqb x x = true)
  npre npost ncycle pre_cycles (lvls : list (@level (BlockS S0 b))) :
  hier_wf lvls -> lvls <> [] -> forall scr1 scr2 rhs x1 x2,
  scratch_wf lvls scr1 -> scratch_wf lvls scr2 ->
  length rhs = top_n lvls -> length x1 = top_n lvls -> length x2 = top_n lvls ->
  fst (apply npre npost ncycle pre_cycles lvls scr1 rhs x1) =
  fst (apply npre npost ncycle pre_cycles lvls scr2 rhs x2) /\
  length (fst (apply npre npost ncycle pre_cycles lvls scr1 rhs x1)) = top_n lvls /\
  scratch_wf lvls (snd (apply npre npost ncycle pre_cycles lvls scr1 rhs x1)).
Proof. exact (block_apply_history_indep_any S0 b R npre npost ncycle pre_cycles lvls). Qed.
Print Assumptions C02_apply_history_independent_blocks.

Theorem C02_cycle_history_independent_blocks (S0 : Scalar) (b : nat) (R : forall x : S0, seqb x x = true)
  npre npost ncycle (lvls : list (@level (BlockS S0 b))) :
  hier_wf lvls -> forall scr1 scr2 rhs x,
  scratch_wf lvls scr1 -> scratch_wf lvls scr2 ->
  length rhs = top_n lvls -> length x = top_n lvls ->
  fst (cycle npre npost ncycle lvls scr1 rhs x) = fst (cycle npre npost ncycle lvls scr2 rhs x) /\
  length (fst (cycle npre npost ncycle lvls scr1 rhs x)) = top_n lvls /\
  scratch_wf lvls (snd (cycle npre npost ncycle lvls scr1 rhs x)).
Proof. exact (block_cycle_history_indep_any S0 b R npre npost ncycle lvls). Qed.
Print Assumptions C02_cycle_history_independent_blocks.

(* the side conditions hold for all FIVE smoothers over every Scalar record (no algebraic law): lengths are kept and
   the x-output does not depend on the incoming content of the level's work vector t *)
Theorem C02_five_smoothers_ok {S : Scalar} (k : @relax5 S) (A : crs S) :
  sweep_ok (nrows A) (fst (mk_relax5 k A)) /\ sweep_ok (nrows A) (snd (mk_relax5 k A)).
Proof. exact (mk_relax5_ok k A). Qed.
Print Assumptions C02_five_smoothers_ok.

(* relaxation::chebyshev keeps its own work vectors p, r (mutable members): the model hands zero vectors in; every
   other content of the right length gives the same sweep *)
Theorem C02_chebyshev_workspace_free {S : Scalar} (Z : is_zero (@s0 S) = true) degree (lower higher : S) scale
  (A : crs S) (rhs x t p r : vec S) :
  length rhs = nrows A -> length x = nrows A -> length p = nrows A -> length r = nrows A ->
  fst (fst (cheby_sweeps degree lower higher scale A) rhs x t) =
  cheby_sweep (cheby_setup scale A (gershgorin scale A) lower higher (vzero (nrows A))) degree A rhs x p r.
Proof. exact (cheby_sweeps_workspace_free Z degree lower higher scale A rhs x t p r). Qed.
Print Assumptions C02_chebyshev_workspace_free.

Theorem C02_block_coarse_solve_ok (S0 : Scalar) (b : nat) (Hb : 0 < b) (A : crs (BlockS S0 b)) :
  solve_ok (nrows A) (mk_solve_block S0 b A).
Proof. exact (mk_solve_block_ok S0 b Hb A). Qed.
Print Assumptions C02_block_coarse_solve_ok.

Theorem C02_block_hierarchy_wf (S0 : Scalar) (b : nat) (Hb : 0 < b) (k : @relax5 (BlockS S0 b)) cop
  (ls : list (@ldesc (BlockS S0 b))) : coarse_shape cop -> chain cop ls ->
  hier_wf (block_levels S0 b k ls) /\ block_levels S0 b k ls <> [] /\
  scratch_wf (block_levels S0 b k ls) (map fresh_scratch ls).
Proof. exact (block_levels_wf S0 b Hb k cop ls). Qed.
Print Assumptions C02_block_hierarchy_wf.

(* every block-valued hierarchy that amg_init builds (any transfer operators, Galerkin or re-scaled Galerkin coarse
   operators, any of the five smoothers -- constructed successfully: descs_ready --, block coarse solve) acts as ONE
   fixed operator: neither the per-level vectors left by earlier applications nor the incoming x matter *)
Theorem C02_apply_history_independent_blocks_built (S0 : Scalar) (b : nat) (Hb : 0 < b)
  (R : forall x : S0, seqb x x = true) ce dc ml (sc : option (BlockS S0 b)) ts (M : crs (BlockS S0 b))
  (k : @relax5 (BlockS S0 b)) npre npost ncycle pre_cycles :
  descs_ready k (amg_init ce dc ml (coarse_op_of sc) ts M) = true ->
  let lvls := block_levels S0 b k (amg_init ce dc ml (coarse_op_of sc) ts M) in
  forall scr1 scr2 rhs x1 x2,
  scratch_wf lvls scr1 -> scratch_wf lvls scr2 ->
  length rhs = nrows M -> length x1 = nrows M -> length x2 = nrows M ->
  fst (apply npre npost ncycle pre_cycles lvls scr1 rhs x1) =
  fst (apply npre npost ncycle pre_cycles lvls scr2 rhs x2).
Proof. exact (block_apply_history_indep_ready S0 b Hb R ce dc ml sc ts M k npre npost ncycle pre_cycles). Qed.
Print Assumptions C02_apply_history_independent_blocks_built.

Theorem C02_apply_after_any_history_blocks (S0 : Scalar) (b : nat) (Hb : 0 < b)
  (R : forall x : S0, seqb x x = true) ce dc ml (sc : option (BlockS S0 b)) ts (M : crs (BlockS S0 b))
  (k : @relax5 (BlockS S0 b)) npre npost ncycle pre_cycles :
  descs_ready k (amg_init ce dc ml (coarse_op_of sc) ts M) = true ->
  let lvls := block_levels S0 b k (amg_init ce dc ml (coarse_op_of sc) ts M) in
  forall hist scr scr0 rhs x x0,
  Forall (fun fx => length (fst fx) = nrows M /\ length (snd fx) = nrows M) hist ->
  scratch_wf lvls scr -> scratch_wf lvls scr0 ->
  length rhs = nrows M -> length x = nrows M -> length x0 = nrows M ->
  fst (apply npre npost ncycle pre_cycles lvls
         (run_history npre npost ncycle pre_cycles lvls scr hist) rhs x) =
  fst (apply npre npost ncycle pre_cycles lvls scr0 rhs x0).
Proof. exact (block_apply_after_any_history_ready S0 b Hb R ce dc ml sc ts M k npre npost ncycle pre_cycles). Qed.
Print Assumptions C02_apply_after_any_history_blocks.

(* ---- A2 without commutativity: RIGHT-linearity ----
   Over a non-commutative ring of values "B (a f + b g) = a B f + b B g" is false for general a, b (B multiplies from
   the left).  Every product of amg.hpp and of the smoothers has the vector entry as its RIGHT operand, so the cycle is
   right-linear: cycle (f*a + g*b, x*a + y*b) = cycle (f, x)*a + cycle (g, y)*b, from associativity and the two
   distributive laws alone.  vrlin x a y b = entrywise x_i*a + y_i*b.  The class Coef of admissible coefficients is
   constrained only by the coarse solver (solve_rlin); hier_rlin = hier_wf + every sweep right-linear + coarse solve
   right-linear over Coef + A_l, R_l, P_l with column indices in range. *)
Theorem C02_cycle_right_linear {S : Scalar} (Hnc : ncring_theory S) (Seqb : seqb_spec S) (Coef : S -> Prop)
  npre npost ncycle (lvls : list (@level S)) :
  hier_rlin Coef lvls -> forall a b scr1 scr2 scr3 f g x y, Coef a -> Coef b ->
  scratch_wf lvls scr1 -> scratch_wf lvls scr2 -> scratch_wf lvls scr3 ->
  length f = top_n lvls -> length g = top_n lvls -> length x = top_n lvls -> length y = top_n lvls ->
  fst (cycle npre npost ncycle lvls scr3 (vrlin f a g b) (vrlin x a y b)) =
  vrlin (fst (cycle npre npost ncycle lvls scr1 f x)) a (fst (cycle npre npost ncycle lvls scr2 g y)) b.
Proof. exact (cycle_rlinear Hnc Seqb Coef npre npost ncycle lvls). Qed.
Print Assumptions C02_cycle_right_linear.

Theorem C02_apply_right_linear {S : Scalar} (Hnc : ncring_theory S) (Seqb : seqb_spec S) (Coef : S -> Prop)
  npre npost ncycle pre_cycles (lvls : list (@level S)) :
  hier_rlin Coef lvls -> lvls <> [] ->
  forall a b scr1 scr2 scr3 f g x1 x2 x3, Coef a -> Coef b ->
  scratch_wf lvls scr1 -> scratch_wf lvls scr2 -> scratch_wf lvls scr3 ->
  length f = top_n lvls -> length g = top_n lvls ->
  length x1 = top_n lvls -> length x2 = top_n lvls -> length x3 = top_n lvls ->
  fst (apply npre npost ncycle pre_cycles lvls scr3 (vrlin f a g b) x3) =
  vrlin (fst (apply npre npost ncycle pre_cycles lvls scr1 f x1)) a
        (fst (apply npre npost ncycle pre_cycles lvls scr2 g x2)) b.
Proof. exact (apply_rlinear Hnc Seqb Coef npre npost ncycle pre_cycles lvls). Qed.
Print Assumptions C02_apply_right_linear.

(* all five smoothers are right-linear in (rhs, x) over the WHOLE ring (any coefficient class) *)
Theorem C02_five_smoothers_right_linear {S : Scalar} (Hnc : ncring_theory S) (Seqb : seqb_spec S) (Coef : S -> Prop)
  (k : @relax5 S) (A : crs S) : wf A = true ->
  sweep_rlin Coef (nrows A) (fst (mk_relax5 k A)) /\ sweep_rlin Coef (nrows A) (snd (mk_relax5 k A)).
Proof. exact (mk_relax5_rlin Hnc Seqb Coef k A). Qed.
Print Assumptions C02_five_smoothers_right_linear.

(* the block coarse solve is linear over the embedded base scalars c*I, whenever it does not break down *)
Theorem C02_block_coarse_solve_linear (S0 : Scalar) (b : nat) (Srt : Sring S0) (Hb : 0 < b)
  (A : crs (BlockS S0 b)) : ncols A = nrows A -> solvable_block S0 b A = true ->
  solve_rlin (embedded S0 b) (nrows A) (mk_solve_block S0 b A).
Proof. exact (mk_solve_block_rlin S0 b Srt Hb A). Qed.
Print Assumptions C02_block_coarse_solve_linear.

Theorem C02_block_hierarchy_linear (S0 : Scalar) (b : nat) (Srt : Sring S0) (Seqb0 : seqb_spec S0) (Hb : 0 < b)
  (k : @relax5 (BlockS S0 b)) ce dc ml (sc : option (BlockS S0 b)) ts (M : crs (BlockS S0 b)) :
  wf M = true -> ts_wf (nrows M) ts ->
  (forall A, In (LSolve A) (amg_init ce dc ml (coarse_op_of sc) ts M) ->
             ncols A = nrows A /\ solvable_block S0 b A = true) ->
  hier_rlin (embedded S0 b) (block_levels S0 b k (amg_init ce dc ml (coarse_op_of sc) ts M)).
Proof. exact (block_levels_rlin S0 b Srt Seqb0 Hb k ce dc ml sc ts M). Qed.
Print Assumptions C02_block_hierarchy_linear.

(* the clause of the property for block values: B (alpha f + beta g) = alpha B f + beta B g for base scalars alpha,
   beta (embedded as alpha*I and multiplying from the LEFT, as the code's alpha * x[i] does; they are central, so
   left and right coincide); neither the scratch states nor the incoming x vectors matter *)
Theorem C02_apply_linear_blocks (S0 : Scalar) (b : nat) (Srt : Sring S0) (Seqb0 : seqb_spec S0) (Hb : 0 < b)
  (k : @relax5 (BlockS S0 b)) ce dc ml (sc : option (BlockS S0 b)) ts (M : crs (BlockS S0 b))
  npre npost ncycle pre_cycles :
  wf M = true -> ts_wf (nrows M) ts ->
  descs_ready k (amg_init ce dc ml (coarse_op_of sc) ts M) = true ->
  (forall A, In (LSolve A) (amg_init ce dc ml (coarse_op_of sc) ts M) ->
             ncols A = nrows A /\ solvable_block S0 b A = true) ->
  let lvls := block_levels S0 b k (amg_init ce dc ml (coarse_op_of sc) ts M) in
  forall (al be : S0) scr1 scr2 scr3 f g x1 x2 x3,
  scratch_wf lvls scr1 -> scratch_wf lvls scr2 -> scratch_wf lvls scr3 ->
  length f = nrows M -> length g = nrows M ->
  length x1 = nrows M -> length x2 = nrows M -> length x3 = nrows M ->
  fst (apply npre npost ncycle pre_cycles lvls scr3
         (vlin (S := BlockS S0 b) (blk_embed S0 b al) f (blk_embed S0 b be) g) x3) =
  vlin (S := BlockS S0 b) (blk_embed S0 b al) (fst (apply npre npost ncycle pre_cycles lvls scr1 f x1))
       (blk_embed S0 b be) (fst (apply npre npost ncycle pre_cycles lvls scr2 g x2)).
Proof. exact (block_apply_linear_ready S0 b Srt Seqb0 Hb k ce dc ml sc ts M npre npost ncycle pre_cycles). Qed.
Print Assumptions C02_apply_linear_blocks.

Theorem C02_cycle_linear_blocks (S0 : Scalar) (b : nat) (Srt : Sring S0) (Seqb0 : seqb_spec S0) (Hb : 0 < b)
  (k : @relax5 (BlockS S0 b)) ce dc ml (sc : option (BlockS S0 b)) ts (M : crs (BlockS S0 b)) npre npost ncycle :
  wf M = true -> ts_wf (nrows M) ts ->
  descs_ready k (amg_init ce dc ml (coarse_op_of sc) ts M) = true ->
  (forall A, In (LSolve A) (amg_init ce dc ml (coarse_op_of sc) ts M) ->
             ncols A = nrows A /\ solvable_block S0 b A = true) ->
  let lvls := block_levels S0 b k (amg_init ce dc ml (coarse_op_of sc) ts M) in
  forall (al be : S0) scr1 scr2 scr3 f g x y,
  scratch_wf lvls scr1 -> scratch_wf lvls scr2 -> scratch_wf lvls scr3 ->
  length f = nrows M -> length g = nrows M -> length x = nrows M -> length y = nrows M ->
  fst (cycle npre npost ncycle lvls scr3 (vlin (S := BlockS S0 b) (blk_embed S0 b al) f (blk_embed S0 b be) g)
                                         (vlin (S := BlockS S0 b) (blk_embed S0 b al) x (blk_embed S0 b be) y)) =
  vlin (S := BlockS S0 b) (blk_embed S0 b al) (fst (cycle npre npost ncycle lvls scr1 f x))
       (blk_embed S0 b be) (fst (cycle npre npost ncycle lvls scr2 g y)).
Proof. exact (block_cycle_linear_ready S0 b Srt Seqb0 Hb k ce dc ml sc ts M npre npost ncycle). Qed.
Print Assumptions C02_cycle_linear_blocks.

(* ---- closed at the exact rationals: static_matrix<Q,b,b>, the instance the tie runs ---- *)
Theorem C02_apply_history_independent_blocks_Qc (b : nat) (Hb : 0 < b)
  ce dc ml (sc : option (BlockS QcS b)) ts (M : crs (BlockS QcS b))
  (k : @relax5 (BlockS QcS b)) npre npost ncycle pre_cycles :
  descs_ready k (amg_init ce dc ml (coarse_op_of sc) ts M) = true ->
  let lvls := block_levels QcS b k (amg_init ce dc ml (coarse_op_of sc) ts M) in
  forall scr1 scr2 rhs x1 x2,
  scratch_wf lvls scr1 -> scratch_wf lvls scr2 ->
  length rhs = nrows M -> length x1 = nrows M -> length x2 = nrows M ->
  fst (apply npre npost ncycle pre_cycles lvls scr1 rhs x1) =
  fst (apply npre npost ncycle pre_cycles lvls scr2 rhs x2).
Proof.
  exact (block_apply_history_indep_ready QcS b Hb (seqb0_refl QcS QcS_eqb) ce dc ml sc ts M k npre npost ncycle pre_cycles).
Qed.
Print Assumptions C02_apply_history_independent_blocks_Qc.

Theorem C02_apply_linear_blocks_Qc (b : nat) (Hb : 0 < b)
  (k : @relax5 (BlockS QcS b)) ce dc ml (sc : option (BlockS QcS b)) ts (M : crs (BlockS QcS b))
  npre npost ncycle pre_cycles :
  wf M = true -> ts_wf (nrows M) ts ->
  descs_ready k (amg_init ce dc ml (coarse_op_of sc) ts M) = true ->
  (forall A, In (LSolve A) (amg_init ce dc ml (coarse_op_of sc) ts M) ->
             ncols A = nrows A /\ solvable_block QcS b A = true) ->
  let lvls := block_levels QcS b k (amg_init ce dc ml (coarse_op_of sc) ts M) in
  forall (al be : T QcS) scr1 scr2 scr3 f g x1 x2 x3,
  scratch_wf lvls scr1 -> scratch_wf lvls scr2 -> scratch_wf lvls scr3 ->
  length f = nrows M -> length g = nrows M ->
  length x1 = nrows M -> length x2 = nrows M -> length x3 = nrows M ->
  fst (apply npre npost ncycle pre_cycles lvls scr3
         (vlin (S := BlockS QcS b) (blk_embed QcS b al) f (blk_embed QcS b be) g) x3) =
  vlin (S := BlockS QcS b) (blk_embed QcS b al) (fst (apply npre npost ncycle pre_cycles lvls scr1 f x1))
       (blk_embed QcS b be) (fst (apply npre npost ncycle pre_cycles lvls scr2 g x2)).
Proof. exact (block_apply_linear_ready QcS b QcS_ring QcS_eqb Hb k ce dc ml sc ts M npre npost ncycle pre_cycles). Qed.
Print Assumptions C02_apply_linear_blocks_Qc.

(* ---- non-vacuity (AmgBlockCycleExample.v): a 3-node path with 2 x 2 blocks that do not commute, A_JI = A_IJ^T,
   aggregates {0,1}, {2}, re-scaled Galerkin operator (over_interp = 2), direct solver on the coarse level ---- *)
Example C02_example_blocks_do_not_commute :
  seqb (s := B2) (smul (s := B2) (bq (-1) (-2) 0 (-1)) (bq 5 (-1) (-1) 4))
                 (smul (s := B2) (bq 5 (-1) (-1) 4) (bq (-1) (-2) 0 (-1))) = false.
Proof. vm_compute. reflexivity. Qed.

Example C02_example_blocks_hypotheses :
  wf exBM = true /\ ts_wf (nrows exBM) exBTs /\ length exBH = 2 /\
  (forall A, In (LSolve A) exBH -> ncols A = nrows A /\ solvable_block QcS 2 A = true) /\
  descs_ready (R5Std (S := B2) RGS) exBH = true /\
  descs_ready (R5Ilu0 (S := B2) (blk_embed QcS 2 (qc 3 4))) exBH = true /\
  descs_ready (R5Cheby (S := B2) 2 (blk_embed QcS 2 (qc 1 8)) (blk_embed QcS 2 (qc 1 1)) true) exBH = true /\
  scratch_wf (block_levels QcS 2 (R5Std (S := B2) RGS) exBH) exBScr0 /\
  scratch_wf (block_levels QcS 2 (R5Std (S := B2) RGS) exBH) exBDirty.
Proof.
  split; [vm_compute; reflexivity|].
  split; [apply ts_wfb_ok; vm_compute; reflexivity|].
  split; [vm_compute; reflexivity|].
  split; [apply solve_check_block_ok; vm_compute; reflexivity|].
  split; [vm_compute; reflexivity|]. split; [vm_compute; reflexivity|]. split; [vm_compute; reflexivity|].
  split; [apply (fresh_scratch_wf (S := B2))|].
  vm_compute. auto 20.
Qed.

(* one V(1,1) application with symmetric Gauss-Seidel: the result does not depend on dirty scratch / dirty x (not even
   column shaped), and B (2 f - 3 g) = 2 B f - 3 B g, computed inside Coq *)
Example C02_example_blocks_concrete :
  let lv := block_levels QcS 2 (R5Std (S := B2) RGS) exBH in
  let Bop := fun s f y => fst (apply 1 1 1 1 lv s f y) in
  bvec_eqb (Bop exBScr0 exBF exBZ) (Bop exBDirty exBF exBJunk) = true /\
  bvec_eqb (Bop exBDirty (vlin (S := B2) (blk_embed QcS 2 (qc 2 1)) exBF (blk_embed QcS 2 (qc (-3) 1)) exBG) exBG)
           (vlin (S := B2) (blk_embed QcS 2 (qc 2 1)) (Bop exBScr0 exBF exBZ)
                 (blk_embed QcS 2 (qc (-3) 1)) (Bop exBScr0 exBG exBZ)) = true /\
  bvec_eqb (Bop exBScr0 exBF exBZ)
           [blk_col QcS 2 [qc 1637293 1171445; qc 9743576 33971905]; blk_col QcS 2 [qc 787566 357599; qc 3128243 1787995];
            blk_col QcS 2 [qc 119028 61655; qc 33772 12331]] = true.
Proof. vm_compute. auto. Qed.

(* ================================================================== *)
(* ---- A3 for block values (core): symmetry of the V(1,1)-cycle WITHOUT commutativity (AmgBlockCycleSym.v) ----
   Values in a non-commutative ring with an involutive anti-automorphism sadj (math::adjoint; for
   static_matrix<T,b,b> the (conjugate) transpose of the block).  Form: ipH n x y = sum_{i<n} sadj x_i * y_i, a ring
   element -- for column-0 blocks its (0,0) cell is the inner product of the expanded vectors
   (C02_block_form_is_expanded_inner_product).  hier_herm: A_l hermitian (A_JI = A_IJ^T), R_l = adjoint P_l,
   self-adjoint coarse solve, post-smoother consistent and adjoint to the pre-smoother.  No product is commuted. *)
From Amgcl Require Import BlockMatOpsProofs AmgBlockCycleSym.

Theorem C02_cycle_hermitian_nc {S : Scalar} (Hnc : ncring_theory S) (Seqb : seqb_spec S)
  (adj_add : forall a b : S, sadj (a + b) = sadj a + sadj b)
  (adj_mul : forall a b : S, sadj (a * b) = sadj b * sadj a)
  (adj_inv : forall a : S, sadj (sadj a) = a) (lvls : list (@level S)) :
  hier_herm lvls -> forall scr1 scr2 f g,
  scratch_wf lvls scr1 -> scratch_wf lvls scr2 ->
  length f = top_n lvls -> length g = top_n lvls ->
  ipH (top_n lvls) (fst (cycle 1 1 1 lvls scr1 f (vzero (top_n lvls)))) g =
  ipH (top_n lvls) f (fst (cycle 1 1 1 lvls scr2 g (vzero (top_n lvls)))).
Proof. exact (cycle_herm Hnc Seqb adj_add adj_mul adj_inv lvls). Qed.
Print Assumptions C02_cycle_hermitian_nc.

Theorem C02_apply_hermitian_nc {S : Scalar} (Hnc : ncring_theory S) (Seqb : seqb_spec S)
  (adj_add : forall a b : S, sadj (a + b) = sadj a + sadj b)
  (adj_mul : forall a b : S, sadj (a * b) = sadj b * sadj a)
  (adj_inv : forall a : S, sadj (sadj a) = a) (lvls : list (@level S)) :
  hier_herm lvls -> lvls <> [] -> forall scr1 scr2 f g x1 x2,
  scratch_wf lvls scr1 -> scratch_wf lvls scr2 ->
  length f = top_n lvls -> length g = top_n lvls ->
  length x1 = top_n lvls -> length x2 = top_n lvls ->
  ipH (top_n lvls) (fst (apply 1 1 1 1 lvls scr1 f x1)) g =
  ipH (top_n lvls) f (fst (apply 1 1 1 1 lvls scr2 g x2)).
Proof. exact (apply_herm Hnc Seqb adj_add adj_mul adj_inv lvls). Qed.
Print Assumptions C02_apply_hermitian_nc.

(* damped Jacobi and SPAI-0 over non-commuting values: consistent, and self-adjoint when the scaled inverted diagonal
   entries w * d_i are hermitian (diag_good) *)
Theorem C02_jacobi_spai0_hermitian_smoothers {S : Scalar} (Hnc : ncring_theory S) (Seqb : seqb_spec S)
  (adj_mul : forall a b : S, sadj (a * b) = sadj b * sadj a)
  (k : @relax5 S) (A : crs S) : wf A = true -> diag_good k A ->
  sweep_consH (nrows A) A (snd (mk_relax5 k A)) /\
  sweep_adjH (nrows A) (fst (mk_relax5 k A)) (snd (mk_relax5 k A)).
Proof. exact (mk_relax5_diag_herm Hnc Seqb adj_mul k A). Qed.
Print Assumptions C02_jacobi_spai0_hermitian_smoothers.

(* for damped Jacobi the side condition follows from the diagonal blocks alone: hermitian and (unless zero) invertible
   on both sides; damping central and hermitian (an embedded real base scalar) *)
Theorem C02_jacobi_diagonal_condition {S : Scalar} (Hnc : ncring_theory S)
  (adj_add : forall a b : S, sadj (a + b) = sadj a + sadj b)
  (adj_mul : forall a b : S, sadj (a * b) = sadj b * sadj a)
  (adj_inv : forall a : S, sadj (sadj a) = a) (w : S) (A : crs S) :
  sadj w = w -> (forall x : S, w * x = x * w) ->
  (forall i dd, i < nrows A -> first_col (nth i (rows A) []) i = Some dd ->
     sadj dd = dd /\ (is_zero dd = false -> dd * sinv dd = s1 /\ sinv dd * dd = s1)) ->
  diag_good (R5Std (RJacobi w)) A.
Proof. exact (jacobi_diag_good Hnc adj_add adj_mul adj_inv w A). Qed.
Print Assumptions C02_jacobi_diagonal_condition.

(* the Galerkin operator of a hermitian matrix with R = adjoint P is hermitian (block products in code order) *)
Theorem C02_galerkin_hermitian {S : Scalar} (Hnc : ncring_theory S)
  (adj_add : forall a b : S, sadj (a + b) = sadj a + sadj b)
  (adj_mul : forall a b : S, sadj (a * b) = sadj b * sadj a)
  (adj_inv : forall a : S, sadj (sadj a) = a) (A P R : crs S) n n' :
  wf A = true -> wf R = true -> herm_mat n A -> transpH n n' R P ->
  forall i j, i < n' -> j < n' -> mget (galerkin A P R) j i = sadj (mget (galerkin A P R) i j).
Proof. exact (galerkin_herm Hnc adj_add adj_mul adj_inv A P R n n'). Qed.
Print Assumptions C02_galerkin_hermitian.

Theorem C02_block_form_is_expanded_inner_product (S0 : Scalar) (b : nat) (x y : vec (BlockS S0 b)) n r s :
  r < b -> s < b ->
  blk_get (ipH (S := BlockS S0 b) n x y) r s =
  sumn (fun i => sumn (fun k => sadj (blk_get (vget (S := BlockS S0 b) x i) k r) *
                                blk_get (vget (S := BlockS S0 b) y i) k s) b) n.
Proof. exact (ipH_block_cell S0 b x y n r s). Qed.
Print Assumptions C02_block_form_is_expanded_inner_product.

(* every block-valued hierarchy amg_init builds from a hermitian block matrix (A_JI = A_IJ^T), R_l = adjoint P_l,
   Galerkin or re-scaled Galerkin (central hermitian factor) coarse operators, damped Jacobi or SPAI-0 with diag_good
   on every level: the V(1,1) preconditioner is symmetric, <B f, g> = <f, B g>; with a direct coarse solver its
   self-adjointness is the remaining hypothesis, with the smoother on the coarsest level none is left *)
Theorem C02_apply_symmetric_blocks (S0 : Scalar) (b : nat) (Srt : Sring S0) (Seqb0 : seqb_spec S0) (Hb : 0 < b)
  (sadj_add0 : forall x y : S0, sadj (x + y) = sadj x + sadj y)
  (sadj_mul0 : forall x y : S0, sadj (x * y) = sadj x * sadj y)
  (sadj_invol0 : forall x : S0, sadj (sadj x) = x)
  (k : @relax5 (BlockS S0 b)) ce dc ml (sc : option (BlockS S0 b)) ts (M : crs (BlockS S0 b)) :
  scale_herm sc -> wf M = true -> herm_mat (nrows M) M -> ts_herm (nrows M) ts ->
  (forall A, In (LSolve A) (amg_init ce dc ml (coarse_op_of sc) ts M) ->
             solve_symH (nrows A) (mk_solve_block S0 b A)) ->
  (forall l, In l (amg_init ce dc ml (coarse_op_of sc) ts M) -> diag_good k (ld_A l)) ->
  let lvls := block_levels S0 b k (amg_init ce dc ml (coarse_op_of sc) ts M) in
  forall scr1 scr2 f g x1 x2,
  scratch_wf lvls scr1 -> scratch_wf lvls scr2 ->
  length f = nrows M -> length g = nrows M -> length x1 = nrows M -> length x2 = nrows M ->
  ipH (S := BlockS S0 b) (nrows M) (fst (apply 1 1 1 1 lvls scr1 f x1)) g =
  ipH (S := BlockS S0 b) (nrows M) f (fst (apply 1 1 1 1 lvls scr2 g x2)).
Proof. exact (block_apply_herm S0 b Srt Seqb0 Hb sadj_add0 sadj_mul0 sadj_invol0 k ce dc ml sc ts M). Qed.
Print Assumptions C02_apply_symmetric_blocks.

Theorem C02_apply_symmetric_blocks_smoother_coarse (S0 : Scalar) (b : nat) (Srt : Sring S0) (Seqb0 : seqb_spec S0)
  (Hb : 0 < b)
  (sadj_add0 : forall x y : S0, sadj (x + y) = sadj x + sadj y)
  (sadj_mul0 : forall x y : S0, sadj (x * y) = sadj x * sadj y)
  (sadj_invol0 : forall x : S0, sadj (sadj x) = x)
  (k : @relax5 (BlockS S0 b)) ce ml (sc : option (BlockS S0 b)) ts (M : crs (BlockS S0 b)) :
  scale_herm sc -> wf M = true -> herm_mat (nrows M) M -> ts_herm (nrows M) ts ->
  (forall l, In l (amg_init ce false ml (coarse_op_of sc) ts M) -> diag_good k (ld_A l)) ->
  let lvls := block_levels S0 b k (amg_init ce false ml (coarse_op_of sc) ts M) in
  forall scr1 scr2 f g x1 x2,
  scratch_wf lvls scr1 -> scratch_wf lvls scr2 ->
  length f = nrows M -> length g = nrows M -> length x1 = nrows M -> length x2 = nrows M ->
  ipH (S := BlockS S0 b) (nrows M) (fst (apply 1 1 1 1 lvls scr1 f x1)) g =
  ipH (S := BlockS S0 b) (nrows M) f (fst (apply 1 1 1 1 lvls scr2 g x2)).
Proof.
  exact (block_apply_herm_smoother_coarse S0 b Srt Seqb0 Hb sadj_add0 sadj_mul0 sadj_invol0 k ce ml sc ts M).
Qed.
Print Assumptions C02_apply_symmetric_blocks_smoother_coarse.

(* closed at static_matrix<Q,b,b> (trivial conjugation on Q) *)
Theorem C02_apply_symmetric_blocks_smoother_coarse_Qc (b : nat) (Hb : 0 < b)
  (k : @relax5 (BlockS QcS b)) ce ml (sc : option (BlockS QcS b)) ts (M : crs (BlockS QcS b)) :
  scale_herm sc -> wf M = true -> herm_mat (nrows M) M -> ts_herm (nrows M) ts ->
  (forall l, In l (amg_init ce false ml (coarse_op_of sc) ts M) -> diag_good k (ld_A l)) ->
  let lvls := block_levels QcS b k (amg_init ce false ml (coarse_op_of sc) ts M) in
  forall scr1 scr2 f g x1 x2,
  scratch_wf lvls scr1 -> scratch_wf lvls scr2 ->
  length f = nrows M -> length g = nrows M -> length x1 = nrows M -> length x2 = nrows M ->
  ipH (S := BlockS QcS b) (nrows M) (fst (apply 1 1 1 1 lvls scr1 f x1)) g =
  ipH (S := BlockS QcS b) (nrows M) f (fst (apply 1 1 1 1 lvls scr2 g x2)).
Proof.
  exact (block_apply_herm_smoother_coarse QcS b QcS_ring QcS_eqb Hb (fun _ _ => eq_refl) (fun _ _ => eq_refl)
           (fun _ => eq_refl) k ce ml sc ts M).
Qed.
Print Assumptions C02_apply_symmetric_blocks_smoother_coarse_Qc.

(* non-vacuity: the hypotheses hold on the concrete hierarchy of AmgBlockCycleExample.v (non-commuting 2 x 2 blocks,
   damped Jacobi 3/4, over_interp = 2, smoother on the coarse level), and the identity evaluated inside Coq *)
Example C02_example_blocks_symmetric_hypotheses :
  scale_herm (S := B2) (Some exBhalf) /\ wf exBM = true /\ herm_mat (S := B2) (nrows exBM) exBM /\
  ts_herm (S := B2) (nrows exBM) exBTs /\
  (forall l, In l exBH' -> diag_good exBJac (ld_A l)) /\ length exBH' = 2 /\
  seqb (s := B2)
    (ipH (S := B2) 3 (fst (apply 1 1 1 1 (block_levels QcS 2 exBJac exBH') (map (@fresh_scratch B2) exBH') exBF exBZ)) exBG)
    (ipH (S := B2) 3 exBF (fst (apply 1 1 1 1 (block_levels QcS 2 exBJac exBH') (map (@fresh_scratch B2) exBH') exBG exBZ)))
    = true.
Proof.
  split; [apply (scale_herm_embed QcS 2 QcS_ring); reflexivity|].
  split; [vm_compute; reflexivity|].
  split; [apply (herm_matb_ok (BlockS_eqb QcS 2 QcS_eqb)); vm_compute; reflexivity|].
  split; [apply (ts_hermb_ok (BlockS_eqb QcS 2 QcS_eqb)); vm_compute; reflexivity|].
  split; [apply (levels_goodb_ok (BlockS_eqb QcS 2 QcS_eqb)); vm_compute; reflexivity|].
  split; vm_compute; reflexivity.
Qed.

(* FULL STATEMENT (unproved part): symmetry for block values beyond the core above.
   For S0 a commutative ring with trivial conjugation, b > 0, M : crs (BlockS S0 b) hermitian (A_JI = A_IJ^T),
   transfer operators with R_l = adjoint P_l, every LSolve matrix square and solvable, k ANY of damped_jacobi, spai0,
   gauss_seidel (forward pre / backward post), ilu0 (constructed), chebyshev, every diagonal block that a smoother inverts
   hermitian and invertible on both sides, npre = npost = n >= 1, ncycle nc >= 1, pre_cycles pc >= 1:
     ipH (nrows M) (fst (apply n n nc pc lvls scr1 f x1)) g = ipH (nrows M) f (fst (apply n n nc pc lvls scr2 g x2))
   with lvls = block_levels S0 b k (amg_init ce dc ml (coarse_op_of sc) ts M), scale_herm sc.
   PROVED above: n = nc = pc = 1, k in {damped_jacobi, spai0} (C02_apply_symmetric_blocks and its two variants), with the self-adjointness
   of the block coarse solve as a hypothesis when direct_coarse = true.
   NOT proved: (a) forward/backward Gauss-Seidel, ILU(0), Chebyshev as adjoint pairs over non-commuting values
   (commutative versions: AmgProofs8.v, hypotheses for ILU/Chebyshev); (b) n > 1, W-cycles, pre_cycles > 1 (commutative
   version: AmgProofs7.v, needs consistency of the pre-smoother as well); (c) solve_symH for mk_solve_block (commutative
   version: AmgProofs9.v on the expanded matrix).  On the implementation the full statement is CHECKED exactly
   (tools/props/c02_block.py, oracle:block-symmetry: the dense B assembled from unit vectors equals its transpose) for
   all five smoothers and all cycle parameters with npre = npost. *)

(* ================================================================== *)
(* A3 for block values, second part (UPDATE of the FULL STATEMENT comment above: its items (a) for Gauss-Seidel and (b)
   are proved here).  AmgBlockCycleSym2.v: the method of consistent / dual stationary iterations over a non-commutative
   ring with an involutive anti-automorphism (form ipH; nothing is commuted): compositions of adjoint pairs, k pre- and
   k post-sweeps, the coarse-grid correction, ncycle repetitions of the level body (W-cycles), pre_cycles repetitions of
   the cycle.  AmgBlockCycleSym2Gs.v: forward / backward Gauss-Seidel are consistent and mutually adjoint for a hermitian
   block matrix whose stored diagonal blocks are the dense diagonal and invertible on both sides (inverse on the LEFT, as
   gauss_seidel.hpp computes it).  AmgBlockCycleSym2Built.v: hierarchies built by amg_init. *)
From Amgcl Require Import AmgBlockCycleSym2 AmgBlockCycleSym2Gs AmgBlockCycleSym2Built.

(* forward (apply_pre) and backward (apply_post) Gauss-Seidel over non-commuting values: both consistent
   (x' = x + N (f - A x)) and adjoint to each other, <N_fwd f, g> = <f, N_bwd g> *)
Theorem C02_gs_forward_backward_adjoint_blocks {S : Scalar} (Hnc : ncring_theory S)
  (adj_add : forall a b : S, sadj (a + b) = sadj a + sadj b)
  (adj_mul : forall a b : S, sadj (a * b) = sadj b * sadj a)
  (adj_inv : forall a : S, sadj (sadj a) = a) (A : crs S) :
  wf A = true -> herm_mat (nrows A) A -> gs_diag_okH A ->
  sweep_consH (nrows A) A (fst (mk_relax_std RGS A)) /\
  sweep_consH (nrows A) A (snd (mk_relax_std RGS A)) /\
  sweep_adjH (nrows A) (fst (mk_relax_std RGS A)) (snd (mk_relax_std RGS A)).
Proof. exact (gs_herm_ok Hnc adj_add adj_mul adj_inv A). Qed.
Print Assumptions C02_gs_forward_backward_adjoint_blocks.

(* any hierarchy (not only those of amg_init): hermitian level matrices, R_l = adjoint P_l, self-adjoint coarse solve,
   consistent pre- and post-smoothers that are adjoint to each other: apply with npre = npost = k, ncycle = nc,
   pre_cycles = pc + 1 is hermitian (pre_cycles > 1 unless the hierarchy is one level with the direct solver) *)
Theorem C02_apply_symmetric_nc_full {S : Scalar} (Hnc : ncring_theory S) (Seqb : seqb_spec S)
  (adj_add : forall a b : S, sadj (a + b) = sadj a + sadj b)
  (adj_mul : forall a b : S, sadj (a * b) = sadj b * sadj a)
  (adj_inv : forall a : S, sadj (sadj a) = a) k nc pc (lvls : list (@level S)) :
  hier_herm lvls -> hier_hermk lvls -> lvls <> [] -> (pc = 0 \/ nosolve_top lvls) ->
  forall scr1 scr2 f g x1 x2,
  scratch_wf lvls scr1 -> scratch_wf lvls scr2 ->
  length f = top_n lvls -> length g = top_n lvls -> length x1 = top_n lvls -> length x2 = top_n lvls ->
  ipH (top_n lvls) (fst (apply k k nc (Datatypes.S pc) lvls scr1 f x1)) g =
  ipH (top_n lvls) f (fst (apply k k nc (Datatypes.S pc) lvls scr2 g x2)).
Proof. exact (apply_herm_full Hnc Seqb adj_add adj_mul adj_inv k nc pc lvls). Qed.
Print Assumptions C02_apply_symmetric_nc_full.

(* block-valued hierarchies built by amg_init, ANY of the five smoothers with the side condition good5 on every level:
   damped Jacobi / SPAI-0: diag_good; Gauss-Seidel: gs_diag_okH; ILU(0) / Chebyshev: consistency and self-adjointness of
   the sweep on the level matrix (hypothesis, see below) *)
Theorem C02_apply_symmetric_blocks_full (S0 : Scalar) (b : nat) (Srt : Sring S0) (Seqb0 : seqb_spec S0) (Hb : 0 < b)
  (sadj_add0 : forall x y : S0, sadj (x + y) = sadj x + sadj y)
  (sadj_mul0 : forall x y : S0, sadj (x * y) = sadj x * sadj y)
  (sadj_invol0 : forall x : S0, sadj (sadj x) = x)
  (k5 : @relax5 (BlockS S0 b)) ce dc ml (sc : option (BlockS S0 b)) ts (M : crs (BlockS S0 b)) k nc pc :
  scale_herm sc -> wf M = true -> herm_mat (nrows M) M -> ts_herm (nrows M) ts ->
  (forall A, In (LSolve A) (amg_init ce dc ml (coarse_op_of sc) ts M) ->
             solve_symH (nrows A) (mk_solve_block S0 b A)) ->
  (forall l, In l (amg_init ce dc ml (coarse_op_of sc) ts M) -> good5 k5 (ld_A l)) ->
  let lvls := block_levels S0 b k5 (amg_init ce dc ml (coarse_op_of sc) ts M) in
  (pc = 0 \/ nosolve_top lvls) ->
  forall scr1 scr2 f g x1 x2,
  scratch_wf lvls scr1 -> scratch_wf lvls scr2 ->
  length f = nrows M -> length g = nrows M -> length x1 = nrows M -> length x2 = nrows M ->
  ipH (S := BlockS S0 b) (nrows M) (fst (apply k k nc (Datatypes.S pc) lvls scr1 f x1)) g =
  ipH (S := BlockS S0 b) (nrows M) f (fst (apply k k nc (Datatypes.S pc) lvls scr2 g x2)).
Proof.
  exact (block_apply_herm_full S0 b Srt Seqb0 Hb sadj_add0 sadj_mul0 sadj_invol0 k5 ce dc ml sc ts M k nc pc).
Qed.
Print Assumptions C02_apply_symmetric_blocks_full.

(* Gauss-Seidel (forward pre, backward post), smoother on the coarsest level: no hypothesis on a coarse solver is left *)
Theorem C02_apply_symmetric_blocks_gs (S0 : Scalar) (b : nat) (Srt : Sring S0) (Seqb0 : seqb_spec S0) (Hb : 0 < b)
  (sadj_add0 : forall x y : S0, sadj (x + y) = sadj x + sadj y)
  (sadj_mul0 : forall x y : S0, sadj (x * y) = sadj x * sadj y)
  (sadj_invol0 : forall x : S0, sadj (sadj x) = x)
  ce ml (sc : option (BlockS S0 b)) ts (M : crs (BlockS S0 b)) k nc pc :
  scale_herm sc -> wf M = true -> herm_mat (nrows M) M -> ts_herm (nrows M) ts ->
  (forall l, In l (amg_init ce false ml (coarse_op_of sc) ts M) -> gs_diag_okH (ld_A l)) ->
  let lvls := block_levels S0 b (R5Std RGS) (amg_init ce false ml (coarse_op_of sc) ts M) in
  forall scr1 scr2 f g x1 x2,
  scratch_wf lvls scr1 -> scratch_wf lvls scr2 ->
  length f = nrows M -> length g = nrows M -> length x1 = nrows M -> length x2 = nrows M ->
  ipH (S := BlockS S0 b) (nrows M) (fst (apply k k nc (Datatypes.S pc) lvls scr1 f x1)) g =
  ipH (S := BlockS S0 b) (nrows M) f (fst (apply k k nc (Datatypes.S pc) lvls scr2 g x2)).
Proof.
  exact (block_apply_herm_full_smoother_coarse S0 b Srt Seqb0 Hb sadj_add0 sadj_mul0 sadj_invol0 (R5Std RGS)
           ce ml sc ts M k nc pc).
Qed.
Print Assumptions C02_apply_symmetric_blocks_gs.

(* closed at static_matrix<Q,b,b> (trivial conjugation on Q): any smoother kind, smoother on the coarsest level *)
Theorem C02_apply_symmetric_blocks_full_Qc (b : nat) (Hb : 0 < b)
  (k5 : @relax5 (BlockS QcS b)) ce ml (sc : option (BlockS QcS b)) ts (M : crs (BlockS QcS b)) k nc pc :
  scale_herm sc -> wf M = true -> herm_mat (nrows M) M -> ts_herm (nrows M) ts ->
  (forall l, In l (amg_init ce false ml (coarse_op_of sc) ts M) -> good5 k5 (ld_A l)) ->
  let lvls := block_levels QcS b k5 (amg_init ce false ml (coarse_op_of sc) ts M) in
  forall scr1 scr2 f g x1 x2,
  scratch_wf lvls scr1 -> scratch_wf lvls scr2 ->
  length f = nrows M -> length g = nrows M -> length x1 = nrows M -> length x2 = nrows M ->
  ipH (S := BlockS QcS b) (nrows M) (fst (apply k k nc (Datatypes.S pc) lvls scr1 f x1)) g =
  ipH (S := BlockS QcS b) (nrows M) f (fst (apply k k nc (Datatypes.S pc) lvls scr2 g x2)).
Proof.
  exact (block_apply_herm_full_smoother_coarse QcS b QcS_ring QcS_eqb Hb (fun _ _ => eq_refl) (fun _ _ => eq_refl)
           (fun _ => eq_refl) k5 ce ml sc ts M k nc pc).
Qed.
Print Assumptions C02_apply_symmetric_blocks_full_Qc.

Theorem C02_apply_symmetric_blocks_gs_Qc (b : nat) (Hb : 0 < b)
  ce ml (sc : option (BlockS QcS b)) ts (M : crs (BlockS QcS b)) k nc pc :
  scale_herm sc -> wf M = true -> herm_mat (nrows M) M -> ts_herm (nrows M) ts ->
  (forall l, In l (amg_init ce false ml (coarse_op_of sc) ts M) -> gs_diag_okH (ld_A l)) ->
  let lvls := block_levels QcS b (R5Std RGS) (amg_init ce false ml (coarse_op_of sc) ts M) in
  forall scr1 scr2 f g x1 x2,
  scratch_wf lvls scr1 -> scratch_wf lvls scr2 ->
  length f = nrows M -> length g = nrows M -> length x1 = nrows M -> length x2 = nrows M ->
  ipH (S := BlockS QcS b) (nrows M) (fst (apply k k nc (Datatypes.S pc) lvls scr1 f x1)) g =
  ipH (S := BlockS QcS b) (nrows M) f (fst (apply k k nc (Datatypes.S pc) lvls scr2 g x2)).
Proof.
  exact (block_apply_herm_full_smoother_coarse QcS b QcS_ring QcS_eqb Hb (fun _ _ => eq_refl) (fun _ _ => eq_refl)
           (fun _ => eq_refl) (R5Std RGS) ce ml sc ts M k nc pc).
Qed.
Print Assumptions C02_apply_symmetric_blocks_gs_Qc.

(* non-vacuity: the hypotheses of the Gauss-Seidel statement hold on the concrete hierarchy of AmgBlockCycleExample.v
   (non-commuting 2 x 2 blocks, over_interp = 2, smoother on the coarse level), and the identity for a W(2,2)-cycle
   applied twice (npre = npost = 2, ncycle = 2, pre_cycles = 2), evaluated inside Coq *)
Example C02_example_blocks_gs_symmetric_hypotheses :
  scale_herm (S := B2) (Some exBhalf) /\ wf exBM = true /\ herm_mat (S := B2) (nrows exBM) exBM /\
  ts_herm (S := B2) (nrows exBM) exBTs /\
  (forall l, In l exBH' -> good5 (R5Std (S := B2) (RGS (S := B2))) (ld_A l)) /\ length exBH' = 2 /\
  seqb (s := B2)
    (ipH (S := B2) 3 (fst (apply 2 2 2 2 (block_levels QcS 2 (R5Std (S := B2) (RGS (S := B2))) exBH')
                             (map (@fresh_scratch B2) exBH') exBF exBZ)) exBG)
    (ipH (S := B2) 3 exBF (fst (apply 2 2 2 2 (block_levels QcS 2 (R5Std (S := B2) (RGS (S := B2))) exBH')
                                  (map (@fresh_scratch B2) exBH') exBG exBZ)))
    = true.
Proof.
  split; [apply (scale_herm_embed QcS 2 QcS_ring); reflexivity|].
  split; [vm_compute; reflexivity|].
  split; [apply (herm_matb_ok (BlockS_eqb QcS 2 QcS_eqb)); vm_compute; reflexivity|].
  split; [apply (ts_hermb_ok (BlockS_eqb QcS 2 QcS_eqb)); vm_compute; reflexivity|].
  split; [apply (levels_gs_okb_ok (BlockS_eqb QcS 2 QcS_eqb)); vm_compute; reflexivity|].
  split; vm_compute; reflexivity.
Qed.

From Amgcl Require Import AmgBlockCycleSym2Ilu.
(* ILU(0) over non-commuting values: the sweep  tmp = rhs - A x; solve(tmp); x = w * tmp + x  is consistent whatever the
   factors are, and apply_pre = apply_post is self-adjoint as soon as the triangular solve operator N = ilu_solve L U D is
   hermitian with respect to ipH and the damping is central and hermitian: the hypothesis good5 (R5Ilu0 w) A of
   C02_apply_symmetric_blocks_full is reduced to that ONE statement about the factors (AmgBlockCycleSym2Ilu.v) *)
Theorem C02_ilu0_symmetry_condition_blocks {S : Scalar} (Hnc : ncring_theory S) (Seqb : seqb_spec S)
  (adj_mul : forall a b : S, sadj (a * b) = sadj b * sadj a) (w : S) (A L U : crs S) (D : vec S) :
  wf A = true -> ilu0 A (vzero (nrows A)) = Ok (L, U, D) ->
  sadj w = w -> (forall c : S, w * c = c * w) ->
  (forall f g, length f = nrows A -> length g = nrows A ->
     ipH (nrows A) (ilu_solve L U D f) g = ipH (nrows A) f (ilu_solve L U D g)) ->
  good5 (R5Ilu0 w) A.
Proof. exact (ilu0_good5 Hnc Seqb adj_mul w A L U D). Qed.
Print Assumptions C02_ilu0_symmetry_condition_blocks.

(* FULL STATEMENT (unproved part), as it stands now.  Same statement as in the comment above.
   PROVED: every k = npre = npost >= 0, every ncycle, every pre_cycles >= 1 (pre_cycles > 1 needs a hierarchy that is
   not a single direct-solver level), smoothers damped_jacobi, spai0 (diag_good) and gauss_seidel (gs_diag_okH:
   stored diagonal block = dense diagonal block, invertible on both sides), for hierarchies of amg_init
   (C02_apply_symmetric_blocks_full / _gs / _Qc) and for any hierarchy satisfying hier_herm / hier_hermk
   (C02_apply_symmetric_nc_full).
   NOT proved: (a') for ilu0: consistency of the sweep is proved and good5 (R5Ilu0 w) A is reduced to the hermitian-ness of
   the triangular solve operator, <N f, g> = <f, N g> for N = ilu_solve L U D = (D^-1 + U)^-1 (I + L)^-1, with w central and
   hermitian (C02_ilu0_symmetry_condition_blocks); that statement itself needs, for a hermitian block matrix with symmetric
   pattern, the factor relation U = D^-1 L^H and D^H = D of the IKJ elimination of Ilu.ilu0 over a non-commutative ring
   (so that (I + L)(D^-1 + U) = (I + L) D^-1 (I + L)^H) -- not formalised, it stays a hypothesis;
   for chebyshev good5 (R5Cheby ..) A = sweep_triple A (mk_relax5 k A) (consistency of pre and post, adjointness) is a hypothesis;
   Chebyshev: p(A) M with M the hermitian scaled diagonal is self-adjoint in the M^-1-weighted sense only when the
   scaling commutes with A, for scale = false it is a polynomial in the hermitian A (coefficients embedded reals).
   (c) solve_symH for mk_solve_block stays a hypothesis when direct_coarse = true.
   On the implementation the full statement is CHECKED exactly for all five smoothers (tools/props/c02_block.py). *)

(* ================================================================== *)
(* A3 for the Chebyshev smoother (WZ3).  AmgCycleSymCheb.v: for EVERY symmetric matrix, every degree, every (lower,
   higher), with or without diagonal scaling, the chebyshev sweep is consistent, sweep (f, x) = x + N (f - A x), and
   N = sweep (., 0) is self-adjoint, <N f, g> = <f, N g> -- over any commutative ring with trivial conjugation and WITHOUT
   any hypothesis on the coefficients (double induction over the three-term recurrence: X_k (A M g) = M A X_k g, then
   <X_k f, g> = <f, X_k g>).  AmgCycleSymChebBuilt.v: the commutative ring read as an instance of the non-commutative
   development, for hierarchies of amg_init with ANY smoother constructor (C02_apply_symmetric_built_any_smoother), hence
   for chebyshev with no smoother hypothesis left. *)
From Amgcl Require Import AmgCycleSymCheb AmgCycleSymChebBuilt.

Theorem C02_chebyshev_consistent_self_adjoint {S : Scalar} (Srt : Sring S) (Seqb : seqb_spec S)
  degree (lower higher : S) scale (A : crs S) :
  wf A = true -> sym_mat (nrows A) A ->
  sweep_cons (nrows A) A (fst (cheby_sweeps degree lower higher scale A)) /\
  sweep_cons (nrows A) A (snd (cheby_sweeps degree lower higher scale A)) /\
  sweep_adj (nrows A) (fst (cheby_sweeps degree lower higher scale A)) (snd (cheby_sweeps degree lower higher scale A)).
Proof. exact (cheby_sweeps_sym Srt Seqb degree lower higher scale A). Qed.
Print Assumptions C02_chebyshev_consistent_self_adjoint.

(* the good5 side condition of C02_apply_symmetric_blocks_full for chebyshev, discharged when the values commute *)
Theorem C02_chebyshev_good5_commutative {S : Scalar} (Srt : Sring S) (Seqb : seqb_spec S)
  (sadj_id : forall a : S, sadj a = a) degree (lower higher : S) scale (A : crs S) :
  wf A = true -> herm_mat (nrows A) A -> good5 (R5Cheby degree lower higher scale) A.
Proof. exact (cheby_good5_comm Srt Seqb sadj_id degree lower higher scale A). Qed.
Print Assumptions C02_chebyshev_good5_commutative.

(* hierarchies of amg_init, ANY smoother constructor mk_relax whose (pre, post) sweeps are consistent and mutually adjoint
   on the symmetric level matrices that satisfy `good`, exact coarse solve *)
Theorem C02_apply_symmetric_built_any_smoother {S : Scalar} (Srt : Sring S) (Seqb : seqb_spec S)
  (sadj_id : forall a : S, sadj a = a) (mk_relax : crs S -> @sweep S * @sweep S)
  (relax_ok : forall A, sweep_ok (nrows A) (fst (mk_relax A)) /\ sweep_ok (nrows A) (snd (mk_relax A)))
  (good : crs S -> Prop)
  (relax_sym : forall A, wf A = true -> sym_mat (nrows A) A -> good A ->
     sweep_cons (nrows A) A (fst (mk_relax A)) /\ sweep_cons (nrows A) A (snd (mk_relax A)) /\
     sweep_adj (nrows A) (fst (mk_relax A)) (snd (mk_relax A)))
  ce dc ml sc ts (M : crs S) k nc pc :
  wf M = true -> sym_mat (nrows M) M -> ts_sym (nrows M) ts ->
  (forall A, In (LSolve A) (amg_init ce dc ml (coarse_op_of sc) ts M) -> solve_sym (nrows A) (mk_solve_exact A)) ->
  (forall l, In l (amg_init ce dc ml (coarse_op_of sc) ts M) -> good (ld_A l)) ->
  let lvls := map (instantiate mk_relax mk_solve_exact) (amg_init ce dc ml (coarse_op_of sc) ts M) in
  (pc = 0 \/ nosolve_top lvls) ->
  forall scr1 scr2 f g x1 x2,
  scratch_wf lvls scr1 -> scratch_wf lvls scr2 ->
  length f = nrows M -> length g = nrows M -> length x1 = nrows M -> length x2 = nrows M ->
  dot (fst (apply k k nc (Datatypes.S pc) lvls scr1 f x1)) g =
  dot f (fst (apply k k nc (Datatypes.S pc) lvls scr2 g x2)).
Proof. exact (built_apply_sym_gen Srt Seqb sadj_id mk_relax relax_ok good relax_sym ce dc ml sc ts M k nc pc). Qed.
Print Assumptions C02_apply_symmetric_built_any_smoother.

(* chebyshev on every level: npre = npost = k, any ncycle, pre_cycles = pc + 1; the only hypothesis besides the symmetry
   of the input is the symmetry of the coarse solver when direct_coarse = true *)
Theorem C02_apply_symmetric_chebyshev {S : Scalar} (Srt : Sring S) (Seqb : seqb_spec S)
  (sadj_id : forall a : S, sadj a = a) degree (lower higher : S) scale ce dc ml sc ts (M : crs S) k nc pc :
  wf M = true -> sym_mat (nrows M) M -> ts_sym (nrows M) ts ->
  (forall A, In (LSolve A) (amg_init ce dc ml (coarse_op_of sc) ts M) -> solve_sym (nrows A) (mk_solve_exact A)) ->
  let lvls := map (instantiate (mk_relax5 (R5Cheby degree lower higher scale)) mk_solve_exact)
                  (amg_init ce dc ml (coarse_op_of sc) ts M) in
  (pc = 0 \/ nosolve_top lvls) ->
  forall scr1 scr2 f g x1 x2,
  scratch_wf lvls scr1 -> scratch_wf lvls scr2 ->
  length f = nrows M -> length g = nrows M -> length x1 = nrows M -> length x2 = nrows M ->
  dot (fst (apply k k nc (Datatypes.S pc) lvls scr1 f x1)) g =
  dot f (fst (apply k k nc (Datatypes.S pc) lvls scr2 g x2)).
Proof. exact (built_apply_sym_cheby Srt Seqb sadj_id degree lower higher scale ce dc ml sc ts M k nc pc). Qed.
Print Assumptions C02_apply_symmetric_chebyshev.

(* direct_coarse = false: no hypothesis besides the symmetry of the input *)
Theorem C02_apply_symmetric_chebyshev_smoother_coarse {S : Scalar} (Srt : Sring S) (Seqb : seqb_spec S)
  (sadj_id : forall a : S, sadj a = a) degree (lower higher : S) scale ce ml sc ts (M : crs S) k nc pc :
  wf M = true -> sym_mat (nrows M) M -> ts_sym (nrows M) ts ->
  let lvls := map (instantiate (mk_relax5 (R5Cheby degree lower higher scale)) mk_solve_exact)
                  (amg_init ce false ml (coarse_op_of sc) ts M) in
  forall scr1 scr2 f g x1 x2,
  scratch_wf lvls scr1 -> scratch_wf lvls scr2 ->
  length f = nrows M -> length g = nrows M -> length x1 = nrows M -> length x2 = nrows M ->
  dot (fst (apply k k nc (Datatypes.S pc) lvls scr1 f x1)) g =
  dot f (fst (apply k k nc (Datatypes.S pc) lvls scr2 g x2)).
Proof. exact (built_apply_sym_cheby_smoother_coarse Srt Seqb sadj_id degree lower higher scale ce ml sc ts M k nc pc). Qed.
Print Assumptions C02_apply_symmetric_chebyshev_smoother_coarse.

(* field, exact coarse solve (Gauss-Jordan model): the solver hypothesis is "solvable and symmetric" *)
Theorem C02_apply_symmetric_chebyshev_exact {S : Scalar} (Sft : Sfield S) (Seqb : seqb_spec S)
  (sadj_id : forall a : S, sadj a = a) degree (lower higher : S) scale ce dc ml sc ts (M : crs S) k nc pc :
  wf M = true -> sym_mat (nrows M) M -> ts_sym (nrows M) ts ->
  (forall A, In (LSolve A) (amg_init ce dc ml (coarse_op_of sc) ts M) -> solvable A = true /\ sym_mat (nrows A) A) ->
  let lvls := map (instantiate (mk_relax5 (R5Cheby degree lower higher scale)) mk_solve_exact)
                  (amg_init ce dc ml (coarse_op_of sc) ts M) in
  (pc = 0 \/ nosolve_top lvls) ->
  forall scr1 scr2 f g x1 x2,
  scratch_wf lvls scr1 -> scratch_wf lvls scr2 ->
  length f = nrows M -> length g = nrows M -> length x1 = nrows M -> length x2 = nrows M ->
  dot (fst (apply k k nc (Datatypes.S pc) lvls scr1 f x1)) g =
  dot f (fst (apply k k nc (Datatypes.S pc) lvls scr2 g x2)).
Proof. exact (built_apply_sym_cheby_exact Sft Seqb sadj_id degree lower higher scale ce dc ml sc ts M k nc pc). Qed.
Print Assumptions C02_apply_symmetric_chebyshev_exact.

Theorem C02_apply_symmetric_chebyshev_Qc degree (lower higher : QcS) scale ce dc ml sc ts (M : crs QcS) k nc pc :
  wf M = true -> sym_mat (nrows M) M -> ts_sym (nrows M) ts ->
  (forall A, In (LSolve A) (amg_init ce dc ml (coarse_op_of sc) ts M) -> solvable A = true /\ sym_mat (nrows A) A) ->
  let lvls := map (instantiate (mk_relax5 (R5Cheby degree lower higher scale)) mk_solve_exact)
                  (amg_init ce dc ml (coarse_op_of sc) ts M) in
  (pc = 0 \/ nosolve_top lvls) ->
  forall scr1 scr2 f g x1 x2,
  scratch_wf lvls scr1 -> scratch_wf lvls scr2 ->
  length f = nrows M -> length g = nrows M -> length x1 = nrows M -> length x2 = nrows M ->
  dot (fst (apply k k nc (Datatypes.S pc) lvls scr1 f x1)) g =
  dot f (fst (apply k k nc (Datatypes.S pc) lvls scr2 g x2)).
Proof.
  exact (built_apply_sym_cheby_exact QcS_field QcS_eqb (fun _ => eq_refl) degree lower higher scale ce dc ml sc ts M k nc pc).
Qed.
Print Assumptions C02_apply_symmetric_chebyshev_Qc.

(* non-vacuity on the concrete 3-level hierarchy of AmgExampleData.v (1D Laplacian n = 4, two pairwise aggregations),
   chebyshev of degree 2 on [rho/30, rho] with and without diagonal scaling (the amgcl defaults: degree 5, lower 1/30, higher 1):
   the hypotheses of C02_apply_symmetric_chebyshev_exact hold for the hierarchy that ends in the direct solver and for the
   one smoothed on the 1 x 1 level; the W(1,1)-cycle (ncycle = 2) gives <B f, g> = <f, B g>, B f <> 0, and the two
   hierarchies give different operators *)
Example C02_example_chebyshev_symmetric :
  let mk := fun scale => map (instantiate (mk_relax5 (R5Cheby 2 (qc 1 30) (exq 1) scale)) (@mk_solve_exact QcS)) in
  let z := [exq 0; exq 0; exq 0; exq 0] in
  let B := fun scale H f => fst (apply 1 1 2 1 (mk scale H) (map (@fresh_scratch QcS) H) f z) in
  wf exM = true /\ sym_mat (nrows exM) exM /\ ts_sym (nrows exM) exTs /\
  (forall A, In (LSolve A) exH -> solvable A = true /\ sym_mat (nrows A) A) /\
  nosolve_top (mk true exH) /\ nosolve_top (mk true exH') /\
  scratch_wf (mk true exH) (map (@fresh_scratch QcS) exH) /\
  seqb (dot (B true exH exF) exG) (dot exF (B true exH exG)) = true /\
  seqb (dot (B true exH' exF) exG) (dot exF (B true exH' exG)) = true /\
  seqb (dot (B false exH' exF) exG) (dot exF (B false exH' exG)) = true /\
  vec_eqb (B true exH exF) z = false /\ vec_eqb (B true exH exF) (B true exH' exF) = false.
Proof.
  cbv zeta.
  split; [vm_compute; reflexivity|].
  split; [apply (sym_matb_ok QcS_eqb); vm_compute; reflexivity|].
  split; [apply (ts_symb_ok QcS_eqb); vm_compute; reflexivity|].
  split; [apply (solve_sym_check_ok QcS_eqb); vm_compute; reflexivity|].
  split; [exact I|]. split; [exact I|].
  split; [apply fresh_scratch_wf|].
  vm_compute. repeat split.
Qed.

(* ================================================================== *)
(* A3 for the ILU(0) smoother (WZ3).
   AmgBlockCycleSym3Ilu.v: over a non-commutative ring with an involutive anti-automorphism the triangular solve
   N = (D^-1 + U)^-1 (I + L)^-1 is hermitian w.r.t. ipH as soon as  L_ij = (D_j U_ji)^H  and  D_j^H = D_j  (D the inverted
   pivots): the operator hypothesis of C02_ilu0_symmetry_condition_blocks becomes a finite condition on the factors.
   AmgBlockCycleSym3IluFactors.v: for commuting values that relation is PROVED for the factors Ilu.ilu0 computes from any
   symmetric matrix with symmetric pattern (strong induction over the IKJ elimination, from exactness on the pattern).
   AmgBlockCycleSym3IluBuilt.v: hierarchies of amg_init. *)
From Amgcl Require Import IluProofs AmgCycleSymCheb AmgCycleSymChebBuilt AmgBlockCycleSym3Ilu AmgBlockCycleSym3IluFactors
  AmgBlockCycleSym3IluBuilt AmgBlockCycleSym3Solve.

Theorem C02_ilu0_factors_symmetric {S : Scalar} (Sft : Sfield S) (Seqb : seqb_spec S)
  (A : crs S) (junk : vec S) (L U : crs S) (D : vec S) :
  wf A = true -> ncols A = nrows A ->
  (forall i, i < nrows A -> sorted_strict (nth i (rows A) []) = true) -> has_diag A = true ->
  ilu0 A junk = Ok (L, U, D) ->
  (forall i j, i < nrows A -> j < nrows A -> mget A i j = mget A j i) ->
  (forall i j, i < nrows A -> j < nrows A -> has_col j (nth i (rows A) []) = has_col i (nth j (rows A) [])) ->
  forall i j, i < nrows A -> j < nrows A -> mget L i j = vget D j * mget U j i.
Proof. exact (ilu0_factors_sym Sft Seqb A junk L U D). Qed.
Print Assumptions C02_ilu0_factors_symmetric.

Theorem C02_ilu_solve_hermitian_blocks {S : Scalar} (Hnc : ncring_theory S)
  (adj_add : forall a b : S, sadj (a + b) = sadj a + sadj b)
  (adj_mul : forall a b : S, sadj (a * b) = sadj b * sadj a)
  (adj_inv : forall a : S, sadj (sadj a) = a) (L U : crs S) (D : vec S) :
  strict_lower L -> strict_upper (nrows L) U -> factors_herm L U D ->
  forall f g, length f = nrows L -> length g = nrows L ->
  ipH (nrows L) (ilu_solve L U D f) g = ipH (nrows L) f (ilu_solve L U D g).
Proof. exact (ilu_solve_herm Hnc adj_add adj_mul adj_inv L U D). Qed.
Print Assumptions C02_ilu_solve_hermitian_blocks.

(* good5 for ILU(0) over non-commuting values: reduced to the entrywise factor relation *)
Theorem C02_ilu0_good5_from_factors {S : Scalar} (Hnc : ncring_theory S) (Seqb : seqb_spec S)
  (adj_add : forall a b : S, sadj (a + b) = sadj a + sadj b)
  (adj_mul : forall a b : S, sadj (a * b) = sadj b * sadj a)
  (adj_inv : forall a : S, sadj (sadj a) = a) (w : S) (A L U : crs S) (D : vec S) :
  wf A = true -> ncols A = nrows A -> ilu0 A (vzero (nrows A)) = Ok (L, U, D) ->
  sadj w = w -> (forall c : S, w * c = c * w) -> factors_herm L U D -> good5 (R5Ilu0 w) A.
Proof. exact (ilu0_good5_factors Hnc Seqb adj_add adj_mul adj_inv w A L U D). Qed.
Print Assumptions C02_ilu0_good5_from_factors.

(* commuting values: ILU(0) is consistent and self-adjoint on every symmetric level matrix that ilu0 accepts *)
Theorem C02_ilu0_consistent_self_adjoint {S : Scalar} (Sft : Sfield S) (Seqb : seqb_spec S)
  (sadj_id : forall a : S, sadj a = a) (w : S) (A : crs S) :
  wf A = true -> sym_mat (nrows A) A -> ilu0_level_ok A ->
  sweep_cons (nrows A) A (fst (mk_relax5 (R5Ilu0 w) A)) /\ sweep_cons (nrows A) A (snd (mk_relax5 (R5Ilu0 w) A)) /\
  sweep_adj (nrows A) (fst (mk_relax5 (R5Ilu0 w) A)) (snd (mk_relax5 (R5Ilu0 w) A)).
Proof. exact (ilu0_sweeps_sym Sft Seqb sadj_id w A). Qed.
Print Assumptions C02_ilu0_consistent_self_adjoint.

(* hierarchies of amg_init smoothed by ilu0 (any damping), exact coarse solve: no hypothesis about the smoother; the
   level condition ilu0_level_ok is structural (sorted rows without duplicates, stored diagonal, symmetric pattern, the
   constructor does not throw) *)
Theorem C02_apply_symmetric_ilu0 {S : Scalar} (Sft : Sfield S) (Seqb : seqb_spec S)
  (sadj_id : forall a : S, sadj a = a) (w : S) ce dc ml sc ts (M : crs S) k nc pc :
  wf M = true -> sym_mat (nrows M) M -> ts_sym (nrows M) ts ->
  (forall A, In (LSolve A) (amg_init ce dc ml (coarse_op_of sc) ts M) -> solvable A = true /\ sym_mat (nrows A) A) ->
  (forall l, In l (amg_init ce dc ml (coarse_op_of sc) ts M) -> ilu0_level_ok (ld_A l)) ->
  let lvls := map (instantiate (mk_relax5 (R5Ilu0 w)) mk_solve_exact) (amg_init ce dc ml (coarse_op_of sc) ts M) in
  (pc = 0 \/ nosolve_top lvls) ->
  forall scr1 scr2 f g x1 x2,
  scratch_wf lvls scr1 -> scratch_wf lvls scr2 ->
  length f = nrows M -> length g = nrows M -> length x1 = nrows M -> length x2 = nrows M ->
  dot (fst (apply k k nc (Datatypes.S pc) lvls scr1 f x1)) g =
  dot f (fst (apply k k nc (Datatypes.S pc) lvls scr2 g x2)).
Proof. exact (built_apply_sym_ilu0 Sft Seqb sadj_id w ce dc ml sc ts M k nc pc). Qed.
Print Assumptions C02_apply_symmetric_ilu0.

Theorem C02_apply_symmetric_ilu0_Qc (w : QcS) ce dc ml sc ts (M : crs QcS) k nc pc :
  wf M = true -> sym_mat (nrows M) M -> ts_sym (nrows M) ts ->
  (forall A, In (LSolve A) (amg_init ce dc ml (coarse_op_of sc) ts M) -> solvable A = true /\ sym_mat (nrows A) A) ->
  (forall l, In l (amg_init ce dc ml (coarse_op_of sc) ts M) -> ilu0_level_ok (ld_A l)) ->
  let lvls := map (instantiate (mk_relax5 (R5Ilu0 w)) mk_solve_exact) (amg_init ce dc ml (coarse_op_of sc) ts M) in
  (pc = 0 \/ nosolve_top lvls) ->
  forall scr1 scr2 f g x1 x2,
  scratch_wf lvls scr1 -> scratch_wf lvls scr2 ->
  length f = nrows M -> length g = nrows M -> length x1 = nrows M -> length x2 = nrows M ->
  dot (fst (apply k k nc (Datatypes.S pc) lvls scr1 f x1)) g =
  dot f (fst (apply k k nc (Datatypes.S pc) lvls scr2 g x2)).
Proof. exact (built_apply_sym_ilu0 QcS_field QcS_eqb (fun _ => eq_refl) w ce dc ml sc ts M k nc pc). Qed.
Print Assumptions C02_apply_symmetric_ilu0_Qc.

(* block values, ILU(0) on every level (smoother on the coarsest level): the factor relation is checked on the computed
   factors of every level (ilu0_level_hermb: wf, square, ilu0 succeeds, L_ij = (D_j U_ji)^H, D_j^H = D_j) *)
Theorem C02_apply_symmetric_blocks_ilu0 (S0 : Scalar) (b : nat) (Srt : Sring S0) (Seqb0 : seqb_spec S0) (Hb : 0 < b)
  (sadj_add0 : forall x y : S0, sadj (x + y) = sadj x + sadj y)
  (sadj_mul0 : forall x y : S0, sadj (x * y) = sadj x * sadj y)
  (sadj_invol0 : forall x : S0, sadj (sadj x) = x)
  (w : BlockS S0 b) ce ml (sc : option (BlockS S0 b)) ts (M : crs (BlockS S0 b)) k nc pc :
  sadj w = w -> (forall c : BlockS S0 b, w * c = c * w) ->
  scale_herm sc -> wf M = true -> herm_mat (nrows M) M -> ts_herm (nrows M) ts ->
  (forall l, In l (amg_init ce false ml (coarse_op_of sc) ts M) -> ilu0_level_hermb S0 b (ld_A l) = true) ->
  let lvls := block_levels S0 b (R5Ilu0 w) (amg_init ce false ml (coarse_op_of sc) ts M) in
  forall scr1 scr2 f g x1 x2,
  scratch_wf lvls scr1 -> scratch_wf lvls scr2 ->
  length f = nrows M -> length g = nrows M -> length x1 = nrows M -> length x2 = nrows M ->
  ipH (S := BlockS S0 b) (nrows M) (fst (apply k k nc (Datatypes.S pc) lvls scr1 f x1)) g =
  ipH (S := BlockS S0 b) (nrows M) f (fst (apply k k nc (Datatypes.S pc) lvls scr2 g x2)).
Proof.
  exact (block_apply_herm_ilu0 S0 b Srt Seqb0 Hb sadj_add0 sadj_mul0 sadj_invol0 w ce ml sc ts M k nc pc).
Qed.
Print Assumptions C02_apply_symmetric_blocks_ilu0.

(* (c) of the FULL STATEMENT: the hypothesis solve_symH for mk_solve_block CANNOT be discharged: it quantifies over all block
   vectors, the solver reads column 0 of the right-hand-side blocks and writes column-0 blocks; refuted for the 1 x 1
   block identity matrix, b = 2 *)
Theorem C02_block_coarse_solve_not_hermitian_on_general_blocks :
  ~ solve_symH (S := B2) 1 (mk_solve_block QcS 2 exB1).
Proof. exact block_solve_symH_refuted. Qed.
Print Assumptions C02_block_coarse_solve_not_hermitian_on_general_blocks.

(* non-vacuity, commuting values: ILU(0) with damping 3/4 on the hierarchies of AmgExampleData.v (direct solver on the
   1 x 1 level / smoother on it): hypotheses of C02_apply_symmetric_ilu0_Qc, the W(2,2)-cycle applied twice is symmetric,
   non-zero *)
Example C02_example_ilu0_symmetric :
  let mk := map (instantiate (mk_relax5 (R5Ilu0 (qc 3 4))) (@mk_solve_exact QcS)) in
  let z := [exq 0; exq 0; exq 0; exq 0] in
  let B := fun H f => fst (apply 2 2 2 2 (mk H) (map (@fresh_scratch QcS) H) f z) in
  wf exM = true /\ sym_mat (nrows exM) exM /\ ts_sym (nrows exM) exTs /\
  (forall A, In (LSolve A) exH -> solvable A = true /\ sym_mat (nrows A) A) /\
  (forall l, In l exH -> ilu0_level_ok (ld_A l)) /\ (forall l, In l exH' -> ilu0_level_ok (ld_A l)) /\
  scratch_wf (mk exH) (map (@fresh_scratch QcS) exH) /\
  seqb (dot (B exH exF) exG) (dot exF (B exH exG)) = true /\
  seqb (dot (B exH' exF) exG) (dot exF (B exH' exG)) = true /\
  vec_eqb (B exH exF) z = false.
Proof.
  cbv zeta.
  split; [vm_compute; reflexivity|].
  split; [apply (sym_matb_ok QcS_eqb); vm_compute; reflexivity|].
  split; [apply (ts_symb_ok QcS_eqb); vm_compute; reflexivity|].
  split; [apply (solve_sym_check_ok QcS_eqb); vm_compute; reflexivity|].
  split; [apply levels_ilu0_okb_ok; vm_compute; reflexivity|].
  split; [apply levels_ilu0_okb_ok; vm_compute; reflexivity|].
  split; [apply fresh_scratch_wf|].
  vm_compute. repeat split.
Qed.

(* non-vacuity, non-commuting 2 x 2 blocks (AmgBlockCycleExample.v, smoother on the coarse level): the factor relation
   holds on the computed factors of both levels, the damping 3/4 I is central and hermitian, and the identity for the
   W(1,1)-cycle; on column vectors the block coarse solver is self-adjoint (cf. the refutation above) *)
Example C02_example_blocks_ilu0_symmetric :
  let w := blk_embed QcS 2 (qc 3 4) in
  scale_herm (S := B2) (Some exBhalf) /\ wf exBM = true /\ herm_mat (S := B2) (nrows exBM) exBM /\
  ts_herm (S := B2) (nrows exBM) exBTs /\
  sadj (s := B2) w = w /\
  forallb (fun l => ilu0_level_hermb QcS 2 (ld_A l)) exBH' = true /\
  seqb (s := B2)
    (ipH (S := B2) 3 (fst (apply 1 1 2 1 (block_levels QcS 2 (R5Ilu0 (S := B2) w) exBH')
                             (map (@fresh_scratch B2) exBH') exBF exBZ)) exBG)
    (ipH (S := B2) 3 exBF (fst (apply 1 1 2 1 (block_levels QcS 2 (R5Ilu0 (S := B2) w) exBH')
                                  (map (@fresh_scratch B2) exBH') exBG exBZ)))
    = true /\
  seqb (s := B2)
    (ipH (S := B2) 2 (mk_solve_block QcS 2 exBAc [bcol 1 2; bcol 3 4] [bq 0 0 0 0; bq 0 0 0 0]) [bcol 5 6; bcol 7 8])
    (ipH (S := B2) 2 [bcol 1 2; bcol 3 4] (mk_solve_block QcS 2 exBAc [bcol 5 6; bcol 7 8] [bq 0 0 0 0; bq 0 0 0 0]))
  = true.
Proof.
  cbv zeta.
  split; [apply (scale_herm_embed QcS 2 QcS_ring); reflexivity|].
  split; [vm_compute; reflexivity|].
  split; [apply (herm_matb_ok (BlockS_eqb QcS 2 QcS_eqb)); vm_compute; reflexivity|].
  split; [apply (ts_hermb_ok (BlockS_eqb QcS 2 QcS_eqb)); vm_compute; reflexivity|].
  split; [apply (proj1 (BlockS_eqb QcS 2 QcS_eqb _ _)); vm_compute; reflexivity|].
  split; [vm_compute; reflexivity|].
  split; vm_compute; reflexivity.
Qed.

(* ================================================================== *)
(* A3 for the Chebyshev smoother over NON-COMMUTING values (WZ3).  AmgBlockCycleSym3Cheb.v: the sweep is consistent
   whatever the coefficients are; it is hermitian for a hermitian matrix when the coefficients alpha_k, beta_k (k < degree)
   are central and hermitian and the scaling entries are hermitian (cheby_coefs_herm) -- at static_matrix<T,b,b> these are
   embedded real scalars resp. inverses of hermitian diagonal blocks; the condition is finite and checked by
   cheby_coefs_hermb on the example hierarchy. *)
From Amgcl Require Import AmgBlockCycleSym3Cheb.

Theorem C02_chebyshev_hermitian_nc {S : Scalar} (Hnc : ncring_theory S) (Seqb : seqb_spec S)
  (adj_add : forall a b : S, sadj (a + b) = sadj a + sadj b)
  (adj_mul : forall a b : S, sadj (a * b) = sadj b * sadj a)
  degree (lower higher : S) scale (A : crs S) :
  wf A = true -> herm_mat (nrows A) A -> cheby_coefs_herm degree lower higher scale A ->
  good5 (R5Cheby degree lower higher scale) A.
Proof. exact (nc_cheby_triple Hnc Seqb adj_add adj_mul degree lower higher scale A). Qed.
Print Assumptions C02_chebyshev_hermitian_nc.

Theorem C02_apply_symmetric_blocks_chebyshev (S0 : Scalar) (b : nat) (Srt : Sring S0) (Seqb0 : seqb_spec S0) (Hb : 0 < b)
  (sadj_add0 : forall x y : S0, sadj (x + y) = sadj x + sadj y)
  (sadj_mul0 : forall x y : S0, sadj (x * y) = sadj x * sadj y)
  (sadj_invol0 : forall x : S0, sadj (sadj x) = x)
  degree (lower higher : BlockS S0 b) scale ce ml (sc : option (BlockS S0 b)) ts (M : crs (BlockS S0 b)) k nc pc :
  scale_herm sc -> wf M = true -> herm_mat (nrows M) M -> ts_herm (nrows M) ts ->
  (forall l, In l (amg_init ce false ml (coarse_op_of sc) ts M) ->
             cheby_coefs_herm (S := BlockS S0 b) degree lower higher scale (ld_A l)) ->
  let lvls := block_levels S0 b (R5Cheby degree lower higher scale) (amg_init ce false ml (coarse_op_of sc) ts M) in
  forall scr1 scr2 f g x1 x2,
  scratch_wf lvls scr1 -> scratch_wf lvls scr2 ->
  length f = nrows M -> length g = nrows M -> length x1 = nrows M -> length x2 = nrows M ->
  ipH (S := BlockS S0 b) (nrows M) (fst (apply k k nc (Datatypes.S pc) lvls scr1 f x1)) g =
  ipH (S := BlockS S0 b) (nrows M) f (fst (apply k k nc (Datatypes.S pc) lvls scr2 g x2)).
Proof.
  exact (block_apply_herm_cheby S0 b Srt Seqb0 Hb sadj_add0 sadj_mul0 sadj_invol0 degree lower higher scale
           ce ml sc ts M k nc pc).
Qed.
Print Assumptions C02_apply_symmetric_blocks_chebyshev.

Theorem C02_apply_symmetric_blocks_chebyshev_Qc (b : nat) (Hb : 0 < b)
  degree (lower higher : BlockS QcS b) scale ce ml (sc : option (BlockS QcS b)) ts (M : crs (BlockS QcS b)) k nc pc :
  scale_herm sc -> wf M = true -> herm_mat (nrows M) M -> ts_herm (nrows M) ts ->
  (forall l, In l (amg_init ce false ml (coarse_op_of sc) ts M) ->
             cheby_coefs_hermb QcS b degree lower higher scale (ld_A l) = true) ->
  let lvls := block_levels QcS b (R5Cheby degree lower higher scale) (amg_init ce false ml (coarse_op_of sc) ts M) in
  forall scr1 scr2 f g x1 x2,
  scratch_wf lvls scr1 -> scratch_wf lvls scr2 ->
  length f = nrows M -> length g = nrows M -> length x1 = nrows M -> length x2 = nrows M ->
  ipH (S := BlockS QcS b) (nrows M) (fst (apply k k nc (Datatypes.S pc) lvls scr1 f x1)) g =
  ipH (S := BlockS QcS b) (nrows M) f (fst (apply k k nc (Datatypes.S pc) lvls scr2 g x2)).
Proof.
  intros Hsc WM SM Hts Hc.
  exact (block_apply_herm_cheby QcS b QcS_ring QcS_eqb Hb (fun _ _ => eq_refl) (fun _ _ => eq_refl) (fun _ => eq_refl)
           degree lower higher scale ce ml sc ts M k nc pc Hsc WM SM Hts
           (fun l Hl => cheby_coefs_hermb_ok QcS b QcS_ring QcS_eqb Hb (fun _ _ => eq_refl) degree lower higher scale _ (Hc l Hl))).
Qed.
Print Assumptions C02_apply_symmetric_blocks_chebyshev_Qc.

(* non-vacuity on the hierarchy of AmgBlockCycleExample.v (non-commuting 2 x 2 blocks): the coefficient condition holds on
   both levels for degree 2, [rho/30, rho], with and without scaling (the inverted diagonal blocks are hermitian, the
   recurrence coefficients are embedded rationals), and the identity for the V(1,1)-cycle, evaluated inside Coq *)
Example C02_example_blocks_chebyshev_symmetric :
  let lo := blk_embed QcS 2 (qc 1 30) in let hi := blk_embed QcS 2 (qc 1 1) in
  let Bop := fun f => fst (apply 1 1 1 1 (block_levels QcS 2 (R5Cheby (S := B2) 2 lo hi false) exBH')
                             (map (@fresh_scratch B2) exBH') f exBZ) in
  scale_herm (S := B2) (Some exBhalf) /\ wf exBM = true /\ herm_mat (S := B2) (nrows exBM) exBM /\
  ts_herm (S := B2) (nrows exBM) exBTs /\
  forallb (fun l => cheby_coefs_hermb QcS 2 2 lo hi true (ld_A l) && cheby_coefs_hermb QcS 2 2 lo hi false (ld_A l)) exBH'
    = true /\
  seqb (s := B2) (ipH (S := B2) 3 (Bop exBF) exBG) (ipH (S := B2) 3 exBF (Bop exBG)) = true.
Proof.
  cbv zeta.
  split; [apply (scale_herm_embed QcS 2 QcS_ring); reflexivity|].
  split; [vm_compute; reflexivity|].
  split; [apply (herm_matb_ok (BlockS_eqb QcS 2 QcS_eqb)); vm_compute; reflexivity|].
  split; [apply (ts_hermb_ok (BlockS_eqb QcS 2 QcS_eqb)); vm_compute; reflexivity|].
  split; vm_compute; reflexivity.
Qed.

(* ================================================================== *)
(* A3 for ILU(0) over NON-COMMUTING values, factor relation proved (WZ3).  AmgBlockCycleSym3IluFactorsNc.v: the ILU(0)
   factors of a hermitian matrix over a non-commutative ring (sinv a right inverse or the default 0) with strictly sorted
   rows, stored diagonal, symmetric pattern and invertible pivots satisfy L_ij = (D_j U_ji)^H, D_j^H = D_j -- the entrywise
   condition of C02_ilu0_good5_from_factors is a theorem, and good5 (R5Ilu0 w) A follows from structural conditions. *)
From Amgcl Require Import AmgBlockCycleSym3Ilu AmgBlockCycleSym3IluFactorsNc.

Theorem C02_ilu0_factors_hermitian_nc {S : Scalar} (Hnc : ncring_theory S) (Seqb : seqb_spec S)
  (Hinv : forall x : S, sinv x <> s0 -> x * sinv x = s1)
  (adj_add : forall a b : S, sadj (a + b) = sadj a + sadj b)
  (adj_mul : forall a b : S, sadj (a * b) = sadj b * sadj a)
  (adj_inv : forall a : S, sadj (sadj a) = a)
  (A : crs S) (junk : vec S) (L U : crs S) (D : vec S) :
  wf A = true -> ncols A = nrows A ->
  (forall i, i < nrows A -> sorted_strict (nth i (rows A) []) = true) -> has_diag A = true ->
  ilu0 A junk = Ok (L, U, D) ->
  (forall k, k < nrows A -> vget D k <> s0 /\ sinv (vget D k) <> s0) ->
  (forall i j, i < nrows A -> j < nrows A -> mget A j i = sadj (mget A i j)) ->
  (forall i j, i < nrows A -> j < nrows A -> has_col j (nth i (rows A) []) = has_col i (nth j (rows A) [])) ->
  (forall i j, i < nrows A -> j < nrows A -> mget L i j = sadj (vget D j * mget U j i)) /\
  (forall j, j < nrows A -> sadj (vget D j) = vget D j).
Proof. exact (nc_ilu0_factors_herm Hnc Seqb Hinv adj_add adj_mul adj_inv A junk L U D). Qed.
Print Assumptions C02_ilu0_factors_hermitian_nc.

Theorem C02_ilu0_good5_nc {S : Scalar} (Hnc : ncring_theory S) (Seqb : seqb_spec S)
  (Hinv : forall x : S, sinv x <> s0 -> x * sinv x = s1)
  (adj_add : forall a b : S, sadj (a + b) = sadj a + sadj b)
  (adj_mul : forall a b : S, sadj (a * b) = sadj b * sadj a)
  (adj_inv : forall a : S, sadj (sadj a) = a) (w : S) (A : crs S) :
  wf A = true -> herm_mat (nrows A) A -> ilu0_level_ok_nc A ->
  sadj w = w -> (forall c : S, w * c = c * w) -> good5 (R5Ilu0 w) A.
Proof. exact (nc_ilu0_good5 Hnc Seqb Hinv adj_add adj_mul adj_inv w A). Qed.
Print Assumptions C02_ilu0_good5_nc.

(* static_matrix<T,b,b>, T a field: hierarchies of amg_init smoothed by ilu0 (smoother on the coarsest level): the level
   condition is structural (sorted rows, stored diagonal, symmetric pattern, invertible pivots) *)
Theorem C02_apply_symmetric_blocks_ilu0_structural (S0 : Scalar) (b : nat) (Sft : Sfield S0) (Seqb0 : seqb_spec S0)
  (sinv_0 : sinv (@s0 S0) = s0) (Hb : 0 < b)
  (sadj_add0 : forall x y : S0, sadj (x + y) = sadj x + sadj y)
  (sadj_mul0 : forall x y : S0, sadj (x * y) = sadj x * sadj y)
  (sadj_invol0 : forall x : S0, sadj (sadj x) = x)
  (w : BlockS S0 b) ce ml (sc : option (BlockS S0 b)) ts (M : crs (BlockS S0 b)) k nc pc :
  sadj w = w -> (forall c : BlockS S0 b, w * c = c * w) ->
  scale_herm sc -> wf M = true -> herm_mat (nrows M) M -> ts_herm (nrows M) ts ->
  (forall l, In l (amg_init ce false ml (coarse_op_of sc) ts M) -> ilu0_level_ok_nc (S := BlockS S0 b) (ld_A l)) ->
  let lvls := block_levels S0 b (R5Ilu0 w) (amg_init ce false ml (coarse_op_of sc) ts M) in
  forall scr1 scr2 f g x1 x2,
  scratch_wf lvls scr1 -> scratch_wf lvls scr2 ->
  length f = nrows M -> length g = nrows M -> length x1 = nrows M -> length x2 = nrows M ->
  ipH (S := BlockS S0 b) (nrows M) (fst (apply k k nc (Datatypes.S pc) lvls scr1 f x1)) g =
  ipH (S := BlockS S0 b) (nrows M) f (fst (apply k k nc (Datatypes.S pc) lvls scr2 g x2)).
Proof.
  exact (block_apply_herm_ilu0_structural S0 b Sft Seqb0 sinv_0 Hb sadj_add0 sadj_mul0 sadj_invol0 w ce ml sc ts M k nc pc).
Qed.
Print Assumptions C02_apply_symmetric_blocks_ilu0_structural.

(* non-vacuity: the structural level condition holds on both levels of the example hierarchy (non-commuting 2 x 2 blocks) *)
Example C02_example_blocks_ilu0_structural_hypotheses :
  forall l, In l exBH' -> ilu0_level_ok_nc (S := B2) (ld_A l).
Proof.
  assert (H : forallb (fun l => ilu0_level_okb_nc (S := B2) (ld_A l)) exBH' = true) by (vm_compute; reflexivity).
  intros l Hl. rewrite forallb_forall in H.
  apply (ilu0_level_okb_nc_ok (S := B2) (BlockS_eqb QcS 2 QcS_eqb)), (H l Hl).
Qed.

(* FULL STATEMENT (unproved part), as it stands now (WZ3; supersedes the two FULL STATEMENT comments on block symmetry above).
   Statement: for S0 a commutative ring with an additive, multiplicative, involutive conjugation, b > 0, M : crs (BlockS S0 b)
   hermitian, transfer operators with R_l = adjoint P_l, scale_herm sc, k5 ANY of damped_jacobi, spai0, gauss_seidel, ilu0,
   chebyshev, npre = npost = k, any ncycle, pre_cycles >= 1, direct_coarse true or false:
     ipH (nrows M) (fst (apply k k nc pc lvls scr1 f x1)) g = ipH (nrows M) f (fst (apply k k nc pc lvls scr2 g x2)).
   PROVED, commuting values (b = 1 read as the scalar development, dot form): every smoother with NO smoother hypothesis left --
   Jacobi / SPAI-0 / Gauss-Seidel (earlier), chebyshev for every symmetric level matrix, every degree / lower / higher / scale,
   over any commutative ring (C02_chebyshev_consistent_self_adjoint, C02_apply_symmetric_chebyshev[_smoother_coarse|_exact|_Qc]),
   ilu0 over a field for every symmetric level matrix with strictly sorted rows, stored diagonal, symmetric pattern and no zero
   pivot (C02_ilu0_factors_symmetric: L_ij = D_j U_ji; C02_ilu0_consistent_self_adjoint, C02_apply_symmetric_ilu0[_Qc]); exact
   coarse solve symmetric (earlier).
   PROVED, non-commuting block values, direct_coarse = false: Jacobi / SPAI-0 / Gauss-Seidel (earlier);
   ilu0: the triangular solve is hermitian given the ENTRYWISE factor relation L_ij = (D_j U_ji)^H, D_j^H = D_j
   (C02_ilu_solve_hermitian_blocks, C02_ilu0_good5_from_factors, C02_apply_symmetric_blocks_ilu0 with the boolean check
   ilu0_level_hermb), and that relation is PROVED for hermitian matrices over a non-commutative ring with sorted rows, stored
   diagonal, symmetric pattern and invertible pivots (C02_ilu0_factors_hermitian_nc, C02_ilu0_good5_nc), so for
   static_matrix<T,b,b> over a field no factor hypothesis is left (C02_apply_symmetric_blocks_ilu0_structural; level
   condition ilu0_level_ok_nc, boolean form ilu0_level_okb_nc, holds on the example: C02_example_blocks_ilu0_structural_hypotheses);
   chebyshev with the side condition reduced to:
   alpha_k, beta_k central and hermitian, scaling entries hermitian (C02_chebyshev_hermitian_nc,
   C02_apply_symmetric_blocks_chebyshev[_Qc] with the boolean check cheby_coefs_hermb).  Both side conditions are finite and hold on
   the example hierarchy of non-commuting 2 x 2 blocks (C02_example_blocks_ilu0_symmetric, C02_example_blocks_chebyshev_symmetric).
   NOT proved: (a'') that alpha_k, beta_k of cheby_coef are embedded scalars whenever lower, higher and the Gershgorin bound are
   (closure of the embedded scalars under + * - sinv; true, not formalised; checked per instance by cheby_coefs_hermb).
   (c) direct_coarse = true for block values: the hypothesis solve_symH (nrows A) (mk_solve_block S0 b A) of
   C02_apply_symmetric_blocks_full is UNSATISFIABLE for b >= 2 (C02_block_coarse_solve_not_hermitian_on_general_blocks): it
   quantifies over all block vectors while the solver reads / writes column 0 only.  On column vectors the solver is
   self-adjoint (evaluated in C02_example_blocks_ilu0_symmetric).  The right statement restricts f, g (and all of hier_herm's
   vector quantifiers) to column-shaped vectors, or projects the form on its (0,0) cell; this needs AmgBlockCycleSym2.v re-done
   relative to a predicate on vectors preserved by smoothers, residual, restriction, prolongation (each of them is
   right-linear, so it preserves  x = x E_00).  Not done.
   On the implementation the full statement is CHECKED exactly for all five smoothers (tools/props/c02_block.py). *)

(* ================================================================== *)
(* A3 for block values with a DIRECT coarse solve (WZ6).  AmgBlockCycleSym4.v: the method of consistent / dual iterations
   relative to a SUBSPACE of vectors  { x : x_i * e = x_i }  of a non-commutative ring of values (at static_matrix<T,b,b>,
   e = E_00: the column vectors static_matrix<T,b,1> embedded as column-0 blocks -- the only vectors of the C++).  Every
   operator of the cycle is right-linear, hence preserves the subspace; the coarse solver has to be hermitian and closed
   ON THE SUBSPACE only.  AmgBlockCycleSym4Solve.v: mk_solve_block returns column vectors and, for a hermitian block matrix
   with a solvable expanded system, is self-adjoint on column vectors (the expanded matrix is hermitian, A u = f, A w = g,
   <u, g> = <u, A w> = <A u, w> = <f, w>; the block form of two column vectors has its (0,0) cell only, and that cell is the
   scalar form of the flattened vectors).  This replaces the (unsatisfiable, C02_block_coarse_solve_not_hermitian_on_general_blocks)
   hypothesis solve_symH of C02_apply_symmetric_blocks_full. *)
From Amgcl Require Import AmgBlockCycleLin AmgBlockCycleSym4 AmgBlockCycleSym4Solve AmgBlockCycleSym4Block.

(* the cycle theorem relative to the subspace, abstract hierarchy *)
Theorem C02_apply_hermitian_on_subspace_nc {S : Scalar} (Hnc : ncring_theory S) (Seqb : seqb_spec S)
  (adj_add : forall a b : S, sadj (a + b) = sadj a + sadj b)
  (adj_mul : forall a b : S, sadj (a * b) = sadj b * sadj a)
  (adj_inv : forall a : S, sadj (sadj a) = a) (e : S) k nc pc (lvls : list (@level S)) :
  hier_hermP e lvls -> lvls <> [] -> (pc = 0 \/ nosolve_top lvls) ->
  forall scr1 scr2 f g x1 x2,
  scratch_wf lvls scr1 -> scratch_wf lvls scr2 ->
  length f = top_n lvls -> length g = top_n lvls -> length x1 = top_n lvls -> length x2 = top_n lvls ->
  Pv e f -> Pv e g ->
  ipH (top_n lvls) (fst (apply k k nc (Datatypes.S pc) lvls scr1 f x1)) g =
  ipH (top_n lvls) f (fst (apply k k nc (Datatypes.S pc) lvls scr2 g x2)).
Proof. exact (apply_herm_fullP Hnc Seqb adj_add adj_mul adj_inv e k nc pc lvls). Qed.
Print Assumptions C02_apply_hermitian_on_subspace_nc.

(* a right-linear sweep (every smoother of mk_relax5: C02 mk_relax5_rlin) preserves the subspace *)
Theorem C02_right_linear_sweep_preserves_subspace {S : Scalar} (Hnc : ncring_theory S) (e : S) n (sw : @sweep S) :
  sweep_ok n sw -> sweep_rlin (fun _ => True) n sw -> sweep_P e n sw.
Proof. exact (sweep_rlin_P Hnc e n sw). Qed.
Print Assumptions C02_right_linear_sweep_preserves_subspace.

(* the block coarse solver on column vectors *)
Theorem C02_block_coarse_solve_returns_column_vectors (S0 : Scalar) (b : nat) (Srt : Sring S0) (Hb : 0 < b)
  (A : crs (BlockS S0 b)) (rhs x : vec (BlockS S0 b)) :
  colvecB S0 b x -> colvecB S0 b (mk_solve_block S0 b A rhs x).
Proof. exact (mk_solve_block_colvec S0 b Srt Hb A rhs x). Qed.
Print Assumptions C02_block_coarse_solve_returns_column_vectors.

Theorem C02_block_coarse_solve_hermitian_on_column_vectors (S0 : Scalar) (b : nat) (Sft : Sfield S0) (Seqb0 : seqb_spec S0)
  (Hb : 0 < b)
  (sadj_add0 : forall x y : S0, sadj (x + y) = sadj x + sadj y)
  (sadj_mul0 : forall x y : S0, sadj (x * y) = sadj x * sadj y) (A : crs (BlockS S0 b)) :
  wf A = true -> herm_mat (S := BlockS S0 b) (nrows A) A -> solvable_block S0 b A = true ->
  forall f g x y : vec (BlockS S0 b),
  length f = nrows A -> length g = nrows A -> length x = nrows A -> length y = nrows A ->
  colvecB S0 b f -> colvecB S0 b g ->
  ipH (S := BlockS S0 b) (nrows A) (mk_solve_block S0 b A f x) g =
  ipH (S := BlockS S0 b) (nrows A) f (mk_solve_block S0 b A g y).
Proof. exact (mk_solve_block_symH_col S0 b Sft Seqb0 Hb sadj_add0 sadj_mul0 A). Qed.
Print Assumptions C02_block_coarse_solve_hermitian_on_column_vectors.

(* static_matrix<T,b,b>, T a field: hierarchies of amg_init, direct_coarse true or false, smoothers of mk_relax5 under good5
   (damped Jacobi / SPAI-0: hermitian scaled inverted diagonal blocks; Gauss-Seidel forward / backward: invertible stored
   diagonal blocks), npre = npost = k, any ncycle, pre_cycles = pc + 1 >= 1 (pc = 0 when the hierarchy is the solver alone),
   f, g column vectors; the ONLY hypothesis on the coarse solver: the expanded system is solvable *)
Theorem C02_apply_symmetric_blocks_direct_coarse (S0 : Scalar) (b : nat) (Sft : Sfield S0) (Seqb0 : seqb_spec S0) (Hb : 0 < b)
  (sadj_add0 : forall x y : S0, sadj (x + y) = sadj x + sadj y)
  (sadj_mul0 : forall x y : S0, sadj (x * y) = sadj x * sadj y)
  (sadj_invol0 : forall x : S0, sadj (sadj x) = x)
  (k5 : @relax5 (BlockS S0 b)) ce dc ml (sc : option (BlockS S0 b)) ts (M : crs (BlockS S0 b)) k nc pc :
  scale_herm sc -> wf M = true -> herm_mat (nrows M) M -> ts_herm (nrows M) ts ->
  (forall A, In (LSolve A) (amg_init ce dc ml (coarse_op_of sc) ts M) -> solvable_block S0 b A = true) ->
  (forall l, In l (amg_init ce dc ml (coarse_op_of sc) ts M) -> good5 k5 (ld_A l)) ->
  let lvls := block_levels S0 b k5 (amg_init ce dc ml (coarse_op_of sc) ts M) in
  (pc = 0 \/ nosolve_top lvls) ->
  forall scr1 scr2 f g x1 x2,
  scratch_wf lvls scr1 -> scratch_wf lvls scr2 ->
  length f = nrows M -> length g = nrows M -> length x1 = nrows M -> length x2 = nrows M ->
  colvecB S0 b f -> colvecB S0 b g ->
  ipH (S := BlockS S0 b) (nrows M) (fst (apply k k nc (Datatypes.S pc) lvls scr1 f x1)) g =
  ipH (S := BlockS S0 b) (nrows M) f (fst (apply k k nc (Datatypes.S pc) lvls scr2 g x2)).
Proof.
  exact (block_apply_herm_direct_coarse S0 b Sft Seqb0 Hb sadj_add0 sadj_mul0 sadj_invol0 k5 ce dc ml sc ts M k nc pc).
Qed.
Print Assumptions C02_apply_symmetric_blocks_direct_coarse.

Theorem C02_apply_symmetric_blocks_direct_coarse_Qc (b : nat) (Hb : 0 < b) (k5 : @relax5 (BlockS QcS b)) ce dc ml
  (sc : option (BlockS QcS b)) ts (M : crs (BlockS QcS b)) k nc pc :
  scale_herm sc -> wf M = true -> herm_mat (nrows M) M -> ts_herm (nrows M) ts ->
  (forall A, In (LSolve A) (amg_init ce dc ml (coarse_op_of sc) ts M) -> solvable_block QcS b A = true) ->
  (forall l, In l (amg_init ce dc ml (coarse_op_of sc) ts M) -> good5 k5 (ld_A l)) ->
  let lvls := block_levels QcS b k5 (amg_init ce dc ml (coarse_op_of sc) ts M) in
  (pc = 0 \/ nosolve_top lvls) ->
  forall scr1 scr2 f g x1 x2,
  scratch_wf lvls scr1 -> scratch_wf lvls scr2 ->
  length f = nrows M -> length g = nrows M -> length x1 = nrows M -> length x2 = nrows M ->
  colvecB QcS b f -> colvecB QcS b g ->
  ipH (S := BlockS QcS b) (nrows M) (fst (apply k k nc (Datatypes.S pc) lvls scr1 f x1)) g =
  ipH (S := BlockS QcS b) (nrows M) f (fst (apply k k nc (Datatypes.S pc) lvls scr2 g x2)).
Proof. exact (block_apply_herm_direct_coarse_Qc b Hb k5 ce dc ml sc ts M k nc pc). Qed.
Print Assumptions C02_apply_symmetric_blocks_direct_coarse_Qc.

(* ILU(0) above a direct coarse solve: structural level condition of C02_apply_symmetric_blocks_ilu0_structural *)
Theorem C02_apply_symmetric_blocks_ilu0_direct_coarse (S0 : Scalar) (b : nat) (Sft : Sfield S0) (Seqb0 : seqb_spec S0)
  (Hb : 0 < b)
  (sadj_add0 : forall x y : S0, sadj (x + y) = sadj x + sadj y)
  (sadj_mul0 : forall x y : S0, sadj (x * y) = sadj x * sadj y)
  (sadj_invol0 : forall x : S0, sadj (sadj x) = x) (sinv_0 : sinv (@s0 S0) = s0)
  (w : BlockS S0 b) ce dc ml (sc : option (BlockS S0 b)) ts (M : crs (BlockS S0 b)) k nc pc :
  sadj w = w -> (forall c : BlockS S0 b, w * c = c * w) ->
  scale_herm sc -> wf M = true -> herm_mat (nrows M) M -> ts_herm (nrows M) ts ->
  (forall A, In (LSolve A) (amg_init ce dc ml (coarse_op_of sc) ts M) -> solvable_block S0 b A = true) ->
  (forall l, In l (amg_init ce dc ml (coarse_op_of sc) ts M) -> ilu0_level_ok_nc (S := BlockS S0 b) (ld_A l)) ->
  let lvls := block_levels S0 b (R5Ilu0 w) (amg_init ce dc ml (coarse_op_of sc) ts M) in
  (pc = 0 \/ nosolve_top lvls) ->
  forall scr1 scr2 f g x1 x2,
  scratch_wf lvls scr1 -> scratch_wf lvls scr2 ->
  length f = nrows M -> length g = nrows M -> length x1 = nrows M -> length x2 = nrows M ->
  colvecB S0 b f -> colvecB S0 b g ->
  ipH (S := BlockS S0 b) (nrows M) (fst (apply k k nc (Datatypes.S pc) lvls scr1 f x1)) g =
  ipH (S := BlockS S0 b) (nrows M) f (fst (apply k k nc (Datatypes.S pc) lvls scr2 g x2)).
Proof.
  exact (block_apply_herm_ilu0_direct_coarse S0 b Sft Seqb0 Hb sadj_add0 sadj_mul0 sadj_invol0 sinv_0 w
           ce dc ml sc ts M k nc pc).
Qed.
Print Assumptions C02_apply_symmetric_blocks_ilu0_direct_coarse.

(* Chebyshev above a direct coarse solve: coefficient condition of C02_apply_symmetric_blocks_chebyshev *)
Theorem C02_apply_symmetric_blocks_chebyshev_direct_coarse (S0 : Scalar) (b : nat) (Sft : Sfield S0) (Seqb0 : seqb_spec S0)
  (Hb : 0 < b)
  (sadj_add0 : forall x y : S0, sadj (x + y) = sadj x + sadj y)
  (sadj_mul0 : forall x y : S0, sadj (x * y) = sadj x * sadj y)
  (sadj_invol0 : forall x : S0, sadj (sadj x) = x)
  degree (lower higher : BlockS S0 b) scale ce dc ml (sc : option (BlockS S0 b)) ts (M : crs (BlockS S0 b)) k nc pc :
  scale_herm sc -> wf M = true -> herm_mat (nrows M) M -> ts_herm (nrows M) ts ->
  (forall A, In (LSolve A) (amg_init ce dc ml (coarse_op_of sc) ts M) -> solvable_block S0 b A = true) ->
  (forall l, In l (amg_init ce dc ml (coarse_op_of sc) ts M) ->
             cheby_coefs_herm (S := BlockS S0 b) degree lower higher scale (ld_A l)) ->
  let lvls := block_levels S0 b (R5Cheby degree lower higher scale) (amg_init ce dc ml (coarse_op_of sc) ts M) in
  (pc = 0 \/ nosolve_top lvls) ->
  forall scr1 scr2 f g x1 x2,
  scratch_wf lvls scr1 -> scratch_wf lvls scr2 ->
  length f = nrows M -> length g = nrows M -> length x1 = nrows M -> length x2 = nrows M ->
  colvecB S0 b f -> colvecB S0 b g ->
  ipH (S := BlockS S0 b) (nrows M) (fst (apply k k nc (Datatypes.S pc) lvls scr1 f x1)) g =
  ipH (S := BlockS S0 b) (nrows M) f (fst (apply k k nc (Datatypes.S pc) lvls scr2 g x2)).
Proof.
  exact (block_apply_herm_cheby_direct_coarse S0 b Sft Seqb0 Hb sadj_add0 sadj_mul0 sadj_invol0 degree lower higher scale
           ce dc ml sc ts M k nc pc).
Qed.
Print Assumptions C02_apply_symmetric_blocks_chebyshev_direct_coarse.

(* non-vacuity on the two-level hierarchy exBH of AmgBlockCycleExample.v (non-commuting 2 x 2 blocks, DIRECT solver on
   the 2 x 2 block coarse level): every hypothesis of C02_apply_symmetric_blocks_direct_coarse_Qc holds for symmetric
   Gauss-Seidel and for damped Jacobi, the right-hand sides are column vectors, and the identity for a W(2,2)-cycle with
   pre_cycles = 2, evaluated inside Coq; the junk vector of the example is NOT a column vector *)
Example C02_example_blocks_direct_coarse_symmetric :
  let kgs := R5Std (S := B2) (RGS (S := B2)) in
  scale_herm (S := B2) (Some exBhalf) /\ wf exBM = true /\ herm_mat (S := B2) (nrows exBM) exBM /\
  ts_herm (S := B2) (nrows exBM) exBTs /\
  (forall A, In (LSolve A) exBH -> solvable_block QcS 2 A = true) /\
  existsb (fun l => match l with LSolve _ => true | _ => false end) exBH = true /\
  (forall l, In l exBH -> good5 kgs (ld_A l)) /\ (forall l, In l exBH -> good5 exBJac (ld_A l)) /\
  nosolve_top (block_levels QcS 2 kgs exBH) /\
  colvecB QcS 2 exBF /\ colvecB QcS 2 exBG /\ ~ colvecB QcS 2 exBJunk /\
  seqb (s := B2)
    (ipH (S := B2) 3 (fst (apply 2 2 2 2 (block_levels QcS 2 kgs exBH) exBScr0 exBF exBZ)) exBG)
    (ipH (S := B2) 3 exBF (fst (apply 2 2 2 2 (block_levels QcS 2 kgs exBH) exBScr0 exBG exBZ))) = true /\
  seqb (s := B2)
    (ipH (S := B2) 3 (fst (apply 1 1 1 1 (block_levels QcS 2 exBJac exBH) exBScr0 exBF exBZ)) exBG)
    (ipH (S := B2) 3 exBF (fst (apply 1 1 1 1 (block_levels QcS 2 exBJac exBH) exBScr0 exBG exBZ))) = true.
Proof.
  cbv zeta.
  split; [apply (scale_herm_embed QcS 2 QcS_ring); reflexivity|].
  split; [vm_compute; reflexivity|].
  split; [apply (herm_matb_ok (BlockS_eqb QcS 2 QcS_eqb)); vm_compute; reflexivity|].
  split; [apply (ts_hermb_ok (BlockS_eqb QcS 2 QcS_eqb)); vm_compute; reflexivity|].
  split; [intros A HA; apply (solve_check_block_ok exBH); [vm_compute; reflexivity|exact HA]|].
  split; [vm_compute; reflexivity|].
  split; [apply (levels_gs_okb_ok (BlockS_eqb QcS 2 QcS_eqb)); vm_compute; reflexivity|].
  split; [intros l Hl; apply (levels_goodb_ok (BlockS_eqb QcS 2 QcS_eqb) exBJac exBH); [vm_compute; reflexivity|exact Hl]|].
  split; [apply block_levels_nosolve_top; vm_compute; lia|].
  split; [apply (colvecBb_ok QcS 2 QcS_field QcS_eqb); vm_compute; reflexivity|].
  split; [apply (colvecBb_ok QcS 2 QcS_field QcS_eqb); vm_compute; reflexivity|].
  split; [intro H; specialize (H 0); apply (proj2 (BlockS_eqb QcS 2 QcS_eqb _ _)) in H; vm_compute in H; discriminate H|].
  split; vm_compute; reflexivity.
Qed.

(* ================================================================== *)
(* Block Chebyshev, the coefficient condition discharged for SCALAR bounds (WZ6, AmgBlockCycleSym4Cheb.v): the embedded
   self-conjugate base scalars c*I of static_matrix<T,b,b> (T a field, sinv 0 = 0, the pivot-order laws of the dense
   inverse) are closed under + - * and sinv (C02_block_embedded_scalar_inverse: sinv (c I) = c^-1 I through the pivoted LU
   model of detail::inverse; the zero block takes the default), hence alpha_k, beta_k of the Chebyshev recurrence are embedded
   self-conjugate scalars -- central and hermitian -- as soon as lower, higher and the Gershgorin bound are.  The bound of the
   model always IS an embedded scalar (sabs of a block = its Frobenius norm times I; C02_block_gershgorin_bound_is_scalar,
   self-conjugacy of the norm as hypothesis, trivial at Qc).  What is left of cheby_coefs_herm: the entries of the scaling
   vector (inverted diagonal blocks) are hermitian -- nothing for scale = false. *)
From Amgcl Require Import InversePivotQc AmgBlockCycleSym4Cheb.

Theorem C02_block_embedded_scalar_inverse (S0 : Scalar) (b : nat) (Sft : Sfield S0) (Seqb0 : seqb_spec S0)
  (sinv_0 : sinv (@s0 S0) = s0) (Hb : 0 < b)
  (Olt_irrefl : forall a : S0, sltb a a = false)
  (Olt_trans : forall a c d : S0, sltb a c = true -> sltb c d = true -> sltb a d = true)
  (Oabs_0 : sabs (@s0 S0) = s0) (Oabs_pos : forall x : S0, x <> s0 -> sltb s0 (sabs x) = true) (c : S0) :
  sinv (s := BlockS S0 b) (blk_embed S0 b c) = blk_embed S0 b (sinv c).
Proof. exact (emb_inv S0 b Sft Seqb0 sinv_0 Hb Olt_irrefl Olt_trans Oabs_0 Oabs_pos c). Qed.
Print Assumptions C02_block_embedded_scalar_inverse.

Theorem C02_block_gershgorin_bound_is_scalar (S0 : Scalar) (b : nat) (Sft : Sfield S0)
  (sadj_add0 : forall x y : S0, sadj (x + y) = sadj x + sadj y)
  (sadj_mul0 : forall x y : S0, sadj (x * y) = sadj x * sadj y)
  (sadj_invol0 : forall x : S0, sadj (sadj x) = x)
  (Hnorm : forall l : vec S0, sadj (sm_norm l) = sm_norm l) scale (A : crs (BlockS S0 b)) :
  exists rho : S0, gershgorin scale A = blk_embed S0 b rho /\ sadj rho = rho.
Proof. exact (emb_sc_gershgorin S0 b Sft sadj_add0 sadj_mul0 sadj_invol0 Hnorm scale A). Qed.
Print Assumptions C02_block_gershgorin_bound_is_scalar.

Theorem C02_chebyshev_coefficients_hermitian_scalar_bounds (S0 : Scalar) (b : nat) (Sft : Sfield S0) (Seqb0 : seqb_spec S0)
  (sinv_0 : sinv (@s0 S0) = s0) (Hb : 0 < b)
  (Olt_irrefl : forall a : S0, sltb a a = false)
  (Olt_trans : forall a c d : S0, sltb a c = true -> sltb c d = true -> sltb a d = true)
  (Oabs_0 : sabs (@s0 S0) = s0) (Oabs_pos : forall x : S0, x <> s0 -> sltb s0 (sabs x) = true)
  (sadj_add0 : forall x y : S0, sadj (x + y) = sadj x + sadj y)
  (sadj_mul0 : forall x y : S0, sadj (x * y) = sadj x * sadj y)
  (sadj_invol0 : forall x : S0, sadj (sadj x) = x)
  degree (lo hi : S0) scale (A : crs (BlockS S0 b)) :
  sadj lo = lo -> sadj hi = hi ->
  (exists rho : S0, gershgorin scale A = blk_embed S0 b rho /\ sadj rho = rho) ->
  (forall i, i < nrows A ->
     sadj (mu (snd (cheby_setup scale A (gershgorin scale A) (blk_embed S0 b lo : BlockS S0 b) (blk_embed S0 b hi)
                      (vzero (nrows A)))) i) =
     mu (snd (cheby_setup scale A (gershgorin scale A) (blk_embed S0 b lo : BlockS S0 b) (blk_embed S0 b hi)
                (vzero (nrows A)))) i) ->
  cheby_coefs_herm (S := BlockS S0 b) degree (blk_embed S0 b lo) (blk_embed S0 b hi) scale A.
Proof.
  exact (cheby_coefs_herm_embedded S0 b Sft Seqb0 sinv_0 Hb Olt_irrefl Olt_trans Oabs_0 Oabs_pos sadj_add0 sadj_mul0
           sadj_invol0 degree lo hi scale A).
Qed.
Print Assumptions C02_chebyshev_coefficients_hermitian_scalar_bounds.

Theorem C02_apply_symmetric_blocks_chebyshev_scalar_bounds (S0 : Scalar) (b : nat) (Sft : Sfield S0) (Seqb0 : seqb_spec S0)
  (sinv_0 : sinv (@s0 S0) = s0) (Hb : 0 < b)
  (Olt_irrefl : forall a : S0, sltb a a = false)
  (Olt_trans : forall a c d : S0, sltb a c = true -> sltb c d = true -> sltb a d = true)
  (Oabs_0 : sabs (@s0 S0) = s0) (Oabs_pos : forall x : S0, x <> s0 -> sltb s0 (sabs x) = true)
  (sadj_add0 : forall x y : S0, sadj (x + y) = sadj x + sadj y)
  (sadj_mul0 : forall x y : S0, sadj (x * y) = sadj x * sadj y)
  (sadj_invol0 : forall x : S0, sadj (sadj x) = x)
  degree (lo hi : S0) scale ce ml (sc : option (BlockS S0 b)) ts (M : crs (BlockS S0 b)) k nc pc :
  sadj lo = lo -> sadj hi = hi ->
  scale_herm sc -> wf M = true -> herm_mat (nrows M) M -> ts_herm (nrows M) ts ->
  (forall l, In l (amg_init ce false ml (coarse_op_of sc) ts M) ->
     (exists rho : S0, gershgorin scale (ld_A l) = blk_embed S0 b rho /\ sadj rho = rho) /\
     (forall i, i < nrows (ld_A l) ->
        sadj (mu (snd (cheby_setup scale (ld_A l) (gershgorin scale (ld_A l)) (blk_embed S0 b lo : BlockS S0 b)
                         (blk_embed S0 b hi) (vzero (nrows (ld_A l))))) i) =
        mu (snd (cheby_setup scale (ld_A l) (gershgorin scale (ld_A l)) (blk_embed S0 b lo : BlockS S0 b)
                   (blk_embed S0 b hi) (vzero (nrows (ld_A l))))) i)) ->
  let lvls := block_levels S0 b (R5Cheby (S := BlockS S0 b) degree (blk_embed S0 b lo) (blk_embed S0 b hi) scale)
                (amg_init ce false ml (coarse_op_of sc) ts M) in
  forall scr1 scr2 f g x1 x2,
  scratch_wf lvls scr1 -> scratch_wf lvls scr2 ->
  length f = nrows M -> length g = nrows M -> length x1 = nrows M -> length x2 = nrows M ->
  ipH (S := BlockS S0 b) (nrows M) (fst (apply k k nc (Datatypes.S pc) lvls scr1 f x1)) g =
  ipH (S := BlockS S0 b) (nrows M) f (fst (apply k k nc (Datatypes.S pc) lvls scr2 g x2)).
Proof.
  exact (block_apply_herm_cheby_scalar_bounds S0 b Sft Seqb0 sinv_0 Hb Olt_irrefl Olt_trans Oabs_0 Oabs_pos sadj_add0
           sadj_mul0 sadj_invol0 degree lo hi scale ce ml sc ts M k nc pc).
Qed.
Print Assumptions C02_apply_symmetric_blocks_chebyshev_scalar_bounds.

(* closed at the exact rationals; scale = false: NO smoother hypothesis is left *)
Theorem C02_apply_symmetric_blocks_chebyshev_scalar_bounds_noscale_Qc (b : nat) (Hb : 0 < b)
  degree (lo hi : QcS) ce ml (sc : option (BlockS QcS b)) ts (M : crs (BlockS QcS b)) k nc pc :
  scale_herm sc -> wf M = true -> herm_mat (nrows M) M -> ts_herm (nrows M) ts ->
  let lvls := block_levels QcS b (R5Cheby (S := BlockS QcS b) degree (blk_embed QcS b lo) (blk_embed QcS b hi) false)
                (amg_init ce false ml (coarse_op_of sc) ts M) in
  forall scr1 scr2 f g x1 x2,
  scratch_wf lvls scr1 -> scratch_wf lvls scr2 ->
  length f = nrows M -> length g = nrows M -> length x1 = nrows M -> length x2 = nrows M ->
  ipH (S := BlockS QcS b) (nrows M) (fst (apply k k nc (Datatypes.S pc) lvls scr1 f x1)) g =
  ipH (S := BlockS QcS b) (nrows M) f (fst (apply k k nc (Datatypes.S pc) lvls scr2 g x2)).
Proof. exact (block_apply_herm_cheby_noscale_Qc b Hb degree lo hi ce ml sc ts M k nc pc). Qed.
Print Assumptions C02_apply_symmetric_blocks_chebyshev_scalar_bounds_noscale_Qc.

(* with diagonal scaling: the hermitian-ness of the scaling entries (inverted diagonal blocks) stays, per level *)
Theorem C02_apply_symmetric_blocks_chebyshev_scalar_bounds_Qc (b : nat) (Hb : 0 < b)
  degree (lo hi : QcS) scale ce ml (sc : option (BlockS QcS b)) ts (M : crs (BlockS QcS b)) k nc pc :
  scale_herm sc -> wf M = true -> herm_mat (nrows M) M -> ts_herm (nrows M) ts ->
  (forall l, In l (amg_init ce false ml (coarse_op_of sc) ts M) ->
     forall i, i < nrows (ld_A l) ->
        sadj (mu (snd (cheby_setup scale (ld_A l) (gershgorin scale (ld_A l)) (blk_embed QcS b lo : BlockS QcS b)
                         (blk_embed QcS b hi) (vzero (nrows (ld_A l))))) i) =
        mu (snd (cheby_setup scale (ld_A l) (gershgorin scale (ld_A l)) (blk_embed QcS b lo : BlockS QcS b)
                   (blk_embed QcS b hi) (vzero (nrows (ld_A l))))) i) ->
  let lvls := block_levels QcS b (R5Cheby (S := BlockS QcS b) degree (blk_embed QcS b lo) (blk_embed QcS b hi) scale)
                (amg_init ce false ml (coarse_op_of sc) ts M) in
  forall scr1 scr2 f g x1 x2,
  scratch_wf lvls scr1 -> scratch_wf lvls scr2 ->
  length f = nrows M -> length g = nrows M -> length x1 = nrows M -> length x2 = nrows M ->
  ipH (S := BlockS QcS b) (nrows M) (fst (apply k k nc (Datatypes.S pc) lvls scr1 f x1)) g =
  ipH (S := BlockS QcS b) (nrows M) f (fst (apply k k nc (Datatypes.S pc) lvls scr2 g x2)).
Proof. exact (block_apply_herm_cheby_scaled_Qc b Hb degree lo hi scale ce ml sc ts M k nc pc). Qed.
Print Assumptions C02_apply_symmetric_blocks_chebyshev_scalar_bounds_Qc.

(* non-vacuity on exBH' (non-commuting 2 x 2 blocks): lo = 1/30, hi = 1; the Gershgorin bound of both levels is an embedded
   rational, not zero, the scaling entries are hermitian; V(1,1)-cycle, degree 2, WITH diagonal scaling evaluated in Coq *)
Example C02_example_blocks_chebyshev_scalar_bounds :
  let lo := qc 1 30 in let hi := qc 1 1 in
  let Bop := fun scale f =>
    fst (apply 1 1 1 1 (block_levels QcS 2 (R5Cheby (S := B2) 2 (blk_embed QcS 2 lo) (blk_embed QcS 2 hi) scale) exBH')
           (map (@fresh_scratch B2) exBH') f exBZ) in
  scale_herm (S := B2) (Some exBhalf) /\ wf exBM = true /\ herm_mat (S := B2) (nrows exBM) exBM /\
  ts_herm (S := B2) (nrows exBM) exBTs /\
  length exBH' = 2 /\
  (forall l, In l exBH' -> forall scale : bool,
     (exists rho : QcS, gershgorin scale (ld_A l) = blk_embed QcS 2 rho /\ sadj rho = rho) /\
     (forall i, i < nrows (ld_A l) ->
        sadj (mu (snd (cheby_setup scale (ld_A l) (gershgorin scale (ld_A l)) (blk_embed QcS 2 lo : B2)
                         (blk_embed QcS 2 hi) (vzero (nrows (ld_A l))))) i) =
        mu (snd (cheby_setup scale (ld_A l) (gershgorin scale (ld_A l)) (blk_embed QcS 2 lo : B2)
                   (blk_embed QcS 2 hi) (vzero (nrows (ld_A l))))) i)) /\
  gershgorin (S := B2) false exBM <> s0 /\
  seqb (s := B2) (ipH (S := B2) 3 (Bop true exBF) exBG) (ipH (S := B2) 3 exBF (Bop true exBG)) = true.
Proof. exact block_cheby_scalar_bounds_example. Qed.

(* FULL STATEMENT (unproved part), as it stands now (WZ6; supersedes the FULL STATEMENT comment of WZ3 above, whose items
   (a'') and (c) are done).
   Statement: for S0 a field with an additive, multiplicative, involutive conjugation, b > 0, M : crs (BlockS S0 b) hermitian,
   transfer operators with R_l = adjoint P_l, scale_herm sc, k5 ANY of damped_jacobi, spai0, gauss_seidel, ilu0, chebyshev,
   npre = npost = k, any ncycle, pre_cycles >= 1, direct_coarse true or false, f and g COLUMN vectors (colvecB: entries with zero
   columns 1..b-1, the embedded static_matrix<T,b,1> values -- for direct_coarse = false the restriction is not needed):
     ipH (nrows M) (fst (apply k k nc pc lvls scr1 f x1)) g = ipH (nrows M) f (fst (apply k k nc pc lvls scr2 g x2)).
   PROVED (this round): direct_coarse = true -- C02_apply_symmetric_blocks_direct_coarse[_Qc] (Jacobi / SPAI-0 / Gauss-Seidel
   under good5), C02_apply_symmetric_blocks_ilu0_direct_coarse (structural level condition),
   C02_apply_symmetric_blocks_chebyshev_direct_coarse (coefficient condition); the only hypothesis on the coarse solver is that
   the expanded system is solvable (C02_block_coarse_solve_returns_column_vectors,
   C02_block_coarse_solve_hermitian_on_column_vectors; the cycle relative to the subspace:
   C02_apply_hermitian_on_subspace_nc); evaluated on the example hierarchy exBH with a direct solver
   (C02_example_blocks_direct_coarse_symmetric).  Chebyshev coefficients: alpha_k, beta_k are embedded self-conjugate scalars
   whenever lower, higher are, the Gershgorin bound of the model always is (C02_block_embedded_scalar_inverse,
   C02_block_gershgorin_bound_is_scalar, C02_chebyshev_coefficients_hermitian_scalar_bounds,
   C02_apply_symmetric_blocks_chebyshev_scalar_bounds[_Qc|_noscale_Qc]).
   NOT proved / left as hypotheses:
   (d) pre_cycles >= 2 for a hierarchy that consists of the direct solver ALONE (one level; hypothesis pc = 0 \/ nosolve_top):
       true (the solver ignores x when the system is solvable), not formalised.
   (e) the level condition (good5 / ilu0_level_ok_nc / cheby_coefs_herm) is required of the matrix of the LSolve level as
       well, although no smoother is built there (inherited from build_hier_herm).
   (f) chebyshev with scale = true: hermitian-ness of the inverted diagonal blocks (third conjunct of cheby_coefs_herm) stays
       a per-level hypothesis (follows from herm_inverse when the diagonal blocks are invertible on both sides; not wired).
   (g) over a general S0 the self-conjugacy of the Frobenius norm (sadj (sm_norm l) = sm_norm l) is a hypothesis of
       C02_block_gershgorin_bound_is_scalar (no law relates sadj to ssqrt / sabs in Scalar); closed at Qc.
   On the implementation the full statement is CHECKED exactly for all five smoothers (tools/props/c02_block.py). *)
