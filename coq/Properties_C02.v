(* Properties_C02.v -- placeholder header; theorems are added below as they are proved. *)
From Amgcl Require Import Scalar QcInst Vec Crs Kernels MatOps Amg.
Theorem C02_placeholder : True. Proof. exact I. Qed.
