(* AmgSmooth3.v -- C02-B1 closed for hierarchies produced by the model, with the level conditions
   of AmgSmooth / AmgSmooth2 (entries of any sign):
     damped Jacobi (0 < w <= 1)  on weakly diagonally dominant levels,
     SPAI-0                      on weakly diagonally dominant levels without duplicate columns,
     Gauss-Seidel                on symmetric positive semi-definite levels with positive diagonal,
   exact coarse solve: hier_dec holds, every V(k,k) / W(k,k) cycle (k >= 1) strictly decreases the
   energy norm of a non-zero error, B is positive definite, and every eigenvalue lambda (in the
   field) of the error propagation I - B A satisfies lambda^2 < 1. *)
From Amgcl Require Import Scalar Vec Crs Kernels KernelsProofs MatOps MatOpsProofs Relax RelaxProofs DenseSolve
  Amg AmgExec AmgProofs AmgProofs2 AmgProofs3 AmgProofs4 AmgProofs5 AmgProofs6 AmgProofs7 AmgProofs8
  AmgProofs9 AmgProofs10 AmgOrder AmgProofs11 AmgProofs12 AmgSmooth AmgSmooth2.
Local Open Scope S_scope.

Section Closed2.
Context {S : Scalar}.
Local Notation vec := (vec S).
Local Notation crs := (crs S).
Local Notation level := (@level S).
Local Notation ldesc := (@ldesc S).
Hypothesis Sft : Sfield S.
Hypothesis Seqb : seqb_spec S.
Hypothesis Ord : ordered S.
Hypothesis Habs2 : forall v : S, sabs v * sabs v = v * v.
Hypothesis Hadj : forall v : S, sadj v = v.   (* real value types: math::adjoint = id (SPAI-0 accumulates adjoint(a_ii)) *)
Let Srt : Sring S := F_R Sft.
Add Ring SRingSm3 : Srt.
Local Notation ip := (@ip S).

Definition psd0 (A : crs) : Prop := forall v : vec, ole s0 (qA (nrows A) A v v).

Definition lvl_ok (k : @relax_kind S) (A : crs) : Prop :=
  wf A = true /\ sym_mat (nrows A) A /\ psd0 A /\
  match k with
  | RJacobi w => wdd (nrows A) A /\ fdiag_ok A /\ olt s0 w /\ ole w s1
  | RSpai0 => wdd (nrows A) A /\ rows_nodup A
  | RGS => gs_diag_ok A /\ (forall i, i < nrows A -> olt s0 (mget A i i))
  end.

(* strictness of the pre-smoother on the top level *)
Definition lvl_strict (k : @relax_kind S) (A : crs) : Prop :=
  match k with RJacobi w => olt w s1 \/ idd (nrows A) A | _ => True end.

Lemma std_sweeps_dec2 k (A : crs) : lvl_ok k A ->
  it_dec (nrows A) A (sm (nrows A) (fst (mk_relax_std k A))) /\
  it_dec (nrows A) A (sm (nrows A) (snd (mk_relax_std k A))).
Proof.
  intros (WA & SA & _ & Hk). destruct k as [w| |]; cbn [mk_relax_std fst snd].
  - destruct Hk as (HW & Hfd & H0 & H1).
    split; apply (jacobi_w_dec Sft Seqb Ord A w (vzero (nrows A)) WA HW Hfd H0 H1).
  - destruct Hk as (HW & Hnd). split; apply (spai0_w_dec Sft Seqb Ord Habs2 Hadj A WA HW Hnd).
  - destruct Hk as (Hgs & Hpos).
    split; [apply (gs_it_dec Sft Seqb Ord A WA SA Hgs Hpos true)|apply (gs_it_dec Sft Seqb Ord A WA SA Hgs Hpos false)].
Qed.

Lemma std_pre_sdec2 k (A : crs) : lvl_ok k A -> lvl_strict k A ->
  it_sdec (nrows A) A (sm (nrows A) (fst (mk_relax_std k A))).
Proof.
  intros (WA & SA & _ & Hk) Hs. destruct k as [w| |]; cbn [mk_relax_std fst snd].
  - destruct Hk as (HW & Hfd & H0 & H1). destruct Hs as [Hs|Hs].
    + apply (jacobi_w_sdec Sft Seqb Ord A w (vzero (nrows A)) WA HW Hfd H0 Hs).
    + apply (jacobi_w_sdec_idd Sft Seqb Ord A w (vzero (nrows A)) WA HW Hfd H0 H1 Hs).
  - destruct Hk as (HW & Hnd). apply (spai0_w_sdec Sft Seqb Ord Habs2 Hadj A WA HW Hnd).
  - destruct Hk as (Hgs & Hpos). apply (gs_it_sdec Sft Seqb Ord A WA SA Hgs Hpos true).
Qed.

Fixpoint descs_ok (k : @relax_kind S) (ls : list ldesc) : Prop :=
  match ls with
  | [] => True
  | LMid A P R :: tl => lvl_ok k A /\ wf P = true /\ wf R = true /\ nrows P = nrows A /\
                        transp (nrows A) (nrows R) R P /\ descs_ok k tl
  | LLast A :: tl => lvl_ok k A /\ descs_ok k tl
  | LSolve A :: tl => lvl_ok k A /\ descs_ok k tl
  end.

Lemma descs_ok_A k l tl : descs_ok k (l :: tl) -> lvl_ok k (ld_A l) /\ descs_ok k tl.
Proof. destruct l; simpl; tauto. Qed.

Lemma inst_dec2 k (l : ldesc) : lvl_ok k (ld_A l) ->
  let il := instantiate (mk_relax_std k) mk_solve_exact l in
  it_dec (nrows (ld_A l)) (ld_A l) (sm (nrows (ld_A l)) (lpre il)) /\
  it_dec (nrows (ld_A l)) (ld_A l) (sm (nrows (ld_A l)) (lpost il)).
Proof.
  intros Hl. destruct l as [A P R|A|A]; cbn [instantiate lpre lpost ld_A] in *;
    try (apply std_sweeps_dec2; assumption).
  split; apply (id_sm_dec Sft Ord).
Qed.

Theorem chain_hier_dec2 k (ls : list ldesc) : chain (@galerkin S) ls -> descs_ok k ls ->
  hier_dec (std_levels k ls).
Proof.
  induction ls as [|l tl IH]; intros Hc Hd; [destruct Hc|].
  destruct (descs_ok_A k l tl Hd) as [Hl Htl].
  pose proof Hl as (WA & SA & Hpsd & _).
  unfold std_levels in *. cbn [map hier_dec]. rewrite (inst_lA (mk_relax_std k) mk_solve_exact).
  destruct (inst_sweeps_ok (mk_relax_std k) mk_solve_exact (mk_relax_std_ok k) l) as [Ok1 Ok2].
  destruct (inst_dec2 k l Hl) as [D1 D2].
  split; [exact Ok1|]. split; [exact Ok2|]. split; [exact WA|]. split; [exact SA|].
  split; [exact D1|]. split; [exact D2|].
  destruct tl as [|next tl'].
  - cbn [map]. split; [|exact I].
    intros sv Esv. destruct l as [A P R|A|A]; cbn in Esv; try discriminate.
    inversion Esv; subst. cbn [ld_A] in *. split; [apply mk_solve_exact_ok|].
    apply (exact_solve_dec Sft Seqb (O1 Ord) A); [apply SA|exact WA|exact SA|].
    intros v Lv. change (ole (sopp (qA (nrows A) A v v)) s0).
    apply (proj1 (ole_opp Srt Ord _)). apply Hpsd.
  - destruct l as [A P R| |]; simpl in Hc; try contradiction. destruct Hc as [Hn Hc].
    cbn [map]. split; [|apply IH; assumption].
    simpl in Hd. destruct Hd as (_ & WP & WR & NP & HT & _).
    cbn [instantiate lA lR lP ld_A] in *.
    rewrite (inst_lA (mk_relax_std k) mk_solve_exact), Hn, sort_rows_nrows.
    assert (E : nrows (galerkin A P R) = nrows R) by apply galerkin_shape.
    rewrite E. split; [exact WR|]. split; [exact WP|]. split; [reflexivity|]. split; [exact NP|].
    split; [exact HT|]. intros u _. apply (galerkin_energy Srt A P R (nrows A) (nrows R)); assumption.
Qed.

Definition top_strict_desc (k : @relax_kind S) (ls : list ldesc) : Prop :=
  match ls with l :: _ => lvl_strict k (ld_A l) | [] => False end.

Theorem chain_top_strict2 k (ls : list ldesc) : descs_ok k ls -> top_strict_desc k ls ->
  top_smoothed ls -> top_strict (std_levels k ls).
Proof.
  intros Hd Hs Ht. destruct ls as [|l tl]; [destruct Ht|].
  destruct (descs_ok_A k l tl Hd) as [Hl _]. cbn [top_strict_desc] in Hs.
  unfold std_levels. cbn [map top_strict]. rewrite (inst_lA (mk_relax_std k) mk_solve_exact).
  split.
  - destruct l as [A P R|A|A]; cbn [instantiate lpre ld_A] in *; [| |destruct Ht];
      apply std_pre_sdec2; assumption.
  - destruct tl as [|n2 tl']; cbn [map]; [|exact I].
    intros sv Esv. destruct l as [A P R|A|A]; cbn in Esv; try discriminate. destruct Ht.
Qed.

(* --- eigenvalues of the error propagation e -> Cyc(0, e) = e - B A e --- *)
Lemma qA_scaled n (A : crs) (e e' : vec) (lam : S) : ncols A = n ->
  (forall i, i < n -> vget e' i = lam * vget e i) ->
  qA n A e' e' = (lam * lam) * qA n A e e.
Proof.
  intros HcA He. unfold qA. rewrite <- (sumn_scal Srt). apply sumn_ext. intros i Hi.
  rewrite (He i Hi).
  replace (Ax A e' i) with (lam * Ax A e i); [ring|].
  unfold Ax. rewrite HcA, <- (sumn_scal Srt). apply sumn_ext. intros j Hj. rewrite (He j Hj). ring.
Qed.

Lemma sdec_eigen n (A : crs) (Phi : iteration) : wf A = true -> nrows A = n -> sym_mat n A ->
  it_sdec n A Phi ->
  forall (e : vec) (lam : S), length e = n -> res n A (z n) e <> z n -> olt s0 (qA n A e e) ->
  (forall i, i < n -> vget (Phi (z n) e) i = lam * vget e i) -> olt (lam * lam) s1.
Proof.
  intros WA NA SA HS e lam Le Hr Hq Hev.
  pose proof (HS (z n) e (Lz n) Le Hr) as H. unfold dJ, J in H.
  rewrite !(ip_zero_l Srt n) in H.
  rewrite (qA_scaled n A e (Phi (z n) e) lam (proj1 SA) Hev) in H.
  change (olt (lam * lam * qA n A e e - two * s0 - (qA n A e e - two * s0)) s0) in H.
  replace (lam * lam * qA n A e e - two * s0 - (qA n A e e - two * s0))
    with ((lam * lam - s1) * qA n A e e) in H by ring.
  apply (proj2 (olt_sub0 Srt Ord _ _)).
  replace ((lam * lam - s1) * qA n A e e) with (qA n A e e * (lam * lam - s1)) in H by ring.
  apply (olt_cancel_pos Srt Ord (qA n A e e)); assumption.
Qed.

(* closed statement *)
Theorem built_contracts2 kd ce dc ml ts (M : crs) k nc pc :
  let ls := amg_init ce dc ml (@galerkin S) ts M in
  descs_ok kd ls -> top_strict_desc kd ls -> top_smoothed ls ->
  let lvls := std_levels kd ls in
  (forall scr g x, scratch_wf lvls scr -> length g = nrows M -> length x = nrows M ->
   g <> vzero (nrows M) ->
   let B := fst (apply (Datatypes.S k) (Datatypes.S k) (Datatypes.S nc) (Datatypes.S pc) lvls scr g x) in
   lt0 (qA (nrows M) (sort_rows M) B B - two * ip (nrows M) g B) /\ olt s0 (ip (nrows M) g B)) /\
  it_sdec (nrows M) (sort_rows M) (Cyc (Datatypes.S k) (Datatypes.S nc) lvls) /\
  (forall (e : vec) (lam : S), length e = nrows M ->
     res (nrows M) (sort_rows M) (z (nrows M)) e <> z (nrows M) ->
     olt s0 (qA (nrows M) (sort_rows M) e e) ->
     (forall i, i < nrows M ->
        vget (Cyc (Datatypes.S k) (Datatypes.S nc) lvls (z (nrows M)) e) i = lam * vget e i) ->
     olt (lam * lam) s1).
Proof.
  intros ls Hd Hs Ht lvls.
  destruct (amg_init_chain ce dc ml (@galerkin S) ts M) as [Hc Hh]. fold ls in Hc, Hh.
  pose proof (chain_hier_dec2 kd ls Hc Hd) as HD. fold lvls in HD.
  pose proof (chain_top_strict2 kd ls Hd Hs Ht) as HS. fold lvls in HS.
  assert (En : top_n lvls = nrows M).
  { unfold lvls, std_levels. rewrite (top_n_inst _ _ _ _ Hh). apply sort_rows_nrows. }
  assert (EA : top_A lvls = sort_rows M).
  { unfold lvls, std_levels, top_A. destruct ls as [|l tl]; [destruct Hh|]. cbn [map hd].
    rewrite (inst_lA (mk_relax_std kd) mk_solve_exact). exact Hh. }
  assert (Hl : lvl_ok kd (sort_rows M)).
  { destruct ls as [|l tl]; [destruct Hh|]. simpl in Hh. rewrite <- Hh. apply (descs_ok_A kd l tl Hd). }
  destruct Hl as (WA & SA & Hpsd & _). unfold psd0 in Hpsd.
  rewrite sort_rows_nrows in SA, Hpsd.
  pose proof (Cyc_sdec Srt Seqb (O1 Ord) (O2 Sft Ord) (O3 Sft Ord) k nc lvls HD HS) as HCs.
  fold (top_A lvls) in HCs. rewrite En, EA in HCs.
  split; [|split].
  - intros scr g x Hscr Lg Lx Hg B.
    pose proof (apply_energy_strict Srt Seqb (O1 Ord) (O2 Sft Ord) (O3 Sft Ord) k nc pc lvls HD HS) as H.
    rewrite En, EA in H. specialize (H WA SA scr g x Hscr Lg Lx Hg). cbv zeta in H. fold B in H.
    split; [exact H|]. apply (pos_from_energy Sft Ord _ _ (Hpsd B) H).
  - exact HCs.
  - intros e lam Le Hr Hq Hev.
    apply (sdec_eigen (nrows M) (sort_rows M) _ WA (sort_rows_nrows M) SA HCs e lam Le Hr Hq Hev).
Qed.

End Closed2.
