(* DistRelaxProofs.v -- C12: the smoothers under MPI (DistRelax.v) rank by rank = the slices of the SERIAL smoother on the
   assembled matrix, for every contiguous partition (empty ranks included).

   Slices:   the pointwise kernels (axpby, vmul, clear) commute with taking a rank's slice.
   World:    dist_residual_pieces -- every rank's distributed residual (ghost exchange + remote part) is its slice of the
             serial residual (the rank-by-rank form of DistProofs.dist_residual_assembled);
             damped_jacobi / spai0 sweeps and apply; Chebyshev: the whole `degree`-step iteration by induction on the steps
             (every step starts with a distributed residual; all ranks hold the same (c, d), M = slices of the diagonal).
   EveryPartition: with the constructors -- DistRelaxProofsSetup.v (spai0 M, inverted diagonal) and
             DistProofsG.dist_gershgorin_split (every rank holds the serial Gershgorin bound) -- the complete objects.
   Hypotheses: ring laws, seqb decides equality, A well formed (columns < ncols) and square w.r.t. the partition; for the
   Gershgorin bound operator< is a strict total order. *)
From Coq Require Import List Arith Lia.
From Amgcl Require Import Scalar Vec Crs Kernels KernelsProofs MatOps Relax Cheby Dist DistProofs DistProofsG DistRelax DistRelaxProofsSetup.
Import ListNotations.
Local Open Scope S_scope.

(* ---------------------------------------------------------------- slices of pointwise kernels *)
Section Slices.
Context {S : Scalar}.
Local Notation vec := (vec S).

Lemma upd2_firstn (f : S -> S -> S) p : forall x y : vec,
  upd2 f (firstn p x) (firstn p y) = firstn p (upd2 f x y).
Proof.
  induction p as [|p IH]; intros x y; [reflexivity|].
  destruct x as [|a x], y as [|b y]; simpl; try reflexivity. f_equal. apply IH.
Qed.
Lemma upd2_skipn (f : S -> S -> S) p : forall x y : vec, length x = length y ->
  upd2 f (skipn p x) (skipn p y) = skipn p (upd2 f x y).
Proof.
  induction p as [|p IH]; intros x y H; [reflexivity|].
  destruct x as [|a x], y as [|b y]; simpl in *; try reflexivity; try discriminate. apply IH. lia.
Qed.
Lemma upd3_firstn (f : S -> S -> S -> S) p : forall x y z : vec,
  upd3 f (firstn p x) (firstn p y) (firstn p z) = firstn p (upd3 f x y z).
Proof.
  induction p as [|p IH]; intros x y z; [reflexivity|].
  destruct x as [|a x], y as [|b y], z as [|c z]; simpl; try reflexivity. f_equal. apply IH.
Qed.
Lemma upd3_skipn (f : S -> S -> S -> S) p : forall x y z : vec, length x = length y -> length y = length z ->
  upd3 f (skipn p x) (skipn p y) (skipn p z) = skipn p (upd3 f x y z).
Proof.
  induction p as [|p IH]; intros x y z H1 H2; [reflexivity|].
  destruct x as [|a x], y as [|b y], z as [|c z]; simpl in *; try reflexivity; try discriminate. apply IH; lia.
Qed.

Variable parts : list nat.
Local Notation ch v q := (nth q (chunks parts v) []).

Lemma ch_upd2 (f : S -> S -> S) (x y : vec) q : q < length parts -> length x = length y ->
  upd2 f (ch x q) (ch y q) = ch (upd2 f x y) q.
Proof.
  intros Hq H. rewrite !nth_chunks by exact Hq. rewrite upd2_firstn. f_equal. apply upd2_skipn. exact H.
Qed.
Lemma ch_upd3 (f : S -> S -> S -> S) (x y z : vec) q : q < length parts -> length x = length y -> length y = length z ->
  upd3 f (ch x q) (ch y q) (ch z q) = ch (upd3 f x y z) q.
Proof.
  intros Hq H1 H2. rewrite !nth_chunks by exact Hq. rewrite upd3_firstn. f_equal. apply upd3_skipn; assumption.
Qed.
Lemma ch_axpby a (x : vec) b (y : vec) q : q < length parts -> length x = length y ->
  axpby a (ch x q) b (ch y q) = ch (axpby a x b y) q.
Proof. intros Hq H. unfold axpby. destruct (is_zero b); apply ch_upd2; assumption. Qed.
Lemma ch_vmul a (x y : vec) b (z : vec) q : q < length parts -> length x = length y -> length y = length z ->
  vmul a (ch x q) (ch y q) b (ch z q) = ch (vmul a x y b z) q.
Proof. intros Hq H1 H2. unfold vmul. destruct (is_zero b); apply ch_upd3; assumption. Qed.
Lemma ch_vclear (x : vec) q : q < length parts -> vclear (ch x q) = ch (vclear x) q.
Proof.
  intro Hq. rewrite !nth_chunks by exact Hq. unfold vclear. rewrite skipn_map, firstn_map. reflexivity.
Qed.

Lemma axpby_length a (x : vec) b (y : vec) : length x = length y -> length (axpby a x b y) = length y.
Proof. intro H. unfold axpby. destruct (is_zero b); apply upd2_length; exact H. Qed.
Lemma vmul_length a (x y : vec) b (z : vec) : length x = length z -> length y = length z -> length (vmul a x y b z) = length z.
Proof. intros H1 H2. unfold vmul. destruct (is_zero b); apply upd3_length; assumption. Qed.

(* a world given rank by rank is the list of the slices *)
Lemma world_is_chunks {X} (G : nat -> list X) (v : list X) :
  (forall q, q < length parts -> G q = nth q (chunks parts v) []) ->
  map G (seq 0 (length parts)) = chunks parts v.
Proof.
  intro H. rewrite <- (map_nth_seq (chunks parts v) []) at 1. rewrite chunks_length.
  apply map_ext_in. intros q Hq. apply in_seq in Hq. apply H. lia.
Qed.
End Slices.

(* ---------------------------------------------------------------- the distributed residual, rank by rank *)
Section World.
Context {S : Scalar}.
Local Notation vec := (vec S).
Local Notation row := (row S).
Local Notation crs := (crs S).
Hypothesis Srt : Sring S.
Hypothesis Seqb : seqb_spec S.

Variable A : crs.
Variable parts : list nat.
Hypothesis Hrows : psum parts = nrows A.
Hypothesis Hcols : psum parts = ncols A.
Hypothesis Hwf : wf A = true.
Let D := Dist.split A parts parts.
Let n := nrows A.
Local Notation ch v q := (nth q (chunks parts v) []).
Local Notation cst := (@cst S).

Lemma residual_length (f x res : vec) : length f = n -> length res = n -> length (residual f A x res) = n.
Proof.
  intros Hf Hr. unfold residual. rewrite upd3_length; [exact Hr| |congruence].
  rewrite map_length. unfold n, nrows in *. congruence.
Qed.

Lemma chunks_map2 {X Y Z} (f : X -> Y -> Z) : forall (ps : list nat) (l1 : list X) (l2 : list Y), length l1 = length l2 ->
  map2 (map2 f) (chunks ps l1) (chunks ps l2) = chunks ps (map2 f l1 l2).
Proof.
  induction ps as [|p ps IH]; intros l1 l2 H; [reflexivity|]. cbn [chunks map2]. f_equal.
  - clear IH. revert l1 l2 H. induction p as [|p IH]; intros [|a l1] [|b l2] H; simpl in *; try reflexivity; try discriminate.
    f_equal. apply IH. lia.
  - rewrite IH by (rewrite !skipn_length; lia). f_equal.
    clear IH. revert l1 l2 H. induction p as [|p IH]; intros [|a l1] [|b l2] H; simpl in *; try reflexivity; try discriminate.
    apply IH. lia.
Qed.

Theorem dist_residual_pieces (f x res : vec) : length f = n -> length res = n ->
  dist_residual (chunks parts f) D (chunks parts x) (chunks parts res) = chunks parts (residual f A x res).
Proof.
  intros Hf Hres. unfold dist_residual. change (dm_cparts D) with parts.
  rewrite (map_ext_in _ (fun r => map2 (fun rw fi => fi - dotrow rw x)
                                       (nth r (chunks parts (rows A)) []) (nth r (chunks parts f) []))).
  - rewrite (map_seq_nth2 (map2 (fun rw fi => fi - dotrow rw x))
                          (chunks parts (rows A)) (chunks parts f) [] [] (length parts))
      by (apply chunks_length).
    rewrite chunks_map2 by (unfold n, nrows in Hf; lia).
    f_equal. symmetry. apply residual_map2; assumption.
  - intros r Hr. apply in_seq in Hr. destruct Hr as [_ Hr]. simpl in Hr.
    unfold D. rewrite cp_rc_nth by exact Hr. rewrite nth_rank by exact Hr. rewrite nth_rcs by exact Hr.
    unfold dm_pattern. change (dm_cparts (Dist.split A parts parts)) with parts.
    rewrite (exchange_spec parts _ (rcs_len A parts parts) (rcs_ok A parts parts eq_refl Hrows Hcols Hwf) x r Hr).
    rewrite nth_rcs by exact Hr.
    unfold split_rank.
    apply (rank_residual_spec Srt Seqb (pbeg parts r) (psize parts r) (ncols A)
                              (nth r (chunks parts (rows A)) []) x (nth r (chunks parts x) [])
                              (nth r (chunks parts f) []) (nth r (chunks parts res) [])).
    + intros c Hc. apply vget_chunk; assumption.
    + apply chunk_lengths_eq; [lia | exact Hf].
    + apply chunk_lengths_eq; [lia | exact Hres].
Qed.

(* ---- smoothers of the shape "distributed residual, then a pointwise update with the rank's slice of a vector" ---- *)
Theorem dist_sweep_pointwise (upd : nat -> vec -> vec -> vec) (UPD : vec -> vec -> vec) (f x tmp : vec) :
  length f = n -> length tmp = n -> length x = n ->
  (forall q t, q < length parts -> length t = n -> upd q (ch t q) (ch x q) = ch (UPD t x) q) ->
  dist_sweep upd D (chunks parts f) (chunks parts x) (chunks parts tmp) = chunks parts (serial_sweep UPD A f x tmp).
Proof.
  intros Hf Ht Hx Hu. unfold dist_sweep, serial_sweep. rewrite dist_residual_pieces by assumption.
  change (nranks D) with (length parts). apply world_is_chunks. intros q Hq.
  apply Hu; [exact Hq | apply residual_length; assumption].
Qed.

Theorem dist_apply_pointwise (app : nat -> vec -> vec -> vec) (APP : vec -> vec -> vec) (f x : vec) :
  (forall q, q < length parts -> app q (ch f q) (ch x q) = ch (APP f x) q) ->
  dist_apply app D (chunks parts f) (chunks parts x) = chunks parts (APP f x).
Proof.
  intro Hu. unfold dist_apply. change (nranks D) with (length parts). apply world_is_chunks. exact Hu.
Qed.

(* damped Jacobi and SPAI-0: x += w * M .* (f - A x) with the slices of the serial vector M *)
Theorem dist_jacobi_sweep_assembled (w : S) (dia f x tmp : vec) :
  length dia = n -> length f = n -> length tmp = n -> length x = n ->
  dist_jacobi_sweep w (chunks parts dia) D (chunks parts f) (chunks parts x) (chunks parts tmp)
  = chunks parts (fst (jacobi_sweep w dia A f x tmp)).
Proof.
  intros Hd Hf Ht Hx. unfold dist_jacobi_sweep.
  rewrite (dist_sweep_pointwise _ (fun t x => vmul w dia t s1 x)); try assumption; [reflexivity|].
  intros q t Hq Hl. apply ch_vmul; [exact Hq | congruence | congruence].
Qed.
Theorem dist_jacobi_apply_assembled (dia f x : vec) :
  length dia = n -> length f = n -> length x = n ->
  dist_jacobi_apply (chunks parts dia) D (chunks parts f) (chunks parts x) = chunks parts (jacobi_apply dia f x).
Proof.
  intros Hd Hf Hx. unfold dist_jacobi_apply.
  apply dist_apply_pointwise. intros q Hq. apply ch_vmul; [exact Hq | congruence | congruence].
Qed.
Theorem dist_spai0_sweep_assembled (M f x tmp : vec) :
  length M = n -> length f = n -> length tmp = n -> length x = n ->
  dist_spai0_sweep (chunks parts M) D (chunks parts f) (chunks parts x) (chunks parts tmp)
  = chunks parts (fst (spai0_sweep M A f x tmp)).
Proof.
  intros Hd Hf Ht Hx. unfold dist_spai0_sweep.
  rewrite (dist_sweep_pointwise _ (fun t x => vmul s1 M t s1 x)); try assumption; [reflexivity|].
  intros q t Hq Hl. apply ch_vmul; [exact Hq | congruence | congruence].
Qed.
Theorem dist_spai0_apply_assembled (M f x : vec) :
  length M = n -> length f = n -> length x = n ->
  dist_spai0_apply (chunks parts M) D (chunks parts f) (chunks parts x) = chunks parts (spai0_apply M f x).
Proof.
  intros Hd Hf Hx. unfold dist_spai0_apply.
  apply dist_apply_pointwise. intros q Hq. apply ch_vmul; [exact Hq | congruence | congruence].
Qed.

(* ---- Chebyshev: every step with a distributed residual; all ranks hold the same (c, d) ---- *)
Definition spread (st : cst) : list cst :=
  map (fun q => (ch (st_x st) q, ch (st_p st) q, ch (st_r st) q, st_a st)) (seq 0 (length parts)).
Definition spread_cdm (cdM : S * S * option vec) : list (S * S * option vec) :=
  map (fun q => (fst (fst cdM), snd (fst cdM), match snd cdM with Some m => Some (ch m q) | None => None end))
      (seq 0 (length parts)).
Definition st_ok (M : option vec) (st : cst) : Prop :=
  length (st_x st) = n /\ length (st_p st) = n /\ length (st_r st) = n /\
  match M with Some m => length m = n | None => True end.

Lemma cheby_step_rest (two quarter c d : S) M (b : vec) (st : cst) k :
  cheby_step two quarter c d M A b st k
  = cheby_rest two quarter c d M (residual b A (st_x st) (st_r st)) (st_x st) (st_p st) (st_a st) k.
Proof. destruct st as [[[x p] r] a]. reflexivity. Qed.

Lemma map_spread_x st : map (@st_x S) (spread st) = chunks parts (st_x st).
Proof. unfold spread. rewrite map_map. apply world_is_chunks. reflexivity. Qed.
Lemma map_spread_r st : map (@st_r S) (spread st) = chunks parts (st_r st).
Proof. unfold spread. rewrite map_map. apply world_is_chunks. reflexivity. Qed.

Lemma dist_cheby_step_spread (c d : S) (M : option vec) (f : vec) (st : cst) (k : nat) :
  length f = n -> st_ok M st ->
  dist_cheby_step (spread_cdm (c, d, M)) D (chunks parts f) (spread st) k
  = spread (cheby_step c_two c_quarter c d M A f st k)
  /\ st_ok M (cheby_step c_two c_quarter c d M A f st k).
Proof.
  intros Hf (Hx & Hp & Hr & HM).
  assert (Hres : length (residual f A (st_x st) (st_r st)) = n) by (apply residual_length; assumption).
  rewrite cheby_step_rest. set (r1 := residual f A (st_x st) (st_r st)) in *.
  unfold dist_cheby_step. rewrite map_spread_x, map_spread_r.
  rewrite dist_residual_pieces by assumption. fold r1.
  change (nranks D) with (length parts).
  unfold cheby_rest.
  set (r2 := match M with Some m => vmul s1 m r1 s0 r1 | None => r1 end).
  assert (Hr2 : length r2 = n).
  { unfold r2. destruct M as [m|]; [|exact Hres]. rewrite vmul_length; congruence. }
  destruct (cheby_coef c_two c_quarter c d k (st_a st)) as [alpha' beta] eqn:Hco.
  assert (Hp' : length (axpby alpha' r2 beta (st_p st)) = n) by (rewrite axpby_length; congruence).
  assert (Hx' : length (axpby s1 (axpby alpha' r2 beta (st_p st)) s1 (st_x st)) = n) by (rewrite axpby_length; congruence).
  split.
  - unfold spread. cbn [st_x st_p st_r st_a fst snd].
    apply map_ext_in. intros q Hq. apply in_seq in Hq. assert (Hq' : q < length parts) by lia.
    unfold spread_cdm. rewrite !nth_map_seq by exact Hq'. cbn [st_x st_p st_r st_a fst snd].
    rewrite Hco.
    subst r2. destruct M as [m|]; cbn [fst snd].
    + assert (E1 := ch_vmul parts s1 m r1 s0 r1 q Hq' ltac:(congruence) ltac:(congruence)).
      assert (E2 := ch_axpby parts alpha' (vmul s1 m r1 s0 r1) beta (st_p st) q Hq' ltac:(congruence)).
      assert (E3 := ch_axpby parts s1 (axpby alpha' (vmul s1 m r1 s0 r1) beta (st_p st)) s1 (st_x st) q Hq' ltac:(congruence)).
      unfold Vec.vec in *. rewrite E1, E2, E3. reflexivity.
    + assert (E2 := ch_axpby parts alpha' r1 beta (st_p st) q Hq' ltac:(congruence)).
      assert (E3 := ch_axpby parts s1 (axpby alpha' r1 beta (st_p st)) s1 (st_x st) q Hq' ltac:(congruence)).
      unfold Vec.vec in *. rewrite E2, E3. reflexivity.
  - unfold st_ok. cbn [st_x st_p st_r st_a fst snd]. repeat split; assumption.
Qed.

Lemma dist_cheby_fold (c d : S) (M : option vec) (f : vec) : length f = n ->
  forall (ks : list nat) (st : cst), st_ok M st ->
  fold_left (dist_cheby_step (spread_cdm (c, d, M)) D (chunks parts f)) ks (spread st)
  = spread (fold_left (cheby_step c_two c_quarter c d M A f) ks st).
Proof.
  intros Hf ks. induction ks as [|k ks IH]; intros st Hst; [reflexivity|].
  cbn [fold_left]. destruct (dist_cheby_step_spread c d M f st k Hf Hst) as [E Hok].
  rewrite E. apply IH. exact Hok.
Qed.

Theorem dist_cheby_sweep_assembled (c d : S) (M : option vec) (degree : nat) (f x p r : vec) :
  length f = n -> length x = n -> length p = n -> length r = n ->
  match M with Some m => length m = n | None => True end ->
  dist_cheby_sweep (spread_cdm (c, d, M)) degree D (chunks parts f) (chunks parts x) (chunks parts p) (chunks parts r)
  = chunks parts (cheby_sweep (c, d, M) degree A f x p r).
Proof.
  intros Hf Hx Hp Hr HM. unfold dist_cheby_sweep, dist_cheby_solve, cheby_sweep, cheby_solve.
  change (nranks D) with (length parts).
  change (map (fun q => (ch x q, ch p q, ch r q, s0)) (seq 0 (length parts))) with (spread (x, p, r, s0)).
  rewrite dist_cheby_fold by (try assumption; unfold st_ok; cbn; repeat split; assumption).
  rewrite map_spread_x.
  destruct (fold_left (cheby_step c_two c_quarter c d M A f) (seq 0 degree) (x, p, r, s0)) as [[[x' p'] r'] a'].
  reflexivity.
Qed.

Theorem dist_cheby_apply_assembled (c d : S) (M : option vec) (degree : nat) (f x p r : vec) :
  length f = n -> length x = n -> length p = n -> length r = n ->
  match M with Some m => length m = n | None => True end ->
  dist_cheby_apply (spread_cdm (c, d, M)) degree D (chunks parts f) (chunks parts x) (chunks parts p) (chunks parts r)
  = chunks parts (cheby_apply (c, d, M) degree A f x p r).
Proof.
  intros Hf Hx Hp Hr HM. unfold dist_cheby_apply, cheby_apply.
  assert (E : map (@vclear S) (chunks parts x) = chunks parts (vclear x)).
  { rewrite <- (map_nth_seq (chunks parts x) []) at 1. rewrite chunks_length, map_map.
    apply world_is_chunks. intros q Hq. apply ch_vclear. exact Hq. }
  rewrite E. apply dist_cheby_sweep_assembled; try assumption. unfold vclear. rewrite map_length. exact Hx.
Qed.

End World.

Arguments spread {S} parts st.
Arguments spread_cdm {S} parts cdM.

(* ---------------------------------------------------------------- constructor + sweeps: the complete objects *)
Section EveryPartition.
Context {S : Scalar}.
Local Notation vec := (vec S).
Local Notation crs := (crs S).
Hypothesis Srt : Sring S.
Hypothesis Seqb : seqb_spec S.
(* operator< is a strict total order (used by the Gershgorin bound of chebyshev only) *)
Hypothesis lt_irrefl : forall a : S, sltb a a = false.
Hypothesis lt_trans  : forall a b c : S, sltb a b = true -> sltb b c = true -> sltb a c = true.
Hypothesis lt_total  : forall a b : S, sltb a b = false -> sltb b a = false -> a = b.

Variable A : crs.
Variable parts : list nat.
Hypothesis Hrows : psum parts = nrows A.
Hypothesis Hcols : psum parts = ncols A.
Hypothesis Hwf : wf A = true.
Let D := Dist.split A parts parts.
Let n := nrows A.

Lemma indexed_len {X} (l : list X) : length (indexed l) = length l.
Proof. unfold indexed. rewrite combine_length, seq_length. lia. Qed.
Lemma diagonal_len (inv : bool) (junk : vec) : length (diagonal A inv junk) = n.
Proof. unfold diagonal. rewrite map_length, indexed_len. reflexivity. Qed.
Lemma spai0_len : length (spai0_setup A) = n.
Proof. unfold spai0_setup. rewrite map_length, indexed_len. reflexivity. Qed.
Lemma nth_repeat_lt {X} (v d : X) m q : q < m -> nth q (repeat v m) d = v.
Proof. revert q; induction m as [|m IH]; intros [|q] H; simpl; try lia; try reflexivity. apply IH. lia. Qed.

(* damped_jacobi: built from the local diagonal block, swept with the distributed residual *)
Theorem dist_jacobi_every_partition (w : S) (junk f x tmp : vec) :
  length f = n -> length x = n -> length tmp = n ->
  let dias := dist_jacobi_setup D (chunks parts junk) in
  dias = chunks parts (jacobi_setup A junk) /\
  dist_jacobi_sweep w dias D (chunks parts f) (chunks parts x) (chunks parts tmp)
    = chunks parts (fst (jacobi_sweep w (jacobi_setup A junk) A f x tmp)) /\
  dist_jacobi_apply dias D (chunks parts f) (chunks parts x) = chunks parts (jacobi_apply (jacobi_setup A junk) f x).
Proof.
  intros Hf Hx Ht dias.
  assert (E : dias = chunks parts (jacobi_setup A junk)) by (apply dist_jacobi_setup_split; exact Hrows).
  assert (Hl : length (jacobi_setup A junk) = n) by apply diagonal_len.
  split; [exact E|]. rewrite E. split.
  - apply dist_jacobi_sweep_assembled; assumption.
  - apply dist_jacobi_apply_assembled; assumption.
Qed.

(* spai0: M from the local and the remote part of the rows *)
Theorem dist_spai0_every_partition (f x tmp : vec) :
  length f = n -> length x = n -> length tmp = n ->
  let Ms := dist_spai0_setup D in
  Ms = chunks parts (spai0_setup A) /\
  dist_spai0_sweep Ms D (chunks parts f) (chunks parts x) (chunks parts tmp)
    = chunks parts (fst (spai0_sweep (spai0_setup A) A f x tmp)) /\
  dist_spai0_apply Ms D (chunks parts f) (chunks parts x) = chunks parts (spai0_apply (spai0_setup A) f x).
Proof.
  intros Hf Hx Ht Ms.
  assert (E : Ms = chunks parts (spai0_setup A)) by (apply dist_spai0_setup_split; [exact Srt | exact Hrows]).
  split; [exact E|]. rewrite E. split.
  - apply dist_spai0_sweep_assembled; try assumption. apply spai0_len.
  - apply dist_spai0_apply_assembled; try assumption. apply spai0_len.
Qed.

(* chebyshev: built from the DISTRIBUTED matrix *)

Theorem dist_chebyshev_every_partition (scale : bool) (lower higher : S) (degree : nat) (junk f x p r : vec) :
  length f = n -> length x = n -> length p = n -> length r = n ->
  let his := dist_cheby_rho scale D in
  let cdMs := dist_cheby_setup scale D his lower higher (chunks parts junk) in
  let cdM := cheby_setup scale A (gershgorin scale A) lower higher junk in
  his = repeat (gershgorin scale A) (length parts) /\
  cdMs = spread_cdm parts cdM /\
  dist_cheby_sweep cdMs degree D (chunks parts f) (chunks parts x) (chunks parts p) (chunks parts r)
    = chunks parts (cheby_sweep cdM degree A f x p r) /\
  dist_cheby_apply cdMs degree D (chunks parts f) (chunks parts x) (chunks parts p) (chunks parts r)
    = chunks parts (cheby_apply cdM degree A f x p r).
Proof.
  intros Hf Hx Hp Hr his cdMs cdM.
  assert (Eh : his = repeat (gershgorin scale A) (length parts)).
  { unfold his, dist_cheby_rho, D. apply (dist_gershgorin_split lt_irrefl lt_trans lt_total Srt). exact Hrows. }
  assert (Ej := dist_jacobi_setup_split A parts junk Hrows).
  assert (Ec : cdMs = spread_cdm parts cdM).
  { unfold cdMs, dist_cheby_setup, spread_cdm. change (nranks D) with (length parts).
    apply map_ext_in. intros q Hq. apply in_seq in Hq. assert (Hq' : q < length parts) by lia.
    rewrite Eh, nth_repeat_lt by exact Hq'.
    unfold cdM, cheby_setup. destruct (cheby_cd c_half (gershgorin scale A) lower higher) as [c d].
    destruct scale; cbn [fst snd]; [|reflexivity].
    do 2 f_equal.
    apply (f_equal (fun l => nth q l [])) in Ej. cbv beta in Ej. unfold dist_jacobi_setup in Ej.
    change (nranks (Dist.split A parts parts)) with (length parts) in Ej.
    rewrite nth_map_seq in Ej by exact Hq'. exact Ej. }
  split; [exact Eh|]. split; [exact Ec|]. rewrite Ec.
  unfold cdM, cheby_setup. destruct (cheby_cd c_half (gershgorin scale A) lower higher) as [c d].
  assert (HM : match (if scale then Some (diagonal A true junk) else None) with Some m => length m = n | None => True end).
  { destruct scale; [apply diagonal_len | exact I]. }
  split.
  - apply dist_cheby_sweep_assembled; assumption.
  - apply dist_cheby_apply_assembled; assumption.
Qed.

End EveryPartition.

(* ---------------------------------------------------------------- the rank-local estimate (model of a regression) *)
(* what the wrapper computes when chebyshev is built from *A.local() like the other serial smoothers: every rank runs the
   SERIAL Gershgorin estimate on its diagonal block, without the remote entries and without the MPI_MAX *)
Definition local_block_rho {S : Scalar} (scale : bool) (D : dmat S) : list S :=
  map (fun r => gershgorin scale (rm_loc (rk D r))) (seq 0 (nranks D)).
