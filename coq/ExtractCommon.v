(* ExtractCommon.v -- extraction directives shared by every Extract_<group>.v.
   Trusted base (DESIGN.md section 6):
     ExtrOcamlBasic   : bool, option, unit, list, prod, sumbool -> OCaml types
     ExtrOcamlNatInt  : nat -> OCaml int (indices only; < 2^62)
     ExtrOcamlZBigInt : positive, N, Z -> Big_int_Z (zarith)
   plus ONE Extract Constant of our own: Z.ggcd (used by Qred, i.e. by every rational
   operation) is realised by zarith's gcd instead of Coq's bit-by-bit binary algorithm,
   which is 100x slower on the multi-thousand-digit rationals of exact multigrid cycles.
   Contract of Z.ggcd a b = (g, (aa, bb)): g = gcd a b >= 0, a = g*aa, b = g*bb
   (Z.ggcd_correct_divisors, Z.ggcd_gcd); ocaml/io.ml self-checks the replacement against
   these equations at start-up. *)
From Coq Require Export Extraction ExtrOcamlBasic ExtrOcamlNatInt ExtrOcamlZBigInt.
From Coq Require Import ZArith.
Extract Constant Z.ggcd =>
  "(fun a b -> let g = Big_int_Z.gcd_big_int a b in
     if Big_int_Z.sign_big_int g = 0 then (g, (a, b))
     else (g, (Big_int_Z.div_big_int a g, Big_int_Z.div_big_int b g)))".
Extraction Blacklist List String Int Nat.
Set Extraction Optimize.
