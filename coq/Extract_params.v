(* Extract_params.v -- extraction of the property-tree model (Ptree.v), of the regenerated
   tables (ParamsGen.v) and of the C-API model (Capi.v) to OCaml.  Directives (trusted
   base): ExtrOcamlBasic, ExtrOcamlNatInt, ExtrOcamlZBigInt, ExtrOcamlNativeString
   (Coq string -> OCaml string).  The scalar base modules are extracted too because the
   shared ocaml/io.ml refers to them. *)
From Coq Require Import Extraction ExtrOcamlBasic ExtrOcamlNatInt ExtrOcamlZBigInt ExtrOcamlNativeString.
From Coq Require Import QArith Qcanon.
From Amgcl Require Import Scalar QcInst Vec Crs Ptree ParamsGen.
Extraction Blacklist List String Int Nat.
Set Extraction Optimize.
Separate Extraction
  QcInst.QcS Scalar.is_zero Scalar.smax Scalar.smin
  Vec Crs Ptree ParamsGen.
