(* Extract_params.v -- extraction of the property-tree model (Ptree.v), of the regenerated
   tables (ParamsGen.v) and of the C-API model (Capi.v) to OCaml.  Directives (trusted
   base): ExtractCommon.v (ExtrOcamlBasic, ExtrOcamlNatInt, ExtrOcamlZBigInt, Z.ggcd) plus
   ExtrOcamlNativeString (Coq string -> OCaml string).  The scalar base modules are extracted too because the
   shared ocaml/io.ml refers to them. *)
From Amgcl Require Import ExtractCommon.
From Coq Require Import ExtrOcamlNativeString.
From Coq Require Import QArith Qcanon.
From Amgcl Require Import Scalar QcInst Vec Crs Ptree ParamsGen Capi Capi2.
Separate Extraction
  QcInst.QcS Scalar.is_zero Scalar.smax Scalar.smin
  Vec Crs Ptree ParamsGen Capi Capi2.
