(* ReuseProofs.v -- property C15: "solver and preconditioner objects are reusable; calls do
   not leak state".  Every mutable member of a C++ object is an explicit state input of the
   Gallina model.  "A call on a used object = the same call on a fresh object" is stated as
   independence of the observable result from that state, for the state reached after an
   arbitrary HISTORY of earlier calls; the state left behind by a call again satisfies the
   (length) guards the next call needs.  No algebraic law is used anywhere in this file: the
   theorems hold for every Scalar record, in particular for IEEE floats with NaN / Inf.
   Parts 2 and 3 need the single fact [is_zero s0 = true] (the beta == zero fast paths of
   backend::axpby / spmv are taken for the literal zero).

   Part 1  solver::skyline_lu (amgcl/solver/skyline_lu.hpp:178-199, operator(): forward sweep,
           backward sweep, scatter).  Mutable member: the work vector y (line 218).  Model Direct.v
           [sky_solve f rhs x y] returns (x', y'); [sky_history] threads y' through a list of
           earlier (rhs, x) calls.  [skyline_reuse]: the solution after any history equals
           the solution with any other scratch of the right size.

   Part 2  relaxation::chebyshev (amgcl/relaxation/chebyshev.hpp:143-204).  Mutable members
           p, r (line 173).  solve() (lines 177-204): backend::residual(b, A, x, r) overwrites
           r in every iteration; at k = 0 beta = zero, so axpby(alpha, r, zero, p) overwrites
           p.  Model Cheby.v [cheby_solve]; [cheby_call] is one call of solve() on an object
           whose state is (p, r), returning the new x and the new state.  apply() (lines
           158-163) clears x first: [cheby_apply_reuse].  With degree = 0 the loop body never
           runs: x is returned unchanged and the state is kept, hence the full-pair equality
           only for 1 <= degree.

   Part 3  amg::rebuild (amgcl/amg.hpp:254-273) and level::rebuild (amg.hpp:426-458) replace
           the matrix, the smoother and the coarse solver of every level and recompute the
           coarse operators, but KEEP the per-level work vectors f, u, t (allocated by the
           constructor, amg.hpp:363-365 and 418-419) with whatever they contain.  Models Amg.v
           ([amg_init], [amg_rebuild], [apply] with the scratch list as explicit state) and
           AmgExec.v ([std_levels]).  [amg_reuse_after_rebuild]: an apply on the rebuilt object
           with the OLD scratch (any content) equals the apply of a fresh object constructed
           from the new matrix with the same transfer operators.  [amg_reuse_any_life]: the
           same after any interleaving of rebuilds and applies. *)
From Coq Require Import List Arith Lia.
Import ListNotations.
From Amgcl Require Import Scalar Vec Crs Kernels KernelsProofs MatOps MatOpsProofs Relax DenseSolve
  DirectUtil CuthillMcKee Direct DirectProofs Cheby
  Amg AmgExec AmgProofs AmgProofs2 AmgProofs3.
Local Open Scope S_scope.
Local Open Scope nat_scope.

(* ================================================================== *)
(* Part 1: skyline_lu *)
Section Skyline.
Context {S : Scalar}.
Local Notation vec := (vec S).

Fixpoint sky_history (f : skyline S) (y : vec) (hist : list (vec * vec)) : vec :=
  match hist with
  | [] => y
  | (rhs, x) :: tl => sky_history f (snd (sky_solve f rhs x y)) tl
  end.

Lemma sky_history_length (f : skyline S) hist : forall y : vec,
  length (sky_history f y hist) = length y.
Proof.
  induction hist as [|[rhs x] tl IH]; intro y; simpl; [reflexivity|].
  rewrite IH. exact (sky_solve_scratch_length f rhs x y).
Qed.

Theorem skyline_reuse (f : skyline S) (rhs x y0 yfresh : vec) (hist : list (vec * vec)) :
  profile_wf (sk_n f) (sk_ptr f) -> length y0 = sk_n f -> length yfresh = sk_n f ->
  fst (sky_solve f rhs x (sky_history f y0 hist)) = fst (sky_solve f rhs x yfresh).
Proof.
  intros Hwf H0 Hf. f_equal.
  apply sky_solve_junk_independent; [exact Hwf| |exact Hf].
  rewrite sky_history_length. exact H0.
Qed.

(* the whole result (solution and scratch left behind) *)
Theorem skyline_reuse_full (f : skyline S) (rhs x y0 yfresh : vec) (hist : list (vec * vec)) :
  profile_wf (sk_n f) (sk_ptr f) -> length y0 = sk_n f -> length yfresh = sk_n f ->
  sky_solve f rhs x (sky_history f y0 hist) = sky_solve f rhs x yfresh.
Proof.
  intros Hwf H0 Hf.
  apply sky_solve_junk_independent; [exact Hwf| |exact Hf].
  rewrite sky_history_length. exact H0.
Qed.

End Skyline.

(* ================================================================== *)
(* Part 2: Chebyshev relaxation object *)
Section Chebyshev.
Context {S : Scalar}.
Local Notation vec := (vec S).
Local Notation crs := (crs S).
Hypothesis Z : is_zero (@s0 S) = true.

Definition cheby_call (cdM : S * S * option vec) (degree : nat) (A : crs)
  (st : vec * vec) (b x : vec) : vec * (vec * vec) :=
  let '(c, d, M) := cdM in
  let '(x', p', r', _) := cheby_solve c_two c_quarter c d M degree A b x (fst st) (snd st) in
  (x', (p', r')).

Definition cheby_state_ok (A : crs) (st : vec * vec) : Prop :=
  length (fst st) = nrows A /\ length (snd st) = nrows A.

(* the inverted diagonal (present iff prm.scale) has the size of the matrix *)
Local Notation M_ok A M := (forall m : vec, M = Some m -> length m = nrows A).

Lemma cheby_call_is_sweep cdM degree A p r b x :
  fst (cheby_call cdM degree A (p, r) b x) = cheby_sweep cdM degree A b x p r.
Proof.
  unfold cheby_call, cheby_sweep. destruct cdM as [[c d] M]. cbn [fst snd].
  destruct (cheby_solve c_two c_quarter c d M degree A b x p r) as [[[x' p'] r'] al].
  reflexivity.
Qed.

(* relaxation::chebyshev::apply (the as_preconditioner entry point): clear x, then solve *)
Lemma cheby_call_is_apply cdM degree A p r b x :
  fst (cheby_call cdM degree A (p, r) b (vclear x)) = cheby_apply cdM degree A b x p r.
Proof. unfold cheby_apply. apply cheby_call_is_sweep. Qed.

(* the scaled residual r2 of one iteration: independent of the old r, length nrows A *)
Definition cheby_r2 (M : option vec) (A : crs) (b x r : vec) : vec :=
  let r1 := residual b A x r in
  match M with Some m => vmul s1 m r1 s0 r1 | None => r1 end.

Lemma cheby_r2_length M A b x r : M_ok A M -> length b = nrows A -> length r = nrows A ->
  length (cheby_r2 M A b x r) = nrows A.
Proof.
  intros HM Hb Hr. unfold cheby_r2.
  pose proof (residual_length b A x r Hb Hr) as H1.
  destruct M as [m|]; [|exact H1].
  pose proof (HM m eq_refl) as Hm.
  rewrite vmul_length; congruence.
Qed.

Lemma cheby_r2_indep M A b x r r' : length b = nrows A -> length r = nrows A ->
  length r' = nrows A -> cheby_r2 M A b x r = cheby_r2 M A b x r'.
Proof.
  intros Hb Hr Hr'. unfold cheby_r2.
  rewrite (residual_ignores_res b A x r r' Hb Hr Hr'). reflexivity.
Qed.

Lemma cheby_step_eq two quarter c d M A b x p r alpha k :
  cheby_step two quarter c d M A b (x, p, r, alpha) k =
  let r2 := cheby_r2 M A b x r in
  let p' := axpby (fst (cheby_coef two quarter c d k alpha)) r2
                  (snd (cheby_coef two quarter c d k alpha)) p in
  (axpby s1 p' s1 x, p', r2, fst (cheby_coef two quarter c d k alpha)).
Proof.
  unfold cheby_step, cheby_r2.
  destruct (cheby_coef two quarter c d k alpha) as [a' be]. reflexivity.
Qed.

(* lengths are an invariant of one iteration *)
Lemma cheby_step_lengths two quarter c d M A b st k :
  M_ok A M -> length b = nrows A ->
  length (fst (fst (fst st))) = nrows A -> length (snd (fst (fst st))) = nrows A ->
  length (snd (fst st)) = nrows A ->
  let st' := cheby_step two quarter c d M A b st k in
  length (fst (fst (fst st'))) = nrows A /\ length (snd (fst (fst st'))) = nrows A /\
  length (snd (fst st')) = nrows A.
Proof.
  destruct st as [[[x p] r] alpha]. cbn [fst snd]. intros HM Hb Hx Hp Hr.
  rewrite cheby_step_eq. cbn zeta. cbn [fst snd].
  pose proof (cheby_r2_length M A b x r HM Hb Hr) as H2.
  assert (Hp' : length (axpby (fst (cheby_coef two quarter c d k alpha)) (cheby_r2 M A b x r)
                   (snd (cheby_coef two quarter c d k alpha)) p) = nrows A).
  { rewrite axpby_length; congruence. }
  split; [|split; [exact Hp'|exact H2]].
  rewrite axpby_length; congruence.
Qed.

Lemma cheby_fold_lengths two quarter c d M A b ks : forall st,
  M_ok A M -> length b = nrows A ->
  length (fst (fst (fst st))) = nrows A -> length (snd (fst (fst st))) = nrows A ->
  length (snd (fst st)) = nrows A ->
  let st' := fold_left (cheby_step two quarter c d M A b) ks st in
  length (fst (fst (fst st'))) = nrows A /\ length (snd (fst (fst st'))) = nrows A /\
  length (snd (fst st')) = nrows A.
Proof.
  induction ks as [|k ks IH]; intros st HM Hb Hx Hp Hr; simpl; [auto|].
  destruct (cheby_step_lengths two quarter c d M A b st k HM Hb Hx Hp Hr) as (H1 & H2 & H3).
  apply IH; assumption.
Qed.

(* iteration k = 0 (beta = zero) overwrites p and r: the whole new state is independent of
   the old p and r *)
Lemma cheby_step0_indep two quarter c d M A b x p1 r1 p2 r2 :
  M_ok A M -> length b = nrows A ->
  length p1 = nrows A -> length r1 = nrows A -> length p2 = nrows A -> length r2 = nrows A ->
  cheby_step two quarter c d M A b (x, p1, r1, s0) 0 =
  cheby_step two quarter c d M A b (x, p2, r2, s0) 0.
Proof.
  intros HM Hb Hp1 Hr1 Hp2 Hr2. rewrite !cheby_step_eq. cbn zeta.
  rewrite (cheby_r2_indep M A b x r1 r2 Hb Hr1 Hr2).
  pose proof (cheby_r2_length M A b x r2 HM Hb Hr2) as HL.
  cbn [cheby_coef fst snd].
  rewrite (axpby_b0_ignores_y (sinv d) (cheby_r2 M A b x r2) s0 p1 p2 Z) by congruence.
  reflexivity.
Qed.

Lemma cheby_solve_state_independent c d M degree A b x p1 r1 p2 r2 :
  M_ok A M -> length b = nrows A ->
  length p1 = nrows A -> length r1 = nrows A -> length p2 = nrows A -> length r2 = nrows A ->
  1 <= degree ->
  cheby_solve c_two c_quarter c d M degree A b x p1 r1 =
  cheby_solve c_two c_quarter c d M degree A b x p2 r2.
Proof.
  intros HM Hb Hp1 Hr1 Hp2 Hr2 Hd. unfold cheby_solve.
  destruct degree as [|n]; [lia|]. cbn [seq fold_left].
  f_equal. apply cheby_step0_indep; assumption.
Qed.

Theorem cheby_call_state_independent_full c d M degree A st1 st2 b x :
  M_ok A M -> length b = nrows A -> length x = nrows A ->
  cheby_state_ok A st1 -> cheby_state_ok A st2 -> 1 <= degree ->
  cheby_call (c, d, M) degree A st1 b x = cheby_call (c, d, M) degree A st2 b x.
Proof.
  intros HM Hb Hx [Hp1 Hr1] [Hp2 Hr2] Hd. unfold cheby_call.
  rewrite (cheby_solve_state_independent c d M degree A b x (fst st1) (snd st1) (fst st2) (snd st2));
    auto.
Qed.

Theorem cheby_call_state_independent c d M degree A st1 st2 b x :
  M_ok A M -> length b = nrows A -> length x = nrows A ->
  cheby_state_ok A st1 -> cheby_state_ok A st2 ->
  fst (cheby_call (c, d, M) degree A st1 b x) = fst (cheby_call (c, d, M) degree A st2 b x).
Proof.
  intros HM Hb Hx H1 H2. destruct degree as [|n].
  - reflexivity.
  - rewrite (cheby_call_state_independent_full c d M (Datatypes.S n) A st1 st2 b x); auto. lia.
Qed.

Lemma cheby_call_proj c d M degree A st b x :
  cheby_call (c, d, M) degree A st b x =
  let q := cheby_solve c_two c_quarter c d M degree A b x (fst st) (snd st) in
  (fst (fst (fst q)), (snd (fst (fst q)), snd (fst q))).
Proof.
  unfold cheby_call.
  destruct (cheby_solve c_two c_quarter c d M degree A b x (fst st) (snd st)) as [[[x' p'] r'] al].
  reflexivity.
Qed.

Lemma cheby_call_lengths c d M degree A st b x :
  M_ok A M -> length b = nrows A -> length x = nrows A -> cheby_state_ok A st ->
  cheby_state_ok A (snd (cheby_call (c, d, M) degree A st b x)) /\
  length (fst (cheby_call (c, d, M) degree A st b x)) = nrows A.
Proof.
  intros HM Hb Hx [Hp Hr]. rewrite cheby_call_proj. cbn zeta. unfold cheby_state_ok. cbn [fst snd].
  pose proof (cheby_fold_lengths c_two c_quarter c d M A b (seq 0 degree)
                (x, fst st, snd st, s0) HM Hb Hx Hp Hr) as H.
  cbn zeta in H. unfold cheby_solve. tauto.
Qed.

(* the state left behind again satisfies what the next call needs *)
Theorem cheby_call_state_ok c d M degree A st b x :
  M_ok A M -> length b = nrows A -> length x = nrows A -> cheby_state_ok A st ->
  cheby_state_ok A (snd (cheby_call (c, d, M) degree A st b x)).
Proof. intros HM Hb Hx Hst. apply cheby_call_lengths; assumption. Qed.

Theorem cheby_call_result_length c d M degree A st b x :
  M_ok A M -> length b = nrows A -> length x = nrows A -> cheby_state_ok A st ->
  length (fst (cheby_call (c, d, M) degree A st b x)) = nrows A.
Proof. intros HM Hb Hx Hst. apply cheby_call_lengths; assumption. Qed.

Fixpoint cheby_history (cdM : S * S * option vec) (degree : nat) (A : crs) (st : vec * vec)
  (hist : list (vec * vec)) : vec * vec :=
  match hist with
  | [] => st
  | (b, x) :: tl => cheby_history cdM degree A (snd (cheby_call cdM degree A st b x)) tl
  end.

Local Notation hist_ok A hist :=
  (Forall (fun bx : vec * vec => length (fst bx) = nrows A /\ length (snd bx) = nrows A) hist).

Lemma cheby_history_state_ok c d M degree A hist : forall st,
  M_ok A M -> hist_ok A hist -> cheby_state_ok A st ->
  cheby_state_ok A (cheby_history (c, d, M) degree A st hist).
Proof.
  induction hist as [|[b x] tl IH]; intros st HM HF Hst; [exact Hst|].
  inversion HF as [|? ? [Hb Hx] HF']; subst. cbn [fst snd] in Hb, Hx.
  cbn [cheby_history]. apply IH; [exact HM|exact HF'|].
  apply cheby_call_state_ok; assumption.
Qed.

Theorem cheby_reuse c d M degree A st0 stfresh hist b x :
  M_ok A M -> hist_ok A hist -> cheby_state_ok A st0 -> cheby_state_ok A stfresh ->
  length b = nrows A -> length x = nrows A ->
  fst (cheby_call (c, d, M) degree A (cheby_history (c, d, M) degree A st0 hist) b x) =
  fst (cheby_call (c, d, M) degree A stfresh b x).
Proof.
  intros HM HF H0 Hf Hb Hx.
  apply cheby_call_state_independent; try assumption.
  apply cheby_history_state_ok; assumption.
Qed.

Lemma vclear_eq (x1 x2 : vec) : length x1 = length x2 -> vclear x1 = vclear x2.
Proof.
  unfold vclear. revert x2; induction x1 as [|a x1 IH]; intros [|b x2] H; simpl in *;
    try discriminate; [reflexivity|]. f_equal. apply IH. congruence.
Qed.

Theorem cheby_apply_reuse c d M degree A st1 st2 b x1 x2 :
  M_ok A M -> cheby_state_ok A st1 -> cheby_state_ok A st2 ->
  length b = nrows A -> length x1 = nrows A -> length x2 = nrows A ->
  fst (cheby_call (c, d, M) degree A st1 b (vclear x1)) =
  fst (cheby_call (c, d, M) degree A st2 b (vclear x2)).
Proof.
  intros HM H1 H2 Hb Hx1 Hx2.
  rewrite (vclear_eq x1 x2) by congruence.
  apply cheby_call_state_independent; try assumption.
  rewrite vclear_length. exact Hx2.
Qed.

(* as_preconditioner on a used object: any history, then apply with any incoming x *)
Theorem cheby_apply_reuse_history c d M degree A st0 stfresh hist b x1 x2 :
  M_ok A M -> hist_ok A hist -> cheby_state_ok A st0 -> cheby_state_ok A stfresh ->
  length b = nrows A -> length x1 = nrows A -> length x2 = nrows A ->
  fst (cheby_call (c, d, M) degree A (cheby_history (c, d, M) degree A st0 hist) b (vclear x1)) =
  fst (cheby_call (c, d, M) degree A stfresh b (vclear x2)).
Proof.
  intros HM HF H0 Hf Hb Hx1 Hx2.
  apply cheby_apply_reuse; try assumption.
  apply cheby_history_state_ok; assumption.
Qed.

End Chebyshev.

(* ================================================================== *)
(* Part 3: amg object after rebuild *)
Section AmgRebuild.
Context {S : Scalar}.
Local Notation vec := (vec S).
Local Notation crs := (crs S).
Local Notation ldesc := (@ldesc S).
Local Notation scratch := (@scratch S).

(* the list of level sizes of a hierarchy *)
Definition level_sizes (ls : list ldesc) : list nat := map (fun l => nrows (ld_A l)) ls.

Lemma build_level_sizes ce dc ml (cop : crs -> crs -> crs -> crs) (Hs : coarse_shape cop) ts :
  forall (A A' : crs) nlev, nrows A = nrows A' ->
  level_sizes (build ce dc ml cop ts A nlev) = level_sizes (build ce dc ml cop ts A' nlev).
Proof.
  induction ts as [|t ts' IH]; intros A A' nlev Hn;
    rewrite (build_unfold ce dc ml cop _ A), (build_unfold ce dc ml cop _ A'), <- Hn.
  - destruct (Nat.leb (nrows A) ce); [destruct dc; cbn; rewrite Hn; reflexivity|].
    destruct (Nat.leb ml (Datatypes.S nlev)); cbn; rewrite Hn; reflexivity.
  - destruct (Nat.leb (nrows A) ce); [destruct dc; cbn; rewrite Hn; reflexivity|].
    destruct (Nat.leb ml (Datatypes.S nlev)); [cbn; rewrite Hn; reflexivity|].
    destruct t as [[P R]|]; [|cbn; rewrite Hn; reflexivity].
    unfold level_sizes. cbn [map ld_A]. fold (level_sizes). rewrite Hn. f_equal.
    apply IH. rewrite !sort_rows_nrows, !Hs. reflexivity.
Qed.

Lemma amg_init_level_sizes ce dc ml (cop : crs -> crs -> crs -> crs) (Hs : coarse_shape cop) ts
  (M M' : crs) : nrows M' = nrows M ->
  level_sizes (amg_init ce dc ml cop ts M) = level_sizes (amg_init ce dc ml cop ts M').
Proof.
  intro Hn. unfold amg_init. apply build_level_sizes; [exact Hs|].
  rewrite !sort_rows_nrows. symmetry. exact Hn.
Qed.

(* scratch_wf of instantiated levels only looks at the level sizes *)
Lemma scratch_wf_level_sizes mkr mks : forall (ls1 ls2 : list ldesc) (scr : list scratch),
  level_sizes ls1 = level_sizes ls2 ->
  scratch_wf (map (instantiate mkr mks) ls1) scr -> scratch_wf (map (instantiate mkr mks) ls2) scr.
Proof.
  induction ls1 as [|l1 ls1 IH]; intros [|l2 ls2] scr H; try discriminate; [auto|].
  destruct scr as [|s ss]; cbn [map scratch_wf]; [auto|].
  rewrite !inst_lA. unfold level_sizes in H. cbn [map] in H. injection H as H1 H2.
  rewrite H1. intros [Ha Hb]. split; [exact Ha|]. apply (IH ls2 ss H2 Hb).
Qed.

Lemma std_scratch_wf_level_sizes k (ls1 ls2 : list ldesc) (scr : list scratch) :
  level_sizes ls1 = level_sizes ls2 ->
  scratch_wf (std_levels k ls1) scr -> scratch_wf (std_levels k ls2) scr.
Proof. apply scratch_wf_level_sizes. Qed.

Hypothesis Z : is_zero (@s0 S) = true.

Section Params.
Variables (ce : nat) (dc : bool) (ml : nat) (sc : option S) (ts : list (option (crs * crs))).
(* M: the matrix given to the constructor; Ms, M': the matrices of the rebuild calls *)
Variables (M : crs) (Ms : list crs) (M' : crs).
Variable k : @relax_kind S.
Variables npre npost ncycle pre_cycles : nat.
Local Notation cop := (coarse_op_of sc).
Local Notation init := (amg_init ce dc ml cop ts).
Local Notation apply := (apply npre npost ncycle pre_cycles).
Local Notation run_history := (run_history npre npost ncycle pre_cycles).
Local Notation hist_ok n hist :=
  (Forall (fun fx : vec * vec => length (fst fx) = n /\ length (snd fx) = n) hist).

(* facts about one built hierarchy *)
Lemma init_facts (X : crs) :
  hier_wf (std_levels k (init X)) /\ std_levels k (init X) <> [] /\
  top_n (std_levels k (init X)) = nrows X.
Proof.
  destruct (amg_init_chain ce dc ml cop ts X) as [Hc Hh].
  destruct (std_levels_wf k _ _ (coarse_op_of_shape sc) Hc) as (Hw & Hne & _).
  split; [exact Hw|]. split; [exact Hne|].
  unfold std_levels. rewrite (top_n_inst _ _ _ _ Hh). apply sort_rows_nrows.
Qed.

(* a history of applies keeps the scratch well-formed *)
Lemma run_history_wf (X : crs) hist : forall scr,
  hist_ok (nrows X) hist -> scratch_wf (std_levels k (init X)) scr ->
  scratch_wf (std_levels k (init X)) (run_history (std_levels k (init X)) scr hist).
Proof.
  destruct (init_facts X) as (Hw & Hne & Ht).
  induction hist as [|[f y] tl IH]; intros scr HF Hs; [exact Hs|].
  inversion HF as [|? ? [Hf Hy] HF']; subst. cbn [fst snd] in Hf, Hy.
  cbn [AmgProofs3.run_history]. apply IH; [exact HF'|].
  apply (apply_history_indep Z npre npost ncycle pre_cycles _ Hw Hne scr scr f y y); congruence.
Qed.

(* scr: the scratch of the object, allocated for the ORIGINAL hierarchy, with any content (for
   instance what any history of applies left there); scrf: the scratch of a fresh object built
   from M' with the same transfer operators.  x1, x2: the incoming content of the output
   vector (apply clears or overwrites it). *)
Theorem amg_reuse_after_rebuild :
  Forall (fun X => nrows X = nrows M) Ms -> nrows M' = nrows M ->
  let ls0 := init M in
  let ls' := amg_rebuild cop (fold_left (amg_rebuild cop) Ms ls0) M' in
  let lfresh := init M' in
  forall scr scrf rhs x1 x2,
  scratch_wf (std_levels k ls0) scr ->
  scratch_wf (std_levels k lfresh) scrf ->
  length rhs = nrows M -> length x1 = nrows M -> length x2 = nrows M ->
  fst (apply (std_levels k ls') scr rhs x1) = fst (apply (std_levels k lfresh) scrf rhs x2).
Proof.
  intros HF Hn ls0 ls' lfresh scr scrf rhs x1 x2 Hs Hsf Lr L1 L2.
  assert (E : ls' = lfresh)
    by (apply (amg_rebuild_history ce dc ml cop (coarse_op_of_shape sc) ts M Ms M' HF Hn)).
  rewrite E.
  apply (built_apply_history_indep Z ce dc ml sc ts M' k npre npost ncycle pre_cycles);
    [|exact Hsf|congruence..].
  apply (std_scratch_wf_level_sizes k ls0 lfresh scr); [|exact Hs].
  apply amg_init_level_sizes; [apply coarse_op_of_shape|exact Hn].
Qed.

(* history form: a history of applies on the original hierarchy, then the rebuilds, then a
   history of applies on the rebuilt hierarchy, then the observed apply *)
Theorem amg_reuse_history_rebuild_history :
  Forall (fun X => nrows X = nrows M) Ms -> nrows M' = nrows M ->
  let ls0 := init M in
  let ls' := amg_rebuild cop (fold_left (amg_rebuild cop) Ms ls0) M' in
  let lfresh := init M' in
  forall scr0 scrf hist1 hist2 rhs x1 x2,
  scratch_wf (std_levels k ls0) scr0 ->
  scratch_wf (std_levels k lfresh) scrf ->
  hist_ok (nrows M) hist1 -> hist_ok (nrows M) hist2 ->
  length rhs = nrows M -> length x1 = nrows M -> length x2 = nrows M ->
  fst (apply (std_levels k ls')
         (run_history (std_levels k ls') (run_history (std_levels k ls0) scr0 hist1) hist2)
         rhs x1) =
  fst (apply (std_levels k lfresh) scrf rhs x2).
Proof.
  intros HF Hn ls0 ls' lfresh scr0 scrf hist1 hist2 rhs x1 x2 Hs Hsf H1 H2 Lr L1 L2.
  assert (E : ls' = lfresh)
    by (apply (amg_rebuild_history ce dc ml cop (coarse_op_of_shape sc) ts M Ms M' HF Hn)).
  rewrite E.
  apply (built_apply_history_indep Z ce dc ml sc ts M' k npre npost ncycle pre_cycles);
    [|exact Hsf|congruence..].
  apply run_history_wf; [rewrite Hn; exact H2|].
  apply (std_scratch_wf_level_sizes k ls0 lfresh); [apply amg_init_level_sizes;
    [apply coarse_op_of_shape|exact Hn]|].
  apply run_history_wf; assumption.
Qed.

(* the general form: any interleaving of rebuilds and applies *)
Inductive amg_event : Type :=
| EvRebuild (M : crs)
| EvApply (rhs x : vec).

Definition event_ok (n : nat) (e : amg_event) : Prop :=
  match e with
  | EvRebuild M => nrows M = n
  | EvApply rhs x => length rhs = n /\ length x = n
  end.

(* state of the object: the level descriptors and the per-level scratch vectors *)
Fixpoint amg_life (ls : list ldesc) (scr : list scratch) (evs : list amg_event)
  : list ldesc * list scratch :=
  match evs with
  | [] => (ls, scr)
  | EvRebuild M :: tl => amg_life (amg_rebuild cop ls M) scr tl
  | EvApply rhs x :: tl => amg_life ls (snd (apply (std_levels k ls) scr rhs x)) tl
  end.

(* the matrix passed to the last rebuild (the constructor's matrix when there was none) *)
Fixpoint last_matrix (M : crs) (evs : list amg_event) : crs :=
  match evs with
  | [] => M
  | EvRebuild M' :: tl => last_matrix M' tl
  | EvApply _ _ :: tl => last_matrix M tl
  end.

Lemma amg_life_invariant evs : forall (X : crs) scr,
  Forall (event_ok (nrows X)) evs -> scratch_wf (std_levels k (init X)) scr ->
  nrows (last_matrix X evs) = nrows X /\
  fst (amg_life (init X) scr evs) = init (last_matrix X evs) /\
  scratch_wf (std_levels k (init (last_matrix X evs))) (snd (amg_life (init X) scr evs)).
Proof.
  induction evs as [|e tl IH]; intros X scr HF Hs.
  - cbn. auto.
  - inversion HF as [|? ? He HF']; subst. destruct e as [X'|rhs x]; cbn [event_ok] in He.
    + cbn [amg_life last_matrix].
      rewrite (amg_rebuild_init ce dc ml cop (coarse_op_of_shape sc) ts X X' He).
      destruct (IH X' scr) as (I1 & I2 & I3).
      * rewrite He. exact HF'.
      * apply (std_scratch_wf_level_sizes k (init X) (init X') scr); [|exact Hs].
        apply amg_init_level_sizes; [apply coarse_op_of_shape|exact He].
      * split; [congruence|]. split; assumption.
    + destruct He as [Lr Lx]. cbn [amg_life last_matrix].
      apply IH; [exact HF'|].
      apply (run_history_wf X [(rhs, x)] scr); [|exact Hs].
      constructor; [split; assumption|constructor].
Qed.

Theorem amg_reuse_any_life (evs : list amg_event) scr0 scrf rhs x1 x2 :
  Forall (event_ok (nrows M)) evs ->
  scratch_wf (std_levels k (init M)) scr0 ->
  let obj := amg_life (init M) scr0 evs in
  let lfresh := init (last_matrix M evs) in
  scratch_wf (std_levels k lfresh) scrf ->
  length rhs = nrows M -> length x1 = nrows M -> length x2 = nrows M ->
  fst (apply (std_levels k (fst obj)) (snd obj) rhs x1) =
  fst (apply (std_levels k lfresh) scrf rhs x2).
Proof.
  intros HF Hs obj lfresh Hsf Lr L1 L2.
  destruct (amg_life_invariant evs M scr0 HF Hs) as (I1 & I2 & I3).
  unfold obj. rewrite I2.
  apply (built_apply_history_indep Z ce dc ml sc ts (last_matrix M evs) k npre npost ncycle
           pre_cycles); [exact I3|exact Hsf|congruence..].
Qed.

End Params.
End AmgRebuild.
