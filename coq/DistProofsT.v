(* DistProofsT.v -- C11-B: the distributed transpose (Dist.dist_transpose, the rank-by-rank model
   of amgcl::mpi::transpose) assembles, row by row, to a permutation of the serial transpose of
   the assembled matrix -- for every row and column partition, any scalar type. *)
From Coq Require Import Permutation.
From Amgcl Require Import Scalar Vec Crs Kernels MatOps Dist DistProofs.
Local Open Scope nat_scope.

Section Transpose.
Context {S : Scalar}.
Local Notation row := (row S).
Local Notation crs := (crs S).

(* column j of a block of rows whose first row has global index s: (row index, adjoint value) *)
Definition tcol (s j : nat) (rws : list row) : row :=
  flat_map (fun ir : nat * row => map (fun e => (fst ir + s, sadj (snd e))) (filter (fun e => Nat.eqb (fst e) j) (snd ir)))
           (indexed rws).

Lemma combine_seq_app {X} (l1 l2 : list X) : forall a,
  combine (seq a (length l1 + length l2)) (l1 ++ l2)
  = combine (seq a (length l1)) l1 ++ combine (seq (a + length l1) (length l2)) l2.
Proof.
  induction l1 as [|x l1 IH]; intro a; simpl.
  - rewrite Nat.add_0_r. reflexivity.
  - f_equal. rewrite IH. f_equal. f_equal. f_equal. lia.
Qed.

Lemma combine_seq_shift {X} (l : list X) k : forall a,
  combine (seq (a + k) (length l)) l = map (fun p => (fst p + k, snd p)) (combine (seq a (length l)) l).
Proof.
  induction l as [|x l IH]; intro a; simpl; [reflexivity|].
  f_equal. apply (IH (Datatypes.S a)).
Qed.

Lemma indexed_app {X} (l1 l2 : list X) :
  indexed (l1 ++ l2) = indexed l1 ++ map (fun p => (fst p + length l1, snd p)) (indexed l2).
Proof.
  unfold indexed. rewrite app_length, combine_seq_app. f_equal. apply (combine_seq_shift l2 (length l1) 0).
Qed.

Lemma indexed_map {X Y} (f : X -> Y) (l : list X) : indexed (map f l) = map (fun p => (fst p, f (snd p))) (indexed l).
Proof.
  unfold indexed. rewrite map_length. generalize 0 as a. induction l as [|x l IH]; intro a; simpl; [reflexivity|].
  f_equal. apply IH.
Qed.

Lemma flat_map_map0 {X Y Z} (f : Y -> list Z) (g : X -> Y) (l : list X) :
  flat_map f (map g l) = flat_map (fun x => f (g x)) l.
Proof. induction l as [|a l IH]; simpl; [reflexivity | rewrite IH; reflexivity]. Qed.

Lemma tcol_app s j (l1 l2 : list row) : tcol s j (l1 ++ l2) = tcol s j l1 ++ tcol (s + length l1) j l2.
Proof.
  unfold tcol. rewrite indexed_app, flat_map_app. f_equal.
  rewrite flat_map_map0.
  apply flat_map_ext. intros [i r]. simpl. apply map_ext. intro e. f_equal. lia.
Qed.

Lemma tcol_nil s j : tcol s j [] = [].
Proof. reflexivity. Qed.

(* the serial transpose, row j *)
Lemma transpose_row (A : crs) j : j < ncols A -> nth j (rows (transpose A)) [] = tcol 0 j (rows A).
Proof.
  intro H. unfold transpose. simpl. rewrite nth_map_seq by exact H. unfold tcol.
  apply flat_map_ext. intros [i r]. simpl. apply map_ext. intro e. f_equal. lia.
Qed.

(* ---- local and remote parts of a block ---- *)
Lemma filter_loc_row b p j (r : row) : b <= j < b + p ->
  filter (fun e => Nat.eqb (fst e) (j - b)) (loc_row b p r) = map (fun e => (fst e - b, snd e)) (filter (fun e => Nat.eqb (fst e) j) r).
Proof.
  intro H. unfold loc_row. induction r as [|e r IH]; simpl; [reflexivity|].
  unfold in_range at 1. destruct (Nat.leb_spec b (fst e)), (Nat.ltb_spec (fst e) (b + p)); simpl.
  - destruct (Nat.eqb_spec (fst e - b) (j - b)), (Nat.eqb_spec (fst e) j); try lia; simpl; [f_equal|]; exact IH.
  - destruct (Nat.eqb_spec (fst e) j); [lia | exact IH].
  - destruct (Nat.eqb_spec (fst e) j); [lia | exact IH].
  - destruct (Nat.eqb_spec (fst e) j); [lia | exact IH].
Qed.

Lemma filter_rem_row b p j (r : row) :
  filter (fun e => Nat.eqb (fst e) j) (rem_row b p r) = if in_range b p j then [] else filter (fun e => Nat.eqb (fst e) j) r.
Proof.
  unfold rem_row. induction r as [|e r IH]; simpl; [destruct (in_range b p j); reflexivity|].
  destruct (in_range b p (fst e)) eqn:E; simpl.
  - destruct (Nat.eqb_spec (fst e) j) as [<-|]; [rewrite E in *; exact IH | exact IH].
  - destruct (Nat.eqb_spec (fst e) j) as [<-|]; [rewrite E in *; simpl; f_equal; exact IH | exact IH].
Qed.

Lemma map_flat_map {X Y Z} (g : Y -> Z) (f : X -> list Y) (l : list X) :
  map g (flat_map f l) = flat_map (fun x => map g (f x)) l.
Proof. induction l as [|a l IH]; simpl; [reflexivity|]. rewrite map_app, IH. reflexivity. Qed.

Lemma flat_map_map {X Y Z} (f : Y -> list Z) (g : X -> Y) (l : list X) :
  flat_map f (map g l) = flat_map (fun x => f (g x)) l.
Proof. induction l as [|a l IH]; simpl; [reflexivity | rewrite IH; reflexivity]. Qed.

Lemma tcol_loc b p s j (rws : list row) : b <= j < b + p ->
  map (fun e : nat * S => (fst e + s, snd e)) (tcol 0 (j - b) (map (loc_row b p) rws)) = tcol s j rws.
Proof.
  intro H. unfold tcol. rewrite indexed_map, map_flat_map, flat_map_map.
  apply flat_map_ext. intros [i r]. simpl.
  rewrite filter_loc_row by exact H. rewrite !map_map. apply map_ext. intro e. simpl. f_equal. lia.
Qed.

Lemma tcol_rem b p s j (rws : list row) :
  map (fun e : nat * S => (fst e + s, snd e)) (tcol 0 j (map (rem_row b p) rws))
  = if in_range b p j then [] else tcol s j rws.
Proof.
  unfold tcol. rewrite indexed_map, map_flat_map, flat_map_map.
  destruct (in_range b p j) eqn:E.
  - induction (indexed rws) as [|[i r] l IH]; simpl; [reflexivity|].
    rewrite filter_rem_row, E. simpl. exact IH.
  - apply flat_map_ext. intros [i r]. simpl.
    rewrite filter_rem_row, E. rewrite !map_map. apply map_ext. intro e. simpl. f_equal. lia.
Qed.

(* ---- cutting the serial column along the row partition ---- *)
Lemma tcol_chunks (parts : list nat) : forall s j (rws : list row), psum parts = length rws ->
  tcol s j rws = flat_map (fun d => tcol (s + pbeg parts d) j (nth d (chunks parts rws) [])) (seq 0 (length parts)).
Proof.
  induction parts as [|p ps IH]; intros s j rws H; simpl in *.
  - destruct rws; [reflexivity | simpl in H; lia].
  - rewrite <- (firstn_skipn p rws) at 1. rewrite tcol_app.
    unfold pbeg at 1. simpl. rewrite Nat.add_0_r. f_equal.
    rewrite firstn_length, Nat.min_l by lia.
    rewrite (IH (s + p) j (skipn p rws)) by (rewrite skipn_length; lia).
    rewrite <- seq_shift, flat_map_map0.
    apply flat_map_ext. intro d. f_equal. unfold pbeg. simpl. lia.
Qed.

(* ---- pulling one block to the front is a permutation ---- *)
Lemma perm_pull {X} (f : nat -> list X) (q : nat) (l : list nat) : NoDup l -> In q l ->
  Permutation (f q ++ flat_map (fun d => if Nat.eqb d q then [] else f d) l) (flat_map f l).
Proof.
  induction l as [|a l IH]; intros Hnd Hin; simpl; [destruct Hin|].
  inversion Hnd as [|? ? Hna Hnd']; subst.
  destruct (Nat.eqb_spec a q) as [->|Hne].
  - simpl. apply Permutation_app_head.
    rewrite (flat_map_ext_in' (fun d => if Nat.eqb d q then [] else f d) f); [reflexivity|].
    intros d Hd. destruct (Nat.eqb_spec d q); [subst; contradiction | reflexivity].
  - destruct Hin as [Hin|Hin]; [congruence|].
    rewrite app_assoc. eapply Permutation_trans; [apply Permutation_app_tail; apply Permutation_app_comm|].
    rewrite <- app_assoc. apply Permutation_app_head. apply IH; assumption.
Qed.

(* ---- ranges of a contiguous partition are disjoint ---- *)
Lemma pbeg_mono (parts : list nat) d q : d <= q -> pbeg parts d <= pbeg parts q.
Proof.
  unfold pbeg. revert d q; induction parts as [|p ps IH]; intros d q H.
  - rewrite !firstn_nil. reflexivity.
  - destruct d, q; simpl; try lia. specialize (IH d q). lia.
Qed.

Lemma range_owner (parts : list nat) d q j : d < length parts -> q < length parts ->
  pbeg parts q <= j < pbeg parts q + psize parts q ->
  in_range (pbeg parts d) (psize parts d) j = Nat.eqb d q.
Proof.
  intros Hd Hq Hj. unfold in_range, psize in *.
  destruct (Nat.eqb_spec d q) as [->|Hne].
  - apply andb_true_intro. split; [apply Nat.leb_le | apply Nat.ltb_lt]; lia.
  - destruct (Nat.lt_ge_cases d q) as [Hlt|Hge].
    + (* d < q: d's range ends before q's begins *)
      pose proof (pbeg_mono parts (Datatypes.S d) q Hlt) as Hm. rewrite pbeg_S in Hm by exact Hd.
      destruct (Nat.ltb_spec j (pbeg parts d + nth d parts 0)); [lia|]. apply andb_false_r.
    + assert (Hgt : q < d) by lia.
      pose proof (pbeg_mono parts (Datatypes.S q) d Hgt) as Hm. rewrite pbeg_S in Hm by exact Hq.
      destruct (Nat.leb_spec (pbeg parts d) j); [lia | reflexivity].
Qed.

(* ---- rows of a concatenation of blocks ---- *)
Lemma nth_concat_blocks {X} (Ls : list (list X)) (parts : list nat) q c d0 :
  map (@length X) Ls = parts -> q < length parts -> c < nth q parts 0 ->
  nth (pbeg parts q + c) (concat Ls) d0 = nth c (nth q Ls []) d0.
Proof.
  intros H. subst parts. revert q c. induction Ls as [|L Ls IH]; intros q c Hq Hc; simpl in *; [lia|].
  destruct q as [|q].
  - unfold pbeg. simpl. rewrite app_nth1 by exact Hc. reflexivity.
  - unfold pbeg. simpl. rewrite app_nth2 by lia.
    replace (length L + psum (firstn q (map (@length X) Ls)) + c - length L) with (pbeg (map (@length X) Ls) q + c)
      by (unfold pbeg; lia).
    apply IH; [lia | exact Hc].
Qed.

Lemma nth_map2_rows (f : row -> row -> row) (L1 L2 : list row) k : k < length L1 -> k < length L2 ->
  nth k (map2 f L1 L2) [] = f (nth k L1 []) (nth k L2 []).
Proof.
  revert L2 k; induction L1 as [|a L1 IH]; intros [|b L2] [|k] H1 H2; simpl in *; try lia; auto. apply IH; lia.
Qed.

(* ---- the theorem ---- *)
Variable A : crs.
Variables rparts cparts : list nat.
Hypothesis Hparts : length rparts = length cparts.
Hypothesis Hrows : psum rparts = nrows A.
Hypothesis Hcols : psum cparts = ncols A.
Local Notation n := (length cparts).
Local Notation D := (split A rparts cparts).
Local Notation T := (dist_transpose D rparts).

Lemma T_rank q : q < n ->
  nth q (dm_ranks T) dflt_rank =
  mkRankMat (transpose (rm_loc (split_rank A rparts cparts q)))
    (mkCrs (psum rparts)
       (map (fun c => flat_map (fun d => map (fun e : nat * S => (fst e + pbeg rparts d, snd e))
                                             (nth (c + pbeg cparts q) (rows (transpose (rm_rem (split_rank A rparts cparts d)))) []))
                               (seq 0 n))
            (seq 0 (psize cparts q)))).
Proof.
  intro Hq. unfold dist_transpose. simpl dm_ranks. simpl dm_cparts. rewrite nth_map_seq by exact Hq.
  rewrite (nth_map_seq (split_rank A rparts cparts) n q dflt_rank Hq).
  f_equal. f_equal. apply map_ext. intro c. apply flat_map_ext_in'. intros d Hd. apply in_seq in Hd.
  rewrite (nth_map_seq (split_rank A rparts cparts) n d dflt_rank) by lia. reflexivity.
Qed.

(* row c of rank q's strip of the transposed matrix *)
Lemma T_strip_row q c : q < n -> c < psize cparts q ->
  nth c (strip_rows (pbeg rparts q) (nth q (dm_ranks T) dflt_rank)) [] =
  map (fun e : nat * S => (fst e + pbeg rparts q, snd e)) (nth c (rows (transpose (rm_loc (split_rank A rparts cparts q)))) [])
  ++ flat_map (fun d => map (fun e : nat * S => (fst e + pbeg rparts d, snd e))
                            (nth (c + pbeg cparts q) (rows (transpose (rm_rem (split_rank A rparts cparts d)))) []))
              (seq 0 n).
Proof.
  intros Hq Hc. rewrite (T_rank q Hq). unfold strip_rows. cbn [rm_loc rm_rem rows].
  etransitivity; [apply nth_map2_rows|].
  - unfold transpose. simpl. rewrite map_length, seq_length. exact Hc.
  - rewrite map_length, seq_length. exact Hc.
  - cbv beta. apply f_equal. exact (nth_map_seq _ _ c _ Hc).
Qed.

Theorem dist_transpose_assembled_perm :
  ncols (assemble T) = nrows A /\
  forall j, j < ncols A ->
    Permutation (nth j (rows (assemble T)) []) (nth j (rows (transpose A)) []).
Proof.
  split; [unfold assemble; simpl; exact Hrows|].
  intros j Hj.
  (* j = cbeg_q + c *)
  assert (Hj' : j < psum cparts) by lia.
  destruct (owner_spec cparts j Hj') as [Hq Hrange].
  set (q := owner cparts j) in *. set (c := j - pbeg cparts q).
  assert (Hc : c < psize cparts q) by (unfold c, psize; lia).
  assert (Ej : j = pbeg cparts q + c) by (unfold c; lia).
  (* the assembled row *)
  assert (Erows : rows (assemble T) = concat (map (fun r => strip_rows (pbeg rparts r) (nth r (dm_ranks T) dflt_rank)) (seq 0 (length rparts))))
    by reflexivity.
  rewrite Erows. clear Erows.
  assert (Hlens : map (@length row) (map (fun r => strip_rows (pbeg rparts r) (nth r (dm_ranks T) dflt_rank)) (seq 0 (length rparts)))
                  = cparts).
  { rewrite map_map. rewrite Hparts.
    rewrite <- (map_nth_seq cparts 0) at 2.
    apply map_ext_in. intros r Hr. apply in_seq in Hr. destruct Hr as [_ Hr]. simpl in Hr.
    rewrite (T_rank r Hr). unfold strip_rows. simpl.
    assert (G2 : forall {X Y Z} (f : X -> Y -> Z) (l1 : list X) (l2 : list Y), length l1 = length l2 -> length (map2 f l1 l2) = length l1).
    { clear. intros X Y Z f l1. induction l1; intros [|b l2] H; simpl in *; try lia. f_equal. apply IHl1. lia. }
    rewrite G2 by (rewrite !map_length, !seq_length; reflexivity).
    rewrite map_length, seq_length. reflexivity. }
  assert (Erow : nth j (concat (map (fun r => strip_rows (pbeg rparts r) (nth r (dm_ranks T) dflt_rank)) (seq 0 (length rparts)))) []
                 = map (fun e : nat * S => (fst e + pbeg rparts q, snd e)) (nth c (rows (transpose (rm_loc (split_rank A rparts cparts q)))) [])
                   ++ flat_map (fun d => map (fun e : nat * S => (fst e + pbeg rparts d, snd e))
                                             (nth (c + pbeg cparts q) (rows (transpose (rm_rem (split_rank A rparts cparts d)))) []))
                               (seq 0 n)).
  { rewrite Ej at 1.
    etransitivity; [apply (nth_concat_blocks _ cparts q c [] Hlens Hq Hc)|].
    rewrite Hparts.
    etransitivity; [|apply (T_strip_row q c Hq Hc)].
    apply (f_equal (fun L : list row => nth c L [])).
    exact (nth_map_seq (fun r => strip_rows (pbeg rparts r) (nth r (dm_ranks T) dflt_rank)) n q [] Hq). }
  rewrite Erow. clear Erow.
  (* the serial row, cut along the row partition *)
  rewrite (transpose_row A j Hj).
  rewrite (tcol_chunks rparts 0 j (rows A)) by (unfold nrows in Hrows; exact Hrows).
  rewrite Hparts.
  rewrite (flat_map_ext_in' (fun d => tcol (0 + pbeg rparts d) j (nth d (chunks rparts (rows A)) []))
                            (fun d => tcol (pbeg rparts d) j (nth d (chunks rparts (rows A)) []))) by (intros; reflexivity).
  (* local block of q *)
  assert (Eloc : map (fun e : nat * S => (fst e + pbeg rparts q, snd e)) (nth c (rows (transpose (rm_loc (split_rank A rparts cparts q)))) [])
                 = tcol (pbeg rparts q) j (nth q (chunks rparts (rows A)) [])).
  { unfold split_rank, split_rows. cbn [rm_loc].
    rewrite (transpose_row (mkCrs (psize cparts q) (map (loc_row (pbeg cparts q) (psize cparts q)) (nth q (chunks rparts (rows A)) []))) c Hc).
    cbn [rows]. unfold c. apply tcol_loc. unfold psize. lia. }
  rewrite Eloc. clear Eloc.
  (* remote blocks *)
  rewrite (flat_map_ext_in' _ (fun d => if Nat.eqb d q then [] else tcol (pbeg rparts d) j (nth d (chunks rparts (rows A)) []))).
  - apply (perm_pull (fun d => tcol (pbeg rparts d) j (nth d (chunks rparts (rows A)) [])) q (seq 0 n)).
    + apply seq_NoDup.
    + apply in_seq. lia.
  - intros d Hd. apply in_seq in Hd. destruct Hd as [_ Hd]. simpl in Hd.
    unfold split_rank, split_rows. cbn [rm_rem].
    replace (c + pbeg cparts q) with j by lia.
    rewrite (transpose_row (mkCrs (ncols A) (map (rem_row (pbeg cparts d) (psize cparts d)) (nth d (chunks rparts (rows A)) []))) j Hj).
    cbn [rows]. rewrite tcol_rem.
    rewrite (range_owner cparts d q j Hd Hq) by (unfold psize; lia). reflexivity.
Qed.

End Transpose.
