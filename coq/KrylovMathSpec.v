(* KrylovMathSpec.v -- executable (boolean) forms of the C05-B statements, evaluated by the oracle
   stage of tools/props/C05.py on the IMPLEMENTATION's iterates in exact arithmetic
   (ocaml/krylovmath/ops_c05.ml).  Definitions only; that the model's iterates pass these checks is
   proved in KrylovMathSound.v.
   xs = [x_0; x_1; ...; x_K], x_k = what the solver returns with maxiter = k (and did k iterations). *)
From Amgcl Require Import Scalar Vec KrylovRef.
Local Open Scope S_scope.
Local Notation SS := Datatypes.S.

Section Spec.
Context {S : Scalar}.
Local Notation vec := (vec S).

Definition resid (A : vec -> vec) (f x : vec) : vec := vsub f (A x).
(* ok a b for every a before b in the list *)
Fixpoint pairs_ok {X : Type} (ok : X -> X -> bool) (l : list X) : bool :=
  match l with [] => true | a :: tl => forallb (fun b => ok a b) tl && pairs_ok ok tl end.
(* successive differences x_1 - x_0, x_2 - x_1, ... *)
Fixpoint diffs (xs : list vec) : list vec :=
  match xs with
  | a :: tl => match tl with b :: _ => vsub b a :: diffs tl | [] => [] end
  | [] => []
  end.
(* [v; K v; ...; K^(i-1) v] *)
Fixpoint kry (K : vec -> vec) (i : nat) (v : vec) : list vec :=
  match i with O => [] | SS i' => v :: kry K i' (K v) end.
Definition orth_to (r : vec) (vs : list vec) : bool := forallb (fun v => is_zero (rdot r v)) vs.

(* ---------------- CG ---------------- *)
(* <r_k, P r_j> = 0 for j < k *)
Definition cg_res_orth_ok (A P : vec -> vec) (f : vec) (xs : list vec) : bool :=
  pairs_ok (fun rj rk => is_zero (rdot rk (P rj))) (map (resid A f) xs).
(* <x_{k+1} - x_k, A (x_{j+1} - x_j)> = 0 for j < k *)
Definition cg_dir_conj_ok (A : vec -> vec) (xs : list vec) : bool :=
  pairs_ok (fun dj dk => is_zero (rdot dk (A dj))) (diffs xs).
(* Galerkin: r_k orthogonal to K_k(PA, P r_0) *)
Fixpoint cg_galerkin_from (A P : vec -> vec) (f z0 : vec) (k : nat) (xs : list vec) : bool :=
  match xs with
  | [] => true
  | x :: tl => orth_to (resid A f x) (kry (fun v => P (A v)) k z0) && cg_galerkin_from A P f z0 (SS k) tl
  end.
Definition cg_galerkin_ok (A P : vec -> vec) (f : vec) (xs : list vec) : bool :=
  match xs with [] => true | x0 :: _ => cg_galerkin_from A P f (P (resid A f x0)) 0 xs end.
(* optimality probes: err(x_k) <= err(x_k + v) and err(x_k - v), v a generator of K_k;  xsol = A^-1 f *)
Definition errA (A : vec -> vec) (xsol y : vec) : S := let e := vsub xsol y in rdot e (A e).
Fixpoint cg_opt_from (A P : vec -> vec) (xsol z0 : vec) (k : nat) (xs : list vec) : bool :=
  match xs with
  | [] => true
  | x :: tl =>
    forallb (fun v => negb (sltb (errA A xsol (vadd x v)) (errA A xsol x)) &&
                      negb (sltb (errA A xsol (vsub x v)) (errA A xsol x)))
            (kry (fun v => P (A v)) k z0)
    && cg_opt_from A P xsol z0 (SS k) tl
  end.
Definition cg_opt_ok (A P : vec -> vec) (f xsol : vec) (xs : list vec) : bool :=
  match xs with [] => true | x0 :: _ => cg_opt_from A P xsol (P (resid A f x0)) 0 xs end.

(* ---------------- GMRES family: Petrov-Galerkin condition up to a tolerance ----------------
   rho_k = (P)(f - A x_k) is orthogonal to K * K_k(K, rho_0), K = P A (left) or A P (right), where
   x_0 is the restart point.  The square root of the exact instance is a pseudo-root (2^-64 grid), so
   the condition holds up to a relative defect; ok iff
     |<rho_k, w>| <= tol * (1 + <rho_0, rho_0>) * (1 + <w, w>)   for w = K^(i+1) rho_0, i < k *)
Definition gm_opt_ok (K : vec -> vec) (tol : S) (rho0 rhok : vec) (k : nat) : bool :=
  forallb (fun w => negb (sltb (tol * (s1 + rdot rho0 rho0) * (s1 + rdot w w)) (sabs (rdot rhok w))))
          (kry K k (K rho0)).
(* ... and the residual norm does not exceed that of the restart point: <rho_k,rho_k> <= (1+tol) <rho_0,rho_0> *)
Definition gm_noincrease_ok (tol : S) (rho0 rhok : vec) : bool :=
  negb (sltb ((s1 + tol) * rdot rho0 rho0) (rdot rhok rhok)).

End Spec.
