(* Amg.v -- the multigrid hierarchy: construction (do_init / step_down), rebuild, cycle, apply
   (amgcl/amg.hpp:199-209, 254-301, 358-459, 474-560).
   Smoothers and the coarse direct solver are function-valued fields, so the same text
   serves the abstract theorems (AmgProofs.v) and the executable instance.
   Per-level work vectors f, u, t are explicit state (scratch) threaded through the cycle. *)
From Amgcl Require Import Scalar Vec Crs Kernels MatOps.
Local Open Scope S_scope.

Section Amg.
Context {S : Scalar}.
Local Notation vec := (vec S).
Local Notation crs := (crs S).

(* a smoother sweep: rhs -> x -> tmp -> (x', tmp') *)
Definition sweep := vec -> vec -> vec -> vec * vec.

Record level := mkLevel {
  lA : crs;
  lP : crs;                          (* meaningless on the last level *)
  lR : crs;
  lpre  : sweep;                     (* relax->apply_pre  (A, rhs, x, t) *)
  lpost : sweep;                     (* relax->apply_post (A, rhs, x, t) *)
  lsolve : option (vec -> vec -> vec)  (* direct coarse solver: (rhs, x) -> x' *)
}.

Record scratch := mkScratch { sf : vec; su : vec; st : vec }.

Fixpoint iter {X : Type} (n : nat) (f : X -> X) (x : X) : X :=
  match n with O => x | Datatypes.S k => iter k f (f x) end.

Definition sweeps (n : nat) (sw : sweep) (rhs : vec) (xt : vec * vec) : vec * vec :=
  iter n (fun xt => sw rhs (fst xt) (snd xt)) xt.

Section Cycle.
Variables npre npost ncycle : nat.

(* cycle(lvl, rhs, x): scr is the list of scratch records of lvl and all coarser levels.
   The recursive call passes nxt->f as rhs and nxt->u as x (aliases of the next level's
   scratch): after the call nxt->u holds the returned vector. *)
Fixpoint cycle (lvls : list level) (scr : list scratch) (rhs x : vec) {struct lvls} : vec * list scratch :=
  match lvls, scr with
  | lvl :: rest, s :: srest =>
    match rest, srest with
    | nxt :: _, sn :: srest' =>
      (* one pass of the for(j < ncycle) loop; state = (x, own t, scratch of coarser levels) *)
      let body := fun (st3 : vec * vec * list scratch) =>
        let '(x, t, sc) := st3 in
        match sc with
        | sn :: sc' =>
          let '(x1, t1) := sweeps npre (lpre lvl) rhs (x, t) in
          let t2 := residual rhs (lA lvl) x1 t1 in
          let f' := spmv s1 (lR lvl) t2 s0 (sf sn) in
          let u0 := vclear (su sn) in
          let '(u', sc'') := cycle rest (mkScratch f' u0 (st sn) :: sc') f' u0 in
          let sc3 := match sc'' with
                     | sn2 :: tl => mkScratch (sf sn2) u' (st sn2) :: tl
                     | [] => []
                     end in
          let x2 := spmv s1 (lP lvl) u' s1 x1 in
          let '(x3, t3) := sweeps npost (lpost lvl) rhs (x2, t2) in
          (x3, t3, sc3)
        | [] => st3
        end in
      let '(xf, tf, scf) := iter ncycle body (x, st s, srest) in
      (xf, mkScratch (sf s) (su s) tf :: scf)
    | _, _ =>
      (* coarsest level *)
      match lsolve lvl with
      | Some sv => (sv rhs x, scr)
      | None =>
        let '(x1, t1) := sweeps npre (lpre lvl) rhs (x, st s) in
        let '(x2, t2) := sweeps npost (lpost lvl) rhs (x1, t1) in
        (x2, mkScratch (sf s) (su s) t2 :: srest)
      end
    end
  | _, _ => (x, scr)
  end.

(* apply(rhs, x): clear x, then pre_cycles cycles; pre_cycles = 0 copies rhs *)
Definition apply (pre_cycles : nat) (lvls : list level) (scr : list scratch) (rhs x : vec)
  : vec * list scratch :=
  match pre_cycles with
  | O => (vcopy rhs x, scr)
  | _ => iter pre_cycles (fun xs => cycle lvls (snd xs) rhs (fst xs)) (vclear x, scr)
  end.

End Cycle.

(* ---------------- hierarchy construction ---------------- *)
Inductive ldesc :=
| LMid  (A P R : crs)      (* level with smoother and transfer operators *)
| LLast (A : crs)          (* last level handled by the smoother *)
| LSolve (A : crs).        (* last level handled by the direct solver *)

Definition ld_A (l : ldesc) : crs := match l with LMid A _ _ => A | LLast A => A | LSolve A => A end.

Section Build.
Variable coarse_enough : nat.
Variable direct_coarse : bool.
Variable max_levels : nat.
(* coarse_operator of the coarsening policy (galerkin, or scaled galerkin) *)
Variable coarse_op : crs -> crs -> crs -> crs.

(* do_init with the transfer operators supplied level by level (None = empty_level thrown by
   transfer_operators); nlev = number of levels already pushed *)
Fixpoint build (ts : list (option (crs * crs))) (A : crs) (nlev : nat) : list ldesc :=
  if Nat.leb (nrows A) coarse_enough then
    [if direct_coarse then LSolve A else LLast A]
  else if Nat.leb max_levels (Datatypes.S nlev) then [LLast A]
  else match ts with
       | Some (P, R) :: ts' =>
         let P' := sort_rows P in let R' := sort_rows R in
         LMid A P' R' :: build ts' (sort_rows (coarse_op A P' R')) (Datatypes.S nlev)
       | _ => [LLast A]
       end.

(* amg(M, prm): copy, sort rows, do_init *)
Definition amg_init (ts : list (option (crs * crs))) (M : crs) : list ldesc :=
  build ts (sort_rows M) 0.

(* rebuild(A'): every level keeps its transfer operators; matrices are recomputed *)
Fixpoint rebuild_levels (ls : list ldesc) (A : crs) : list ldesc :=
  match ls with
  | [] => []
  | LMid _ P R :: tl => LMid A P R :: rebuild_levels tl (sort_rows (coarse_op A P R))
  | LLast _ :: tl => LLast A :: rebuild_levels tl A
  | LSolve _ :: tl => LSolve A :: rebuild_levels tl A
  end.
Definition amg_rebuild (ls : list ldesc) (M : crs) : list ldesc := rebuild_levels ls (sort_rows M).

Definition transfers_of (ls : list ldesc) : list (option (crs * crs)) :=
  map (fun l => match l with LMid _ P R => Some (P, R) | _ => None end) ls.

End Build.

Definition galerkin (A P R : crs) : crs := spgemm_saad R (spgemm_saad A P false) false.
Definition scaled_galerkin (s : S) (A P R : crs) : crs := mscale (galerkin A P R) s.

(* turn descriptors into runnable levels *)
Section Instantiate.
Variable mk_relax : crs -> sweep * sweep.        (* relax_type(A, prm.relax) *)
Variable mk_solve : crs -> vec -> vec -> vec.    (* Backend::create_solver(A) *)
Definition empty_crs : crs := mkCrs 0 [].
Definition instantiate (l : ldesc) : level :=
  match l with
  | LMid A P R => let r := mk_relax A in mkLevel A P R (fst r) (snd r) None
  | LLast A => let r := mk_relax A in mkLevel A empty_crs empty_crs (fst r) (snd r) None
  | LSolve A => mkLevel A empty_crs empty_crs (fun _ x t => (x, t)) (fun _ x t => (x, t)) (Some (mk_solve A))
  end.
(* create_vector: zero vectors of the level size; LSolve levels have no t *)
Definition fresh_scratch (l : ldesc) : scratch :=
  let n := nrows (ld_A l) in mkScratch (vzero n) (vzero n) (vzero n).
End Instantiate.

End Amg.
